"""
tg2v -- fail-closed translator (Python AST -> Gallina) for the code that decides property C15 (trigger formulas):
the small methods through which docactions/useractions/engine ask for exemptions (prevent_recalc) and invalidations
(invalidate_column / invalidate_records / invalidate_deps), the metadata predicate recalcOnChangesToSelf, the
SingleRowsIdentityRelation filter, the edge construction of _maybe_update_trigger_dependencies and
Engine.trim_update_action.  Output: coq/gen/Trigger_gen.v over the vocabulary of Lib/TrigEff.v; every generated
function is proved equal to the hand model in Proofs/Trigger_bridge.v.

A function is translated statement by statement.  A statement is either TRANSLATED (it belongs to the subset below)
or GLUE: bookkeeping that does not decide the property (undo/summary records, cell writes, asserts, checks on
metadata tables).  Glue is never guessed: the function's spec lists the hash of the normalised AST of every glue
statement (docstrings dropped, local names replaced by their order of first appearance), so an edit of glue breaks
the pin and an edit of translated code changes the generated definition.  Anything else raises Untranslatable.

Types: Z bool zlist (list Z) rows (rowsel) optzlist (option (list Z)) col (colinfo) cols (list colinfo)
       dict (list (Z * list Z)) action effs (list eff).
"""
import ast
import hashlib


class Untranslatable(Exception):
  pass


def fail(node, msg):
  raise Untranslatable('line %s: %s' % (getattr(node, 'lineno', '?'), msg))


def dotted(e):
  if isinstance(e, ast.Name):
    return e.id
  if isinstance(e, ast.Attribute):
    d = dotted(e.value)
    return d + '.' + e.attr if d else None
  return None


def find_func(tree, path):
  """path = ['Class', 'method'] or ['Class', 'outer_def', 'inner_def'] ..."""
  body = tree.body
  node = None
  for name in path:
    found = [n for n in body if isinstance(n, (ast.ClassDef, ast.FunctionDef)) and n.name == name]
    if len(found) != 1:
      raise Untranslatable('cannot locate %s (%d candidates for %r)' % ('.'.join(path), len(found), name))
    node = found[0]
    body = node.body
  if not isinstance(node, ast.FunctionDef):
    raise Untranslatable('%s is not a function' % '.'.join(path))
  return node


def strip_doc(body):
  if body and isinstance(body[0], ast.Expr) and isinstance(getattr(body[0], 'value', None), ast.Constant) \
     and isinstance(body[0].value.value, str):
    return body[1:]
  return body


def local_names(fn):
  """Names bound inside the function (parameters, assignment and loop targets), in order of first appearance."""
  order = []
  def add(n):
    if n not in order:
      order.append(n)
  for a in fn.args.args + fn.args.kwonlyargs:
    add(a.arg)
  for n in ast.walk(fn):
    if isinstance(n, ast.Name) and isinstance(n.ctx, ast.Store):
      add(n.id)
  # order of first textual appearance
  pos = {}
  for n in ast.walk(fn):
    if isinstance(n, ast.Name) and n.id in order:
      key = (n.lineno, n.col_offset)
      if n.id not in pos or key < pos[n.id]:
        pos[n.id] = key
    if isinstance(n, ast.arg) and n.arg in order:
      key = (n.lineno, n.col_offset)
      if n.arg not in pos or key < pos[n.arg]:
        pos[n.arg] = key
  return sorted(order, key=lambda x: pos.get(x, (10 ** 9, 0)))


class _Canon(ast.NodeTransformer):
  """Local names -> v0, v1, ... in the order in which they first appear INSIDE the node being hashed, so that the
  hash of a statement does not depend on the rest of the function."""
  def __init__(self, names):
    self.locals = set(names)
    self.map = {}
  def canon(self, name):
    if name not in self.locals:
      return name
    if name not in self.map:
      self.map[name] = 'v%d' % len(self.map)
    return self.map[name]
  def visit_Name(self, node):
    return ast.copy_location(ast.Name(id=self.canon(node.id), ctx=node.ctx), node)
  def visit_arg(self, node):
    return ast.copy_location(ast.arg(arg=self.canon(node.arg), annotation=None), node)


def norm_hash(node, names):
  """Hash of the statement with local names canonicalised; comments and layout do not matter."""
  import copy
  n = _Canon(names).visit(copy.deepcopy(node))
  if hasattr(n, 'body') and isinstance(n, ast.FunctionDef):
    n.body = strip_doc(n.body)
  return hashlib.sha1(ast.dump(n, annotate_fields=False, include_attributes=False).encode()).hexdigest()[:12]


# ------------------------------------------------------------------------------------------------
# expressions

ATTR_OF_COL = {'node': ('ci_id', 'Z'), 'col_id': ('ci_id', 'Z'), 'recalcWhen': ('ci_recalcWhen', 'Z'),
               'id': ('ci_ref', 'Z'), 'recalcDeps': ('ci_recalcDeps', 'refs'), 'colId': ('ci_id', 'Z')}
METH_OF_COL = {'is_formula': 'ci_is_formula', 'has_formula': 'ci_has_formula'}


class Tr(object):
  def __init__(self, spec, names):
    self.spec = spec
    self.names = names
    self.used_glue = set()

  # -- helpers
  def coerce(self, term, ty, want, node):
    if ty == want:
      return term
    if ty == 'zlist' and want == 'rows':
      return '(Rows %s)' % term
    if ty == 'emptylist' and want == 'rows':
      return '(Rows [])'
    if ty == 'emptylist' and want in ('zlist', 'effs', 'cols', 'dict'):
      return '[]'
    if ty == 'dict' and want == 'zlist':          # a dict used as a collection of its keys
      return '(keys %s)' % term
    if ty == 'refs' and want == 'zlist':
      return term
    fail(node, 'type %s where %s is expected (%s)' % (ty, want, term))

  def expr(self, e, env):
    """-> (coq term, type)"""
    if isinstance(e, ast.Name):
      if e.id not in env:
        fail(e, 'unknown name %r' % e.id)
      return env[e.id]
    if isinstance(e, ast.Constant):
      if e.value is True:
        return 'true', 'bool'
      if e.value is False:
        return 'false', 'bool'
      if e.value is None:
        return 'None', 'none'
      fail(e, 'constant %r' % (e.value,))
    if isinstance(e, ast.List) and not e.elts:
      return '[]', 'emptylist'
    d = dotted(e)
    if d is not None:
      if d in self.spec.get('consts', {}):
        return self.spec['consts'][d]
      if isinstance(e, ast.Attribute):
        base, bty = self.expr(e.value, env)
        if bty == 'col' and e.attr in ATTR_OF_COL:
          f, ty = ATTR_OF_COL[e.attr]
          return '(%s %s)' % (f, base), ty
        if bty == 'col' and e.attr == 'recalcOnChangesToSelf':
          return '(gen_recalcOnChangesToSelf %s)' % base, 'bool'
        if bty == 'action' and e.attr == 'row_ids':
          return '(act_rows %s)' % base, 'zlist'
        if bty == 'action' and e.attr == 'columns':
          return '(act_cols %s)' % base, 'dict'
        if bty == 'table' and e.attr == 'all_columns':
          return 'all_columns', 'cols'
        if bty == 'colkey' and e.attr == 'col_id':
          return base, 'Z'
        if bty == 'ref' and e.attr == 'colId':
          return '(ci_id (col_of_ref all_columns %s))' % base, 'Z'
        if bty == 'edge' and e.attr in ('out_node', 'in_node'):
          return '(%s %s)' % ('fst' if e.attr == 'out_node' else 'snd', base), 'Z'
        fail(e, 'attribute %s of a %s' % (e.attr, bty))
    if isinstance(e, ast.BoolOp):
      op = '&&' if isinstance(e.op, ast.And) else '||'
      parts = [self.coerce_bool(v, env) for v in e.values]
      return '(' + (' %s ' % op).join(parts) + ')', 'bool'
    if isinstance(e, ast.UnaryOp) and isinstance(e.op, ast.Not):
      return '(negb %s)' % self.coerce_bool(e.operand, env), 'bool'
    if isinstance(e, ast.Compare) and len(e.ops) == 1:
      return self.compare(e, env)
    if isinstance(e, ast.IfExp):
      return self.ifexp(e, env)
    if isinstance(e, ast.Call):
      return self.call_expr(e, env)
    if isinstance(e, ast.ListComp):
      return self.listcomp(e, env)
    if isinstance(e, ast.DictComp):               # {col_id: [values...] for (col, values) in cols}
      fake = ast.ListComp(elt=ast.Tuple(elts=[e.key, e.value], ctx=ast.Load()), generators=e.generators)
      t, ty = self.comp(fake, env, 'list')
      if ty != 'colvals':
        fail(e, 'dict of %s' % ty)
      return t, 'dict'
    if isinstance(e, ast.Subscript):
      return self.subscript(e, env)
    fail(e, 'expression %s' % type(e).__name__)

  def coerce_bool(self, e, env):
    t, ty = self.expr(e, env)
    if ty == 'bool':
      return t
    if ty in ('dict', 'zlist', 'cols'):       # truthiness of a collection
      return '(nonempty %s)' % t
    fail(e, 'a %s used as a condition' % ty)

  def compare(self, e, env):
    op, left, right = e.ops[0], e.left, e.comparators[0]
    if isinstance(op, (ast.Is, ast.IsNot)):
      a, aty = self.expr(left, env)
      b, bty = self.expr(right, env)
      if bty != 'none' or aty != 'optzlist':
        fail(e, '`is` only against None for an optional list')
      t = '(match %s with None => true | Some _ => false end)' % a
      return (t if isinstance(op, ast.Is) else '(negb %s)' % t), 'bool'
    a, aty = self.expr(left, env)
    b, bty = self.expr(right, env)
    if isinstance(op, (ast.Eq, ast.NotEq)):
      if aty == 'Z' and bty == 'Z':
        t = '(%s =? %s)' % (a, b)
      elif aty == 'rows' and bty == 'allrows':
        t = '(is_all_rows %s)' % a
      else:
        fail(e, 'comparison of %s with %s' % (aty, bty))
      return (t if isinstance(op, ast.Eq) else '(negb %s)' % t), 'bool'
    if isinstance(op, (ast.In, ast.NotIn)):
      if aty != 'Z':
        fail(e, 'membership of a %s' % aty)
      t = '(zmem %s %s)' % (a, self.coerce(b, bty, 'zlist', e))
      return (t if isinstance(op, ast.In) else '(negb %s)' % t), 'bool'
    fail(e, 'comparison operator %s' % type(op).__name__)

  def ifexp(self, e, env):
    t = e.test
    if (isinstance(t, ast.Compare) and len(t.ops) == 1 and isinstance(t.ops[0], ast.Is)
        and isinstance(t.left, ast.Name) and env.get(t.left.id, (None, None))[1] == 'optzlist'):
      x = env[t.left.id][0]
      a, aty = self.expr(e.body, env)
      env2 = dict(env)
      env2[t.left.id] = (x + '_', 'zlist')
      b, bty = self.expr(e.orelse, env2)
      ty = self.unify(aty, bty, e)
      return '(match %s with None => %s | Some %s_ => %s end)' % (x, self.coerce(a, aty, ty, e), x,
                                                                 self.coerce(b, bty, ty, e)), ty
    c = self.coerce_bool(t, env)
    a, aty = self.expr(e.body, env)
    b, bty = self.expr(e.orelse, env)
    ty = self.unify(aty, bty, e)
    return '(if %s then %s else %s)' % (c, self.coerce(a, aty, ty, e), self.coerce(b, bty, ty, e)), ty

  def unify(self, a, b, node):
    if a == b:
      return a
    if a == 'emptylist':
      return b
    if b == 'emptylist':
      return a
    fail(node, 'branches of types %s and %s' % (a, b))

  def call_expr(self, e, env):
    f = e.func
    d = dotted(f)
    if isinstance(f, ast.Attribute) and f.attr in METH_OF_COL and not e.args and not e.keywords:
      base, bty = self.expr(f.value, env)
      if bty != 'col':
        fail(e, '%s() of a %s' % (f.attr, bty))
      return '(%s %s)' % (METH_OF_COL[f.attr], base), 'bool'
    if isinstance(f, ast.Attribute) and f.attr == 'get_column' and len(e.args) == 1 and not e.keywords:
      base, bty = self.expr(f.value, env)
      a, aty = self.expr(e.args[0], env)
      if bty != 'table' or aty != 'Z':
        fail(e, 'get_column on %s with %s' % (bty, aty))
      if self.spec.get('columns_as_keys'):        # the column object is only used through its id and raw_get
        return a, 'colkey'
      return '(get_column all_columns %s)' % a, 'col'
    if isinstance(f, ast.Attribute) and f.attr == 'raw_get' and len(e.args) == 1 and not e.keywords:
      base, bty = self.expr(f.value, env)
      a, aty = self.expr(e.args[0], env)
      if bty != 'colkey' or aty != 'Z':
        fail(e, 'raw_get of %s at %s' % (bty, aty))
      return '(raw_get %s %s)' % (base, a), 'Z'
    if isinstance(f, ast.Attribute) and f.attr in ('values', 'keys', 'items') and not e.args and not e.keywords:
      base, bty = self.expr(f.value, env)
      if bty == 'cols' and f.attr == 'values':
        return base, 'cols'
      if bty == 'dict' and f.attr == 'keys':
        return '(keys %s)' % base, 'zlist'
      if bty == 'dict' and f.attr == 'items':
        return base, 'dictitems'
      if bty == 'cols' and f.attr == 'items':
        return base, 'colitems'
      fail(e, '.%s() of a %s' % (f.attr, bty))
    if d is not None and d.endswith('.columns.lookupOne') and not e.args and \
       sorted(k.arg for k in e.keywords) == ['colId', 'tableId']:
      c, cty = self.expr([k.value for k in e.keywords if k.arg == 'colId'][0], env)
      if cty != 'Z':
        fail(e, 'lookupOne with a %s' % cty)
      return '(get_column all_columns %s)' % c, 'col'
    if d == 'depend.Node' and len(e.args) == 2 and not e.keywords:
      a, aty = self.expr(e.args[1], env)
      if aty != 'Z':
        fail(e, 'Node of a %s' % aty)
      return a, 'Z'
    if d in ('actions.BulkUpdateRecord', 'actions.BulkAddRecord') and len(e.args) == 3 and not e.keywords:
      r, rty = self.expr(e.args[1], env)
      c, cty = self.expr(e.args[2], env)
      return '(%s, %s)' % (self.coerce(r, rty, 'zlist', e), self.coerce(c, cty, 'dict', e)), 'action'
    if isinstance(f, ast.Attribute) and f.attr == 'startswith' and isinstance(f.value, ast.Name) and \
       env.get(f.value.id, (None, None))[1] == 'ignored' and len(e.args) == 1 and \
       isinstance(e.args[0], ast.Constant) and e.args[0].value == '_grist_':
      return 'is_meta', 'bool'                    # table_id.startswith('_grist_')
    if d == 'depend.Edge' and len(e.args) == 3 and not e.keywords:
      a, aty = self.expr(e.args[0], env)
      b, bty = self.expr(e.args[1], env)
      if (aty, bty) != ('Z', 'Z') or self.expr(e.args[2], env)[1] != 'relation':
        fail(e, 'Edge of %s, %s' % (aty, bty))
      return '(%s, %s)' % (a, b), 'edge'
    if d == 'SingleRowsIdentityRelation' and len(e.args) == 1 and not e.keywords:
      return 'tt', 'relation'
    if d in self.spec.get('opaque', {}):
      name, argtypes, ret = self.spec['opaque'][d]
      args = [a for a in e.args] + [k.value for k in e.keywords]
      picked = []
      for a, want in zip(args, argtypes):
        if want is None:
          continue
        t, ty = self.expr(a, env)
        picked.append(self.coerce(t, ty, want, e))
      if len(args) != len(argtypes):
        fail(e, 'opaque call %s with %d arguments' % (d, len(args)))
      return '(%s %s)' % (name, ' '.join(picked)), ret
    if d == 'any' and len(e.args) == 1 and isinstance(e.args[0], ast.GeneratorExp):
      return self.comp(e.args[0], env, 'any')
    if d == 'enumerate' and len(e.args) == 1:
      a, aty = self.expr(e.args[0], env)
      if aty != 'zlist':
        fail(e, 'enumerate of a %s' % aty)
      return '(enumerate %s)' % a, 'enumz'
    fail(e, 'call of %s' % (d or type(f).__name__))

  def subscript(self, e, env):
    d = dotted(e.value)
    if d in ('self.tables', 'self._engine.tables'):
      return 'all_columns', 'table'
    base, bty = self.expr(e.value, env)
    idx, ity = self.expr(e.slice, env)
    if bty == 'zlist' and ity == 'nat':
      return '(znth %s %s)' % (base, idx), 'Z'
    fail(e, 'subscript of a %s by a %s' % (bty, ity))

  # element binders of comprehensions and loops: iterable type -> (pattern, {python name: (coq, type)})
  def binder(self, target, ity, node):
    def nm(t):
      if not isinstance(t, ast.Name):
        fail(node, 'loop target')
      return t.id
    if ity in ('zlist', 'cols', 'refs', 'natlist'):
      n = nm(target)
      ty = {'zlist': 'Z', 'cols': 'col', 'refs': 'ref', 'natlist': 'nat'}[ity]
      return n, {n: (n, ty)}
    if ity in ('dictitems', 'colitems', 'enumz', 'colvals', 'colobjvals') and isinstance(target, ast.Tuple) \
       and len(target.elts) == 2:
      a, b = nm(target.elts[0]), nm(target.elts[1])
      if ity == 'colobjvals':
        return "'(%s, %s)" % (a, b), {a: (a, 'col'), b: (b, 'zlist')}
      if ity == 'dictitems':
        return "'(%s, %s)" % (a, b), {a: (a, 'Z'), b: (b, 'zlist')}
      if ity == 'colvals':
        return "'(%s, %s)" % (a, b), {a: (a, 'colkey'), b: (b, 'zlist')}
      if ity == 'enumz':
        return "'(%s, %s)" % (a, b), {a: (a, 'nat'), b: (b, 'Z')}
      # all_columns.items(): the key is the column's id, the value the column object
      return b, {a: ('(ci_id %s)' % b, 'Z'), b: (b, 'col')}
    if ity == 'colkeys':                        # iterating table.all_columns yields the ids
      n = nm(target)
      return n + '_col', {n: ('(ci_id %s_col)' % n, 'Z'), '%s#col' % n: (n + '_col', 'col')}
    fail(node, 'iteration over a %s' % ity)

  def comp(self, e, env, kind):
    if len(e.generators) != 1 or e.generators[0].is_async:
      fail(e, 'comprehension with several generators')
    g = e.generators[0]
    it, ity = self.expr(g.iter, env)
    if ity == 'dict':
      ity = 'dictitems' if isinstance(g.target, ast.Tuple) else 'zlist'
      it = it if ity == 'dictitems' else '(keys %s)' % it
    pat, binds = self.binder(g.target, ity, e)
    env2 = dict(env)
    env2.update(binds)
    src = it
    for cond in g.ifs:
      src = '(filter (fun %s => %s) %s)' % (pat, self.coerce_bool(cond, env2), src)
    if kind == 'any':
      return '(existsb (fun %s => %s) %s)' % (pat, self.coerce_bool(e.elt, env2), src), 'bool'
    el, elty = self.elt(e.elt, env2)
    out = {'Z': 'zlist', 'col': 'cols', 'colval': 'colvals', 'nat': 'natlist', 'dictitem': 'dict'}.get(elty)
    if out is None:
      fail(e, 'list of %s' % elty)
    return '(map (fun %s => %s) %s)' % (pat, el, src), out

  def elt(self, e, env):
    if isinstance(e, ast.Tuple) and len(e.elts) == 2:
      a, aty = self.expr(e.elts[0], env)
      b, bty = self.expr(e.elts[1], env)
      if aty in ('colkey', 'Z') and bty == 'zlist':
        return '(%s, %s)' % (a, b), 'colval'
      fail(e, 'pair of %s and %s' % (aty, bty))
    return self.expr(e, env)

  def listcomp(self, e, env):
    return self.comp(e, env, 'list')

  # ----------------------------------------------------------------------------------------------
  # statements.  block(stmts, env, mode) -> a term of type list X: the concatenation of what the statements
  # "emit", in order.  mode 'effs': effect calls emit effects; mode ('set', name): `name.add(e)` emits [e].
  def is_glue(self, s):
    h = norm_hash(s, self.names)
    if h in self.spec.get('glue', {}):
      self.used_glue.add(h)
      return True
    return False

  def block(self, stmts, env, mode):
    if not stmts:
      return '[]'
    try:
      return self.block1(stmts, env, mode)
    except Untranslatable as e:
      if '[stmt ' in str(e):
        raise
      s = stmts[0]
      raise Untranslatable('%s [stmt %s: %s]' % (e, norm_hash(s, self.names), ast.unparse(s).replace('\n', ' ')[:160]))

  def is_accumulator(self, s, rest):
    """x = set() / x = [] directly followed by a loop: translated (never glue, whatever its hash looks like)."""
    return (isinstance(s, ast.Assign) and len(s.targets) == 1 and isinstance(s.targets[0], ast.Name) and rest
            and isinstance(rest[0], ast.For) and
            ((isinstance(s.value, ast.Call) and dotted(s.value.func) == 'set' and not s.value.args) or
             (isinstance(s.value, ast.List) and not s.value.elts)))

  def block1(self, stmts, env, mode):
    s, rest = stmts[0], stmts[1:]
    if self.is_accumulator(s, rest):
      return self.assign(s, rest, env, mode)
    if self.is_glue(s):
      g = self.spec['glue'][norm_hash(s, self.names)]
      if isinstance(g, tuple):                  # ('bind', python name, coq term, type): glue that (re)binds a name
        env = dict(env)
        env[g[1]] = (g[2], g[3])
      return self.block(rest, env, mode)
    if isinstance(s, ast.If) and not s.orelse and \
       norm_hash(ast.Expr(value=s.test), self.names) in self.spec.get('true_tests', {}):
      self.used_glue.add(norm_hash(ast.Expr(value=s.test), self.names))
      self.no_escape(s.body, rest, s)
      inner = self.block(s.body, env, mode)
      tail = self.block(rest, env, mode)
      return inner if tail == '[]' else '(%s ++ %s)' % (inner, tail)
    k = lambda env2=env: self.block(rest, env2, mode)
    cat = lambda a, b: a if b == '[]' else ('(%s ++ %s)' % (a, b))
    if isinstance(s, ast.Continue) or (isinstance(s, ast.Return) and s.value is None):
      return '[]'
    if isinstance(s, ast.Expr) and isinstance(s.value, ast.Call):
      return cat(self.emit_call(s.value, env, mode), k())
    if isinstance(s, ast.Assign):
      return self.assign(s, rest, env, mode)
    if isinstance(s, ast.If):
      ends = lambda b: b and (isinstance(b[-1], ast.Continue) or (isinstance(b[-1], ast.Return) and b[-1].value is None))
      c = self.coerce_bool(s.test, env)
      if ends(s.body) and not s.orelse:        # `if c: ...; continue` : the rest belongs to the other branch
        return '(if %s then %s else %s)' % (c, self.block(s.body, env, mode), k())
      if self.may_jump(s.body) or self.may_jump(s.orelse):
        # a `continue`/`return` somewhere inside: what follows the `if` is executed by each branch that falls through
        return '(if %s then %s else %s)' % (c, self.block(list(s.body) + list(rest), env, mode),
                                            self.block(list(s.orelse) + list(rest), env, mode))
      self.no_escape(s.body + s.orelse, rest, s)
      return cat('(if %s then %s else %s)' % (c, self.block(s.body, env, mode), self.block(s.orelse, env, mode)), k())
    if isinstance(s, ast.For) and not s.orelse and isinstance(s.iter, ast.Call) and \
       dotted(s.iter.func) == 'self.tables.items' and isinstance(s.target, ast.Tuple) and len(s.target.elts) == 2:
      # the model has ONE user table: the body is what happens for that table
      env2 = dict(env)
      env2[s.target.elts[0].id] = ('tt', 'ignored')
      env2[s.target.elts[1].id] = ('all_columns', 'table')
      self.no_escape(s.body, rest, s)
      return cat(self.block(s.body, env2, mode), k())
    if isinstance(s, ast.For) and not s.orelse:
      it, ity = self.iterable(s.iter, env)
      pat, binds = self.binder(s.target, ity, s)
      env2 = dict(env)
      env2.update(binds)
      self.no_escape(s.body, rest, s)
      inner = self.block(s.body, env2, mode)
      if inner == '[]':                         # a loop of glue only
        return k()
      return cat('(flat_map (fun %s => %s) %s)' % (pat, inner, it), k())
    fail(s, 'statement %s (hash %s)' % (type(s).__name__, norm_hash(s, self.names)))

  def may_jump(self, stmts):
    """Does the block contain a continue/return that leaves it (not counting loops nested inside it, whose
    `continue` is their own; a `return` inside a nested loop is not supported at all)?"""
    def walk(n, in_loop):
      if isinstance(n, ast.Return):
        if in_loop:
          fail(n, 'return inside a nested loop')
        return True
      if isinstance(n, ast.Continue):
        return not in_loop
      if isinstance(n, (ast.FunctionDef, ast.Lambda)):
        return False
      nested = in_loop or isinstance(n, (ast.For, ast.While))
      return any(walk(c, nested) for c in ast.iter_child_nodes(n))
    return any(walk(s, False) for s in stmts)

  def iterable(self, e, env):
    d = dotted(e)
    if d is not None and d.endswith('.all_columns') and self.expr(e.value, env)[1] == 'table':
      return 'all_columns', 'colkeys'
    it, ity = self.expr(e, env)
    if ity == 'dict':
      return '(keys %s)' % it, 'zlist'
    if ity in ('zlist', 'cols', 'dictitems', 'colitems', 'refs', 'colvals', 'enumz', 'colobjvals'):
      return it, ity
    fail(e, 'loop over a %s' % ity)

  def no_escape(self, inner, rest, node):
    bound = set(n.id for s in inner for n in ast.walk(s) if isinstance(n, ast.Name) and isinstance(n.ctx, ast.Store))
    loads = lambda n, name: any(isinstance(x, ast.Name) and x.id == name and isinstance(x.ctx, ast.Load)
                                for x in ast.walk(n))
    stores = lambda n, name: any(isinstance(x, ast.Name) and x.id == name and isinstance(x.ctx, ast.Store)
                                 for x in ast.walk(n))
    used = set()
    for name in bound:
      for s in rest:                            # a later statement that binds the name again before reading it is fine
        if isinstance(s, ast.For) and stores(s.target, name) and not loads(s.iter, name):
          break
        if isinstance(s, ast.Assign) and any(stores(t, name) for t in s.targets) and not loads(s.value, name):
          break
        if loads(s, name):
          used.add(name)
          break
    if used and not all(self.is_glue_name(b) for b in used):
      fail(node, 'names bound inside and used afterwards: %s' % sorted(used))

  def is_glue_name(self, name):
    return name in self.spec.get('glue_names', ())

  def assign(self, s, rest, env, mode):
    val = s.value
    # x = set(); for ...: x.add(e)      ->  let x := <elements emitted by the loop> in
    if (len(s.targets) == 1 and isinstance(s.targets[0], ast.Name) and isinstance(val, ast.Call)
        and dotted(val.func) == 'set' and not val.args and rest and isinstance(rest[0], ast.For)):
      x = s.targets[0].id
      loop = self.block([rest[0]], env, ('set', x))
      if loop == '[]':                          # a loop of glue only: the set is bookkeeping of that glue
        return self.block(rest[1:], env, mode)
      env2 = dict(env)
      env2[x] = (x, 'zlist')
      return '(let %s := %s in %s)' % (x, loop, self.block(rest[1:], env2, mode))
    # x = []; for ...: x.append((col, values))      ->  let x := <pairs emitted by the loop> in
    if (len(s.targets) == 1 and isinstance(s.targets[0], ast.Name) and isinstance(val, ast.List) and not val.elts
        and rest and isinstance(rest[0], ast.For)):
      x = s.targets[0].id
      loop = self.block([rest[0]], env, ('list', x))
      env2 = dict(env)
      env2[x] = (x, 'colobjvals')
      return '(let %s := %s in %s)' % (x, loop, self.block(rest[1:], env2, mode))
    t, ty = self.expr(val, env)
    env2 = dict(env)
    lets = []
    for tgt in s.targets:
      if isinstance(tgt, ast.Name):
        if ty == 'table':
          env2[tgt.id] = (t, ty)
        else:
          lets.append((tgt.id, t))
          env2[tgt.id] = (tgt.id, ty)
          t = tgt.id
      elif isinstance(tgt, (ast.List, ast.Tuple)) and ty == 'action' and len(tgt.elts) == 3:
        names = [e.id if isinstance(e, ast.Name) else None for e in tgt.elts]
        if None in names or names[0] != '_':
          fail(s, 'destructuring of an action')
        lets.append((names[1], '(act_rows %s)' % t))
        lets.append((names[2], '(act_cols %s)' % t))
        env2[names[1]] = (names[1], 'zlist')
        env2[names[2]] = (names[2], 'dict')
      elif isinstance(tgt, ast.Tuple) and ty == 'action' and len(tgt.elts) == 2 and \
           all(isinstance(e, ast.Name) for e in tgt.elts) and self.is_glue_name(tgt.elts[1].id):
        lets.append((tgt.elts[0].id, t))           # (action, extra_actions) = convert_action_values(...)
        env2[tgt.elts[0].id] = (tgt.elts[0].id, 'action')
      else:
        fail(s, 'assignment target')
    body = self.block(rest, env2, mode)
    if body == '[]':
      return body
    for name, term in reversed(lets):
      body = '(let %s := %s in %s)' % (name, term, body)
    return body

  def kw(self, call, name, pos, default=None):
    for k in call.keywords:
      if k.arg == name:
        return k.value
    if pos is not None and len(call.args) > pos:
      return call.args[pos]
    return default

  def emit_call(self, c, env, mode):
    d = dotted(c.func)
    if isinstance(mode, tuple):                 # ('set', x): only x.add(e) emits; ('list', x): only x.append((col, vs))
      if mode[0] == 'set' and d == mode[1] + '.add' and len(c.args) == 1:
        t, ty = self.expr(c.args[0], env)
        if ty != 'Z':
          fail(c, 'set of %s' % ty)
        return '[%s]' % t
      if mode[0] == 'list' and d == mode[1] + '.append' and len(c.args) == 1 and \
         isinstance(c.args[0], ast.Tuple) and len(c.args[0].elts) == 2:
        a, aty = self.expr(c.args[0].elts[0], env)
        b, bty = self.expr(c.args[0].elts[1], env)
        if (aty, bty) != ('col', 'zlist'):
          fail(c, 'list of pairs of %s and %s' % (aty, bty))
        return '[(%s, %s)]' % (a, b)
      fail(c, 'call %s inside an accumulating loop' % d)
    tail = d.split('.')[-1] if d else None
    owner = d.rsplit('.', 1)[0] if d and '.' in d else None
    arg = lambda node, want: self.coerce(*self.expr(node, env), want, c) if node is not None else None
    if tail == 'prevent_recalc' and owner in ('self', 'self._engine'):
      return '[EPrevent %s %s %s]' % (arg(self.kw(c, 'node', 0), 'Z'), arg(self.kw(c, 'row_ids', 1), 'zlist'),
                                      arg(self.kw(c, 'should_prevent', 2), 'bool'))
    if d == 'self.dep_graph.invalidate_deps':
      if dotted(self.kw(c, 'recompute_map', 2)) != 'self.recompute_map':
        fail(c, 'invalidate_deps into another map')
      return '[EInvalidate %s %s %s]' % (arg(self.kw(c, 'dirty_node', 0), 'Z'), arg(self.kw(c, 'dirty_rows', 1), 'rows'),
                                         arg(self.kw(c, 'include_self', 3), 'bool') or 'true')
    if tail == 'invalidate_column' and owner in ('self', 'self._engine'):
      return '(gen_invalidate_column %s %s %s)' % (
          arg(self.kw(c, 'col_obj', 0), 'col'), arg(self.kw(c, 'row_ids', 1), 'rows') or 'AllRows',
          arg(self.kw(c, 'recompute_data_col', 2), 'bool') or 'false')
    if tail == 'invalidate_records' and owner in ('self', 'self._engine'):
      colids = self.kw(c, 'col_ids', 2)
      rec = self.kw(c, 'data_cols_to_recompute', 3)
      return '(gen_invalidate_records all_columns %s %s %s)' % (
          arg(self.kw(c, 'row_ids', 1), 'rows') or 'AllRows',
          ('(Some %s)' % arg(colids, 'zlist')) if colids is not None else 'None',
          arg(rec, 'zlist') if rec is not None else '[]')
    if d == 'self._engine.add_records' and len(c.args) == 3:
      return '(gen_add_records all_columns %s %s)' % (arg(c.args[1], 'zlist'), arg(c.args[2], 'dict'))
    if d == 'self._do_doc_action' and len(c.args) == 1 and isinstance(c.args[0], ast.Name):
      t, ty = self.expr(c.args[0], env)
      kind = self.spec.get('action_kind', {}).get(c.args[0].id)
      if ty != 'action' or kind is None:
        fail(c, '_do_doc_action of an unknown kind of action')
      return '(gen_doc_%s all_columns (act_rows %s) (act_cols %s))' % (kind, t, t)
    if d == 'self.dep_graph.clear_dependencies' and len(c.args) == 1:
      return '[EClearDeps %s]' % arg(c.args[0], 'Z')
    if d == 'self.dep_graph.add_edge' and len(c.args) == 1 and isinstance(c.args[0], ast.Starred):
      t, ty = self.expr(c.args[0].value, env)
      if ty != 'edge':
        fail(c, 'add_edge of a %s' % ty)
      return '[EAddEdge (fst %s) (snd %s)]' % (t, t)
    fail(c, 'call of %s as a statement (hash %s)' % (d, norm_hash(ast.Expr(value=c), self.names)))


# ------------------------------------------------------------------------------------------------
# functions

COQ_TYPE = {'Z': 'Z', 'bool': 'bool', 'zlist': 'list Z', 'rows': 'rowsel', 'optzlist': 'option (list Z)',
            'col': 'colinfo', 'cols': 'list colinfo', 'dict': 'list (Z * list Z)', 'action': 'bulk_action',
            'effs': 'list eff'}


def translate_function(tree, spec, learn=None):
  """One Gallina Definition for the function named by spec['path'].
  spec keys: name, path, params [(python name, type or None)], extra [(coq binder text)], ret,
  env {python name: (coq, type)}, consts, opaque, glue {hash: note}, glue_names, action_kind, true_tests, kind."""
  fn = find_func(tree, spec['path'])
  names = local_names(fn)
  tr = Tr(spec, names)
  got = [a.arg for a in fn.args.args]
  want = ['self'] + [p for p, _ in spec['params']]
  if spec.get('nested'):
    want = want[1:]
  if got != want and not spec.get('any_param_names'):
    # parameters may be renamed: only their number is fixed
    if len(got) != len(want):
      raise Untranslatable('%s: parameters %r' % (spec['name'], got))
  env = dict(spec.get('env', {}))
  binders = list(spec.get('extra', []))
  offset = 0 if spec.get('nested') else 1
  for a, (_, ty) in zip(fn.args.args[offset:], spec['params']):
    if ty is None:
      env[a.arg] = ('tt', 'ignored')
    else:
      env[a.arg] = (a.arg, ty)
      binders.append('(%s : %s)' % (a.arg, COQ_TYPE[ty]))
  body = strip_doc(fn.body)
  if learn is not None:
    tr.learn = learn
  kind = spec.get('kind', 'effs')
  if kind == 'effs':
    term = tr.block(body, env, 'effs')
    ret = 'list eff'
  elif kind == 'expr':
    term, ret = tr.expr_function(body, env, spec['ret'])
  elif kind == 'setfn':
    term, ret = tr.set_function(body, env, spec)
  else:
    raise Untranslatable('kind %r' % kind)
  unused = set(spec.get('glue', {})) - tr.used_glue
  if unused:
    raise Untranslatable('%s: pinned glue statements no longer present: %s' % (
        spec['name'], ', '.join('%s (%s)' % (h, spec['glue'][h]) for h in sorted(unused))))
  return 'Definition %s %s : %s :=\n  %s.\n' % (spec['name'], ' '.join(binders), ret, term)


def _expr_function(self, body, env, ret):
  """glue*, (x = e)*, return e"""
  lets = []
  env = dict(env)
  for s in body[:-1]:
    if self.is_glue(s):
      continue
    if isinstance(s, ast.Assign) and len(s.targets) == 1 and isinstance(s.targets[0], ast.Tuple) and \
       len(s.targets[0].elts) == 3 and all(isinstance(x, ast.Name) for x in s.targets[0].elts):
      t, ty = self.expr(s.value, env)           # table_id, row_ids, column_values = action
      if ty != 'action':
        fail(s, 'destructuring of a %s' % ty)
      a, b, c = [x.id for x in s.targets[0].elts]
      env[a] = ('tt', 'ignored')
      lets.append((b, '(act_rows %s)' % t))
      lets.append((c, '(act_cols %s)' % t))
      env[b] = (b, 'zlist')
      env[c] = (c, 'dict')
      continue
    if isinstance(s, ast.Assign) and len(s.targets) == 1 and isinstance(s.targets[0], ast.Name):
      t, ty = self.expr(s.value, env)
      if ty == 'table':
        env[s.targets[0].id] = (t, ty)
        continue
      lets.append((s.targets[0].id, t))
      env[s.targets[0].id] = (s.targets[0].id, ty)
      continue
    fail(s, 'statement %s in an expression function (hash %s)' % (type(s).__name__, norm_hash(s, self.names)))
  last = body[-1]
  if not isinstance(last, ast.Return) or last.value is None:
    fail(last, 'the function must end in `return <expression>`')
  t, ty = self.expr(last.value, env)
  t = self.coerce(t, ty, ret, last)
  for n, v in reversed(lets):
    t = '(let %s := %s in %s)' % (n, v, t)
  return t, COQ_TYPE.get(ret, ret)


def _set_function(self, body, env, spec):
  """x = <the stored set>; if c: x.update(a) else: x.difference_update(a)   ->   the new contents of the set"""
  var, coqvar = spec['setvar']
  stmts = [s for s in body if not self.is_glue(s)]
  if len(stmts) != 2 or not isinstance(stmts[0], ast.Assign) or not isinstance(stmts[1], ast.If):
    fail(body[0], 'shape of a set-updating function')
  a = stmts[0]
  if not (len(a.targets) == 1 and isinstance(a.targets[0], ast.Name)
          and norm_hash(ast.Expr(value=a.value), self.names) == spec['setsource']):
    fail(a, 'the set is not taken from the pinned place (hash %s)' % norm_hash(ast.Expr(value=a.value), self.names))
  x = a.targets[0].id
  env = dict(env)
  env[x] = (coqvar, 'zlist')
  def branch(b):
    if len(b) != 1 or not isinstance(b[0], ast.Expr) or not isinstance(b[0].value, ast.Call):
      fail(b[0] if b else a, 'branch of a set update')
    c = b[0].value
    d = dotted(c.func)
    if len(c.args) != 1 or c.keywords or d not in (x + '.update', x + '.difference_update'):
      fail(c, 'set operation %s' % d)
    t, ty = self.expr(c.args[0], env)
    return '(%s %s %s)' % ('set_union' if d.endswith('.update') else 'set_diff', coqvar, self.coerce(t, ty, 'zlist', c))
  i = stmts[1]
  return '(if %s then %s else %s)' % (self.coerce_bool(i.test, env), branch(i.body), branch(i.orelse)), 'list Z'


Tr.expr_function = _expr_function
Tr.set_function = _set_function
