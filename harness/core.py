"""
Shared pipeline for every property check (DESIGN.md section 3.2).

  regenerate -> prove -> correspond -> monitor/search -> known findings -> evidence

A property module (harness/props/cNN.py) defines:
  ID            'C36'
  PROPS         list of Coq logical file stems to build, e.g. ['Props/C36']
  TITLE         short text
  regenerate(ctx)   optional: write coq/gen/*.v from /repo (fail closed: raise TieBroken)
  correspond(ctx)   optional: model vs implementation on generated cases
  search(ctx)       optional: the property's own oracle on the implementation
  replay(ctx, witness) -> description string if the witness still fails on the impl, else None
  TRUSTED       list of strings (trusted base for the evidence)
  ASSUMPTIONS   list of strings
  RULE          how cases are generated / what counts as non-trivial
"""
from __future__ import print_function
import contextlib
import fcntl
import glob
import hashlib
import json
import os
import random
import re
import subprocess
import sys
import time
import traceback

VERIF = os.path.dirname(os.path.dirname(os.path.abspath(__file__)))
REPO = os.environ.get('VERIF_REPO', '/repo')
GRIST = os.path.join(REPO, 'sandbox', 'grist')
COQ = os.path.join(VERIF, 'coq')
PY = '/venv/bin/python'

ALLOWED_AXIOMS = {
  # axioms declared by Coq's standard library that DESIGN.md section 7 names
  'functional_extensionality_dep', 'FunctionalExtensionality.functional_extensionality_dep',
  'Eqdep.Eq_rect_eq.eq_rect_eq', 'eq_rect_eq', 'JMeq_eq', 'JMeq.JMeq_eq',
  'proof_irrelevance', 'ProofIrrelevance.proof_irrelevance',
  'classic', 'Classical_Prop.classic',
}
FORBIDDEN = re.compile(
  r'\b(Admitted|admit|Axiom|Axioms|Parameter|Parameters|Conjecture|Admit Obligations)\b'
  r'|Unset Guard|bypass_check|type-in-type|impredicative-set|Unset Positivity|Unset Universe')


class TieBroken(Exception):
  """The tie between model and code no longer checks (translator pattern, instrumentation point...)."""


def setup_impl_path():
  for p in (os.path.join(VERIF, 'stubs'), GRIST):
    if p not in sys.path:
      sys.path.insert(0, p)


def sh(cmd, timeout=600, cwd=None, env=None):
  """Run a command; returns (returncode, combined output). Timeout gives rc 124."""
  try:
    p = subprocess.run(cmd, cwd=cwd, env=env, stdout=subprocess.PIPE, stderr=subprocess.STDOUT,
                       timeout=timeout)
    return p.returncode, p.stdout.decode('utf8', 'replace')
  except subprocess.TimeoutExpired as e:
    return 124, (e.stdout or b'').decode('utf8', 'replace') + '\n[timeout after %ss]' % timeout


@contextlib.contextmanager
def flock(path):
  f = open(path, 'a+')
  try:
    fcntl.flock(f, fcntl.LOCK_EX)
    yield
  finally:
    fcntl.flock(f, fcntl.LOCK_UN)
    f.close()


def write_if_changed(path, text):
  try:
    with open(path) as f:
      if f.read() == text:
        return False
  except IOError:
    pass
  tmp = path + '.tmp%d' % os.getpid()
  with open(tmp, 'w') as f:
    f.write(text)
  os.rename(tmp, path)
  return True


# ---------------------------------------------------------------------------------------------
# Coq project

def coq_files():
  out = []
  for root in ('theories', 'gen'):
    for dp, _dn, fn in os.walk(os.path.join(COQ, root)):
      for f in fn:
        if f.endswith('.v') and not f.startswith('.'):
          out.append(os.path.relpath(os.path.join(dp, f), COQ))
  return sorted(out)


def ensure_makefile():
  proj = '-Q theories Grist\n-Q gen GristGen\n-arg -w -arg -notation-overridden,-deprecated\n' + \
         '\n'.join(coq_files()) + '\n'
  changed = write_if_changed(os.path.join(COQ, '_CoqProject'), proj)
  if changed or not os.path.exists(os.path.join(COQ, 'Makefile')):
    rc, out = sh(['coq_makefile', '-f', '_CoqProject', '-o', 'Makefile'], cwd=COQ, timeout=120)
    if rc != 0:
      raise RuntimeError('coq_makefile failed: ' + out)


def coq_make(targets, timeout=900, jobs=8):
  """Full .vo build of the given targets (paths relative to coq/), serialised by a lock."""
  with flock(os.path.join(COQ, '.lock')):
    ensure_makefile()
    rc, out = sh(['timeout', str(timeout), 'make', '-j%d' % jobs] + list(targets), cwd=COQ,
                 timeout=timeout + 30)
  return rc, out


def coqc_file(path, timeout=300):
  return sh(['timeout', str(timeout), 'coqc', '-w', '-notation-overridden,-deprecated',
             '-Q', os.path.join(COQ, 'theories'), 'Grist', '-Q', os.path.join(COQ, 'gen'), 'GristGen',
             path], timeout=timeout + 10)


def hygiene():
  """No Admitted/admit/Axiom/Parameter/... anywhere in the development."""
  bad = []
  for rel in coq_files():
    with open(os.path.join(COQ, rel)) as f:
      for i, line in enumerate(f, 1):
        if FORBIDDEN.search(line):
          bad.append('%s:%d: %s' % (rel, i, line.strip()))
  return bad


THM_RE = re.compile(r'^\s*(?:Theorem|Lemma|Corollary|Example|Fact|Remark|Proposition)\s+([A-Za-z_][A-Za-z0-9_\']*)', re.M)


def theorems_in(stem):
  with open(os.path.join(COQ, 'theories', stem + '.v')) as f:
    return THM_RE.findall(f.read())


def print_assumptions(ctx, stem, names):
  """Fresh Print Assumptions for each theorem (compiled in the check's work dir)."""
  mod = 'Grist.' + stem.replace('/', '.')
  lines = ['Require Import %s.' % mod]
  for n in names:
    lines.append('Goal True. idtac "@@BEGIN %s". exact I. Qed.' % n)
    lines.append('Print Assumptions %s.' % n)
  lines.append('Goal True. idtac "@@END". exact I. Qed.')
  path = os.path.join(ctx.work, 'assum_%s.v' % stem.replace('/', '_'))
  with open(path, 'w') as f:
    f.write('\n'.join(lines) + '\n')
  rc, out = coqc_file(path, timeout=600)
  res = {}
  if rc != 0:
    return None, out
  cur = None
  for line in out.splitlines():
    m = re.match(r'@@BEGIN (\S+)', line)
    if m:
      cur = m.group(1)
      res[cur] = []
      continue
    if line.startswith('@@END'):
      cur = None
      continue
    if cur is not None:
      res[cur].append(line)
  parsed = {}
  for n, ls in res.items():
    text = '\n'.join(ls)
    if 'Closed under the global context' in text:
      parsed[n] = []
    else:
      # lines of the form "name : type" at column 0 are axiom names
      parsed[n] = re.findall(r'^([A-Za-z_][A-Za-z0-9_\.\']*)\s*(?:$|:)', text, re.M)
      parsed[n] = [a for a in parsed[n] if a not in ('Axioms', 'Fetching')]
  return parsed, out


# ---------------------------------------------------------------------------------------------
# Coq literals

def zlit(n):
  return '(%d)%%Z' % n if n < 0 else '%d%%Z' % n


def coq_list(items):
  return '[' + '; '.join(items) + ']'


def zlist(ns):
  return '[' + '; '.join(zlit(n) for n in ns) + ']'


def boollit(b):
  return 'true' if b else 'false'


def strlit(s):
  """A Python str as list Z of code points."""
  return zlist([ord(c) for c in s])


def optlit(x, f):
  return 'None' if x is None else '(Some %s)' % f(x)


# ---------------------------------------------------------------------------------------------

class Ctx(object):
  def __init__(self, prop, tier, seed):
    self.prop = prop
    self.id = prop.ID
    self.tier = tier
    self.seed = seed
    self.rng = random.Random((seed * 1000003) ^ int(hashlib.sha1(prop.ID.encode()).hexdigest()[:8], 16))
    self.work = os.path.join(VERIF, 'work', prop.ID)
    os.makedirs(self.work, exist_ok=True)
    for f in glob.glob(os.path.join(self.work, '*')):
      if os.path.isfile(f):
        os.remove(f)
    self.t0 = time.time()
    self.evaluations = 0
    self.nontrivial = set()
    self.trivial = 0
    self.samples = []
    self.hist = {}
    self.violations = []     # concrete failing inputs: dict(kind, what, replay)
    self.brokens = []        # (name, detail): theorem / correspondence / tie that no longer checks
    self.obligations = 0
    self.discharged = 0
    self.axioms = {}
    self.notes = []
    self.extra = {}
    self.log_lines = []

  # -- sizes
  def n(self, quick, thorough):
    return thorough if self.tier == 'thorough' else quick

  def log(self, *a):
    msg = ' '.join(str(x) for x in a)
    self.log_lines.append(msg)
    print('[%s %6.1fs] %s' % (self.id, time.time() - self.t0, msg))
    sys.stdout.flush()

  # -- accounting
  def count(self, case_key, nontrivial=True, sample=None, kind=None):
    self.evaluations += 1
    if nontrivial:
      h = hashlib.sha1(repr(case_key).encode('utf8', 'replace')).hexdigest()[:16]
      self.nontrivial.add(h)
    else:
      self.trivial += 1
    if kind is not None:
      self.bump(kind)
    if sample is not None and len(self.samples) < 6:
      self.samples.append(sample)

  def bump(self, key, by=1):
    self.hist[key] = self.hist.get(key, 0) + by

  def violation(self, kind, what, replay):
    """A concrete input/history on which the property fails on the implementation."""
    self.violations.append({'kind': kind, 'what': what, 'replay': replay})

  def broken(self, name, detail=''):
    """A theorem, translation or correspondence that no longer checks."""
    self.brokens.append({'name': name, 'detail': detail[-4000:]})
    self.log('BROKEN', name, '--', detail[-600:].replace('\n', ' | '))

  # -- running the model inside Coq on generated cases
  def run_cases(self, name, imports, check, cases, shard=400, timeout=300, extra_defs='', case_type=None):
    """
    cases: list of Coq terms (strings), all of the type `check` takes. Evaluates `check c` for every
    case with vm_compute (one coqc per shard, up to 8 in parallel) and returns the indexes on which
    it is not `true`. Raises TieBroken if a shard does not compile.
    """
    if not cases:
      return []
    paths = []
    for k in range(0, len(cases), shard):
      part = cases[k:k + shard]
      path = os.path.join(self.work, 'cases_%s_%d.v' % (name, k // shard))
      with open(path, 'w') as f:
        f.write('From Coq Require Import ZArith List Bool String.\nImport ListNotations.\n')
        f.write('Require Import Grist.Lib.Cases.\n')
        for imp in imports:
          f.write('Require Import %s.\n' % imp)
        f.write('Open Scope Z_scope.\n')
        # extra_defs may be a function of the shard's cases (definitions only that shard needs);
        # case_type, when given, annotates the list (much faster elaboration of big literals)
        f.write((extra_defs(part) if callable(extra_defs) else extra_defs) + '\n')
        f.write('Definition the_cases%s := [\n  ' % (' : list (%s)' % case_type if case_type else '') +
                ';\n  '.join(part) + '\n].\n')
        f.write('Goal True. idtac "@@RESULT". exact I. Qed.\n')
        f.write('Eval vm_compute in (failing (%s) the_cases).\n' % check)
      paths.append((k, path))
    procs = []
    failing = []
    pending = list(paths)
    running = []
    def start(item):
      k, path = item
      p = subprocess.Popen(['timeout', str(timeout), 'coqc', '-w', '-notation-overridden,-deprecated',
                            '-Q', os.path.join(COQ, 'theories'), 'Grist',
                            '-Q', os.path.join(COQ, 'gen'), 'GristGen', path],
                           stdout=subprocess.PIPE, stderr=subprocess.STDOUT, cwd=self.work)
      return (k, path, p)
    while pending or running:
      while pending and len(running) < 8:
        running.append(start(pending.pop(0)))
      k, path, p = running.pop(0)
      out = p.communicate()[0].decode('utf8', 'replace')
      if p.returncode != 0 or '@@RESULT' not in out:
        for (_k, _p, q) in running:
          q.kill()
        raise TieBroken('cases file %s does not evaluate: %s' % (os.path.basename(path), out[-1500:]))
      tail = out.split('@@RESULT', 1)[1]
      m = re.search(r'=\s*\[(.*?)\]\s*:\s*list nat', tail, re.S)
      if not m:
        raise TieBroken('cannot parse result of %s: %s' % (os.path.basename(path), tail[-500:]))
      body = m.group(1).strip()
      if body:
        for tok in body.split(';'):
          failing.append(k + int(tok.strip().replace('%nat', '')))
    return sorted(failing)


def load_known():
  p = os.path.join(VERIF, 'known_findings.json')
  if not os.path.exists(p):
    return []
  with open(p) as f:
    return json.load(f).get('findings', [])


def run_check(prop, tier, seed):
  from harness import known as known_mod
  ctx = Ctx(prop, tier, seed)
  setup_impl_path()
  known = [k for k in load_known() if k['property'] == prop.ID]
  printed_known = set()

  # 0. hygiene
  bad = hygiene()
  if bad:
    ctx.broken('hygiene', '\n'.join(bad[:20]))

  # 1. regenerate
  if hasattr(prop, 'regenerate'):
    try:
      prop.regenerate(ctx)
    except TieBroken as e:
      ctx.broken('translation:' + prop.ID, str(e))
    except Exception:
      ctx.broken('translation:' + prop.ID, traceback.format_exc())

  # 2. prove
  proof_ok = True
  for stem in getattr(prop, 'PROPS', []):
    rc, out = coq_make(['theories/Lib/Cases.vo', 'theories/%s.vo' % stem], timeout=getattr(prop, 'PROOF_TIMEOUT', 900))
    names = theorems_in(stem)
    ctx.obligations += len(names)
    if rc != 0:
      proof_ok = False
      m = re.search(r'File "([^"]+)", line (\d+)[^\n]*\n(?:.*\n){0,12}?Error:[^\n]*(?:\n[^\n]*){0,6}', out)
      ctx.broken('proof:%s' % stem, (m.group(0) if m else out[-2500:]))
      continue
    parsed, raw = print_assumptions(ctx, stem, names)
    if parsed is None:
      proof_ok = False
      ctx.broken('assumptions:%s' % stem, raw[-2000:])
      continue
    for n in names:
      ax = parsed.get(n)
      if ax is None:
        ctx.broken('assumptions:%s.%s' % (stem, n), 'no Print Assumptions output')
        continue
      ctx.axioms[n] = ax
      notallowed = [a for a in ax if a.split('.')[-1] not in {x.split('.')[-1] for x in ALLOWED_AXIOMS}]
      if notallowed:
        ctx.broken('assumptions:%s.%s' % (stem, n), 'depends on ' + ', '.join(notallowed))
      else:
        ctx.discharged += 1
  ctx.log('proofs: %d/%d obligations discharged' % (ctx.discharged, ctx.obligations))

  # 3. known-finding witnesses are replayed first
  for k in known:
    if k.get('kind') != 'known':
      continue
    try:
      desc = prop.replay(ctx, k['witness']) if hasattr(prop, 'replay') else None
    except Exception:
      desc = None
      ctx.log('replay of known witness raised: ' + traceback.format_exc()[-800:])
    if desc:
      print('KNOWN-FINDING: property=%s %s' % (prop.ID, k['what']))
      printed_known.add(k['id'])

  # 4. correspondence + monitors
  if hasattr(prop, 'correspond'):
    try:
      prop.correspond(ctx)
    except TieBroken as e:
      ctx.broken('correspondence:' + prop.ID, str(e))
    except Exception:
      ctx.broken('correspondence:' + prop.ID, traceback.format_exc())

  # 5. search on the implementation (always run: extra evidence; mandatory after a break)
  if hasattr(prop, 'search'):
    try:
      prop.search(ctx)
    except TieBroken as e:
      ctx.broken('search:' + prop.ID, str(e))
    except Exception:
      ctx.broken('search:' + prop.ID, traceback.format_exc())

  # 6. classify
  exit_code = 0
  rdir = os.path.join(VERIF, 'replays', prop.ID)
  os.makedirs(rdir, exist_ok=True)
  new_violations = []
  for v in ctx.violations:
    entry = known_mod.match(prop.ID, v, known, prop)
    if entry is not None:
      if entry['id'] not in printed_known:
        print('KNOWN-FINDING: property=%s %s' % (prop.ID, entry['what']))
        printed_known.add(entry['id'])
      continue
    new_violations.append(v)
  seen = set()
  for v in new_violations:
    key = hashlib.sha1(json.dumps(v, sort_keys=True, default=repr).encode()).hexdigest()[:12]
    if key in seen:
      continue
    seen.add(key)
    path = os.path.join(rdir, 'violation_%s.json' % key)
    with open(path, 'w') as f:
      json.dump({'property': prop.ID, 'tier': tier, 'seed': seed, 'violation': v,
                 'broken': ctx.brokens}, f, indent=1, default=repr)
    if len(seen) <= 5:
      print('VIOLATION property=%s replay=%s' % (prop.ID, path))
    exit_code = 1
  if ctx.brokens and not new_violations:
    key = hashlib.sha1(json.dumps(ctx.brokens, sort_keys=True).encode()).hexdigest()[:12]
    path = os.path.join(rdir, 'broken_%s.json' % key)
    with open(path, 'w') as f:
      json.dump({'property': prop.ID, 'tier': tier, 'seed': seed, 'broken': ctx.brokens,
                 'search': {'evaluations': ctx.evaluations, 'hist': ctx.hist},
                 'note': 'a theorem or correspondence no longer checks; the search found no failing input'},
                f, indent=1)
    print('VIOLATION property=%s replay=%s no-failing-input-found' % (prop.ID, path))
    exit_code = 1

  # 7. evidence
  wall = time.time() - ctx.t0
  checker = 'cd /verif/coq && make %s && coqc <Print Assumptions of every theorem in them>' % \
            ' '.join('theories/%s.vo' % s for s in getattr(prop, 'PROPS', []))
  ev = {
    'property_id': prop.ID, 'tier': tier, 'seed': seed, 'level': 'proof',
    'coverage': {
      'obligations': ctx.obligations, 'discharged': ctx.discharged,
      'checker_cmd': checker,
      'trusted_base': ['Coq 8.16.1 kernel + vm_compute (no native_compute)'] + list(getattr(prop, 'TRUSTED', [])),
      'theorems': ctx.axioms,
      'evaluations': ctx.evaluations, 'distinct_nontrivial': len(ctx.nontrivial), 'trivial': ctx.trivial,
      'rule': getattr(prop, 'RULE', ''),
      'samples': ctx.samples, 'histogram': ctx.hist,
      'broken': ctx.brokens,
      'known_findings_printed': sorted(printed_known),
    },
    'assumptions': list(getattr(prop, 'ASSUMPTIONS', [])) + ctx.notes,
    'wall_s': round(wall, 2),
    'violations': len(seen) + (1 if (ctx.brokens and not new_violations) else 0),
  }
  ev['coverage'].update(ctx.extra)
  os.makedirs(os.path.join(VERIF, 'evidence'), exist_ok=True)
  with open(os.path.join(VERIF, 'evidence', '%s.json' % prop.ID), 'w') as f:
    json.dump(ev, f, indent=1, default=repr, sort_keys=True)
  ctx.log('done: evaluations=%d distinct_nontrivial=%d violations=%d wall=%.1fs exit=%d' %
          (ctx.evaluations, len(ctx.nontrivial), ev['violations'], wall, exit_code))
  return exit_code
