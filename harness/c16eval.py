"""
C16: cell-by-cell tie of the evaluation semantics of coq/theories/Model/Renames.v (`cell` / `eval`) to the engine.

A generated document (tables with Int / Text / Ref / RefList data columns, valid data, a summary table, formula columns of
type Any whose formulas are trees of harness/c16gen.py) is translated into a model `doc`; every formula cell the engine
computed is turned into the model value it should be, and Coq evaluates `cell` on the translated document (vm_compute)
-- before a rename on the document itself, after the rename on `rename_doc` of it (new names, the engine's new values).

Formula columns whose text has no tree (engine-made helper formulas etc.) are translated as DATA columns holding the
engine's values; a document with a value outside the model's value domain (floats, dates, alt text ...) is skipped.
"""
import copy
import random

from harness import core
from harness import gristenv as G
from harness import histgen, c16gen

ERR_KINDS = {'AttributeError': 1, 'TypeError': 2, 'NameError': 4}
BUILTIN_TREES = {
  'table.getSummarySourceGroup(rec)': ('group',),
  'len($group)': ('p1', 0, ('dollar', 'group')),
}
FUEL = 14


COQ_DEFS = '''
Fixpoint val_seqb (a b : val) : bool :=
  match a, b with
  | VNone, VNone => true | VInt x, VInt y => x =? y | VStr s, VStr t => name_eqb s t
  | VRec t r, VRec t' r' => name_eqb t t' && (r =? r') | VRecs t rs, VRecs t' rs' => name_eqb t t' && name_eqb rs rs'
  | VList l, VList m =>
      (fix go (l m : list val) := match l, m with [] , [] => true | x :: l', y :: m' => val_seqb x y && go l' m'
                                  | _, _ => false end) l m
  | _, _ => false end.
Definition res_seqb (a b : R val) : bool :=
  match a, b with ROk x, ROk y => val_seqb x y | RErr j, RErr k => j =? k | _, _ => false end.
Definition xcell := (name * Z * name * R val)%%type.
Definition cells_ok (d : doc) (cells : list xcell) : bool :=
  forallb (fun c => match c with (t, r, cn, exp) => res_seqb (cell std_prim1 std_prim2 d %d t r cn) exp end) cells.
Definition xstep := (list (name * name) * list (name * name * name) * list xcell)%%type.
Fixpoint steps_ok (d : doc) (steps : list xstep) : bool :=
  match steps with
  | [] => true
  | (rt, rc, cells) :: t => let d' := rename_doc (rt_of rt) (rc_of rc) d in cells_ok d' cells && steps_ok d' t
  end.
Definition cV (d : doc) (cells : list xcell) (steps : list xstep) := (d, cells, steps).
Definition case_ok (c : doc * list xcell * list xstep) : bool :=
  match c with (d, cells, steps) => cells_ok d cells && steps_ok d steps end.
''' % FUEL


class Untranslatable(Exception):
  pass


def zl(s):
  return '[' + '; '.join('%d%%Z' % ord(c) for c in s) + ']'


def summary_sum_tree(text):
  """'SUM($group.B)': the formula the engine gives the summary copy of a numeric source column."""
  if text.startswith('SUM($group.') and text.endswith(')') and text[11:-1].isidentifier():
    return ('p1', 1, ('col', ('dollar', 'group'), text[11:-1]))
  return None


def mval(v):
  """An encoded cell value as a model `val` term."""
  if v is None:
    return 'VNone'
  if isinstance(v, bool):
    return '(VInt %d%%Z)' % int(v)
  if isinstance(v, int):
    return '(VInt (%d)%%Z)' % v
  if isinstance(v, str):
    if v.startswith(('int:', 'f:', 'obj:', 'b:')) or v in ('NaN', 'inf', '-inf'):
      raise Untranslatable(v)
    return '(VStr %s)' % zl(v)
  if isinstance(v, list) and v:
    if v[0] == 'L':
      return '(VList %s)' % core.coq_list([mval(x) for x in v[1:]])
    if v[0] == 'R' and len(v) == 3:
      return '(VRec %s (%d)%%Z)' % (zl(v[1]), v[2])
    if v[0] == 'r' and len(v) == 3:
      return '(VRecs %s %s)' % (zl(v[1]), core.zlist(v[2]))
  raise Untranslatable(repr(v))


def mres(v, ctype):
  """What `cell` should return for a cell whose encoded engine value is v in a column of type ctype."""
  if isinstance(v, list) and v and v[0] == 'E':
    return '(RErr %d%%Z)' % ERR_KINDS.get(v[1] if len(v) > 1 else '', 99)
  if ctype.startswith('Ref:'):
    if not isinstance(v, int) or isinstance(v, bool):
      raise Untranslatable('alt text in a reference column: %r' % (v,))
    return '(ROk (VRec %s (%d)%%Z))' % (zl(ctype[4:]), v)
  if ctype.startswith('RefList:'):
    if v is None:
      ids = []
    elif isinstance(v, list) and v and v[0] == 'L' and all(isinstance(x, int) and not isinstance(x, bool) for x in v[1:]):
      ids = v[1:]
    else:
      raise Untranslatable('alt text in a reference list column: %r' % (v,))
    return '(ROk (VRecs %s %s))' % (zl(ctype[8:]), core.zlist(ids))
  return '(ROk %s)' % mval(v)


def coq_ctype(ctype):
  if ctype.startswith('Ref:'):
    return '(CRef %s)' % zl(ctype[4:])
  if ctype.startswith('RefList:'):
    return '(CRefList %s)' % zl(ctype[8:])
  return 'CPlain'


def translate(e, trees):
  """(Coq term of the model doc, [(table id, row id, col id, expected `R val` term)]) for the engine's document."""
  m = histgen.Meta(e)
  tabs, cells = [], []
  for t in m.user_tables() + m.user_tables(summary=True):
    tid = t['tableId']
    rep = G.actions.get_action_repr(e.fetch_table(tid, formulas=True))
    rows, byname = list(rep[2]), rep[3]
    groups = []
    cols = []
    for c in m.by_table[t['id']]:
      cid, ctype = c['colId'], c['type']
      if cid == 'manualSort' or cid.startswith('gristHelper_') or cid not in byname:
        continue
      vals = G.norm(byname[cid])
      tree = None
      if c['isFormula'] and c['formula']:
        tree = trees.get(c['formula']) or BUILTIN_TREES.get(c['formula']) or summary_sum_tree(c['formula'])
      if tree == ('group',):
        groups = [(r, v[1:] if isinstance(v, list) and v and v[0] == 'L' else []) for r, v in zip(rows, vals)]
      dflt = {'Text': ["(0%Z, VStr [])"], 'Int': ['(0%Z, VInt 0%Z)']}.get(ctype, [])     # the empty record's value
      if tree is not None and (ctype == 'Any' or ctype.startswith(('Ref:', 'RefList:')) or tree[0] == 'p1'):
        cols.append('mkcol %s %s (Some %s) %s' % (zl(cid), coq_ctype(ctype), c16gen.coq(tree), core.coq_list(dflt)))
        for r, v in zip(rows, vals):
          cells.append((tid, r, cid, mres(v, ctype)))
      else:
        # data, or a formula the model has no tree for: the engine's values are the column's data
        data = list(dflt)
        for r, v in zip(rows, vals):
          if isinstance(v, list) and v and v[0] == 'E':
            raise Untranslatable('error value in an opaque column %s.%s' % (tid, cid))
          if ctype.startswith(('Ref:', 'RefList:')):
            mres(v, ctype)            # no alt text
          data.append('(%d%%Z, %s)' % (r, mval(v)))
        cols.append('mkcol %s %s None %s' % (zl(cid), coq_ctype(ctype), core.coq_list(data)))
    tabs.append('mktab %s %s %s %s' % (zl(tid), core.coq_list(cols), core.zlist(rows),
                                      core.coq_list(['(%d%%Z, %s)' % (r, core.zlist(g)) for r, g in groups])))
  return core.coq_list(tabs), cells


def coq_cells(cells):
  return core.coq_list(['(%s, %d%%Z, %s, %s)' % (zl(t), r, zl(c), exp) for t, r, c, exp in cells])


def make_gen(rng):
  """A generator of documents inside the model's value domain (built on the C16 generator)."""
  from harness.props import c16

  class GenEval(c16.Gen16):
    def __init__(self, r):
      c16.Gen16.__init__(self, r, 'main')
      self.w.update({'addrec': 10, 'updrec': 4, 'rmrec': 1, 'addcol': 3, 'addformula': 16, 'modformula': 3, 'addref': 8,
                     'summary': 3, 'summaryformula': 5})
      for k in ('rmcol', 'rencol', 'modtype', 'toformula', 'todata', 'addtable', 'rmtable', 'rentable', 'addreverse',
                'updsummary', 'label', 'renamechoices', 'upsert', 'invalid', 'tempids'):
        self.w[k] = 0

    def value(self, ctype, meta=None):
      r = self.r
      base = ctype.split(':')[0]
      if base == 'Text':
        return r.choice(['a', 'b', 'c', '', 'a'])
      if base == 'Int':
        return r.choice([0, 1, 2, 3, 5, 2])
      if base == 'Ref':
        rows = self._target_rows(meta, ctype)
        return r.choice(rows + [0]) if rows else 0
      if base == 'RefList':
        rows = self._target_rows(meta, ctype)
        sel = r.sample(rows, r.randint(0, min(3, len(rows))))
        return ['L'] + sel if sel else None
      return None

    def formula(self, meta, tref, level):
      tid = meta.tables[tref]['tableId']
      tg = c16gen.TreeGen(self.r, meta, lambda tr: self.lower_cols(meta, tr, level), tid)
      tg.typed = True
      tree = tg.scalar(self.r.choice([1, 2, 2, 3]))
      text = c16gen.pr(tree)
      self.trees[text] = tree
      return text

    def gen_addtable(self, meta):
      a = c16.Gen16.gen_addtable(self, meta)
      a[2] = [c for c in a[2] if not c['isFormula']]
      for c in a[2]:
        c['type'] = self.r.choice(['Int', 'Text'])
      return a

    def gen(self, kind, meta):
      if kind == 'summaryformula':
        st = self.pick_table(meta, summary=True)
        if st is None:
          return None
        cid = self.r.choice(['total', 'n', 'S', 'agg'])
        self.pend(st['tableId'], cid, 10)
        return ['AddColumn', st['tableId'], cid, {'type': 'Any', 'isFormula': True,
                                                 'formula': self.formula(meta, st['id'], 10)}]
      if kind == 'summary':
        t = self.pick_table(meta)
        cs = [c for c in meta.data_cols(t['id']) if c['type'] in ('Int', 'Text')] if t else []
        if not cs:
          return None
        return ['CreateViewSection', t['id'], 0, 'record', [self.r.choice(cs)['id']], None]
      a = c16.Gen16.gen(self, kind, meta)
      if a is not None and kind == 'addcol':
        a[3]['type'] = self.r.choice(['Int', 'Text'])
      if a is not None and kind == 'addformula':
        a[3]['type'] = 'Any'
      return a
  return GenEval(rng)


def build_case(seed, nb=10, nren=3):
  """One document and up to nren renames.  Returns dict(doc term, cells before, steps [(renames, cells after)], log)
  or None when the document is outside the model's value domain."""
  from harness.props import c16
  rng = random.Random(seed)
  gen = make_gen(rng)
  e, _ = G.new_doc()
  done = []
  real_do = gen._do
  gen._do = lambda e_, bundle: (done.append(copy.deepcopy(bundle)), real_do(e_, bundle))[1]
  gen.init_doc(e, n_tables=rng.randint(2, 3))
  for _ in range(nb):
    bundle = gen.bundle(e, max_len=1)
    done.append(copy.deepcopy(bundle))
    c16.try_apply(e, gen, bundle)
  try:
    dterm, cells = translate(e, gen.trees)
  except Untranslatable as ex:
    return {'skipped': str(ex)}
  steps = []
  for _ in range(nren):
    r = c16.gen_rename(rng, histgen.Meta(e), 'main')
    if r is None or r[1][0] not in ('RenameColumn', 'RenameTable'):
      continue
    b = c16.observe(e)
    status, info, problems = c16.check_rename(e, r[1], list(done))
    done.append([r[1]])
    if status != 'applied':
      continue
    if problems or not info.get('fresh', True):
      break
    if not info['renames']:
      continue
    a = c16.observe(e)
    key = {(b['tabs'][c['tref']], c['colId']): cr for cr, c in b['cols'].items() if c['tref'] in b['tabs']}
    after = []
    try:
      for (tid, row, cid, _exp) in (steps[-1][1] if steps else cells):
        cr = key[(tid, cid)]
        col = a['cols'][cr]
        v = a['vals'][cr][a['rows'][col['tref']].index(row)]
        after.append((a['tabs'][col['tref']], row, col['colId'], mres(v, col['type'] if col['type'] != 'Int' else 'Any')))
    except (Untranslatable, KeyError, ValueError) as ex:
      break
    steps.append((info['renames'], after))
  return {'doc': dterm, 'cells': cells, 'steps': steps, 'bundles': done, 'seed': seed}

