"""sch2v, third part: the binding for functions/schedule.py and the generator of coq/gen/Schedule_gen.v."""
import ast

from harness.sch2v import Untranslatable, strlit, fail
from harness.sch2v_stmt import Translator

LZS = 'list prod Z|str'

BINDING = {
  'types': {'Z': 'Z', 'str': 'str', 'bool': 'bool', 'T': 'T', 'TD': 'TD', 'date': 'date', 'tz': 'tz', 'ostr': 'ostr',
            'delta': '(delta TD)', 'schedule': '(schedule TD)', 'smatch': 'smatch', 'imatch': 'imatch',
            'set str': '(list str)'},
  'truthy': {'bool': '{}', 'Z': '(negb ({} =? 0))', 'ostr': '(ostr_truthy {})', 'set str': '(nonempty {})'},
  'always_truthy': {'T'},                    # a datetime is never false
  'coerce': {},
  'consts': {'_INTERVAL_ALIASES': ('INTERVAL_ALIASES', 'dict prod Z|str'), '_VALID_UNITS': ('VALID_UNITS', 'set str'),
             '_SHORT_UNITS': ('SHORT_UNITS', 'dict str'), 'MONTH_OFFSETS': ('MONTH_OFFSETS', 'dict Z'),
             'WEEKDAY_OFFSETS': ('WEEKDAY_OFFSETS', 'dict Z')},
  'fields': {('delta', '_months'): ('d_months', 'Z', 'set_d_months'),
             ('delta', '_timedelta'): ('d_timedelta', 'TD', 'set_d_timedelta'),
             ('schedule', '_interval_unit'): ('s_interval_unit', 'str', None),
             ('schedule', '_interval'): ('s_interval', 'delta', None),
             ('schedule', '_slots'): ('s_slots', 'list delta', None)},
  'records': {'delta': ('mkDelta', ['_timedelta', '_months']),
              'schedule': ('mkSchedule', ['_interval_unit', '_interval', '_slots'])},
  'binops': {('Add', 'Z', 'Z'): ('{0} + {1}', 'Z'), ('Sub', 'Z', 'Z'): ('{0} - {1}', 'Z'),
             ('Mult', 'Z', 'Z'): ('{0} * {1}', 'Z'), ('Mod', 'Z', 'Z'): ('{0} mod {1}', 'Z'),
             ('Add', 'T', 'TD'): ('p_plus P {0} {1}', 'T'), ('Add', 'TD', 'TD'): ('p_td_add P {0} {1}', 'TD')},
  'compares': {('LtE', 'Z', 'Z'): '{0} <=? {1}', ('Lt', 'Z', 'Z'): '{0} <? {1}', ('Gt', 'Z', 'Z'): '{1} <? {0}',
               ('GtE', 'Z', 'Z'): '{1} <=? {0}', ('Eq', 'Z', 'Z'): '{0} =? {1}', ('NotEq', 'Z', 'Z'): 'negb ({0} =? {1})',
               ('Eq', 'str', 'str'): 'str_eqb {0} {1}', ('NotEq', 'str', 'str'): 'negb (str_eqb {0} {1})',
               ('Lt', 'T', 'T'): 'p_ltb P {0} {1}', ('Gt', 'T', 'T'): 'p_ltb P {1} {0}',
               # datetimes are totally ordered: a <= b is not (b < a)
               ('LtE', 'T', 'T'): 'negb (p_ltb P {1} {0})', ('GtE', 'T', 'T'): 'negb (p_ltb P {0} {1})'},
  'boolops': {('Or', 'ostr', 'ostr'): ('ostr_or {0} {1}', 'ostr'),
              ('Or', 'option list str', 'list str'): ('olist_or {0} {1}', 'list str'),
              ('And', 'bool', 'bool'): ('{0} && {1}', 'bool'), ('Or', 'bool', 'bool'): ('{0} || {1}', 'bool')},
  'calls': {'DTIME': ('p_DTIME P {0}', ['T'], 'T', False),
            '_round_down_to_unit': ('p_round_down P {0} {1}', ['T', 'str'], 'T', False),
            'datetime.combine': ('p_combine P {0} {1}', ['date', 'tz'], 'T', False),
            'DATEADD(months)': ('p_dateadd_months P {0} {1}', ['T', 'Z'], 'date', False),
            'timedelta**': ('p_td_unit P {0} {1}', ['str', 'Z'], 'TD', True),
            'timedelta(0)': ('p_td_zero P', [], 'TD', False),
            'int:str': ('p_int P {0}', ['str'], 'Z', True),
            'int:ostr': ('py_int_o (p_int P) {0}', ['ostr'], 'Z', True),
            'int_or': ('py_int_or (p_int P) {0} {1}', ['ostr', 'Z'], 'Z', True),
            'Delta': ('Delta_init', [], 'delta', False),
            'set': ('@nil str', [], 'set str', False),
            '_INTERVAL_RE.match': ('p_interval_match P {0}', ['str'], 'option imatch', False),
            '_SLOT_RE.match': ('p_slot_match P {0}', ['str'], 'option smatch', False),
            '_SINGULAR_UNITS.get': ('assoc_get_default SINGULAR_UNITS {0} {1}', ['str', 'str'], 'str', False),
            '_ALLOWED_SLOTS_BY_UNIT.get': ('assoc_get ALLOWED_SLOTS_BY_UNIT {0}', ['str'], 'option list str', False)},
  'methods': {('delta', 'add_to', 1): ('Delta_add_to {0} {1}', ['T'], 'T', False),
              ('delta', 'add_interval', 2): ('Delta_add_interval {0} {1} {2}', ['Z', 'str'], 'delta', True),
              ('T', 'timetz', 0): ('p_timetz P {0}', [], 'tz', False),
              ('str', 'lower', 0): ('p_lower P {0}', [], 'str', False),
              ('ostr', 'lower', 0): ('ostr_lower (p_lower P) {0}', [], 'str', True),
              ('str', 'strip', 0): ('p_strip P {0}', [], 'str', False),
              ('str', 'split', 0): ('p_split P {0}', [], 'list str', False),
              ('smatch', 'group', 1): ('p_group P {0} {1}', ['str'], 'ostr', False)},
  'groups': {('imatch', 'num'): ('fst {0}', 'str'), ('imatch', 'unit'): ('snd {0}', 'str')},
  'mutators': {('delta', 'add_interval', 2): ('Delta_add_interval {0} {1} {2}', ['Z', 'str'], True),
               ('set str', 'add', 1): ('{1} :: {0}', ['str'], False)},
  'dispatch': {'_SLOT_PARSERS': ('SLOT_PARSERS {0} {1}', ['str', 'smatch'], LZS, True)},
  'exceptions': {'ValueError': 'ValueError'},
  'yield_type': 'T',
}

# (python name, class or None, coq name, mode, params, return type, self type, __init__ of)
FUNCTIONS = [
  ('__init__', 'Delta', 'Delta_init', 'pure', [], 'delta', None, 'delta'),
  ('add_interval', 'Delta', 'Delta_add_interval', 'exc', [('number', 'Z'), ('unit', 'str')], 'delta', 'delta', None),
  ('add_to', 'Delta', 'Delta_add_to', 'pure', [('dtime', 'T')], 'T', 'delta', None),
  ('series', 'Schedule', 'Schedule_series', 'gen',
   [('start_dtime', 'T'), ('end_dtime', 'option T'), ('count', 'Z')], 'T', 'schedule', None),
  ('_parse_interval', None, 'parse_interval', 'exc', [('interval_str', 'str')], 'prod Z|str', None, None),
  ('_parse_slot_date', None, 'parse_slot_date', 'exc', [('m', 'smatch')], LZS, None, None),
  ('_parse_slot_mday', None, 'parse_slot_mday', 'exc', [('m', 'smatch')], LZS, None, None),
  ('_parse_slot_wday', None, 'parse_slot_wday', 'exc', [('m', 'smatch')], LZS, None, None),
  ('_parse_slot_time', None, 'parse_slot_time', 'exc', [('m', 'smatch')], LZS, None, None),
  ('_parse_slot_mins', None, 'parse_slot_mins', 'exc', [('m', 'smatch')], LZS, None, None),
  ('_parse_slot_delta', None, 'parse_slot_delta', 'exc', [('m', 'smatch')], LZS, None, None),
  ('@SLOT_PARSERS', None, 'SLOT_PARSERS', None, None, None, None, None),
  ('_parse_slot', None, 'parse_slot', 'exc', [('slot_str', 'str'), ('parent_unit', 'str')], 'delta', None, None),
]

# glue that is not translated: pinned by AST equality with the text the model was written from
PINNED = {
  '_INTERVAL_RE': "_INTERVAL_RE = re.compile(r'^(?P<num>\\d+)[-\\s]+(?P<unit>[a-z]+)$', re.I)",
  'SCHEDULE': "return Schedule(schedule).series(start or NOW(), end, count=count)",
  'Schedule.__init__': '''
def __init__(self, spec_string):
  parts = spec_string.split(":", 1)
  if len(parts) != 2:
    raise ValueError("schedule must have the form INTERVAL: SLOTS, ...")

  count, unit = _parse_interval(parts[0].strip())
  self._interval_unit = unit
  self._interval = Delta().add_interval(count, unit)
  self._slots = [_parse_slot(t, self._interval_unit) for t in parts[1].split(",")]
''',
}


def same_ast(got, expected_src):
  exp = ast.parse(expected_src.strip()).body
  return [ast.dump(x) for x in got] == [ast.dump(x) for x in exp]


def strip_doc(body):
  if body and isinstance(body[0], ast.Expr) and isinstance(body[0].value, ast.Constant) \
      and isinstance(body[0].value.value, str):
    return body[1:]
  return body


def data_tables(mod):
  """Module-level tables, from the values the running module has."""
  def s(x):
    if not isinstance(x, str):
      raise Untranslatable('table key/value %r is not a str' % (x,))
    return strlit(x)
  def z(n):
    if not isinstance(n, int) or isinstance(n, bool):
      raise Untranslatable('table value %r is not an int' % (n,))
    return '(%d)%%Z' % n
  def table(name, ty, items):
    return 'Definition %s : %s :=\n  [%s].\n' % (name, ty, ';\n   '.join(items))
  out = [
    table('INTERVAL_ALIASES', 'list (str * (Z * str))',
          ['(%s, (%s, %s))' % (s(k), z(v[0]), s(v[1])) for k, v in mod._INTERVAL_ALIASES.items()]),
    table('SINGULAR_UNITS', 'list (str * str)', ['(%s, %s)' % (s(k), s(v)) for k, v in mod._SINGULAR_UNITS.items()]),
    table('VALID_UNITS', 'list str', [s(k) for k in sorted(mod._VALID_UNITS)]),
    table('SHORT_UNITS', 'list (str * str)', ['(%s, %s)' % (s(k), s(v)) for k, v in mod._SHORT_UNITS.items()]),
    table('WEEKDAY_OFFSETS', 'list (str * Z)', ['(%s, %s)' % (s(k), z(v)) for k, v in mod.WEEKDAY_OFFSETS.items()]),
    table('MONTH_OFFSETS', 'list (str * Z)', ['(%s, %s)' % (s(k), z(v)) for k, v in mod.MONTH_OFFSETS.items()]),
    table('ALLOWED_SLOTS_BY_UNIT', 'list (str * list str)',
          ['(%s, [%s])' % (s(k), '; '.join(s(x) for x in v)) for k, v in mod._ALLOWED_SLOTS_BY_UNIT.items()]),
  ]
  return '\n'.join(out)


def dispatch_def(tree, known):
  for node in tree.body:
    if isinstance(node, ast.Assign) and len(node.targets) == 1 and isinstance(node.targets[0], ast.Name) \
        and node.targets[0].id == '_SLOT_PARSERS':
      d = node.value
      if not isinstance(d, ast.Dict):
        fail(node, '_SLOT_PARSERS is not a dict literal')
      keys = []
      term = 'Exn KeyError'
      for k, v in reversed(list(zip(d.keys, d.values))):
        if not (isinstance(k, ast.Constant) and isinstance(k.value, str) and isinstance(v, ast.Name)) \
            or v.id not in known or k.value in keys:
          fail(node, '_SLOT_PARSERS entry')
        keys.append(k.value)
        term = 'if str_eqb k %s then %s m\n  else %s' % (strlit(k.value), known[v.id], term)
      return 'Definition SLOT_PARSERS (k : str) (m : smatch) : exc (list (Z * str)) :=\n  %s.\n' % term
  raise Untranslatable('_SLOT_PARSERS not found')


def generate(path, mod):
  with open(path) as f:
    tree = ast.parse(f.read())
  funcs = {}
  for node in tree.body:
    if isinstance(node, ast.FunctionDef):
      funcs[(None, node.name)] = node
    elif isinstance(node, ast.ClassDef):
      for sub in node.body:
        if isinstance(sub, ast.FunctionDef):
          funcs[(node.name, sub.name)] = sub
  # pins
  pin_re = [n for n in tree.body if isinstance(n, ast.Assign) and isinstance(n.targets[0], ast.Name)
            and n.targets[0].id == '_INTERVAL_RE']
  if not same_ast(pin_re, PINNED['_INTERVAL_RE']):
    raise Untranslatable('_INTERVAL_RE differs from the pinned pattern (its two groups are modelled as mandatory)')
  if (None, 'SCHEDULE') not in funcs or not same_ast(strip_doc(funcs[(None, 'SCHEDULE')].body), PINNED['SCHEDULE']):
    raise Untranslatable('the body of SCHEDULE differs from the pinned text')
  if ('Schedule', '__init__') not in funcs or not same_ast([funcs[('Schedule', '__init__')]], PINNED['Schedule.__init__']):
    raise Untranslatable('Schedule.__init__ differs from the pinned text')
  tr = Translator(BINDING)
  defs = []
  known = {}
  for name, cls, coqname, mode, params, ret, self_ty, init in FUNCTIONS:
    if name == '@SLOT_PARSERS':
      defs.append(dispatch_def(tree, known))
      continue
    fd = funcs.get((cls, name))
    if fd is None:
      raise Untranslatable('%s%s not found' % (cls + '.' if cls else '', name))
    defs.append(tr.function(fd, coqname, mode, params, ret, self_ty, init))
    known[name] = coqname
  head = ('(* GENERATED on every run by harness/sch2v*.py from sandbox/grist/functions/schedule.py -- do not edit *)\n'
          'From Coq Require Import ZArith List Bool.\nImport ListNotations.\n'
          'Require Import Grist.Model.Schedule Grist.Lib.PySched Grist.Model.ScheduleCode.\nOpen Scope Z_scope.\n\n')
  sec = ('Section Gen.\n  Context {T TD date tz smatch : Type} (P : prims T TD date tz smatch).\n\n' +
         '\n'.join(defs) + 'End Gen.\n')
  return head + data_tables(mod) + '\n' + sec
