"""C19: regeneration of coq/gen/CodeBuilder_gen.v (harness/cb2v*.py) and the differential validation of the
translator and of the hand-written regex meanings (Lib/CbPrelude.v) against the running code."""
import ast
import os
import re

from harness import core

S = core.strlit
GEN_IMPORTS = ['Grist.Model.Codegen', 'Grist.Model.TextBuilder', 'Grist.Lib.TbPrelude', 'GristGen.TextBuilder_gen',
               'Grist.Lib.CbPrelude', 'GristGen.CodeBuilder_gen', 'GristGen.Codegen_gen']
GEN_DEFS = ('Definition rteq (r : res (list Z)) (b : list Z) : bool := match r with Ok a => teq a b | _ => false end.\n'
            'Fixpoint leqb {A} (e : A -> A -> bool) (l m : list A) : bool :=\n'
            '  match l, m with [], [] => true | x :: l\', y :: m\' => e x y && leqb e l\' m\' | _, _ => false end.\n'
            'Definition m_eqb (a b : Z * Z * list Z) : bool :=\n'
            '  (fst (fst a) =? fst (fst b)) && (snd (fst a) =? snd (fst b)) && teq (snd a) (snd b).\n'
            'Definition zt_eqb (a b : Z * list Z) : bool := (fst a =? fst b) && teq (snd a) (snd b).\n')


def regenerate(ctx):
  from harness import cb2v_plan, tb2v
  from harness.cb2v import Untranslatable
  os.makedirs(os.path.join(core.COQ, 'gen'), exist_ok=True)
  try:      # the Replacer/make_patch definitions are those generated for C37
    text = tb2v.generate(os.path.join(core.GRIST, 'textbuilder.py'))
  except tb2v.Untranslatable as e:
    raise core.TieBroken('textbuilder.py is outside the subset translated by tb2v: %s' % e)
  core.write_if_changed(os.path.join(core.COQ, 'gen', 'TextBuilder_gen.v'), text)
  from harness import cb2v_spec
  try:
    text, pins = cb2v_plan.generate(core.GRIST)
  except Untranslatable as e:
    raise core.TieBroken('codebuilder.py is outside what cb2v translates: %s' % e)
  core.write_if_changed(os.path.join(core.COQ, 'gen', 'CodeBuilder_gen.v'), text)
  ctx.extra['regenerated'] = re.findall(r'^(?:Definition|Fixpoint) (gen_\w+)', text, re.M)
  ctx.extra['pinned_glue'] = sorted(pins)
  try:        # after the file is written: the bridging proofs are still re-checked against the new code
    cb2v_spec.check_pins(pins)
  except Untranslatable as e:
    ctx.broken('translation:C19 pinned glue', str(e))


# ------------------------------------------------------------------------------------------------

def coq_regex(name, arg=None):
  return '(%s %s)' % (name, S(arg)) if arg is not None else name


def python_regex(name, arg=None):
  import codebuilder
  import textbuilder
  return {'RE_indent_line': lambda: codebuilder.indent_line_re, 'RE_line_start': lambda: textbuilder.line_start_re,
          'RE_ws_only': lambda: codebuilder._whitespace_only_re,
          'RE_leading_ws': lambda: codebuilder._leading_whitespace_re,
          'RE_line_prefix': lambda: re.compile(r'^' + arg, re.MULTILINE),
          'RE_universal_nl': lambda: codebuilder._universal_newline_re, 'RE_dollar': lambda: codebuilder.DOLLAR_REGEX,
          'RE_unindent': lambda: re.compile(r'(?<=\n)' + re.escape(arg) + r'(?=.*\S)')}[name]()


def regex_cases(ctx, texts):
  """finditer of every pattern (spans and group 1) and sub with a plain replacement, against `re`."""
  rng = ctx.rng
  cases, used = [], []
  names = ['RE_indent_line', 'RE_line_start', 'RE_ws_only', 'RE_leading_ws', 'RE_line_prefix', 'RE_universal_nl',
           'RE_dollar', 'RE_unindent']
  for t in texts:
    name = rng.choice(names)
    arg = None
    if name == 'RE_line_prefix':
      arg = rng.choice([' ', '  ', '\t', ' \t', '    '])
    if name == 'RE_unindent':
      arg = rng.choice(['  ', '    ', '\t', ' '])
    rx = python_regex(name, arg)
    ms = [(m.start(0), m.end(0), (m.group(1) if rx.groups else '')) for m in rx.finditer(t)]
    repl = rng.choice(['', '# ', 'X\n'])
    sub = rx.sub(lambda m: repl, t)
    cases.append('(%s, %s, %s, %s, %s)' % (coq_regex(name, arg), S(t),
                                           core.coq_list(['(%d, %d, %s)' % (a, b, S(g)) for a, b, g in ms]),
                                           S(repl), S(sub)))
    used.append((name, arg, t))
    ctx.count(('re', name, arg, t), nontrivial=bool(ms), kind='gen:re ' + name)
  check = ('fun c => match c with (r, t, ms, repl, out) => leqb m_eqb (re_finditer r t) ms && teq (re_sub r repl t) out end')
  return cases, used, check


def coq_node(atok, node, depth=0):
  if isinstance(node, ast.Constant):
    k = 'KConstant %s' % ('VStr' if isinstance(node.value, str) else 'VBytes' if isinstance(node.value, bytes) else 'VOther')
  elif isinstance(node, ast.JoinedStr):
    k = 'KJoinedStr'
  elif isinstance(node, ast.Name):
    k = 'KName %s' % S(node.id)
  else:
    k = {ast.Call: 'KCall', ast.Expr: 'KExpr', ast.Assign: 'KAssign', ast.Return: 'KReturn'}.get(type(node), 'KOther')
  start, _end = atok.get_text_range(node)
  kids = [coq_node(atok, c, depth + 1) for c in ast.iter_child_nodes(node)
          if not isinstance(c, (ast.expr_context, ast.operator, ast.unaryop, ast.boolop, ast.cmpop))]
  return '(Node (%s) %d %s %s)' % (k, start, S(atok.get_text(node)), core.coq_list(kids))


def body_cases(ctx, formulas):
  """gen_make_formula_body / gen_multiline_string_nodes on the real tree, against make_formula_body."""
  import asttokens
  import codebuilder
  cases, used = [], []
  for f in formulas:
    if len(f) > 120:
      continue
    ind = ctx.rng.choice(['    ', '  ', ''])
    try:
      fb = codebuilder._do_make_formula_body(f, None)
      body = codebuilder.make_formula_body(f, None, indent=ind).get_text()
      have = bool(getattr(fb, 'have_multiline_strings', None))
      ib = codebuilder._indent(fb, ind).get_text()
      atok = asttokens.ASTText('def f():\n' + ib)
      tree = atok.tree
      found = [(atok.get_text_range(n)[0], atok.get_text(n)) for n in codebuilder._multiline_string_nodes(atok, tree)]
    except Exception:        # pylint: disable=broad-except
      continue               # formulas that raise are the search's business; stubs never have a tree to parse
    cases.append('(%s, %s, %s, %s, %s, %s)' % (S(fb.get_text()), core.boollit(have), coq_node(atok, tree), S(ind), S(body),
                                               core.coq_list(['(%d, %s)' % (a, S(t)) for a, t in found])))
    used.append(f)
    ctx.count(('genbody', ind, f), nontrivial=bool(found), kind='gen:make_formula_body' + (' multi-line' if found else ''))
  check = ('fun c => match c with (fb, have, tree, ind, body, found) => rteq (gen_make_formula_body fb have tree ind) body '
           '&& leqb zt_eqb (map (fun n => (node_start n, node_text n)) (gen_multiline_string_nodes tree)) found end')
  return cases, used, check


def walk_cases(ctx, formulas, token_stream, lazy_names):
  """gen_walk (the loop over ast.walk(tree) of _do_make_formula_body) on the real nodes and the real offset tables
  of the temporary text: the hint against the attribute the code leaves on its result, the `$` patches against
  the positions of the `$name` tokens found independently with tokenize."""
  import codebuilder
  import textbuilder
  import asttokens
  cases, used = [], []
  for f in formulas:
    if len(f) > 120 or '\x0c' in f or '\x00' in f:
      continue
    try:
      fb = codebuilder._do_make_formula_body(f, None)
      if not hasattr(fb, 'have_multiline_strings'):
        continue                                       # a stub or the type default: the loop did not run to its end
      f0 = codebuilder._dedent(textbuilder.Text(re.sub(r'\r\n?', '\n', f))).get_text()
      rep = textbuilder.Replacer(textbuilder.Text(f0), textbuilder.make_regexp_patches(f0, codebuilder.DOLLAR_REGEX, 'DOLLAR'))
      atok = asttokens.ASTText(rep.get_text())
      nodes = list(ast.walk(atok.tree))
      if any(isinstance(n, ast.Name) and n.id in lazy_names for n in nodes):
        continue
      segs = token_stream(f0)
    except Exception:        # pylint: disable=broad-except
      continue
    pos, want = 0, []
    for k, sg in segs:
      if k == 'D':
        want.append(pos)
      pos += len(sg) + (1 if k == 'D' else 0)
    flat = core.coq_list(['(Node (%s) %d %s [])' % (coq_node(atok, n).split(') ', 1)[0][7:], atok.get_text_range(n)[0],
                                                   S(atok.get_text(n))) for n in nodes])
    cases.append('(%s, %s, %s, %s, %s, %s)' % (core.zlist(rep._input_offsets), core.zlist(rep._output_offsets), flat, S(f0),
                                               core.boollit(bool(fb.have_multiline_strings)), core.zlist(sorted(want))))
    used.append(f)
    ctx.count(('genwalk', f), nontrivial=bool(want), kind='gen:walk loop')
  check = ('fun c => match c with (io, oo, nodes, f0, have, want) => match gen_walk io oo nodes f0 with '
           '| Ok (h, ps) => Bool.eqb h have && teq (map p_start (sort_patches ps)) want && '
           'forallb (fun p => teq (p_new p) [114; 101; 99; 46] && (p_end p =? p_start p + 1)) ps | _ => false end end')
  return cases, used, check
