"""Regenerates the list of findings (DESIGN.md, between the FINDINGS markers) from known_findings.json.
usage: python -m harness.mkfindings"""
import json
import re

BEGIN, END = '<!-- FINDINGS:BEGIN -->', '<!-- FINDINGS:END -->'


def short(s, n=260):
  s = ' '.join(str(s).split()).replace('|', '/')
  return s if len(s) <= n else s[:n].rsplit(' ', 1)[0] + ' …'


def main():
  k = json.load(open('/verif/known_findings.json'))
  ents = k if isinstance(k, list) else k.get('findings', k)
  known = [e for e in ents if e.get('kind') == 'known']
  fixed = [e for e in ents if e.get('kind') == 'fixed']
  lines = [BEGIN, '',
           '**%d findings recorded: %d repaired in /repo (`fix:` commits; the witness stays in the owning check\'s regression '
           'corpus and suppresses nothing), %d kept as known findings (narrow matcher; the check prints `KNOWN-FINDING` and '
           'exits 0; any other violation of the same property is still reported).**' % (len(ents), len(fixed), len(known)), '',
           '| Property | Entry | Status | What fails |', '|---|---|---|---|']
  for e in sorted(ents, key=lambda e: (e.get('property', ''), e.get('kind') != 'fixed', e.get('id', ''))):
    st = 'known'
    if e.get('kind') == 'fixed':
      m = re.search(r'fixed: property=\S+ (\S+)', e.get('record', ''))
      st = 'fixed ' + (m.group(1) if m else e.get('commit', ''))
    lines.append('| %s | `%s` | %s | %s |' % (e.get('property'), e.get('id'), st, short(e.get('what', ''))))
  lines += ['', END]
  text = '\n'.join(lines)
  p = '/verif/DESIGN.md'
  s = open(p).read()
  if BEGIN in s:
    s = re.sub(re.escape(BEGIN) + r'.*?' + re.escape(END), lambda _: text, s, flags=re.S)
  else:
    s += '\n' + text + '\n'
  open(p, 'w').write(s)
  print(len(fixed), 'fixed;', len(known), 'known')


if __name__ == '__main__':
  main()
