"""
id2v -- fail-closed translator for sandbox/grist/identifiers.py (C21).

Every function of the module except the generator `_make_letters` is translated from its AST into Gallina over the
primitives of coq/theories/Lib/IdPrelude.v and Model/Ident.v; the result (coq/gen/Ident_gen.v) is regenerated on every
run and bridged POINTWISE to the hand model (Proofs/Ident_bridge.v).  Anything outside the fragment raises
Untranslatable.  What is not translated is pinned: the three regular expressions by their pattern text, the imports,
`_make_letters` by the dump of its AST.

Types: str, ostr (str or None), strs (set/list of str), ostrs (list of str-or-None), bool, int, char (a 1-char str).
Functions that contain a search loop (or call one) return `option`: None = out of fuel.
"""
import ast
import os

from harness import core


class Untranslatable(Exception):
  pass


def fail(node, msg):
  raise Untranslatable('%s at line %s: %s' % (msg, getattr(node, 'lineno', '?'), ast.dump(node)[:160]))


COQ_TYPE = {'str': 'str', 'ostr': 'option str', 'strs': 'list str', 'ostrs': 'list (option str)', 'bool': 'bool',
            'int': 'Z', 'char': 'Z'}

# python name -> (coq name, [(param, type)], result type, partial?)
SIGS = {
  '_uppercase': ('src_uppercase', [('avoid', 'strs')], 'strs', False),
  '_sanitize_ident': ('src_sanitize_ident', [('ident', 'ostr'), ('prefix', 'str'), ('capitalize', 'bool')], 'str', True),
  '_add_suffix': ('src_add_suffix', [('ident_base', 'str'), ('avoid', 'strs'), ('next_suffix', 'int')], 'str', True),
  '_maybe_add_suffix': ('src_maybe_add_suffix', [('ident', 'str'), ('avoid', 'strs')], 'str', True),
  '_gen_ident': ('src_gen_ident', [('avoid', 'strs')], 'str', True),
  'pick_table_ident': ('src_pick_table_ident', [('ident', 'ostr'), ('avoid', 'strs')], 'str', True),
  'pick_col_ident': ('src_pick_col_ident', [('ident', 'ostr'), ('avoid', 'strs')], 'str', True),
  'pick_col_ident_list': ('src_pick_col_ident_list', [('ident_list', 'ostrs'), ('avoid', 'strs')], 'strs', True),
}
ORDER = ['_uppercase', '_sanitize_ident', '_add_suffix', '_maybe_add_suffix', '_gen_ident', 'pick_table_ident',
         'pick_col_ident', 'pick_col_ident_list']
# fuel of each loop (justified by the termination theorems of Props/C21.v), in terms of the variables in scope
FUEL = {('_sanitize_ident', 'While'): 'S (S (max_kw_len kwlist))',
        ('_add_suffix', 'While'): 'S (length avoid)',
        ('_gen_ident', 'For'): 'S (length avoid)'}
# module-level regexes: pattern text -> how `.sub` / `.search` are rendered
REGEX = {
  "[^a-zA-Z0-9_]+": {'sub': lambda repl, s: '(re_sub_invalid_char %s %s)' % (repl, s)},
  "^(?=[0-9_])": {'sub': lambda repl, s: '(fix_start %s %s)' % (repl, s)},
  "\\d$": {'search': lambda s: '(ends_in_digit udigit %s)' % s},
}
IMPORTS = ['import itertools', 'import logging', 'import re', 'import unicodedata', 'from keyword import iskeyword',
           'from string import ascii_uppercase']
MAKE_LETTERS_SRC = '''
def _make_letters():
  length = 1
  while True:
    for letters in itertools.product(ascii_uppercase, repeat=length):
      yield ''.join(letters)
    length +=1
'''


class Tr(object):
  def __init__(self, fname, regexes, defaults):
    self.fname = fname
    self.regexes = regexes        # module-level name -> pattern text
    self.defaults = defaults      # python function -> {param: default AST}
    self.env = {}

  # ---- expressions: returns (coq term, type) -------------------------------------------------------------
  def expr(self, n, want=None):
    term, ty = self.expr_(n)
    if want is not None and ty != want:
      fail(n, 'type %s where %s is needed' % (ty, want))
    return term, ty

  def expr_(self, n):
    if isinstance(n, ast.Name):
      if n.id not in self.env:
        fail(n, 'unbound name %s' % n.id)
      return n.id, self.env[n.id]
    if isinstance(n, ast.Constant):
      if isinstance(n.value, bool):
        return core.boollit(n.value), 'bool'
      if isinstance(n.value, int):
        return '(%s)' % core.zlit(n.value), 'int'
      if isinstance(n.value, str):
        return core.strlit(n.value), 'str'
      fail(n, 'constant')
    if isinstance(n, ast.BinOp):
      return self.binop(n)
    if isinstance(n, ast.UnaryOp) and isinstance(n.op, ast.Not):
      term, ty = self.expr(n.operand)
      if ty == 'str':
        return '(is_empty %s)' % term, 'bool'
      if ty == 'bool':
        return '(negb %s)' % term, 'bool'
      fail(n, 'not of a %s' % ty)
    if isinstance(n, ast.Compare) and len(n.ops) == 1 and isinstance(n.ops[0], (ast.In, ast.NotIn)):
      x, _ = self.expr(n.left, 'str')
      l, _ = self.expr(n.comparators[0], 'strs')
      t = '(mem %s %s)' % (x, l)
      return ('(negb %s)' % t if isinstance(n.ops[0], ast.NotIn) else t), 'bool'
    if isinstance(n, ast.IfExp):
      return self.ifexp(n)
    if isinstance(n, ast.Subscript):
      v, _ = self.expr(n.value, 'str')
      if isinstance(n.slice, ast.Constant) and n.slice.value == 0:
        return '(py_hd %s)' % v, 'char'
      s = n.slice
      if (isinstance(s, ast.Slice) and isinstance(s.lower, ast.Constant) and s.lower.value == 1
          and s.upper is None and s.step is None):
        return '(tl %s)' % v, 'str'
      fail(n, 'subscript')
    if isinstance(n, ast.SetComp):
      if len(n.generators) != 1 or n.generators[0].ifs or not isinstance(n.generators[0].target, ast.Name):
        fail(n, 'set comprehension')
      g = n.generators[0]
      it, _ = self.expr(g.iter, 'strs')
      saved = dict(self.env)
      self.env[g.target.id] = 'str'
      elt, _ = self.expr(n.elt, 'str')
      self.env = saved
      return '(map (fun %s => %s) %s)' % (g.target.id, elt, it), 'strs'
    if isinstance(n, ast.List) and not n.elts:
      return '(@nil str)', 'strs'
    if isinstance(n, ast.Call):
      return self.call(n)
    fail(n, 'expression')

  def binop(self, n):
    if isinstance(n.op, ast.Add):
      a, ta = self.expr(n.left)
      b, tb = self.expr(n.right)
      if ta == tb == 'str':
        return '(%s ++ %s)' % (a, b), 'str'
      if ta == tb == 'int':
        return '(%s + %s)' % (a, b), 'int'
      fail(n, '+ on %s and %s' % (ta, tb))
    if (isinstance(n.op, ast.Mod) and isinstance(n.left, ast.Constant) and n.left.value == '%s%d'
        and isinstance(n.right, ast.Tuple) and len(n.right.elts) == 2):
      a, _ = self.expr(n.right.elts[0], 'str')
      b, _ = self.expr(n.right.elts[1], 'int')
      return '(%s ++ dec %s)' % (a, b), 'str'
    fail(n, 'binary operator')

  def ifexp(self, n):
    t = n.test
    if (isinstance(t, ast.Compare) and len(t.ops) == 1 and isinstance(t.ops[0], ast.Is)
        and isinstance(t.left, ast.Name) and isinstance(t.comparators[0], ast.Constant)
        and t.comparators[0].value is None and self.env.get(t.left.id) == 'ostr'):
      x = t.left.id
      a, ta = self.expr(n.body)
      saved = dict(self.env)
      self.env[x] = 'str'
      b, tb = self.expr(n.orelse)
      self.env = saved
      if ta != tb:
        fail(n, 'branches of different types')
      return '(match %s with None => %s | Some %s => %s end)' % (x, a, x, b), ta
    a, ta = self.expr(n.body)
    b, tb = self.expr(n.orelse)
    if ta != tb:
      fail(n, 'branches of different types')
    return '(if %s then %s else %s)' % (self.cond(t), a, b), ta

  def cond(self, n):
    """truth value of an expression"""
    term, ty = self.expr(n)
    if ty == 'bool':
      return term
    if ty == 'str':
      return '(negb (is_empty %s))' % term
    fail(n, 'truth value of a %s' % ty)

  # ---- calls -----------------------------------------------------------------------------------------------
  def args_of(self, n, pyname):
    """positional + keyword + default arguments of a call to a module function, in the callee's order"""
    _coq, params, _res, _partial = SIGS[pyname]
    if len(n.args) > len(params):
      fail(n, 'too many arguments')
    given = dict(zip([p for p, _t in params], n.args))
    for kw in n.keywords:
      if kw.arg is None or kw.arg in given or kw.arg not in dict(params):
        fail(n, 'keyword argument')
      given[kw.arg] = kw.value
    out = []
    for p, t in params:
      node = given.get(p, self.defaults.get(pyname, {}).get(p))
      if node is None:
        fail(n, 'missing argument %s' % p)
      term, ty = self.expr(node)
      if ty == 'str' and t == 'ostr':
        term, ty = '(Some %s)' % term, 'ostr'
      if ty != t:
        fail(n, 'argument %s has type %s, not %s' % (p, ty, t))
      out.append(term)
    return out

  def is_partial_call(self, n):
    return (isinstance(n, ast.Call) and isinstance(n.func, ast.Name) and n.func.id in SIGS
            and SIGS[n.func.id][3])

  def user_call(self, n):
    coq, _params, res, _partial = SIGS[n.func.id]
    return '(%s %s)' % (coq, ' '.join(self.args_of(n, n.func.id))), res

  def call(self, n):
    f = n.func
    if isinstance(f, ast.Name):
      if f.id in SIGS:
        if SIGS[f.id][3]:
          fail(n, 'call of a function with a search loop inside an expression')
        return self.user_call(n)
      if f.id == 'str' and len(n.args) == 1 and not n.keywords:
        return '(py_str %s)' % self.expr(n.args[0], 'str')[0], 'str'
      if f.id == 'iskeyword' and len(n.args) == 1 and not n.keywords:
        return '(iskeyword kwlist %s)' % self.expr(n.args[0], 'str')[0], 'bool'
      fail(n, 'call of %s' % f.id)
    if not isinstance(f, ast.Attribute) or n.keywords:
      fail(n, 'call')
    if isinstance(f.value, ast.Name) and f.value.id == 'unicodedata':
      if (f.attr == 'normalize' and len(n.args) == 2 and isinstance(n.args[0], ast.Constant)
          and n.args[0].value == 'NFKD'):
        return '(nfkd %s)' % self.expr(n.args[1], 'str')[0], 'str'
      if f.attr == 'combining' and len(n.args) == 1:
        return '(combining %s)' % self.expr(n.args[0], 'char')[0], 'bool'     # used as a truth value only
      fail(n, 'unicodedata call')
    if isinstance(f.value, ast.Name) and f.value.id in self.regexes:
      how = REGEX.get(self.regexes[f.value.id])
      if how is None or f.attr not in how:
        fail(n, 'regular expression %r .%s' % (self.regexes[f.value.id], f.attr))
      if f.attr == 'sub' and len(n.args) == 2:
        return how['sub'](self.expr(n.args[0], 'str')[0], self.expr(n.args[1], 'str')[0]), 'str'
      if f.attr == 'search' and len(n.args) == 1:
        return how['search'](self.expr(n.args[0], 'str')[0]), 'bool'           # used as a truth value only
      fail(n, 'regular expression call')
    if f.attr == 'join' and len(n.args) == 1 and isinstance(n.args[0], ast.GeneratorExp):
      sep, _ = self.expr(f.value, 'str')
      g = n.args[0]
      if len(g.generators) != 1 or not isinstance(g.generators[0].target, ast.Name):
        fail(n, 'generator expression')
      gen = g.generators[0]
      it, _ = self.expr(gen.iter, 'str')
      saved = dict(self.env)
      self.env[gen.target.id] = 'char'
      src = it
      for c in gen.ifs:
        src = '(filter (fun %s => %s) %s)' % (gen.target.id, self.cond(c), src)
      elt, ty = self.expr(g.elt)
      self.env = saved
      if ty == 'char':
        elt = '[%s]' % elt
      elif ty != 'str':
        fail(n, 'join of %s' % ty)
      return '(py_join %s (map (fun %s => %s) %s))' % (sep, gen.target.id, elt, src), 'str'
    recv, ty = self.expr(f.value)
    if f.attr == 'upper' and not n.args and ty == 'str':
      return '(upper upper_char %s)' % recv, 'str'
    if f.attr == 'capitalize' and not n.args and ty == 'char':
      return '(cap_char %s)' % recv, 'str'
    if f.attr == 'lstrip' and len(n.args) == 1 and ty == 'str':
      return '(py_lstrip %s %s)' % (self.expr(n.args[0], 'str')[0], recv), 'str'
    fail(n, 'method %s on %s' % (f.attr, ty))

  # ---- statements ------------------------------------------------------------------------------------------
  # `seq` renders a statement list.  `ret(term)` renders `return <pure term>`; `tail` is what falling off the end means
  # (None: not allowed); `partial_ok`: a `return f(...)` of a function with a search loop may be rendered as the call.
  @staticmethod
  def assigned(stmts):
    out = []
    for s in stmts:
      for n in ast.walk(s):
        t = None
        if isinstance(n, ast.Assign) and len(n.targets) == 1 and isinstance(n.targets[0], ast.Name):
          t = n.targets[0].id
        elif isinstance(n, ast.AugAssign) and isinstance(n.target, ast.Name):
          t = n.target.id
        elif (isinstance(n, ast.Expr) and isinstance(n.value, ast.Call) and isinstance(n.value.func, ast.Attribute)
              and n.value.func.attr in ('add', 'append') and isinstance(n.value.func.value, ast.Name)):
          t = n.value.func.value.id
        if t is not None and t not in out:
          out.append(t)
    return out

  @staticmethod
  def tup(vs):
    return vs[0] if len(vs) == 1 else '(%s)' % ', '.join(vs)

  @staticmethod
  def binder(vs):
    """(binder text, prologue) of a function over the state variables vs"""
    if len(vs) == 1:
      return vs[0], ''
    return 'st__', "let '(%s) := st__ in " % ', '.join(vs)

  def has_return(self, stmts):
    return any(isinstance(n, ast.Return) for s in stmts for n in ast.walk(s))

  def ret_value(self, n, ret, partial_ok):
    if isinstance(n, ast.IfExp) and (self.is_partial_call(n.body) or self.is_partial_call(n.orelse)):
      return '(if %s then %s else %s)' % (self.cond(n.test), self.ret_value(n.body, ret, partial_ok),
                                          self.ret_value(n.orelse, ret, partial_ok))
    if self.is_partial_call(n):
      if not partial_ok:
        fail(n, 'return of a searching call inside a loop')
      return self.user_call(n)[0]
    return ret(self.expr(n)[0])

  def seq(self, stmts, ret, tail, partial_ok=True):
    if not stmts:
      if tail is None:
        raise Untranslatable('%s: control reaches the end of a block without return' % self.fname)
      return tail
    s, rest = stmts[0], stmts[1:]
    go = lambda: self.seq(rest, ret, tail, partial_ok)
    if isinstance(s, ast.Expr) and isinstance(s.value, ast.Constant) and isinstance(s.value.value, str):
      return go()                                                       # docstring
    if isinstance(s, ast.Return):
      if rest or s.value is None:
        fail(s, 'return')
      return self.ret_value(s.value, ret, partial_ok)
    if isinstance(s, (ast.Assign, ast.AugAssign)):
      if isinstance(s, ast.AugAssign):
        if not isinstance(s.target, ast.Name):
          fail(s, 'assignment target')
        name = s.target.id
        value = ast.BinOp(left=ast.Name(id=name, ctx=ast.Load()), op=s.op, right=s.value)
        ast.copy_location(value, s)
      else:
        if len(s.targets) != 1 or not isinstance(s.targets[0], ast.Name):
          fail(s, 'assignment target')
        name, value = s.targets[0].id, s.value
      if self.is_partial_call(value):
        if not partial_ok:
          fail(s, 'searching call inside a loop without failure propagation')
        term, ty = self.user_call(value)
        self.env[name] = ty
        return '(match %s with None => None | Some %s => %s end)' % (term, name, go())
      term, ty = self.expr(value)
      self.env[name] = ty
      return '(let %s := %s in %s)' % (name, term, go())
    if (isinstance(s, ast.Expr) and isinstance(s.value, ast.Call) and isinstance(s.value.func, ast.Attribute)
        and isinstance(s.value.func.value, ast.Name) and len(s.value.args) == 1 and not s.value.keywords
        and self.env.get(s.value.func.value.id) == 'strs' and s.value.func.attr in ('add', 'append')):
      name = s.value.func.value.id
      x, _ = self.expr(s.value.args[0], 'str')
      new = '(%s :: %s)' % (x, name) if s.value.func.attr == 'add' else '(%s ++ [%s])' % (name, x)
      return '(let %s := %s in %s)' % (name, new, go())
    if isinstance(s, ast.If):
      if s.orelse:
        fail(s, 'if with else')
      c = self.cond(s.test)
      if self.has_return(s.body):
        saved = dict(self.env)
        then = self.seq(s.body, ret, None, partial_ok)
        self.env = saved
        return '(if %s then %s else %s)' % (c, then, go())
      vs = self.assigned(s.body)
      if not vs or any(v not in self.env for v in vs):
        fail(s, 'if assigning new variables')
      saved = dict(self.env)
      then = self.seq(s.body, None, self.tup(vs), False)
      if any(self.env[v] != saved[v] for v in vs):
        fail(s, 'if changing the type of a variable')
      pat = vs[0] if len(vs) == 1 else "'(%s)" % ', '.join(vs)
      return '(let %s := (if %s then %s else %s) in %s)' % (pat, c, then, self.tup(vs), go())
    if isinstance(s, ast.While):
      return self.while_(s, rest, ret, tail, partial_ok)
    if isinstance(s, ast.For):
      return self.for_(s, rest, ret, tail, partial_ok)
    fail(s, 'statement')

  def fuel(self, kind, node):
    f = FUEL.get((self.fname, kind))
    if f is None:
      fail(node, 'loop without a declared fuel')
    return f

  def while_(self, s, rest, ret, tail, partial_ok):
    if s.orelse:
      fail(s, 'while/else')
    live = [v for v in self.assigned(s.body) if v in self.env]
    if not live:
      fail(s, 'loop that changes no variable')
    b, pro = self.binder(live)
    if isinstance(s.test, ast.Constant) and s.test.value is True:
      # `while True:` that leaves by `return`: must be the last statement
      if rest or not self.has_return(s.body):
        fail(s, 'while True')
      saved = dict(self.env)
      step = self.seq(s.body, lambda t: '(inl %s)' % t, '(inr %s)' % self.tup(live), False)
      self.env = saved
      looped = '(loop_ret (%s) (fun %s => %s%s) %s)' % (self.fuel('While', s), b, pro, step, self.tup(live))
      return looped if ret is None else self.wrap_loop_ret(looped, ret)
    if self.has_return(s.body):
      fail(s, 'return inside a conditional loop')
    saved = dict(self.env)
    c = self.cond(s.test)
    body = self.seq(s.body, None, self.tup(live), False)
    if any(self.env[v] != saved[v] for v in live):
      fail(s, 'loop changing the type of a variable')
    pat = live[0] if len(live) == 1 else "(%s)" % ', '.join(live)
    return '(match while_do (%s) (fun %s => %s%s) (fun %s => %s%s) %s with None => None | Some %s => %s end)' % (
      self.fuel('While', s), b, pro, c, b, pro, body, self.tup(live), pat, self.seq(rest, ret, tail, partial_ok))

  def wrap_loop_ret(self, looped, ret):
    # the function's own `return x` is `Some x`: loop_ret already yields an option of the returned value
    if ret('x__') != '(Some x__)':
      raise Untranslatable('%s: returning loop nested in another loop' % self.fname)
    return looped

  def for_(self, s, rest, ret, tail, partial_ok):
    if s.orelse or not isinstance(s.target, ast.Name):
      fail(s, 'for')
    x = s.target.id
    it = s.iter
    if (isinstance(it, ast.Call) and isinstance(it.func, ast.Name) and it.func.id == '_make_letters'
        and not it.args and not it.keywords):
      # endless generator (pinned, IdPrelude.make_letters): the loop must leave by return and be the last statement
      if rest or not self.has_return(s.body) or self.assigned(s.body):
        fail(s, 'for over _make_letters()')
      saved = dict(self.env)
      self.env[x] = 'str'
      step = self.seq(s.body, lambda t: '(inl %s)' % t, '(inr (S i__))', False)
      self.env = saved
      looped = '(loop_ret (%s) (fun i__ => let %s := make_letters i__ in %s) 0%%nat)' % (self.fuel('For', s), x, step)
      return self.wrap_loop_ret(looped, ret)
    lst, ty = self.expr(it)
    if ty not in ('ostrs', 'strs') or self.has_return(s.body):
      fail(s, 'for over %s' % ty)
    live = [v for v in self.assigned(s.body) if v in self.env and v != x]
    if not live or not partial_ok:
      fail(s, 'for loop')
    b, pro = self.binder(live)
    saved = dict(self.env)
    self.env[x] = 'ostr' if ty == 'ostrs' else 'str'
    body = self.seq(s.body, None, '(Some %s)' % self.tup(live), True)
    if any(self.env[v] != saved[v] for v in live):
      fail(s, 'loop changing the type of a variable')
    self.env = saved
    pat = live[0] if len(live) == 1 else "(%s)" % ', '.join(live)
    return '(match fold_opt (fun %s %s => %s%s) %s %s with None => None | Some %s => %s end)' % (
      b, x, pro, body, lst, self.tup(live), pat, self.seq(rest, ret, tail, partial_ok))


# ---- the module -------------------------------------------------------------------------------------------------

def strip_doc(fn):
  body = fn.body
  if body and isinstance(body[0], ast.Expr) and isinstance(body[0].value, ast.Constant) \
      and isinstance(body[0].value.value, str):
    fn.body = body[1:]
  return fn


def translate_module(path):
  with open(path) as f:
    tree = ast.parse(f.read())
  funcs, regexes, imports = {}, {}, []
  for node in tree.body:
    if isinstance(node, ast.FunctionDef):
      funcs[node.name] = node
    elif isinstance(node, (ast.Import, ast.ImportFrom)):
      imports.append(ast.unparse(node))
    elif (isinstance(node, ast.Assign) and len(node.targets) == 1 and isinstance(node.targets[0], ast.Name)
          and isinstance(node.value, ast.Call) and ast.unparse(node.value.func) == 're.compile'
          and len(node.value.args) == 1 and not node.value.keywords and isinstance(node.value.args[0], ast.Constant)):
      regexes[node.targets[0].id] = node.value.args[0].value
    elif isinstance(node, ast.Expr) and isinstance(node.value, ast.Constant):
      pass                                              # module docstring
    elif isinstance(node, ast.Assign) and ast.unparse(node) == 'log = logging.getLogger(__name__)':
      pass
    else:
      fail(node, 'module-level statement')
  if sorted(imports) != sorted(IMPORTS):
    raise Untranslatable('imports changed: %r' % (imports,))
  for name, pat in regexes.items():
    if pat not in REGEX:
      raise Untranslatable('regular expression %s = %r is not one of the modelled patterns' % (name, pat))
  if set(funcs) != set(ORDER) | {'_make_letters'}:
    raise Untranslatable('functions of the module changed: %r' % sorted(funcs))
  pinned = ast.dump(strip_doc(ast.parse(MAKE_LETTERS_SRC).body[0]))
  if ast.dump(strip_doc(funcs['_make_letters'])) != pinned:
    raise Untranslatable('_make_letters differs from the pinned text (IdPrelude.make_letters models that text)')
  defaults = {}
  for name in ORDER:
    a = funcs[name].args
    if a.vararg or a.kwarg or a.kwonlyargs or a.posonlyargs:
      fail(funcs[name], 'parameters')
    names = [x.arg for x in a.args]
    if names != [p for p, _t in SIGS[name][1]]:
      fail(funcs[name], 'parameters differ from the declared signature')
    defaults[name] = dict(zip(names[len(names) - len(a.defaults):], a.defaults))
  defs = []
  for name in ORDER:
    coq, params, res, partial = SIGS[name]
    tr = Tr(name, regexes, defaults)
    tr.env = dict(params)
    ret = (lambda t: '(Some %s)' % t) if partial else (lambda t: t)
    body = tr.seq(funcs[name].body, ret, None, partial)
    rt = COQ_TYPE[res]
    defs.append('  Definition %s %s : %s :=\n    %s.' % (
      coq, ' '.join('(%s : %s)' % (p, COQ_TYPE[t]) for p, t in params), 'option (%s)' % rt if partial else rt, body))
  head = ['(* GENERATED by harness/id2v.py from %s -- do not edit *)' % os.path.relpath(path, core.REPO),
          'From Coq Require Import ZArith List Bool.', 'Import ListNotations.',
          'Require Import Grist.Model.Ident Grist.Lib.IdPrelude.', 'Open Scope Z_scope.', '', 'Section Src.',
          '  Variable nfkd : str -> str.', '  Variable combining : Z -> bool.', '  Variable upper_char : Z -> str.',
          '  Variable cap_char : Z -> str.', '  Variable udigit : Z -> bool.', '  Variable kwlist : list str.', '']
  return '\n'.join(head) + '\n\n'.join(defs) + '\nEnd Src.\n'
