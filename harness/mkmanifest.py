"""Writes MANIFEST.json from the property modules present (so the file is always consistent)."""
import glob
import importlib
import json
import os

from harness import core

NOT_YET = 'check not built yet in this development (see DESIGN.md section 8 for the build order); not claimed'


def main():
  ids = [json.loads(l)['id'] for l in open(os.path.join(core.VERIF, 'properties.jsonl'))]
  checks = []
  have = set()
  for path in sorted(glob.glob(os.path.join(core.VERIF, 'harness', 'props', 'c[0-9][0-9].py'))):
    try:
      mod = importlib.import_module('harness.props.' + os.path.basename(path)[:-3])
    except Exception as e:
      print('cannot import', path, e)
      continue
    if getattr(mod, 'DISABLED', False):
      continue
    have.add(mod.ID)
    checks.append({
      'property_id': mod.ID,
      'quick_cmd': './check %s --tier quick' % mod.ID,
      'thorough_cmd': './check %s --tier thorough' % mod.ID,
      'evidence_file': 'evidence/%s.json' % mod.ID,
      'replay_cmd_template': './check %s --replay {path}' % mod.ID,
      'engine': 'coq',
      'level_claimed': {'category': 'proof', 'text': mod.LEVEL_TEXT, 'design_ref': 'DESIGN.md section 6 ' + mod.ID},
      'level_note': mod.LEVEL_NOTE,
      'technique': mod.TECHNIQUE,
    })
  na_reasons = {}
  p = os.path.join(core.VERIF, 'not_applicable.json')
  if os.path.exists(p):
    na_reasons = json.load(open(p))
  man = {
    'version': 1,
    'setup_cmd': './setup.sh',
    'hooks': {
      'guard': 'GRIST_CORE_VERIF',
      'enable': 'no source hooks are needed: the harness wraps engine internals from its own process and puts '
                '/verif/stubs (a friendly_traceback stand-in) on PYTHONPATH; the guard variable is declared but unused',
      'baseline_off_cmd': 'cd /repo && /venv/bin/python -m pytest -ra -q -p no:cacheprovider --timeout=900 '
                          '--continue-on-collection-errors',
      'source_commits': [],
      'add_only': True,
    },
    'engines': [{'name': 'coq', 'path': 'coq/', 'serves_properties': sorted(have),
                 'kind_free_text': 'Coq 8.16.1 development (models, proofs, property theorems) + Python harness '
                                   '(translator py2v, correspondence cases evaluated by vm_compute, impl oracles)'}],
    'checks': checks,
    'notes': 'Every check: regenerate model parts from /repo, rebuild and re-check the property theorems '
             '(Print Assumptions), run model vs implementation on generated cases, run the property oracle on the '
             'implementation, match violations against known_findings.json. See DESIGN.md.',
    'not_applicable': [{'property_id': i, 'reason': na_reasons.get(i, NOT_YET)} for i in ids if i not in have],
  }
  with open(os.path.join(core.VERIF, 'MANIFEST.json'), 'w') as f:
    json.dump(man, f, indent=1)
  print('MANIFEST: %d checks, %d not claimed' % (len(checks), len(man['not_applicable'])))


if __name__ == '__main__':
  main()
