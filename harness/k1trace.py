"""
Event-trace recorder and Coq translator for kernel K1 (action log), shared by C01 and C03 (DESIGN.md 4.3/4.4).

Recorder: wraps, from the harness process, DocActions.<each method> (doc action applied + the undo actions it
appended), ActionSummary.add_changes (calc deltas; the calls made from inside a DocActions method belong to that
doc action), ActionGroup.flush_calc_changes_for_column and flush_calc_changes, Engine.apply_doc_action (only
to check that every doc action goes through exactly one DocActions call).  /repo is never edited.

Translator: turns one recorded bundle into a term of type `trace TT` of Grist.Model.ActionLogEnc.
"""
import contextlib
import math

from harness import core
from harness import gristenv as G

import action_obj         # noqa: E402
import action_summary     # noqa: E402
import column             # noqa: E402
import docactions         # noqa: E402
import usertypes          # noqa: E402

actions = G.actions
objtypes = G.objtypes

DOC_METHODS = ['AddRecord', 'BulkAddRecord', 'RemoveRecord', 'BulkRemoveRecord', 'UpdateRecord', 'BulkUpdateRecord',
               'ReplaceTableData', 'AddColumn', 'RemoveColumn', 'RenameColumn', 'ModifyColumn', 'AddTable',
               'RemoveTable', 'RenameTable']


class Recorder(object):
  """Active while a bundle runs; collects events."""
  def __init__(self):
    self.events = []          # ('doc', repr, [undo reprs]) | ('calc', t, c, [(r, before, after)]) | ('flushcol', t, c)
    self.flush_all = 0
    self.depth = 0
    self.engine_calls = 0
    self.doc_calls = 0
    self.rolled_back = False
    self.after_flush = 0      # events after the final flush (must not happen)


_active = [None]


def _points():
  pts = [(G.engine_mod.Engine, 'apply_doc_action'), (G.engine_mod.Engine, '_undo_to_checkpoint'),
         (action_summary.ActionSummary, 'add_changes'),
         (action_obj.ActionGroup, 'flush_calc_changes'), (action_obj.ActionGroup, 'flush_calc_changes_for_column')]
  pts += [(docactions.DocActions, m) for m in DOC_METHODS]
  for cls, name in pts:
    if not callable(getattr(cls, name, None)):
      raise core.TieBroken('instrumentation point %s.%s is gone' % (cls.__name__, name))
  extra = [n for n in vars(docactions.DocActions) if n[0].isupper() and n not in DOC_METHODS]
  if extra:
    raise core.TieBroken('DocActions has doc-action kinds the model does not know: %r' % (extra,))
  return pts


@contextlib.contextmanager
def instrumented():
  """Installs the wrappers for the duration of the block (idempotent, restores on exit)."""
  pts = _points()
  saved = [(cls, name, cls.__dict__[name]) for cls, name in pts]

  def wrap_doc(name, orig):
    def w(self, *args):
      rec = _active[0]
      if rec is None:
        return orig(self, *args)
      top = rec.depth == 0
      undo = self._engine.out_actions.undo
      n0 = len(undo)
      if top:
        rec.doc_calls += 1
        act = getattr(actions, name)(*args)
        rep = actions.get_action_repr(act)
      rec.depth += 1
      try:
        res = orig(self, *args)
      finally:
        rec.depth -= 1
      if top:
        if rec.flush_all:
          rec.after_flush += 1
        rec.events.append(('doc', rep, [actions.get_action_repr(a) if a is not None else None for a in undo[n0:]]))
      return res
    return w

  def add_changes(orig):
    def w(self, table_id, col_id, changes):
      rec = _active[0]
      changes = list(changes)
      if rec is not None and rec.depth == 0:
        if rec.flush_all:
          rec.after_flush += 1
        rec.events.append(('calc', table_id, col_id,
                           [(r, objtypes.encode_object(b), objtypes.encode_object(a)) for (r, b, a) in changes]))
      return orig(self, table_id, col_id, changes)
    return w

  def flush_col(orig):
    def w(self, table_id, col_id):
      rec = _active[0]
      if rec is not None:
        rec.events.append(('flushcol', table_id, col_id))
      return orig(self, table_id, col_id)
    return w

  def flush_all(orig):
    def w(self):
      rec = _active[0]
      if rec is not None:
        rec.flush_all += 1
      return orig(self)
    return w

  def apply_doc_action(orig):
    def w(self, doc_action):
      rec = _active[0]
      if rec is not None:
        rec.engine_calls += 1
      return orig(self, doc_action)
    return w

  def undo_to_checkpoint(orig):
    def w(self, checkpoint):
      rec = _active[0]
      if rec is not None and self._get_undo_checkpoint() != checkpoint:
        rec.rolled_back = True        # a cell-level rollback really truncates stored/undo: outside the event model
      return orig(self, checkpoint)
    return w

  try:
    for cls, name, orig in saved:
      if cls is docactions.DocActions:
        setattr(cls, name, wrap_doc(name, orig))
      elif name == 'add_changes':
        setattr(cls, name, add_changes(orig))
      elif name == 'flush_calc_changes_for_column':
        setattr(cls, name, flush_col(orig))
      elif name == 'flush_calc_changes':
        setattr(cls, name, flush_all(orig))
      elif name == 'apply_doc_action':
        setattr(cls, name, apply_doc_action(orig))
      else:
        setattr(cls, name, undo_to_checkpoint(orig))
    yield
  finally:
    for cls, name, orig in saved:
      setattr(cls, name, orig)


# ---------------------------------------------------------------------------------------------------------
# engine state as the model sees it

def full_state(e):
  """{table: (rows, [(col, (type, isFormula, formula, reverseColId), [encoded cells])])} over engine.schema."""
  out = {}
  for t, st in e.schema.items():
    tab = e.tables[t]
    rows = sorted(tab.row_ids)
    cols = []
    for c, sc in st.columns.items():
      col = tab.get_column(c)
      cols.append((c, (sc.type, bool(sc.isFormula), sc.formula, getattr(sc, 'reverseColId', None)),
                   [objtypes.encode_object(col.raw_get(r)) for r in rows]))
    out[t] = (rows, cols)
  return out


def absent_cells_default(e):
  """The engine invariant the model makes explicit: cells of absent row ids hold the column default."""
  bad = []
  for t, st in e.schema.items():
    tab = e.tables[t]
    present = set(tab.row_ids)
    for c in st.columns:
      col = tab.get_column(c)
      d = col.getdefault()
      for r in range(1, col.size()):
        if r not in present and not objtypes.strict_equal(col.raw_get(r), d) and not (d != d):
          bad.append((t, c, r))
  return bad


def record_bundle(e, bundle):
  """Applies the bundle on e under the recorder.  Returns dict(trace...) ; raises what the engine raises."""
  start = full_state(e)
  rec = Recorder()
  _active[0] = rec
  try:
    out = G.apply(e, bundle)
  finally:
    _active[0] = None
  final = full_state(e)
  problems = []
  if rec.flush_all != 1:
    problems.append('flush_calc_changes called %d times' % rec.flush_all)
  if rec.after_flush:
    problems.append('%d events after the final flush' % rec.after_flush)
  if rec.engine_calls != rec.doc_calls:
    problems.append('apply_doc_action calls %d != DocActions calls %d' % (rec.engine_calls, rec.doc_calls))
  problems.extend(check_type_table(e)[:3])
  return {'rolled_back': rec.rolled_back,
          'start': start, 'final': final, 'events': rec.events, 'stored': G.reprs(out.stored),
          'undo': [actions.get_action_repr(a) if a is not None else None for a in out.undo],
          'problems': problems, 'out': out}


# ---------------------------------------------------------------------------------------------------------
# translation to Coq

class Unmodelled(Exception):
  """The trace uses something outside the concrete value model (counted, not a failure)."""


class Interner(object):
  def __init__(self):
    self.names = {}
    self.types = {}

  def s(self, x):
    if not isinstance(x, str):
      raise Unmodelled('non-string name %r' % (x,))
    if x not in self.names:
      self.names[x] = 'n%d' % len(self.names)
    return self.names[x]

  def ty(self, x):
    if x not in self.types:
      self.types[x] = type_entry(x)       # raises Unmodelled for a type name usertypes does not have
    return self.s(x)

  def defs(self):
    lines = ['Definition %s : name := %s.' % (v, core.strlit(k)) for k, v in self.names.items()]
    tt = []
    for ty, (d, k) in self.types.items():
      tt.append('(%s, (%s, %s))' % (self.names[ty], ev(d), core.zlit(k)))
    lines.append('Definition TT : typetable := %s.' % core.coq_list(tt))
    lines.append('Definition OO := EOps TT.')
    return '\n'.join(lines) + '\n'


def type_entry(ty):
  """(default, kind) of a column type string, read from the running usertypes/column modules."""
  pure = usertypes.get_pure_type(ty)
  pure = {'Ref': 'Reference', 'RefList': 'ReferenceList'}.get(pure, pure)     # gencode.get_grist_type
  cls = getattr(usertypes, pure, None)
  if not (isinstance(cls, type) and issubclass(cls, usertypes.BaseColumnType)):
    raise Unmodelled('unknown column type %r' % (ty,))
  return objtypes.encode_object(usertypes.get_type_default(ty)), class_kind(cls.ColType)


def class_kind(ct):
  if issubclass(ct, column.BoolColumn):
    k = 1
  elif issubclass(ct, column.NumericColumn):
    k = 2
  elif issubclass(ct, column.ReferenceColumn):
    k = 3
  elif issubclass(ct, column.ChoiceListColumn):
    k = 4
  elif issubclass(ct, column.ReferenceListColumn):
    k = 5
  else:
    k = 0
    sets = [c for c in ct.__mro__ if 'set' in vars(c)]
    if sets[0] is not column.BaseColumn:
      raise core.TieBroken('column class %s overrides set(): not in the model' % ct.__name__)
  return k


def check_type_table(e):
  """type_entry (what the model is given) against the column objects of the running engine."""
  bad = []
  for t, st in e.schema.items():
    tab = e.tables[t]
    for c, sc in st.columns.items():
      col = tab.get_column(c)
      try:
        d, k = type_entry(sc.type)
      except Unmodelled:
        continue
      d2 = objtypes.encode_object(col.getdefault())
      if k != class_kind(type(col)) or not (d == d2 or (d != d and d2 != d2)):
        bad.append('%s.%s type %s: table says (%r,%r), column object has (%r,%r)' %
                   (t, c, sc.type, d, k, d2, class_kind(type(col))))
  return bad


def ev(x):
  if x is None:
    return 'ENull'
  if isinstance(x, bool):
    return '(EBool %s)' % core.boollit(x)
  if isinstance(x, int):
    if abs(x) >= 2 ** 53:
      raise Unmodelled('int >= 2^53')
    return '(EInt %s)' % core.zlit(x)
  if isinstance(x, float):
    if x != x:
      return '(EFloatSpec 0)'
    if x == float('inf'):
      return '(EFloatSpec 1)'
    if x == float('-inf'):
      return '(EFloatSpec 2)'
    if x == 0 and math.copysign(1, x) < 0:
      return '(EFloatSpec 3)'
    n, d = x.as_integer_ratio()
    return '(EFloat %s %s)' % (core.zlit(n), core.zlit(-(d.bit_length() - 1)))
  if isinstance(x, str):
    return '(EStr %s)' % core.strlit(x)
  if isinstance(x, (list, tuple)):
    return '(EList %s)' % core.coq_list([ev(i) for i in x])
  if isinstance(x, dict):
    return '(EDict %s)' % core.coq_list(['(%s, %s)' % (core.strlit(str(k)), ev(v))
                                          for k, v in sorted(x.items(), key=lambda kv: str(kv[0]))])
  raise Unmodelled('value %r' % (x,))


def colinfo(I, info):
  ty, isf, formula, rev = info
  return '(mkCI %s %s %s %s)' % (I.ty(ty), core.boollit(bool(isf)), I.s(formula if formula is not None else ''),
                                 core.optlit(rev, I.s))


def colinfo_of_dict(I, d):
  return colinfo(I, (d['type'], bool(d['isFormula']), d['formula'], d.get('reverseColId')))


def modinfo(I, d):
  def opt(k, f):
    return '(Some %s)' % f(d[k]) if k in d else 'None'
  return '(mkMI %s %s %s %s)' % (opt('type', I.ty), opt('isFormula', lambda v: core.boollit(bool(v))),
                                 opt('formula', I.s), opt('reverseColId', lambda v: core.optlit(v, I.s)))


def colvals(I, cols, single):
  return core.coq_list(['(%s, %s)' % (I.s(c), core.coq_list([ev(v)] if single else [ev(x) for x in v]))
                        for c, v in sorted(cols.items())])


def action(I, a):
  """A doc action repr (single forms un-simplified) as a Coq term of type action OO."""
  if a is None:
    raise Unmodelled('None in an action list')
  k = a[0]
  if k in ('AddRecord', 'UpdateRecord'):
    return '(Bulk%s OO %s %s %s)' % (k, I.s(a[1]), core.zlist([a[2]]), colvals(I, a[3], True))
  if k == 'RemoveRecord':
    return '(BulkRemoveRecord OO %s %s)' % (I.s(a[1]), core.zlist([a[2]]))
  if k in ('BulkAddRecord', 'BulkUpdateRecord', 'ReplaceTableData'):
    return '(%s OO %s %s %s)' % (k, I.s(a[1]), core.zlist(a[2]), colvals(I, a[3], False))
  if k == 'BulkRemoveRecord':
    return '(BulkRemoveRecord OO %s %s)' % (I.s(a[1]), core.zlist(a[2]))
  if k == 'AddColumn':
    return '(AddColumn OO %s %s %s)' % (I.s(a[1]), I.s(a[2]), colinfo_of_dict(I, a[3]))
  if k == 'RemoveColumn':
    return '(RemoveColumn OO %s %s)' % (I.s(a[1]), I.s(a[2]))
  if k == 'RenameColumn':
    return '(RenameColumn OO %s %s %s)' % (I.s(a[1]), I.s(a[2]), I.s(a[3]))
  if k == 'ModifyColumn':
    return '(ModifyColumn OO %s %s %s)' % (I.s(a[1]), I.s(a[2]), modinfo(I, a[3]))
  if k == 'AddTable':
    return '(AddTable OO %s %s)' % (I.s(a[1]), core.coq_list(
      ['(%s, %s)' % (I.s(c['id']), colinfo_of_dict(I, c)) for c in a[2]]))
  if k == 'RemoveTable':
    return '(RemoveTable OO %s)' % I.s(a[1])
  if k == 'RenameTable':
    return '(RenameTable OO %s %s)' % (I.s(a[1]), I.s(a[2]))
  raise core.TieBroken('unknown doc action %r' % (k,))


def event(I, evt):
  if evt[0] == 'doc':
    return '(Doc OO %s, %s)' % (action(I, evt[1]), core.coq_list([action(I, u) for u in evt[2]]))
  if evt[0] == 'calc':
    chs = core.coq_list(['(%s, (%s, %s))' % (core.zlit(r), ev(b), ev(a)) for r, b, a in evt[3]])
    return '(Calc OO %s %s %s, [])' % (I.s(evt[1]), I.s(evt[2]), chs)
  if evt[0] == 'flushcol':
    return '(FlushCol OO %s %s, [])' % (I.s(evt[1]), I.s(evt[2]))
  raise ValueError(evt)


def touched_tables(tr):
  ts = set()
  def of_action(a):
    if a is None:
      return
    ts.add(a[1])
    if a[0] == 'RenameTable':
      ts.add(a[2])
  for evt in tr['events']:
    if evt[0] == 'doc':
      of_action(evt[1])
      for u in evt[2]:
        of_action(u)
    else:
      ts.add(evt[1])
  for a in tr['stored'] + tr['undo']:
    of_action(a)
  return ts


def snapshot(I, st, tables):
  out = []
  for t in sorted(tables):
    if t not in st:
      continue
    rows, cols = st[t]
    out.append('(%s, %s, %s)' % (I.s(t), core.zlist(rows), core.coq_list(
      ['(%s, %s, %s)' % (I.s(c), colinfo(I, info), core.coq_list([ev(v) for v in vals])) for c, info, vals in cols])))
  return core.coq_list(out)


def untouched_changed(tr, tables):
  """Tables outside the trace whose content changed: state changed with no event."""
  return [t for t in set(tr['start']) | set(tr['final'])
          if t not in tables and tr['start'].get(t) != tr['final'].get(t)]


def check_unmodelled_writes(tr):
  """str written into ChoiceList / RefList columns is parsed by Column.set (json / RecordList): outside the model."""
  types = {}
  for st in (tr['start'], tr['final']):
    for t, (rows, cols) in st.items():
      for c, info, vals in cols:
        types.setdefault((t, c), set()).add(info[0])
  def kinds(t, c):
    return {type_entry(ty)[1] for ty in types.get((t, c), ())}
  def scan(t, c, values):
    ks = kinds(t, c)
    if (4 in ks and any(isinstance(v, str) and v.startswith('[') for v in values)) or \
       (5 in ks and any(isinstance(v, str) for v in values)):
      raise Unmodelled('str into ChoiceList/RefList column')
  for evt in tr['events']:
    if evt[0] == 'doc' and evt[1][0] in ('AddRecord', 'UpdateRecord'):
      for c, v in evt[1][3].items():
        scan(evt[1][1], c, [v])
    elif evt[0] == 'doc' and evt[1][0] in ('BulkAddRecord', 'BulkUpdateRecord', 'ReplaceTableData'):
      for c, v in evt[1][3].items():
        scan(evt[1][1], c, v)
    elif evt[0] == 'doc' and evt[1][0] == 'ModifyColumn' and 'type' in evt[1][3]:
      if type_entry(evt[1][3]['type'])[1] in (4, 5):
        t, c = evt[1][1], evt[1][2]
        if t in tr['start']:
          for cc, info, vals in tr['start'][t][1]:
            if cc == c and any(isinstance(v, str) for v in vals):
              raise Unmodelled('str cells converted into ChoiceList/RefList column')
    elif evt[0] == 'calc':
      scan(evt[1], evt[2], [a for (_r, _b, a) in evt[3]])


def trace_term(I, tr):
  """Coq term of type `trace TT` (raises Unmodelled)."""
  if tr['rolled_back']:
    raise Unmodelled('cell-level rollback (formula with side effects raised)')
  check_unmodelled_writes(tr)
  tables = touched_tables(tr)
  return '(mkTrace TT %s %s %s %s %s)' % (
    snapshot(I, tr['start'], tables),
    core.coq_list([event(I, x) for x in tr['events']]),
    core.coq_list([action(I, a) for a in tr['stored']]),
    core.coq_list([action(I, a) for a in tr['undo']]),
    snapshot(I, tr['final'], tables))


IMPORTS = ['Grist.Model.ActionLog', 'Grist.Model.ActionLogEnc']
