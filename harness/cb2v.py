"""
cb2v -- fail-closed translator from functions of /repo/sandbox/grist/codebuilder.py (and
textbuilder.make_regexp_patches) to Gallina, for C19 (harness/props/c19.py).  Vocabulary: coq/theories/Lib/CbPrelude.v
(regex meanings, ast nodes), Model/TextBuilder.v + coq/gen/TextBuilder_gen.v (patches, Replacer; translated by tb2v
for C37 and reused here).  A Builder is seen through its text.

Expressions: names, str/int/bool constants, + on texts and ints, and/or/not (texts and lists count as true when
non-empty), comparisons of ints, `c in text`, conditional expressions, one-argument lambdas, tuples, list
comprehensions with one `for`, "..." % (...) with %s/%r, and the calls/attributes of CALLS below.
Statements: x = e | a, b = e | x.append(e) | if (returning branches, or assignments only) | for (assignments and
appends only) | return e | yield e / yield from f(x) (generator functions become list functions).
Types: text Z B regex patch Lpatch Ltext match Lmatch node Lnode, fun(a,b), res(T) for calls that may raise.
Anything else raises Untranslatable.
"""
import ast

COQTY = {'text': '(list Z)', 'Z': 'Z', 'B': 'bool', 'regex': 'regex', 'patch': 'patch', 'Lpatch': '(list patch)',
         'Ltext': '(list (list Z))', 'match': 'rmatch', 'Lmatch': '(list rmatch)', 'node': 'node',
         'Lnode': '(list node)', 'Omatch': '(option rmatch)', 'pfun': '(Z -> bool)', 'LZ': '(list Z)'}
ELEM = {'Lpatch': 'patch', 'Ltext': 'text', 'Lmatch': 'match', 'Lnode': 'node'}
KEYWORDS = {'end', 'at', 'in', 'fun', 'match', 'with', 'let', 'if', 'then', 'else', 'return', 'text', 'patch', 'node',
            'type', 'as', 'from', 'sub', 'len', 'start'}
NODE_CLASSES = {'Constant': 'is_Constant', 'JoinedStr': 'is_JoinedStr', 'Name': 'is_Name', 'Call': 'is_Call',
                'Expr': 'is_Expr', 'Assign': 'is_Assign', 'Return': 'is_Return'}


class Untranslatable(Exception):
  pass


def fail(n, msg):
  raise Untranslatable('%s (line %s: %s)' % (msg, getattr(n, 'lineno', '?'),
                                             ast.unparse(n)[:90] if isinstance(n, ast.AST) else n))


def cname(n):
  return n + '_' if n in KEYWORDS else n


def cty(t):
  if isinstance(t, tuple) and t[0] == 'res':
    return '(res %s)' % cty(t[1])
  if isinstance(t, tuple) and t[0] == 'tuple':
    return '(' + ' * '.join(cty(x) for x in t[1:]) + ')'
  if isinstance(t, tuple) and t[0] == 'fun':
    return '(%s -> %s)' % (cty(t[1]), cty(t[2]))
  return COQTY[t]


def textlit(s):
  return '[' + '; '.join(str(ord(c)) for c in s) + ']'


def is_res(t):
  return isinstance(t, tuple) and t[0] == 'res'


class Tr(object):
  """opaque: {unparsed expression: (coq term, type)};  funcs: {python callee: (coq name, [arg types], result type)}
  for already generated functions;  skip: unparsed statements that are dropped (they only bind oracle objects)."""
  def __init__(self, opaque=None, funcs=None, skip=(), want=None, local_types=None):
    self.opaque = opaque or {}
    self.funcs = funcs or {}
    self.skip = set(skip)
    self.want = want or (lambda name, argtypes: None)      # on-demand translation of module helpers
    self.local_types = local_types or {}

  # ------------------------------------------------------------------ expressions
  def truth(self, n, env):
    c, t = self.expr(n, env)
    if t == 'B':
      return c
    if t in ('text', 'Lpatch', 'Ltext', 'Lmatch', 'Lnode'):
      return '(nonempty %s)' % c
    if t == 'Omatch':
      return '(match %s with Some _ => true | None => false end)' % c
    fail(n, 'no truth value for type %r' % (t,))

  def expr(self, n, env):
    src = ast.unparse(n)
    if src in self.opaque:
      return self.opaque[src]
    if isinstance(n, ast.Name):
      if n.id not in env:
        fail(n, 'unknown name')
      return env[n.id]
    if isinstance(n, ast.Constant):
      if isinstance(n.value, bool):
        return ('true' if n.value else 'false'), 'B'
      if isinstance(n.value, int):
        return '(%d)' % n.value, 'Z'
      if isinstance(n.value, str):
        return textlit(n.value), 'text'
      fail(n, 'constant')
    if isinstance(n, ast.Tuple):
      parts = [self.expr(e, env) for e in n.elts]
      return '(' + ', '.join(c for c, _ in parts) + ')', ('tuple',) + tuple(t for _, t in parts)
    if isinstance(n, ast.BinOp) and isinstance(n.op, ast.Mod) and isinstance(n.left, ast.Constant):
      return self.format(n, env)
    if isinstance(n, ast.BinOp) and isinstance(n.op, (ast.Add, ast.Sub)):
      a, ta = self.expr(n.left, env)
      b, tb = self.expr(n.right, env)
      if ta == tb == 'Z':
        return '(%s %s %s)' % (a, '+' if isinstance(n.op, ast.Add) else '-', b), 'Z'
      if ta == tb == 'text' and isinstance(n.op, ast.Add):
        return '(%s ++ %s)' % (a, b), 'text'
      fail(n, 'operands')
    if isinstance(n, ast.BoolOp):
      op = ' && ' if isinstance(n.op, ast.And) else ' || '
      return '(' + op.join(self.truth(v, env) for v in n.values) + ')', 'B'
    if isinstance(n, ast.UnaryOp) and isinstance(n.op, ast.Not):
      return '(negb %s)' % self.truth(n.operand, env), 'B'
    if isinstance(n, ast.Compare) and len(n.ops) == 1:
      a, ta = self.expr(n.left, env)
      b, tb = self.expr(n.comparators[0], env)
      op = type(n.ops[0])
      if op is ast.In and ta == 'text' and tb == 'text' and isinstance(n.left, ast.Constant) and len(n.left.value) == 1:
        return '(mem %d %s)' % (ord(n.left.value), b), 'B'
      zc = {ast.Eq: '=?', ast.Lt: '<?', ast.LtE: '<=?', ast.Gt: '>?', ast.GtE: '>=?'}
      if ta == tb == 'Z' and op in zc:
        return '(%s %s %s)' % (a, zc[op], b), 'B'
      if ta == tb == 'Z' and op is ast.NotEq:
        return '(negb (%s =? %s))' % (a, b), 'B'
      fail(n, 'comparison')
    if isinstance(n, ast.IfExp):
      if isinstance(n.test, ast.Call) and ast.unparse(n.test.func) == 'callable' and len(n.test.args) == 1:
        _c, t = self.expr(n.test.args[0], env)
        if not (isinstance(t, tuple) and t[0] == 'fun'):      # callable(<a text>) is False
          return self.expr(n.orelse, env, ) if not isinstance(n.orelse, ast.Lambda) else self.lam(n.orelse, env)
        return self.expr(n.body, env)
      a, ta = self.expr(n.body, env)
      b, tb = self.expr(n.orelse, env)
      if ta != tb:
        fail(n, 'branches of different types')
      return '(if %s then %s else %s)' % (self.truth(n.test, env), a, b), ta
    if isinstance(n, ast.Lambda):
      return self.lam(n, env)
    if isinstance(n, ast.ListComp) and len(n.generators) == 1 and not n.generators[0].ifs \
       and isinstance(n.generators[0].target, ast.Name):
      it, tit = self.expr(n.generators[0].iter, env)
      if tit not in ELEM:
        fail(n, 'iteration over %r' % (tit,))
      v = n.generators[0].target.id
      body, tb = self.expr(n.elt, dict(env, **{v: (cname(v), ELEM[tit])}))
      out = {'patch': 'Lpatch', 'text': 'Ltext', 'node': 'Lnode'}.get(tb)
      if out is None:
        fail(n, 'list of %r' % (tb,))
      return '(map (fun %s => %s) %s)' % (cname(v), body, it), out
    if isinstance(n, ast.Subscript) and isinstance(n.slice, ast.Constant) and n.slice.value in (0, 1):
      c, t = self.expr(n.value, env)
      if isinstance(t, tuple) and t[0] == 'tuple' and len(t) == 3:
        return '(%s %s)' % ('fst' if n.slice.value == 0 else 'snd', c), t[1 + n.slice.value]
      fail(n, 'subscript')
    if isinstance(n, ast.Attribute):
      return self.attribute(n, env)
    if isinstance(n, ast.Call):
      return self.call(n, env)
    fail(n, 'expression')

  def lam(self, n, env):
    if len(n.args.args) != 1:
      fail(n, 'lambda')
    v = n.args.args[0].arg
    body, tb = self.expr(n.body, dict(env, **{v: (cname(v), 'match')}))
    return '(fun %s : rmatch => %s)' % (cname(v), body), ('fun', 'match', tb)

  def format(self, n, env):
    fmt = n.left.value
    args = n.right.elts if isinstance(n.right, ast.Tuple) else [n.right]
    pieces, i, k = [], 0, 0
    while i < len(fmt):
      j = fmt.find('%', i)
      if j < 0:
        pieces.append(textlit(fmt[i:]))
        break
      if j > i:
        pieces.append(textlit(fmt[i:j]))
      spec = fmt[j + 1:j + 2]
      if spec not in ('s', 'r') or k >= len(args):
        fail(n, 'format specification')
      a, ta = self.expr(args[k], env)
      k += 1
      if spec == 's' and ta == 'text':
        pieces.append(a)
      elif spec == 'r' and ta == 'text':
        pieces.append('(py_repr printable %s)' % a)
      elif spec == 'r' and ta == 'Z':
        pieces.append('(dec %s)' % a)
      else:
        fail(n, '%%%s of a %r' % (spec, ta))
      i = j + 2
    if k != len(args):
      fail(n, 'format arguments')
    return '(' + ' ++ '.join(pieces) + ')', 'text'

  def attribute(self, n, env):
    c, t = self.expr(n.value, env)
    if t == 'node' and n.attr == 'id':
      return '(name_id %s)' % c, 'text'
    fail(n, 'attribute')

  def call(self, n, env):
    from harness import cb2v_calls
    return cb2v_calls.call(self, n, env)
