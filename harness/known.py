"""
Matchers for known findings (DESIGN.md section 3.2 step 6).

Each entry of known_findings.json names a matcher defined here.  A matcher is a small predicate over a
violation record {'kind','what','replay'} that recognises exactly one failure mode (with any constants)
and nothing broader, so a different violation of the same property is still reported.
"""

MATCHERS = {}


def matcher(fn):
  MATCHERS[fn.__name__] = fn
  return fn


def match(prop_id, violation, known_entries, prop_module=None):
  local = getattr(prop_module, 'MATCHERS', {}) if prop_module is not None else {}
  for k in known_entries:
    if k.get('kind') != 'known':
      continue           # 'fixed' entries suppress nothing
    fn = local.get(k.get('matcher')) or MATCHERS.get(k.get('matcher'))
    if fn is None:
      continue
    try:
      if fn(violation, k):
        return k
    except Exception:
      continue
  return None


@matcher
def same_kind(violation, entry):
  """The violation was classified by the oracle into exactly the failure mode of the entry."""
  return violation.get('kind') == entry.get('violation_kind')
