"""ij2v, second part: calls, statements and whole pure functions (attached to ij2v.Tr)."""
import ast

from harness.ij2v import Tr, Untranslatable, fail, coerce, coq_ty, strlit, PYTYPES


def is_name(n, s):
  return isinstance(n, ast.Name) and n.id == s


def call(self, n):
  f, args = n.func, n.args
  if n.keywords:
    fail(n, 'keyword arguments')
  if isinstance(f, ast.Name):
    if f.id == 'any' and len(args) == 1 and isinstance(args[0], ast.GeneratorExp):
      g = args[0]
      if len(g.generators) != 1 or g.generators[0].ifs:
        fail(n, 'any() over a plain generator only')
      it, ity = self.expr(g.generators[0].iter)
      saved = dict(self.env)
      p = self.pat(g.generators[0].target, self.elem_ty(ity, n))
      body = self.truthy(g.elt)
      self.env = saved
      return '(existsb (fun %s => %s) %s)' % (p, body, it), 'bool'
    if f.id == 'list' and len(args) == 1 and isinstance(args[0], ast.Call) and is_name(args[0].func, 'filter') and \
       len(args[0].args) == 2 and isinstance(args[0].args[0], ast.Constant) and args[0].args[0].value is None:
      a, ta = self.expr(args[0].args[1])
      if ta != ('L', 'str'):
        fail(n, 'filter(None, ...) over a %r' % (ta,))
      return '(py_filter_none %s)' % a, ('L', 'str')
    if f.id == 'type' and len(args) == 1:
      a, ta = self.expr(args[0])
      return '(py_type %s)' % coerce(a, ta, 'cell', n), 'pytype'
    if f.id == 'isinstance' and len(args) == 2 and isinstance(args[1], ast.Name):
      a, ta = self.expr(args[0])
      key = (ta, args[1].id)
      table = {('cell', 'Ref'): 'cell_is_ref', ('json', 'dict'): 'json_is_dict', ('json', 'list'): 'json_is_list'}
      if key not in table:
        fail(n, 'isinstance of a %r' % (ta,))
      return '(%s %s)' % (table[key], a), 'bool'
    if f.id == 'OrderedDict' and not args:
      return '[]', 'hint'
    if f.id == 'reversed' and len(args) == 1:
      a, ta = self.expr(args[0])
      self.elem_ty(ta, n)
      return '(rev %s)' % a, ta
    if f.id == 'len' and len(args) == 1:
      a, ta = self.expr(args[0])
      if not (isinstance(ta, tuple) and ta[0] in ('L', 'OD')):
        fail(n, 'len of a %r' % (ta,))
      return '(length %s)' % a, 'nat'
    if f.id == 'Col' and len(args) == 2:
      a, ta = self.expr(args[0])
      b, tb = self.expr(args[1])
      return '(%s, %s)' % (coerce(a, ta, 'str', n), coerce(b, tb, ('L', 'cell'), n)), 'gcol'
    if f.id == 'next' and len(args) == 2 and isinstance(args[0], ast.GeneratorExp) and \
       isinstance(args[1], ast.Constant) and args[1].value is None:
      code, ety = self.comp(args[0])
      return '(hd_error %s)' % code, ('O', ety)
    if f.id == 'sorted' and len(args) == 1:
      a, ta = self.expr(args[0])
      if ta != ('L', ('P', 'str', 'json')):
        fail(n, 'sorted over a %r' % (ta,))
      return '(py_sorted_items %s)' % a, ta
    if f.id in self.funcs:
      return self.user_call(n, f.id, [])
    fail(n, 'unknown function')
  if isinstance(f, ast.Attribute):
    if isinstance(f.value, ast.Name) and f.value.id == 'self' and f.attr in self.funcs:
      return self.user_call(n, f.attr, None)
    if isinstance(f.value, ast.Constant) and isinstance(f.value.value, str) and f.attr == 'format':
      pieces = f.value.value.split('{}')
      if len(pieces) != len(args) + 1 or '{' in ''.join(pieces) or '}' in ''.join(pieces):
        fail(n, 'format string')
      out = [strlit(pieces[0])] if pieces[0] else []
      for a, piece in zip(args, pieces[1:]):
        c, t = self.expr(a)
        if t == 'nat':
          c = '(py_str_nat %s)' % c
        elif t != 'str':
          fail(n, 'format of a %r' % (t,))
        out.append(c)
        if piece:
          out.append(strlit(piece))
      return '(' + ' ++ '.join(out or ['[]']) + ')', 'str'
    obj, to = self.expr(f.value)
    m = f.attr
    if m == 'startswith' and to == 'str' and len(args) == 1:
      a, ta = self.expr(args[0])
      return '(py_startswith %s %s)' % (obj, coerce(a, ta, 'str', n)), 'bool'
    if m == 'split' and to == 'str' and len(args) == 1:
      a, ta = self.expr(args[0])
      return '(py_split %s %s)' % (obj, coerce(a, ta, 'str', n)), ('L', 'str')
    if m == 'get' and len(args) == 2 and isinstance(to, tuple) and to[0] == 'AL':
      k, tk = self.expr(args[0])
      d, td = self.expr(args[1])
      return '(py_assoc_get %s_eqb %s %s %s)' % (to[1], obj, coerce(k, tk, to[1], n), coerce(d, td, to[2], n)), to[2]
    if m == 'get' and len(args) == 2 and isinstance(to, tuple) and to[0] == 'OD':
      k, tk = self.expr(args[0])
      d, td = self.expr(args[1])
      return '(od_get %s %s %s)' % (coerce(k, tk, 'str', n), obj, coerce(d, td, to[1], n)), to[1]
    if m == 'items' and not args and isinstance(to, tuple) and to[0] == 'OD':
      return '(od_items %s)' % obj, ('L', ('P', 'str', to[1]))
    if m == 'items' and not args and to == ('L', ('P', 'str', 'json')):
      return obj, to
    if m == 'values' and not args and isinstance(to, tuple) and to[0] == 'OD':
      return '(od_values %s)' % obj, ('L', to[1])
    fail(n, 'method %s of a %r' % (m, to))
  fail(n, 'unsupported call')


def user_call(self, n, name, _):
  coqname, lead, ptys, rty = self.funcs[name]
  if len(n.args) != len(ptys):
    fail(n, 'arity of %s' % name)
  parts = list(lead)
  for a, want in zip(n.args, ptys):
    c, t = self.expr(a)
    if isinstance(want, tuple) and want[0] == 'OD' and isinstance(t, tuple) and t[0] == 'OD' and want[1] == 'any':
      want = t
    parts.append(coerce(c, t, want, n))
  return '(%s %s)' % (coqname, ' '.join(parts)), rty


def assigned(stmts):
  out = []
  for s in ast.walk(ast.Module(body=list(stmts), type_ignores=[])):
    t = None
    if isinstance(s, ast.Assign) and len(s.targets) == 1:
      t = s.targets[0]
      t = t.value if isinstance(t, ast.Subscript) else t
    elif isinstance(s, ast.Expr) and isinstance(s.value, ast.Call) and isinstance(s.value.func, ast.Attribute) and \
         s.value.func.attr in ('update', 'append'):
      t = s.value.func.value
    if isinstance(t, ast.Name) and t.id not in out:
      out.append(t.id)
  return out


def block(self, stmts, rty, tail):
  """Statement list -> Coq term.  `tail` is the term a block that ends without `return` evaluates to."""
  if not stmts:
    if tail is None:
      fail('end of block', 'a path without return')
    return tail
  s, rest = stmts[0], stmts[1:]
  if isinstance(s, ast.Expr) and isinstance(s.value, ast.Constant) and isinstance(s.value.value, str):
    return self.block(rest, rty, tail)                                   # docstring
  if isinstance(s, ast.Return) and s.value is not None:
    c, t = self.expr(s.value)
    return coerce(c, t, rty, s)
  if isinstance(s, ast.Assign) and len(s.targets) == 1 and isinstance(s.targets[0], ast.Name):
    name = s.targets[0].id
    c, t = self.expr(s.value)
    if t == 'hint':
      t = self.hints.get(name) or fail(s, 'no declared type for %s' % name)
    if name in self.env and self.env[name] != t:
      fail(s, '%s changes type from %r to %r' % (name, self.env[name], t))
    self.env[name] = t
    return 'let %s := %s in\n  %s' % (self.var(name), c, self.block(rest, rty, tail))
  if isinstance(s, ast.Assign) and len(s.targets) == 1 and isinstance(s.targets[0], ast.Subscript) and \
     isinstance(s.targets[0].value, ast.Name):
    name = s.targets[0].value.id
    d, td = self.expr(s.targets[0].value)
    if not (isinstance(td, tuple) and td[0] == 'OD'):
      fail(s, 'item assignment on a %r' % (td,))
    k, tk = self.expr(s.targets[0].slice)
    c, t = self.expr(s.value)
    return 'let %s := od_set %s %s %s in\n  %s' % (self.var(name), coerce(k, tk, 'str', s), coerce(c, t, td[1], s), d,
                                                   self.block(rest, rty, tail))
  if isinstance(s, ast.Expr) and isinstance(s.value, ast.Call) and isinstance(s.value.func, ast.Attribute) and \
     s.value.func.attr == 'update' and isinstance(s.value.func.value, ast.Name) and len(s.value.args) == 1:
    name = s.value.func.value.id
    d, td = self.expr(s.value.func.value)
    a, ta = self.expr(s.value.args[0])
    if not (isinstance(td, tuple) and td[0] == 'OD' and ta == td):
      fail(s, 'update of a %r with a %r' % (td, ta))
    return 'let %s := od_update %s %s in\n  %s' % (self.var(name), d, a, self.block(rest, rty, tail))
  if isinstance(s, ast.If):
    has_ret = any(isinstance(x, ast.Return) for x in ast.walk(s))
    if has_ret:
      if s.orelse or not isinstance(s.body[-1], ast.Return):
        fail(s, 'if with return must be `if c: ...; return e` without else')
      saved = dict(self.env)
      then = self.block(s.body, rty, None)
      self.env = saved
      return '(if %s then %s else\n  %s)' % (self.truthy(s.test), then, self.block(rest, rty, tail))
    live = [v for v in assigned(s.body + s.orelse) if v in self.env]
    tup = self.tuple_of(live)
    saved = dict(self.env)
    then = self.block(s.body, rty, tup)
    self.env = dict(saved)
    other = self.block(s.orelse, rty, tup) if s.orelse else tup
    self.env = saved
    return "let %s := (if %s then %s else %s) in\n  %s" % (self.tuple_pat(live), self.truthy(s.test), then, other,
                                                         self.block(rest, rty, tail))
  if isinstance(s, ast.For) and not s.orelse:
    if any(isinstance(x, (ast.Return, ast.Break, ast.Continue)) for x in ast.walk(s)):
      fail(s, 'return/break/continue inside for')
    it, ity = self.expr(s.iter)
    live = [v for v in assigned(s.body) if v in self.env]
    saved = dict(self.env)
    p = self.pat(s.target, self.elem_ty(ity, s))
    body = self.block(s.body, rty, self.tuple_of(live))
    self.env = saved
    return 'let %s := fold_left (fun %s %s => %s) %s %s in\n  %s' % (
      self.tuple_pat(live), self.tuple_pat(live), p, body, it, self.tuple_of(live), self.block(rest, rty, tail))
  fail(s, 'unsupported statement')


def tuple_of(self, names):
  if not names:
    return 'tt'
  return self.var(names[0]) if len(names) == 1 else '(' + ', '.join(self.var(v) for v in names) + ')'


def tuple_pat(self, names):
  if not names:
    return '_'
  return self.var(names[0]) if len(names) == 1 else "'(" + ', '.join(self.var(v) for v in names) + ')'


Tr.call, Tr.user_call, Tr.block, Tr.tuple_of, Tr.tuple_pat = call, user_call, block, tuple_of, tuple_pat
