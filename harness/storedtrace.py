"""
Event-trace recorder for the stored/direct bookkeeping of the data engine (C02, C31; DESIGN.md 4.3/4.4).

Wraps, from the harness process only (never edits /repo):
  UserActions._do_doc_action            -> ('doc', repr, level, pre)  /  ('docfail', repr, level)
  DocActions.RemoveColumn               (the add_changes it makes for a formula column become the doc event's `pre`)
  ActionSummary.add_changes             -> ('calc', table, col, [(row, before, after)])
  ActionGroup.flush_calc_changes        -> ('flushall', k)     k = number of stored actions it appended
  ActionGroup.flush_calc_changes_for_column -> ('flushcol', table, col, k)
  actions.prune_actions                 -> ('prune', table, col)      (when called on out_actions.calc)
  Engine._undo_to_checkpoint            -> ('rollback', len_stored)   (when it trimmed)
and notices stored actions appended by anything else (InitNewDoc's creation actions) -> ('create', repr).

Cell values are the encoded values (objtypes.encode_object) canonicalised with gristenv.norm; they are compared
only for equality, so the Coq side sees each distinct canonical JSON text as one integer (see `Interner`).
"""
import json

from harness import core
from harness import gristenv as G

import action_obj       # noqa: E402
import action_summary   # noqa: E402
import actions          # noqa: E402
import docactions       # noqa: E402
import engine as engine_mod   # noqa: E402
import objtypes         # noqa: E402
import useractions      # noqa: E402

POINTS = [
  (useractions.UserActions, '_do_doc_action'),
  (useractions.UserActions, 'indirect_actions'),
  (docactions.DocActions, 'RemoveColumn'),
  (action_summary.ActionSummary, 'add_changes'),
  (action_summary.ActionSummary, 'convert_deltas_to_actions'),
  (action_summary.ActionSummary, 'pop_column_delta_as_actions'),
  (action_obj.ActionGroup, 'flush_calc_changes'),
  (action_obj.ActionGroup, 'flush_calc_changes_for_column'),
  (actions, 'prune_actions'),
  (engine_mod.Engine, '_undo_to_checkpoint'),
  (engine_mod.Engine, '_get_undo_checkpoint'),
  (engine_mod.Engine, 'apply_doc_action'),
]

CUR = [None]          # the active Recorder (one engine at a time)
_installed = [False]


def enc(v):
  """Canonical encoded form of a raw cell value (what Node would see), as a JSON-able object."""
  return G.norm(objtypes.encode_object(v))


def enc_action(a):
  """repr list of a doc action with canonicalised cell values."""
  rep = actions.get_action_repr(a)
  return G.norm(rep)


def check_points():
  for owner, name in POINTS:
    if not hasattr(owner, name):
      raise core.TieBroken('instrumentation point %s.%s no longer exists' %
                           (getattr(owner, '__name__', owner), name))


def install():
  if _installed[0]:
    return
  check_points()
  _installed[0] = True

  orig_do = useractions.UserActions._do_doc_action
  def _do_doc_action(self, action):
    rec = CUR[0]
    if rec is None or rec.engine is not self._engine:
      return orig_do(self, action)
    a = action.simplify() if hasattr(action, 'simplify') else action
    if not a:
      return orig_do(self, action)
    rec.sync_stored()
    ev = {'k': 'doc', 'a': enc_action(a), 'lvl': self._indirection_level, 'pre': [], 'nb': rec.n_stored}
    rec.events.append(ev)
    rec.n_stored += 1
    rec.doc_stack.append(ev)
    try:
      return orig_do(self, action)
    except BaseException:
      if not ev.get('applied'):
        ev['k'] = 'docfail'
      raise
    finally:
      rec.doc_stack.pop()
  useractions.UserActions._do_doc_action = _do_doc_action

  orig_apply = engine_mod.Engine.apply_doc_action
  def apply_doc_action(self, doc_action):
    rec = CUR[0]
    if rec is None or rec.engine is not self:
      return orig_apply(self, doc_action)
    if not rec.doc_stack or rec.doc_stack[-1].get('entered'):
      # a doc action applied to the engine that did not come through _do_doc_action
      rec.events.append({'k': 'unlogged', 'a': enc_action(doc_action)})
      return orig_apply(self, doc_action)
    ev = rec.doc_stack[-1]
    ev['entered'] = True
    return orig_apply(self, doc_action)
  engine_mod.Engine.apply_doc_action = apply_doc_action

  # the body of a doc action is over when DocActions.<name> returns: mark it through the dispatcher
  for name in list(actions.action_types):
    if name == 'TableData' or not hasattr(docactions.DocActions, name):
      continue
    def make(name, orig):
      def method(self, *args):
        rec = CUR[0]
        if rec is None or rec.engine is not self._engine or not rec.doc_stack:
          return orig(self, *args)
        ev = rec.doc_stack[-1]
        depth = ev.get('body', 0)
        ev['body'] = depth + 1
        try:
          res = orig(self, *args)
          if depth == 0:
            ev['applied'] = True
          return res
        finally:
          ev['body'] = depth
      return method
    setattr(docactions.DocActions, name, make(name, getattr(docactions.DocActions, name)))

  orig_add = action_summary.ActionSummary.add_changes
  def add_changes(self, table_id, col_id, changes):
    rec = CUR[0]
    changes = list(changes)
    if rec is not None and self is rec.engine.out_actions.summary:
      chs = [[r, enc(b), enc(a)] for (r, b, a) in changes]
      top = rec.doc_stack[-1] if rec.doc_stack else None
      if top is not None and top.get('body') and not top.get('applied'):
        # add_changes made by the body of a doc action (docactions.RemoveColumn of a formula column)
        if top['a'][0] != 'RemoveColumn' or top['a'][1] != table_id or top['a'][2] != col_id or top['pre']:
          rec.problems.append('add_changes inside the body of %r for %s.%s' % (top['a'][:3], table_id, col_id))
        top['pre'] = chs
      else:
        rec.events.append({'k': 'calc', 't': table_id, 'c': col_id, 'chs': chs, 'nb': rec.n_stored})
    return orig_add(self, table_id, col_id, changes)
  action_summary.ActionSummary.add_changes = add_changes

  orig_flush = action_obj.ActionGroup.flush_calc_changes
  def flush_calc_changes(self):
    rec = CUR[0]
    if rec is None or self is not rec.engine.out_actions:
      return orig_flush(self)
    rec.sync_stored()
    n0 = len(self.stored)
    try:
      return orig_flush(self)
    finally:
      k = len(self.stored) - n0
      rec.events.append({'k': 'flushall', 'n': k, 'acts': [enc_action(a) for a in self.stored[n0:]]})
      rec.n_stored += k
  action_obj.ActionGroup.flush_calc_changes = flush_calc_changes

  orig_flushc = action_obj.ActionGroup.flush_calc_changes_for_column
  def flush_calc_changes_for_column(self, table_id, col_id):
    rec = CUR[0]
    if rec is None or self is not rec.engine.out_actions:
      return orig_flushc(self, table_id, col_id)
    rec.sync_stored()
    n0 = len(self.stored)
    try:
      return orig_flushc(self, table_id, col_id)
    finally:
      k = len(self.stored) - n0
      rec.events.append({'k': 'flushcol', 't': table_id, 'c': col_id, 'n': k,
                         'acts': [enc_action(a) for a in self.stored[n0:]]})
      rec.n_stored += k
  action_obj.ActionGroup.flush_calc_changes_for_column = flush_calc_changes_for_column

  orig_prune = actions.prune_actions
  def prune_actions(action_list, table_id, col_id):
    rec = CUR[0]
    if rec is not None and action_list is rec.engine.out_actions.calc:
      rec.events.append({'k': 'prune', 't': table_id, 'c': col_id, 'ncalc': len(action_list)})
    return orig_prune(action_list, table_id, col_id)
  actions.prune_actions = prune_actions

  orig_undo = engine_mod.Engine._undo_to_checkpoint
  def _undo_to_checkpoint(self, checkpoint):
    rec = CUR[0]
    if rec is None or rec.engine is not self:
      return orig_undo(self, checkpoint)
    before = self._get_undo_checkpoint()
    try:
      return orig_undo(self, checkpoint)
    finally:
      if before != checkpoint:
        rec.sync_stored(allow_shrink=True)
        rec.mark_checkpoint(checkpoint[1])
        rec.events.append({'k': 'rollback', 'n': checkpoint[1]})
        rec.n_stored = len(self.out_actions.stored)
  engine_mod.Engine._undo_to_checkpoint = _undo_to_checkpoint


class Recorder(object):
  """Records the events of one apply_user_actions call on one engine."""
  def __init__(self, e):
    install()
    self.engine = e
    self.reset()

  def reset(self):
    self.events = []
    self.doc_stack = []
    self.n_stored = 0
    self.problems = []

  def mark_checkpoint(self, n):
    """Insert a 'checkpoint' event where the segment that is being rolled back to stored length n began: before the
    first stored-appending event since the last rollback that was recorded with at least n stored actions."""
    j = len(self.events) - 1
    while j >= 0 and self.events[j]['k'] not in ('rollback', 'flushall', 'flushcol') and self.events[j].get('nb', n) >= n:
      j -= 1
    for k in range(j + 1, len(self.events)):
      if self.events[k]['k'] in ('doc', 'docfail', 'create'):
        self.events.insert(k, {'k': 'checkpoint', 'nb': n})
        return
    self.events.append({'k': 'checkpoint', 'nb': n})

  def sync_stored(self, allow_shrink=False):
    """Stored actions appended by code that is not instrumented (InitNewDoc's creation actions)."""
    st = self.engine.out_actions.stored
    while len(st) > self.n_stored:
      self.events.append({'k': 'create', 'a': enc_action(st[self.n_stored]),
                          'direct': self.engine.out_actions.direct[self.n_stored]
                          if len(self.engine.out_actions.direct) > self.n_stored else None})
      self.n_stored += 1
    if len(st) < self.n_stored and not allow_shrink:
      self.problems.append('stored shrank outside _undo_to_checkpoint')
      self.n_stored = len(st)

  def run(self, bundle, user=None):
    """Apply a bundle (list of repr lists) while recording; returns (ActionGroup or None, exception or None)."""
    self.reset()
    prev = CUR[0]
    CUR[0] = self
    # apply_user_actions replaces out_actions at its start; the wrappers look at engine.out_actions lazily
    try:
      out = G.apply(self.engine, bundle, user)
      return out, None
    except Exception as ex:      # pylint: disable=broad-except
      return None, ex
    finally:
      CUR[0] = prev


# -------------------------------------------------------------------------------------------------
# Coq terms

class Interner(object):
  """Distinct canonical encodings <-> small integers; the fixed ids are the type defaults the model knows."""
  FIXED = [None, False, '', 0, 'inf']

  def __init__(self):
    self.ids = {}
    for i, v in enumerate(self.FIXED):
      self.ids[G.canon(v)] = i
    self.next = 10

  def __call__(self, v):
    k = G.canon(v)
    i = self.ids.get(k)
    if i is None:
      i = self.ids[k] = self.next
      self.next += 1
    return i


class Names(object):
  """Strings (table ids, column ids, types) are defined once per cases file and referred to by name."""
  def __init__(self):
    self.names = {}

  def __call__(self, s):
    n = self.names.get(s)
    if n is None:
      n = self.names[s] = 'nm%d' % len(self.names)
    return n

  def defs(self):
    return '\n'.join('Definition %s : str := %s.' % (n, core.strlit(s))
                     for s, n in sorted(self.names.items(), key=lambda kv: int(kv[1][2:]))) + '\n'


def zl(n):
  """Z literal inside Z_scope."""
  return '(%d)' % n if n < 0 else '%d' % n


def zls(ns):
  return '[' + '; '.join(zl(n) for n in ns) + ']'


def q(s):
  return core.strlit(s)


def coq_cols(cols, I, bulk, q=q):
  """{col: values} -> list (str * list V); for single-row actions the value becomes a one-element list."""
  items = []
  for c in cols:      # dict order = the order the engine iterates in
    vs = cols[c] if bulk else [cols[c]]
    items.append('(%s, %s)' % (q(c), zls([I(v) for v in vs])))
  return core.coq_list(items)


def coq_colinfo(info, q=q):
  """col_info dict -> option type (only the type matters to the interpreter)."""
  return core.optlit(info.get('type'), q)


def coq_action(rep, I, q=q):
  """A doc action (canonical repr list) as a Coq term of type `action`."""
  n = rep[0]
  if n in ('AddRecord', 'UpdateRecord'):
    return '(%s %s %s %s)' % (n, q(rep[1]), zl(rep[2]),
                              core.coq_list(['(%s, %s)' % (q(c), zl(I(v))) for c, v in rep[3].items()]))
  if n in ('BulkAddRecord', 'BulkUpdateRecord', 'ReplaceTableData'):
    return '(%s %s %s %s)' % (n, q(rep[1]), zls(rep[2]), coq_cols(rep[3], I, True, q))
  if n == 'RemoveRecord':
    return '(RemoveRecord %s %s)' % (q(rep[1]), zl(rep[2]))
  if n == 'BulkRemoveRecord':
    return '(BulkRemoveRecord %s %s)' % (q(rep[1]), zls(rep[2]))
  if n in ('AddColumn', 'ModifyColumn'):
    return '(%s %s %s %s)' % (n, q(rep[1]), q(rep[2]), coq_colinfo(rep[3], q))
  if n == 'RemoveColumn':
    return '(RemoveColumn %s %s)' % (q(rep[1]), q(rep[2]))
  if n == 'RenameColumn':
    return '(RenameColumn %s %s %s)' % (q(rep[1]), q(rep[2]), q(rep[3]))
  if n == 'AddTable':
    return '(AddTable %s %s)' % (q(rep[1]), core.coq_list(
      ['(%s, %s)' % (q(c['id']), coq_colinfo(c, q)) for c in rep[2]]))
  if n == 'RemoveTable':
    return '(RemoveTable %s)' % q(rep[1])
  if n == 'RenameTable':
    return '(RenameTable %s %s)' % (q(rep[1]), q(rep[2]))
  raise core.TieBroken('doc action kind %r is not one of the 13 modelled kinds' % (n,))


def coq_changes(chs, I):
  return core.coq_list(['(%s, (%s, %s))' % (zl(r), zl(I(b)), zl(I(a))) for r, b, a in chs])


def coq_event(ev, I, q=q):
  k = ev['k']
  if k == 'doc':
    return '(EDoc %s %s %s)' % (coq_action(ev['a'], I, q), zl(ev['lvl']), coq_changes(ev['pre'], I))
  if k == 'docfail':
    return '(EDocFail %s %s)' % (coq_action(ev['a'], I, q), zl(ev['lvl']))
  if k == 'create':
    return '(ECreate %s)' % coq_action(ev['a'], I, q)
  if k == 'calc':
    return '(ECalc %s %s %s)' % (q(ev['t']), q(ev['c']), coq_changes(ev['chs'], I))
  if k == 'flushcol':
    return '(EFlushCol %s %s)' % (q(ev['t']), q(ev['c']))
  if k == 'flushall':
    return 'EFlushAll'
  if k == 'prune':
    return '(EPrune %s %s)' % (q(ev['t']), q(ev['c']))
  if k == 'rollback':
    return '(ERollback %s)' % zl(ev['n'])
  if k == 'checkpoint':
    return 'ECheckpoint'
  raise core.TieBroken('event kind %r has no model counterpart' % (k,))


def coq_doc(snap, types, I, q=q):
  """snapshot {table: {'ids', 'cols'}} + {table: {col: type}} -> Coq `doc` (tables and columns sorted by name)."""
  tabs = []
  for t in sorted(snap):
    ids = snap[t]['ids']
    cols = []
    for c in sorted(snap[t]['cols']):
      vals = snap[t]['cols'][c]
      cells = core.coq_list(['(%s, %s)' % (zl(r), zl(I(v))) for r, v in zip(ids, vals)])
      cols.append('(%s, mkCol %s %s)' % (q(c), q(types[t][c]), cells))
    tabs.append('(%s, mkTable %s %s)' % (q(t), zls(ids), core.coq_list(cols)))
  return core.coq_list(tabs)


def engine_types(e):
  """{table: {col: type}} from the engine's schema (the types the engine's columns were built from)."""
  return {t: {c: col.type for c, col in st.columns.items()} for t, st in e.schema.items()}


def engine_doc(e):
  """The abstract document of the engine: every table, its row ids, every public non-virtual column with its
  type and encoded cells (formula columns included)."""
  snap = G.snapshot(e)
  return snap, engine_types(e)


def tds_doc(tds):
  """The same abstraction of a real TableDataSet."""
  snap, types = {}, {}
  for t, td in tds.all_tables.items():
    order = sorted(range(len(td.row_ids)), key=lambda i: td.row_ids[i])
    snap[t] = {'ids': [td.row_ids[i] for i in order],
               'cols': {c: [enc(vals[i]) for i in order] for c, vals in td.columns.items()}}
    types[t] = {c: tds.get_schema()[t][c]['type'] for c in td.columns}
  return snap, types


def coq_levent(ev, I, q=q):
  """The event's effect on (stored, direct) as a Coq `levent`, or None when it has none."""
  k = ev['k']
  if k in ('doc', 'docfail'):
    return '(LAppend %s %s)' % (coq_action(ev['a'], I, q), zl(ev['lvl']))
  if k == 'create':
    return '(LCreate %s)' % coq_action(ev['a'], I, q)
  if k in ('flushcol', 'flushall'):
    return '(LFlush %s)' % core.coq_list([coq_action(a, I, q) for a in ev['acts']])
  if k == 'rollback':
    return '(LTrim %s)' % zl(ev['n'])
  if k in ('calc', 'prune', 'unlogged', 'checkpoint'):
    return None
  raise core.TieBroken('event kind %r has no model counterpart' % (k,))
