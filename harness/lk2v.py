"""
lk2v -- fail-closed translator for the lookup code of sandbox/grist (property C13).

Translates, on every run, from the CURRENT source of /repo:
  table.make_sort_spec
  twowaymap.TwoWayMap.insert / remove / remove_left / remove_right / clear
  lookup.SimpleLookupMapping / ContainsLookupMapping: _make_row_key_map (the bin kinds), get_mapped_keys,
      _get_mapped_key, update_record, remove_row_id, lookup_by_key
  lookup.LookupMapColumn: _do_fast_lookup, _do_lookup_with_sort, _reset_sorted_versions
  (and module-level helpers these call, e.g. a spec-rewriting function, when their body is in the subset)
into Gallina functions in the state+exception monad of Lib/LkMonad.v over the primitives of Model/LookupRt.v
(bin methods, dict / sorted_versions access, sorted(), set()).  The result is coq/gen/Lookup_gen.v;
Proofs/LookupGen_proofs.v proves each translated function equal to the hand-written model of Model/Lookup.v.

Subset: assignments (also tuple targets) of pure expressions or of ONE effectful call; expression statements that
are calls; if/elif/else (continuation-passing: the rest of the block is copied into the branches) with the tests
`x is [not] None/_NIL` and `[not] isinstance(x, str/tuple)` narrowing x in the branch where it applies;
`for v in <pure list>` without return/break/continue in the body; try/except (bare or `except TypeError`) without
return in the try body, `raise` (bare, in a handler; or `raise TypeError(...)`); return.  Expressions: names,
string/None/bool constants, tuples, `+` on tuples/strings, `-`/`^` on key sets, ==, in / not in, and/or/not,
conditional expressions, x[0], s[1:], l[::-1], l[:l.index(c)], s.startswith(c), tuple(<generator>),
set(...), {e}, {k for k in (...) if k is not None}, calls listed in the binding.  Everything else: Untranslatable.
"""
import ast
import os

from harness import core


class Untranslatable(Exception):
  pass


def fail(node, msg):
  raise Untranslatable('%s (line %s): %s' % (msg, getattr(node, 'lineno', '?'), ast.unparse(node)[:120]
                                              if isinstance(node, ast.AST) else node))


COQ_TY = {
  'L': 'L', 'R': 'R', 'oL': '(option L)', 'oR': '(option R)', 'Ls': '(list L)', 'Rs': '(list R)',
  'unit': 'unit', 'bool': 'bool', 'row': 'Z', 'key': 'key', 'okey': '(option key)', 'okeys': '(list (option key))',
  'keyset': '(list key)', 'keylist': '(list key)', 'vals': '(list val)', 'spec': 'sortspec', 'str': 'str',
  'strs': '(list str)', 'rows': '(list Z)', 'orows': '(option (list Z))', 'ref': 'binref', 'sarg': 'sarg',
  'sign': 'bool', 'signs': '(list bool)', 'pos': '(Z * Z * str)', 'Z': 'Z',
  'colspec': 'colspec', 'oval': '(option val)', 'val': 'val', 'vallist': '(list val)',
  'K': 'K', 'A': 'A', 'oA': '(option A)', 'As': '(list A)', 'oAoA': '(option A * option A)', 'ocref': '(option K)',
  'cref': 'K', 'binA': '(bin A)', 'cont': '(bin A)',
  'oRoR': '(option R * option R)', 'oLoL': '(option L * option L)', 'rows_unit': '(list Z * unit)',
}
OPTION = {'oL': 'L', 'oR': 'R', 'okey': 'key', 'orows': 'rows', 'oA': 'A', 'ocref': 'cref', 'oval': 'val'}
WRAP = {v: k for k, v in OPTION.items()}


def strlit(s):
  return '[' + '; '.join(str(ord(c)) for c in s) + ']'


class Fn(object):
  """One function to translate."""
  def __init__(self, coq, path, qual, params, ret, state, calls, cls=None, extra='', self_attrs=None,
               env_extra=None, ghost=(), kd=None, acc=None):
    self.coq, self.path, self.qual = coq, path, qual
    self.kd = kd                  # container functions: the Coq term of the container kind
    self.acc = acc                # name of a local list that is the state of the monad (an accumulator)
    self.params = params          # [(python name, type)]; 'self' is implicit for methods
    self.ret, self.state = ret, state
    self.calls = calls            # textual callee -> handler
    self.extra = extra            # extra Coq binders of the generated definition
    self.self_attrs = self_attrs or {}
    self.env_extra = env_extra or {}
    self.ghost = set(ghost)       # callees with no effect on the modelled state (dependency bookkeeping)


class Tr(object):
  def __init__(self, fn):
    self.fn = fn
    self.n = 0

  def fresh(self, base):
    self.n += 1
    return '%s_%d' % (base, self.n)

  # ---- coercions ---------------------------------------------------------------------------
  def coerce(self, term, ty, want, node):
    if want is None or ty == want:
      return term
    if WRAP.get(ty) == want:
      return '(Some %s)' % term
    if {ty, want} <= {'keyset', 'keylist'} and want == 'keylist':
      return term
    if ty == 'strs' and want == 'spec' or ty == 'spec' and want == 'strs':
      return term
    fail(node, 'a value of type %s where %s is needed' % (ty, want))

  # ---- expressions: returns (binds, term, type); binds = [(pattern, monadic term)] ---------------
  def expr(self, n, env, want=None):
    binds, term, ty = self.expr_(n, env, want)
    return binds, self.coerce(term, ty, want, n), (want or ty)

  def pure(self, n, env, want=None):
    binds, term, ty = self.expr(n, env, want)
    if binds:
      fail(n, 'an effectful call inside an expression that must be pure')
    return term, ty

  def expr_(self, n, env, want):
    if isinstance(n, ast.Name):
      if n.id == '_NIL':
        if want in OPTION:
          return [], 'None', want
        fail(n, '_NIL outside an identity test')
      if n.id not in env:
        fail(n, 'unbound name')
      return [], env[n.id][0], env[n.id][1]
    if isinstance(n, ast.Constant):
      if n.value is None:
        if want in OPTION:
          return [], 'None', want
        fail(n, 'None where %r is needed' % (want,))
      if isinstance(n.value, bool):
        return [], ('true' if n.value else 'false'), 'bool'
      if isinstance(n.value, str):
        return [], strlit(n.value), 'str'
      if isinstance(n.value, int):
        return [], '(%d)' % n.value, 'Z'
      fail(n, 'constant')
    if isinstance(n, ast.Tuple):
      if want == 'oAoA' and len(n.elts) == 2:
        parts = [self.expr(e, env, 'oA') for e in n.elts]
        return [b for p in parts for b in p[0]], '(%s, %s)' % (parts[0][1], parts[1][1]), 'oAoA'
      if not n.elts:
        if want in ('strs', 'spec', 'keyset', 'keylist', 'rows', 'As'):
          return [], '[]', want
        fail(n, 'empty tuple of unknown type')
      parts = [self.expr(e, env) for e in n.elts]
      binds = [b for p in parts for b in p[0]]
      tys = {p[2] for p in parts}
      if tys <= {'str'}:
        return binds, '[' + '; '.join(p[1] for p in parts) + ']', 'strs'
      if tys <= {'A'}:
        return binds, '[' + '; '.join(p[1] for p in parts) + ']', 'As'
      if [p[2] for p in parts] == ['Z', 'Z', 'str']:
        return binds, '(%s, %s, %s)' % tuple(p[1] for p in parts), 'pos'
      if tys <= {'key', 'okey'}:
        return binds, '[' + '; '.join(self.coerce(p[1], p[2], 'okey', n) for p in parts) + ']', 'okeys'
      fail(n, 'tuple of %s' % sorted(tys))
    if isinstance(n, ast.Set):
      if len(n.elts) != 1:
        fail(n, 'set display')
      b, t, ty = self.expr(n.elts[0], env)
      if ty == 'A' and self.fn.kd:
        v = self.fresh('v')
        return b + [(v, '(no_state (c_make ahash %s %s))' % (self.fn.kd, t))], v, 'binA'
      if ty == 'okey':
        return b, '[%s]' % t, 'okeys'
      if ty == 'key':
        return b, '[%s]' % t, 'keyset'
      fail(n, 'set of %s' % ty)
    if isinstance(n, ast.List) and self.fn.acc is None and not self.fn.kd and len(n.elts) == 1:
      b, t, ty = self.expr(n.elts[0], env)
      if ty == 'key':
        return b, '[%s]' % t, 'keylist'
      fail(n, 'list of %s' % ty)
    if isinstance(n, ast.List) and self.fn.acc is not None and len(n.elts) <= 1:
      if not n.elts:
        return [], '(VList [])', 'val'
      b, t, ty = self.expr(n.elts[0], env, 'val')
      return b, '(VList [%s])' % t, 'val'
    if isinstance(n, ast.ListComp):
      g = n.generators
      if not (len(g) == 1 and isinstance(g[0].target, ast.Name) and not g[0].ifs):
        fail(n, 'list comprehension')
      b, t, ty = self.expr(g[0].iter, env)
      if ty == 'val':
        t, ty = '(val_iter %s)' % t, 'vallist'
      if ty != 'vallist':
        fail(n, 'list comprehension over %s' % ty)
      v = g[0].target.id + '_'
      env2 = dict(env)
      env2[g[0].target.id] = (v, 'val')
      et, ety = self.pure(n.elt, env2, 'val')
      return b, '(map (fun %s : val => %s) %s)' % (v, et, t), 'vallist'
    if isinstance(n, ast.List) and len(n.elts) == 1 and self.fn.kd:
      b, t, ty = self.expr(n.elts[0], env, 'A')
      v = self.fresh('v')
      return b + [(v, '(no_state (c_make ahash %s %s))' % (self.fn.kd, t))], v, 'binA'
    if isinstance(n, ast.BinOp):
      bl, l, lt = self.expr(n.left, env)
      br, r, rt = self.expr(n.right, env)
      if isinstance(n.op, ast.Add) and {lt, rt} <= {'strs', 'spec'}:
        return bl + br, '(%s ++ %s)' % (l, r), 'strs'
      if isinstance(n.op, ast.Add) and lt == rt == 'str':
        return bl + br, '(%s ++ %s)' % (l, r), 'str'
      if isinstance(n.op, ast.Sub) and lt == rt == 'keyset':
        return bl + br, '(keyset_diff %s %s)' % (l, r), 'keyset'
      if isinstance(n.op, ast.BitXor) and lt == rt == 'keyset':
        return bl + br, '(keyset_symdiff %s %s)' % (l, r), 'keyset'
      fail(n, 'operator on %s, %s' % (lt, rt))
    if isinstance(n, ast.UnaryOp) and isinstance(n.op, ast.Not):
      if isinstance(n.operand, ast.Name) and env.get(n.operand.id, (None, None))[1] == 'cref':
        v = self.fresh('v')
        return [(v, '(cont_nonempty keq %s)' % env[n.operand.id][0])], '(negb %s)' % v, 'bool'
      t, ty = self.pure(n.operand, env)
      return [], '(negb %s)' % self.truth(t, ty, n), 'bool'
    if isinstance(n, ast.BoolOp):
      parts = [self.pure(v, env) for v in n.values]
      out = self.truth(parts[-1][0], parts[-1][1], n)
      for t, ty in reversed(parts[:-1]):
        out = '(%s %s %s)' % ('andb' if isinstance(n.op, ast.And) else 'orb', self.truth(t, ty, n), out)
      return [], out, 'bool'
    if isinstance(n, ast.Compare):
      if len(n.ops) != 1:
        fail(n, 'chained comparison')
      op, a, b = n.ops[0], n.left, n.comparators[0]
      if isinstance(op, (ast.Is, ast.IsNot)):
        t, ty = self.pure(a, env)
        if not (isinstance(b, ast.Constant) and b.value is None or isinstance(b, ast.Name) and b.id == '_NIL'):
          fail(n, 'identity test')
        if ty in OPTION:
          s = 'match %s with Some _ => false | None => true end' % t
        elif ty == 'sarg' and isinstance(b, ast.Constant):
          s = 'match %s with SNone => true | _ => false end' % t
        elif ty == 'val' and isinstance(b, ast.Constant):
          s = 'match %s with VNone => true | _ => false end' % t
        elif ty in ('key', 'L', 'R', 'str', 'rows'):
          s = 'false'                       # a value of this type is never None / _NIL
        else:
          fail(n, 'identity test on %s' % ty)
        return [], ('(%s)' % s if isinstance(op, ast.Is) else '(negb (%s))' % s), 'bool'
      if isinstance(op, ast.Lt):
        (l, lt), (r, rt) = self.pure(a, env), self.pure(b, env)
        if lt == rt == 'val':
          v = self.fresh('v')
          return [(v, '(py_lt_m %s %s)' % (l, r))], v, 'bool'
        if lt == rt == 'pos':
          return [], '(pos_ltb %s %s)' % (l, r), 'bool'
        if lt == rt == 'row':
          return [], '(Z.ltb %s %s)' % (l, r), 'bool'
        fail(n, '< on %s, %s' % (lt, rt))
      if (isinstance(op, ast.Eq) and isinstance(a, ast.Name) and env.get(a.id, (None, None))[1] == 'sign'):
        # sign is 1 (ascending) or -1 (descending): modelled as the flag "ascending"
        if isinstance(b, ast.Constant) and b.value == 1:
          return [], env[a.id][0], 'bool'
        if (isinstance(b, ast.UnaryOp) and isinstance(b.op, ast.USub) and isinstance(b.operand, ast.Constant) and b.operand.value == 1):
          return [], '(negb %s)' % env[a.id][0], 'bool'
        fail(n, 'test of sign')
      if isinstance(op, (ast.Eq, ast.NotEq)):
        (l, lt), (r, rt) = self.pure(a, env), self.pure(b, env)
        if {lt, rt} <= {'key', 'okey'}:
          s = '(okey_eqb %s %s)' % (self.coerce(l, lt, 'okey', n), self.coerce(r, rt, 'okey', n))
        elif lt == rt == 'str':
          s = '(str_eqb %s %s)' % (l, r)
        elif lt == rt == 'A':
          s = '(aeq %s %s)' % (l, r)
        elif lt == 'oA' and rt == 'A':
          s = '(match %s with Some s_ => aeq s_ %s | None => false end)' % (l, r)
        else:
          fail(n, '== on %s, %s' % (lt, rt))
        return [], (s if isinstance(op, ast.Eq) else '(negb %s)' % s), 'bool'
      if isinstance(op, (ast.In, ast.NotIn)) and isinstance(b, ast.Name) and env.get(b.id, (None, None))[1] == 'cont':
        l, lt = self.pure(a, env, 'A')
        v = self.fresh('v')
        return [(v, '(c_mem aeq ahash %s %s)' % (self.fn.kd, l))], (v if isinstance(op, ast.In) else '(negb %s)' % v), 'bool'
      if isinstance(op, (ast.In, ast.NotIn)):
        (l, lt), (r, rt) = self.pure(a, env), self.pure(b, env)
        if lt == 'str' and rt in ('strs', 'spec'):
          s = '(memb str_eqb %s %s)' % (l, r)
        else:
          fail(n, 'in on %s, %s' % (lt, rt))
        return [], (s if isinstance(op, ast.In) else '(negb %s)' % s), 'bool'
      fail(n, 'comparison')
    if isinstance(n, ast.IfExp):
      t0 = n.test
      if (isinstance(t0, ast.Compare) and len(t0.ops) == 1 and isinstance(t0.ops[0], (ast.Is, ast.IsNot))
          and isinstance(t0.left, ast.Name) and env.get(t0.left.id, (None, None))[1] in OPTION
          and (isinstance(t0.comparators[0], ast.Name) and t0.comparators[0].id == '_NIL'
               or isinstance(t0.comparators[0], ast.Constant) and t0.comparators[0].value is None)):
        x, (xt, xty) = t0.left.id, env[t0.left.id]
        v = self.fresh(x)
        env_some = dict(env)
        env_some[x] = (v, OPTION[xty])
        none_branch, some_branch = (n.body, n.orelse) if isinstance(t0.ops[0], ast.Is) else (n.orelse, n.body)
        t1, ty1 = self.pure(some_branch, env_some, want)
        t2, ty2 = self.pure(none_branch, env, want or ty1)
        if ty1 != ty2:
          fail(n, 'branches of types %s / %s' % (ty1, ty2))
        return [], '(match %s with Some %s => %s | None => %s end)' % (xt, v, t1, t2), ty1
      bc, c, cty = self.expr(n.test, env)
      c = self.truth(c, cty, n)
      b1, t1, ty1 = self.expr(n.body, env, want)
      b2, t2, ty2 = self.expr(n.orelse, env, want or (ty1 if ty1 in OPTION else None))
      if ty1 != ty2:
        if WRAP.get(ty1) == ty2:
          t1, ty1 = '(Some %s)' % t1, ty2
        elif WRAP.get(ty2) == ty1:
          t2, ty2 = '(Some %s)' % t2, ty1
        else:
          fail(n, 'branches of types %s / %s' % (ty1, ty2))
      if not b1 and not b2:
        return bc, '(if %s then %s else %s)' % (c, t1, t2), ty1
      v = self.fresh('v')
      m = '(if %s then %s else %s)' % (c, self.seq(b1, '(ret %s)' % t1), self.seq(b2, '(ret %s)' % t2))
      return bc + [(v, m)], v, ty1
    if isinstance(n, ast.Subscript):
      return self.subscript(n, env)
    if (isinstance(n, ast.Attribute) and n.attr == '__name__' and isinstance(n.value, ast.Call)
        and isinstance(n.value.func, ast.Name) and n.value.func.id == 'type' and len(n.value.args) == 1):
      t, ty = self.pure(n.value.args[0], env, 'val')
      return [], '(type_name %s)' % t, 'str'
    if isinstance(n, ast.Attribute):
      key = ast.unparse(n)
      if key in env:
        return [], env[key][0], env[key][1]
      if key in self.fn.self_attrs:
        return [], self.fn.self_attrs[key][0], self.fn.self_attrs[key][1]
      fail(n, 'attribute')
    if isinstance(n, ast.SetComp):
      return self.setcomp(n, env)
    if isinstance(n, ast.Call):
      return self.call(n, env, want)
    fail(n, 'expression %s' % type(n).__name__)

  def truth(self, t, ty, node):
    if ty == 'bool':
      return t
    if ty == 'sarg':
      return '(sarg_truthy %s)' % t
    if ty == 'val':
      return '(truthy %s)' % t
    if ty in ('spec', 'strs', 'rows', 'keyset', 'keylist', 'Rs', 'Ls'):
      return '(match %s with [] => false | _ :: _ => true end)' % t
    fail(node, 'truth value of %s' % ty)

  def subscript(self, n, env):
    s = n.slice
    if isinstance(s, ast.Constant) and s.value == 0:
      b, t, ty = self.expr(n.value, env)
      if ty in ('keylist', 'keyset'):
        return b, '(hd [] %s)' % t, 'key'
      fail(n, '[0] on %s' % ty)
    if isinstance(s, ast.Slice):
      b, t, ty = self.expr(n.value, env)
      lo, hi, st = s.lower, s.upper, s.step
      if (isinstance(lo, ast.Constant) and lo.value == 1 and hi is None and st is None and ty == 'str'):
        return b, '(skipn 1 %s)' % t, 'str'
      if (lo is None and hi is None and isinstance(st, ast.UnaryOp) and isinstance(st.op, ast.USub)
          and isinstance(st.operand, ast.Constant) and st.operand.value == 1 and ty in ('rows', 'strs', 'spec')):
        return b, '(rev %s)' % t, ty
      if (lo is None and st is None and isinstance(hi, ast.Call) and isinstance(hi.func, ast.Attribute)
          and hi.func.attr == 'index' and ast.dump(hi.func.value) == ast.dump(n.value) and len(hi.args) == 1
          and ty in ('strs', 'spec')):
        x, xt = self.pure(hi.args[0], env, 'str')
        v = self.fresh('v')
        return b + [(v, '(py_slice_to_index %s %s)' % (x, t))], v, 'strs'
    fail(n, 'subscript')

  def setcomp(self, n, env):
    g = n.generators
    if not (len(g) == 1 and isinstance(g[0].target, ast.Name) and isinstance(n.elt, ast.Name)
            and n.elt.id == g[0].target.id and len(g[0].ifs) == 1 and not g[0].is_async):
      fail(n, 'set comprehension')
    b, t, ty = self.expr(g[0].iter, env)
    c = g[0].ifs[0]
    if not (ty == 'okeys' and isinstance(c, ast.Compare) and len(c.ops) == 1 and isinstance(c.ops[0], ast.IsNot)
            and isinstance(c.left, ast.Name) and c.left.id == n.elt.id
            and isinstance(c.comparators[0], ast.Constant) and c.comparators[0].value is None):
      fail(n, 'set comprehension')
    return b, '(dedup vals_eqb (flat_map (fun k_ : option key => match k_ with Some k_ => [k_] | None => [] end) %s))' % t, 'keyset'

  def genexp_map(self, g, env):
    """tuple(<elt> for v in <list>) -> map"""
    if (isinstance(g, ast.GeneratorExp) and len(g.generators) == 1 and not g.generators[0].ifs
        and ast.unparse(g.generators[0].iter) == 'self._col_ids_tuple' and isinstance(g.generators[0].target, ast.Name)
        and ast.unparse(g.elt) == '_extract(getattr(rec, %s))' % g.generators[0].target.id and 'cells' in self.fn.env_extra):
      # the rec's cells of the lookup columns, in column order, each through _extract
      return [], '(map extract %s)' % self.fn.env_extra['cells'][0], 'key'
    if not (isinstance(g, ast.GeneratorExp) and len(g.generators) == 1 and not g.generators[0].ifs
            and isinstance(g.generators[0].target, ast.Name)):
      fail(g, 'generator')
    b, t, ty = self.expr(g.generators[0].iter, env)
    elty = {'key': 'val', 'vals': 'val', 'spec': 'str', 'strs': 'str'}.get(ty)
    if elty is None:
      fail(g, 'generator over %s' % ty)
    v = g.generators[0].target.id + '_'
    env2 = dict(env)
    env2[g.generators[0].target.id] = (v, elty)
    et, ety = self.pure(g.elt, env2)
    if ety != elty:
      fail(g, 'generator changes the element type %s -> %s' % (elty, ety))
    return b, '(map (fun %s : %s => %s) %s)' % (v, elty, et, t), ty

  # ---- calls ---------------------------------------------------------------------------------
  def call(self, n, env, want):
    f = ast.unparse(n.func)
    if f in ('tuple', 'list') and len(n.args) == 1 and not n.keywords:
      return self.genexp_map(n.args[0], env)
    if f == 'set' and not n.keywords:
      if not n.args:
        return [], '[]', (want if want in ('keyset', 'okeys') else 'keyset')
      b, t, ty = self.expr(n.args[0], env)
      if ty == 'keyset':
        return b, t, 'keyset'                 # a copy of a set
      if ty == 'keylist':
        v = self.fresh('v')
        return b + [(v, '(py_set_keys %s)' % t)], v, 'keyset'
      if ty == 'val':
        v = self.fresh('v')
        return b + [(v, '(py_set_val %s)' % t)], v, 'vallist'
      fail(n, 'set() of %s' % ty)
    if (f == 'getattr' and len(n.args) == 2 and isinstance(n.args[0], ast.Name) and n.args[0].id == 'rec'
        and isinstance(n.args[1], ast.Call) and ast.unparse(n.args[1].func) == 'extract_column_id'
        and len(n.args[1].args) == 1 and isinstance(n.args[1].args[0], ast.Name)
        and ('cell of ' + n.args[1].args[0].id) in env):
      # getattr(rec, extract_column_id(col_id)): the rec's cell of the column the loop is at
      return [], env['cell of ' + n.args[1].args[0].id][0], 'val'
    if self.fn.acc is not None and f == self.fn.acc + '.append' and len(n.args) == 1:
      b, t, _ = self.expr(n.args[0], env, 'vallist')
      v = self.fresh('v')
      return b + [(v, '(acc_append %s)' % t)], v, 'unit'
    if (self.fn.acc is not None and f == 'itertools.product' and len(n.args) == 1 and isinstance(n.args[0], ast.Starred)
        and isinstance(n.args[0].value, ast.Name) and n.args[0].value.id == self.fn.acc):
      v = self.fresh('v')
      return [(v, 'acc_product')], v, 'keylist'
    if f == 'sorted':
      if not (len(n.args) == 1 and len(n.keywords) == 1 and n.keywords[0].arg == 'key'
              and isinstance(n.keywords[0].value, ast.Name) and n.keywords[0].value.id == 'sort_key'
              and 'sort_spec' in env and 'sort_key' in env):
        fail(n, 'sorted()')
      b, t, ty = self.expr(n.args[0], env, 'ref')
      v = self.fresh('v')
      return b + [(v, '(sorted_ref t_ %s %s)' % (t, env['sort_spec'][0]))], v, 'rows'
    if isinstance(n.func, ast.Attribute) and n.func.attr == 'startswith' and len(n.args) == 1:
      (s, st), (p, pt) = self.pure(n.func.value, env), self.pure(n.args[0], env)
      if st == pt == 'str':
        return [], '(py_startswith %s %s)' % (s, p), 'bool'
      fail(n, 'startswith')
    if (f == 'isinstance' and len(n.args) == 2 and isinstance(n.args[1], ast.Name) and n.args[1].id == 'Number'):
      t, ty = self.pure(n.args[0], env, 'val')
      return [], '(is_number %s)' % t, 'bool'
    if f == 'LookupSet' and not n.args and not n.keywords:
      return [], 'RefFresh', 'ref'
    if (f == 'LookupSet' and self.fn.kd and len(n.args) == 1 and isinstance(n.args[0], ast.List) and len(n.args[0].elts) == 1
        and not n.keywords):
      b, t, _ = self.expr(n.args[0].elts[0], env, 'A')
      v = self.fresh('v')
      return b + [(v, '(no_state (c_make ahash %s %s))' % (self.fn.kd, t))], v, 'binA'
    if f in self.fn.ghost:
      return [], 'tt', 'unit'
    if (isinstance(n.func, ast.Attribute) and n.func.attr in ('get', 'pop') and isinstance(n.func.value, ast.Attribute)
        and n.func.value.attr == 'sorted_versions' and not n.keywords):
      b, r, _ = self.expr(n.func.value.value, env, 'ref')
      if n.func.attr == 'get' and len(n.args) == 1:
        b2, a, _ = self.expr(n.args[0], env, 'spec')
        v = self.fresh('v')
        return b + b2 + [(v, '(ref_cache_get %s %s)' % (r, a))], v, 'orows'
      if (n.func.attr == 'pop' and len(n.args) == 2 and isinstance(n.args[1], ast.Constant) and n.args[1].value is None):
        b2, a, _ = self.expr(n.args[0], env, 'spec')
        v = self.fresh('v')
        return b + b2 + [(v, '(ref_cache_pop %s %s)' % (r, a))], v, 'unit'
      fail(n, 'sorted_versions access')
    if isinstance(n.func, ast.Name) and f not in self.fn.calls:
      return self.helper(n, env)
    h = self.fn.calls.get(f)
    if h is None:
      fail(n, 'call of %s is not in the binding' % f)
    return h(self, n, env)

  def helper(self, n, env):
    """A call of a module-level function of the same file whose body is a docstring and `return <pure expr>`:
    translated on demand as a pure Coq function (emitted before the function that uses it)."""
    name = n.func.id
    node = next((x for x in tree_of(self.fn.path).body if isinstance(x, ast.FunctionDef) and x.name == name), None)
    if node is None or n.keywords:
      fail(n, 'call of %s is not in the binding' % name)
    body = [x for x in node.body if not (isinstance(x, ast.Expr) and isinstance(x.value, ast.Constant))]
    params = [a.arg for a in node.args.args]
    if not (len(body) == 1 and isinstance(body[0], ast.Return) and len(params) == len(n.args)
            and not node.args.defaults and not node.args.vararg and not node.args.kwarg):
      fail(n, 'helper %s is outside the subset' % name)
    binds, terms, tys = [], [], []
    for a in n.args:
      b, t, ty = self.expr(a, env)
      binds += b
      terms.append(t)
      tys.append(ty)
    key = (self.fn.path, name, tuple(tys))
    if key not in HELPERS:
      henv = {p: (p + '_', ty) for p, ty in zip(params, tys)}
      sub = Tr(self.fn)
      t, ty = sub.pure(body[0].value, henv)
      coq = 'gen_helper_%s%s' % (name.strip('_'), '' if not any(k[1] == name for k in HELPERS) else '_%d' % len(HELPERS))
      HELPERS[key] = (coq, ty, 'Definition %s %s : %s :=\n  %s.\n' % (
        coq, ' '.join('(%s_ : %s)' % (p, COQ_TY[pt]) for p, pt in zip(params, tys)), COQ_TY[ty], t))
    coq, ty, _ = HELPERS[key]
    return binds, '(%s)' % ' '.join([coq] + terms), ty

  def seq(self, binds, k):
    out = k
    for pat, m in reversed(binds):
      out = '(bind %s (fun %s => %s))' % (m, pat, out)
    return out

  # ---- statements ------------------------------------------------------------------------------
  def block(self, stmts, env, k, ctx):
    """k(env) -> term for falling off the end.  ctx: dict(loop=bool, handler=exception variable or None, try_=bool)"""
    if not stmts:
      return k(env)
    s, rest = stmts[0], stmts[1:]
    cont = lambda e: self.block(rest, e, k, ctx)
    if isinstance(s, ast.Expr) and isinstance(s.value, ast.Constant) and isinstance(s.value.value, str):
      return cont(env)
    if isinstance(s, ast.Pass):
      return cont(env)
    if isinstance(s, ast.Return):
      if ctx.get('ret_opt'):
        binds, t, ty = self.expr(s.value, env)
        if ty != self.fn.ret:
          fail(s, 'returns %s, the binding says %s' % (ty, self.fn.ret))
        return self.seq(binds, '(ret (Some %s))' % t)
      if ctx.get('loop') or ctx.get('try_'):
        fail(s, 'return inside a loop or a try body')
      return self.ret(s, env)
    if isinstance(s, ast.Raise):
      if s.exc is None:
        if not ctx.get('handler'):
          fail(s, 'bare raise outside a handler')
        return '(raise %s)' % ctx['handler']
      if isinstance(s.exc, ast.Call) and isinstance(s.exc.func, ast.Name) and s.exc.func.id in ('TypeError', 'ValueError'):
        a = s.exc.args
        if (len(a) == 1 and isinstance(a[0], ast.BinOp) and isinstance(a[0].op, ast.Mod) and s.exc.func.id == 'ValueError'
            and isinstance(a[0].right, ast.Name) and env.get(a[0].right.id, (None, None))[1] == 'K'):
          # the message is formatted before the exception is built: "%s" % key raises TypeError for some keys
          return '(raise (fmt_exn kfmt %s))' % env[a[0].right.id][0]
        if any(not isinstance(x, ast.Constant) for x in a):
          fail(s, 'raise with a computed message')
        return '(raise %s)' % {'TypeError': 'TypeErr', 'ValueError': 'ValueErr'}[s.exc.func.id]
      fail(s, 'raise')
    if isinstance(s, ast.Expr):
      if not isinstance(s.value, ast.Call):
        fail(s, 'expression statement')
      binds, _t, _ty = self.expr(s.value, env)
      return self.seq(binds, cont(env))
    if isinstance(s, ast.Assign):
      if len(s.targets) != 1:
        fail(s, 'chained assignment')
      tgt = s.targets[0]
      if isinstance(tgt, ast.Name) and tgt.id == self.fn.acc:
        if not (isinstance(s.value, ast.List) and not s.value.elts):
          fail(s, 'the accumulator must start as []')
        return self.seq([('_', 'acc_reset')], cont(env))
      if isinstance(tgt, ast.Name):
        want = None
        if isinstance(s.value, ast.Constant) and s.value.value is None:
          old = env.get(tgt.id, (None, None))[1]
          want = old if old in OPTION else WRAP.get(old)
          if want is None:
            fail(s, 'None assigned to a name of unknown type')
        if isinstance(s.value, ast.Tuple) and not s.value.elts and tgt.id in env:
          want = {'sarg': 'strs'}.get(env[tgt.id][1], env[tgt.id][1])
        binds, t, ty = self.expr(s.value, env, want)
        v = tgt.id + '_'
        env2 = dict(env)
        env2[tgt.id] = (v, ty)
        return self.seq(binds, '(let %s : %s := %s in %s)' % (v, COQ_TY[ty], t, self.block(rest, env2, k, ctx)))
      if isinstance(tgt, ast.Tuple) and all(isinstance(e, ast.Name) for e in tgt.elts):
        binds, t, ty = self.expr(s.value, env)
        parts = {'oRoR': ['oR', 'oR'], 'oLoL': ['oL', 'oL']}.get(ty)
        if parts is None or len(parts) != len(tgt.elts):
          fail(s, 'tuple assignment from %s' % ty)
        env2 = dict(env)
        names = []
        for e, pty in zip(tgt.elts, parts):
          v = ('ignored_%d' % len(names)) if e.id == '_' else e.id + '_'
          names.append(v)
          if e.id != '_':
            env2[e.id] = (v, pty)
        return self.seq(binds, "(let '(%s) := %s in %s)" % (', '.join(names), t, self.block(rest, env2, k, ctx)))
      if isinstance(tgt, ast.Subscript) and isinstance(tgt.value, ast.Name) and tgt.value.id == 'mapping' and 'mapping' in env:
        b1, k_, _ = self.expr(tgt.slice, env, 'K')
        b2, v_, vty = self.expr(s.value, env)
        if vty == 'A':
          return self.seq(b1 + b2 + [('_', '(d_set_single keq %s %s)' % (k_, v_))], cont(env))
        if vty == 'binA':
          return self.seq(b1 + b2 + [('_', '(d_set_bin keq %s %s)' % (k_, v_))], cont(env))
        fail(s, 'mapping[key] = <%s>' % vty)
      if (isinstance(tgt, ast.Subscript) and isinstance(tgt.value, ast.Attribute) and tgt.value.attr == 'sorted_versions'):
        b0, r, _ = self.expr(tgt.value.value, env, 'ref')
        b1, k_, _ = self.expr(tgt.slice, env, 'spec')
        b2, v_, _ = self.expr(s.value, env, 'rows')
        return self.seq(b0 + b1 + b2 + [('_', '(ref_cache_set %s %s %s)' % (r, k_, v_))], cont(env))
      fail(s, 'assignment target')
    if isinstance(s, ast.Delete):
      t = s.targets[0] if len(s.targets) == 1 else None
      if not (isinstance(t, ast.Subscript) and isinstance(t.value, ast.Name) and t.value.id == 'mapping' and 'mapping' in env):
        fail(s, 'del')
      b1, k_, _ = self.expr(t.slice, env, 'K')
      return self.seq(b1 + [('_', '(d_del keq %s)' % k_)], cont(env))
    if isinstance(s, ast.If):
      return self.if_(s, rest, env, k, ctx)
    if isinstance(s, ast.For):
      if s.orelse:
        fail(s, 'for-else')
      if (isinstance(s.iter, ast.Call) and isinstance(s.iter.func, ast.Name) and s.iter.func.id == 'zip' and len(s.iter.args) == 3
          and not ctx.get('loop')):
        parts = [self.pure(a, env) for a in s.iter.args]
        if [p[1] for p in parts] != ['vals', 'vals', 'signs']:
          fail(s, 'zip of %s' % [p[1] for p in parts])
        tg = s.target
        if not (isinstance(tg, ast.Tuple) and len(tg.elts) == 3 and isinstance(tg.elts[0], ast.Name) and isinstance(tg.elts[1], ast.Name)
                and isinstance(tg.elts[2], ast.Tuple) and len(tg.elts[2].elts) == 2
                and all(isinstance(x, ast.Name) for x in tg.elts[2].elts)):
          fail(s, 'loop target')
        an, bn, sn = tg.elts[0].id, tg.elts[1].id, tg.elts[2].elts[1].id
        env2 = dict(env)
        env2[an], env2[bn], env2[sn] = (an + '_', 'val'), (bn + '_', 'val'), (sn + '_', 'sign')
        body = self.block(s.body, env2, lambda e: '(ret None)', dict(ctx, loop=True, ret_opt=True))
        r = self.fresh('r')
        return ("(bind (for_first (zip3 %s %s %s) (fun '(%s_, %s_, %s_) => %s)) (fun %s => match %s with Some %s => ret %s | None => %s end))"
                % (parts[0][0], parts[1][0], parts[2][0], an, bn, sn, body, r, r, r, r, cont(env)))
      if not isinstance(s.target, ast.Name):
        fail(s, 'for target')
      binds, t, ty = self.expr(s.iter, env)
      if ty == 'colcells':
        v, c = s.target.id + '_', 'cell_of_' + s.target.id + '_'
        env2 = dict(env)
        env2[s.target.id] = (v, 'colspec')
        env2['cell of ' + s.target.id] = (c, 'val')
        body = self.block(s.body, env2, lambda e: '(ret tt)', dict(ctx, loop=True))
        return self.seq(binds, "(bind (for_each %s (fun '(%s, %s) => %s)) (fun _ => %s))" % (t, v, c, body, cont(env)))
      elty = {'Rs': 'R', 'Ls': 'L', 'keyset': 'key', 'keylist': 'key', 'okeys': 'okey'}.get(ty)
      if elty is None:
        fail(s, 'for over %s' % ty)
      v = s.target.id + '_'
      env2 = dict(env)
      env2[s.target.id] = (v, elty)
      body = self.block(s.body, env2, lambda e: '(ret tt)', dict(ctx, loop=True))
      for name in self.assigned(s.body):
        if name in env:
          fail(s, 'the loop body assigns %s, which is live outside the loop' % name)
      return self.seq(binds, '(bind (for_each %s (fun %s : %s => %s)) (fun _ => %s))' % (t, v, COQ_TY[elty], body, cont(env)))
    if isinstance(s, ast.Try):
      if s.orelse or s.finalbody or len(s.handlers) != 1:
        fail(s, 'try')
      h = s.handlers[0]
      if h.name is not None:
        fail(s, 'except ... as name')
      if h.type is None:
        guard = None
      elif isinstance(h.type, ast.Name) and h.type.id in ('TypeError', 'ValueError'):
        guard = {'TypeError': 'TypeErr', 'ValueError': 'ValueErr'}[h.type.id]
      else:
        fail(s, 'except clause')
      if ctx.get('ret_opt'):
        if self.assigned(s.body):
          fail(s, 'a try with returns must not assign')
        body = self.block(s.body, env, lambda e: '(ret None)', dict(ctx, try_=True))
        r = self.fresh('r')
        ev = self.fresh('exn')
        hbody = self.block(h.body, env, cont, dict(ctx, handler=ev, try_=False))
        if guard:
          hbody = '(match %s with %s => %s | _ => raise %s end)' % (ev, guard, hbody, ev)
        return '(try_with %s (fun %s => match %s with Some _ => ret %s | None => %s end) (fun %s => %s))' % (
          body, r, r, r, cont(env), ev, hbody)
      outs = [x for x in self.assigned(s.body)]
      body_env = {}
      def k_try(e):
        body_env.update(e)
        names = [e[x][0] for x in outs]
        return '(ret %s)' % ('tt' if not names else names[0] if len(names) == 1 else '(' + ', '.join(names) + ')')
      body = self.block(s.body, env, k_try, dict(ctx, try_=True))
      env_ok = dict(env)
      pats = []
      for x in outs:
        v = self.fresh(x)
        env_ok[x] = (v, body_env[x][1])
        pats.append(v)
      pat = '_' if not pats else pats[0] if len(pats) == 1 else "'(" + ', '.join(pats) + ')'
      ev = self.fresh('exn')
      hbody = self.block(h.body, env, cont, dict(ctx, handler=ev, try_=False))
      if guard:
        hbody = '(match %s with %s => %s | _ => raise %s end)' % (ev, guard, hbody, ev)
      return '(try_with %s (fun %s => %s) (fun %s => %s))' % (body, pat, cont(env_ok), ev, hbody)
    fail(s, 'statement %s' % type(s).__name__)

  def assigned(self, stmts):
    out = []
    for s in stmts:
      for n in ast.walk(s):
        if isinstance(n, (ast.Assign, ast.AugAssign, ast.For)):
          tg = n.targets if isinstance(n, ast.Assign) else [n.target]
          for t in tg:
            for x in ast.walk(t):
              if isinstance(x, ast.Name) and x.id != '_' and x.id not in out:
                out.append(x.id)
    return out

  def ret(self, s, env):
    v = s.value
    if isinstance(v, ast.Tuple) and self.fn.ret == 'rows_unit':
      # `return row_ids, rel`: rel is dependency bookkeeping (ghost)
      if len(v.elts) != 2:
        fail(s, 'return')
      binds, t, ty = self.expr(v.elts[0], env, 'rows')
      return self.seq(binds, '(ret (%s, tt))' % t)
    binds, t, ty = self.expr(v, env, self.fn.ret if self.fn.ret in OPTION or self.fn.ret in ('keyset', 'spec', 'strs', 'oAoA', 'As') else None)
    if ty != self.fn.ret and not ({ty, self.fn.ret} <= {'strs', 'spec'}):
      fail(s, 'returns %s, the binding says %s' % (ty, self.fn.ret))
    return self.seq(binds, '(ret %s)' % t)

  def if_(self, s, rest, env, k, ctx):
    cont = lambda e: self.block(rest, e, k, ctx)
    then = lambda e: self.block(s.body, e, cont, ctx)
    els = lambda e: self.block(s.orelse, e, cont, ctx)
    t = s.test
    neg = False
    if isinstance(t, ast.UnaryOp) and isinstance(t.op, ast.Not):
      t, neg = t.operand, True
    # narrowing tests on a name
    if (isinstance(t, ast.Compare) and len(t.ops) == 1 and isinstance(t.ops[0], (ast.Is, ast.IsNot))
        and isinstance(t.left, ast.Name) and t.left.id in env):
      c = t.comparators[0]
      x, (xt, xty) = t.left.id, env[t.left.id]
      is_none = (isinstance(c, ast.Constant) and c.value is None) or (isinstance(c, ast.Name) and c.id == '_NIL')
      if is_none and xty in OPTION:
        some_first = isinstance(t.ops[0], ast.IsNot) != neg      # then-branch is the Some branch
        v = self.fresh(x)
        env_some = dict(env)
        env_some[x] = (v, OPTION[xty])
        a, b = (then(env_some), els(env)) if some_first else (els(env_some), then(env))
        return '(match %s with Some %s => %s | None => %s end)' % (xt, v, a, b)
      if is_none and xty == 'sarg' and isinstance(c, ast.Constant):
        none_first = isinstance(t.ops[0], ast.Is) != neg
        a, b = (then(env), els(env)) if none_first else (els(env), then(env))
        return '(match %s with SNone => %s | _ => %s end)' % (xt, a, b)
    if (isinstance(t, ast.Call) and isinstance(t.func, ast.Name) and t.func.id == 'isinstance' and len(t.args) == 2
        and isinstance(t.args[0], ast.Name) and t.args[0].id in env and env[t.args[0].id][1] == 'sarg'
        and isinstance(t.args[1], ast.Name) and t.args[1].id in ('str', 'tuple')):
      x, (xt, _) = t.args[0].id, env[t.args[0].id]
      ctor, nty = {'str': ('SStr', 'str'), 'tuple': ('STuple', 'strs')}[t.args[1].id]
      v = self.fresh(x)
      env_in = dict(env)
      env_in[x] = (v, nty)
      a, b = (els(env_in), then(env)) if neg else (then(env_in), els(env))
      return '(match %s with %s %s => %s | _ => %s end)' % (xt, ctor, v, a, b)
    if (isinstance(t, ast.Call) and isinstance(t.func, ast.Name) and t.func.id == 'isinstance' and len(t.args) == 2
        and isinstance(t.args[0], ast.Name) and t.args[0].id in env and not neg):
      x, (xt, xty) = t.args[0].id, env[t.args[0].id]
      if xty == 'colspec' and isinstance(t.args[1], ast.Name) and t.args[1].id == '_Contains':
        me = self.fresh('match_empty')
        env_in = dict(env)
        env_in[x + '.match_empty'] = (me, 'oval')
        return '(match %s with CContains %s => %s | CPlain => %s end)' % (xt, me, then(env_in), els(env))
      if xty == 'val' and ast.unparse(t.args[1]) in ('(bytes, str)', '(str, bytes)', 'str'):
        return '(if is_str %s then %s else %s)' % (xt, then(env), els(env))
    if isinstance(t, ast.BoolOp) and isinstance(t.op, ast.And) and not neg and len(t.values) == 2:
      last = t.values[1]
      if (isinstance(last, ast.Compare) and len(last.ops) == 1 and isinstance(last.ops[0], ast.NotEq)
          and ast.unparse(last.comparators[0]) == '_Contains.no_match_empty' and ast.unparse(last.left) in env
          and env[ast.unparse(last.left)][1] == 'oval'):
        # `A and x.match_empty != no_match_empty`: in the branch taken, match_empty is a value
        c, cty = self.pure(t.values[0], env)
        name = ast.unparse(last.left)
        v = self.fresh('me')
        env_in = dict(env)
        env_in[name] = (v, 'val')
        return '(if %s then (match %s with Some %s => %s | None => %s end) else %s)' % (
          self.truth(c, cty, s), env[name][0], v, then(env_in), els(env), els(env))
    bc, c, cty = self.expr(s.test, env)
    return self.seq(bc, '(if %s then %s else %s)' % (self.truth(c, cty, s), then(env), els(env)))

  # ---- function ----------------------------------------------------------------------------------
  def function(self, node):
    args = [a.arg for a in node.args.args]
    if args and args[0] == 'self':
      args = args[1:]
    if node.args.vararg or node.args.kwarg or node.args.kwonlyargs:
      fail(node, 'signature')
    want = [p for p, _ in self.fn.params]
    if args != want:
      fail(node, 'parameters are %r, the binding expects %r' % (args, want))
    env = dict(self.fn.env_extra)
    binders = []
    for p, ty in self.fn.params:
      if ty == 'ghost':
        continue
      if ty in ('cont', 'mapping'):                  # the object the function works on = the state of the monad
        env[p] = ('', ty)
        continue
      if isinstance(ty, tuple):                      # a record-like parameter: (coq binders, attribute map)
        binders.append(ty[0])
        continue
      env[p] = (p + '_', ty)
      binders.append('(%s_ : %s)' % (p, COQ_TY[ty]))
    def k_end(_e):
      if self.fn.ret == 'unit':
        return '(ret tt)'
      fail(node, 'the function can fall off the end')
    if self.fn.ret == 'unit' and any(isinstance(x, ast.Return) and x.value is not None for x in ast.walk(node)):
      fail(node, 'a function bound as returning None returns a value')
    body = self.block(node.body, env, k_end, {})
    return 'Definition %s %s %s : LM %s %s :=\n  %s.\n' % (
      self.fn.coq, self.fn.extra, ' '.join(binders), self.fn.state, COQ_TY[self.fn.ret], body)


def find(tree, qual):
  body, node = tree.body, None
  for p in qual.split('.'):
    node = next((s for s in body if isinstance(s, (ast.FunctionDef, ast.ClassDef)) and s.name == p), None)
    if node is None:
      raise Untranslatable('no definition %s' % qual)
    body = node.body
  if not isinstance(node, ast.FunctionDef):
    raise Untranslatable('%s is not a function' % qual)
  return node


_TREES = {}
HELPERS = {}      # (path, name, arg types) -> (coq name, result type, definition text), in order of first use


def tree_of(path):
  if path not in _TREES:
    with open(path) as f:
      _TREES[path] = ast.parse(f.read())
  return _TREES[path]


def translate(fn):
  return Tr(fn).function(find(tree_of(fn.path), fn.qual))


# ---- call handlers ---------------------------------------------------------------------------------

def prim(name, argtys, ret, effect=True, first=None, kw=None):
  """A call translated to the Coq function `name`.  first: required source text of the first argument (dropped);
  kw: {keyword: type} accepted keyword arguments, passed after the positional ones in this order."""
  def h(tr, n, env):
    args = list(n.args)
    if first is not None:
      if not args or ast.unparse(args[0]) != first:
        fail(n, 'first argument must be %s' % first)
      args = args[1:]
    kws = {k.arg: k.value for k in n.keywords}
    if set(kws) - set(kw or {}):
      fail(n, 'keyword arguments')
    exprs = list(args) + [kws[k] for k in (kw or {}) if k in kws]
    tys = list(argtys) + [kw[k] for k in (kw or {}) if k in kws]
    if len(exprs) != len(tys):
      fail(n, 'number of arguments')
    binds, terms = [], []
    for e, ty in zip(exprs, tys):
      b, t, _ = tr.expr(e, env, ty)
      binds += b
      terms.append(t)
    app = '(%s)' % ' '.join([name] + terms)
    if not effect:
      return binds, app, ret
    v = tr.fresh('v')
    return binds + [(v, app)], v, ret
  return h


def kinds_of(path, qual):
  """`return twowaymap.TwoWayMap(left=LookupSet, right="single")` -> (left kind, right kind)"""
  node = find(tree_of(path), qual)
  body = [s for s in node.body if not (isinstance(s, ast.Expr) and isinstance(s.value, ast.Constant))]
  if not (len(body) == 1 and isinstance(body[0], ast.Return) and isinstance(body[0].value, ast.Call)
          and ast.unparse(body[0].value.func) == 'twowaymap.TwoWayMap' and not body[0].value.args):
    fail(node, '_make_row_key_map')
  kws = {k.arg: k.value for k in body[0].value.keywords}
  if set(kws) != {'left', 'right'}:
    fail(node, '_make_row_key_map keywords')
  def kind(v):
    if isinstance(v, ast.Constant) and v.value in ('single', 'strict'):
      return {'single': 'KSingle', 'strict': 'KStrict'}[v.value]
    if isinstance(v, ast.Name) and v.id in ('set', 'list', 'LookupSet'):
      return {'set': 'KSet', 'list': 'KList', 'LookupSet': 'KLookupSet'}[v.id]
    fail(v, 'bin kind')
  return kind(kws['left']), kind(kws['right'])


# ---- the functions of C13 ------------------------------------------------------------------------------

TW = 'leq req lhash rhash lfmt rfmt lk rk'
TW_BINDERS = ('{L R : Type} (leq : L -> L -> bool) (req : R -> R -> bool) (lhash : L -> bool) (rhash : R -> bool) '
              '(lfmt : L -> bool) (rfmt : R -> bool) (lk rk : kind)')


def tw_calls():
  return {
    'self._right_bin.add_item': prim('(right_bin_add_item_fwd leq req lhash rhash lfmt rk)', ['L', 'R'], 'oRoR', first='self._fwd'),
    'self._left_bin.add_item': prim('(left_bin_add_item_bwd leq req lhash rhash rfmt lk)', ['R', 'L'], 'oLoL', first='self._bwd'),
    'self._right_bin.remove_item': prim('(right_bin_remove_item_fwd leq req lhash rhash rk)', ['L', 'R'], 'unit', first='self._fwd'),
    'self._left_bin.remove_item': prim('(left_bin_remove_item_bwd leq req lhash rhash lk)', ['R', 'L'], 'unit', first='self._bwd'),
    'self._right_bin.remove_key': prim('(right_bin_remove_key_fwd leq lhash rk)', ['L'], 'Rs', first='self._fwd'),
    'self._left_bin.remove_key': prim('(left_bin_remove_key_bwd req rhash lk)', ['R'], 'Ls', first='self._bwd'),
    'self._fwd.clear': prim('fwd_clear', [], 'unit'),
    'self._bwd.clear': prim('bwd_clear', [], 'unit'),
  }


def new_keys_handler(tr, n, env):
  if not (len(n.args) == 1 and isinstance(n.args[0], ast.Name) and n.args[0].id == 'rec' and not n.keywords):
    fail(n, 'get_new_keys_iter argument')
  return [], '(new_keys_iter cols_ cells_)', 'keylist'


def lookup_left_set_handler(tr, n, env):
  if not (len(n.args) == 2 and isinstance(n.args[1], ast.Tuple) and not n.args[1].elts and not n.keywords):
    fail(n, 'lookup_left(row_id, ())')
  b, t, _ = tr.expr(n.args[0], env, 'row')
  v = tr.fresh('v')
  return b + [(v, '(lookup_left_set %s)' % t)], v, 'keyset'


REC = ('(row_ : Z) (cells_ : list val)', None)


def mapping_fns(lookup_py, cls, tag):
  """The methods of one lookup mapping class (tag = simple / contains)."""
  inst = 'Z.eqb vals_eqb always key_hashable never key_fmt_fails %s_left_kind %s_right_kind' % (tag, tag)
  rm = '(gen_tw_remove %s)' % inst
  calls = {
    'self._row_key_map.insert': prim('(gen_tw_insert %s)' % inst, ['row', 'key'], 'unit'),
    'self._row_key_map.lookup_right': prim('bwd_get_ref', ['key'], 'ref', kw={'default': 'ref'}),
    'self.get_new_keys_iter': new_keys_handler,
  }
  if tag == 'simple':
    calls['self._row_key_map.remove'] = prim('(remove_opt %s)' % rm, ['row', 'okey'], 'unit')
    calls['self._row_key_map.lookup_left'] = prim('lookup_left_single', ['row'], 'okey')
    calls['self._get_mapped_key'] = prim('gen_simple_get_mapped_key', ['row'], 'okey')
    calls['self.get_mapped_keys'] = prim('gen_simple_get_mapped_keys', ['row'], 'okeys')
    mk = 'okeys'
  else:
    calls['self._row_key_map.remove'] = prim(rm, ['row', 'key'], 'unit')
    calls['self._row_key_map.lookup_left'] = lookup_left_set_handler
    calls['self.get_mapped_keys'] = prim('gen_contains_get_mapped_keys', ['row'], 'keyset')
    mk = 'keyset'
  attrs = {'rec._row_id': ('row_', 'row')}
  out = []
  if tag == 'simple':
    out.append(Fn('gen_simple_get_mapped_key', lookup_py, cls + '._get_mapped_key', [('row_id', 'row')], 'okey', 'lmap', calls))
  out.append(Fn('gen_%s_get_mapped_keys' % tag, lookup_py, cls + '.get_mapped_keys', [('row_id', 'row')], mk, 'lmap', calls))
  out.append(Fn('gen_%s_update_record' % tag, lookup_py, cls + '.update_record', [('rec', REC)], 'keyset', 'lmap', calls,
                extra='(cols_ : list colspec)', self_attrs=attrs))
  out.append(Fn('gen_%s_remove_row_id' % tag, lookup_py, 'BaseLookupMapping.remove_row_id', [('row_id', 'row')], mk, 'lmap', calls))
  return out


CONT_BINDERS = '{A : Type} (aeq : A -> A -> bool) (ahash : A -> bool)'
BIN_BINDERS = ('{K A : Type} (keq : K -> K -> bool) (aeq : A -> A -> bool) (khash : K -> bool) (ahash : A -> bool) '
               '(kfmt : K -> bool) (kd : kind)')
KIND_OF = {'set': 'KSet', 'list': 'KList', 'LookupSet': 'KLookupSet'}


def registrations(tw_py):
  """register_container(cls, make, add, remove) statements and the _mapper_types literal of twowaymap.py."""
  tree = tree_of(tw_py)
  conts, singles = {}, {}
  for st in tree.body:
    if (isinstance(st, ast.Expr) and isinstance(st.value, ast.Call) and isinstance(st.value.func, ast.Name)
        and st.value.func.id == 'register_container'):
      a = st.value.args
      if not (len(a) == 4 and all(isinstance(x, ast.Name) for x in a) and a[0].id in KIND_OF and not st.value.keywords):
        fail(st, 'register_container call')
      if KIND_OF[a[0].id] in conts:
        fail(st, 'a container type is registered twice')
      conts[KIND_OF[a[0].id]] = (a[1].id, a[2].id, a[3].id)
    if isinstance(st, ast.Assign) and any(isinstance(t, ast.Name) and t.id == '_mapper_types' for t in st.targets):
      d = st.value
      if not (isinstance(d, ast.Dict) and all(isinstance(k, ast.Constant) for k in d.keys)
              and all(isinstance(v, ast.Call) and isinstance(v.func, ast.Name) and not v.args and not v.keywords for v in d.values)):
        fail(st, '_mapper_types')
      for k, v in zip(d.keys, d.values):
        singles[{'single': 'KSingle', 'strict': 'KStrict'}.get(k.value) or fail(st, '_mapper_types key')] = v.func.id
  if set(conts) != {'KSet', 'KList', 'KLookupSet'} or set(singles) != {'KSingle', 'KStrict'}:
    raise Untranslatable('bin kinds registered in twowaymap.py: %s %s' % (sorted(conts), sorted(singles)))
  # the generic container bin class: register_container builds _ContainerBin(make, add, remove)
  reg = find(tree, 'register_container')
  body = [x for x in reg.body if not (isinstance(x, ast.Expr) and isinstance(x.value, ast.Constant))]
  if not (len(body) == 1 and ast.unparse(body[0]) == '_mapper_types[cls] = _ContainerBin(make_func, add_func, remove_func)'):
    fail(reg, 'register_container body')
  init = find(tree, '_ContainerBin.__init__')
  if [ast.unparse(x) for x in init.body] != ['self.make = make_func', 'self.add = add_func', 'self.remove = remove_func']:
    fail(init, '_ContainerBin.__init__')
  return conts, singles


def method_owner(tree, cls, meth):
  """The class that defines `meth` for `cls` (one level of single inheritance by name)."""
  c = next((x for x in tree.body if isinstance(x, ast.ClassDef) and x.name == cls), None)
  if c is None:
    raise Untranslatable('no class %s' % cls)
  if any(isinstance(x, ast.FunctionDef) and x.name == meth for x in c.body):
    return cls
  if len(c.bases) == 1 and isinstance(c.bases[0], ast.Name) and c.bases[0].id != 'object':
    return method_owner(tree, c.bases[0].id, meth)
  raise Untranslatable('%s has no method %s' % (cls, meth))


def bins(tw_py, emit):
  """Container functions, the three bin classes, and the dispatch by kind."""
  out = []
  conts, singles = registrations(tw_py)
  tree = tree_of(tw_py)
  def cont_calls(kd):
    return {
      'container.add': prim('(c_add ahash %s)' % kd, ['A'], 'unit'),
      'container.append': prim('(c_add ahash %s)' % kd, ['A'], 'unit'),
      'container.discard': prim('(c_discard aeq ahash %s)' % kd, ['A'], 'unit'),
      'container.remove': prim('(c_list_remove aeq %s)' % kd, ['A'], 'unit'),
      'container.sorted_versions.clear': prim('c_clear_cache', [], 'unit'),
    }
  disp = {'make': [], 'add': [], 'remove': []}
  for kd, (mk, ad, rm) in sorted(conts.items()):
    tag = kd[1:].lower()
    emit(Fn('gen_%s_make' % tag, tw_py, mk, [('value', 'A')], 'binA', 'unit', cont_calls(kd), extra=CONT_BINDERS, kd=kd))
    emit(Fn('gen_%s_add' % tag, tw_py, ad, [('container', 'cont'), ('value', 'A')], 'bool', '(bin A)', cont_calls(kd),
            extra=CONT_BINDERS, kd=kd))
    emit(Fn('gen_%s_remove' % tag, tw_py, rm, [('container', 'cont'), ('value', 'A')], 'unit', '(bin A)', cont_calls(kd),
            extra=CONT_BINDERS, kd=kd))
    for w in disp:
      disp[w].append('  | %s => gen_%s_%s aeq ahash value_' % (kd, tag, w))
  emit_text = []
  for w, ty, st in (('make', '(bin A)', 'unit'), ('add', 'bool', '(bin A)'), ('remove', 'unit', '(bin A)')):
    emit_text.append('Definition gen_cont_%s %s (kd : kind) (value_ : A) : LM %s %s :=\n  match kd with\n%s\n  | _ => raise OtherErr\n  end.\n'
                     % (w, CONT_BINDERS, st, ty, '\n'.join(disp[w])))
  def stored_get(single):
    def h(tr, n, env):
      if not (len(n.args) == 2 and isinstance(n.args[1], ast.Name) and n.args[1].id == '_NIL' and not n.keywords):
        fail(n, 'mapping.get(key, _NIL)')
      b, t, _ = tr.expr(n.args[0], env, 'K')
      v = tr.fresh('v')
      if single:
        return b + [(v, '(d_get_single keq khash %s)' % t)], v, 'oA'
      return b + [(v, '(d_get_cont keq khash %s)' % t)], v, 'ocref'
    return h
  def pop(tr, n, env):
    if not (len(n.args) == 2 and not n.keywords):
      fail(n, 'mapping.pop')
    b, t, _ = tr.expr(n.args[0], env, 'K')
    v = tr.fresh('v')
    if isinstance(n.args[1], ast.Name) and n.args[1].id == '_NIL':
      return b + [(v, '(d_pop_single keq khash %s)' % t)], v, 'oA'
    if isinstance(n.args[1], ast.Tuple) and not n.args[1].elts:
      return b + [(v, '(d_pop_cont keq khash %s)' % t)], v, 'As'
    fail(n, 'mapping.pop default')
  def on_stored(fn_name, ret):
    def h(tr, n, env):
      if not (len(n.args) == 2 and isinstance(n.args[0], ast.Name) and env.get(n.args[0].id, (None, None))[1] == 'cref'
              and not n.keywords):
        fail(n, 'a container function must be applied to the stored container')
      b, t, _ = tr.expr(n.args[1], env, 'A')
      v = tr.fresh('v')
      return b + [(v, '(with_container keq %s (%s aeq ahash kd %s))' % (env[n.args[0].id][0], fn_name, t))], v, ret
    return h
  def make(tr, n, env):
    if not (len(n.args) == 1 and not n.keywords):
      fail(n, 'self.make')
    b, t, _ = tr.expr(n.args[0], env, 'A')
    v = tr.fresh('v')
    return b + [(v, '(no_state (gen_cont_make aeq ahash kd %s))' % t)], v, 'binA'
  out_defs = []
  classes = [('single', singles['KSingle'], True), ('strict', singles['KStrict'], True), ('container', '_ContainerBin', False)]
  pending = []
  for tag, cls, single in classes:
    calls = {'mapping.get': stored_get(single), 'mapping.pop': pop, 'self.make': make,
             'self.add': on_stored('gen_cont_add', 'bool'), 'self.remove': on_stored('gen_cont_remove', 'unit')}
    for meth, params, ret in (('add_item', [('mapping', 'mapping'), ('key', 'K'), ('value', 'A')], 'oAoA'),
                              ('remove_item', [('mapping', 'mapping'), ('key', 'K'), ('value', 'A')], 'unit'),
                              ('remove_key', [('mapping', 'mapping'), ('key', 'K')], 'As')):
      owner = method_owner(tree, cls, meth)
      pending.append(Fn('gen_%s_%s' % (tag, meth), tw_py, owner + '.' + meth, params, ret, '(dict K (bin A))', calls,
                        extra=BIN_BINDERS))
  return emit_text, pending


def bin_dispatch():
  args = 'keq aeq khash ahash kfmt kd'
  out = []
  for meth, params, ret in (('add_item', '(key_ : K) (value_ : A)', '(option A * option A)'),
                            ('remove_item', '(key_ : K) (value_ : A)', 'unit'), ('remove_key', '(key_ : K)', '(list A)')):
    a = 'key_ value_' if 'value_' in params else 'key_'
    out.append('Definition gen_bin_%s %s %s : LM (dict K (bin A)) %s :=\n  match kd with\n  | KSingle => gen_single_%s %s %s\n'
               '  | KStrict => gen_strict_%s %s %s\n  | _ => gen_container_%s %s %s\n  end.\n'
               % (meth, BIN_BINDERS, params, ret, meth, args, a, meth, args, a, meth, args, a))
  lr = '{L R : Type} (leq : L -> L -> bool) (req : R -> R -> bool) (lhash : L -> bool) (rhash : R -> bool)'
  out.append('Definition gen_right_bin_add_item_fwd %s (lfmt : L -> bool) (rk : kind) (left_ : L) (right_ : R) : LM (twm L R) (option R * option R) :=\n'
             '  on_fwd (gen_bin_add_item leq req lhash rhash lfmt rk left_ right_).\n' % lr)
  out.append('Definition gen_left_bin_add_item_bwd %s (rfmt : R -> bool) (lk : kind) (right_ : R) (left_ : L) : LM (twm L R) (option L * option L) :=\n'
             '  on_bwd (gen_bin_add_item req leq rhash lhash rfmt lk right_ left_).\n' % lr)
  out.append('Definition gen_right_bin_remove_item_fwd %s (lfmt : L -> bool) (rk : kind) (left_ : L) (right_ : R) : LM (twm L R) unit :=\n'
             '  on_fwd (gen_bin_remove_item leq req lhash rhash lfmt rk left_ right_).\n' % lr)
  out.append('Definition gen_left_bin_remove_item_bwd %s (rfmt : R -> bool) (lk : kind) (right_ : R) (left_ : L) : LM (twm L R) unit :=\n'
             '  on_bwd (gen_bin_remove_item req leq rhash lhash rfmt lk right_ left_).\n' % lr)
  out.append('Definition gen_right_bin_remove_key_fwd %s (lfmt : L -> bool) (rk : kind) (left_ : L) : LM (twm L R) (list R) :=\n'
             '  on_fwd (gen_bin_remove_key leq req lhash rhash lfmt rk left_).\n' % lr)
  out.append('Definition gen_left_bin_remove_key_bwd %s (rfmt : R -> bool) (lk : kind) (right_ : R) : LM (twm L R) (list L) :=\n'
             '  on_bwd (gen_bin_remove_key req leq rhash lhash rfmt lk right_).\n' % lr)
  return out


def generate(grist):
  """Returns the text of coq/gen/Lookup_gen.v for the sources under `grist`."""
  _TREES.clear()
  HELPERS.clear()
  table_py, tw_py, lookup_py = (os.path.join(grist, f) for f in ('table.py', 'twowaymap.py', 'lookup.py'))
  parts = []
  def emit(fn):
    n0 = len(HELPERS)
    text = translate(fn)
    for h in list(HELPERS.values())[n0:]:
      parts.append(h[2])
    parts.append(text)
  emit(Fn('gen_make_sort_spec', table_py, 'make_sort_spec',
          [('order_by', 'sarg'), ('sort_by', 'sarg'), ('has_manual_sort', 'bool')], 'spec', 'unit', {}))
  cont_disp, bin_fns = bins(tw_py, emit)
  parts.extend(cont_disp)
  for fn in bin_fns:
    emit(fn)
  parts.extend(bin_dispatch())
  for name, params in (('insert', [('left', 'L'), ('right', 'R')]), ('remove', [('left', 'L'), ('right', 'R')]),
                       ('remove_left', [('left', 'L')]), ('remove_right', [('right', 'R')]), ('clear', [])):
    emit(Fn('gen_tw_' + name, tw_py, 'TwoWayMap.' + name, params, 'unit', '(twm L R)', tw_calls(), extra=TW_BINDERS))
  for cls, tag in (('SimpleLookupMapping', 'simple'), ('ContainsLookupMapping', 'contains')):
    lk, rk = kinds_of(lookup_py, cls + '._make_row_key_map')
    parts.append('Definition %s_left_kind : kind := %s.\nDefinition %s_right_kind : kind := %s.\n' % (tag, lk, tag, rk))
    for fn in mapping_fns(lookup_py, cls, tag):
      emit(fn)
  ex = {'_extract': prim('extract', ['val'], 'val', effect=False)}
  emit(Fn('gen_simple_get_new_keys_iter', lookup_py, 'SimpleLookupMapping.get_new_keys_iter', [('rec', REC)], 'keylist', 'unit', ex,
          extra='(cols_ : list colspec)', env_extra={'cells': ('cells_', 'vals')}))
  emit(Fn('gen_contains_get_new_keys_iter', lookup_py, 'ContainsLookupMapping.get_new_keys_iter', [('rec', REC)], 'keylist',
          '(list (list val))', ex, extra='(cols_ : list colspec)', acc='new_keys_groups',
          self_attrs={'self._col_ids_tuple': ('(combine cols_ cells_)', 'colcells')}))
  emit(Fn('gen_lookup_by_key', lookup_py, 'BaseLookupMapping.lookup_by_key', [('key', 'key'), ('default', 'ref')], 'ref', 'lmap',
          {'self._row_key_map.lookup_right': prim('bwd_get_ref', ['key'], 'ref', kw={'default': 'ref'})}))
  col_calls = {
    '_extract': prim('extract', ['val'], 'val', effect=False),
    'self._mapping.lookup_by_key': prim('gen_lookup_by_key', ['key'], 'ref', kw={'default': 'ref'}),
    'self._do_fast_lookup': prim('gen_do_fast_lookup', ['key'], 'ref'),
    'self._mapping.get_new_keys_iter': new_keys_handler,
  }
  ghost = ['self._relation_tracker.update_relation_from_current_node']
  emit(Fn('gen_do_fast_lookup', lookup_py, 'LookupMapColumn._do_fast_lookup', [('key', 'key')], 'ref', 'lmap', col_calls))
  emit(Fn('gen_do_lookup_with_sort', lookup_py, 'LookupMapColumn._do_lookup_with_sort',
          [('key', 'key'), ('sort_spec', 'spec'), ('sort_key', 'ghost')], 'rows_unit', 'lmap', col_calls,
          extra='(t_ : table)', env_extra={'sort_key': ('tt', 'unit')}, ghost=ghost))
  emit(Fn('gen_reset_sorted_versions', lookup_py, 'LookupMapColumn._reset_sorted_versions',
          [('rec', REC), ('sort_spec', 'spec')], 'keyset', 'lmap', col_calls, extra='(cols_ : list colspec)',
          self_attrs={'rec._row_id': ('row_', 'row')}))
  sk_py = os.path.join(grist, 'sort_key.py')
  emit(Fn('gen_sortkey_lt', sk_py, 'make_sort_key.SortKey.__lt__', [('other', 'ghost')], 'bool', 'unit', {},
          extra='(va_ vb_ : list val) (ascs_ : list bool) (ra_ rb_ : Z)',
          self_attrs={'self.values': ('va_', 'vals'), 'other.values': ('vb_', 'vals'),
                      'self.row_id': ('ra_', 'row'), 'other.row_id': ('rb_', 'row')},
          env_extra={'col_sort_spec': ('ascs_', 'signs')}))
  header = ('(* GENERATED by /verif/harness/lk2v.py from %s (table.py, twowaymap.py, lookup.py, sort_key.py) -- do not edit;\n'
            '   regenerated on every run. *)\nFrom Coq Require Import ZArith List Bool.\nImport ListNotations.\n'
            'Require Import Grist.Lib.LkMonad Grist.Model.Lookup Grist.Model.LookupRt.\nOpen Scope Z_scope.\n\n' % grist)
  return header + '\n'.join(parts)
