"""cb2v: the plan -- which functions of codebuilder.py become which Coq definitions (coq/gen/CodeBuilder_gen.v)."""
import ast

from harness import cb2v_spec
from harness.cb2v import Untranslatable
from harness.cb2v_spec import funcdef, pin_hash


def split_return(fdef):
  """(statements before the final return, the return statement)."""
  if not isinstance(fdef.body[-1], ast.Return):
    raise Untranslatable('%s does not end in a return statement' % fdef.name)
  return fdef.body[:-1], fdef.body[-1]


def generate(grist_dir):
  g = cb2v_spec.Gen(grist_dir)
  cb, tb = g.trees['codebuilder'], g.trees['textbuilder']
  pins = {}

  # textbuilder.make_regexp_patches(full_text, regexp, repl) with a plain-text repl
  g.add('make_regexp_patches', 'gen_make_regexp_patches', funcdef(tb, 'make_regexp_patches'),
        ['text', 'regex', 'text'], 'pure', 'Lpatch')
  # _indent(body, indent), _dedent(body): a Builder is its text
  g.add('_indent', 'gen_indent', funcdef(cb, '_indent'), ['text', 'text'], 'res', 'text')
  g.add('_dedent', 'gen_dedent', funcdef(cb, '_dedent'), ['text'], 'res', 'text')

  # _create_syntax_error_code(builder, input_text, err): the returned text; what comes before it computes the
  # numbers and the line shown in the message (asttokens, friendly-traceback) and is pinned
  f = funcdef(cb, '_create_syntax_error_code')
  before, ret = split_return(f)
  pins['_create_syntax_error_code (all but the returned expression)'] = \
    pin_hash(ast.fix_missing_locations(ast.FunctionDef(name='f', args=f.args, body=before, decorator_list=[],
                                                       type_params=[], lineno=1, col_offset=0)))
  g.add('_create_syntax_error_code', 'gen_create_syntax_error_code', f, ['_', 'text', '_'], 'pure', 'text',
        stmts=[ret], opaque={'err_type.__name__': ('err_name', 'text')},
        extra=[('printable', 'pfun'), ('err_name', 'text'), ('message', 'text'), ('line', 'Z'), ('col', 'Z'),
               ('input_text_line', 'text')])

  # _multiline_string_nodes(atok, node): generator over the tree
  g.add('_multiline_string_nodes', 'gen_multiline_string_nodes', funcdef(cb, '_multiline_string_nodes'),
        ['_', 'node'], 'gen', 'node', recursive=1)

  # make_formula_body(formula, default_value, assoc_value, indent): formula_body and its hint come from
  # _do_make_formula_body, the tree from asttokens
  f = funcdef(cb, 'make_formula_body')
  g.add('make_formula_body', 'gen_make_formula_body', f, ['_', '_', '_', 'text'], 'res', 'text',
        opaque={'_do_make_formula_body(formula, default_value, assoc_value=assoc_value)': ('formula_body', 'text'),
                "getattr(formula_body, 'have_multiline_strings', None)": ('have_ml', 'B'),
                'atok.tree': ('tree', 'node')},
        skip=['atok = asttokens.ASTText(builder.get_text())'], local_types={'unindent_patches': 'Lpatch'},
        extra=[('formula_body', 'text'), ('have_ml', 'B'), ('tree', 'node')])

  # _do_make_formula_body, first part: from `formula_builder_text = Text(formula)` to `formula = ....get_text()`
  # (line ends, _dedent): the value of `formula` the rest of the function works on
  f = funcdef(cb, '_do_make_formula_body')
  def target(s):
    return s.targets[0].id if isinstance(s, ast.Assign) and isinstance(s.targets[0], ast.Name) else None
  starts = [i for i, s in enumerate(f.body) if target(s) == 'formula_builder_text']
  ends = [i for i, s in enumerate(f.body) if target(s) == 'formula' and 'get_text' in ast.unparse(s.value)]
  if not starts or not ends or ends[-1] < starts[0]:
    raise Untranslatable('_do_make_formula_body: the statements that compute `formula` were not found')
  ret = ast.parse('return formula').body[0]
  g.add('_do_make_formula_body', 'gen_formula_text', f, ['text', '_', '_'], 'res', 'text',
        stmts=f.body[starts[0]:ends[-1] + 1] + [ret])
  # _do_make_formula_body, the loop over ast.walk(tree): the multi-line hint and the `$name` patches (the third
  # `if` of the loop body, the lambda wrapping of IF/ISERR/... arguments, is left out: pinned)
  loops = [s for s in f.body if isinstance(s, ast.For) and ast.unparse(s.iter) == 'ast.walk(tree)']
  if len(loops) != 1:
    raise Untranslatable('_do_make_formula_body: the loop over ast.walk(tree) was not found')
  lazy = [st for st in loops[0].body if isinstance(st, ast.If) and 'ast.Call' in ast.unparse(st.test)]
  inits = [s for s in f.body if target(s) in ('patches', 'have_multiline_strings')
           and isinstance(s.value, (ast.List, ast.Constant))]
  ret = ast.parse('return (have_multiline_strings, patches)').body[0]
  g.funcs['tmp_formula.map_back_offset'] = ('gen_map_back_offset tmp_io tmp_oo false (fun z_ => Ok z_)',
                                            [('out_pos', 'Z')], ('res', 'Z'))
  g.add('_do_make_formula_body', 'gen_walk', f, ['text', '_', '_'], 'res', ('tuple', 'B', 'Lpatch'),
        stmts=inits + [loops[0], ret], opaque={'ast.walk(tree)': ('nodes', 'Lnode')},
        skip=[ast.unparse(st) for st in lazy], local_types={'patches': 'Lpatch'},
        extra=[('tmp_io', 'LZ'), ('tmp_oo', 'LZ'), ('nodes', 'Lnode')])
  pins['_do_make_formula_body'] = pin_hash(f)
  return cb2v_spec.HEADER + '\n'.join(g.defs), pins


if __name__ == '__main__':
  import sys
  text_, pins_ = generate(sys.argv[1])
  cb2v_spec.check_pins(pins_, update='--update-pins' in sys.argv)
  print(text_)
