"""cb2v: the plan -- which functions of codebuilder.py become which Coq definitions (coq/gen/CodeBuilder_gen.v)."""
import ast

from harness import cb2v_spec
from harness.cb2v import Untranslatable
from harness.cb2v_spec import funcdef, pin_hash


def split_return(fdef):
  """(statements before the final return, the return statement)."""
  if not isinstance(fdef.body[-1], ast.Return):
    raise Untranslatable('%s does not end in a return statement' % fdef.name)
  return fdef.body[:-1], fdef.body[-1]


def generate(grist_dir, update_pins=False):
  g = cb2v_spec.Gen(grist_dir)
  cb, tb = g.trees['codebuilder'], g.trees['textbuilder']
  pins = {}

  # textbuilder.make_regexp_patches(full_text, regexp, repl) with a plain-text repl
  g.add('make_regexp_patches', 'gen_make_regexp_patches', funcdef(tb, 'make_regexp_patches'),
        ['text', 'regex', 'text'], 'pure', 'Lpatch')
  # _indent(body, indent), _dedent(body): a Builder is its text
  g.add('_indent', 'gen_indent', funcdef(cb, '_indent'), ['text', 'text'], 'res', 'text')
  g.add('_dedent', 'gen_dedent', funcdef(cb, '_dedent'), ['text'], 'res', 'text')

  # _create_syntax_error_code(builder, input_text, err): the returned text; what comes before it computes the
  # numbers and the line shown in the message (asttokens, friendly-traceback) and is pinned
  f = funcdef(cb, '_create_syntax_error_code')
  before, ret = split_return(f)
  pins['_create_syntax_error_code (all but the returned expression)'] = \
    pin_hash(ast.fix_missing_locations(ast.FunctionDef(name='f', args=f.args, body=before, decorator_list=[],
                                                       type_params=[], lineno=1, col_offset=0)))
  g.add('_create_syntax_error_code', 'gen_create_syntax_error_code', f, ['_', 'text', '_'], 'pure', 'text',
        stmts=[ret], opaque={'err_type.__name__': ('err_name', 'text')},
        extra=[('printable', 'pfun'), ('err_name', 'text'), ('message', 'text'), ('line', 'Z'), ('col', 'Z'),
               ('input_text_line', 'text')])

  # _multiline_string_nodes(atok, node): generator over the tree
  g.add('_multiline_string_nodes', 'gen_multiline_string_nodes', funcdef(cb, '_multiline_string_nodes'),
        ['_', 'node'], 'gen', 'node', recursive=1)

  # make_formula_body(formula, default_value, assoc_value, indent): formula_body and its hint come from
  # _do_make_formula_body, the tree from asttokens
  f = funcdef(cb, 'make_formula_body')
  g.add('make_formula_body', 'gen_make_formula_body', f, ['_', '_', '_', 'text'], 'res', 'text',
        opaque={'_do_make_formula_body(formula, default_value, assoc_value=assoc_value)': ('formula_body', 'text'),
                "getattr(formula_body, 'have_multiline_strings', None)": ('have_ml', 'B'),
                'atok.tree': ('tree', 'node')},
        skip=['atok = asttokens.ASTText(builder.get_text())'], local_types={'unindent_patches': 'Lpatch'},
        extra=[('formula_body', 'text'), ('have_ml', 'B'), ('tree', 'node')])

  pins['_do_make_formula_body'] = pin_hash(funcdef(cb, '_do_make_formula_body'))
  cb2v_spec.check_pins(pins, update=update_pins)
  return cb2v_spec.HEADER + '\n'.join(g.defs)


if __name__ == '__main__':
  import sys
  print(generate(sys.argv[1], update_pins='--update-pins' in sys.argv))
