"""
pf2v -- fail-closed translator from the visitor methods of predicate_formula.TreeConverter and of the three entity
collectors (acl._ACLEntityCollector, dropdown_condition._DCEntityCollector, trigger_expression._TriggerEntityCollector)
to Gallina over the model AST of Model/Predicate.v (used by harness/props/c40.py and c17.py).

Every `visit_X(self, node)` becomes `<Class>_visit_X visit p <fields of X>` in the monad M of Model/PredVisit.v
(state = self.entities, failure = SyntaxError | internal error); `self.visit(x)` is the parameter `visit`;
the dispatcher `gen_visit` (ast.NodeVisitor.visit: visit_<ClassName> or generic_visit) is generated from the set of
methods.  Python values are typed while translating:
  node lnode kw lkw str ostr const fv(e.value of another node) int bool pv(a tree) lpv(a Python list of trees)
  boolop binop unop cmpop lcmpop
Anything outside the subset raises Untranslatable (the check turns it into TieBroken).

Statements:  x = e | return e | raise SyntaxError(msg [% args]) | x.append(e) | self.entities.append(NamedEntity(..))
             | if/elif/else (returning, or updating locals / the entities) | a leading docstring
Expressions: literals, names, node fields, x[i], a + b (lists, ints), [..], comprehensions, all/any(generator),
             not/and/or, == != is in, isinstance, len, self.visit / self.visit_Y / self.generic_visit /
             super().visit_Y, math.isfinite, %-formatting inside raise
"""
import ast

FIELDS = {   # ast class -> [(python field, coq pattern variable, type)] in the order of the model constructor
  'BoolOp': [('op', 'op', 'boolop'), ('values', 'values', 'lnode')],
  'BinOp': [('op', 'op', 'binop'), ('left', 'left', 'node'), ('right', 'right', 'node')],
  'UnaryOp': [('op', 'op', 'unop'), ('operand', 'operand', 'node')],
  'Compare': [('left', 'left', 'node'), ('ops', 'ops', 'lcmpop'), ('comparators', 'comparators', 'lnode')],
  'Name': [('id', 'id', 'str')],
  'Constant': [('value', 'value', 'const')],
  'Attribute': [('value', 'value', 'node'), ('attr', 'attr', 'str'), ('last_token.startpos', 'apos', 'int')],
  'List': [('elts', 'elts', 'lnode')],
  'Tuple': [('elts', 'elts', 'lnode')],
  'Call': [('func', 'func', 'node'), ('args', 'args', 'lnode'), ('keywords', 'keywords', 'lkw')],
}
CTOR = {'BoolOp': 'EBoolOp', 'BinOp': 'EBinOp', 'UnaryOp': 'EUnaryOp', 'Compare': 'ECompare', 'Name': 'EName',
        'Constant': 'EConstant', 'Attribute': 'EAttribute', 'List': 'EList', 'Tuple': 'ETuple', 'Call': 'ECall'}
COQTY = {'node': 'expr', 'lnode': '(list expr)', 'kw': '(option str * expr)', 'lkw': '(list (option str * expr))',
         'str': 'str', 'ostr': '(option str)', 'const': 'const', 'int': 'Z', 'bool': 'bool', 'pv': 'pyval',
         'lpv': '(list pyval)', 'boolop': 'boolop', 'binop': 'binop', 'unop': 'unop', 'cmpop': 'cmpop',
         'lcmpop': '(list cmpop)', 'fv': 'fieldval', 'unit': 'unit'}
ELEM = {'lnode': 'node', 'lkw': 'kw', 'lcmpop': 'cmpop', 'lpv': 'pv'}
OPCLS = {'boolop': 'boolop_cls', 'binop': 'binop_cls', 'unop': 'unop_cls', 'cmpop': 'cmpop_cls', 'node': 'node_cls'}
RESERVED = {'end', 'at', 'in', 'fun', 'match', 'with', 'let', 'if', 'then', 'else', 'return', 'value', 'id', 'left',
            'right', 'op', 'args', 'func', 'visit', 'p', 'st'}


class Untranslatable(Exception):
  pass


def fail(node, msg):
  raise Untranslatable('%s (line %s: %s)' % (msg, getattr(node, 'lineno', '?'),
                                             ast.unparse(node)[:90] if isinstance(node, ast.AST) else node))


def coq_str(s):
  if not all(32 <= ord(c) <= 126 for c in s):
    raise Untranslatable('non-ASCII string literal %r' % (s,))
  return '"%s"%%string' % s.replace('"', '""')


class V(object):
  """A translated expression: `term` of type `ty`; `m` = the term is in the monad M (else it is pure)."""

  def __init__(self, term, ty, m=False, pre=None):
    self.term, self.ty, self.m = term, ty, m
    self.pre = pre or []     # wrappers (body -> term) that must enclose every use, e.g. a structural match on a list


class Ctx(object):
  def __init__(self, unit, cls, fields, consts):
    self.unit = unit          # Translator
    self.cls = cls            # ast class of `node` in this method
    self.fields = fields      # python field -> (coq var, type)
    self.locals = {}          # python local -> (coq var, type)
    self.consts = consts      # module-level dict names
    self.n = 0

  def fresh(self, base='x'):
    self.n += 1
    return '%s_%d' % (base, self.n)

  def lvar(self, name):
    return 'v_' + name


def inj(v):
  """The value as a pyval (an element of a result list).  Pure V of type pv, or monadic for fv."""
  t = v.ty
  if t == 'pv':
    return v.term
  if t == 'lpv':
    return '(PList %s)' % v.term
  if t == 'str':
    return '(PLeaf (CStr %s))' % v.term
  if t == 'ostr':
    return '(inj_ostr %s)' % v.term
  if t == 'const':
    return '(PLeaf %s)' % v.term
  if t == 'int':
    return '(PLeaf (CInt %s))' % v.term
  if t == 'bool':
    return '(PLeaf (CBool %s))' % v.term
  return None


def seq(ctx, parts, build):
  """Evaluate `parts` (list of V) left to right and combine their values with build(list of pure terms) -> V."""
  binds, terms = [], []
  for v in parts:
    binds.extend(v.pre)
    if v.m:
      x = ctx.fresh()
      binds.append(lambda body, x=x, t=v.term: '(bindM %s (fun %s => %s))' % (t, x, body))
      terms.append(x)
    else:
      terms.append(v.term)
  out = build(terms)
  if not binds:
    return out
  body = out.term if out.m else '(retM %s)' % out.term
  for w in reversed(binds):
    body = w(body)
  return V(body, out.ty, True)


def close(ctx, v):
  """A V without pending wrappers."""
  return v if not v.pre else seq(ctx, [v], lambda t: V(t[0], v.ty))


def as_m(v):
  return v.term if v.m else '(retM %s)' % v.term


def tr_elem(ctx, e):
  """An expression as an element of a tree: a V of type pv."""
  v = tr(ctx, e)
  if v.ty == 'pv':
    return v
  if v.ty == 'fv':
    return seq(ctx, [v], lambda t: V('(inj_fvM %s)' % t[0], 'pv', True))
  if inj(V('@', v.ty)) is None:
    fail(e, 'a value of type %s cannot be an element of a tree' % v.ty)
  return seq(ctx, [v], lambda t: V(inj(V(t[0], v.ty)), 'pv'))


def tr_list_of(ctx, elts, node):
  """[e1, e2, ...] as a list of trees."""
  return seq(ctx, [tr_elem(ctx, e) for e in elts], lambda t: V('[' + '; '.join(t) + ']', 'lpv'))


def tr_bool(ctx, e):
  v = close(ctx, tr(ctx, e))
  if v.ty == 'bool':
    return v
  if v.ty in ('lnode', 'lkw', 'lpv', 'lcmpop'):       # truthiness of a list
    return seq(ctx, [v], lambda t: V('(nonempty %s)' % t[0], 'bool'))
  fail(e, 'condition of type %s' % v.ty)


def short_circuit(ctx, op, vals):
  """a and b and ... / a or b or ... with Python's evaluation order (later operands may fail)."""
  if all(not v.m for v in vals):
    j = ' && ' if op == 'and' else ' || '
    return V('(' + j.join(v.term for v in vals) + ')', 'bool')
  out = as_m(vals[-1])
  for v in reversed(vals[:-1]):
    x = ctx.fresh('c')
    if op == 'and':
      out = '(bindM %s (fun %s => if %s then %s else retM false))' % (as_m(v), x, x, out)
    else:
      out = '(bindM %s (fun %s => if %s then retM true else %s))' % (as_m(v), x, x, out)
  return V(out, 'bool', True)


def class_names(node):
  """isinstance's second argument: ast.X | builtin type name | a tuple of those -> list of class names."""
  if isinstance(node, ast.Tuple):
    return [n for e in node.elts for n in class_names(e)]
  if isinstance(node, ast.Attribute) and isinstance(node.value, ast.Name) and node.value.id == 'ast':
    return [node.attr]
  if isinstance(node, ast.Name) and node.id in ('bool', 'int', 'float', 'str', 'bytes', 'complex'):
    return [node.id]
  fail(node, 'class expression')


def str_list(names):
  return '[' + '; '.join('lit %s' % coq_str(n) for n in names) + ']'


def literal_pyval(node):
  """A literal made of strings and lists only (the right side of a tree comparison) as a pyval term."""
  if isinstance(node, ast.Constant) and isinstance(node.value, str):
    return '(PLeaf (CStr (lit %s)))' % coq_str(node.value)
  if isinstance(node, (ast.List, ast.Tuple)):
    return '(PList [%s])' % '; '.join(literal_pyval(e) for e in node.elts)
  return None


ZCMP = {ast.Eq: '(%s =? %s)', ast.NotEq: '(negb (%s =? %s))', ast.Lt: '(%s <? %s)', ast.LtE: '(%s <=? %s)',
        ast.Gt: '(%s >? %s)', ast.GtE: '(%s >=? %s)'}


def is_node_name(e):
  return isinstance(e, ast.Name) and e.id == 'node'


def tr(ctx, e):
  """Translate an expression to a V."""
  if isinstance(e, ast.Constant):
    if isinstance(e.value, str):
      return V('(lit %s)' % coq_str(e.value), 'str')
    if isinstance(e.value, bool):
      return V('true' if e.value else 'false', 'bool')
    if isinstance(e.value, int):
      return V('%d' % e.value if e.value >= 0 else '(%d)' % e.value, 'int')
    if e.value is None:
      return V('None', 'none')
    fail(e, 'constant')
  if isinstance(e, ast.Name):
    if e.id in ctx.locals:
      return V(*ctx.locals[e.id])
    fail(e, 'unknown name')
  if isinstance(e, ast.Attribute):
    return tr_attribute(ctx, e)
  if isinstance(e, ast.Subscript):
    if isinstance(e.value, ast.Name) and e.value.id in ctx.consts:
      k = tr(ctx, e.slice)
      if k.ty != 'str':
        fail(e, 'dict key of type %s' % k.ty)
      return seq(ctx, [k], lambda t: V('(dict_getM %s %s)' % (e.value.id, t[0]), ctx.consts[e.value.id], True))
    if not (isinstance(e.slice, ast.Constant) and isinstance(e.slice.value, int) and e.slice.value >= 0):
      fail(e, 'index')
    x = tr(ctx, e.value)
    if x.ty == 'lnode' and not x.m and not x.pre and e.slice.value >= 0:
      # a structural match, so that the element is visibly a sub-term of the node (recursion on it is accepted)
      y = ctx.fresh('y')
      pat = '_ :: ' * e.slice.value + y + ' :: _'
      wrap = lambda body, l=x.term: '(match %s with %s => %s | _ => failM (GInternal "IndexError"%%string) end)' % (
        l, pat, body)
      return V(y, 'node', False, [wrap])
    if x.ty in ELEM:
      return seq(ctx, [x], lambda t: V('(idxM %s %d%%nat)' % (t[0], e.slice.value), ELEM[x.ty], True))
    if x.ty == 'pv':
      return seq(ctx, [x], lambda t: V('(pv_idxM %s %d%%nat)' % (t[0], e.slice.value), 'pv', True))
    fail(e, 'indexing a value of type %s' % x.ty)
  if isinstance(e, ast.BinOp) and isinstance(e.op, ast.Add):
    a, b = tr(ctx, e.left), tr(ctx, e.right)
    if a.ty == b.ty == 'lpv':
      return seq(ctx, [a, b], lambda t: V('(%s ++ %s)' % (t[0], t[1]), 'lpv'))
    if a.ty == b.ty == 'int':
      return seq(ctx, [a, b], lambda t: V('(%s + %s)' % (t[0], t[1]), 'int'))
    fail(e, '+ on %s and %s' % (a.ty, b.ty))
  if isinstance(e, ast.List):
    return tr_list_of(ctx, e.elts, e)
  if isinstance(e, ast.ListComp):
    return tr_comprehension(ctx, e)
  if isinstance(e, ast.UnaryOp) and isinstance(e.op, ast.Not):
    v = tr_bool(ctx, e.operand)
    return seq(ctx, [v], lambda t: V('(negb %s)' % t[0], 'bool'))
  if isinstance(e, ast.BoolOp):
    return short_circuit(ctx, 'and' if isinstance(e.op, ast.And) else 'or', [tr_bool(ctx, v) for v in e.values])
  if isinstance(e, ast.Compare):
    return tr_compare(ctx, e)
  if isinstance(e, ast.Call):
    return tr_call(ctx, e)
  fail(e, 'expression')


def tr_attribute(ctx, e):
  # node.last_token.startpos / node.field / node.lineno / node.col_offset
  if isinstance(e.value, ast.Attribute) and is_node_name(e.value.value):
    key = e.value.attr + '.' + e.attr
    if key in ctx.fields:
      return V(*ctx.fields[key])
    fail(e, 'node field')
  if is_node_name(e.value):
    if e.attr in ctx.fields:
      return V(*ctx.fields[e.attr])
    if e.attr == 'lineno':
      return V('(fst p)', 'int')
    if e.attr == 'col_offset':
      return V('(snd p)', 'int')
    fail(e, 'class %s has no field %s in the model' % (ctx.cls, e.attr))
  # X.__class__.__name__
  if e.attr == '__name__' and isinstance(e.value, ast.Attribute) and e.value.attr == '__class__':
    x = tr(ctx, e.value.value)
    if x.ty not in OPCLS:
      fail(e, '__class__ of a value of type %s' % x.ty)
    return seq(ctx, [x], lambda t: V('(%s %s)' % (OPCLS[x.ty], t[0]), 'str'))
  x = tr(ctx, e.value)
  if x.ty == 'kw' and e.attr == 'arg':
    return V('(fst %s)' % x.term, 'ostr')
  if x.ty == 'kw' and e.attr == 'value':
    return V('(snd %s)' % x.term, 'node')
  if x.ty == 'node' and e.attr == 'value' and not x.m:
    return V('(node_valueM %s)' % x.term, 'fv', True)
  fail(e, 'attribute %s of a value of type %s' % (e.attr, x.ty))


def tr_comprehension(ctx, e):
  if len(e.generators) != 1 or e.generators[0].ifs or e.generators[0].is_async or \
     not isinstance(e.generators[0].target, ast.Name):
    fail(e, 'comprehension shape')
  it = tr(ctx, e.generators[0].iter)
  if it.ty not in ELEM or it.m:
    fail(e, 'comprehension over a value of type %s' % it.ty)
  name = e.generators[0].target.id
  saved = ctx.locals.get(name)
  ctx.locals[name] = (ctx.lvar(name), ELEM[it.ty])
  body = tr_elem(ctx, e.elt)
  if saved is None:
    del ctx.locals[name]
  else:
    ctx.locals[name] = saved
  var = ctx.lvar(name)
  if body.m:
    return V('(mapMM (fun %s => %s) %s)' % (var, body.term, it.term), 'lpv', True)
  return V('(map (fun %s => %s) %s)' % (var, body.term, it.term), 'lpv')


def tr_compare(ctx, e):
  if len(e.ops) != 1:
    fail(e, 'chained comparison')
  op, a, b = e.ops[0], e.left, e.comparators[0]
  if isinstance(op, (ast.Is, ast.IsNot)) and isinstance(b, ast.Constant) and b.value is None:
    x = tr(ctx, a)
    fn = {'ostr': 'ostr_is_none', 'const': 'const_is_none'}.get(x.ty)
    if fn is None:
      fail(e, 'is None on a value of type %s' % x.ty)
    pos = isinstance(op, ast.Is)
    return seq(ctx, [x], lambda t: V(('(%s %s)' if pos else '(negb (%s %s))') % (fn, t[0]), 'bool'))
  if isinstance(op, ast.In) and isinstance(b, ast.Name) and b.id in ctx.consts:
    x = tr(ctx, a)
    if x.ty != 'str':
      fail(e, 'dict membership of a value of type %s' % x.ty)
    return seq(ctx, [x], lambda t: V('(dict_mem %s %s)' % (t[0], b.id), 'bool'))
  if isinstance(op, (ast.In, ast.NotIn)) and isinstance(b, (ast.Tuple, ast.List)):
    lits = [literal_pyval(x) for x in b.elts]
    x = tr(ctx, a)
    if None in lits or inj(V('@', x.ty)) is None:
      fail(e, 'membership test')
    neg = isinstance(op, ast.NotIn)
    def build(t):
      body = '(' + ' || '.join('pyval_eqb %s %s' % (inj(V(t[0], x.ty)), l) for l in lits) + ')' if lits else 'false'
      return V('(negb %s)' % body if neg else body, 'bool')
    return seq(ctx, [x], build)
  x, y = tr(ctx, a), tr(ctx, b)
  if x.ty == y.ty == 'int' and type(op) in ZCMP:
    return seq(ctx, [x, y], lambda t: V(ZCMP[type(op)] % (t[0], t[1]), 'bool'))
  if isinstance(op, (ast.Eq, ast.NotEq)):
    lit = literal_pyval(b)
    if lit is not None and inj(V('@', x.ty)) is not None:
      neg = isinstance(op, ast.NotEq)
      return seq(ctx, [x], lambda t: V(('(negb (pyval_eqb %s %s))' if neg else '(pyval_eqb %s %s)')
                                     % (inj(V(t[0], x.ty)), lit), 'bool'))
  fail(e, 'comparison of %s and %s' % (x.ty, y.ty))


def tr_call(ctx, e):
  f = e.func
  if e.keywords:
    fail(e, 'keyword arguments')
  # self.visit(x) / self.generic_visit(node) / self.visit_Y(node) / super().visit_Y(node)
  is_self = isinstance(f, ast.Attribute) and isinstance(f.value, ast.Name) and f.value.id == 'self'
  is_super = isinstance(f, ast.Attribute) and isinstance(f.value, ast.Call) and \
      isinstance(f.value.func, ast.Name) and f.value.func.id == 'super' and not f.value.args
  if (is_self or is_super) and len(e.args) == 1:
    if is_self and f.attr == 'visit':
      x = tr(ctx, e.args[0])
      if x.ty != 'node':
        fail(e, 'visit of a value of type %s' % x.ty)
      return seq(ctx, [x], lambda t: V('(visit %s)' % t[0], 'pv', True))
    if not is_node_name(e.args[0]):
      fail(e, 'method call on something else than node')
    owner = ctx.unit.resolve(ctx.unit.bases[ctx.owner] if is_super else ctx.owner, f.attr)
    if owner is None:
      fail(e, 'no translated method %s' % f.attr)
    if f.attr == 'generic_visit':
      return V('(%s_generic_visit visit p)' % owner, 'pv', True)
    if f.attr.startswith('visit_') and f.attr[6:] in FIELDS:
      args = []
      for (pyf, _cv, ty) in FIELDS[f.attr[6:]]:
        if pyf not in ctx.fields or ctx.fields[pyf][1] != ty:
          fail(e, '%s needs field %s which class %s does not have' % (f.attr, pyf, ctx.cls))
        args.append(ctx.fields[pyf][0])
      return V('(%s_%s visit p %s)' % (owner, f.attr, ' '.join(args)), 'pv', True)
    fail(e, 'method')
  if isinstance(f, ast.Name) and f.id == 'isinstance' and len(e.args) == 2:
    x = tr(ctx, e.args[0])
    names = class_names(e.args[1])
    if x.ty == 'const':
      return seq(ctx, [x], lambda t: V('(const_isinstance %s %s)' % (t[0], str_list(names)), 'bool'))
    if x.ty in OPCLS:
      return seq(ctx, [x], lambda t: V('(existsb (str_eqb (%s %s)) %s)' % (OPCLS[x.ty], t[0], str_list(names)), 'bool'))
    fail(e, 'isinstance on a value of type %s' % x.ty)
  if isinstance(f, ast.Name) and f.id == 'len' and len(e.args) == 1:
    x = tr(ctx, e.args[0])
    if x.ty not in ELEM:
      fail(e, 'len of a value of type %s' % x.ty)
    return seq(ctx, [x], lambda t: V('(Z.of_nat (List.length %s))' % t[0], 'int'))
  if isinstance(f, ast.Name) and f.id in ('all', 'any') and len(e.args) == 1 and isinstance(e.args[0], ast.GeneratorExp):
    g = e.args[0]
    if len(g.generators) != 1 or g.generators[0].ifs or not isinstance(g.generators[0].target, ast.Name):
      fail(e, 'generator shape')
    it = tr(ctx, g.generators[0].iter)
    if it.ty not in ELEM or it.m:
      fail(e, 'generator over a value of type %s' % it.ty)
    name = g.generators[0].target.id
    saved = ctx.locals.get(name)
    ctx.locals[name] = (ctx.lvar(name), ELEM[it.ty])
    body = tr_bool(ctx, g.elt)
    if saved is None:
      del ctx.locals[name]
    else:
      ctx.locals[name] = saved
    if body.m:
      fail(e, 'generator body that may fail')
    return V('(%s (fun %s => %s) %s)' % ('forallb' if f.id == 'all' else 'existsb', ctx.lvar(name), body.term, it.term),
             'bool')
  if isinstance(f, ast.Attribute) and isinstance(f.value, ast.Name) and f.value.id == 'math' and f.attr == 'isfinite' \
     and len(e.args) == 1:
    x = tr(ctx, e.args[0])
    if x.ty != 'const':
      fail(e, 'isfinite of a value of type %s' % x.ty)
    return seq(ctx, [x], lambda t: V('(isfiniteM %s)' % t[0], 'bool', True))
  fail(e, 'call')


# ---------------------------------------------------------------------------------------------
# statements

def assigned(stmts):
  """Locals written by a block (x = e, x.append(e))."""
  out = []
  for s in stmts:
    if isinstance(s, ast.Assign) and len(s.targets) == 1 and isinstance(s.targets[0], ast.Name):
      out.append(s.targets[0].id)
    elif isinstance(s, ast.Expr) and isinstance(s.value, ast.Call) and isinstance(s.value.func, ast.Attribute) and \
        s.value.func.attr == 'append' and isinstance(s.value.func.value, ast.Name):
      out.append(s.value.func.value.id)
    elif isinstance(s, ast.If):
      out.extend(assigned(s.body) + assigned(s.orelse))
  return [x for i, x in enumerate(out) if x not in out[:i]]


def always_returns(stmts):
  if not stmts:
    return False
  s = stmts[-1]
  if isinstance(s, (ast.Return, ast.Raise)):
    return True
  if isinstance(s, ast.If):
    return always_returns(s.body) and always_returns(s.orelse)
  return False


def tr_block(ctx, stmts, tail):
  """Monadic term for the statements; `tail` = term to continue with when the block falls through (or None when
  falling through is an error: the method returns None)."""
  if not stmts:
    if tail is None:
      raise Untranslatable('a path through %s_%s does not return a value' % (ctx.owner, ctx.method))
    return tail
  s, rest = stmts[0], stmts[1:]
  if isinstance(s, ast.Expr) and isinstance(s.value, ast.Constant) and isinstance(s.value.value, str):
    return tr_block(ctx, rest, tail)                      # docstring
  if isinstance(s, ast.Return):
    if s.value is None:
      fail(s, 'return without a value')
    v = tr(ctx, s.value)
    if v.ty == 'fv' or inj(V('@', v.ty)) is None:
      fail(s, 'returning a value of type %s' % v.ty)
    if v.m and v.ty == 'pv' and not v.pre:
      return v.term
    return as_m(seq(ctx, [v], lambda t: V(inj(V(t[0], v.ty)), 'pv')))
  if isinstance(s, ast.Raise):
    return tr_raise(ctx, s)
  if isinstance(s, ast.Assign) and len(s.targets) == 1 and isinstance(s.targets[0], ast.Name):
    v = close(ctx, tr(ctx, s.value))
    name = s.targets[0].id
    if v.ty in ('none', 'fv'):
      fail(s, 'local of type %s' % v.ty)
    if name in ctx.locals and ctx.locals[name][1] != v.ty:
      fail(s, 'local %s changes its type' % name)
    ctx.locals[name] = (ctx.lvar(name), v.ty)
    k = tr_block(ctx, rest, tail)
    if not v.m:
      return '(let %s := %s in %s)' % (ctx.lvar(name), v.term, k)
    return '(bindM %s (fun %s => %s))' % (v.term, ctx.lvar(name), k)
  if isinstance(s, ast.Expr) and isinstance(s.value, ast.Call) and isinstance(s.value.func, ast.Attribute) and \
     s.value.func.attr == 'append' and len(s.value.args) == 1:
    tgt = s.value.func.value
    if isinstance(tgt, ast.Attribute) and isinstance(tgt.value, ast.Name) and tgt.value.id == 'self' and \
       tgt.attr == 'entities':
      ent = tr_entity(ctx, s.value.args[0])
      return '(bindM %s (fun _ => %s))' % (ent, tr_block(ctx, rest, tail))
    if isinstance(tgt, ast.Name) and tgt.id in ctx.locals and ctx.locals[tgt.id][1] == 'lpv':
      v = tr_list_of(ctx, [s.value.args[0]], s)
      var = ctx.lvar(tgt.id)
      new = seq(ctx, [v], lambda t: V('(%s ++ %s)' % (var, t[0]), 'lpv'))
      if not new.m:
        return '(let %s := %s in %s)' % (var, new.term, tr_block(ctx, rest, tail))
      return '(bindM %s (fun %s => %s))' % (new.term, var, tr_block(ctx, rest, tail))
    fail(s, 'append')
  if isinstance(s, ast.If):
    cond = tr_bool(ctx, s.test)
    if always_returns(s.body):
      then = tr_block(ctx, s.body, None)
      els = tr_block(ctx, list(s.orelse) + rest, tail)
      if not cond.m:
        return '(if %s then %s else %s)' % (cond.term, then, els)
      return '(bindM %s (fun c_ => if c_ then %s else %s))' % (cond.term, then, els)
    # a conditional update of locals / of the entities, then the rest
    ws = assigned([s])
    for w in ws:
      if w not in ctx.locals:
        fail(s, 'local %s is first assigned inside a conditional' % w)
    tup = 'tt' if not ws else ('(' + ', '.join(ctx.lvar(w) for w in ws) + ')' if len(ws) > 1 else ctx.lvar(ws[0]))
    pat = '_' if not ws else ("'" + tup if len(ws) > 1 else tup)
    join = '(retM %s)' % tup
    then = tr_block(ctx, s.body, join)
    els = tr_block(ctx, s.orelse, join)
    k = tr_block(ctx, rest, tail)
    sel = '(if %s then %s else %s)' % (cond.term, then, els) if not cond.m else \
        '(bindM %s (fun c_ => if c_ then %s else %s))' % (cond.term, then, els)
    return '(bindM %s (fun %s => %s))' % (sel, pat, k)
  fail(s, 'statement')


def tr_raise(ctx, s):
  e = s.exc
  if not (isinstance(e, ast.Call) and isinstance(e.func, ast.Name) and e.func.id == 'SyntaxError' and len(e.args) == 1):
    fail(s, 'raise')
  a = e.args[0]
  if isinstance(a, ast.Constant) and isinstance(a.value, str):
    return '(syntax_errorM %s [])' % coq_str(a.value)
  if isinstance(a, ast.BinOp) and isinstance(a.op, ast.Mod) and isinstance(a.left, ast.Constant) and \
     isinstance(a.left.value, str):
    elts = a.right.elts if isinstance(a.right, ast.Tuple) else [a.right]
    vals = [tr(ctx, x) for x in elts]
    if any(v.ty != 'int' for v in vals):
      fail(s, 'format arguments')
    return as_m(seq(ctx, vals, lambda t: V('(syntax_errorM %s [%s])' % (coq_str(a.left.value), '; '.join(t)), 'pv', True)))
  fail(s, 'raise')


def tr_entity(ctx, e):
  if not (isinstance(e, ast.Call) and isinstance(e.func, ast.Name) and e.func.id == 'NamedEntity' and
          len(e.args) == 4 and not e.keywords):
    fail(e, 'entity')
  ty, pos, name, extra = [tr(ctx, a) for a in e.args]
  if (ty.ty, pos.ty, name.ty) != ('str', 'int', 'str') or extra.ty not in ('none', 'pv', 'str'):
    fail(e, 'NamedEntity argument types')
  def build(t):
    ex = 'None' if extra.ty == 'none' else '(Some %s)' % inj(V(t[3], extra.ty))
    return V('(appendEntM (%s, %s, %s, %s))' % (t[0], t[1], t[2], ex), 'unit', True)
  return seq(ctx, [ty, pos, name, extra], build).term


# ---------------------------------------------------------------------------------------------
# units

SHORT = {'TreeConverter': 'TC', '_ACLEntityCollector': 'ACL', '_DCEntityCollector': 'DC', '_TriggerEntityCollector': 'Trigger'}
KIND = {'_ACLEntityCollector': 'ACL', '_DCEntityCollector': 'DC', '_TriggerEntityCollector': 'Trigger'}
IGNORED_METHODS = {'visit_Num', 'visit_Str'}       # for ast classes the running parser never produces (Python < 3.8)
EXPECT_EXPRESSION = "def visit_Expression(self, node):\n    return self.visit(node.body)"
EXPECT_INIT = "def __init__(self):\n    self.entities = []"


def fvar(name):
  return 'n_' + name


class Translator(object):
  def __init__(self):
    self.classes = {}      # class name -> {method name: FunctionDef}
    self.bases = {}        # class name -> base class name (translated) or None
    self.consts = {}       # module dict name -> (element type, coq literal)
    self.order = []

  def add_module(self, path, class_names, dict_names=()):
    with open(path) as f:
      mod = ast.parse(f.read())
    found = set()
    for s in mod.body:
      if isinstance(s, ast.ClassDef) and s.name in class_names:
        found.add(s.name)
        self.add_class(s)
      if isinstance(s, ast.Assign) and len(s.targets) == 1 and isinstance(s.targets[0], ast.Name) and \
         s.targets[0].id in dict_names:
        self.add_dict(s.targets[0].id, s.value)
        found.add(s.targets[0].id)
    missing = (set(class_names) | set(dict_names)) - found
    if missing:
      raise Untranslatable('%s: %s not found' % (path, sorted(missing)))

  def add_dict(self, name, node):
    if not isinstance(node, ast.Dict):
      fail(node, 'module constant')
    items = []
    for k, v in zip(node.keys, node.values):
      if not (isinstance(k, ast.Constant) and isinstance(k.value, str) and isinstance(v, ast.Constant) and
              (v.value is None or isinstance(v.value, bool))):
        fail(node, 'dict item')
      c = 'CNone' if v.value is None else '(CBool %s)' % ('true' if v.value else 'false')
      items.append('(lit %s, %s)' % (coq_str(k.value), c))
    self.consts[name] = ('const', '[' + '; '.join(items) + ']')

  def add_class(self, c):
    if len(c.bases) != 1:
      fail(c, 'bases')
    b = c.bases[0]
    base = b.id if isinstance(b, ast.Name) else (b.attr if isinstance(b, ast.Attribute) else None)
    self.bases[c.name] = base if base in SHORT else None
    methods = {}
    for s in c.body:
      if isinstance(s, ast.Expr) and isinstance(s.value, ast.Constant):
        continue                                            # docstring
      if isinstance(s, ast.Assign) and len(s.targets) == 1 and isinstance(s.targets[0], ast.Name) and \
         s.targets[0].id == 'visit_NameConstant' and isinstance(s.value, ast.Name) and s.value.id == 'visit_Constant':
        continue                                            # alias for Python < 3.8
      if not isinstance(s, ast.FunctionDef):
        fail(s, 'class member')
      if s.decorator_list or [a.arg for a in s.args.args] != (['self'] if s.name == '__init__' else ['self', 'node']) or \
         s.args.vararg or s.args.kwarg or s.args.kwonlyargs or s.args.defaults:
        fail(s, 'method signature')
      if s.name == 'visit_Expression':
        if ast.unparse(s) != EXPECT_EXPRESSION:
          fail(s, 'visit_Expression is pinned to `return self.visit(node.body)`')
        continue
      if s.name == '__init__':
        if ast.unparse(s) != EXPECT_INIT:
          fail(s, '__init__ is pinned to `self.entities = []`')
        continue
      if s.name in IGNORED_METHODS:
        continue
      if not (s.name == 'generic_visit' or (s.name.startswith('visit_') and s.name[6:] in FIELDS)):
        fail(s, 'method for a class the model has no constructor for')
      methods[s.name] = s
    self.classes[c.name] = methods
    self.order.append(c.name)

  def resolve(self, cls, method):
    while cls is not None:
      if method in self.classes.get(cls, {}):
        return SHORT[cls]
      cls = self.bases.get(cls)
    return None

  def method_def(self, cls, name, fn):
    node_cls = None if name == 'generic_visit' else name[6:]
    fields = {}
    params = []
    if node_cls:
      for pyf, cv, ty in FIELDS[node_cls]:
        fields[pyf] = (fvar(cv), ty)
        params.append('(%s : %s)' % (fvar(cv), COQTY[ty]))
    ctx = Ctx(self, node_cls, fields, {k: v[0] for k, v in self.consts.items()})
    ctx.owner, ctx.method = cls, name
    body = tr_block(ctx, fn.body, None)
    return 'Definition %s_%s (visit : expr -> M pyval) (p : pos) %s : M pyval :=\n  %s.\n' % (
      SHORT[cls], name, ' '.join(params), body)

  def generate(self):
    out = ['(* GENERATED by harness/pf2v.py from predicate_formula.py, acl.py, dropdown_condition.py,',
           '   trigger_expression.py -- do not edit. *)',
           'From Coq Require Import ZArith List Bool String.', 'Import ListNotations.',
           'Require Import Grist.Model.Predicate Grist.Model.PredicateRename Grist.Model.PredVisit.',
           'Open Scope Z_scope.', 'Open Scope list_scope.', '']
    for name, (ty, lit) in self.consts.items():
      out.append('Definition %s : list (str * %s) := %s.\n' % (name, COQTY[ty], lit))
    for cls in self.order:
      ms = self.classes[cls]
      names = sorted(ms, key=lambda n: (n != 'generic_visit', n not in ('visit_List', 'visit_Attribute'), ms[n].lineno))
      for n in names:
        out.append(self.method_def(cls, n, ms[n]))
    # ast.NodeVisitor.visit: visit_<ClassName> if there is one, else generic_visit
    kinds = [(None, 'TreeConverter')] + [(KIND[c], c) for c in self.order if c in KIND]
    out.append('Fixpoint gen_visit (k : option collector) (e : expr) : M pyval :=\n  match e with')
    for cls, ctor in CTOR.items():
      pats = ' '.join(fvar(cv) for _p, cv, _t in FIELDS[cls])
      def call(c):
        owner = self.resolve(c, 'visit_' + cls)
        if owner is None:
          return '%s_generic_visit (gen_visit k) p' % self.resolve(c, 'generic_visit')
        return '%s_visit_%s (gen_visit k) p %s' % (owner, cls, pats)
      calls = [(k, call(c)) for k, c in kinds]
      if len(set(t for _k, t in calls)) == 1:
        rhs = calls[0][1]
      else:
        rhs = 'match k with ' + ' | '.join('%s => %s' % ('None' if k is None else 'Some ' + k, t) for k, t in calls) + ' end'
      out.append('  | %s p %s => %s' % (ctor, pats, rhs))
    gv = [(k, '%s_generic_visit (gen_visit k) p' % self.resolve(c, 'generic_visit')) for k, c in kinds]
    if len(set(t for _k, t in gv)) != 1:
      raise Untranslatable('generic_visit differs between the collectors')
    out.append('  | EUnsupported p _ => %s\n  end.\n' % gv[0][1])
    return '\n'.join(out)


def translate(grist_dir):
  import os
  t = Translator()
  t.add_module(os.path.join(grist_dir, 'predicate_formula.py'), ['TreeConverter'], ['named_constants'])
  t.add_module(os.path.join(grist_dir, 'acl.py'), ['_ACLEntityCollector'])
  t.add_module(os.path.join(grist_dir, 'dropdown_condition.py'), ['_DCEntityCollector'])
  t.add_module(os.path.join(grist_dir, 'trigger_expression.py'), ['_TriggerEntityCollector'])
  return t.generate()
