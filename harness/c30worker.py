"""
C30 worker: replays explicit histories (lists of bundles of user-action reprs) in THIS process (started by the
check with its own PYTHONHASHSEED) and prints, per bundle, digests of the engine's reply and of the document.

stdin : JSON {"mode": "digest"|"full", "histories": [[bundle, ...], ...]}
stdout: JSON {"hashseed": ..., "results": [[entry per bundle], ...]}
entry : digest mode: [strict_digest, canonical_digest]; full mode: {"reply": get_repr() or error, "tables": snapshot}
        strict = JSON text as produced (dict insertion order kept); canonical = object keys sorted.
"""
import hashlib
import json
import os
import sys


def main():
  from harness import gristenv as G
  req = json.load(sys.stdin)
  mode = req.get('mode', 'digest')
  out = []
  for hist in req['histories']:
    e, _ = G.new_doc()
    res = []
    for bundle in hist:
      try:
        ag = G.apply(e, bundle)
        reply = ag.get_repr()
        reply = {k: reply[k] for k in ('stored', 'undo', 'direct', 'retValues', 'calc')}
      except Exception as ex:        # a failing bundle: the failure (type and text) is the reply
        reply = {'error': type(ex).__name__, 'message': str(ex)[:300]}
        G.clean(e)
      snap = G.snapshot(e)
      if mode == 'full':
        res.append({'reply': json.loads(json.dumps(reply, default=repr)), 'tables': snap})
      else:
        strict = json.dumps([reply, snap], default=repr)
        canon = json.dumps([reply, snap], default=repr, sort_keys=True)
        res.append([hashlib.sha1(strict.encode()).hexdigest()[:16], hashlib.sha1(canon.encode()).hexdigest()[:16],
                    len(reply.get('stored', ())) if 'error' not in reply else -1])
    out.append(res)
  json.dump({'hashseed': os.environ.get('PYTHONHASHSEED'), 'results': out}, sys.stdout)


if __name__ == '__main__':
  main()
