"""
imp2v -- fail-closed translator from a small imperative Python subset to monadic Gallina (Lib/PyImp.v), written for
C41 (engine.Engine.fetch_table) and C39 (column.rename_choices/_rename_cell_choice, the filter loop and the
only-records filter of useractions.RenameChoices).  The generated text is rewritten from /repo on every run; the
bridging lemmas in Proofs/*_bridge.v are re-checked against it, so a semantic edit of the source breaks a proof.

Supported (everything else raises Untranslatable):
  statements   x = e | (a, b) = e | d[k] = e | l.append(e) | if/elif/else | for T in e: ... [else: ...] with
               break/continue | try: <one statement> except <Name>: ... | nested def f(x): return e | return e | pass
  expressions  names, str/int/bool/None constants, tuples, [] {} literals (typed by the binding), not/and/or,
               == != in `not in` `is None` `is not None`, conditional expressions, list/generator/dict comprehensions
               with one generator, isinstance() with narrowing, attribute / method / function / subscript forms
               declared in the binding (typed primitives; `raises` primitives are sequenced with bind and are only
               accepted where Python evaluates them unconditionally).
Loop-carried variables are those assigned in the loop body and bound before the loop; names first bound inside a
loop (and the loop targets) are dropped after it.  `for k, v in d.items()` may assign d[k] (the current key only).
"""
import ast


class Untranslatable(Exception):
  pass


def fail(node, msg):
  raise Untranslatable('%s (line %s: %s)' % (msg, getattr(node, 'lineno', '?'), ast.dump(node)[:160]))


def ty_str(t):
  if isinstance(t, str):
    return t
  if t[0] == 'list':
    return '(list %s)' % ty_str(t[1])
  if t[0] == 'prod':
    return '(' + ' * '.join(ty_str(x) for x in t[1:]) + ')'
  if t[0] == 'dict':
    return '(list (%s * %s))' % (ty_str(t[1]), ty_str(t[2]))
  if t[0] == 'fun':
    return '(%s -> %s)' % (ty_str(t[1]), ty_str(t[2]))
  raise Untranslatable('type %r' % (t,))


def zl(s):
  return '[' + '; '.join('%d%%Z' % ord(c) for c in s) + ']'


def dotted(n):
  if isinstance(n, ast.Name):
    return n.id
  if isinstance(n, ast.Attribute):
    d = dotted(n.value)
    return d + '.' + n.attr if d else None
  return None


class Tr(object):
  def __init__(self, binding):
    self.b = binding
    self.n = 0
    self.binds = None          # list collecting (name, exc term) of raising primitives, or None = not allowed

  def fresh(self, base):
    self.n += 1
    return '%s_%d' % (base.strip('_') or 'v', self.n)

  # ------------------------------------------------------------------ expressions
  def raising(self, node, term, ty):
    if self.binds is None:
      fail(node, 'an expression that may raise is used where Python evaluates it conditionally')
    v = self.fresh('r')
    self.binds.append((v, term))
    return v, ty

  def coerce(self, node, term, ty, want):
    if want is None or ty == want:
      return term, ty
    c = self.b.get('coerce', {}).get((ty, want))
    if c is None:
      fail(node, 'type %s where %s is expected' % (ty_str(ty), ty_str(want)))
    return c.format(term), want

  def expr(self, n, env, want=None):
    term, ty = self.expr_(n, env, want)
    return self.coerce(n, term, ty, want)

  def pure(self, n, env, want=None):
    """an expression evaluated conditionally (or repeatedly): nothing in it may raise"""
    saved, self.binds = self.binds, None
    try:
      return self.expr(n, env, want)
    finally:
      self.binds = saved

  def apply_prim(self, node, prim, args, env, recv=None):
    tmpl, argtys, rty, raises = prim
    if len(args) != len(argtys):
      fail(node, 'arity')
    terms = ([recv] if recv is not None else []) + [self.expr(a, env, t)[0] for a, t in zip(args, argtys)]
    term = '(' + tmpl.format(*terms) + ')'
    return self.raising(node, term, rty) if raises else (term, rty)

  def expr_(self, n, env, want):
    b = self.b
    if isinstance(n, ast.Name):
      if n.id not in env:
        fail(n, 'unbound name %s' % n.id)
      return env[n.id]
    if isinstance(n, ast.Constant):
      v = n.value
      if isinstance(v, bool):
        return ('true' if v else 'false'), 'bool'
      if isinstance(v, int):
        return '(%d)%%Z' % v, 'Z'
      if isinstance(v, str):
        return zl(v), 'str'
      if v is None and want in b.get('none', {}):
        return b['none'][want], want
      fail(n, 'constant')
    if isinstance(n, ast.Tuple):
      parts = [self.expr(e, env, (want[1 + i] if isinstance(want, tuple) and want[0] == 'prod' else None))
               for i, e in enumerate(n.elts)]
      return '(' + ', '.join(p[0] for p in parts) + ')', ('prod',) + tuple(p[1] for p in parts)
    if isinstance(n, (ast.List, ast.Dict)) and not (n.elts if isinstance(n, ast.List) else n.keys):
      if want is None:
        fail(n, 'empty literal needs a declared type')
      return '[]', want
    if isinstance(n, ast.UnaryOp) and isinstance(n.op, ast.Not):
      return '(negb %s)' % self.truth(n.operand, env, strict=True), 'bool'
    if isinstance(n, ast.BoolOp):
      first = self.truth(n.values[0], env, strict=True)
      rest = [self.truth(v, e2, strict=False) for v, e2 in self.narrowed_chain(n, env)]
      op = ' && ' if isinstance(n.op, ast.And) else ' || '
      return '(' + op.join([first] + rest) + ')', 'bool'
    if isinstance(n, ast.Compare) and len(n.ops) == 1:
      return self.compare(n, env)
    if isinstance(n, ast.IfExp):
      c = self.truth(n.test, env, strict=True)
      a = self.pure(n.body, self.narrow(n.test, env, True), want)
      bb = self.pure(n.orelse, self.narrow(n.test, env, False), want)
      if a[1] != bb[1]:
        if (a[1], bb[1]) in self.b.get('coerce', {}):
          a = self.coerce(n, a[0], a[1], bb[1])
        else:
          bb = self.coerce(n, bb[0], bb[1], a[1])
      return '(if %s then %s else %s)' % (c, a[0], bb[0]), a[1]
    if isinstance(n, (ast.ListComp, ast.GeneratorExp)):
      return self.comprehension(n, env, n.elt, None)
    if isinstance(n, ast.DictComp):
      return self.comprehension(n, env, n.key, n.value)
    if isinstance(n, ast.Attribute):
      if isinstance(n.value, ast.Name) and n.value.id == 'self' and n.attr in b.get('self', {}):
        return b['self'][n.attr]
      rt, rty = self.expr(n.value, env)
      a = b.get('attrs', {}).get((rty, n.attr))
      if a is None:
        fail(n, 'attribute %s of %s' % (n.attr, ty_str(rty)))
      return '(' + a[0].format(rt) + ')', a[1]
    if isinstance(n, ast.Subscript):
      rt, rty = self.expr(n.value, env)
      it, ity = self.expr(n.slice, env)
      s = b.get('subscript', {}).get((rty, ity))
      if s is None:
        fail(n, 'subscript')
      return '(' + s[0].format(rt, it) + ')', s[1]
    if isinstance(n, ast.Call) and not n.keywords:
      return self.call(n, env, want)
    fail(n, 'expression')

  def call(self, n, env, want):
    b = self.b
    f = n.func
    if isinstance(f, ast.Name) and f.id in env and isinstance(env[f.id][1], tuple) and env[f.id][1][0] == 'fun':
      fty = env[f.id][1]
      a = self.expr(n.args[0], env, fty[1])[0]
      return '(%s %s)' % (env[f.id][0], a), fty[2]
    name = dotted(f)
    if name == 'isinstance' and len(n.args) == 2:
      return self.isinstance_(n, env)[0], 'bool'
    if name in ('tuple', 'any', 'list') and len(n.args) == 1 and ('call:' + name) in b.get('wrap', {}):
      inner = self.expr(n.args[0], env)
      w = b['wrap']['call:' + name].get(inner[1])
      if w is None:
        fail(n, '%s() of %s' % (name, ty_str(inner[1])))
      return '(' + w[0].format(inner[0]) + ')', w[1]
    if name in b.get('funcs', {}):
      return self.apply_prim(n, b['funcs'][name], n.args, env)
    if isinstance(f, ast.Attribute):
      if isinstance(f.value, ast.Name) and f.value.id == 'self' and ('self', f.attr) in b.get('methods', {}):
        return self.apply_prim(n, b['methods'][('self', f.attr)], n.args, env)
      rt, rty = self.expr(f.value, env)
      m = b.get('methods', {}).get((rty, f.attr, len(n.args))) or b.get('methods', {}).get((rty, f.attr))
      if m is None:
        fail(n, 'method %s of %s' % (f.attr, ty_str(rty)))
      return self.apply_prim(n, m, n.args, env, recv=rt)
    fail(n, 'call')

  # ------------------------------------------------------------------ booleans, narrowing, comparisons
  def truth(self, n, env, strict):
    term, ty = (self.expr(n, env) if strict else self.pure(n, env))
    if ty == 'bool':
      return term
    t = self.b.get('truth', {}).get(ty if isinstance(ty, str) else ty[0])
    if t is None:
      fail(n, 'truth value of %s' % ty_str(ty))
    return '(' + t.format(term) + ')'

  def isinstance_(self, n, env):
    """-> (bool term, python name or None, narrowed (term, type) or None)"""
    x, cls = n.args
    xt, xty = self.expr(x, env)
    c = dotted(cls)
    i = self.b.get('isinstance', {}).get((xty, c))
    if i is None:
      fail(n, 'isinstance(%s, %s)' % (ty_str(xty), c))
    nar = ('(' + i[1].format(xt) + ')', i[2]) if i[1] else None
    return '(' + i[0].format(xt) + ')', (x.id if isinstance(x, ast.Name) else None), nar

  def narrow(self, test, env, branch):
    """environment inside the branch of a test that is a (negated) isinstance() on a name"""
    if isinstance(test, ast.BoolOp) and isinstance(test.op, ast.And) and branch:
      for v in test.values:          # every conjunct holds in the branch
        env = self.narrow(v, env, True)
      return env
    if isinstance(test, ast.Call) and dotted(test.func) == 'isinstance' and branch:
      _t, name, nar = self.isinstance_(test, env)
      if name and nar:
        env = dict(env)
        env[name] = nar
    return env

  def narrowed_chain(self, n, env):
    cur = env
    prev = n.values[0]
    for v in n.values[1:]:
      if isinstance(n.op, ast.And):
        cur = self.narrow(prev, cur, True)
      yield v, cur
      prev = v

  def compare(self, n, env):
    op, l, r = n.ops[0], n.left, n.comparators[0]
    if isinstance(op, (ast.Is, ast.IsNot)) and isinstance(r, ast.Constant) and r.value is None:
      lt, lty = self.expr(l, env)
      t = self.b.get('is_none', {}).get(lty)
      if t is None:
        fail(n, 'is None on %s' % ty_str(lty))
      t = '(' + t.format(lt) + ')'
      return (t if isinstance(op, ast.Is) else '(negb %s)' % t), 'bool'
    if isinstance(op, (ast.Eq, ast.NotEq)):
      lt, lty = self.expr(l, env)
      rt, rty = self.expr(r, env)
      e = self.b.get('eq', {}).get((lty, rty))
      if e is None:
        fail(n, '== between %s and %s' % (ty_str(lty), ty_str(rty)))
      t = '(' + e.format(lt, rt) + ')'
      return (t if isinstance(op, ast.Eq) else '(negb %s)' % t), 'bool'
    if isinstance(op, (ast.In, ast.NotIn)):
      lt, lty = self.expr(l, env)
      rt, rty = self.expr(r, env)
      c = self.b.get('contains', {}).get((lty, rty))
      if c is None:
        fail(n, '`in` between %s and %s' % (ty_str(lty), ty_str(rty)))
      term = '(' + c[0].format(lt, rt) + ')'
      if c[1]:
        term, _ = self.raising(n, term, 'bool')
      return (term if isinstance(op, ast.In) else '(negb %s)' % term), 'bool'
    fail(n, 'comparison')

  # ------------------------------------------------------------------ comprehensions
  def pattern(self, target, ty, env):
    """binds the names of a for/comprehension target of type ty; returns (coq pattern, new env)"""
    env = dict(env)
    if isinstance(target, ast.Name):
      v = '_' if target.id == '_' else self.fresh(target.id)
      if target.id != '_':
        env[target.id] = (v, ty)
      return v, env
    if isinstance(target, ast.Tuple) and isinstance(ty, tuple) and ty[0] == 'prod' and len(ty) - 1 == len(target.elts):
      ps = []
      for e, t in zip(target.elts, ty[1:]):
        p, env = self.pattern(e, t, env)
        ps.append(p)
      return "'(" + ', '.join(ps) + ')', env
    fail(target, 'loop target does not match element type %s' % ty_str(ty))

  def iterable(self, n, env):
    """-> (term, element type, name of the dict iterated with .items() or None)"""
    dname = None
    if isinstance(n, ast.Call) and isinstance(n.func, ast.Attribute) and n.func.attr == 'items' and not n.args \
        and isinstance(n.func.value, ast.Name):
      dname = n.func.value.id
    term, ty = self.expr(n, env)
    if isinstance(ty, tuple) and ty[0] == 'list':
      return term, ty[1], dname
    if isinstance(ty, tuple) and ty[0] == 'dict':
      return term, ('prod', ty[1], ty[2]), dname
    it = self.b.get('iter', {}).get(ty)
    if it is None:
      fail(n, 'iteration over %s' % ty_str(ty))
    return '(' + it[0].format(term) + ')', it[1], dname

  def comprehension(self, n, env, elt, value):
    if len(n.generators) != 1 or n.generators[0].is_async:
      fail(n, 'comprehension with several generators')
    g = n.generators[0]
    it, ety, _d = self.iterable(g.iter, env)         # evaluated once, first: may raise
    conds = []
    for c in g.ifs:
      conds.extend(c.values if isinstance(c, ast.BoolOp) and isinstance(c.op, ast.And) else [c])
    # a leading isinstance(target, T) filter with a narrowing re-types the elements
    if conds and isinstance(g.target, ast.Name) and isinstance(conds[0], ast.Call) \
        and dotted(conds[0].func) == 'isinstance' and isinstance(conds[0].args[0], ast.Name) \
        and conds[0].args[0].id == g.target.id:
      key = (('list', ety), dotted(conds[0].args[1]))
      f = self.b.get('filter_isinstance', {}).get(key)
      if f is not None:
        it, ety = '(' + f[0].format(it) + ')', f[1]
        conds = conds[1:]
    pat, env2 = self.pattern(g.target, ety, env)
    if conds:
      cs = [self.truth(c, env2, strict=False) for c in conds]
      it = '(filter (fun %s => %s) %s)' % (pat, ' && '.join(cs), it)
    e1 = self.pure(elt, env2)
    if value is None:
      return '(map (fun %s => %s) %s)' % (pat, e1[0], it), ('list', e1[1])
    e2 = self.pure(value, env2)
    return '(map (fun %s => (%s, %s)) %s)' % (pat, e1[0], e2[0], it), ('dict', e1[1], e2[1])

  # ------------------------------------------------------------------ statements (continuation-passing)
  def wrap(self, binds, body):
    for v, t in reversed(binds):
      body = 'bind %s (fun %s =>\n%s)' % (t, v, body)
    return body

  def with_binds(self, f):
    """runs f() collecting raising primitives; returns (binds, result)"""
    saved, self.binds = self.binds, []
    try:
      r = f()
      return self.binds, r
    finally:
      self.binds = saved

  def assigned(self, stmts):
    out = set()
    for s in stmts:
      for n in ast.walk(s):
        if isinstance(n, ast.Assign):
          for t in n.targets:
            for m in ast.walk(t):
              if isinstance(m, ast.Name) and isinstance(m.ctx, ast.Store):
                out.add(m.id)
            if isinstance(t, ast.Subscript) and isinstance(t.value, ast.Name):
              out.add(t.value.id)
        elif isinstance(n, ast.Call) and isinstance(n.func, ast.Attribute) and n.func.attr == 'append' \
            and isinstance(n.func.value, ast.Name):
          out.add(n.func.value.id)
        elif isinstance(n, (ast.AugAssign, ast.AnnAssign, ast.NamedExpr, ast.Delete, ast.Global, ast.Nonlocal,
                            ast.With, ast.While, ast.Import, ast.ImportFrom, ast.Raise, ast.Assert, ast.Lambda,
                            ast.Yield, ast.YieldFrom, ast.Await, ast.ClassDef)):
          fail(n, 'statement form')
    return out

  def block(self, stmts, env, k, loop):
    """k(env) is the term for what follows the block; loop = (brk(env), cont(env)) inside a for body"""
    if not stmts:
      return k(env)
    s, rest = stmts[0], stmts[1:]
    nxt = lambda e: self.block(rest, e, k, loop)
    if isinstance(s, ast.Pass) or (isinstance(s, ast.Expr) and isinstance(s.value, ast.Constant)
                                   and isinstance(s.value.value, str)):
      return nxt(env)
    if isinstance(s, ast.Return):
      if loop is not None or s.value is None:
        fail(s, 'return inside a loop / without value')
      binds, (t, ty) = self.with_binds(lambda: self.expr(s.value, env, self.b.get('result')))
      self.result_type = ty
      return self.wrap(binds, 'Val %s' % t)
    if isinstance(s, ast.Break) and loop:
      return loop[0](env)
    if isinstance(s, ast.Continue) and loop:
      return loop[1](env)
    if isinstance(s, ast.Assign) and len(s.targets) == 1:
      return self.assign(s, s.targets[0], s.value, env, nxt)
    if isinstance(s, ast.Expr) and isinstance(s.value, ast.Call) and isinstance(s.value.func, ast.Attribute) \
        and s.value.func.attr == 'append' and isinstance(s.value.func.value, ast.Name) and len(s.value.args) == 1:
      name = s.value.func.value.id
      if name not in env or not (isinstance(env[name][1], tuple) and env[name][1][0] == 'list'):
        fail(s, 'append to something that is not a list variable')
      lt, lty = env[name]
      binds, (t, _ty) = self.with_binds(lambda: self.expr(s.value.args[0], env, lty[1]))
      return self.wrap(binds, self.let(name, '(%s ++ [%s])' % (lt, t), lty, env, nxt))
    if isinstance(s, ast.FunctionDef):
      return self.localdef(s, env, nxt)
    if isinstance(s, ast.If):
      binds, c = self.with_binds(lambda: self.truth(s.test, env, strict=True))
      nenv = self.narrow(s.test, env, True)
      a = self.block(s.body, nenv, nxt_env(nxt, env, nenv), loop)
      bb = self.block(s.orelse, env, nxt_env(nxt, env), loop)
      return self.wrap(binds, 'if %s then\n%s\nelse\n%s' % (c, a, bb))
    if isinstance(s, ast.For):
      return self.for_(s, env, nxt, loop)
    if isinstance(s, ast.Try):
      return self.try_(s, env, nxt, loop)
    fail(s, 'statement')

  def let(self, name, term, ty, env, nxt):
    v = self.fresh(name)
    env = dict(env)
    env[name] = (v, ty)
    return 'let %s : %s := %s in\n%s' % (v, ty_str(ty), term, nxt(env))

  def assign(self, s, target, value, env, nxt):
    if isinstance(target, ast.Name):
      want = env[target.id][1] if target.id in env else self.b.get('locals', {}).get(target.id)
      binds, (t, ty) = self.with_binds(lambda: self.expr(value, env, want))
      return self.wrap(binds, self.let(target.id, t, ty, env, nxt))
    if isinstance(target, ast.Tuple) and all(isinstance(e, ast.Name) for e in target.elts):
      binds, (t, ty) = self.with_binds(lambda: self.expr(value, env))
      if not (isinstance(ty, tuple) and ty[0] == 'prod' and len(ty) - 1 == len(target.elts)):
        fail(s, 'tuple assignment from %s' % ty_str(ty))
      env2 = dict(env)
      names = []
      for e, et in zip(target.elts, ty[1:]):
        v = self.fresh(e.id)
        env2[e.id] = (v, et)
        names.append(v)
      return self.wrap(binds, "let '(%s) := %s in\n%s" % (', '.join(names), t, nxt(env2)))
    if isinstance(target, ast.Subscript) and isinstance(target.value, ast.Name) and target.value.id in env:
      d = target.value.id
      dt, dty = env[d]
      if not (isinstance(dty, tuple) and dty[0] == 'dict'):
        fail(s, 'item assignment on %s' % ty_str(dty))
      ds = self.b.get('dictset', {}).get(dty[1])
      if ds is None:
        fail(s, 'item assignment with key type %s' % ty_str(dty[1]))
      guard = getattr(self, 'items_guard', {}).get(d)
      if guard is not None and not (isinstance(target.slice, ast.Name) and target.slice.id == guard):
        fail(s, 'assignment to another key of the dict being iterated')
      binds, (kt, vt) = self.with_binds(lambda: (self.expr(target.slice, env, dty[1])[0],
                                                 self.expr(value, env, dty[2])[0]))
      return self.wrap(binds, self.let(d, '(' + ds.format(dt, kt, vt) + ')', dty, env, nxt))
    fail(s, 'assignment target')

  def localdef(self, s, env, nxt):
    a = s.args
    if len(a.args) != 1 or a.vararg or a.kwarg or a.kwonlyargs or a.defaults or s.decorator_list \
        or len(s.body) != 1 or not isinstance(s.body[0], ast.Return):
      fail(s, 'nested def must be `def f(x): return e`')
    aty = self.b.get('localdefs', {}).get(s.name)
    if aty is None:
      fail(s, 'nested def without declared argument type')
    pat, env2 = self.pattern(ast.Name(id=a.args[0].arg, ctx=ast.Store()), aty, env)
    t, rty = self.pure(s.body[0].value, env2)
    v = self.fresh(s.name)
    env3 = dict(env)
    env3[s.name] = (v, ('fun', aty, rty))
    return 'let %s := (fun %s : %s => %s) in\n%s' % (v, pat, ty_str(aty), t, nxt(env3))


def nxt_env(nxt, env_before, narrowed=None):
  """continuation after an if: names first bound inside a branch are not visible afterwards, and a narrowing made
  for the branch ends with it"""
  def k(env_after):
    out = {}
    for n, v in env_after.items():
      if n in env_before:
        if narrowed is not None and v is narrowed.get(n) and v is not env_before[n]:
          v = env_before[n]
        out[n] = v
    return nxt(out)
  return k


def _for(self, s, env, nxt, loop):
  it_binds, (it, ety, dname) = self.with_binds(lambda: self.iterable(s.iter, env))
  assigned = self.assigned(s.body + s.orelse)
  carried = sorted(n for n in self.assigned(s.body) if n in env)
  pat, env_body = self.pattern(s.target, ety, env)
  st = self.fresh('st')
  names0 = [env[n][0] for n in carried]
  # inside the body the carried variables are re-bound from the state tuple
  env_in = dict(env_body)
  inner = []
  for n in carried:
    v = self.fresh(n)
    env_in[n] = (v, env[n][1])
    inner.append(v)
  tup = lambda e: ('(' + ', '.join(e[n][0] for n in carried) + ')') if carried else 'tt'
  state_pat = ("'(" + ', '.join(inner) + ')') if len(inner) > 1 else (inner[0] if inner else '_')
  saved = getattr(self, 'items_guard', {})
  if dname is not None and isinstance(s.target, ast.Tuple) and isinstance(s.target.elts[0], ast.Name):
    self.items_guard = dict(saved)
    self.items_guard[dname] = s.target.elts[0].id
  elif dname is not None and dname in assigned:
    fail(s, 'the dict being iterated is modified')
  body = self.block(s.body, env_in, lambda e: 'Val (Next, %s)' % tup(e),
                    (lambda e: 'Val (Brk, %s)' % tup(e), lambda e: 'Val (Next, %s)' % tup(e)))
  self.items_guard = saved
  # after the loop: carried variables come back from the result; loop-local names are gone
  res = self.fresh('res')
  env_after = dict(env)
  outs = []
  for n in carried:
    v = self.fresh(n)
    env_after[n] = (v, env[n][1])
    outs.append(v)
  out_pat = ("'(" + ', '.join(outs) + ')') if len(outs) > 1 else (outs[0] if outs else '_')
  brk = self.fresh('broke')
  if s.orelse:
    after = 'if %s then\n%s\nelse\n%s' % (brk, nxt(env_after), self.block(s.orelse, env_after, nxt_env(nxt, env_after), loop))
  else:
    after = nxt(env_after)
  init = ('(' + ', '.join(names0) + ')') if names0 else 'tt'
  term = "bind (py_for %s %s (fun %s %s =>\nlet %s := %s in\n%s)) (fun %s =>\nlet '(%s, %s) := %s in\n%s)" % (
    it, init, pat if not pat.startswith("'") else pat, st, state_pat, st, body, res, brk, out_pat.lstrip("'"), res, after)
  return self.wrap(it_binds, term)


def _try(self, s, env, nxt, loop):
  if len(s.handlers) != 1 or s.orelse or s.finalbody or len(s.body) != 1 or s.handlers[0].name \
      or not isinstance(s.handlers[0].type, ast.Name):
    fail(s, 'try form')
  cls = {'TypeError': 'CTypeError', 'KeyError': 'CKeyError', 'AttributeError': 'CAttributeError',
         'AssertionError': 'CAssertionError'}.get(s.handlers[0].type.id)
  if cls is None:
    fail(s, 'exception class')
  handler = self.block(s.handlers[0].body, env, nxt_env(nxt, env), loop)
  b0 = s.body[0]
  if isinstance(b0, ast.Assign) and len(b0.targets) == 1 and isinstance(b0.targets[0], ast.Name):
    name = b0.targets[0].id
    binds, (t, ty) = self.with_binds(lambda: self.expr(b0.value, env, env[name][1] if name in env else None))
    if len(binds) != 1:
      fail(s, 'the tried statement must contain exactly one expression that may raise')
    v, e = binds[0]
    ok = self.let(name, t, ty, env, nxt)
  elif isinstance(b0, ast.If) and not b0.orelse:
    binds, c = self.with_binds(lambda: self.truth(b0.test, env, strict=True))
    if len(binds) != 1:
      fail(s, 'the tried statement must contain exactly one expression that may raise')
    v, e = binds[0]
    saved, self.binds = self.binds, None        # nothing in the guarded body may raise
    try:
      a = self.block(b0.body, env, nxt_env(nxt, env), loop)
    finally:
      self.binds = saved
    ok = 'if %s then\n%s\nelse\n%s' % (c, a, nxt(env))
  else:
    fail(s, 'tried statement form')
  return 'py_try %s %s (fun %s =>\n%s)\n(%s)' % (e, cls, v, ok, handler)


Tr.for_ = _for
Tr.try_ = _try


def find_function(tree, qualname):
  parts = qualname.split('.')
  body = tree.body
  node = None
  for p in parts:
    found = [n for n in body if isinstance(n, (ast.FunctionDef, ast.ClassDef)) and n.name == p]
    if len(found) != 1:
      raise Untranslatable('%s: %d definitions of %s' % (qualname, len(found), p))
    node = found[0]
    body = node.body
  if not isinstance(node, ast.FunctionDef):
    raise Untranslatable('%s is not a function' % qualname)
  return node


def translate(source_path, qualname, binding, coq_name, select=None, result_expr=None):
  """Translates a whole function, or the statements chosen by select(body) -> list of statements, with
  `result_expr` (python source) appended as the returned value."""
  with open(source_path) as f:
    tree = ast.parse(f.read())
  fn = find_function(tree, qualname)
  stmts = list(fn.body)
  if select is not None:
    stmts = list(select(stmts))        # raises Untranslatable when the expected surroundings are not found
  if result_expr is not None:
    stmts = stmts + [ast.Return(value=ast.parse(result_expr, mode='eval').body)]
  tr = Tr(binding)
  env = {py: (cq, ty) for py, cq, ty in binding['params']}
  env.update(binding.get('env', {}))
  body = tr.block(stmts, env, lambda e: fail(fn, 'the block ends without return'), None)
  args = ' '.join('(%s : %s)' % (cq, ty_str(ty)) for _py, cq, ty in binding['params'])
  return 'Definition %s %s : exc %s :=\n%s.\n' % (coq_name, args, ty_str(tr.result_type), body)
