"""
C16: formulas as trees (the constructors of coq/theories/Model/Renames.v `expr`), their Python printer (mirrors the
Coq `pr_expr`; the correspondence check compares the two on every generated tree) and a level-aware random generator.

Tree forms (tuples):
  ('int', n) ('str', s) ('none',) ('rec',) ('var', x) ('dollar', c) ('col', e, c) ('id', e)
  ('lookup', one, t, [(k, e)...], [(desc, c)...]) ('all', t) ('comp', body, x, src, cond_or_None)
  ('pn', which, e, [c...], [(desc, c)...])      which: 0 PREVIOUS, 1 NEXT, 2 RANK
  ('p1', f, e)   f: 0 len, 1 sum, 2 list, 3 str, 4 bool
  ('p2', op, a, b)  op: 0 +, 1 ==, 2 <, 3 or
  ('if', c, a, b) ('group',)
"""
P1_NAMES = ['len', 'SUM', 'list', 'str', 'bool']
P2_NAMES = ['+', '==', '<', 'or']
PN_NAMES = ['PREVIOUS', 'NEXT', 'RANK']


def pr_ob(ob):
  items = ['"%s%s"' % ('-' if d else '', c) for d, c in ob]
  if len(items) == 1:
    return items[0]
  return '(' + ', '.join(items) + ')'


def pr(t):
  k = t[0]
  if k == 'int':
    return str(t[1]) if t[1] >= 0 else '(%d)' % t[1]
  if k == 'str':
    return '"%s"' % t[1]
  if k == 'none':
    return 'None'
  if k == 'rec':
    return 'rec'
  if k == 'var':
    return t[1]
  if k == 'dollar':
    return '$' + t[1]
  if k == 'col':
    return pr(t[1]) + '.' + t[2]
  if k == 'id':
    return pr(t[1]) + '.id'
  if k == 'lookup':
    args = ['%s=%s' % (kk, pr(e)) for kk, e in t[3]]
    if t[4]:
      args.append('order_by=' + pr_ob(t[4]))
    return '%s.%s(%s)' % (t[2], 'lookupOne' if t[1] else 'lookupRecords', ', '.join(args))
  if k == 'all':
    return t[1] + '.all'
  if k == 'comp':
    s = '[%s for %s in %s' % (pr(t[1]), t[2], pr(t[3]))
    if t[4] is not None:
      s += ' if ' + pr(t[4])
    return s + ']'
  if k == 'pn':
    args = [pr(t[2])]
    if t[3]:
      args.append('group_by=' + pr_ob([(False, c) for c in t[3]]))
    if t[4]:
      args.append('order_by=' + pr_ob(t[4]))
    return '%s(%s)' % (PN_NAMES[t[1]], ', '.join(args))
  if k == 'p1':
    return '%s(%s)' % (P1_NAMES[t[1]], pr(t[2]))
  if k == 'p2':
    return '(%s %s %s)' % (pr(t[2]), P2_NAMES[t[1]], pr(t[3]))
  if k == 'if':
    return '(%s if %s else %s)' % (pr(t[2]), pr(t[1]), pr(t[3]))
  if k == 'group':
    return 'table.getSummarySourceGroup(rec)'
  raise ValueError(t)


# ---- Coq terms ----------------------------------------------------------------------------------
def zl(s):
  return '[' + '; '.join('%d%%Z' % ord(c) for c in s) + ']'


def coq_ob(ob):
  return '[' + '; '.join('(%s, %s)' % ('true' if d else 'false', zl(c)) for d, c in ob) + ']'


def coq(t):
  k = t[0]
  if k == 'int':
    return '(EInt (%d)%%Z)' % t[1]
  if k == 'str':
    return '(EStr %s)' % zl(t[1])
  if k == 'none':
    return 'ENone'
  if k == 'rec':
    return 'ERec'
  if k == 'var':
    return '(EVar %s)' % zl(t[1])
  if k == 'dollar':
    return '(EDollar %s)' % zl(t[1])
  if k == 'col':
    return '(ECol %s %s)' % (coq(t[1]), zl(t[2]))
  if k == 'id':
    return '(EId %s)' % coq(t[1])
  if k == 'lookup':
    ks = 'KNil'
    for kk, e in reversed(t[3]):
      ks = '(KCons %s %s %s)' % (zl(kk), coq(e), ks)
    return '(ELookup %s %s %s %s)' % ('true' if t[1] else 'false', zl(t[2]), ks, coq_ob(t[4]))
  if k == 'all':
    return '(EAll %s)' % zl(t[1])
  if k == 'comp':
    if t[4] is None:
      return '(EComp %s %s %s)' % (coq(t[1]), zl(t[2]), coq(t[3]))
    return '(ECompIf %s %s %s %s)' % (coq(t[1]), zl(t[2]), coq(t[3]), coq(t[4]))
  if k == 'pn':
    return '(EPrevNext %d%%Z %s %s %s)' % (t[1], coq(t[2]), '[' + '; '.join(zl(c) for c in t[3]) + ']', coq_ob(t[4]))
  if k == 'p1':
    return '(EPrim1 %d%%Z %s)' % (t[1], coq(t[2]))
  if k == 'p2':
    return '(EPrim2 %d%%Z %s %s)' % (t[1], coq(t[2]), coq(t[3]))
  if k == 'if':
    return '(EIf %s %s %s)' % (coq(t[1]), coq(t[2]), coq(t[3]))
  if k == 'group':
    return 'EGroup'
  raise ValueError(t)


# ---- generator ----------------------------------------------------------------------------------
class TreeGen(object):
  """Random trees for a formula of table `self_tid`; only columns that `lower(tref)` returns are mentioned (keeps the
  program acyclic).  gaps=True also produces comprehensions over reference-list expressions (a form the real
  name discovery is known not to follow)."""
  VARS = ['r', 's', 'w']

  def __init__(self, rng, meta, lower, self_tid, gaps=False):
    self.r, self.meta, self.lower, self.self_tid, self.gaps = rng, meta, lower, self_tid, gaps
    self.tids = [t['tableId'] for t in meta.user_tables()] + [t['tableId'] for t in meta.user_tables(summary=True)]
    self.env = []       # [(var, tid)]
    # in a summary table: the source table, reachable as $group
    self.group_target = None
    st = meta.table_by_id.get(self_tid)
    if st is not None and st.get('summarySourceTable'):
      for c in meta.by_table[st['id']]:
        if c['colId'] == 'group' and c['type'].startswith('RefList:'):
          self.group_target = c['type'][8:]

  def cols(self, tid):
    t = self.meta.table_by_id.get(tid)
    return [c for c in self.lower(t['id']) if c['colId'] != 'group'] if t else []

  def refs_to(self, tid, kind):
    """[(source tid, colId)] of allowed columns of type kind:tid."""
    out = []
    for s in self.tids:
      for c in self.cols(s):
        if c['type'] == kind + ':' + tid:
          out.append((s, c['colId']))
    return out

  def attr(self, base_tid, base, col):
    if base == ('rec',) and self.r.random() < 0.6:
      return ('dollar', col)
    return ('col', base, col)

  # typed mode (the evaluation tie): lookup keys have the type of their column and `<` compares numbers with numbers
  # or texts with texts, so that the engine's key conversions and the corner cases of Python's rich comparison
  # (which the model does not cover) stay out of the way
  typed = False

  def int_expr(self, depth):
    r = self.r
    opts = [('int', r.choice([0, 1, 2, 3, 5])), ('id', ('rec',))]
    opts += [self.attr(self.self_tid, ('rec',), c['colId']) for c in self.cols(self.self_tid)
             if c['type'] == 'Int' and not c['isFormula']]
    opts += [('id', ('var', v)) for v, _t in self.env]
    if depth > 0:
      opts.append(('p1', 0, self.recs_expr(r.choice(self.tids), depth - 1)))
    return r.choice(opts)

  def text_expr(self, depth):
    r = self.r
    opts = [('str', r.choice(['a', 'b', '']))]
    opts += [self.attr(self.self_tid, ('rec',), c['colId']) for c in self.cols(self.self_tid)
             if c['type'] == 'Text' and not c['isFormula']] * 2
    return r.choice(opts)

  def typed_lt(self, depth):
    k = self.r.random()
    if k < 0.45:
      return ('p2', 2, self.int_expr(depth - 1), self.int_expr(depth - 1))
    if k < 0.85:
      return ('p2', 2, self.text_expr(depth - 1), self.text_expr(depth - 1))
    return ('p2', 2, self.int_expr(depth - 1), self.text_expr(depth - 1))     # TypeError

  def typed_keys(self, tid, depth):
    ks = []
    cs = [c for c in self.cols(tid) if not c['isFormula'] and c['type'].split(':')[0] in ('Int', 'Text', 'Ref')]
    for c in self.r.sample(cs, min(len(cs), self.r.choice([0, 1, 1, 1, 2]))):
      if c['type'] == 'Int':
        e = self.int_expr(depth - 1)
      elif c['type'] == 'Text':
        e = self.text_expr(depth - 1)
      else:
        e = self.rec_expr(c['type'][4:], depth - 1) or ('int', self.r.choice([0, 1, 2]))
      ks.append((c['colId'], e))
    return ks

  def keys(self, tid, depth):
    if self.typed:
      return self.typed_keys(tid, depth)
    cs = self.cols(tid)
    ks = []
    for c in self.r.sample(cs, min(len(cs), self.r.choice([0, 1, 1, 1, 2]))):
      if c['type'].startswith('Ref:') and self.r.random() < 0.5:
        e = self.rec_expr(c['type'][4:], depth - 1) or ('int', 1)
      else:
        e = self.scalar(depth - 1)
      ks.append((c['colId'], e))
    return ks

  def ob(self, tid, allow_empty=True):
    cs = self.cols(tid)
    if self.typed:      # sort keys of one kind per column (lists, mixed kinds: Python's rich comparison is not modelled)
      cs = [c for c in cs if not c['isFormula'] and c['type'].split(':')[0] in ('Int', 'Text', 'Ref')]
    n = self.r.choice([0, 1, 1, 2] if allow_empty else [1, 1, 2])
    return [(self.r.random() < 0.4, c['colId']) for c in self.r.sample(cs, min(len(cs), n))]

  def rec_expr(self, tid, depth):
    opts = []
    if tid == self.self_tid:
      opts += ['rec', 'rec']
    opts += [('var', v) for v, t in self.env if t == tid]
    if depth > 0 and tid in self.tids:
      opts += ['lookup']
      if self.refs_to(tid, 'Ref'):
        opts += ['chain', 'chain']
      opts += ['pn']
    if not opts:
      return None
    o = self.r.choice(opts)
    if o == 'rec':
      return ('rec',)
    if isinstance(o, tuple):
      return o
    if o == 'lookup':
      return ('lookup', True, tid, self.keys(tid, depth), self.ob(tid))
    if o == 'chain':
      s, c = self.r.choice(self.refs_to(tid, 'Ref'))
      base = self.rec_expr(s, depth - 1)
      return self.attr(s, base, c) if base is not None else None
    base = self.rec_expr(tid, depth - 1)
    if base is None:
      return None
    gcs = self.cols(tid)
    if self.typed:      # group_by is a lookup by the record's own values: hashable, column-typed keys only
      gcs = [c for c in gcs if not c['isFormula'] and c['type'].split(':')[0] in ('Int', 'Text', 'Ref')]
    gb = [c['colId'] for c in self.r.sample(gcs, min(len(gcs), self.r.choice([0, 0, 1])))]
    ob = self.ob(tid, allow_empty=False)
    return ('pn', self.r.choice([0, 1]), base, gb, ob) if ob else base

  def recs_expr(self, tid, depth):
    opts = ['lookup', 'all']
    if self.refs_to(tid, 'RefList'):
      opts += ['chain', 'chain']
    if self.refs_to(tid, 'Ref') and depth > 1:
      opts += ['setchain']
    if tid == self.group_target:
      opts += ['group', 'group', 'group']
    o = self.r.choice(opts)
    if o == 'group':
      return ('dollar', 'group')
    if o == 'lookup':
      return ('lookup', False, tid, self.keys(tid, depth), self.ob(tid))
    if o == 'all':
      return ('all', tid)
    if o == 'chain':
      s, c = self.r.choice(self.refs_to(tid, 'RefList'))
      base = self.rec_expr(s, depth - 1)
      return self.attr(s, base, c) if base is not None else ('all', tid)
    s, c = self.r.choice(self.refs_to(tid, 'Ref'))
    return ('col', self.recs_expr(s, depth - 1), c)

  def scalar(self, depth):
    r = self.r
    if depth <= 0:
      cs = self.cols(self.self_tid)
      if cs and r.random() < 0.7:
        return self.attr(self.self_tid, ('rec',), r.choice(cs)['colId'])
      return r.choice([('int', r.choice([0, 1, 2, -1])), ('str', r.choice(['a', 'b', ''])), ('id', ('rec',))])
    tid = r.choice(self.tids)
    o = r.choice(['col', 'col', 'col', 'id', 'len', 'sumcomp', 'comp', 'listcol', 'p2', 'if', 'rank', 'self', 'self'])
    if o == 'self':
      return self.scalar(0)
    if o in ('col', 'id'):
      base = self.rec_expr(tid, depth)
      if base is None:
        return self.scalar(0)
      cs = self.cols(tid)
      if o == 'id' or not cs:
        return ('id', base)
      return self.attr(tid, base, r.choice(cs)['colId'])
    if o == 'len':
      return ('p1', 0, self.recs_expr(tid, depth))
    if o in ('sumcomp', 'comp'):
      src = self.recs_expr(tid, depth - 1)
      if not self.gaps and src[0] not in ('lookup', 'all'):
        src = r.choice([('all', tid), ('lookup', False, tid, self.keys(tid, depth - 1), self.ob(tid))])
      v = [x for x in self.VARS if x not in [e[0] for e in self.env]]
      if not v:
        return self.scalar(0)
      self.env.append((v[0], tid))
      cs = self.cols(tid)
      body = ('col', ('var', v[0]), r.choice(cs)['colId']) if cs and r.random() < 0.8 else ('id', ('var', v[0]))
      if r.random() < 0.3:
        body = ('p2', 0, body, self.scalar(depth - 2))
      cond = None
      if self.typed:
        ic = [c for c in cs if c['type'] == 'Int' and not c['isFormula']]
        if r.random() >= 0.4:
          pass
        elif ic and r.random() < 0.5:
          cond = ('p2', 2, ('col', ('var', v[0]), r.choice(ic)['colId']), self.int_expr(depth - 2))
        else:
          cond = ('p2', 1, self.attr(tid, ('var', v[0]), r.choice(cs)['colId']) if cs else ('int', 1),
                  self.scalar(depth - 2))
      elif r.random() < 0.4:
        cond = ('p2', r.choice([1, 2]), self.attr(tid, ('var', v[0]), r.choice(cs)['colId']) if cs else ('int', 1),
                self.scalar(depth - 2))
      self.env.pop()
      comp = ('comp', body, v[0], src, cond)
      return ('p1', 1, comp) if o == 'sumcomp' else comp
    if o == 'listcol':
      cs = self.cols(tid)
      if not cs:
        return self.scalar(0)
      return ('p1', 2, ('col', self.recs_expr(tid, depth - 1), r.choice(cs)['colId']))
    if o == 'p2':
      op = r.choice([0, 1, 2, 3])
      if op == 2 and self.typed:
        return self.typed_lt(depth)
      return ('p2', op, self.scalar(depth - 1), self.scalar(depth - 1))
    if o == 'if':
      return ('if', self.scalar(depth - 1), self.scalar(depth - 1), self.scalar(depth - 1))
    base = self.rec_expr(tid, depth - 1)
    ob = self.ob(tid, allow_empty=False)
    if base is None or not ob:
      return self.scalar(0)
    return ('pn', 2, base, [], ob)
