#!/bin/sh
# Independent re-check of every property file (and everything it depends on) with coqchk; prints the axioms used.
# usage: ./coqchk_all.sh   (after ./setup.sh)   -- takes several minutes and a few GB
cd "$(dirname "$0")/coq" || exit 2
MODS=$(ls theories/Props/*.vo | sed 's#theories/Props/\(.*\)\.vo#Grist.Props.\1#')
timeout 7200 coqchk -silent -o -Q theories Grist -Q gen GristGen $MODS
