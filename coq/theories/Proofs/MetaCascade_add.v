(* K6 proofs, part 8: adding records.  A state extended by new records keeps the invariant when the new
   records are themselves well-formed in the extended state; ids given by next_id are fresh. *)
From Coq Require Import ZArith List Bool Lia.
Import ListNotations.
Require Import Grist.Model.MetaCascade Grist.Proofs.MetaCascade_base Grist.Proofs.MetaCascade_inv.
Open Scope Z_scope.

Lemma IdList_app : forall l new, IdList l -> NoDup new -> (forall x, In x new -> next_id l <= x) -> IdList (l ++ new).
Proof.
  intros l new [H1 H2] Hn Hge. split.
  - apply NoDup_app_intro; try assumption. intros x Hx Hx2. apply next_id_gt in Hx. specialize (Hge x Hx2). lia.
  - apply Forall_app. split; [exact H2|]. apply Forall_forall. intros x Hx. specialize (Hge x Hx).
    pose proof (next_id_pos l). lia.
Qed.

Lemma IdList_snoc : forall l, IdList l -> IdList (l ++ [next_id l]).
Proof.
  intros l H. apply IdList_app; [exact H | constructor; [intros [] | constructor] |].
  intros x [Hx|[]]. subst. lia.
Qed.

Lemma IdList_zseq : forall l n, IdList l -> IdList (l ++ zseq (next_id l) n).
Proof.
  intros l n H. apply IdList_app; [exact H | apply zseq_NoDup |]. intros x Hx. apply zseq_In in Hx. lia.
Qed.

Lemma combine_fst : forall {A B} (a : list A) (b : list B), length a = length b -> map fst (combine a b) = a.
Proof.
  intros A B. induction a as [|x t IH]; intros [|y u] H; simpl in *; try discriminate; [reflexivity|].
  rewrite IH; [reflexivity | lia].
Qed.

Lemma combine_snd : forall {A B} (a : list A) (b : list B), length a = length b -> map snd (combine a b) = b.
Proof.
  intros A B. induction a as [|x t IH]; intros [|y u] H; simpl in *; try discriminate; [reflexivity|].
  rewrite IH; [reflexivity | lia].
Qed.

(* ---------------------------------------------------------------------------------------------- *)
(* monotonicity of the per-record conditions *)

Lemma cids_incl : forall m m', incl (m_columns m) (m_columns m') -> incl (cids m) (cids m').
Proof. intros. unfold cids. apply incl_map. assumption. Qed.
Lemma tids_incl : forall m m', incl (m_tables m) (m_tables m') -> incl (tids m) (tids m').
Proof. intros. unfold tids. apply incl_map. assumption. Qed.

Lemma ColOk_mono : forall m m' c, incl (tids m) (tids m') -> incl (cids m) (cids m') -> ColOk m c -> ColOk m' c.
Proof.
  intros m m' c Ht Hc [J1 [J2 [J3 [J4 J5]]]]. unfold ColOk.
  split; [apply Ht; exact J1|]. repeat split; try (eapply Optref_mono; eassumption).
  intros x Hx. apply Hc. apply J5. exact Hx.
Qed.

Lemma ColOfSection_mono : forall m m' s c,
  incl (m_sections m) (m_sections m') -> incl (m_columns m) (m_columns m') -> ColOfSection m s c -> ColOfSection m' s c.
Proof.
  intros m m' s c Hs Hc [sr [cr [A [B [C [D E]]]]]]. exists sr, cr.
  split; [apply Hs; exact A|]. split; [exact B|]. split; [apply Hc; exact C | tauto].
Qed.

Lemma FieldOk_mono : forall m m' f,
  incl (m_sections m) (m_sections m') -> incl (m_columns m) (m_columns m') -> FieldOk m f -> FieldOk m' f.
Proof.
  intros m m' f Hs Hc [J1 [J2 [J3 J4]]]. pose proof (cids_incl m m' Hc) as Hi. unfold FieldOk.
  split; [eapply ColOfSection_mono; eassumption|].
  split; [eapply Optref_mono; eassumption|]. split; [eapply Optref_mono; eassumption|].
  intros x Hx. apply Hi. apply J4. exact Hx.
Qed.

Lemma SecOk_mono : forall m m' s,
  incl (tids m) (tids m') -> incl (m_views m) (m_views m') -> incl (cids m) (cids m') -> SecOk m s -> SecOk m' s.
Proof.
  intros m m' s Ht Hv Hc [J1 [J2 J3]]. unfold SecOk. split; [apply Ht; exact J1|].
  split; [eapply Optref_mono; eassumption|]. intros x Hx. apply Hc. apply J3. exact Hx.
Qed.

Lemma SecOfTable_mono : forall m m' sid t, incl (m_sections m) (m_sections m') -> SecOfTable m sid t -> SecOfTable m' sid t.
Proof. intros m m' sid t Hs [s [A B]]. exists s. split; [apply Hs; exact A | exact B]. Qed.

Lemma TableOk_mono : forall m m' t,
  incl (m_sections m) (m_sections m') -> incl (m_views m) (m_views m') -> incl (tids m) (tids m') ->
  TableOk m t -> TableOk m' t.
Proof.
  intros m m' t Hs Hv Ht [J1 [J2 [J3 J4]]]. unfold TableOk.
  split; [eapply SecOfTable_mono; eassumption|].
  split; [destruct J2 as [J2|J2]; [left; exact J2 | right; eapply SecOfTable_mono; eassumption]|].
  split; eapply Optref_mono; eassumption.
Qed.

(* ---------------------------------------------------------------------------------------------- *)
(* the extension lemma *)

Definition extend (m : meta) nt nc nv ns nf nb np nn : meta :=
  mkM (m_tables m ++ nt) (m_columns m ++ nc) (m_views m ++ nv) (m_sections m ++ ns) (m_fields m ++ nf)
      (m_tabbar m ++ nb) (m_pages m ++ np) (m_schema m ++ nn).

Lemma inv_extend : forall X m nt nc nv ns nf nb np nn,
  InvX X m ->
  let m' := extend m nt nc nv ns nf nb np nn in
  IdsOk m' -> NamesOk m' ->
  (forall c, In c nc -> ColOk m' c) -> (forall f, In f nf -> FieldOk m' f) ->
  (forall s, In s ns -> SecOk m' s) -> (forall t, In t nt -> ~ In (t_id t) X -> TableOk m' t) ->
  (forall b, In b nb -> In (snd b) (m_views m')) -> (forall b, In b np -> In (snd b) (m_views m')) ->
  InvX X m'.
Proof.
  intros X m nt nc nv ns nf nb np nn [I1 I2 I3 I4 I5 I6 I7 I8] m' Hids Hnames HC HF HS HT HB HP.
  assert (Et : incl (m_tables m) (m_tables m')) by (apply incl_appl, incl_refl).
  assert (Ec : incl (m_columns m) (m_columns m')) by (apply incl_appl, incl_refl).
  assert (Ev : incl (m_views m) (m_views m')) by (apply incl_appl, incl_refl).
  assert (Es : incl (m_sections m) (m_sections m')) by (apply incl_appl, incl_refl).
  pose proof (tids_incl m m' Et) as Eti. pose proof (cids_incl m m' Ec) as Eci.
  constructor; try assumption.
  - intros c Hc. apply in_app_iff in Hc. destruct Hc as [Hc|Hc]; [|apply HC; exact Hc].
    apply (ColOk_mono m m'); try assumption. apply I2. exact Hc.
  - intros f Hf. apply in_app_iff in Hf. destruct Hf as [Hf|Hf]; [|apply HF; exact Hf].
    apply (FieldOk_mono m m'); try assumption. apply I3. exact Hf.
  - intros s Hs. apply in_app_iff in Hs. destruct Hs as [Hs|Hs]; [|apply HS; exact Hs].
    apply (SecOk_mono m m'); try assumption. apply I4. exact Hs.
  - intros t Ht Hx. apply in_app_iff in Ht. destruct Ht as [Ht|Ht]; [|apply HT; assumption].
    apply (TableOk_mono m m'); try assumption. apply I5; assumption.
  - intros b Hb. apply in_app_iff in Hb. destruct Hb as [Hb|Hb]; [|apply HB; exact Hb]. apply Ev. apply I6. exact Hb.
  - intros b Hb. apply in_app_iff in Hb. destruct Hb as [Hb|Hb]; [|apply HP; exact Hb]. apply Ev. apply I7. exact Hb.
Qed.
