(* K1, stage 3: doc actions BETWEEN the calc deltas and the flush.  The bundle is: any lossless doc actions, then an
   arbitrary interleaving of calc deltas with doc actions of the kinds handled here (increment by increment).
   A ghost document g follows the doc actions only ("what the document would be had no formula been recalculated");
   calc_rel ties the real document to it through the deltas of the summary. *)
From Coq Require Import ZArith List Bool Lia.
Import ListNotations.
Require Import Grist.Model.ActionLog Grist.Proofs.ActionLog_proofs Grist.Proofs.ActionLog_calc Grist.Proofs.ActionLog_cells Grist.Proofs.ActionLog_frame
  Grist.Proofs.ActionLog_flush2.
Open Scope Z_scope.

Ltac name_cases a b :=
  let E := fresh "E" in
  destruct (name_eqb a b) eqn:E;
  [apply name_eqb_eq in E | pose proof (proj1 (name_eqb_neq _ _) E)].

Section Stage3.
Variable O : ValOps.
Hypothesis L : ValLaws O.
Notation V := (V O).
Notation state := (state O).
Notation table := (table O).
Notation column := (column O).
Notation action := (action O).
Notation summary := (summary O).

(* redo, semantically: the stored list so far, replayed on any document equivalent to the start, reaches the ghost *)
Definition redo_ok (s0 g : state) (S : list action) : Prop :=
  forall s1, seq O s1 s0 -> exists s2, replay_doc O S s1 = Ok s2 /\ seq O s2 g.

Definition dget (sm : summary) (t c : name) (r : Z) : option (V * V) := delta_get O (delta_of O sm t c) r.

Lemma dget_nil : forall sm t c r, delta_of O sm t c = [] -> dget sm t c r = None.
Proof. intros sm t c r H. unfold dget. rewrite H. reflexivity. Qed.


(* every delta of the summary sits under a key that is gone (the column or the table was removed: defunct name) or
   live (the table and the column exist); in the latter case its row exists or was removed in the bundle.  The restores
   of the cells that are gone will be inserted at the front of the undo list *)
Definition dlive (sm : summary) (s : state) : Prop :=
  forall t c r, dget sm t c r <> None ->
  is_defunct t = true \/ is_defunct c = true \/
  exists T C, find_table O s t = Some T /\ find_col O (t_cols O T) c = Some C /\
              (In r (t_rows O T) \/ row_after O sm t r = Some false).

(* undo, with exception sets: from any document that agrees with the ghost outside the cells created in the bundle
   and outside E, the undo list so far leads to a document that agrees with the start outside what E becomes along
   the way (renames) and outside the cells D, which are left to the restores that the flush inserts at the FRONT of the
   undo list *)
Definition cell := (name * name * Z)%type.
Definition inD (D : list cell) : cellset := fun t c r => In (t, c, r) D.

Definition tr_okE (s0 g : state) (U : list action) (sm : summary) (D : list cell) : Prop :=
  forall (E : cellset) s1,
    seq_ex O (fun t c r => created O sm t c r \/ E t c r) s1 g ->
    exists s2, replay_doc O (rev U) s1 = Ok s2 /\
               seq_ex O (fun t c r => img_list O (rev U) E t c r \/ inD D t c r) s2 s0.

Lemma tr_okE_init : forall s0, tr_okE s0 s0 [] (sum_empty O) [].
Proof.
  intros s0 E s1 H. exists s1. split; [reflexivity|]. eapply (seq_ex_weaken O); [|exact H].
  intros t c r [Hc|He]; [exfalso; exact (created_empty O _ _ _ Hc) | left; exact He].
Qed.

(* one step of the undo list.  gh: what the new undo actions make of the new ghost; N: the cells they leave different
   from the old ghost (cells with a pending delta that the step removed: the undo actions put back the recalculated
   values, the ghost holds the values before the recalculation) *)
Lemma tr_okE_step : forall s0 g g' U u sm sm' D (N : cellset) DN,
  tr_okE s0 g U sm D ->
  (exists gh, replay_doc O (rev u) g' = Ok gh /\ seq_ex O (fun t c r => created O sm t c r \/ N t c r) gh g) ->
  (forall t c r, existing O g t c r -> img_list O (rev u) (created O sm') t c r -> created O sm t c r \/ N t c r) ->
  (forall t c r, img_list O (rev U) N t c r -> inD DN t c r) ->
  tr_okE s0 g' (U ++ u) sm' (D ++ DN).
Proof.
  intros s0 g g' U u sm sm' D N DN Htr [gh [Hgh Hghg]] Hsig HDN E s1 Hs1.
  destruct (replay_doc_cong O L _ _ _ _ _ (seq_ex_sym O L _ _ _ Hs1) Hgh) as [sx [Hrepx Hsx]].
  pose proof (seq_ex_trans O L _ _ _ _ _ (seq_ex_sym O L _ _ _ Hsx) Hghg) as Hxg.
  assert (Hxg' : seq_ex O (fun t c r => created O sm t c r \/ (img_list O (rev u) E t c r \/ N t c r)) sx g).
  { eapply (seq_ex_restrict O); [exact Hxg|]. intros t c r Hex [Hi|[Hc|Hn]]; [|left; exact Hc | right; right; exact Hn].
    apply (img_list_or O) in Hi. destruct Hi as [Hi|Hi]; [|right; left; exact Hi].
    destruct (Hsig t c r) as [Hc|Hn]; [eapply (existing_seq O); [exact Hxg | exact Hex] | exact Hi | left; exact Hc | right; right; exact Hn]. }
  destruct (Htr _ sx Hxg') as [s2 [Hrep2 Hs2]]. exists s2. split.
  - rewrite rev_app_distr, (replay_doc_app O), Hrepx. exact Hrep2.
  - eapply (seq_ex_weaken O); [|exact Hs2]. intros t c r [Hi|Hd].
    + apply (img_list_or O) in Hi. destruct Hi as [Hi|Hi].
      * left. rewrite rev_app_distr, (img_list_app O). exact Hi.
      * right. unfold inD. apply in_or_app. right. apply HDN. exact Hi.
    + right. unfold inD. apply in_or_app. left. exact Hd.
Qed.

(* a lossless doc action taken by the ghost itself *)
Lemma tr_stepE : forall a s0 g g' U u ops sm D,
  tr_okE s0 g U sm D -> wf_state O g -> struct_ok O g sm ->
  apply_doc O a g = Ok (g', (u, ops)) -> (forall t c r, ~ lossy O a g t c r) -> act_names_ok O a ->
  tr_okE s0 g' (U ++ u) (fold_left (sum_apply O) ops sm) D.
Proof.
  intros a s0 g g' U u ops sm D Htr Hwf [Hnames [Hkeys _]] Ha Hloss Hact.
  rewrite <- (app_nil_r D).
  eapply (tr_okE_step s0 g g' U u sm _ D no_cells []); [exact Htr| | |].
  - destruct (undo_inverse O L a g Hwf g' u ops Ha) as [gh [Hrep Hseq]]. exists gh. split; [exact Hrep|].
    eapply (seq_ex_restrict O); [exact Hseq|]. intros t c r _ Hl. exfalso. exact (Hloss _ _ _ Hl).
  - intros t c r Hex Hi. left. eapply (sig_step O); eassumption.
  - intros t c r Hi. exfalso. eapply (img_list_empty O); [|exact Hi]. intros ? ? ? [].
Qed.

Lemma tr_okE_marks : forall s0 g U sm sm' D,
  (forall t c r, created O sm' t c r -> created O sm t c r) -> tr_okE s0 g U sm D -> tr_okE s0 g U sm' D.
Proof.
  intros s0 g U sm sm' D H Htr E s1 Hs1. apply Htr. eapply (seq_ex_weaken O); [|exact Hs1].
  intros t c r [Hc|He]; [left; apply H; exact Hc | right; exact He].
Qed.

(* the invariant of the mixed phase *)
Record gi (s0 g : state) (D : list cell) (m : mstate O) : Prop := mkGI {
  gi_tr : tr_okE s0 g (m_undo O m) (m_sum O m) D;
  gi_wfg : wf_state O g;
  gi_wfs : wf_state O (m_doc O m);
  gi_struct : struct_ok O g (m_sum O m);
  gi_rel : calc_rel O g (m_sum O m) (m_doc O m);
  gi_live : dlive (m_sum O m) (m_doc O m);
  gi_redo : redo_ok s0 g (m_stored O m) }.

Section Steps.
Variable D : list cell.

Lemma redo_snoc : forall s0 g S a g' o,
  redo_ok s0 g S -> apply_doc O a g = Ok (g', o) -> redo_ok s0 g' (S ++ [a]).
Proof.
  intros s0 g S a g' o H Ha s1 Hs1. destruct (H s1 Hs1) as [s2 [Hr Hs2]].
  rewrite (replay_doc_app O), Hr.
  assert (Hg : replay_doc O [a] g = Ok g') by (cbn; rewrite Ha; reflexivity).
  destruct (replay_doc_cong_seq O L [a] g s2 g' (seq_ex_sym O L _ _ _ Hs2) Hg) as [s2' [H2 Hs2']].
  exists s2'. split; [exact H2|]. exact (seq_ex_sym O L _ _ _ Hs2').
Qed.

Lemma alive_calc_rel : forall g sm s t, calc_rel O g sm s -> find_table O s t <> None -> find_table O g t <> None.
Proof.
  intros g sm s t H Hs. specialize (H t). destruct (find_table O s t); [|congruence].
  destruct (find_table O g t); [discriminate | contradiction].
Qed.

(* a calc delta in the mixed phase *)
Lemma calc_rel_step : forall g (sm : summary) s t c chs s1 T C,
  calc_rel O g sm s -> find_table O s t = Some T -> find_col O (t_cols O T) c = Some C ->
  calc_ok O C (delta_of O sm t c) (t_rows O T) chs -> calc_cells O s t c chs = Ok s1 ->
  calc_rel O g (sum_apply O sm (SAddChanges O t c chs)) s1.
Proof.
  intros g sm s t c chs s1 T C Hrel Ef Ec Hok H. unfold calc_cells in H. rewrite Ef, Ec in H. inversion H; subst s1; clear H.
  pose proof (add_changes_spec O sm t c chs) as [_ [_ [_ [_ Hd]]]]. cbv zeta in Hd.
  pose proof (find_table_id O _ _ _ Ef) as HidT. pose proof (find_col_id O _ _ _ Ec) as HidC.
  set (C' := fold_left (fun C ch => col_set O C (fst ch) (snd (snd ch))) chs C) in *.
  assert (HidC' : c_id O C' = c) by (unfold C'; rewrite (fold_col_set_id O); exact HidC).
  intro t0. rewrite (find_put_table O) by exact HidT. specialize (Hrel t0). name_cases t0 t.
  - subst t0. rewrite Ef in *. destruct (find_table O g t) as [Td|]; [|contradiction].
    destruct Hrel as [Hrows Hcols]. split; [exact Hrows|]. cbn [t_cols t_rows].
    intro c0. rewrite (find_put_col O) by exact HidC'. rewrite Hd, name_eqb_refl. cbn [andb]. specialize (Hcols c0).
    name_cases c0 c.
    + subst c0. rewrite Ec in *. destruct (find_col O (t_cols O Td) c) as [Cd|]; [|contradiction].
      apply (col_ci_calc O L); assumption.
    + exact Hcols.
  - destruct (find_table O s t0), (find_table O g t0); try exact Hrel.
    destruct Hrel as [Hrows Hcols]. split; [exact Hrows|]. intro c0. rewrite Hd, E. cbn [andb]. exact (Hcols c0).
Qed.

Lemma gi_calc : forall s0 g m m' t c chs,
  gi s0 g D m -> calc_event_ok O m t c chs -> step O m (Calc O t c chs) = Ok m' -> gi s0 g D m'.
Proof.
  intros s0 g m m' t c chs [Htr Hwfg Hwfs [Hnames [Hkeys Hafter]] Hrel Hlive Hredo] Hok H.
  cbn [step] in H. destruct (calc_cells O (m_doc O m) t c chs) as [s1|] eqn:Hcc; cbn [bind] in H; [|discriminate].
  inversion H; subst m'; clear H. cbn [m_doc m_undo m_sum m_stored].
  unfold calc_event_ok in Hok.
  destruct (find_table O (m_doc O m) t) as [T|] eqn:Ef; [|contradiction].
  destruct (find_col O (t_cols O T) c) as [C|] eqn:Ec; [|contradiction].
  pose proof (add_changes_spec O (m_sum O m) t c chs) as [M1 [M2 [M3 [M4 Hd]]]]. cbv zeta in M1, M2, M3, M4, Hd.
  pose proof (calc_upd O _ t c chs s1 T C Hcc Ef Ec) as Hupd.
  constructor; cbn [m_doc m_undo m_sum m_stored].
  - eapply tr_okE_marks; [|exact Htr]. intros t1 c1 r1 Hc. apply (created_iff O) in Hc. apply (created_iff O).
    rewrite M1, M2, M3 in Hc. exact Hc.
  - exact Hwfg.
  - eapply (calc_cells_wf O L); eassumption.
  - split; [exact Hnames|]. split.
    + intros t1 Ht1. cbn [sum_apply] in Ht1. rewrite (td_find_with_table O) in Ht1.
      name_cases t1 t; [|apply Hkeys; exact Ht1]. subst t1. left.
      eapply alive_calc_rel; [exact Hrel|]. rewrite Ef. discriminate.
    + intros t1 T1 r1 Hf Hr. rewrite M4. eapply Hafter; eassumption.
  - eapply calc_rel_step; eassumption.
  - intros t1 c1 r1 Hg. unfold dget in Hg. rewrite Hd in Hg. rewrite M4.
    assert (Hold : dget (m_sum O m) t1 c1 r1 <> None \/ (t1 = t /\ c1 = c /\ In r1 (t_rows O T))).
    { destruct (name_eqb t1 t && name_eqb c1 c) eqn:Etc; [|left; exact Hg].
      apply andb_true_iff in Etc. destruct Etc as [Et Ecc]. apply name_eqb_eq in Et. apply name_eqb_eq in Ecc. subst t1 c1.
      destruct (delta_get_fold_add O _ _ _ Hg) as [H1|H1]; [left; exact H1|]. right. repeat split; try reflexivity.
      eapply (calc_ok_rows O); eassumption. }
    destruct Hold as [Hold|[-> [-> Hr]]].
    + destruct (Hlive _ _ _ Hold) as [Hdf|[Hdf|[T1 [C1 [Hf1 [Hc1 Hr1]]]]]]; [left; exact Hdf | right; left; exact Hdf|].
      destruct (col_upd_key O _ _ _ _ _ _ _ _ _ _ _ _ Hupd Hf1 Hc1) as [T1' [C1' [Hf1' [Hc1' Hrw]]]].
      right. right. exists T1', C1'. split; [exact Hf1'|]. split; [exact Hc1'|]. rewrite Hrw. exact Hr1.
    + destruct (col_upd_key O _ _ _ _ _ _ _ _ _ _ _ _ Hupd Ef Ec) as [T1' [C1' [Hf1' [Hc1' Hrw]]]].
      right. right. exists T1', C1'. split; [exact Hf1'|]. split; [exact Hc1'|]. left. rewrite Hrw. exact Hr.
  - exact Hredo.
Qed.


(* ------------------------------------------------------------------------------------------------ *)
(* deltas under the renames of the summary *)

Lemma dget_rencol : forall (sm : summary) t old new t' c' r,
  dget (sum_apply O sm (SRenameColumn O t (Some old) new)) t' c' r =
  if name_eqb t' t then
    if name_eqb c' new then
      match td_find O (sm_tables O sm) t with
      | Some td => match cd_find O (td_deltas O td) old with
                   | Some _ => dget sm t old r
                   | None => dget sm t new r
                   end
      | None => None
      end
    else if name_eqb c' old then None else dget sm t c' r
  else dget sm t' c' r.
Proof.
  intros sm t old new t' c' r. unfold dget, delta_of at 1. cbn [sum_apply].
  rewrite (td_find_with_table O). name_cases t' t; [|reflexivity]. subst t'. cbn [td_deltas].
  unfold for_table. destruct (td_find O (sm_tables O sm) t) as [td|] eqn:Etd.
  - destruct (cd_find O (td_deltas O td) old) as [cd|] eqn:Eold.
    + rewrite (cd_find_put O), (cd_find_del O). name_cases c' new.
      * subst c'. unfold delta_of. rewrite Etd, Eold. reflexivity.
      * name_cases c' old; [reflexivity|]. unfold delta_of. rewrite Etd. reflexivity.
    + name_cases c' new.
      * subst c'. unfold delta_of. rewrite Etd. reflexivity.
      * name_cases c' old.
        -- subst c'. rewrite Eold. reflexivity.
        -- unfold delta_of. rewrite Etd. reflexivity.
  - cbn. destruct (name_eqb c' new); [reflexivity|]. destruct (name_eqb c' old); [reflexivity|].
    unfold delta_of. rewrite Etd. reflexivity.
Qed.

Lemma dget_none_old : forall (sm : summary) t old td r,
  td_find O (sm_tables O sm) t = Some td -> cd_find O (td_deltas O td) old = None -> dget sm t old r = None.
Proof. intros sm t old td r H1 H2. unfold dget, delta_of. rewrite H1, H2. reflexivity. Qed.

Lemma live_no_key : forall sm s t c r, dlive sm s -> is_defunct t = false -> is_defunct c = false ->
  (forall T C, find_table O s t = Some T -> find_col O (t_cols O T) c = Some C -> False) -> dget sm t c r = None.
Proof.
  intros sm s t c r Hl Hdt Hdc Hn. destruct (dget sm t c r) eqn:E; [|reflexivity].
  exfalso. destruct (Hl t c r) as [H|[H|[T [C [Hf [Hc _]]]]]]; [rewrite E; discriminate | congruence | congruence|]. exact (Hn T C Hf Hc).
Qed.

Lemma col_ci_ext : forall cd cd' (C C' Cd Cd' : column) rows,
  c_info O C' = c_info O C -> c_info O Cd' = c_info O Cd ->
  (forall r, col_get O C' r = col_get O C r) -> (forall r, col_get O Cd' r = col_get O Cd r) ->
  (forall r, In r rows -> delta_get O cd' r = delta_get O cd r) ->
  col_ci O cd C Cd rows -> col_ci O cd' C' Cd' rows.
Proof.
  intros cd cd' C C' Cd Cd' rows Hi Hid Hg Hgd Hd [Hinfo Hcells]. split; [congruence|].
  intros r Hr. rewrite (Hd r Hr), Hg, Hgd, Hi. apply Hcells. exact Hr.
Qed.


Lemma step_doc_inv : forall m a m', step O m (Doc O a) = Ok m' ->
  exists s' u ops, apply_doc O a (m_doc O m) = Ok (s', (u, ops)) /\
                   m' = mkM O s' (m_stored O m ++ [a]) (m_undo O m ++ u) (fold_left (sum_apply O) ops (m_sum O m)).
Proof.
  intros m a m' H. cbn [step] in H. destruct (apply_doc O a (m_doc O m)) as [[s' [u ops]]|]; cbn [bind] in H; [|discriminate].
  inversion H. eauto.
Qed.

Lemma run_docs_snoc : forall acts s g Ug a g' u ops,
  run_docs O s acts = Ok (g, Ug) -> apply_doc O a g = Ok (g', (u, ops)) -> run_docs O s (acts ++ [a]) = Ok (g', Ug ++ u).
Proof.
  induction acts as [|a0 acts IH]; intros s g Ug a g' u ops H Ha; cbn in *.
  - inversion H; subst. rewrite Ha. rewrite app_nil_r. reflexivity.
  - destruct (apply_doc O a0 s) as [[s1 [u0 ops0]]|]; [|discriminate].
    destruct (run_docs O s1 acts) as [[s2 U2]|] eqn:E; [|discriminate]. inversion H; subst.
    rewrite (IH _ _ _ _ _ _ _ E Ha). rewrite app_assoc. reflexivity.
Qed.

(* the shape facts calc_rel gives about one table *)
Lemma calc_rel_table : forall g sm s t T, calc_rel O g sm s -> find_table O s t = Some T ->
  exists Tg, find_table O g t = Some Tg /\
             (forall r, In r (t_rows O T) <-> In r (t_rows O Tg)) /\
             forall c, match find_col O (t_cols O T) c, find_col O (t_cols O Tg) c with
                       | None, None => True
                       | Some C, Some Cd => col_ci O (delta_of O sm t c) C Cd (t_rows O T)
                       | _, _ => False
                       end.
Proof.
  intros g sm s t T H Hf. specialize (H t). rewrite Hf in H. destruct (find_table O g t) as [Tg|]; [|contradiction].
  exists Tg. destruct H. auto.
Qed.

Lemma calc_rel_none : forall g sm s t, calc_rel O g sm s -> find_table O s t = None -> find_table O g t = None.
Proof.
  intros g sm s t H Hf. specialize (H t). rewrite Hf in H. destruct (find_table O g t); [contradiction | reflexivity].
Qed.

Lemma gi_rename_col : forall s0 g m m' t old new,
  gi s0 g D m -> is_defunct new = false -> step O m (Doc O (RenameColumn O t old new)) = Ok m' ->
  exists g', gi s0 g' D m'.
Proof.
  intros s0 g m m' t old new [Htr Hwfg Hwfs Hstruct Hrel Hlive Hredo] Hnew H.
  destruct (step_doc_inv _ _ _ H) as [s' [u [ops [Ha ->]]]]. cbn [m_doc m_undo m_sum m_stored].
  pose proof Ha as Ha0. unfold apply_doc in Ha.
  destruct (find_table O (m_doc O m) t) as [T|] eqn:Ef; [|discriminate].
  destruct (find_col O (t_cols O T) old) as [C|] eqn:Ec; [|discriminate].
  destruct (has_column O T new) eqn:Eh; [discriminate|]. inversion Ha; subst s' u ops; clear Ha.
  apply (has_column_false O) in Eh. destruct Eh as [Hnid Hnc].
  destruct (calc_rel_table _ _ _ _ _ Hrel Ef) as [Tg [Efg [Hrows Hcols]]].
  pose proof (Hcols old) as Hco. rewrite Ec in Hco. destruct (find_col O (t_cols O Tg) old) as [Cg|] eqn:Ecg; [|contradiction].
  pose proof (Hcols new) as Hcn. rewrite Hnc in Hcn. destruct (find_col O (t_cols O Tg) new) as [x|] eqn:Ecgn; [contradiction|].
  set (a := RenameColumn O t old new).
  set (g' := put_table O g t (mkTab O (t_id O Tg) (t_rows O Tg) (drop_col O (t_cols O Tg) old ++ [mkCol O new (c_info O Cg) (c_data O Cg)]))).
  assert (Hag : apply_doc O a g = Ok (g', ([RenameColumn O t new old], [SRenameColumn O t (Some old) new]))).
  { unfold a, apply_doc. rewrite Efg, Ecg.
    assert (has_column O Tg new = false) as -> by (apply (has_column_false O); split; assumption). reflexivity. }
  assert (Hloss : forall t1 c1 r1, ~ lossy O a g t1 c1 r1) by (intros t1 c1 r1 []).
  pose proof (find_table_id O _ _ _ Ef) as HidT. pose proof (find_table_id O _ _ _ Efg) as HidTg.
  assert (Hdt : is_defunct t = false) by (apply (proj1 Hstruct _ _ Efg)).
  assert (Hdold : is_defunct old = false) by (apply (proj2 (proj1 Hstruct _ _ Efg) _ _ Ecg)).
  exists g'. constructor; cbn [m_doc m_undo m_sum m_stored].
  - eapply tr_stepE; try eassumption; try exact Hnew.
  - exact (apply_doc_wf O L _ _ _ _ Hwfg Hag).
  - exact (apply_doc_wf O L _ _ _ _ Hwfs Ha0).
  - eapply (struct_step O); try eassumption; try exact Hnew.
  - (* calc_rel *)
    cbn [fold_left]. intro t0. unfold g'. rewrite !(find_put_table O) by assumption. name_cases t0 t.
    + subst t0. rewrite Ef, Efg. split; [exact Hrows|]. cbn [t_cols t_rows]. intro c0.
      rewrite !(find_app_col O), !(find_drop_col O). cbn [c_id].
      name_cases c0 old.
      * subst c0. assert (name_eqb old new = false) as -> by (apply name_eqb_neq; intro; subst; congruence). exact I.
      * pose proof (Hcols c0) as Hc0.
        destruct (find_col O (t_cols O T) c0) as [Dc|] eqn:Ed, (find_col O (t_cols O Tg) c0) as [Dg|] eqn:Edg; try contradiction.
        -- eapply col_ci_ext; [reflexivity | reflexivity | reflexivity | reflexivity | | exact Hc0].
           intros r _. change (dget (sum_apply O (m_sum O m) (SRenameColumn O t (Some old) new)) t c0 r = dget (m_sum O m) t c0 r).
           rewrite dget_rencol, name_eqb_refl, E.
           assert (name_eqb c0 new = false) as -> by (apply name_eqb_neq; intro; subst; congruence). reflexivity.
        -- name_cases c0 new; [|exact I]. subst c0.
           eapply col_ci_ext; [reflexivity | reflexivity | | | | exact Hco].
           ++ intro r. reflexivity.
           ++ intro r. reflexivity.
           ++ intros r Hr. change (dget (sum_apply O (m_sum O m) (SRenameColumn O t (Some old) new)) t new r = dget (m_sum O m) t old r).
              rewrite dget_rencol, !name_eqb_refl.
              destruct (td_find O (sm_tables O (m_sum O m)) t) as [td|] eqn:Etd.
              ** destruct (cd_find O (td_deltas O td) old) eqn:Eold; [reflexivity|].
                 rewrite (dget_none_old _ _ _ _ r Etd Eold). eapply live_no_key; [exact Hlive | exact Hdt | exact Hnew|].
                 intros T1 C1 H1 H2. congruence.
              ** symmetry. unfold dget, delta_of. rewrite Etd. reflexivity.
    + specialize (Hrel t0). destruct (find_table O (m_doc O m) t0) as [T0|], (find_table O g t0) as [Tg0|]; try exact Hrel.
      destruct Hrel as [Hr0 Hc0]. split; [exact Hr0|]. intro c0. specialize (Hc0 c0).
      destruct (find_col O (t_cols O T0) c0), (find_col O (t_cols O Tg0) c0); try exact Hc0.
      eapply col_ci_ext; [reflexivity | reflexivity | reflexivity | reflexivity | | exact Hc0].
      intros r _. change (dget (sum_apply O (m_sum O m) (SRenameColumn O t (Some old) new)) t0 c0 r = dget (m_sum O m) t0 c0 r).
      rewrite dget_rencol, E. reflexivity.
  - (* deltas_live *)
    cbn [fold_left]. intros t0 c0 r Hg. change (dget (sum_apply O (m_sum O m) (SRenameColumn O t (Some old) new)) t0 c0 r <> None) in Hg.
    rewrite dget_rencol in Hg.
    destruct (sum_rencol_spec O (m_sum O m) t (Some old) new) as [_ [_ [_ [HRA _]]]]. cbv zeta in HRA. rewrite HRA.
    rewrite (find_put_table O) by assumption.
    name_cases t0 t.
    + subst t0. rewrite Ef. name_cases c0 new.
      * subst c0. assert (Hold : dget (m_sum O m) t old r <> None).
        { destruct (td_find O (sm_tables O (m_sum O m)) t) as [td|]; [|congruence].
          destruct (cd_find O (td_deltas O td) old); [exact Hg|].
          exfalso. apply Hg. eapply live_no_key; [exact Hlive | exact Hdt | exact Hnew|]. intros T1 C1 Q1 Q2. congruence. }
        destruct (Hlive t old r Hold) as [Hdf|[Hdf|[T1 [C1 [Q1 [Q2 Q3]]]]]]; [congruence | congruence|].
        assert (T1 = T) by congruence. subst T1. right. right.
        eexists. eexists. split; [reflexivity|]. cbn [t_cols t_rows]. rewrite (find_app_col O), (find_drop_col O).
        assert (name_eqb new old = false) as -> by (apply name_eqb_neq; intro; subst; congruence).
        rewrite Hnc. cbn [c_id]. rewrite name_eqb_refl. split; [reflexivity | exact Q3].
      * name_cases c0 old; [congruence|].
        destruct (Hlive t c0 r Hg) as [Hdf|[Hdf|[T1 [C1 [Q1 [Q2 Q3]]]]]]; [left; exact Hdf | right; left; exact Hdf|].
        assert (T1 = T) by congruence. subst T1. right. right.
        eexists. eexists. split; [reflexivity|]. cbn [t_cols t_rows]. rewrite (find_app_col O), (find_drop_col O), E0, Q2.
        split; [reflexivity | exact Q3].
    + destruct (Hlive t0 c0 r Hg) as [Hdf|[Hdf|[T1 [C1 [Q1 [Q2 Q3]]]]]]; [left; exact Hdf | right; left; exact Hdf|].
      right. right. exists T1, C1. auto.
  - eapply redo_snoc; [exact Hredo | exact Hag].
Qed.


Lemma dget_rentab : forall (sm : summary) old new t' c r,
  dget (sum_apply O sm (SRenameTable O (Some old) new)) t' c r =
  match td_find O (sm_tables O sm) old with
  | Some _ => if name_eqb t' new then dget sm old c r else if name_eqb t' old then None else dget sm t' c r
  | None => dget sm t' c r
  end.
Proof.
  intros sm old new t' c r. unfold dget, delta_of.
  destruct (sum_rentab_spec O sm (Some old) new) as [_ Htd]. cbv zeta in Htd. rewrite Htd.
  destruct (td_find O (sm_tables O sm) old) as [d|] eqn:Eo; [|reflexivity].
  destruct (name_eqb t' new); [reflexivity|]. destruct (name_eqb t' old); reflexivity.
Qed.

Lemma gi_rename_table : forall s0 g m m' old new,
  gi s0 g D m -> is_defunct new = false -> step O m (Doc O (RenameTable O old new)) = Ok m' ->
  exists g', gi s0 g' D m'.
Proof.
  intros s0 g m m' old new [Htr Hwfg Hwfs Hstruct Hrel Hlive Hredo] Hnew H.
  destruct (step_doc_inv _ _ _ H) as [s' [u [ops [Ha ->]]]]. cbn [m_doc m_undo m_sum m_stored].
  pose proof Ha as Ha0. unfold apply_doc in Ha.
  destruct (find_table O (m_doc O m) old) as [T|] eqn:Ef; [|discriminate].
  destruct (find_table O (m_doc O m) new) eqn:En; [discriminate|]. inversion Ha; subst s' u ops; clear Ha.
  destruct (calc_rel_table _ _ _ _ _ Hrel Ef) as [Tg [Efg [Hrows Hcols]]].
  pose proof (calc_rel_none _ _ _ _ Hrel En) as Eng.
  assert (Hne : old <> new) by (intro; subst; congruence).
  assert (Eon : name_eqb old new = false) by (apply name_eqb_neq; exact Hne).
  assert (Eno : name_eqb new old = false) by (apply name_eqb_neq; congruence).
  set (a := RenameTable O old new).
  set (g' := drop_table O g old ++ [mkTab O new (t_rows O Tg) (t_cols O Tg)]).
  assert (Hag : apply_doc O a g = Ok (g', ([RenameTable O new old], [SRenameTable O (Some old) new]))).
  { unfold a, apply_doc. rewrite Efg, Eng. reflexivity. }
  assert (Hloss : forall t1 c1 r1, ~ lossy O a g t1 c1 r1) by (intros t1 c1 r1 []).
  pose proof Hstruct as Hs0. destruct Hstruct as [Hnames [Hkeys Hafter]].
  assert (Hstale : td_find O (sm_tables O (m_sum O m)) new = None).
  { destruct (td_find O (sm_tables O (m_sum O m)) new) eqn:E; [|reflexivity]. exfalso.
    destruct (Hkeys new) as [Hk|Hk]; [rewrite E; discriminate | congruence | congruence]. }
  exists g'. constructor; cbn [m_doc m_undo m_sum m_stored].
  - eapply tr_stepE; try eassumption; try exact Hnew; try exact Hs0.
  - exact (apply_doc_wf O L _ _ _ _ Hwfg Hag).
  - exact (apply_doc_wf O L _ _ _ _ Hwfs Ha0).
  - eapply (struct_step O); try eassumption; try exact Hnew; try exact Hs0.
  - cbn [fold_left]. intro t0. unfold g'. rewrite !(find_app_table O), !(find_drop_table O). cbn [t_id].
    name_cases t0 old.
    + subst t0. rewrite Eon. exact I.
    + pose proof (Hrel t0) as Hr0.
      destruct (find_table O (m_doc O m) t0) as [T0|] eqn:E0, (find_table O g t0) as [Tg0|] eqn:Eg0; try contradiction.
      * destruct Hr0 as [Hrw Hcl]. split; [exact Hrw|]. intro c0. specialize (Hcl c0).
        destruct (find_col O (t_cols O T0) c0), (find_col O (t_cols O Tg0) c0); try exact Hcl.
        eapply col_ci_ext; [reflexivity | reflexivity | reflexivity | reflexivity | | exact Hcl].
        intros r _. change (dget (sum_apply O (m_sum O m) (SRenameTable O (Some old) new)) t0 c0 r = dget (m_sum O m) t0 c0 r).
        rewrite dget_rentab. assert (name_eqb t0 new = false) as Etn by (apply name_eqb_neq; intro; subst; congruence).
        rewrite Etn, E. destruct (td_find O (sm_tables O (m_sum O m)) old); reflexivity.
      * name_cases t0 new; [|exact I]. subst t0. cbn [t_rows t_cols]. split; [exact Hrows|]. intro c0. specialize (Hcols c0).
        destruct (find_col O (t_cols O T) c0), (find_col O (t_cols O Tg) c0); try exact Hcols.
        eapply col_ci_ext; [reflexivity | reflexivity | reflexivity | reflexivity | | exact Hcols].
        intros r _. change (dget (sum_apply O (m_sum O m) (SRenameTable O (Some old) new)) new c0 r = dget (m_sum O m) old c0 r).
        rewrite dget_rentab, name_eqb_refl.
        destruct (td_find O (sm_tables O (m_sum O m)) old) eqn:Eo; [reflexivity|].
        unfold dget, delta_of. rewrite Hstale, Eo. reflexivity.
  - cbn [fold_left]. intros t0 c0 r Hg.
    change (dget (sum_apply O (m_sum O m) (SRenameTable O (Some old) new)) t0 c0 r <> None) in Hg.
    rewrite dget_rentab in Hg. rewrite (find_app_table O), (find_drop_table O). cbn [t_id].
    destruct (sum_rentab_spec O (m_sum O m) (Some old) new) as [_ Htd']. cbv zeta in Htd'.
    assert (Hcase : (t0 = new /\ dget (m_sum O m) old c0 r <> None) \/ (t0 <> new /\ t0 <> old /\ dget (m_sum O m) t0 c0 r <> None)).
    { destruct (td_find O (sm_tables O (m_sum O m)) old) eqn:Eo.
      - name_cases t0 new; [left; split; [exact E | exact Hg]|]. name_cases t0 old; [congruence|]. right. auto.
      - right. split; [intro; subst t0; unfold dget, delta_of in Hg; rewrite Hstale in Hg; cbn in Hg; congruence|].
        split; [|exact Hg]. intro; subst t0.
        unfold dget, delta_of in Hg. rewrite Eo in Hg. cbn in Hg. congruence. }
    assert (Hdold : is_defunct old = false) by (apply (proj1 Hs0 _ _ Efg)).
    destruct Hcase as [[-> Hg']|[Hn1 [Hn2 Hg']]].
    + destruct (Hlive old c0 r Hg') as [Hdf|[Hdf|[T1 [C1 [Q1 [Q2 Q3]]]]]]; [congruence | right; left; exact Hdf|].
      assert (T1 = T) by congruence. subst T1. right. right.
      rewrite Eno, En, name_eqb_refl. eexists. eexists. split; [reflexivity|]. cbn [t_cols t_rows]. split; [exact Q2|].
      destruct Q3 as [Q3|Q3]; [left; exact Q3|]. right. unfold row_after in *. rewrite Htd'.
      destruct (td_find O (sm_tables O (m_sum O m)) old) as [d|] eqn:Eo; [rewrite name_eqb_refl; exact Q3 | discriminate].
    + destruct (Hlive t0 c0 r Hg') as [Hdf|[Hdf|[T1 [C1 [Q1 [Q2 Q3]]]]]]; [left; exact Hdf | right; left; exact Hdf|].
      right. right.
      assert (name_eqb t0 old = false) as E1 by (apply name_eqb_neq; exact Hn2). rewrite E1, Q1. exists T1, C1.
      split; [reflexivity|]. split; [exact Q2|]. destruct Q3 as [Q3|Q3]; [left; exact Q3|]. right.
      unfold row_after in *. rewrite Htd'. assert (name_eqb t0 new = false) as E2 by (apply name_eqb_neq; exact Hn1).
      destruct (td_find O (sm_tables O (m_sum O m)) old); [rewrite E2, E1; exact Q3 | exact Q3].
  - eapply redo_snoc; [exact Hredo | exact Hag].
Qed.


(* ------------------------------------------------------------------------------------------------ *)
(* nothing pending: the ghost document can be re-based on the real one, and any lossless doc action follows *)

Definition quiet (sm : summary) : Prop := forall t c r, dget sm t c r = None.

Lemma delta_of_with_table : forall (sm : summary) t d t' c,
  td_deltas O d = td_deltas O (for_table O sm t) -> delta_of O (with_table O sm t d) t' c = delta_of O sm t' c.
Proof.
  intros sm t d t' c Hd. unfold delta_of. rewrite (td_find_with_table O). name_cases t' t; [|reflexivity].
  subst t'. rewrite Hd. unfold for_table. destruct (td_find O (sm_tables O sm) t); reflexivity.
Qed.

Lemma quiet_sum_apply : forall sm op, quiet sm -> not_changes O op -> quiet (sum_apply O sm op).
Proof.
  intros sm op Hq Hop t' c' r. destruct op as [t rows|t rows|t old new|old new|t c chs]; [| | | |destruct Hop].
  - unfold dget. cbn [sum_apply]. rewrite delta_of_with_table; [apply Hq|].
    apply (fold_pres_deltas O). reflexivity.
  - unfold dget. cbn [sum_apply]. rewrite delta_of_with_table; [apply Hq|].
    apply (fold_pres_deltas O). reflexivity.
  - destruct old as [old|].
    + rewrite dget_rencol. destruct (name_eqb t' t); [|apply Hq].
      destruct (name_eqb c' new).
      * destruct (td_find O (sm_tables O sm) t) as [td|]; [|reflexivity].
        destruct (cd_find O (td_deltas O td) old); apply Hq.
      * destruct (name_eqb c' old); [reflexivity | apply Hq].
    + unfold dget. cbn [sum_apply]. rewrite delta_of_with_table; [apply Hq | reflexivity].
  - destruct old as [old|].
    + rewrite dget_rentab. destruct (td_find O (sm_tables O sm) old); [|apply Hq].
      destruct (name_eqb t' new); [apply Hq|]. destruct (name_eqb t' old); [reflexivity | apply Hq].
    + apply Hq.
Qed.

Lemma quiet_fold : forall ops sm, quiet sm -> Forall (not_changes O) ops -> quiet (fold_left (sum_apply O) ops sm).
Proof.
  induction ops as [|op ops IH]; intros sm Hq Hf; cbn [fold_left]; [exact Hq|].
  inversion Hf; subst. apply IH; [apply quiet_sum_apply; assumption | assumption].
Qed.

Lemma calc_rel_quiet_seq : forall g sm s, calc_rel O g sm s -> quiet sm -> seq O s g.
Proof.
  intros g sm s Hrel Hq t. specialize (Hrel t).
  destruct (find_table O s t) as [T|], (find_table O g t) as [Tg|]; cbn; try exact Hrel.
  destruct Hrel as [Hrows Hcols]. split; [exact Hrows|]. intro c. specialize (Hcols c).
  destruct (find_col O (t_cols O T) c) as [C|], (find_col O (t_cols O Tg) c) as [Cg|]; cbn; try exact Hcols.
  destruct Hcols as [Hinfo Hcells]. split; [exact Hinfo|]. intros r Hr. right. specialize (Hcells r Hr).
  pose proof (Hq t c r) as Hn. unfold dget in Hn. rewrite Hn in Hcells. exact Hcells.
Qed.

Lemma quiet_calc_rel_refl : forall sm s, quiet sm -> calc_rel O s sm s.
Proof.
  intros sm s Hq t. destruct (find_table O s t) as [T|]; [|exact I]. split; [tauto|]. intro c.
  destruct (find_col O (t_cols O T) c) as [C|]; [|exact I]. split; [reflexivity|]. intros r _.
  pose proof (Hq t c r) as Hn. unfold dget in Hn. rewrite Hn. apply (venc_refl O L).
Qed.

Lemma struct_ok_seq : forall g s sm, seq O s g -> struct_ok O g sm -> struct_ok O s sm.
Proof.
  intros g s sm Hs [Hnames [Hkeys Hafter]]. split; [|split].
  - intros t T Hf. pose proof (Hs t) as Ht. rewrite Hf in Ht.
    destruct (find_table O g t) as [Tg|] eqn:Eg; [|contradiction]. destruct (Hnames _ _ Eg) as [Hdt Hdc].
    split; [exact Hdt|]. intros c C Hc. destruct Ht as [_ Hcols]. specialize (Hcols c). rewrite Hc in Hcols.
    destruct (find_col O (t_cols O Tg) c) as [Cg|] eqn:Ec; [|contradiction]. exact (Hdc _ _ Ec).
  - intros t Ht. destruct (Hkeys t Ht) as [Hk|Hk]; [|right; exact Hk]. left.
    pose proof (Hs t) as Hst. destruct (find_table O s t); [discriminate|].
    destruct (find_table O g t); [contradiction | congruence].
  - intros t T r Hf Hr. pose proof (Hs t) as Ht. rewrite Hf in Ht.
    destruct (find_table O g t) as [Tg|] eqn:Eg; [|contradiction]. destruct Ht as [Hrows _].
    eapply Hafter; [exact Eg | apply Hrows; exact Hr].
Qed.

Lemma gi_rebase : forall s0 g m, gi s0 g D m -> quiet (m_sum O m) -> gi s0 (m_doc O m) D m.
Proof.
  intros s0 g m [Htr Hwfg Hwfs Hstruct Hrel Hlive Hredo] Hq.
  pose proof (calc_rel_quiet_seq _ _ _ Hrel Hq) as Hsg.
  constructor.
  - intros E s1 Hs1. apply Htr. eapply (seq_ex_weaken O); [|eapply (seq_ex_trans O L); [exact Hs1 | exact Hsg]].
    intros t c r [H|[]]. exact H.
  - exact Hwfs.
  - exact Hwfs.
  - eapply struct_ok_seq; eassumption.
  - apply quiet_calc_rel_refl. exact Hq.
  - exact Hlive.
  - intros s1 Hs1. destruct (Hredo s1 Hs1) as [s2 [Hr Hs2]]. exists s2. split; [exact Hr|].
    eapply (seq_trans O L); [exact Hs2 | exact (seq_ex_sym O L _ _ _ Hsg)].
Qed.

(* any lossless doc action while nothing is pending *)
Lemma gi_doc_quiet : forall s0 g m m' a,
  gi s0 g D m -> quiet (m_sum O m) -> (forall t c r, ~ lossy O a (m_doc O m) t c r) -> act_names_ok O a ->
  step O m (Doc O a) = Ok m' -> gi s0 (m_doc O m') D m' /\ quiet (m_sum O m').
Proof.
  intros s0 g m m' a Hgi Hq Hl Hn H.
  destruct (gi_rebase _ _ _ Hgi Hq) as [Htr _ Hwfs Hstruct _ _ Hredo].
  destruct (step_doc_inv _ _ _ H) as [s' [u [ops [Ha ->]]]]. cbn [m_doc m_undo m_sum m_stored].
  assert (Hq' : quiet (fold_left (sum_apply O) ops (m_sum O m))).
  { apply quiet_fold; [exact Hq|]. eapply (lossless_not_changes O); eassumption. }
  split; [|exact Hq']. constructor; cbn [m_doc m_undo m_sum m_stored].
  - eapply tr_stepE; eassumption.
  - exact (apply_doc_wf O L _ _ _ _ Hwfs Ha).
  - exact (apply_doc_wf O L _ _ _ _ Hwfs Ha).
  - eapply (struct_step O); eassumption.
  - apply quiet_calc_rel_refl. exact Hq'.
  - intros t c r Hg. exfalso. apply Hg. apply Hq'.
  - eapply redo_snoc; eassumption.
Qed.

(* ------------------------------------------------------------------------------------------------ *)
(* doc actions that keep off the cells with a pending delta (SC1), except that BulkRemoveRecord may remove such cells:
   their restores are inserted at the front of the undo list by the flush, and the start-document cells they will have
   to put right are collected in D *)

Definition is_rmrec (a : action) : bool := match a with BulkRemoveRecord _ _ _ => true | _ => false end.

Lemma touch_dec : forall a t c r, {touch O a t c r} + {~ touch O a t c r}.
Proof.
  intros a t c r. destruct a; cbn [touch];
    repeat match goal with
           | |- {?A /\ ?B} + {_} =>
               let HA := fresh in let HB := fresh in
               assert (HA : {A} + {~ A}); [|assert (HB : {B} + {~ B}); [|destruct HA, HB; [left; split; assumption | right; tauto | right; tauto | right; tauto]]]
           | |- {?A \/ ?B} + {_} =>
               let HA := fresh in let HB := fresh in
               assert (HA : {A} + {~ A}); [|assert (HB : {B} + {~ B}); [|destruct HA, HB; [left; left; assumption | left; left; assumption | left; right; assumption | right; tauto]]]
           | |- {@eq name _ _} + {_} => apply name_eq_dec
           | |- {In _ _} + {_} => first [apply (in_dec Z.eq_dec) | apply (in_dec name_eq_dec)]
           end.
Qed.

(* the actions that can make a removed row id reappear *)
Definition readds (a : action) (t : name) (r : Z) : Prop :=
  match a with
  | BulkAddRecord _ t' rows _ => t = t' /\ In r rows
  | ReplaceTableData _ t' _ _ => t = t'
  | RemoveTable _ t' => t = t'
  | _ => False
  end.

Lemma readds_touch : forall a t c r, readds a t r -> touch O a t c r.
Proof. intros a t c r H. destruct a; cbn in *; try contradiction; exact H. Qed.

Lemma row_after_ops : forall a s s' u ops (sm : summary) t r,
  apply_doc O a s = Ok (s', (u, ops)) -> is_rename O a = false -> is_defunct t = false ->
  ~ readds a t r ->
  row_after O sm t r = Some false -> row_after O (fold_left (sum_apply O) ops sm) t r = Some false.
Proof.
  intros a s s' u ops sm t1 r1 H Hren Hdt Hnt Hra. destruct a; try discriminate; unfold apply_doc in H; cbn [readds] in Hnt.
  -
    destruct (find_table O s t) as [T|]; [|discriminate]. destruct (_ || _); [discriminate|].
    destruct (negb _); [discriminate|]. destruct (add_records O T rows cols); cbn in H; [|discriminate].
    inversion H; subst s' u ops. cbn [fold_left sum_apply].
    change (fun (d : tdelta O) (r : Z) => mkTD O (pres_setdefault (td_before O d) r false) (pres_set (td_after O d) r true) (td_colren O d) (td_deltas O d)) with (mark O false true).
    destruct (sum_mark_spec O sm t rows false true) as [_ [_ [_ [Ha _]]]]. cbv zeta in Ha. rewrite Ha.
    name_cases t1 t; [|exact Hra]. subst t1.
    assert (zmem r1 rows = false) as -> by (apply zmem_false; intro Hin; apply Hnt; auto). exact Hra.
  - destruct (find_table O s t) as [T|]; [|discriminate].
    remember (filter (fun r => zmem r (t_rows O T)) rows) as rows' eqn:Er.
    destruct (list_eq_dec Z.eq_dec rows' []) as [Hnil|Hne].
    + rewrite Hnil in H. inversion H; subst. exact Hra.
    + rewrite (match_nonnil _ _ rows' _ _ Hne) in H. inversion H; subst s' u ops. cbn [fold_left sum_apply].
      change (fun (d : tdelta O) (r : Z) => mkTD O (pres_setdefault (td_before O d) r true) (pres_set (td_after O d) r false) (td_colren O d) (td_deltas O d)) with (mark O true false).
      destruct (sum_mark_spec O sm t rows' true false) as [_ [_ [_ [Ha _]]]]. cbv zeta in Ha. rewrite Ha.
      name_cases t1 t; [|exact Hra]. subst t1. destruct (zmem r1 rows'); [reflexivity | exact Hra].
  - destruct (find_table O s t) as [T|]; [|discriminate]. destruct (_ || _); [discriminate|].
    destruct (negb _); [discriminate|]. destruct (old_values O (t_cols O T) rows cols); cbn in H; [|discriminate].
    destruct (set_columns O (t_cols O T) rows cols); cbn in H; [|discriminate]. inversion H; subst s' u ops. exact Hra.
  - destruct (find_table O s t) as [T|]; [|discriminate]. destruct (negb _); [discriminate|].
    match type of H with context [add_records O ?T0 rows ?cs] => destruct (add_records O T0 rows cs) end; cbn in H; [|discriminate].
    inversion H; subst s' u ops. cbn [fold_left sum_apply].
    change (fun (d : tdelta O) (r : Z) => mkTD O (pres_setdefault (td_before O d) r true) (pres_set (td_after O d) r false) (td_colren O d) (td_deltas O d)) with (mark O true false).
    change (fun (d : tdelta O) (r : Z) => mkTD O (pres_setdefault (td_before O d) r false) (pres_set (td_after O d) r true) (td_colren O d) (td_deltas O d)) with (mark O false true).
    match goal with |- row_after O (with_table O ?sm1 t _) _ _ = _ =>
      destruct (sum_mark_spec O sm1 t rows false true) as [_ [_ [_ [Ha2 _]]]]; cbv zeta in Ha2; rewrite Ha2 end.
    assert (Et : name_eqb t1 t = false) by (apply name_eqb_neq; exact Hnt). rewrite Et.
    destruct (sum_mark_spec O sm t (t_rows O T) true false) as [_ [_ [_ [Ha1 _]]]]. cbv zeta in Ha1. rewrite Ha1, Et. exact Hra.
  - destruct (find_table O s t) as [T|]; [|discriminate]. destruct (has_column O T c); [discriminate|].
    inversion H; subst s' u ops. cbn [fold_left].
    destruct (sum_rencol_spec O sm t None c) as [_ [_ [_ [Ha _]]]]. cbv zeta in Ha. rewrite Ha. exact Hra.
  - destruct (find_table O s t) as [T|]; [|discriminate]. destruct (find_col O (t_cols O T) c) as [C|]; [|discriminate].
    assert (Hops : ops = [SRenameColumn O t (Some c) (defunct_name c)] \/
                   exists chs, ops = [SAddChanges O t c chs; SRenameColumn O t (Some c) (defunct_name c)]).
    { match type of H with context [match ?l with [] => _ | _ => _ end] => destruct l end;
        [|destruct (ci_isformula (c_info O C))]; inversion H; eauto. }
    destruct Hops as [->|[chs ->]]; cbn [fold_left].
    + destruct (sum_rencol_spec O sm t (Some c) (defunct_name c)) as [_ [_ [_ [Ha _]]]]. cbv zeta in Ha. rewrite Ha. exact Hra.
    + match goal with |- row_after O (sum_apply O ?sm1 _) _ _ = _ =>
        destruct (sum_rencol_spec O sm1 t (Some c) (defunct_name c)) as [_ [_ [_ [Ha _]]]]; cbv zeta in Ha; rewrite Ha end.
      destruct (add_changes_spec O sm t c chs) as [_ [_ [_ [Ha2 _]]]]. cbv zeta in Ha2. rewrite Ha2. exact Hra.
  - destruct (find_table O s t) as [T|]; [|discriminate]. destruct (find_col O (t_cols O T) c) as [C|]; [|discriminate].
    destruct (colinfo_eqb _ _); inversion H; subst s' u ops; exact Hra.
  - destruct (find_table O s t); [discriminate|]. destruct (_ || _); [discriminate|].
    inversion H; subst s' u ops. cbn [fold_left]. unfold row_after in *.
    destruct (sum_rentab_spec O sm None t) as [_ Htd]. cbv zeta in Htd. rewrite Htd. exact Hra.
  - destruct (find_table O s t) as [T|]; [|discriminate].
    assert (Hops : ops = [SRenameTable O (Some t) (defunct_name t)]) by (destruct (t_rows O T); inversion H; reflexivity).
    subst ops. cbn [fold_left]. unfold row_after in *.
    destruct (sum_rentab_spec O sm (Some t) (defunct_name t)) as [_ Htd]. cbv zeta in Htd. rewrite Htd.
    destruct (td_find O (sm_tables O sm) t) as [d|]; [|exact Hra].
    assert (name_eqb t1 (defunct_name t) = false) as -> by (apply name_eqb_neq; intro; subst t1; discriminate).
    assert (name_eqb t1 t = false) as -> by (apply name_eqb_neq; exact Hnt). exact Hra.
Qed.

(* the rows a BulkRemoveRecord removes are marked as gone *)
Lemma rmrec_row_after : forall s t rows s' u ops (sm : summary) T r,
  apply_doc O (BulkRemoveRecord O t rows) s = Ok (s', (u, ops)) -> find_table O s t = Some T ->
  In r rows -> In r (t_rows O T) -> row_after O (fold_left (sum_apply O) ops sm) t r = Some false.
Proof.
  intros s t rows s' u ops sm T r H Ef Hr HrT. unfold apply_doc in H. rewrite Ef in H.
  remember (filter (fun r => zmem r (t_rows O T)) rows) as rows' eqn:Er.
  assert (Hin : In r rows') by (rewrite Er; apply filter_In; split; [exact Hr | apply zmem_In; exact HrT]).
  destruct (list_eq_dec Z.eq_dec rows' []) as [Hnil|Hne]; [rewrite Hnil in Hin; destruct Hin|].
  rewrite (match_nonnil _ _ rows' _ _ Hne) in H. inversion H; subst s' u ops. cbn [fold_left sum_apply].
  change (fun (d : tdelta O) (r : Z) => mkTD O (pres_setdefault (td_before O d) r true) (pres_set (td_after O d) r false) (td_colren O d) (td_deltas O d)) with (mark O true false).
  destruct (sum_mark_spec O sm t rows' true false) as [_ [_ [_ [Ha _]]]]. cbv zeta in Ha. rewrite Ha, name_eqb_refl.
  apply zmem_In in Hin. rewrite Hin. reflexivity.
Qed.


(* ------------------------------------------------------------------------------------------------ *)
(* any lossless doc action that keeps off the cells with a pending delta (SC1) *)

Lemma dget_records : forall (sm : summary) t rows bb ba t' c r,
  dget (with_table O sm t (fold_left (fun d r0 => mkTD O (pres_setdefault (td_before O d) r0 bb) (pres_set (td_after O d) r0 ba)
                                                   (td_colren O d) (td_deltas O d)) rows (for_table O sm t))) t' c r =
  dget sm t' c r.
Proof.
  intros sm t rows bb ba t' c r. unfold dget. rewrite delta_of_with_table; [reflexivity|].
  apply (fold_pres_deltas O). reflexivity.
Qed.

Lemma defunct_is_defunct : forall n, is_defunct (defunct_name n) = true.
Proof. reflexivity. Qed.

Lemma dget_doc_ops : forall a s s' u ops (sm : summary),
  apply_doc O a s = Ok (s', (u, ops)) -> is_rename O a = false -> (forall t c r, ~ lossy O a s t c r) ->
  (forall t c r, touch O a t c r -> dget sm t c r = None) ->
  (forall t c r, dget sm t c r <> None -> exists T C, find_table O s t = Some T /\ find_col O (t_cols O T) c = Some C) ->
  names_ok O s ->
  forall t c r, dget (fold_left (sum_apply O) ops sm) t c r = dget sm t c r.
Proof.
  intros a s s' u ops sm H Hren Hloss Hav Hlive Hnames t1 c1 r1.
  assert (Hdef_c : forall t c r, is_defunct c = true -> dget sm t c r = None).
  { intros t c r Hd. destruct (dget sm t c r) eqn:E; [|reflexivity]. exfalso.
    destruct (Hlive t c r) as [T [C [Hf Hc]]]; [congruence|]. destruct (Hnames _ _ Hf) as [_ Hdc]. rewrite (Hdc _ _ Hc) in Hd. discriminate. }
  assert (Hdef_t : forall t c r, is_defunct t = true -> dget sm t c r = None).
  { intros t c r Hd. destruct (dget sm t c r) eqn:E; [|reflexivity]. exfalso.
    destruct (Hlive t c r) as [T [C [Hf _]]]; [congruence|]. destruct (Hnames _ _ Hf) as [Hdt _]. rewrite Hdt in Hd. discriminate. }
  destruct a; try discriminate; unfold apply_doc in H.
  - destruct (find_table O s t) as [T|]; [|discriminate]. destruct (_ || _); [discriminate|].
    destruct (negb _); [discriminate|]. destruct (add_records O T rows cols); cbn in H; [|discriminate].
    inversion H; subst s' u ops. cbn [fold_left sum_apply]. apply dget_records.
  - destruct (find_table O s t) as [T|]; [|discriminate].
    remember (filter (fun r => zmem r (t_rows O T)) rows) as rows' eqn:Er.
    destruct (list_eq_dec Z.eq_dec rows' []) as [Hnil|Hne].
    + rewrite Hnil in H. inversion H; subst. reflexivity.
    + rewrite (match_nonnil _ _ rows' _ _ Hne) in H. inversion H; subst s' u ops. cbn [fold_left sum_apply]. apply dget_records.
  - destruct (find_table O s t) as [T|]; [|discriminate]. destruct (_ || _); [discriminate|].
    destruct (negb _); [discriminate|]. destruct (old_values O (t_cols O T) rows cols); cbn in H; [|discriminate].
    destruct (set_columns O (t_cols O T) rows cols); cbn in H; [|discriminate]. inversion H; subst s' u ops. reflexivity.
  - destruct (find_table O s t) as [T|]; [|discriminate]. destruct (negb _); [discriminate|].
    match type of H with context [add_records O ?T0 rows ?cs] => destruct (add_records O T0 rows cs) end; cbn in H; [|discriminate].
    inversion H; subst s' u ops. cbn [fold_left sum_apply]. rewrite dget_records. apply dget_records.
  - destruct (find_table O s t) as [T|]; [|discriminate]. destruct (has_column O T c); [discriminate|].
    inversion H; subst s' u ops. cbn [fold_left sum_apply]. unfold dget. rewrite delta_of_with_table; reflexivity.
  - destruct (find_table O s t) as [T|] eqn:Ef; [|discriminate]. destruct (find_col O (t_cols O T) c) as [C|] eqn:Ec; [|discriminate].
    assert (Hform : ci_isformula (c_info O C) = false).
    { destruct (ci_isformula (c_info O C)) eqn:E; [|reflexivity]. exfalso. apply (Hloss t c 0). cbn. split; [reflexivity|]. split; [reflexivity|]. eauto. }
    rewrite Hform in H.
    assert (Hops : ops = [SRenameColumn O t (Some c) (defunct_name c)]).
    { match type of H with context [match ?l with [] => _ | _ => _ end] => destruct l end; inversion H; reflexivity. }
    subst ops. cbn [fold_left]. rewrite dget_rencol.
    name_cases t1 t; [|reflexivity]. subst t1. name_cases c1 (defunct_name c).
    + subst c1. rewrite (Hdef_c t (defunct_name c) r1) by reflexivity.
      destruct (td_find O (sm_tables O sm) t) as [td|]; [|reflexivity].
      destruct (cd_find O (td_deltas O td) c); [|reflexivity]. apply Hav. cbn. auto.
    + name_cases c1 c; [|reflexivity]. subst c1. symmetry. apply Hav. cbn. auto.
  - destruct (find_table O s t) as [T|]; [|discriminate]. destruct (find_col O (t_cols O T) c) as [C|]; [|discriminate].
    destruct (colinfo_eqb _ _); inversion H; subst s' u ops; reflexivity.
  - destruct (find_table O s t); [discriminate|]. destruct (_ || _); [discriminate|].
    inversion H; subst s' u ops. reflexivity.
  - destruct (find_table O s t) as [T|]; [|discriminate].
    assert (Hops : ops = [SRenameTable O (Some t) (defunct_name t)]) by (destruct (t_rows O T); inversion H; reflexivity).
    subst ops. cbn [fold_left]. rewrite dget_rentab.
    destruct (td_find O (sm_tables O sm) t) as [td|] eqn:Etd; [|reflexivity].
    name_cases t1 (defunct_name t).
    + subst t1. rewrite (Hdef_t (defunct_name t) c1 r1) by reflexivity. apply Hav. cbn. reflexivity.
    + name_cases t1 t; [|reflexivity]. subst t1. symmetry. apply Hav. cbn. reflexivity.
Qed.


(* deltas under the ops of a doc action that is no rename: they stay under their keys, except that removing a column or a
   table moves the deltas of its cells to a defunct key *)
Lemma dget_nonremoval_ops : forall a s s' u ops (sm : summary),
  apply_doc O a s = Ok (s', (u, ops)) -> is_rename O a = false -> is_removal O a = false ->
  forall t c r, dget (fold_left (sum_apply O) ops sm) t c r = dget sm t c r.
Proof.
  intros a s s' u ops sm H Hren Hrm t1 c1 r1. destruct a; try discriminate; unfold apply_doc in H.
  - destruct (find_table O s t) as [T|]; [|discriminate]. destruct (_ || _); [discriminate|].
    destruct (negb _); [discriminate|]. destruct (add_records O T rows cols); cbn in H; [|discriminate].
    inversion H; subst s' u ops. cbn [fold_left sum_apply]. apply dget_records.
  - destruct (find_table O s t) as [T|]; [|discriminate]. destruct (_ || _); [discriminate|].
    destruct (negb _); [discriminate|]. destruct (old_values O (t_cols O T) rows cols); cbn in H; [|discriminate].
    destruct (set_columns O (t_cols O T) rows cols); cbn in H; [|discriminate]. inversion H; subst s' u ops. reflexivity.
  - destruct (find_table O s t) as [T|]; [|discriminate]. destruct (negb _); [discriminate|].
    match type of H with context [add_records O ?T0 rows ?cs] => destruct (add_records O T0 rows cs) end; cbn in H; [|discriminate].
    inversion H; subst s' u ops. cbn [fold_left sum_apply]. rewrite dget_records. apply dget_records.
  - destruct (find_table O s t) as [T|]; [|discriminate]. destruct (has_column O T c); [discriminate|].
    inversion H; subst s' u ops. cbn [fold_left sum_apply]. unfold dget. rewrite delta_of_with_table; reflexivity.
  - destruct (find_table O s t) as [T|]; [|discriminate]. destruct (find_col O (t_cols O T) c) as [C|]; [|discriminate].
    destruct (colinfo_eqb _ _); inversion H; subst s' u ops; reflexivity.
  - destruct (find_table O s t); [discriminate|]. destruct (_ || _); [discriminate|].
    inversion H; subst s' u ops. reflexivity.
Qed.

Lemma dget_removal_ops : forall a s s' u ops (sm : summary) t c r,
  apply_doc O a s = Ok (s', (u, ops)) -> is_removal O a = true -> (forall t c r, ~ lossy O a s t c r) ->
  is_defunct t = false -> is_defunct c = false ->
  dget (fold_left (sum_apply O) ops sm) t c r =
  match a with
  | BulkRemoveRecord _ _ _ => dget sm t c r
  | RemoveColumn _ t0 c0 => if name_eqb t t0 && name_eqb c c0 then None else dget sm t c r
  | RemoveTable _ t0 => if name_eqb t t0 then None else dget sm t c r
  | _ => dget sm t c r
  end.
Proof.
  intros a s s' u ops sm t1 c1 r1 H Hrm Hloss Hdt Hdc. destruct a; try discriminate; unfold apply_doc in H.
  - destruct (find_table O s t) as [T|]; [|discriminate].
    remember (filter (fun r => zmem r (t_rows O T)) rows) as rows' eqn:Er.
    destruct (list_eq_dec Z.eq_dec rows' []) as [Hnil|Hne].
    + rewrite Hnil in H. inversion H; subst. reflexivity.
    + rewrite (match_nonnil _ _ rows' _ _ Hne) in H. inversion H; subst s' u ops. cbn [fold_left sum_apply]. apply dget_records.
  - destruct (find_table O s t) as [T|] eqn:Ef; [|discriminate]. destruct (find_col O (t_cols O T) c) as [C|] eqn:Ec; [|discriminate].
    assert (Hform : ci_isformula (c_info O C) = false).
    { destruct (ci_isformula (c_info O C)) eqn:E; [|reflexivity]. exfalso. apply (Hloss t c 0). cbn. split; [reflexivity|]. split; [reflexivity|]. eauto. }
    rewrite Hform in H.
    assert (Hops : ops = [SRenameColumn O t (Some c) (defunct_name c)]).
    { match type of H with context [match ?l with [] => _ | _ => _ end] => destruct l end; inversion H; reflexivity. }
    subst ops. cbn [fold_left]. rewrite dget_rencol.
    name_cases t1 t; cbn [andb]; [|reflexivity]. subst t1.
    assert (name_eqb c1 (defunct_name c) = false) as -> by (apply name_eqb_neq; intro; subst c1; discriminate).
    destruct (name_eqb c1 c); reflexivity.
  - destruct (find_table O s t) as [T|]; [|discriminate].
    assert (Hops : ops = [SRenameTable O (Some t) (defunct_name t)]) by (destruct (t_rows O T); inversion H; reflexivity).
    subst ops. cbn [fold_left]. rewrite dget_rentab.
    assert (name_eqb t1 (defunct_name t) = false) as -> by (apply name_eqb_neq; intro; subst t1; discriminate).
    destruct (td_find O (sm_tables O sm) t) as [td|] eqn:Etd.
    + destruct (name_eqb t1 t); reflexivity.
    + name_cases t1 t; [|reflexivity]. subst t1. unfold dget, delta_of. rewrite Etd. reflexivity.
Qed.

Lemma gi_doc_frame : forall s0 g m m' a DN,
  gi s0 g D m -> is_rename O a = false ->
  (forall t c r, touch O a t c r -> dget (m_sum O m) t c r <> None -> is_removal O a = true) ->
  (forall t c r, ~ lossy O a (m_doc O m) t c r) -> act_names_ok O a ->
  (forall t c r, img_list O (rev (m_undo O m)) (fun t c r => pending O (m_sum O m) t c r /\ touch O a t c r) t c r ->
                 inD DN t c r) ->
  step O m (Doc O a) = Ok m' -> exists g', gi s0 g' (D ++ DN) m'.
Proof.
  intros s0 g m m' a DN [Htr Hwfg Hwfs Hstruct Hrel Hlive Hredo] Hren Hav Hloss Hact HDN H.
  destruct (step_doc_inv _ _ _ H) as [s' [u [ops [Ha ->]]]]. cbn [m_doc m_undo m_sum m_stored].
  set (s := m_doc O m) in *. set (sm := m_sum O m) in *.
  set (N := fun t c r => pending O sm t c r /\ touch O a t c r) in *.
  pose proof (calc_rel_seq_ex O g sm s Hrel) as Hseq.
  pose proof (struct_ok_seq_ex O _ g s sm Hseq Hstruct) as Hstr_s.
  pose proof Hstr_s as [Hnames_s [Hkeys_s Hafter_s]].
  (* the ghost takes the same action *)
  destruct (apply_doc_cong O L a _ s g s' (u, ops) Hseq Ha) as [g' [[u2 ops2] [Hag Hsg']]].
  rewrite (img_nonrename O) in Hsg' by exact Hren.
  set (sm' := fold_left (sum_apply O) ops sm).
  assert (Hstr_s' : struct_ok O s' sm') by (eapply (struct_step O); [exact Hstr_s | exact Ha | exact Hloss | exact Hact]).
  (* the deltas of the cells with live names: they stay, or their cell is removed together with its column or table *)
  assert (Hd : forall t c r, is_defunct t = false -> is_defunct c = false ->
               (~ touch O a t c r -> dget sm' t c r = dget sm t c r) /\
               (dget sm' t c r <> None -> dget sm t c r <> None) /\
               (touch O a t c r -> dget sm' t c r <> None -> exists t0 rows, a = BulkRemoveRecord O t0 rows)).
  { intros t c r Hdt Hdc. destruct (is_removal O a) eqn:Erm.
    - pose proof (dget_removal_ops a s s' u ops sm t c r Ha Erm Hloss Hdt Hdc) as Hx. fold sm' in Hx.
      destruct a; try discriminate; cbn [touch] in *.
      + rewrite Hx. split; [reflexivity|]. split; [tauto|]. eauto.
      + destruct (name_eqb t t0 && name_eqb c c0) eqn:E.
        * apply andb_true_iff in E. destruct E as [E1 E2]. apply name_eqb_eq in E1, E2. subst. rewrite Hx.
          split; [tauto|]. split; congruence.
        * rewrite Hx. split; [reflexivity|]. split; [tauto|]. intros [-> ->]. rewrite !name_eqb_refl in E. discriminate.
      + name_cases t t0.
        * subst. rewrite Hx. split; [tauto|]. split; congruence.
        * rewrite Hx. split; [reflexivity|]. split; [tauto|]. intros ->. congruence.
    - pose proof (dget_nonremoval_ops a s s' u ops sm Ha Hren Erm t c r) as Hx. fold sm' in Hx. rewrite Hx.
      split; [reflexivity|]. split; [tauto|]. intros Ht Hdn. assert (false = true) by (apply (Hav t c r Ht Hdn)). discriminate. }
  assert (Hund : forall x, In x (rev u) -> is_rename O x = false /\ forall t c r, ~ touch O a t c r -> ~ touch O x t c r).
  { intros x Hx. apply in_rev in Hx. destruct (undo_touch O a s s' u ops Ha Hren x Hx) as [Hr Ht]. split; [exact Hr|].
    intros t c r Hn Htx. apply Hn. apply Ht. exact Htx. }
  assert (Hcre : forall t c r, existing O s t c r -> created O sm' t c r -> created O sm t c r).
  { intros t c r Hex Hc. eapply (sig_step O); try eassumption.
    rewrite (img_list_nonrename O) by (intros x Hx; apply (Hund x Hx)). exact Hc. }
  assert (Hnd' : forall t c r, cellv O s' t c r <> None -> is_defunct t = false /\ is_defunct c = false).
  { intros t c r Hc. apply (cellv_existing O) in Hc. destruct Hc as [T [C [Hf [Hc _]]]].
    destruct (proj1 Hstr_s' _ _ Hf) as [Hdt Hdc]. split; [exact Hdt | exact (Hdc _ _ Hc)]. }
  exists g'. constructor; cbn [m_doc m_undo m_sum m_stored].
  - (* undo: the REAL undo actions, replayed on the new ghost, lead to the old ghost, except for the removed cells that
       had a pending delta *)
    eapply (tr_okE_step s0 g g' (m_undo O m) u sm sm' D N DN); [exact Htr| | |exact HDN].
    + destruct (undo_inverse O L a s Hwfs s' u ops Ha) as [sr [Hrep Hsr]].
      destruct (replay_doc_cong O L _ _ _ _ _ Hsg' Hrep) as [gh [Hrepg Hsg]].
      rewrite (img_list_nonrename O) in Hsg by (intros x Hx; apply (Hund x Hx)).
      exists gh. split; [exact Hrepg|].
      pose proof (seq_ex_trans O L _ _ _ _ _ (seq_ex_trans O L _ _ _ _ _ (seq_ex_sym O L _ _ _ Hsg) Hsr) Hseq) as Hgg.
      assert (Hgg' : seq_ex O (fun t c r => N t c r \/ pending O sm t c r) gh g).
      { eapply (seq_ex_restrict O); [exact Hgg|]. intros t c r _ [[Hp|Hl]|Hp]; [right; exact Hp | exfalso; exact (Hloss _ _ _ Hl) | right; exact Hp]. }
      eapply (seq_ex_weaken O); [|eapply (seq_ex_refine O); [exact Hgg'|]].
      * intros t c r Hn. right. exact Hn.
      * intros t c r i1 v1 i2 v2 Hp Hc1 Hc2.
        destruct (touch_dec a t c r) as [Ht|Ht]; [left; split; assumption|]. right.
        assert (Hfx : cellv O gh t c r = cellv O g' t c r).
        { eapply (replay_frame O); [exact Hrepg|]. intros x Hx. destruct (Hund x Hx) as [Hr Htx]. split; [exact Hr | apply Htx; exact Ht]. }
        assert (Hfg : cellv O g' t c r = cellv O g t c r) by (eapply (frame O); [exact Hag | exact Hren | exact Ht]).
        rewrite Hfx, Hfg, Hc2 in Hc1. inversion Hc1; subst. apply (venc_refl O L).
    + intros t c r Hex Hi. left. rewrite (img_list_nonrename O) in Hi by (intros x Hx; apply (Hund x Hx)).
      apply Hcre; [|exact Hi]. eapply (existing_seq O); [exact (seq_ex_sym O L _ _ _ Hseq) | exact Hex].
  - exact (apply_doc_wf O L _ _ _ _ Hwfg Hag).
  - exact (apply_doc_wf O L _ _ _ _ Hwfs Ha).
  - eapply (struct_ok_seq_ex O); [exact (seq_ex_sym O L _ _ _ Hsg') | exact Hstr_s'].
  - apply (calc_rel_of O).
    + eapply (seq_ex_restrict O); [exact Hsg'|]. intros t c r Hex Hp. unfold pending in *.
      change (dget sm' t c r <> None). change (dget sm t c r <> None) in Hp.
      assert (Hcv : cellv O s' t c r <> None) by (apply (cellv_existing O); exact Hex).
      destruct (Hnd' t c r Hcv) as [Hdt Hdc]. destruct (Hd t c r Hdt Hdc) as [Hd1 _].
      destruct (touch_dec a t c r) as [Ht|Ht]; [|rewrite (Hd1 Ht); exact Hp].
      exfalso. apply Hcv. eapply (removed_gone O); [exact Ha | exact (Hav t c r Ht Hp) | exact Ht].
    + intros t c r i v ig vg b a0 Hcs Hcg Hdl. change (dget sm' t c r = Some (b, a0)) in Hdl.
      assert (Hcv : cellv O s' t c r <> None) by (rewrite Hcs; discriminate).
      destruct (Hnd' t c r Hcv) as [Hdt Hdc]. destruct (Hd t c r Hdt Hdc) as [Hd1 [Hd2 _]].
      assert (Hpn : dget sm t c r <> None) by (apply Hd2; rewrite Hdl; discriminate).
      destruct (touch_dec a t c r) as [Ht|Ht].
      * exfalso. apply Hcv. eapply (removed_gone O); [exact Ha | exact (Hav t c r Ht Hpn) | exact Ht].
      * rewrite (Hd1 Ht) in Hdl.
        rewrite (frame O a s s' _ t c r Ha Hren Ht) in Hcs.
        rewrite (frame O a g g' _ t c r Hag Hren Ht) in Hcg.
        destruct (calc_rel_cellv O g sm s t c r i v Hrel Hcs) as [vg0 [Hcg0 Hm]].
        rewrite Hcg in Hcg0. inversion Hcg0; subst. unfold dget in Hdl. rewrite Hdl in Hm. exact Hm.
  - intros t c r Hg.
    destruct (is_defunct t) eqn:Hdt; [left; reflexivity|]. destruct (is_defunct c) eqn:Hdc; [right; left; reflexivity|].
    right. right. destruct (Hd t c r Hdt Hdc) as [Hd1 [Hd2 Hd3]]. pose proof (Hd2 Hg) as Hg0.
    destruct (Hlive t c r Hg0) as [Hx|[Hx|[T [C [Hf [Hc Hrow]]]]]]; [congruence | congruence|].
    assert (Hntc : ~ touchc O a t c).
    { intro Htc. destruct (Hd3 (touchc_touch O a t c r Htc) Hg) as [t0 [rows ->]]. exact Htc. }
    pose proof (frame_col O a s s' _ t c Ha Hren Hntc) as Hcol. unfold colv in Hcol. rewrite Hf, Hc in Hcol.
    destruct (find_table O s' t) as [T'|] eqn:Ef'; [|discriminate].
    destruct (find_col O (t_cols O T') c) as [C'|] eqn:Ec'; [|discriminate].
    exists T', C'. split; [reflexivity|]. split; [exact Ec'|].
    destruct (touch_dec a t c r) as [Ht|Ht].
    + right. destruct (Hd3 Ht Hg) as [t0 [rows Ea]]. subst a. cbn [touch] in Ht. destruct Ht as [-> Hr].
      destruct Hrow as [Hrow|Hrow].
      * eapply rmrec_row_after; eassumption.
      * eapply row_after_ops; [exact Ha | exact Hren | exact Hdt | intros [] | exact Hrow].
    + destruct Hrow as [Hrow|Hrow].
      * left. assert (Hcv : cellv O s' t c r <> None).
        { rewrite (frame O a s s' _ t c r Ha Hren Ht). apply (cellv_existing O). exists T, C. auto. }
        apply (cellv_existing O) in Hcv. destruct Hcv as [T1 [C1 [Q1 [_ Q3]]]]. assert (T1 = T') by congruence. subst T1. exact Q3.
      * right. eapply row_after_ops; [exact Ha | exact Hren | exact Hdt | | exact Hrow].
        intro Hre. apply Ht. apply readds_touch. exact Hre.
  - eapply redo_snoc; [exact Hredo | exact Hag].
Qed.


(* ------------------------------------------------------------------------------------------------ *)
(* doModifyColumn: ModifyColumn, the conversion delta (if any value changed), the per-column flush.  The three events
   are one step of the invariant: in between, the undo list does not restore the converted cells. *)

Lemma replay_doc_wf : forall acts s s', wf_state O s -> replay_doc O acts s = Ok s' -> wf_state O s'.
Proof.
  induction acts as [|a rest IH]; intros s s' Hwf H; cbn in H.
  - inversion H; subst. exact Hwf.
  - destruct (apply_doc O a s) as [[s1 o1]|] eqn:Ea; cbn in H; [|discriminate].
    eapply IH; [|exact H]. destruct o1 as [u1 ops1]. exact (apply_doc_wf O L _ _ _ _ Hwf Ea).
Qed.

Lemma redo_app : forall s0 g S acts g',
  redo_ok s0 g S -> replay_doc O acts g = Ok g' -> redo_ok s0 g' (S ++ acts).
Proof.
  intros s0 g S acts g' H Hg s1 Hs1. destruct (H s1 Hs1) as [s2 [Hr Hs2]].
  rewrite (replay_doc_app O), Hr.
  destruct (replay_doc_cong_seq O L acts g s2 g' (seq_ex_sym O L _ _ _ Hs2) Hg) as [s2' [H2 Hs2']].
  exists s2'. split; [exact H2|]. exact (seq_ex_sym O L _ _ _ Hs2').
Qed.

Lemma colinfo_eqb_sym_false : forall a b, colinfo_eqb a b = false -> colinfo_eqb b a = false.
Proof.
  intros a b H. destruct (colinfo_eqb b a) eqn:E; [|reflexivity].
  apply colinfo_eqb_eq in E. subst b. assert (colinfo_eqb a a = true) by (apply colinfo_eqb_eq; reflexivity). congruence.
Qed.

(* the value the ghost column holds for a row (up to encoding): the `before` of its pending delta, or the real cell *)
Definition prev (sm : summary) (t c : name) (C : column) (r : Z) : V :=
  match dget sm t c r with Some (b, _) => b | None => col_get O C r end.

(* the side conditions of the doModifyColumn triple for one row.  p: the value before the ModifyColumn, f2: the cell after
   the triple, cd: the delta that the per-column flush pops *)
Definition rowcond (newT : name) (p f2 : Z -> V) (cd : coldelta O) (r : Z) : Prop :=
  match delta_get O cd r with
  | Some (b, a) =>
      venc O b (p r) = true /\
      ((venc O b a = false /\ venc O (f2 r) (vnorm O newT a) = true) \/
       (venc O b a = true /\ venc O (vnorm O newT (p r)) (p r) = true /\ venc O (f2 r) (vnorm O newT (p r)) = true))
  | None => venc O (vnorm O newT (p r)) (p r) = true /\ venc O (f2 r) (vnorm O newT (p r)) = true
  end.

Lemma same_marks_created : forall sm1 sm2 t c r, same_marks O sm1 sm2 -> created O sm2 t c r -> created O sm1 t c r.
Proof.
  intros sm1 sm2 t c r [M1 [M2 [M3 _]]] H. apply (created_iff O) in H. apply (created_iff O).
  rewrite M1, M2, M3. exact H.
Qed.

Lemma modflush_core : forall s0 g m t c mi T C s2 f2 cd sm3,
  gi s0 g D m ->
  find_table O (m_doc O m) t = Some T -> find_col O (t_cols O T) c = Some C ->
  colinfo_eqb (apply_modinfo mi (c_info O C)) (c_info O C) = false ->
  col_upd O (m_doc O m) s2 t c T C (apply_modinfo mi (c_info O C)) f2 ->
  wf_state O s2 ->
  same_marks O (m_sum O m) sm3 ->
  (forall t1 c1 r, dget sm3 t1 c1 r = if name_eqb t1 t && name_eqb c1 c then None else dget (m_sum O m) t1 c1 r) ->
  (forall t', td_find O (sm_tables O sm3) t' <> None -> t' = t \/ td_find O (sm_tables O (m_sum O m)) t' <> None) ->
  (forall r, delta_get O cd r <> None -> In r (t_rows O T)) ->
  (forall r, In r (t_rows O T) ->
             rowcond (ci_type (apply_modinfo mi (c_info O C))) (prev (m_sum O m) t c C) f2 cd r) ->
  exists g3, gi s0 g3 D (mkM O s2 (m_stored O m ++ [ModifyColumn O t c mi] ++ store_block O t c cd)
                           (m_undo O m ++ restore_block O sm3 t c cd ++ [ModifyColumn O t c (undo_modinfo mi (c_info O C))])
                           sm3).
Proof.
  intros s0 g m t c mi T C s2 f2 cd sm3 [Htr Hwfg Hwfs [Hnames [Hkeys Hafter]] Hrel Hlive Hredo]
         Ef Ec Hne Hupd_s Hwf2 Hmarks Hdget Hkeys3 Hdrows Hrc.
  set (p := prev (m_sum O m) t c C) in *.
  set (old := c_info O C) in *. set (new := apply_modinfo mi old) in *.
  set (a := ModifyColumn O t c mi). set (mb := ModifyColumn O t c (undo_modinfo mi old)).
  (* the ghost column *)
  destruct (calc_rel_table _ _ _ _ _ Hrel Ef) as [Tg [Efg [Hrows Hcols]]].
  pose proof (Hcols c) as Hcc. rewrite Ec in Hcc.
  destruct (find_col O (t_cols O Tg) c) as [Cg|] eqn:Ecg; [|contradiction].
  destruct Hcc as [Hinfo Hcells0].
  assert (Hcells : forall r, In r (t_rows O T) -> venc O (p r) (col_get O Cg r) = true).
  { intros r Hr. specialize (Hcells0 r Hr). unfold p, prev, dget.
    destruct (delta_get O (delta_of O (m_sum O m) t c) r) as [[b0 a0]|]; [apply Hcells0 | exact Hcells0]. }
  fold old in Hinfo.
  assert (Hcid : c <> id_name) by (eapply (wf_col_not_id O); [apply (Hwfg _ _ Efg) | exact Ecg]).
  destruct (Hwfg _ _ Efg) as [_ [_ Hnormg]]. pose proof (Hnormg _ _ Ecg) as Hng. unfold col_normal in Hng.
  (* ghost: the ModifyColumn *)
  assert (Hag : exists g1, apply_doc O a g = Ok (g1, ([mb], []))).
  { unfold a, mb, apply_doc. rewrite Efg, Ecg, <- Hinfo. fold new. rewrite Hne. eexists. reflexivity. }
  destruct Hag as [g1 Hag].
  assert (Hne_g : colinfo_eqb (apply_modinfo mi (c_info O Cg)) (c_info O Cg) = false) by (rewrite <- Hinfo; exact Hne).
  destruct (modify_upd O g t c mi g1 _ _ Tg Cg Hag Efg Ecg Hne_g) as [_ [_ Hupd1]]. rewrite <- Hinfo in Hupd1. fold new in Hupd1.
  pose proof (apply_doc_wf O L _ _ _ _ Hwfg Hag) as Hwfg1.
  (* ghost: the stored update *)
  assert (Hg1t : exists Tg1 Cg1, find_table O g1 t = Some Tg1 /\ find_col O (t_cols O Tg1) c = Some Cg1).
  { destruct Hupd1 as [_ [Tg1 [Cg1 [_ [A2 [_ [_ [_ [A6 _]]]]]]]]]. eauto. }
  destruct Hg1t as [Tg1 [Cg1 [Efg1 Ecg1]]].
  destruct (col_upd_trans O g g1 g1 t c Tg Cg new _ Tg1 Cg1 _ _ Hupd1 (col_upd_refl O g1 t c Tg1 Cg1 Efg1 Ecg1))
    as [_ [Hrows1 [Hinfo1 Hget1]]].
  destruct (store_block_upd O g1 t c cd Tg1 Cg1 Efg1 Ecg1 Hcid) as [g3 [Hrep3 Hupd2]].
  { intros r Hr. rewrite Hrows1. apply Hrows. apply Hdrows. exact Hr. }
  destruct (col_upd_trans O _ _ _ _ _ _ _ _ _ _ _ _ _ Hupd1 Hupd2) as [Hupd13 _].
  rewrite Hinfo1 in Hupd13.
  pose proof (replay_doc_wf _ _ _ Hwfg1 Hrep3) as Hwfg3.
  assert (Hrowcases : forall r, In r (t_rows O T) -> ~ In r (changed_rows O cd) ->
            venc O (vnorm O (ci_type new) (p r)) (p r) = true /\ venc O (f2 r) (vnorm O (ci_type new) (p r)) = true).
  { intros r Hr Hnc. pose proof (Hrc r Hr) as H. unfold rowcond in H.
    destruct (delta_get O cd r) as [[b a0]|] eqn:Ed; [|exact H].
    destruct H as [Hb [[Hba _]|[_ H]]]; [|exact H].
    exfalso. apply Hnc. eapply (changed_rows_complete O); eassumption. }
  assert (Hafterv : forall r b a0, In r (t_rows O T) -> delta_get O cd r = Some (b, a0) ->
            venc O (f2 r) (vnorm O (ci_type new) a0) = true).
  { intros r b a0 Hr Hd. pose proof (Hrc r Hr) as H. unfold rowcond in H. rewrite Hd in H.
    destruct H as [Hb [[_ H]|[Hba [_ H]]]]; [exact H|].
    eapply (venc_trans O L); [exact H|]. apply (vnorm_enc O L).
    eapply (venc_trans O L); [apply (venc_sym O L); exact Hb | exact Hba]. }
  (* the value of the ghost column after the stored update, row by row *)
  set (f3 := fun r => if zmem r (changed_rows O cd)
                      then match delta_get O cd r with
                           | Some (_, a) => vnorm O (ci_type (c_info O Cg1)) a
                           | None => col_get O Cg1 r
                           end
                      else col_get O Cg1 r) in *.
  exists g3. constructor; cbn [m_doc m_undo m_sum m_stored].
  - (* undo *)
    assert (Hg3t : exists Tg3 Cg3, find_table O g3 t = Some Tg3 /\ find_col O (t_cols O Tg3) c = Some Cg3 /\ c_info O Cg3 = new).
    { destruct Hupd13 as [_ [Tg3 [Cg3 [_ [A2 [_ [_ [_ [A6 [A7 _]]]]]]]]]]. eauto. }
    destruct Hg3t as [Tg3 [Cg3 [Efg3 [Ecg3 Hinfo3]]]].
    assert (Hres : apply_modinfo (undo_modinfo mi old) new = old) by apply undo_modinfo_restores.
    assert (Hag3 : exists g3', apply_doc O mb g3 = Ok (g3', ([ModifyColumn O t c (undo_modinfo (undo_modinfo mi old) new)], []))).
    { unfold mb, apply_doc. rewrite Efg3, Ecg3, Hinfo3, Hres. rewrite (colinfo_eqb_sym_false _ _ Hne). eexists. reflexivity. }
    destruct Hag3 as [g3' Hag3].
    assert (Hne3 : colinfo_eqb (apply_modinfo (undo_modinfo mi old) (c_info O Cg3)) (c_info O Cg3) = false)
      by (rewrite Hinfo3, Hres; apply colinfo_eqb_sym_false; exact Hne).
    destruct (modify_upd O g3 t c _ g3' _ _ Tg3 Cg3 Hag3 Efg3 Ecg3 Hne3) as [_ [_ Hupd3]].
    rewrite Hinfo3, Hres in Hupd3.
    destruct (col_upd_trans O _ _ _ _ _ _ _ _ _ _ _ _ _ Hupd13 Hupd3) as [Hupd_g3' [_ [_ Hget3]]].
    assert (Hrep_mb : replay_doc O [mb] g3 = Ok g3') by (cbn [replay_doc]; rewrite Hag3; reflexivity).
    assert (Hg3'g : seq_ex O (fun t' c' r => t' = t /\ c' = c /\ In r (changed_rows O cd)) g3' g).
    { rewrite Hinfo in Hupd_g3'. eapply (seq_ex_col_upd_self O L); [exact Hupd_g3'|].
      intros r Hr. destruct (in_dec Z.eq_dec r (changed_rows O cd)) as [Hch|Hch]; [left; auto|]. right.
      rewrite (Hget3 r Hr). unfold f3. assert (zmem r (changed_rows O cd) = false) as -> by (apply zmem_false; exact Hch).
      rewrite (Hget1 r Hr).
      assert (HrT : In r (t_rows O T)) by (apply Hrows; exact Hr).
      destruct (Hrowcases r HrT Hch) as [Hrt _].
      assert (H1 : venc O (vnorm O (ci_type new) (col_get O Cg r)) (col_get O Cg r) = true).
      { eapply (venc_trans O L); [apply (vnorm_enc O L); apply (venc_sym O L); apply Hcells; exact HrT|].
        eapply (venc_trans O L); [exact Hrt | apply Hcells; exact HrT]. }
      eapply (venc_trans O L); [apply (vnorm_enc O L); exact H1|]. apply Hng. exact Hr. }
    assert (Hxg : seq_ex O (block_cells O sm3 t c cd) g3' g).
    { eapply (seq_ex_weaken O); [|exact Hg3'g]. intros t1 c1 r1 H1. right. exact H1. }
    destruct (block_one O L sm3 g3' g t c cd Hxg Hwfg) as [s'' [Hrb Hs'']].
    { intros Td Cd r b a0 H1 H2 Hd. assert (Td = Tg) by congruence. subst Td. assert (Cd = Cg) by congruence. subst Cd.
      assert (HrT : In r (t_rows O T)) by (apply Hdrows; rewrite Hd; discriminate).
      pose proof (Hrc r HrT) as H. unfold rowcond in H. rewrite Hd in H. destruct H as [Hb _].
      eapply (venc_trans O L); [exact Hb | apply Hcells; exact HrT]. }
    { intros r Hd. exists Tg, Cg. split; [exact Efg|]. split; [exact Ecg|]. apply Hrows. apply Hdrows. exact Hd. }
    assert (Hnr : forall x, In x (rev (restore_block O sm3 t c cd ++ [mb])) -> is_rename O x = false).
    { intros x Hx. apply in_rev in Hx. apply in_app_or in Hx. destruct Hx as [Hx|[<-|[]]]; [|reflexivity].
      unfold restore_block in Hx. destruct (restore_rows O sm3 t c cd); [destruct Hx|]. destruct Hx as [<-|[]]. reflexivity. }
    rewrite <- (app_nil_r D).
    eapply (tr_okE_step s0 g g3 (m_undo O m) (restore_block O sm3 t c cd ++ [mb]) (m_sum O m) sm3 D no_cells []); [exact Htr| | |].
    + exists s''. split.
      * rewrite rev_app_distr. cbn [rev app]. change (mb :: rev (restore_block O sm3 t c cd)) with ([mb] ++ rev (restore_block O sm3 t c cd)).
        rewrite (replay_doc_app O), Hrep_mb. exact Hrb.
      * eapply (seq_ex_weaken O); [|exact Hs'']. intros t1 c1 r1 Hc. left. eapply same_marks_created; eassumption.
    + intros t1 c1 r1 _ Hi. left. rewrite (img_list_nonrename O) in Hi by exact Hnr. eapply same_marks_created; eassumption.
    + intros t1 c1 r1 Hi. exfalso. eapply (img_list_empty O); [|exact Hi]. intros ? ? ? [].
  - exact Hwfg3.
  - exact Hwf2.
  - split; [|split].
    + eapply (col_upd_names_ok O); [exact Hupd13 | exact Hnames].
    + intros t' Ht'. destruct (Hkeys3 t' Ht') as [->|Hk].
      * left. destruct Hupd13 as [_ [Tg3 [Cg3 [_ [A2 _]]]]]. rewrite A2. discriminate.
      * destruct (Hkeys t' Hk) as [Hk'|Hk']; [|right; exact Hk']. left.
        name_cases t' t.
        -- subst t'. destruct Hupd13 as [_ [Tg3 [Cg3 [_ [A2 _]]]]]. rewrite A2. discriminate.
        -- destruct Hupd13 as [H1 _]. rewrite H1 by assumption. exact Hk'.
    + intros t1 T1' r Hf Hr. destruct (col_upd_rows O _ _ _ _ _ _ _ _ t1 T1' Hupd13 Hf) as [T1 [Hf1 Hr1]].
      destruct Hmarks as [_ [_ [_ M4]]]. rewrite <- M4. eapply Hafter; [exact Hf1 | rewrite <- Hr1; exact Hr].
  - eapply (calc_rel_col_upd O); [exact Hrel | exact Hupd_s | exact Hupd13 | | |].
    + intros t1 c1 r Hne1. change (dget sm3 t1 c1 r = dget (m_sum O m) t1 c1 r). rewrite Hdget.
      destruct (name_eqb t1 t && name_eqb c1 c) eqn:E; [|reflexivity]. exfalso. apply andb_true_iff in E. destruct E as [E1 E2].
      apply name_eqb_eq in E1, E2. subst. apply Hne1. reflexivity.
    + intros r. change (dget sm3 t c r = None). rewrite Hdget, !name_eqb_refl. reflexivity.
    + intros r Hr. cbv beta. unfold f3.
      assert (Hrg : In r (t_rows O Tg)) by (apply Hrows; exact Hr). rewrite (Hget1 r Hrg).
      destruct (zmem r (changed_rows O cd)) eqn:Ez.
      * destruct (delta_get O cd r) as [[b a0]|] eqn:Ed.
        -- eapply Hafterv; eassumption.
        -- exfalso. apply zmem_In in Ez. exact (changed_rows_in O _ _ Ez Ed).
      * apply zmem_false in Ez. destruct (Hrowcases r Hr Ez) as [_ H2].
        eapply (venc_trans O L); [exact H2|]. apply (vnorm_enc O L). apply Hcells. exact Hr.
  - intros t1 c1 r Hg. rewrite Hdget in Hg. destruct (name_eqb t1 t && name_eqb c1 c); [congruence|].
    destruct (Hlive t1 c1 r Hg) as [Hdf|[Hdf|[T1 [C1 [Q1 [Q2 Q3]]]]]]; [left; exact Hdf | right; left; exact Hdf|].
    destruct (col_upd_key O _ _ _ _ _ _ _ _ _ _ _ _ Hupd_s Q1 Q2) as [T1' [C1' [Q1' [Q2' Qr]]]].
    right. right. exists T1', C1'. split; [exact Q1'|]. split; [exact Q2'|]. rewrite Qr.
    destruct Hmarks as [_ [_ [_ M4]]]. rewrite <- M4. exact Q3.
  - rewrite app_assoc. eapply redo_app; [|exact Hrep3]. eapply redo_snoc; [exact Hredo | exact Hag].
Qed.


(* popping one column delta out of the summary (pop_column_delta_as_actions) *)
Definition pop_delta (sm : summary) (t c : name) (td : tdelta O) : summary :=
  with_table O sm t (mkTD O (td_before O td) (td_after O td) (td_colren O td) (cd_del O (td_deltas O td) c)).

Lemma pop_spec : forall (sm : summary) t c td,
  td_find O (sm_tables O sm) t = Some td ->
  same_marks O sm (pop_delta sm t c td) /\
  (forall t' c' r, dget (pop_delta sm t c td) t' c' r = if name_eqb t' t && name_eqb c' c then None else dget sm t' c' r) /\
  (forall t', td_find O (sm_tables O (pop_delta sm t c td)) t' <> None <-> td_find O (sm_tables O sm) t' <> None).
Proof.
  intros sm t c td Htd. unfold pop_delta. split; [|split].
  - repeat split.
    + intros t' c'. unfold col_created. rewrite (td_find_with_table O). name_cases t' t; [|reflexivity]. subst t'. rewrite Htd. reflexivity.
    + intros t' r. unfold row_before. rewrite (td_find_with_table O). name_cases t' t; [|reflexivity]. subst t'. rewrite Htd. reflexivity.
    + intros t' r. unfold row_after. rewrite (td_find_with_table O). name_cases t' t; [|reflexivity]. subst t'. rewrite Htd. reflexivity.
  - intros t' c' r. unfold dget, delta_of. rewrite (td_find_with_table O). name_cases t' t; cbn [andb]; [|reflexivity].
    subst t'. rewrite Htd. cbn [td_deltas]. rewrite (cd_find_del O). destruct (name_eqb c' c); reflexivity.
  - intros t'. rewrite (td_find_with_table O). name_cases t' t; [|tauto]. subst t'. rewrite Htd. split; discriminate.
Qed.

Lemma flushcol_step : forall m t c td cd U0 mb,
  m_undo O m = U0 ++ [mb] -> is_modify O mb = true ->
  td_find O (sm_tables O (m_sum O m)) t = Some td -> cd_find O (td_deltas O td) c = Some cd ->
  delta_ok O (pop_delta (m_sum O m) t c td) t c cd ->
  step O m (FlushCol O t c) =
  Ok (mkM O (m_doc O m) (m_stored O m ++ store_block O t c cd)
          (U0 ++ restore_block O (pop_delta (m_sum O m) t c td) t c cd ++ [mb]) (pop_delta (m_sum O m) t c td)).
Proof.
  intros m t c td cd U0 mb Hu Hmod Htd Hcd Hok. cbn [step]. rewrite Hu, rev_app_distr. cbn [rev app]. rewrite Hmod.
  unfold flush_column. rewrite Htd, Hcd. fold (pop_delta (m_sum O m) t c td).
  assert (Htd' : td_find O (sm_tables O (pop_delta (m_sum O m) t c td)) t =
                 Some (mkTD O (td_before O td) (td_after O td) (td_colren O td) (cd_del O (td_deltas O td) c))).
  { unfold pop_delta. rewrite (td_find_with_table O), name_eqb_refl. reflexivity. }
  rewrite (cta_undo' O _ t c cd _ _ _ Htd' Hok). cbn [bind]. rewrite rev_involutive, <- app_assoc. reflexivity.
Qed.


Definition no_delta_entry (sm : summary) (t c : name) : bool :=
  match td_find O (sm_tables O sm) t with
  | None => true
  | Some td => match cd_find O (td_deltas O td) c with None => true | Some _ => false end
  end.

Definition rowcondb (newT : name) (p f2 : Z -> V) (cd : coldelta O) (r : Z) : bool :=
  match delta_get O cd r with
  | Some (b, a) =>
      venc O b (p r) &&
      (if venc O b a then venc O (vnorm O newT (p r)) (p r) && venc O (f2 r) (vnorm O newT (p r))
       else venc O (f2 r) (vnorm O newT a))
  | None => venc O (vnorm O newT (p r)) (p r) && venc O (f2 r) (vnorm O newT (p r))
  end.

Lemma rowcondb_sound : forall newT p f2 cd r, rowcondb newT p f2 cd r = true -> rowcond newT p f2 cd r.
Proof.
  intros newT p f2 cd r H. unfold rowcondb in H. unfold rowcond. destruct (delta_get O cd r) as [[b a]|].
  - apply andb_true_iff in H. destruct H as [H1 H2]. split; [exact H1|]. destruct (venc O b a) eqn:E.
    + right. apply andb_true_iff in H2. destruct H2 as [H2 H3]. auto.
    + left. auto.
  - apply andb_true_iff in H. exact H.
Qed.

Definition modflush_calcs (t c : name) (ochs : option (list (change O))) : list (event O) :=
  match ochs with Some chs => [Calc O t c chs] | None => [] end.

Definition modflush_events (t c : name) (mi : modinfo) (ochs : option (list (change O))) : list (event O) :=
  (Doc O (ModifyColumn O t c mi) :: modflush_calcs t c ochs) ++ [FlushCol O t c].

(* the side conditions of the triple, checked on the machine BEFORE it: the ModifyColumn changes the column info; after
   the ModifyColumn and the conversion delta, every row of the delta that the flush will pop exists, and every row of the
   table passes rowcond (prev: the value before, the cell after the two events: the value after) *)
Definition modflush_okb (m : mstate O) (t c : name) (mi : modinfo) (ochs : option (list (change O))) : bool :=
  match find_table O (m_doc O m) t with
  | Some T =>
      match find_col O (t_cols O T) c with
      | Some C =>
          let new := apply_modinfo mi (c_info O C) in
          negb (colinfo_eqb new (c_info O C)) &&
          match steps O m (Doc O (ModifyColumn O t c mi) :: modflush_calcs t c ochs) with
          | Ok m2 =>
              match find_table O (m_doc O m2) t with
              | Some T2 =>
                  match find_col O (t_cols O T2) c with
                  | Some C2 =>
                      let cd := delta_of O (m_sum O m2) t c in
                      forallb (fun ch : change O => zmem (fst ch) (t_rows O T)) cd &&
                      forallb (rowcondb (ci_type new) (prev (m_sum O m) t c C) (col_get O C2) cd) (t_rows O T)
                  | None => false
                  end
              | None => false
              end
          | Err _ => false
          end
      | None => false
      end
  | None => false
  end.

Lemma delta_get_In : forall (cd : coldelta O) r x, delta_get O cd r = Some x -> In (r, x) cd.
Proof.
  induction cd as [|[r0 x0] cd IH]; intros r x H; cbn in H; [discriminate|].
  destruct (Z.eqb_spec r r0) as [->|Hne]; [inversion H; subst; left; reflexivity | right; apply IH; exact H].
Qed.

Lemma delta_get_rows : forall (cd : coldelta O) (rows : list Z) r,
  forallb (fun ch : change O => zmem (fst ch) rows) cd = true -> delta_get O cd r <> None -> In r rows.
Proof.
  intros cd rows r H Hd. destruct (delta_get O cd r) as [x|] eqn:E; [|congruence].
  rewrite forallb_forall in H. specialize (H _ (delta_get_In _ _ _ E)). cbn [fst] in H. apply zmem_In. exact H.
Qed.

Lemma gi_modflush : forall s0 g m t c mi ochs m3,
  gi s0 g D m -> modflush_okb m t c mi ochs = true -> steps O m (modflush_events t c mi ochs) = Ok m3 ->
  exists g3, gi s0 g3 D m3.
Proof.
  intros s0 g m t c mi ochs m3 Hgi Hok H. unfold modflush_okb in Hok.
  destruct (find_table O (m_doc O m) t) as [T|] eqn:Ef; [|discriminate].
  destruct (find_col O (t_cols O T) c) as [C|] eqn:Ec; [|discriminate]. cbv zeta in Hok.
  apply andb_true_iff in Hok. destruct Hok as [H1 Hok]. apply negb_true_iff in H1.
  unfold modflush_events in H. rewrite (steps_app O) in H.
  destruct (steps O m (Doc O (ModifyColumn O t c mi) :: modflush_calcs t c ochs)) as [m2|] eqn:E12; [|discriminate].
  destruct (find_table O (m_doc O m2) t) as [T2|] eqn:Ef2; [|discriminate].
  destruct (find_col O (t_cols O T2) c) as [C2|] eqn:Ec2; [|discriminate].
  apply andb_true_iff in Hok. destruct Hok as [H3 H4]. rewrite forallb_forall in H4.
  set (cd := delta_of O (m_sum O m2) t c) in *.
  (* the first two events *)
  cbn [steps] in E12.
  destruct (step O m (Doc O (ModifyColumn O t c mi))) as [m1|] eqn:E1; cbn [bind] in E12; [|discriminate].
  destruct (step_doc_inv _ _ _ E1) as [s1 [u [ops [Ha ->]]]].
  destruct (modify_upd O _ t c mi s1 u ops T C Ha Ef Ec H1) as [-> [-> Hupd1]]. cbn [fold_left] in *.
  destruct Hgi as [Htr Hwfg Hwfs [Hnames [Hkeys Hafter]] Hrel Hlive Hredo].
  pose proof (apply_doc_wf O L _ _ _ _ Hwfs Ha) as Hwf1.
  pose proof (mkGI s0 g D m Htr Hwfg Hwfs (conj Hnames (conj Hkeys Hafter)) Hrel Hlive Hredo) as Hgi.
  set (mb := ModifyColumn O t c (undo_modinfo mi (c_info O C))) in *.
  (* what the machine is after the ModifyColumn and the conversion delta *)
  assert (Hm2 : exists s2 sm2,
            m2 = mkM O s2 (m_stored O m ++ [ModifyColumn O t c mi]) (m_undo O m ++ [mb]) sm2 /\
            wf_state O s2 /\ same_marks O (m_sum O m) sm2 /\
            (forall t1 c1 r, name_eqb t1 t && name_eqb c1 c = false -> dget sm2 t1 c1 r = dget (m_sum O m) t1 c1 r) /\
            (forall t', td_find O (sm_tables O sm2) t' <> None -> t' = t \/ td_find O (sm_tables O (m_sum O m)) t' <> None) /\
            exists f, col_upd O (m_doc O m) s2 t c T C (apply_modinfo mi (c_info O C)) f).
  { destruct ochs as [chs|]; cbn [modflush_calcs steps] in E12.
    - destruct (step O _ (Calc O t c chs)) as [m2'|] eqn:E2; cbn [bind] in E12; [|discriminate]. inversion E12; subst m2'; clear E12.
      cbn [step m_doc m_stored m_undo m_sum] in E2.
      destruct (calc_cells O s1 t c chs) as [s2|] eqn:Ecc; cbn [bind] in E2; [|discriminate]. inversion E2; subst m2; clear E2.
      assert (Hs1t : exists T1 C1, find_table O s1 t = Some T1 /\ find_col O (t_cols O T1) c = Some C1).
      { destruct Hupd1 as [_ [T1 [C1 [_ [A2 [_ [_ [_ [A6 _]]]]]]]]]. eauto. }
      destruct Hs1t as [T1 [C1 [Ef1 Ec1]]].
      pose proof (calc_upd O s1 t c chs s2 T1 C1 Ecc Ef1 Ec1) as Hupd2.
      destruct (col_upd_trans O _ _ _ _ _ _ _ _ _ _ _ _ _ Hupd1 Hupd2) as [Hupd12 [_ [Hinfo1 _]]]. rewrite Hinfo1 in Hupd12.
      destruct (add_changes_spec O (m_sum O m) t c chs) as [N1 [N2 [N3 [N4 N5]]]].
      exists s2, (sum_apply O (m_sum O m) (SAddChanges O t c chs)). split; [reflexivity|].
      split; [exact (calc_cells_wf O L _ _ _ _ _ Hwf1 Ecc)|]. split.
      { split; [|split; [|split]]; intros; symmetry; [apply N1 | apply N2 | apply N3 | apply N4]. }
      split; [intros t1 c1 r E; unfold dget; rewrite N5, E; reflexivity|]. split.
      { intros t' Ht'. cbn [sum_apply] in Ht'. rewrite (td_find_with_table O) in Ht'. name_cases t' t; [left; assumption | right; exact Ht']. }
      eexists. exact Hupd12.
    - inversion E12; subst m2; clear E12. exists s1, (m_sum O m). split; [reflexivity|]. split; [exact Hwf1|].
      split; [repeat split; reflexivity|]. split; [reflexivity|]. split; [intros t' Ht'; right; exact Ht'|]. eexists. exact Hupd1. }
  destruct Hm2 as [s2 [sm2 [-> [Hwf2 [Hm02 [Hd02 [Hk02 [f Hupd_s0]]]]]]]]. cbn [m_doc m_sum m_stored m_undo] in *.
  destruct (col_upd_self_fun O _ _ _ _ _ _ _ _ T2 C2 Hupd_s0 Ef2 Ec2) as [Hupd_s [_ _]].
  assert (Hdrows : forall r, delta_get O cd r <> None -> In r (t_rows O T)) by (intros r Hd; eapply delta_get_rows; eassumption).
  destruct (calc_rel_table _ _ _ _ _ Hrel Ef) as [Tg [Efg [Hrows Hcols]]].
  (* the per-column flush *)
  cbn [steps] in H.
  destruct (td_find O (sm_tables O sm2) t) as [td2|] eqn:Etd2.
  - destruct (cd_find O (td_deltas O td2) c) as [cd2|] eqn:Ecd2.
    + assert (Hcd : cd = cd2) by (unfold cd, delta_of; rewrite Etd2, Ecd2; reflexivity). subst cd2.
      destruct (pop_spec sm2 t c td2 Etd2) as [Hm23 [Hd23 Hk23]].
      set (sm3 := pop_delta sm2 t c td2) in *.
      assert (Hmarks : same_marks O (m_sum O m) sm3).
      { destruct Hm02 as [A1 [A2 [A3 A4]]]. destruct Hm23 as [M1 [M2 [M3 M4]]]. split; [|split; [|split]]; intros; congruence. }
      assert (Hdok : delta_ok O sm3 t c cd).
      { intros _. destruct (Hnames _ _ Efg) as [Hdt Hdc]. split; [exact Hdt|]. split.
        - pose proof (Hcols c) as Hcc. rewrite Ec in Hcc. destruct (find_col O (t_cols O Tg) c) as [Cg|] eqn:Ecg; [|contradiction].
          exact (Hdc _ _ Ecg).
        - intros r Hd. destruct Hmarks as [_ [_ [_ M4]]]. rewrite <- M4. eapply Hafter; [exact Efg|]. apply Hrows. apply Hdrows. exact Hd. }
      rewrite (flushcol_step _ t c td2 cd (m_undo O m) mb) in H; [| reflexivity | reflexivity | exact Etd2 | exact Ecd2 | exact Hdok].
      cbn [bind m_doc m_stored m_undo m_sum] in H. inversion H; subst m3; clear H. fold sm3. rewrite <- app_assoc.
      eapply modflush_core; try eassumption.
      * intros t1 c1 r. rewrite Hd23. destruct (name_eqb t1 t && name_eqb c1 c) eqn:E; [reflexivity|]. apply Hd02. exact E.
      * intros t' Ht'. apply Hk23 in Ht'. apply Hk02. exact Ht'.
      * intros r Hr. apply rowcondb_sound. apply H4. exact Hr.
    + (* no entry for the column: the flush does nothing *)
      assert (Hcd : cd = []) by (unfold cd, delta_of; rewrite Etd2, Ecd2; reflexivity).
      cbn [step m_doc m_stored m_undo m_sum] in H. rewrite rev_app_distr in H. cbn [rev app is_modify mb] in H.
      unfold flush_column in H. rewrite Etd2, Ecd2 in H. cbn [bind] in H. inversion H; subst m3; clear H. rewrite rev_involutive.
      destruct (modflush_core s0 g m t c mi T C s2 (col_get O C2) [] sm2 Hgi Ef Ec H1 Hupd_s Hwf2 Hm02) as [g3 Hg3].
      * intros t1 c1 r. destruct (name_eqb t1 t && name_eqb c1 c) eqn:E; [|apply Hd02; exact E].
        apply andb_true_iff in E. destruct E as [Q1 Q2]. apply name_eqb_eq in Q1, Q2. subst t1 c1. unfold dget, delta_of. rewrite Etd2, Ecd2. reflexivity.
      * exact Hk02.
      * intros r Hd. cbn in Hd. congruence.
      * intros r Hr. apply rowcondb_sound. rewrite <- Hcd. apply H4. exact Hr.
      * exists g3. rewrite (restore_block_nil O) in Hg3.
        assert (Hsb : store_block O t c [] = []) by reflexivity. rewrite Hsb in Hg3. cbn [app] in Hg3. exact Hg3.
  - assert (Hcd : cd = []) by (unfold cd, delta_of; rewrite Etd2; reflexivity).
    cbn [step m_doc m_stored m_undo m_sum] in H. rewrite rev_app_distr in H. cbn [rev app is_modify mb] in H.
    unfold flush_column in H. rewrite Etd2 in H. cbn [bind] in H. inversion H; subst m3; clear H. rewrite rev_involutive.
    destruct (modflush_core s0 g m t c mi T C s2 (col_get O C2) [] sm2 Hgi Ef Ec H1 Hupd_s Hwf2 Hm02) as [g3 Hg3].
    * intros t1 c1 r. destruct (name_eqb t1 t && name_eqb c1 c) eqn:E; [|apply Hd02; exact E].
      apply andb_true_iff in E. destruct E as [Q1 Q2]. apply name_eqb_eq in Q1, Q2. subst t1 c1. unfold dget, delta_of. rewrite Etd2. reflexivity.
    * exact Hk02.
    * intros r Hd. cbn in Hd. congruence.
    * intros r Hr. apply rowcondb_sound. rewrite <- Hcd. apply H4. exact Hr.
    * exists g3. rewrite (restore_block_nil O) in Hg3.
      assert (Hsb : store_block O t c [] = []) by reflexivity. rewrite Hsb in Hg3. cbn [app] in Hg3. exact Hg3.
Qed.


(* ------------------------------------------------------------------------------------------------ *)
(* the per-column flush of doModifyColumn when the column has no pending delta: nothing happens *)


Lemma gi_flushcol_nil : forall s0 g m m' t c,
  gi s0 g D m -> no_delta_entry (m_sum O m) t c = true -> step O m (FlushCol O t c) = Ok m' -> gi s0 g D m'.
Proof.
  intros s0 g m m' t c Hgi Hno H. cbn [step] in H.
  destruct (rev (m_undo O m)) as [|last before_rev] eqn:Er; [discriminate|].
  destruct (is_modify O last); [|discriminate].
  assert (Hfl : flush_column O (m_sum O m) t c (m_stored O m, rev before_rev) = Ok (m_sum O m, (m_stored O m, rev before_rev))).
  { unfold flush_column. unfold no_delta_entry in Hno. destruct (td_find O (sm_tables O (m_sum O m)) t) as [td|]; [|reflexivity].
    destruct (cd_find O (td_deltas O td) c); [discriminate | reflexivity]. }
  rewrite Hfl in H. cbn in H. inversion H; subst m'; clear H.
  assert (Hu : rev before_rev ++ [last] = m_undo O m).
  { change (rev before_rev ++ [last]) with (rev (last :: before_rev)). rewrite <- Er. apply rev_involutive. }
  rewrite Hu. destruct m; exact Hgi.
Qed.

(* ------------------------------------------------------------------------------------------------ *)
(* the mixed phase: calc deltas interleaved with the doc actions the ghost document can follow *)

Definition isnil {A : Type} (l : list A) : bool := match l with [] => true | _ => false end.

Definition quietb (sm : summary) : bool :=
  forallb (fun td => forallb (fun cd => isnil (snd cd)) (td_deltas O (snd td))) (sm_tables O sm).

Lemma td_find_In : forall l t d, td_find O l t = Some d -> In (t, d) l.
Proof.
  induction l as [|[t0 d0] l IH]; intros t d H; cbn in H; [discriminate|].
  name_cases t t0; [inversion H; subst; left; reflexivity | right; apply IH; exact H].
Qed.

Lemma cd_find_In : forall l c d, cd_find O l c = Some d -> In (c, d) l.
Proof.
  induction l as [|[c0 d0] l IH]; intros c d H; cbn in H; [discriminate|].
  name_cases c c0; [inversion H; subst; left; reflexivity | right; apply IH; exact H].
Qed.

Lemma quietb_sound : forall sm, quietb sm = true -> quiet sm.
Proof.
  intros sm H t c r. unfold dget, delta_of. unfold quietb in H. rewrite forallb_forall in H.
  destruct (td_find O (sm_tables O sm) t) as [td|] eqn:Et; [|reflexivity].
  specialize (H _ (td_find_In _ _ _ Et)). cbn [snd] in H. rewrite forallb_forall in H.
  destruct (cd_find O (td_deltas O td) c) as [cd|] eqn:Ec; [|reflexivity].
  specialize (H _ (cd_find_In _ _ _ Ec)). cbn [snd] in H. destruct cd; [reflexivity | discriminate].
Qed.

Definition touchb (a : action) (t c : name) (r : Z) : bool :=
  match a with
  | BulkAddRecord _ t' rows _ => name_eqb t t' && zmem r rows
  | BulkRemoveRecord _ t' rows => name_eqb t t' && zmem r rows
  | BulkUpdateRecord _ t' rows cols => name_eqb t t' && zmem r rows && nmem c (map fst cols)
  | ReplaceTableData _ t' _ _ => name_eqb t t'
  | AddColumn _ t' c' _ => name_eqb t t' && name_eqb c c'
  | RemoveColumn _ t' c' => name_eqb t t' && name_eqb c c'
  | RenameColumn _ t' old new => name_eqb t t' && (name_eqb c old || name_eqb c new)
  | ModifyColumn _ t' c' _ => name_eqb t t' && name_eqb c c'
  | AddTable _ t' _ => name_eqb t t'
  | RemoveTable _ t' => name_eqb t t'
  | RenameTable _ old new => name_eqb t old || name_eqb t new
  end.

Lemma touch_touchb : forall a t c r, touch O a t c r -> touchb a t c r = true.
Proof.
  intros a t c r H. destruct a; cbn in *;
    repeat match goal with
           | H : _ /\ _ |- _ => destruct H
           | H : _ \/ _ |- _ => destruct H
           end; subst; rewrite ?name_eqb_refl, ?orb_true_r; cbn;
    repeat match goal with
           | H : In _ _ |- _ => first [apply zmem_In in H | apply nmem_In in H]; rewrite H
           end; reflexivity.
Qed.

(* no cell with a pending delta is touched by the action *)
Definition avoidb (a : action) (sm : summary) : bool :=
  forallb (fun td => forallb (fun cd => forallb (fun ch : change O => negb (touchb a (fst td) (fst cd) (fst ch))) (snd cd))
                             (td_deltas O (snd td))) (sm_tables O sm).

Lemma avoidb_sound : forall a sm, avoidb a sm = true -> forall t c r, touch O a t c r -> dget sm t c r = None.
Proof.
  intros a sm H t c r Ht. destruct (dget sm t c r) as [x|] eqn:E; [|reflexivity]. exfalso.
  unfold dget, delta_of in E. unfold avoidb in H. rewrite forallb_forall in H.
  destruct (td_find O (sm_tables O sm) t) as [td|] eqn:Et; [|discriminate].
  specialize (H _ (td_find_In _ _ _ Et)). cbn [fst snd] in H. rewrite forallb_forall in H.
  destruct (cd_find O (td_deltas O td) c) as [cd|] eqn:Ec; [|discriminate].
  specialize (H _ (cd_find_In _ _ _ Ec)). cbn [fst snd] in H. rewrite forallb_forall in H.
  specialize (H _ (delta_get_In _ _ _ E)). cbn [fst] in H. rewrite (touch_touchb _ _ _ _ Ht) in H. discriminate.
Qed.

(* the pending cells an action touches, and what becomes of a list of cells along a list of (undo) actions *)
Definition touched_pending (a : action) (sm : summary) : list cell :=
  flat_map (fun td => flat_map (fun cd => flat_map (fun ch : change O =>
     if touchb a (fst td) (fst cd) (fst ch) then [(fst td, fst cd, fst ch)] else []) (snd cd)) (td_deltas O (snd td)))
           (sm_tables O sm).

Lemma touched_pending_sound : forall a sm t c r,
  pending O sm t c r -> touch O a t c r -> In (t, c, r) (touched_pending a sm).
Proof.
  intros a sm t c r Hp Ht. unfold pending in Hp. destruct (delta_get O (delta_of O sm t c) r) as [x|] eqn:E; [|congruence].
  unfold delta_of in E. unfold touched_pending.
  destruct (td_find O (sm_tables O sm) t) as [td|] eqn:Et; [|discriminate].
  destruct (cd_find O (td_deltas O td) c) as [cd|] eqn:Ec; [|discriminate].
  apply in_flat_map. exists (t, td). split; [apply td_find_In; exact Et|]. cbn [fst snd].
  apply in_flat_map. exists (c, cd). split; [apply cd_find_In; exact Ec|]. cbn [fst snd].
  apply in_flat_map. exists (r, x). split; [apply delta_get_In; exact E|]. cbn [fst].
  rewrite (touch_touchb _ _ _ _ Ht). left. reflexivity.
Qed.

Definition cell_eqb (x y : cell) : bool :=
  name_eqb (fst (fst x)) (fst (fst y)) && name_eqb (snd (fst x)) (snd (fst y)) && Z.eqb (snd x) (snd y).

Definition img1 (a : action) (l : list cell) : list cell :=
  match a with
  | RenameColumn _ t old new =>
      l ++ map (fun x : cell => if name_eqb (fst (fst x)) t && name_eqb (snd (fst x)) old then (t, new, snd x) else x) l
  | RenameTable _ old new =>
      l ++ map (fun x : cell => if name_eqb (fst (fst x)) old then (new, snd (fst x), snd x) else x) l
  | _ => l
  end.

Fixpoint imgL (acts : list action) (l : list cell) : list cell :=
  match acts with [] => l | a :: rest => imgL rest (img1 a l) end.

Lemma img1_sound : forall a l t c r, img O a (inD l) t c r -> inD (img1 a l) t c r.
Proof.
  intros a l t c r H. destruct a; cbn [img img1] in *; try exact H; unfold inD in *; apply in_or_app.
  - destruct H as [[-> [-> Hx]]|[_ Hx]]; [right | left; exact Hx].
    apply in_map_iff. exists (t0, old, r). split; [|exact Hx]. cbn. rewrite !name_eqb_refl. reflexivity.
  - destruct H as [[-> Hx]|[_ Hx]]; [right | left; exact Hx].
    apply in_map_iff. exists (old, c, r). split; [|exact Hx]. cbn. rewrite name_eqb_refl. reflexivity.
Qed.

Lemma imgL_sound : forall acts l t c r, img_list O acts (inD l) t c r -> inD (imgL acts l) t c r.
Proof.
  induction acts as [|a rest IH]; intros l t c r H; cbn [img_list imgL] in *; [exact H|].
  apply IH. eapply (img_list_mono O); [|exact H]. intros t1 c1 r1 H1. apply img1_sound. exact H1.
Qed.

Definition rename_okb (a : action) : bool :=
  match a with
  | RenameColumn _ t old new => negb (is_defunct new)
  | RenameTable _ old new => negb (is_defunct new)
  | _ => false
  end.

(* one event of the mixed phase: None = outside the class; Some D' = the cells left to front-inserted restores *)
Definition mixed_event_D (m : mstate O) (D0 : list cell) (e : event O) : option (list cell) :=
  match e with
  | Calc _ t c chs => if calc_event_okb O m t c chs then Some D0 else None
  | Doc _ a =>
      if rename_okb a then Some D0
      else if negb (is_rename O a) && (is_removal O a || avoidb a (m_sum O m)) && no_loss_b O a (m_doc O m) && act_names_okb O a
           then Some (D0 ++ imgL (rev (m_undo O m)) (touched_pending a (m_sum O m)))
           else None
  | FlushCol _ t c => if no_delta_entry (m_sum O m) t c then Some D0 else None
  | FlushAll _ => None
  end.

Lemma calc_event_okb_sound : forall m t c chs, calc_event_okb O m t c chs = true -> calc_event_ok O m t c chs.
Proof.
  intros m t c chs H1. unfold calc_event_okb in H1. unfold calc_event_ok.
  destruct (find_table O (m_doc O m) t) as [T|]; [|discriminate].
  destruct (find_col O (t_cols O T) c) as [C|]; [|discriminate]. apply calc_okb_sound. exact H1.
Qed.

Lemma gi_event : forall s0 g m m' e D',
  gi s0 g D m -> mixed_event_D m D e = Some D' -> step O m e = Ok m' -> exists g', gi s0 g' D' m'.
Proof.
  intros s0 g m m' e D' Hgi Hok H. destruct e as [a|t c chs|t c|]; try discriminate; cbn [mixed_event_D] in Hok.
  - destruct (rename_okb a) eqn:Ern.
    + inversion Hok; subst D'. destruct a; try discriminate; cbn [rename_okb] in Ern; apply negb_true_iff in Ern.
      * exact (gi_rename_col _ _ _ _ _ _ _ Hgi Ern H).
      * exact (gi_rename_table _ _ _ _ _ _ Hgi Ern H).
    + destruct (negb (is_rename O a) && (is_removal O a || avoidb a (m_sum O m)) && no_loss_b O a (m_doc O m) && act_names_okb O a) eqn:Eok; [|discriminate].
      inversion Hok; subst D'; clear Hok.
      apply andb_true_iff in Eok. destruct Eok as [Eok H4]. apply andb_true_iff in Eok. destruct Eok as [Eok H3].
      apply andb_true_iff in Eok. destruct Eok as [H1 H2]. apply negb_true_iff in H1.
      eapply (gi_doc_frame s0 g m m' a); try eassumption.
      * intros t c r Ht Hd. apply orb_true_iff in H2. destruct H2 as [H2|H2]; [exact H2|].
        exfalso. apply Hd. apply (avoidb_sound _ _ H2). exact Ht.
      * apply (no_loss_b_sound O). exact H3.
      * apply (act_names_okb_sound O). exact H4.
      * intros t c r Hi. apply imgL_sound. eapply (img_list_mono O); [|exact Hi].
        intros t1 c1 r1 [Hp Ht]. apply touched_pending_sound; assumption.
  - destruct (calc_event_okb O m t c chs) eqn:Ec; [|discriminate]. inversion Hok; subst D'.
    exists g. eapply gi_calc; [exact Hgi | apply calc_event_okb_sound; exact Ec | exact H].
  - destruct (no_delta_entry (m_sum O m) t c) eqn:En; [|discriminate]. inversion Hok; subst D'.
    exists g. eapply gi_flushcol_nil; eassumption.
Qed.

(* several events that are ONE step of the invariant (doModifyColumn) *)
Definition macro_of (m : mstate O) (es : list (event O)) : option (list (event O) * list (event O)) :=
  match es with
  | Doc _ (ModifyColumn _ t c mi) :: FlushCol _ t2 c2 :: rest =>
      if name_eqb t2 t && name_eqb c2 c && modflush_okb m t c mi None
      then Some (modflush_events t c mi None, rest) else None
  | Doc _ (ModifyColumn _ t c mi) :: Calc _ t1 c1 chs :: FlushCol _ t2 c2 :: rest =>
      if name_eqb t1 t && name_eqb c1 c && name_eqb t2 t && name_eqb c2 c && modflush_okb m t c mi (Some chs)
      then Some (modflush_events t c mi (Some chs), rest) else None
  | _ => None
  end.

Lemma macro_of_sound : forall m es mac rest,
  macro_of m es = Some (mac, rest) ->
  es = mac ++ rest /\ (length rest < length es)%nat /\
  forall s0 g m', gi s0 g D m -> steps O m mac = Ok m' -> exists g', gi s0 g' D m'.
Proof.
  intros m es mac rest H. unfold macro_of in H.
  destruct es as [|[a| | |] es1]; try discriminate. destruct a; try discriminate.
  destruct es1 as [|[|t1 c1 chs|t2 c2|] es2]; try discriminate.
  - destruct es2 as [|[| |t2 c2|] es3]; try discriminate.
    destruct (name_eqb t1 t && name_eqb c1 c && name_eqb t2 t && name_eqb c2 c && modflush_okb m t c m0 (Some chs)) eqn:E; [|discriminate].
    inversion H; subst mac rest; clear H.
    apply andb_true_iff in E. destruct E as [E E5]. apply andb_true_iff in E. destruct E as [E E4].
    apply andb_true_iff in E. destruct E as [E E3]. apply andb_true_iff in E. destruct E as [E1 E2].
    apply name_eqb_eq in E1, E2, E3, E4. subst t1 c1 t2 c2.
    split; [reflexivity|]. split; [cbn; lia|]. intros s0 g m' Hgi Hs. eapply gi_modflush; eassumption.
  - destruct (name_eqb t2 t && name_eqb c2 c && modflush_okb m t c m0 None) eqn:E; [|discriminate].
    inversion H; subst mac rest; clear H.
    apply andb_true_iff in E. destruct E as [E E3]. apply andb_true_iff in E. destruct E as [E1 E2].
    apply name_eqb_eq in E1, E2. subst t2 c2.
    split; [reflexivity|]. split; [cbn; lia|]. intros s0 g m' Hgi Hs. eapply gi_modflush; eassumption.
Qed.

End Steps.

(* the whole phase: None = outside the class, Some D = inside, with the cells left to the front-inserted restores *)
Fixpoint mixed_D (n : nat) (m : mstate O) (D : list cell) (es : list (event O)) : option (list cell) :=
  match es with
  | [] => Some D
  | e :: rest =>
      match n with
      | 0%nat => None
      | S n' =>
          match macro_of m es with
          | Some (mac, rest') => match steps O m mac with Ok m' => mixed_D n' m' D rest' | Err _ => Some D end
          | None =>
              match mixed_event_D m D e with
              | Some D' => match step O m e with Ok m' => mixed_D n' m' D' rest | Err _ => Some D' end
              | None => None
              end
          end
      end
  end.

Lemma mixed_phase : forall n es s0 g D m m' Df,
  gi s0 g D m -> mixed_D n m D es = Some Df -> steps O m es = Ok m' -> exists g', gi s0 g' Df m'.
Proof.
  induction n as [|n IH]; intros es s0 g D m m' Df Hgi Hok H.
  - destruct es; [|discriminate]. cbn in H, Hok. inversion H; inversion Hok; subst. eauto.
  - destruct es as [|e rest]; [cbn in H, Hok; inversion H; inversion Hok; subst; eauto|].
    cbn [mixed_D] in Hok. destruct (macro_of m (e :: rest)) as [[mac rest']|] eqn:Em.
    + destruct (macro_of_sound D _ _ _ _ Em) as [Hes [_ Hmac]]. rewrite Hes, (steps_app O) in H.
      destruct (steps O m mac) as [m1|] eqn:Es; [|discriminate].
      destruct (Hmac _ _ _ Hgi eq_refl) as [g1 Hg1]. eapply IH; eassumption.
    + destruct (mixed_event_D m D e) as [D1|] eqn:Ee; [|discriminate]. cbn [steps] in H.
      destruct (step O m e) as [m1|] eqn:Es; cbn [bind] in H; [|discriminate].
      destruct (gi_event D _ _ _ _ _ _ Hgi Ee Es) as [g1 Hg1]. eapply IH; eassumption.
Qed.

(* ------------------------------------------------------------------------------------------------ *)
(* the flush that ends the bundle *)

Definition cellvb (s : state) (x : cell) : bool :=
  match cellv O s (fst (fst x)) (snd (fst x)) (snd x) with Some _ => true | None => false end.

(* a front-inserted restore is fine when it puts values of the START document into cells of the start document *)
Definition front_okb (s0 : state) (a : action) : bool :=
  match a with
  | BulkUpdateRecord _ t rows [(c, vals)] =>
      match find_table O s0 t with
      | Some T0 =>
          match find_col O (t_cols O T0) c with
          | Some C0 =>
              Nat.eqb (length vals) (length rows) && negb (isnil rows) && forallb (fun r => zmem r (t_rows O T0)) rows &&
              forallb (fun r => match set_val O rows vals r with Some v => venc O v (col_get O C0 r) | None => false end) rows
          | None => false
          end
      | None => false
      end
  | _ => false
  end.

Definition written_by (a : action) (x : cell) : bool :=
  match a with
  | BulkUpdateRecord _ t rows [(c, _)] => name_eqb (fst (fst x)) t && name_eqb (snd (fst x)) c && zmem (snd x) rows
  | _ => false
  end.

Definition fronts_okb (s0 : state) (FR : list action) (D : list cell) : bool :=
  forallb (front_okb s0) FR && forallb (fun x => negb (cellvb s0 x) || existsb (fun a => written_by a x) FR) D.

Lemma replay_fronts : forall s0 FRl (X : cellset) x,
  wf_state O s0 -> forallb (front_okb s0) FRl = true -> seq_ex O X x s0 ->
  exists x', replay_doc O FRl x = Ok x' /\
             seq_ex O (fun t c r => X t c r /\ forall a, In a FRl -> written_by a (t, c, r) = false) x' s0.
Proof.
  intros s0 FRl. induction FRl as [|a rest IH]; intros X x Hwf Hok Hx.
  - exists x. split; [reflexivity|]. eapply (seq_ex_weaken O); [|exact Hx]. intros t c r H. split; [exact H | intros a []].
  - cbn [forallb] in Hok. apply andb_true_iff in Hok. destruct Hok as [Ha Hrest].
    unfold front_okb in Ha. destruct a; try discriminate. destruct cols as [|[c vals] [|? ?]]; try discriminate.
    destruct (find_table O s0 t) as [T0|] eqn:Ef0; [|discriminate].
    destruct (find_col O (t_cols O T0) c) as [C0|] eqn:Ec0; [|discriminate].
    apply andb_true_iff in Ha. destruct Ha as [Ha A4]. apply andb_true_iff in Ha. destruct Ha as [Ha A3].
    apply andb_true_iff in Ha. destruct Ha as [A1 A2]. apply Nat.eqb_eq in A1. apply negb_true_iff in A2.
    rewrite forallb_forall in A3, A4.
    destruct (front_one O L X x s0 t c rows vals T0 C0 Hx Hwf Ef0 Ec0 A1) as [x1 [o1 [Hstep Hx1]]].
    { destruct rows; [discriminate | discriminate]. }
    { intros r Hr. apply zmem_In. apply A3. exact Hr. }
    { intros r v Hr Hsv. specialize (A4 r Hr). rewrite Hsv in A4. exact A4. }
    destruct (IH _ x1 Hwf Hrest Hx1) as [x' [Hrep Hx']]. exists x'. split.
    + cbn [replay_doc]. rewrite Hstep. cbn [bind fst]. exact Hrep.
    + eapply (seq_ex_weaken O); [|exact Hx']. intros t1 c1 r1 [[HX Hnw] Hall]. split; [exact HX|].
      intros a [<-|Hin]; [|apply Hall; exact Hin]. cbn [written_by fst snd].
      destruct (name_eqb t1 t && name_eqb c1 c && zmem r1 rows) eqn:E; [|reflexivity]. exfalso. apply Hnw.
      apply andb_true_iff in E. destruct E as [E E3]. apply andb_true_iff in E. destruct E as [E1 E2].
      apply name_eqb_eq in E1, E2. apply zmem_In in E3. repeat split; assumption.
Qed.

Lemma fronts_fix : forall s0 FR D x,
  wf_state O s0 -> fronts_okb s0 FR D = true -> seq_ex O (inD D) x s0 ->
  exists x', replay_doc O (rev FR) x = Ok x' /\ seq O x' s0.
Proof.
  intros s0 FR D x Hwf Hok Hx. unfold fronts_okb in Hok. apply andb_true_iff in Hok. destruct Hok as [H1 H2].
  assert (H1r : forallb (front_okb s0) (rev FR) = true).
  { rewrite forallb_forall in *. intros a Ha. apply H1. apply in_rev. exact Ha. }
  destruct (replay_fronts s0 (rev FR) _ x Hwf H1r Hx) as [x' [Hrep Hx']]. exists x'. split; [exact Hrep|].
  eapply (seq_ex_restrict O); [exact Hx'|]. intros t c r Hex [Hd Hnw]. exfalso.
  rewrite forallb_forall in H2. specialize (H2 (t, c, r) Hd). apply orb_true_iff in H2. destruct H2 as [H2|H2].
  - apply negb_true_iff in H2. unfold cellvb in H2. cbn [fst snd] in H2.
    pose proof (existing_seq O _ _ _ _ _ _ Hx' Hex) as Hex0. apply (cellv_existing O) in Hex0.
    destruct (cellv O s0 t c r); [discriminate | congruence].
  - apply existsb_exists in H2. destruct H2 as [a [Ha Hw]]. rewrite (Hnw a) in Hw; [discriminate|]. apply in_rev. rewrite rev_involutive. exact Ha.
Qed.

Lemma gi_flush : forall s0 g D m,
  gi s0 g D m -> wf_state O s0 -> fronts_okb s0 (all_fronts O (m_sum O m)) D = true ->
  flush_all O (m_sum O m) (m_stored O m, m_undo O m) =
    Ok (m_stored O m ++ all_sblocks O (prune O (m_sum O m)),
        all_fronts O (m_sum O m) ++ m_undo O m ++ all_blocks O (prune O (m_sum O m))) /\
  (exists s'', replay_doc O (rev (all_fronts O (m_sum O m) ++ m_undo O m ++ all_blocks O (prune O (m_sum O m)))) (m_doc O m) = Ok s'' /\
               seq O s'' s0) /\
  (forall s1, seq O s1 s0 ->
     exists s2, replay_doc O (m_stored O m ++ all_sblocks O (prune O (m_sum O m))) s1 = Ok s2 /\ seq O s2 (m_doc O m)).
Proof.
  intros s0 g D m [Htr Hwfg Hwfs Hstruct Hrel Hlive Hredo] Hwf0 Hfr.
  set (sm := m_sum O m) in *. set (s := m_doc O m) in *. set (smp := prune O sm).
  pose proof (calc_rel_seq_ex O g sm s Hrel) as Hseq.
  pose proof (struct_ok_seq_ex O _ g s sm Hseq Hstruct) as [Hnames_s [Hkeys_s Hafter_s]].
  destruct Hstruct as [Hnames [Hkeys Hafter]].
  (* on the cells that exist the pruned summary holds the same deltas *)
  assert (Hdp : forall t c r, existing O s t c r -> delta_get O (delta_of O smp t c) r = delta_get O (delta_of O sm t c) r).
  { intros t c r [T [C [Hf [Hc Hr]]]]. unfold smp. rewrite (dget_prune O). destruct (Hnames_s _ _ Hf) as [Hdt Hdc].
    rewrite Hdt, (Hdc _ _ Hc). cbn [orb]. unfold keepr. pose proof (Hafter_s _ _ _ Hf Hr) as Ha.
    destruct (row_after O sm t r) as [[|]|]; try reflexivity. congruence. }
  assert (Hrelp : calc_rel O g smp s).
  { apply (calc_rel_of O).
    - eapply (seq_ex_restrict O); [exact Hseq|]. intros t c r Hex Hp. unfold pending in *. rewrite Hdp by exact Hex. exact Hp.
    - intros t c r i v ig vg b a Hcs Hcg Hd.
      assert (Hex : existing O s t c r) by (apply (cellv_existing O); rewrite Hcs; discriminate).
      rewrite Hdp in Hd by exact Hex.
      destruct (calc_rel_cellv O g sm s t c r i v Hrel Hcs) as [vg0 [Hcg0 Hm]]. rewrite Hcg in Hcg0. inversion Hcg0; subst.
      rewrite Hd in Hm. exact Hm. }
  assert (Hlivep : deltas_live O smp s).
  { intros t c r Hd. unfold smp in Hd. rewrite (dget_prune O) in Hd.
    destruct (is_defunct t || is_defunct c) eqn:Edf; [congruence|]. apply orb_false_iff in Edf. destruct Edf as [Edt Edc].
    unfold keepr in Hd.
    destruct (Hlive t c r) as [Hx|[Hx|[T [C [Hf [Hc [Hr|Hr]]]]]]].
    - unfold dget. destruct (row_after O sm t r) as [[|]|]; congruence.
    - congruence.
    - congruence.
    - exists T, C. auto.
    - rewrite Hr in Hd. congruence. }
  assert (Hlive_d : live_in O g smp).
  { intros t c r Hg. eapply existing_calc_rel; [exact Hrelp | apply Hlivep; exact Hg]. }
  split; [|split].
  - apply (flush_all_gen O).
  - rewrite !rev_app_distr, <- app_assoc, (replay_doc_app O).
    destruct (replay_all_blocks O L g smp s) as [s1 [Hr1 Hs1]].
    + apply (near_of_calc_rel O). exact Hrelp.
    + exact Hwfg.
    + eapply (befores_of_calc_rel O); eassumption.
    + exact Hlive_d.
    + rewrite Hr1, (replay_doc_app O). destruct (Htr no_cells s1) as [s2 [Hr2 Hs2]].
      { eapply (seq_ex_weaken O); [|exact Hs1]. intros t c r Hc. left. apply (prune_created O). exact Hc. }
      rewrite Hr2. eapply fronts_fix; [exact Hwf0 | exact Hfr|].
      eapply (seq_ex_weaken O); [|exact Hs2]. intros t c r [Hi|Hd]; [|exact Hd].
      exfalso. eapply (img_list_empty O); [|exact Hi]. intros ? ? ? [].
  - intros s1 Hs1. rewrite (replay_doc_app O).
    destruct (Hredo s1 Hs1) as [sd' [Hrd Hsd]]. rewrite Hrd.
    eapply (replay_all_sblocks O L); eassumption.
Qed.

(* the whole bundle is one mixed phase, and the restores that the final flush inserts at the front of the undo list put
   values of the start document into the cells left to them *)
Definition bundle_ok3 (s : state) (es : list (event O)) : bool :=
  wf_stateb O s && names_okb O s &&
  match mixed_D (length es) (m_init O s) [] es with
  | Some Df => match steps O (m_init O s) es with
               | Ok m => fronts_okb s (all_fronts O (m_sum O m)) Df
               | Err _ => true
               end
  | None => false
  end.

Lemma gi_init : forall s, wf_state O s -> names_ok O s -> gi s s [] (m_init O s).
Proof.
  intros s Hwf Hn. destruct (docs_inv_init O s Hwf Hn) as [_ _ Hstr _].
  assert (Hq : quiet (sum_empty O)) by (intros t c r; reflexivity).
  constructor; cbn [m_init m_doc m_undo m_sum m_stored].
  - apply tr_okE_init.
  - exact Hwf.
  - exact Hwf.
  - exact Hstr.
  - apply quiet_calc_rel_refl. exact Hq.
  - intros t c r Hg. exfalso. apply Hg. exact (Hq t c r).
  - intros s1 Hs1. exists s1. split; [reflexivity | exact Hs1].
Qed.

Lemma bundle_ok3_gi : forall s es m,
  bundle_ok3 s es = true -> steps O (m_init O s) es = Ok m ->
  wf_state O s /\ exists g Df, gi s g Df m /\ fronts_okb s (all_fronts O (m_sum O m)) Df = true.
Proof.
  intros s es m Hok H. unfold bundle_ok3 in Hok.
  apply andb_true_iff in Hok. destruct Hok as [Hok H3]. apply andb_true_iff in Hok. destruct Hok as [H1 H2].
  apply (wf_stateb_sound O) in H1. apply (names_okb_sound O) in H2. split; [exact H1|].
  destruct (mixed_D (length es) (m_init O s) [] es) as [Df|] eqn:Ed; [|discriminate]. rewrite H in H3.
  destruct (mixed_phase _ _ _ _ _ _ _ _ (gi_init s H1 H2) Ed H) as [g Hg]. exists g, Df. auto.
Qed.

Theorem bundle_ok3_undo : forall s es s' out,
  bundle_ok3 s es = true -> run O s es = Ok (s', out) ->
  exists s'', replay_doc O (rev (o_undo O out)) s' = Ok s'' /\ seq O s'' s.
Proof.
  intros s es s' out Hok H. unfold run in H. fold (m_init O s) in H. rewrite (steps_app O) in H.
  destruct (steps O (m_init O s) es) as [m|] eqn:Em; [|discriminate].
  destruct (bundle_ok3_gi _ _ _ Hok Em) as [Hwf [g [Df [Hgi Hfr]]]].
  destruct (gi_flush _ _ _ _ Hgi Hwf Hfr) as [Hfl [Hundo _]].
  cbn [steps step] in H. rewrite Hfl in H. cbn in H. inversion H; subst s' out; clear H. cbn [o_undo]. exact Hundo.
Qed.

Theorem bundle_ok3_redo : forall s es s' out s0,
  bundle_ok3 s es = true -> run O s es = Ok (s', out) ->
  replay_doc O (rev (o_undo O out)) s' = Ok s0 ->
  exists s1, replay_doc O (o_stored O out) s0 = Ok s1 /\ seq O s1 s'.
Proof.
  intros s es s' out s0 Hok H Hu. unfold run in H. fold (m_init O s) in H. rewrite (steps_app O) in H.
  destruct (steps O (m_init O s) es) as [m|] eqn:Em; [|discriminate].
  destruct (bundle_ok3_gi _ _ _ Hok Em) as [Hwf [g [Df [Hgi Hfr]]]].
  destruct (gi_flush _ _ _ _ Hgi Hwf Hfr) as [Hfl [[s0' [Hundo Hs0]] Hredo]].
  cbn [steps step] in H. rewrite Hfl in H. cbn [bind fst snd m_doc m_stored m_undo] in H. inversion H; subst s' out; clear H. cbn [o_undo o_stored] in *.
  assert (s0' = s0) by congruence. subst s0'. apply Hredo. exact Hs0.
Qed.

End Stage3.
