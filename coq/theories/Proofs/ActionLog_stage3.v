(* K1, stage 3: doc actions BETWEEN the calc deltas and the flush.  The bundle is: any lossless doc actions, then an
   arbitrary interleaving of calc deltas with doc actions of the kinds handled here (increment by increment).
   A ghost document g follows the doc actions only ("what the document would be had no formula been recalculated");
   calc_rel ties the real document to it through the deltas of the summary. *)
From Coq Require Import ZArith List Bool Lia.
Import ListNotations.
Require Import Grist.Model.ActionLog Grist.Proofs.ActionLog_proofs Grist.Proofs.ActionLog_calc Grist.Proofs.ActionLog_cells Grist.Proofs.ActionLog_frame.
Open Scope Z_scope.

Ltac name_cases a b :=
  let E := fresh "E" in
  destruct (name_eqb a b) eqn:E;
  [apply name_eqb_eq in E | pose proof (proj1 (name_eqb_neq _ _) E)].

Section Stage3.
Variable O : ValOps.
Hypothesis L : ValLaws O.
Notation V := (V O).
Notation state := (state O).
Notation table := (table O).
Notation column := (column O).
Notation action := (action O).
Notation summary := (summary O).

(* redo, semantically: the stored list so far, replayed on any document equivalent to the start, reaches the ghost *)
Definition redo_ok (s0 g : state) (S : list action) : Prop :=
  forall s1, seq O s1 s0 -> exists s2, replay_doc O S s1 = Ok s2 /\ seq O s2 g.

(* the invariant of the mixed phase *)
Record gi (s0 g : state) (m : mstate O) : Prop := mkGI {
  gi_tr : tr_ok O s0 g (m_undo O m) (m_sum O m);
  gi_wfg : wf_state O g;
  gi_wfs : wf_state O (m_doc O m);
  gi_struct : struct_ok O g (m_sum O m);
  gi_rel : calc_rel O g (m_sum O m) (m_doc O m);
  gi_live : deltas_live O (m_sum O m) (m_doc O m);
  gi_redo : redo_ok s0 g (m_stored O m) }.

Lemma redo_snoc : forall s0 g S a g' o,
  redo_ok s0 g S -> apply_doc O a g = Ok (g', o) -> redo_ok s0 g' (S ++ [a]).
Proof.
  intros s0 g S a g' o H Ha s1 Hs1. destruct (H s1 Hs1) as [s2 [Hr Hs2]].
  rewrite (replay_doc_app O), Hr.
  assert (Hg : replay_doc O [a] g = Ok g') by (cbn; rewrite Ha; reflexivity).
  destruct (replay_doc_cong_seq O L [a] g s2 g' (seq_ex_sym O L _ _ _ Hs2) Hg) as [s2' [H2 Hs2']].
  exists s2'. split; [exact H2|]. exact (seq_ex_sym O L _ _ _ Hs2').
Qed.

Lemma tr_ok_marks : forall s0 g U sm sm',
  (forall t c r, created O sm' t c r -> created O sm t c r) -> tr_ok O s0 g U sm -> tr_ok O s0 g U sm'.
Proof.
  intros s0 g U sm sm' H Htr s1 Hs1. apply Htr. eapply (seq_ex_weaken O); [|exact Hs1]. exact H.
Qed.

Lemma alive_calc_rel : forall g sm s t, calc_rel O g sm s -> find_table O s t <> None -> find_table O g t <> None.
Proof.
  intros g sm s t H Hs. specialize (H t). destruct (find_table O s t); [|congruence].
  destruct (find_table O g t); [discriminate | contradiction].
Qed.

(* a calc delta in the mixed phase *)
Lemma gi_calc : forall s0 g m m' t c chs,
  gi s0 g m -> calc_event_ok O m t c chs -> step O m (Calc O t c chs) = Ok m' -> gi s0 g m'.
Proof.
  intros s0 g m m' t c chs [Htr Hwfg Hwfs [Hnames [Hkeys Hafter]] Hrel Hlive Hredo] Hok H.
  assert (Hci : calc_inv O g (m_sum O m) m).
  { constructor; [exact Hrel | exact Hlive | repeat split; reflexivity]. }
  destruct (calc_step O L _ _ _ _ _ _ _ Hci Hok H) as [[Hrel' Hlive' [M1 [M2 [M3 M4]]]] [Hu' Hs']].
  assert (Hdoc : exists s1, calc_cells O (m_doc O m) t c chs = Ok s1 /\ m_doc O m' = s1 /\
                            m_sum O m' = sum_apply O (m_sum O m) (SAddChanges O t c chs)).
  { cbn [step] in H. destruct (calc_cells O (m_doc O m) t c chs) as [s1|]; cbn [bind] in H; [|discriminate].
    inversion H; subst m'. exists s1. auto. }
  destruct Hdoc as [s1 [Hcc [Hd1 Hsm']]].
  constructor.
  - rewrite Hu'. eapply tr_ok_marks; [|exact Htr]. intros t1 c1 r1 Hc. eapply (created_same_marks O); [|exact Hc].
    repeat split; assumption.
  - exact Hwfg.
  - rewrite Hd1. eapply (calc_cells_wf O L); eassumption.
  - split; [exact Hnames|]. split.
    + intros t1 Ht1. rewrite Hsm' in Ht1. cbn [sum_apply] in Ht1. rewrite (td_find_with_table O) in Ht1.
      name_cases t1 t; [|apply Hkeys; exact Ht1]. subst t1. left.
      eapply alive_calc_rel; [exact Hrel|]. unfold calc_cells in Hcc. destruct (find_table O (m_doc O m) t); [discriminate | discriminate].
    + intros t1 T1 r1 Hf Hr. rewrite M4. eapply Hafter; eassumption.
  - exact Hrel'.
  - exact Hlive'.
  - rewrite Hs'. exact Hredo.
Qed.


(* ------------------------------------------------------------------------------------------------ *)
(* deltas under the renames of the summary *)

Definition dget (sm : summary) (t c : name) (r : Z) : option (V * V) := delta_get O (delta_of O sm t c) r.

Lemma dget_nil : forall sm t c r, delta_of O sm t c = [] -> dget sm t c r = None.
Proof. intros sm t c r H. unfold dget. rewrite H. reflexivity. Qed.

Lemma dget_rencol : forall (sm : summary) t old new t' c' r,
  dget (sum_apply O sm (SRenameColumn O t (Some old) new)) t' c' r =
  if name_eqb t' t then
    if name_eqb c' new then
      match td_find O (sm_tables O sm) t with
      | Some td => match cd_find O (td_deltas O td) old with
                   | Some _ => dget sm t old r
                   | None => dget sm t new r
                   end
      | None => None
      end
    else if name_eqb c' old then None else dget sm t c' r
  else dget sm t' c' r.
Proof.
  intros sm t old new t' c' r. unfold dget, delta_of at 1. cbn [sum_apply].
  rewrite (td_find_with_table O). name_cases t' t; [|reflexivity]. subst t'. cbn [td_deltas].
  unfold for_table. destruct (td_find O (sm_tables O sm) t) as [td|] eqn:Etd.
  - destruct (cd_find O (td_deltas O td) old) as [cd|] eqn:Eold.
    + rewrite (cd_find_put O), (cd_find_del O). name_cases c' new.
      * subst c'. unfold delta_of. rewrite Etd, Eold. reflexivity.
      * name_cases c' old; [reflexivity|]. unfold delta_of. rewrite Etd. reflexivity.
    + name_cases c' new.
      * subst c'. unfold delta_of. rewrite Etd. reflexivity.
      * name_cases c' old.
        -- subst c'. rewrite Eold. reflexivity.
        -- unfold delta_of. rewrite Etd. reflexivity.
  - cbn. destruct (name_eqb c' new); [reflexivity|]. destruct (name_eqb c' old); [reflexivity|].
    unfold delta_of. rewrite Etd. reflexivity.
Qed.

Lemma dget_none_old : forall (sm : summary) t old td r,
  td_find O (sm_tables O sm) t = Some td -> cd_find O (td_deltas O td) old = None -> dget sm t old r = None.
Proof. intros sm t old td r H1 H2. unfold dget, delta_of. rewrite H1, H2. reflexivity. Qed.

Lemma live_not_existing : forall sm s t c r, deltas_live O sm s -> ~ existing O s t c r -> dget sm t c r = None.
Proof.
  intros sm s t c r Hl Hn. unfold dget. destruct (delta_get O (delta_of O sm t c) r) eqn:E; [|reflexivity].
  exfalso. apply Hn. apply Hl. rewrite E. discriminate.
Qed.

Lemma col_ci_ext : forall cd cd' (C C' Cd Cd' : column) rows,
  c_info O C' = c_info O C -> c_info O Cd' = c_info O Cd ->
  (forall r, col_get O C' r = col_get O C r) -> (forall r, col_get O Cd' r = col_get O Cd r) ->
  (forall r, In r rows -> delta_get O cd' r = delta_get O cd r) ->
  col_ci O cd C Cd rows -> col_ci O cd' C' Cd' rows.
Proof.
  intros cd cd' C C' Cd Cd' rows Hi Hid Hg Hgd Hd [Hinfo Hcells]. split; [congruence|].
  intros r Hr. rewrite (Hd r Hr), Hg, Hgd, Hi. apply Hcells. exact Hr.
Qed.


Lemma step_doc_inv : forall m a m', step O m (Doc O a) = Ok m' ->
  exists s' u ops, apply_doc O a (m_doc O m) = Ok (s', (u, ops)) /\
                   m' = mkM O s' (m_stored O m ++ [a]) (m_undo O m ++ u) (fold_left (sum_apply O) ops (m_sum O m)).
Proof.
  intros m a m' H. cbn [step] in H. destruct (apply_doc O a (m_doc O m)) as [[s' [u ops]]|]; cbn [bind] in H; [|discriminate].
  inversion H. eauto.
Qed.

Lemma run_docs_snoc : forall acts s g Ug a g' u ops,
  run_docs O s acts = Ok (g, Ug) -> apply_doc O a g = Ok (g', (u, ops)) -> run_docs O s (acts ++ [a]) = Ok (g', Ug ++ u).
Proof.
  induction acts as [|a0 acts IH]; intros s g Ug a g' u ops H Ha; cbn in *.
  - inversion H; subst. rewrite Ha. rewrite app_nil_r. reflexivity.
  - destruct (apply_doc O a0 s) as [[s1 [u0 ops0]]|]; [|discriminate].
    destruct (run_docs O s1 acts) as [[s2 U2]|] eqn:E; [|discriminate]. inversion H; subst.
    rewrite (IH _ _ _ _ _ _ _ E Ha). rewrite app_assoc. reflexivity.
Qed.

(* the shape facts calc_rel gives about one table *)
Lemma calc_rel_table : forall g sm s t T, calc_rel O g sm s -> find_table O s t = Some T ->
  exists Tg, find_table O g t = Some Tg /\
             (forall r, In r (t_rows O T) <-> In r (t_rows O Tg)) /\
             forall c, match find_col O (t_cols O T) c, find_col O (t_cols O Tg) c with
                       | None, None => True
                       | Some C, Some Cd => col_ci O (delta_of O sm t c) C Cd (t_rows O T)
                       | _, _ => False
                       end.
Proof.
  intros g sm s t T H Hf. specialize (H t). rewrite Hf in H. destruct (find_table O g t) as [Tg|]; [|contradiction].
  exists Tg. destruct H. auto.
Qed.

Lemma calc_rel_none : forall g sm s t, calc_rel O g sm s -> find_table O s t = None -> find_table O g t = None.
Proof.
  intros g sm s t H Hf. specialize (H t). rewrite Hf in H. destruct (find_table O g t); [contradiction | reflexivity].
Qed.

Lemma gi_rename_col : forall s0 g m m' t old new,
  gi s0 g m -> is_defunct new = false -> step O m (Doc O (RenameColumn O t old new)) = Ok m' ->
  exists g', gi s0 g' m'.
Proof.
  intros s0 g m m' t old new [Htr Hwfg Hwfs Hstruct Hrel Hlive Hredo] Hnew H.
  destruct (step_doc_inv _ _ _ H) as [s' [u [ops [Ha ->]]]]. cbn [m_doc m_undo m_sum m_stored].
  pose proof Ha as Ha0. unfold apply_doc in Ha.
  destruct (find_table O (m_doc O m) t) as [T|] eqn:Ef; [|discriminate].
  destruct (find_col O (t_cols O T) old) as [C|] eqn:Ec; [|discriminate].
  destruct (has_column O T new) eqn:Eh; [discriminate|]. inversion Ha; subst s' u ops; clear Ha.
  apply (has_column_false O) in Eh. destruct Eh as [Hnid Hnc].
  destruct (calc_rel_table _ _ _ _ _ Hrel Ef) as [Tg [Efg [Hrows Hcols]]].
  pose proof (Hcols old) as Hco. rewrite Ec in Hco. destruct (find_col O (t_cols O Tg) old) as [Cg|] eqn:Ecg; [|contradiction].
  pose proof (Hcols new) as Hcn. rewrite Hnc in Hcn. destruct (find_col O (t_cols O Tg) new) as [x|] eqn:Ecgn; [contradiction|].
  set (a := RenameColumn O t old new).
  set (g' := put_table O g t (mkTab O (t_id O Tg) (t_rows O Tg) (drop_col O (t_cols O Tg) old ++ [mkCol O new (c_info O Cg) (c_data O Cg)]))).
  assert (Hag : apply_doc O a g = Ok (g', ([RenameColumn O t new old], [SRenameColumn O t (Some old) new]))).
  { unfold a, apply_doc. rewrite Efg, Ecg.
    assert (has_column O Tg new = false) as -> by (apply (has_column_false O); split; assumption). reflexivity. }
  assert (Hloss : forall t1 c1 r1, ~ lossy O a g t1 c1 r1) by (intros t1 c1 r1 []).
  pose proof (find_table_id O _ _ _ Ef) as HidT. pose proof (find_table_id O _ _ _ Efg) as HidTg.
  exists g'. constructor; cbn [m_doc m_undo m_sum m_stored].
  - eapply (tr_step O L); try eassumption; try exact Hnew.
  - exact (apply_doc_wf O L _ _ _ _ Hwfg Hag).
  - exact (apply_doc_wf O L _ _ _ _ Hwfs Ha0).
  - eapply (struct_step O); try eassumption; try exact Hnew.
  - (* calc_rel *)
    cbn [fold_left]. intro t0. unfold g'. rewrite !(find_put_table O) by assumption. name_cases t0 t.
    + subst t0. rewrite Ef, Efg. split; [exact Hrows|]. cbn [t_cols t_rows]. intro c0.
      rewrite !(find_app_col O), !(find_drop_col O). cbn [c_id].
      name_cases c0 old.
      * subst c0. assert (name_eqb old new = false) as -> by (apply name_eqb_neq; intro; subst; congruence). exact I.
      * pose proof (Hcols c0) as Hc0.
        destruct (find_col O (t_cols O T) c0) as [D|] eqn:Ed, (find_col O (t_cols O Tg) c0) as [Dg|] eqn:Edg; try contradiction.
        -- eapply col_ci_ext; [reflexivity | reflexivity | reflexivity | reflexivity | | exact Hc0].
           intros r _. change (dget (sum_apply O (m_sum O m) (SRenameColumn O t (Some old) new)) t c0 r = dget (m_sum O m) t c0 r).
           rewrite dget_rencol, name_eqb_refl, E.
           assert (name_eqb c0 new = false) as -> by (apply name_eqb_neq; intro; subst; congruence). reflexivity.
        -- name_cases c0 new; [|exact I]. subst c0.
           eapply col_ci_ext; [reflexivity | reflexivity | | | | exact Hco].
           ++ intro r. reflexivity.
           ++ intro r. reflexivity.
           ++ intros r Hr. change (dget (sum_apply O (m_sum O m) (SRenameColumn O t (Some old) new)) t new r = dget (m_sum O m) t old r).
              rewrite dget_rencol, !name_eqb_refl.
              destruct (td_find O (sm_tables O (m_sum O m)) t) as [td|] eqn:Etd.
              ** destruct (cd_find O (td_deltas O td) old) eqn:Eold; [reflexivity|].
                 rewrite (dget_none_old _ _ _ _ r Etd Eold). eapply live_not_existing; [exact Hlive|].
                 intros [T1 [C1 [H1 [H2 _]]]]. congruence.
              ** symmetry. unfold dget, delta_of. rewrite Etd. reflexivity.
    + specialize (Hrel t0). destruct (find_table O (m_doc O m) t0) as [T0|], (find_table O g t0) as [Tg0|]; try exact Hrel.
      destruct Hrel as [Hr0 Hc0]. split; [exact Hr0|]. intro c0. specialize (Hc0 c0).
      destruct (find_col O (t_cols O T0) c0), (find_col O (t_cols O Tg0) c0); try exact Hc0.
      eapply col_ci_ext; [reflexivity | reflexivity | reflexivity | reflexivity | | exact Hc0].
      intros r _. change (dget (sum_apply O (m_sum O m) (SRenameColumn O t (Some old) new)) t0 c0 r = dget (m_sum O m) t0 c0 r).
      rewrite dget_rencol, E. reflexivity.
  - (* deltas_live *)
    cbn [fold_left]. intros t0 c0 r Hg. change (dget (sum_apply O (m_sum O m) (SRenameColumn O t (Some old) new)) t0 c0 r <> None) in Hg.
    rewrite dget_rencol in Hg. unfold existing. rewrite (find_put_table O) by assumption.
    name_cases t0 t.
    + subst t0. rewrite Ef. name_cases c0 new.
      * subst c0. assert (Hold : dget (m_sum O m) t old r <> None).
        { destruct (td_find O (sm_tables O (m_sum O m)) t) as [td|]; [|congruence].
          destruct (cd_find O (td_deltas O td) old); [exact Hg|].
          exfalso. apply Hg. eapply live_not_existing; [exact Hlive|]. intros [T1 [C1 [Q1 [Q2 _]]]]. congruence. }
        destruct (Hlive t old r Hold) as [T1 [C1 [Q1 [Q2 Q3]]]]. assert (T1 = T) by congruence. subst T1.
        eexists. eexists. split; [reflexivity|]. cbn [t_cols t_rows]. rewrite (find_app_col O), (find_drop_col O).
        assert (name_eqb new old = false) as -> by (apply name_eqb_neq; intro; subst; congruence).
        rewrite Hnc. cbn [c_id]. rewrite name_eqb_refl. split; [reflexivity | exact Q3].
      * name_cases c0 old; [congruence|].
        destruct (Hlive t c0 r Hg) as [T1 [C1 [Q1 [Q2 Q3]]]]. assert (T1 = T) by congruence. subst T1.
        eexists. eexists. split; [reflexivity|]. cbn [t_cols t_rows]. rewrite (find_app_col O), (find_drop_col O), E0, Q2.
        split; [reflexivity | exact Q3].
    + destruct (Hlive t0 c0 r Hg) as [T1 [C1 [Q1 [Q2 Q3]]]]. exists T1, C1. auto.
  - eapply redo_snoc; [exact Hredo | exact Hag].
Qed.


Lemma dget_rentab : forall (sm : summary) old new t' c r,
  dget (sum_apply O sm (SRenameTable O (Some old) new)) t' c r =
  match td_find O (sm_tables O sm) old with
  | Some _ => if name_eqb t' new then dget sm old c r else if name_eqb t' old then None else dget sm t' c r
  | None => dget sm t' c r
  end.
Proof.
  intros sm old new t' c r. unfold dget, delta_of.
  destruct (sum_rentab_spec O sm (Some old) new) as [_ Htd]. cbv zeta in Htd. rewrite Htd.
  destruct (td_find O (sm_tables O sm) old) as [d|] eqn:Eo; [|reflexivity].
  destruct (name_eqb t' new); [reflexivity|]. destruct (name_eqb t' old); reflexivity.
Qed.

Lemma gi_rename_table : forall s0 g m m' old new,
  gi s0 g m -> is_defunct new = false -> step O m (Doc O (RenameTable O old new)) = Ok m' ->
  exists g', gi s0 g' m'.
Proof.
  intros s0 g m m' old new [Htr Hwfg Hwfs Hstruct Hrel Hlive Hredo] Hnew H.
  destruct (step_doc_inv _ _ _ H) as [s' [u [ops [Ha ->]]]]. cbn [m_doc m_undo m_sum m_stored].
  pose proof Ha as Ha0. unfold apply_doc in Ha.
  destruct (find_table O (m_doc O m) old) as [T|] eqn:Ef; [|discriminate].
  destruct (find_table O (m_doc O m) new) eqn:En; [discriminate|]. inversion Ha; subst s' u ops; clear Ha.
  destruct (calc_rel_table _ _ _ _ _ Hrel Ef) as [Tg [Efg [Hrows Hcols]]].
  pose proof (calc_rel_none _ _ _ _ Hrel En) as Eng.
  assert (Hne : old <> new) by (intro; subst; congruence).
  assert (Eon : name_eqb old new = false) by (apply name_eqb_neq; exact Hne).
  assert (Eno : name_eqb new old = false) by (apply name_eqb_neq; congruence).
  set (a := RenameTable O old new).
  set (g' := drop_table O g old ++ [mkTab O new (t_rows O Tg) (t_cols O Tg)]).
  assert (Hag : apply_doc O a g = Ok (g', ([RenameTable O new old], [SRenameTable O (Some old) new]))).
  { unfold a, apply_doc. rewrite Efg, Eng. reflexivity. }
  assert (Hloss : forall t1 c1 r1, ~ lossy O a g t1 c1 r1) by (intros t1 c1 r1 []).
  pose proof Hstruct as Hs0. destruct Hstruct as [Hnames [Hkeys Hafter]].
  assert (Hstale : td_find O (sm_tables O (m_sum O m)) new = None).
  { destruct (td_find O (sm_tables O (m_sum O m)) new) eqn:E; [|reflexivity]. exfalso.
    destruct (Hkeys new) as [Hk|Hk]; [rewrite E; discriminate | congruence | congruence]. }
  exists g'. constructor; cbn [m_doc m_undo m_sum m_stored].
  - eapply (tr_step O L); try eassumption; try exact Hnew; try exact Hs0.
  - exact (apply_doc_wf O L _ _ _ _ Hwfg Hag).
  - exact (apply_doc_wf O L _ _ _ _ Hwfs Ha0).
  - eapply (struct_step O); try eassumption; try exact Hnew; try exact Hs0.
  - cbn [fold_left]. intro t0. unfold g'. rewrite !(find_app_table O), !(find_drop_table O). cbn [t_id].
    name_cases t0 old.
    + subst t0. rewrite Eon. exact I.
    + pose proof (Hrel t0) as Hr0.
      destruct (find_table O (m_doc O m) t0) as [T0|] eqn:E0, (find_table O g t0) as [Tg0|] eqn:Eg0; try contradiction.
      * destruct Hr0 as [Hrw Hcl]. split; [exact Hrw|]. intro c0. specialize (Hcl c0).
        destruct (find_col O (t_cols O T0) c0), (find_col O (t_cols O Tg0) c0); try exact Hcl.
        eapply col_ci_ext; [reflexivity | reflexivity | reflexivity | reflexivity | | exact Hcl].
        intros r _. change (dget (sum_apply O (m_sum O m) (SRenameTable O (Some old) new)) t0 c0 r = dget (m_sum O m) t0 c0 r).
        rewrite dget_rentab. assert (name_eqb t0 new = false) as Etn by (apply name_eqb_neq; intro; subst; congruence).
        rewrite Etn, E. destruct (td_find O (sm_tables O (m_sum O m)) old); reflexivity.
      * name_cases t0 new; [|exact I]. subst t0. cbn [t_rows t_cols]. split; [exact Hrows|]. intro c0. specialize (Hcols c0).
        destruct (find_col O (t_cols O T) c0), (find_col O (t_cols O Tg) c0); try exact Hcols.
        eapply col_ci_ext; [reflexivity | reflexivity | reflexivity | reflexivity | | exact Hcols].
        intros r _. change (dget (sum_apply O (m_sum O m) (SRenameTable O (Some old) new)) new c0 r = dget (m_sum O m) old c0 r).
        rewrite dget_rentab, name_eqb_refl.
        destruct (td_find O (sm_tables O (m_sum O m)) old) eqn:Eo; [reflexivity|].
        unfold dget, delta_of. rewrite Hstale, Eo. reflexivity.
  - cbn [fold_left]. intros t0 c0 r Hg.
    change (dget (sum_apply O (m_sum O m) (SRenameTable O (Some old) new)) t0 c0 r <> None) in Hg.
    rewrite dget_rentab in Hg. unfold existing. rewrite (find_app_table O), (find_drop_table O). cbn [t_id].
    assert (Hcase : (t0 = new /\ dget (m_sum O m) old c0 r <> None) \/ (t0 <> new /\ t0 <> old /\ dget (m_sum O m) t0 c0 r <> None)).
    { destruct (td_find O (sm_tables O (m_sum O m)) old) eqn:Eo.
      - name_cases t0 new; [left; split; [exact E | exact Hg]|]. name_cases t0 old; [congruence|]. right. auto.
      - right. assert (Hex := Hlive t0 c0 r Hg). destruct Hex as [T1 [C1 [Q1 _]]].
        split; [intro; subst; congruence|]. split; [|exact Hg]. intro; subst t0.
        unfold dget, delta_of in Hg. rewrite Eo in Hg. cbn in Hg. congruence. }
    destruct Hcase as [[-> Hg']|[Hn1 [Hn2 Hg']]].
    + destruct (Hlive old c0 r Hg') as [T1 [C1 [Q1 [Q2 Q3]]]]. assert (T1 = T) by congruence. subst T1.
      rewrite Eno, En, name_eqb_refl. eexists. eexists. split; [reflexivity|]. cbn [t_cols t_rows]. split; [exact Q2 | exact Q3].
    + destruct (Hlive t0 c0 r Hg') as [T1 [C1 [Q1 [Q2 Q3]]]].
      assert (name_eqb t0 old = false) as -> by (apply name_eqb_neq; exact Hn2). rewrite Q1. exists T1, C1. auto.
  - eapply redo_snoc; [exact Hredo | exact Hag].
Qed.


(* ------------------------------------------------------------------------------------------------ *)
(* nothing pending: the ghost document can be re-based on the real one, and any lossless doc action follows *)

Definition quiet (sm : summary) : Prop := forall t c r, dget sm t c r = None.

Lemma delta_of_with_table : forall (sm : summary) t d t' c,
  td_deltas O d = td_deltas O (for_table O sm t) -> delta_of O (with_table O sm t d) t' c = delta_of O sm t' c.
Proof.
  intros sm t d t' c Hd. unfold delta_of. rewrite (td_find_with_table O). name_cases t' t; [|reflexivity].
  subst t'. rewrite Hd. unfold for_table. destruct (td_find O (sm_tables O sm) t); reflexivity.
Qed.

Lemma quiet_sum_apply : forall sm op, quiet sm -> not_changes O op -> quiet (sum_apply O sm op).
Proof.
  intros sm op Hq Hop t' c' r. destruct op as [t rows|t rows|t old new|old new|t c chs]; [| | | |destruct Hop].
  - unfold dget. cbn [sum_apply]. rewrite delta_of_with_table; [apply Hq|].
    apply (fold_pres_deltas O). reflexivity.
  - unfold dget. cbn [sum_apply]. rewrite delta_of_with_table; [apply Hq|].
    apply (fold_pres_deltas O). reflexivity.
  - destruct old as [old|].
    + rewrite dget_rencol. destruct (name_eqb t' t); [|apply Hq].
      destruct (name_eqb c' new).
      * destruct (td_find O (sm_tables O sm) t) as [td|]; [|reflexivity].
        destruct (cd_find O (td_deltas O td) old); apply Hq.
      * destruct (name_eqb c' old); [reflexivity | apply Hq].
    + unfold dget. cbn [sum_apply]. rewrite delta_of_with_table; [apply Hq | reflexivity].
  - destruct old as [old|].
    + rewrite dget_rentab. destruct (td_find O (sm_tables O sm) old); [|apply Hq].
      destruct (name_eqb t' new); [apply Hq|]. destruct (name_eqb t' old); [reflexivity | apply Hq].
    + apply Hq.
Qed.

Lemma quiet_fold : forall ops sm, quiet sm -> Forall (not_changes O) ops -> quiet (fold_left (sum_apply O) ops sm).
Proof.
  induction ops as [|op ops IH]; intros sm Hq Hf; cbn [fold_left]; [exact Hq|].
  inversion Hf; subst. apply IH; [apply quiet_sum_apply; assumption | assumption].
Qed.

Lemma calc_rel_quiet_seq : forall g sm s, calc_rel O g sm s -> quiet sm -> seq O s g.
Proof.
  intros g sm s Hrel Hq t. specialize (Hrel t).
  destruct (find_table O s t) as [T|], (find_table O g t) as [Tg|]; cbn; try exact Hrel.
  destruct Hrel as [Hrows Hcols]. split; [exact Hrows|]. intro c. specialize (Hcols c).
  destruct (find_col O (t_cols O T) c) as [C|], (find_col O (t_cols O Tg) c) as [Cg|]; cbn; try exact Hcols.
  destruct Hcols as [Hinfo Hcells]. split; [exact Hinfo|]. intros r Hr. right. specialize (Hcells r Hr).
  pose proof (Hq t c r) as Hn. unfold dget in Hn. rewrite Hn in Hcells. exact Hcells.
Qed.

Lemma quiet_calc_rel_refl : forall sm s, quiet sm -> calc_rel O s sm s.
Proof.
  intros sm s Hq t. destruct (find_table O s t) as [T|]; [|exact I]. split; [tauto|]. intro c.
  destruct (find_col O (t_cols O T) c) as [C|]; [|exact I]. split; [reflexivity|]. intros r _.
  pose proof (Hq t c r) as Hn. unfold dget in Hn. rewrite Hn. apply (venc_refl O L).
Qed.

Lemma struct_ok_seq : forall g s sm, seq O s g -> struct_ok O g sm -> struct_ok O s sm.
Proof.
  intros g s sm Hs [Hnames [Hkeys Hafter]]. split; [|split].
  - intros t T Hf. pose proof (Hs t) as Ht. rewrite Hf in Ht.
    destruct (find_table O g t) as [Tg|] eqn:Eg; [|contradiction]. destruct (Hnames _ _ Eg) as [Hdt Hdc].
    split; [exact Hdt|]. intros c C Hc. destruct Ht as [_ Hcols]. specialize (Hcols c). rewrite Hc in Hcols.
    destruct (find_col O (t_cols O Tg) c) as [Cg|] eqn:Ec; [|contradiction]. exact (Hdc _ _ Ec).
  - intros t Ht. destruct (Hkeys t Ht) as [Hk|Hk]; [|right; exact Hk]. left.
    pose proof (Hs t) as Hst. destruct (find_table O s t); [discriminate|].
    destruct (find_table O g t); [contradiction | congruence].
  - intros t T r Hf Hr. pose proof (Hs t) as Ht. rewrite Hf in Ht.
    destruct (find_table O g t) as [Tg|] eqn:Eg; [|contradiction]. destruct Ht as [Hrows _].
    eapply Hafter; [exact Eg | apply Hrows; exact Hr].
Qed.

Lemma gi_rebase : forall s0 g m, gi s0 g m -> quiet (m_sum O m) -> gi s0 (m_doc O m) m.
Proof.
  intros s0 g m [Htr Hwfg Hwfs Hstruct Hrel Hlive Hredo] Hq.
  pose proof (calc_rel_quiet_seq _ _ _ Hrel Hq) as Hsg.
  constructor.
  - intros s1 Hs1. apply Htr. eapply (seq_ex_weaken O); [|eapply (seq_ex_trans O L); [exact Hs1 | exact Hsg]].
    intros t c r [H|[]]. exact H.
  - exact Hwfs.
  - exact Hwfs.
  - eapply struct_ok_seq; eassumption.
  - apply quiet_calc_rel_refl. exact Hq.
  - exact Hlive.
  - intros s1 Hs1. destruct (Hredo s1 Hs1) as [s2 [Hr Hs2]]. exists s2. split; [exact Hr|].
    eapply (seq_trans O L); [exact Hs2 | exact (seq_ex_sym O L _ _ _ Hsg)].
Qed.

(* any lossless doc action while nothing is pending *)
Lemma gi_doc_quiet : forall s0 g m m' a,
  gi s0 g m -> quiet (m_sum O m) -> (forall t c r, ~ lossy O a (m_doc O m) t c r) -> act_names_ok O a ->
  step O m (Doc O a) = Ok m' -> gi s0 (m_doc O m') m' /\ quiet (m_sum O m').
Proof.
  intros s0 g m m' a Hgi Hq Hl Hn H.
  destruct (gi_rebase _ _ _ Hgi Hq) as [Htr _ Hwfs Hstruct _ _ Hredo].
  destruct (step_doc_inv _ _ _ H) as [s' [u [ops [Ha ->]]]]. cbn [m_doc m_undo m_sum m_stored].
  assert (Hq' : quiet (fold_left (sum_apply O) ops (m_sum O m))).
  { apply quiet_fold; [exact Hq|]. eapply (lossless_not_changes O); eassumption. }
  split; [|exact Hq']. constructor; cbn [m_doc m_undo m_sum m_stored].
  - eapply (tr_step O L); eassumption.
  - exact (apply_doc_wf O L _ _ _ _ Hwfs Ha).
  - exact (apply_doc_wf O L _ _ _ _ Hwfs Ha).
  - eapply (struct_step O); eassumption.
  - apply quiet_calc_rel_refl. exact Hq'.
  - intros t c r Hg. exfalso. apply Hg. apply Hq'.
  - eapply redo_snoc; eassumption.
Qed.

(* ------------------------------------------------------------------------------------------------ *)
(* any lossless doc action that keeps off the cells with a pending delta (SC1) *)

Lemma dget_records : forall (sm : summary) t rows bb ba t' c r,
  dget (with_table O sm t (fold_left (fun d r0 => mkTD O (pres_setdefault (td_before O d) r0 bb) (pres_set (td_after O d) r0 ba)
                                                   (td_colren O d) (td_deltas O d)) rows (for_table O sm t))) t' c r =
  dget sm t' c r.
Proof.
  intros sm t rows bb ba t' c r. unfold dget. rewrite delta_of_with_table; [reflexivity|].
  apply (fold_pres_deltas O). reflexivity.
Qed.

Lemma defunct_is_defunct : forall n, is_defunct (defunct_name n) = true.
Proof. reflexivity. Qed.

Lemma dget_doc_ops : forall a s s' u ops (sm : summary),
  apply_doc O a s = Ok (s', (u, ops)) -> is_rename O a = false -> (forall t c r, ~ lossy O a s t c r) ->
  (forall t c r, touch O a t c r -> dget sm t c r = None) ->
  (forall t c r, dget sm t c r <> None -> existing O s t c r) -> names_ok O s ->
  forall t c r, dget (fold_left (sum_apply O) ops sm) t c r = dget sm t c r.
Proof.
  intros a s s' u ops sm H Hren Hloss Hav Hlive Hnames t1 c1 r1.
  assert (Hdef_c : forall t c r, is_defunct c = true -> dget sm t c r = None).
  { intros t c r Hd. destruct (dget sm t c r) eqn:E; [|reflexivity]. exfalso.
    destruct (Hlive t c r) as [T [C [Hf [Hc _]]]]; [congruence|]. destruct (Hnames _ _ Hf) as [_ Hdc]. rewrite (Hdc _ _ Hc) in Hd. discriminate. }
  assert (Hdef_t : forall t c r, is_defunct t = true -> dget sm t c r = None).
  { intros t c r Hd. destruct (dget sm t c r) eqn:E; [|reflexivity]. exfalso.
    destruct (Hlive t c r) as [T [C [Hf _]]]; [congruence|]. destruct (Hnames _ _ Hf) as [Hdt _]. rewrite Hdt in Hd. discriminate. }
  destruct a; try discriminate; unfold apply_doc in H.
  - destruct (find_table O s t) as [T|]; [|discriminate]. destruct (_ || _); [discriminate|].
    destruct (negb _); [discriminate|]. destruct (add_records O T rows cols); cbn in H; [|discriminate].
    inversion H; subst s' u ops. cbn [fold_left sum_apply]. apply dget_records.
  - destruct (find_table O s t) as [T|]; [|discriminate].
    remember (filter (fun r => zmem r (t_rows O T)) rows) as rows' eqn:Er.
    destruct (list_eq_dec Z.eq_dec rows' []) as [Hnil|Hne].
    + rewrite Hnil in H. inversion H; subst. reflexivity.
    + rewrite (match_nonnil _ _ rows' _ _ Hne) in H. inversion H; subst s' u ops. cbn [fold_left sum_apply]. apply dget_records.
  - destruct (find_table O s t) as [T|]; [|discriminate]. destruct (_ || _); [discriminate|].
    destruct (negb _); [discriminate|]. destruct (old_values O (t_cols O T) rows cols); cbn in H; [|discriminate].
    destruct (set_columns O (t_cols O T) rows cols); cbn in H; [|discriminate]. inversion H; subst s' u ops. reflexivity.
  - destruct (find_table O s t) as [T|]; [|discriminate]. destruct (negb _); [discriminate|].
    match type of H with context [add_records O ?T0 rows ?cs] => destruct (add_records O T0 rows cs) end; cbn in H; [|discriminate].
    inversion H; subst s' u ops. cbn [fold_left sum_apply]. rewrite dget_records. apply dget_records.
  - destruct (find_table O s t) as [T|]; [|discriminate]. destruct (has_column O T c); [discriminate|].
    inversion H; subst s' u ops. cbn [fold_left sum_apply]. unfold dget. rewrite delta_of_with_table; reflexivity.
  - destruct (find_table O s t) as [T|] eqn:Ef; [|discriminate]. destruct (find_col O (t_cols O T) c) as [C|] eqn:Ec; [|discriminate].
    assert (Hform : ci_isformula (c_info O C) = false).
    { destruct (ci_isformula (c_info O C)) eqn:E; [|reflexivity]. exfalso. apply (Hloss t c 0). cbn. split; [reflexivity|]. split; [reflexivity|]. eauto. }
    rewrite Hform in H.
    assert (Hops : ops = [SRenameColumn O t (Some c) (defunct_name c)]).
    { match type of H with context [match ?l with [] => _ | _ => _ end] => destruct l end; inversion H; reflexivity. }
    subst ops. cbn [fold_left]. rewrite dget_rencol.
    name_cases t1 t; [|reflexivity]. subst t1. name_cases c1 (defunct_name c).
    + subst c1. rewrite (Hdef_c t (defunct_name c) r1) by reflexivity.
      destruct (td_find O (sm_tables O sm) t) as [td|]; [|reflexivity].
      destruct (cd_find O (td_deltas O td) c); [|reflexivity]. apply Hav. cbn. auto.
    + name_cases c1 c; [|reflexivity]. subst c1. symmetry. apply Hav. cbn. auto.
  - destruct (find_table O s t) as [T|]; [|discriminate]. destruct (find_col O (t_cols O T) c) as [C|]; [|discriminate].
    destruct (colinfo_eqb _ _); inversion H; subst s' u ops; reflexivity.
  - destruct (find_table O s t); [discriminate|]. destruct (_ || _); [discriminate|].
    inversion H; subst s' u ops. reflexivity.
  - destruct (find_table O s t) as [T|]; [|discriminate].
    assert (Hops : ops = [SRenameTable O (Some t) (defunct_name t)]) by (destruct (t_rows O T); inversion H; reflexivity).
    subst ops. cbn [fold_left]. rewrite dget_rentab.
    destruct (td_find O (sm_tables O sm) t) as [td|] eqn:Etd; [|reflexivity].
    name_cases t1 (defunct_name t).
    + subst t1. rewrite (Hdef_t (defunct_name t) c1 r1) by reflexivity. apply Hav. cbn. reflexivity.
    + name_cases t1 t; [|reflexivity]. subst t1. symmetry. apply Hav. cbn. reflexivity.
Qed.


Lemma gi_doc_frame : forall s0 g m m' a,
  gi s0 g m -> is_rename O a = false ->
  (forall t c r, touch O a t c r -> dget (m_sum O m) t c r = None) ->
  (forall t c r, ~ lossy O a (m_doc O m) t c r) -> act_names_ok O a ->
  step O m (Doc O a) = Ok m' -> exists g', gi s0 g' m'.
Proof.
  intros s0 g m m' a [Htr Hwfg Hwfs Hstruct Hrel Hlive Hredo] Hren Hav Hloss Hact H.
  destruct (step_doc_inv _ _ _ H) as [s' [u [ops [Ha ->]]]]. cbn [m_doc m_undo m_sum m_stored].
  set (s := m_doc O m) in *. set (sm := m_sum O m) in *.
  pose proof (calc_rel_seq_ex O g sm s Hrel) as Hseq.
  pose proof (struct_ok_seq_ex O _ g s sm Hseq Hstruct) as Hstr_s.
  destruct Hstr_s as [Hnames_s [Hkeys_s Hafter_s]].
  (* the ghost takes the same action *)
  destruct (apply_doc_cong O L a _ s g s' (u, ops) Hseq Ha) as [g' [[u2 ops2] [Hag Hsg']]].
  rewrite (img_nonrename O) in Hsg' by exact Hren.
  set (sm' := fold_left (sum_apply O) ops sm).
  assert (Hd : forall t c r, dget sm' t c r = dget sm t c r).
  { eapply dget_doc_ops; try eassumption. }
  assert (Hnt : forall t c r, pending O sm t c r -> ~ touch O a t c r).
  { intros t c r Hp Ht. apply Hp. apply (Hav t c r Ht). }
  assert (Hund : forall x, In x (rev u) -> is_rename O x = false /\ forall t c r, pending O sm t c r -> ~ touch O x t c r).
  { intros x Hx. apply in_rev in Hx. destruct (undo_touch O a s s' u ops Ha Hren x Hx) as [Hr Ht]. split; [exact Hr|].
    intros t c r Hp Htx. apply (Hnt t c r Hp). apply Ht. exact Htx. }
  assert (Hcre : forall t c r, existing O s t c r -> created O sm' t c r -> created O sm t c r).
  { intros t c r Hex Hc. eapply (sig_step O); try eassumption.
    rewrite (img_list_nonrename O) by (intros x Hx; apply (Hund x Hx)). exact Hc. }
  exists g'. constructor; cbn [m_doc m_undo m_sum m_stored].
  - (* undo *)
    intros s1 Hs1.
    pose proof (seq_ex_trans O L _ _ _ _ _ Hs1 (seq_ex_sym O L _ _ _ Hsg')) as H1.
    destruct (undo_inverse O L a s Hwfs s' u ops Ha) as [sr [Hrep Hsr]].
    destruct (replay_doc_cong O L _ _ _ _ _ (seq_ex_sym O L _ _ _ H1) Hrep) as [sx [Hrepx Hsx]].
    rewrite (img_list_nonrename O) in Hsx by (intros x Hx; apply (Hund x Hx)).
    pose proof (seq_ex_trans O L _ _ _ _ _ (seq_ex_trans O L _ _ _ _ _ (seq_ex_sym O L _ _ _ Hsx) Hsr) Hseq) as Hxg.
    assert (Hxg' : seq_ex O (fun t c r => created O sm t c r \/ pending O sm t c r) sx g).
    { eapply (seq_ex_restrict O); [exact Hxg|]. intros t c r Hex [[[Hc|Hp]|Hl]|Hp]; [| right; exact Hp | exfalso; exact (Hloss _ _ _ Hl) | right; exact Hp].
      left. apply Hcre; [|exact Hc].
      eapply (existing_seq O); [|exact Hex].
      exact (seq_ex_trans O L _ _ _ _ _ (seq_ex_sym O L _ _ _ Hsx) Hsr). }
    assert (Hfin : seq_ex O (created O sm) sx g).
    { eapply (seq_ex_refine O); [exact Hxg'|]. intros t c r i1 v1 i2 v2 Hp Hc1 Hc2.
      assert (Hfx : cellv O sx t c r = cellv O s1 t c r).
      { eapply (replay_frame O); [exact Hrepx|]. intros x Hx. destruct (Hund x Hx) as [Hr Ht]. split; [exact Hr | apply Ht; exact Hp]. }
      assert (Hfg : cellv O g' t c r = cellv O g t c r) by (eapply (frame O); [exact Hag | exact Hren | apply Hnt; exact Hp]).
      rewrite Hfx in Hc1. destruct (seq_ex_cellv O _ _ _ _ _ _ _ _ Hs1 Hc1) as [v2' [Hc2' Hor]].
      rewrite Hfg, Hc2 in Hc2'. inversion Hc2'; subst. destruct Hor as [Hc|Hv]; [|right; exact Hv].
      left. apply Hcre; [|exact Hc]. apply Hlive. exact Hp. }
    destruct (Htr sx Hfin) as [s2 [Hrep2 Hs2]]. exists s2. split; [|exact Hs2].
    rewrite rev_app_distr, (replay_doc_app O), Hrepx. exact Hrep2.
  - exact (apply_doc_wf O L _ _ _ _ Hwfg Hag).
  - exact (apply_doc_wf O L _ _ _ _ Hwfs Ha).
  - eapply (struct_ok_seq_ex O); [exact (seq_ex_sym O L _ _ _ Hsg')|].
    eapply (struct_step O); [| exact Ha | exact Hloss | exact Hact]. split; [exact Hnames_s|]. split; assumption.
  - apply (calc_rel_of O).
    + eapply (seq_ex_weaken O); [|exact Hsg']. intros t c r Hp. unfold pending in *.
      change (dget sm' t c r <> None). rewrite Hd. exact Hp.
    + intros t c r i v ig vg b a0 Hcs Hcg Hdl. change (dget sm' t c r = Some (b, a0)) in Hdl. rewrite Hd in Hdl.
      assert (Hp : pending O sm t c r) by (unfold pending; change (dget sm t c r <> None); rewrite Hdl; discriminate).
      rewrite (frame O a s s' _ t c r Ha Hren (Hnt _ _ _ Hp)) in Hcs.
      rewrite (frame O a g g' _ t c r Hag Hren (Hnt _ _ _ Hp)) in Hcg.
      destruct (calc_rel_cellv O g sm s t c r i v Hrel Hcs) as [vg0 [Hcg0 Hm]].
      rewrite Hcg in Hcg0. inversion Hcg0; subst. unfold dget in Hdl. rewrite Hdl in Hm. exact Hm.
  - intros t c r Hg. change (dget sm' t c r <> None) in Hg. rewrite Hd in Hg.
    apply (cellv_existing O). rewrite (frame O a s s' _ t c r Ha Hren (Hnt _ _ _ Hg)).
    apply (cellv_existing O). apply Hlive. exact Hg.
  - eapply redo_snoc; [exact Hredo | exact Hag].
Qed.


(* ------------------------------------------------------------------------------------------------ *)
(* doModifyColumn: ModifyColumn, the conversion delta (if any value changed), the per-column flush.  The three events
   are one step of the invariant: in between, the undo list does not restore the converted cells. *)

Lemma replay_doc_wf : forall acts s s', wf_state O s -> replay_doc O acts s = Ok s' -> wf_state O s'.
Proof.
  induction acts as [|a rest IH]; intros s s' Hwf H; cbn in H.
  - inversion H; subst. exact Hwf.
  - destruct (apply_doc O a s) as [[s1 o1]|] eqn:Ea; cbn in H; [|discriminate].
    eapply IH; [|exact H]. destruct o1 as [u1 ops1]. exact (apply_doc_wf O L _ _ _ _ Hwf Ea).
Qed.

Lemma redo_app : forall s0 g S acts g',
  redo_ok s0 g S -> replay_doc O acts g = Ok g' -> redo_ok s0 g' (S ++ acts).
Proof.
  intros s0 g S acts g' H Hg s1 Hs1. destruct (H s1 Hs1) as [s2 [Hr Hs2]].
  rewrite (replay_doc_app O), Hr.
  destruct (replay_doc_cong_seq O L acts g s2 g' (seq_ex_sym O L _ _ _ Hs2) Hg) as [s2' [H2 Hs2']].
  exists s2'. split; [exact H2|]. exact (seq_ex_sym O L _ _ _ Hs2').
Qed.

Lemma colinfo_eqb_sym_false : forall a b, colinfo_eqb a b = false -> colinfo_eqb b a = false.
Proof.
  intros a b H. destruct (colinfo_eqb b a) eqn:E; [|reflexivity].
  apply colinfo_eqb_eq in E. subst b. assert (colinfo_eqb a a = true) by (apply colinfo_eqb_eq; reflexivity). congruence.
Qed.

Definition rowcond (newT : name) (C : column) (cd : coldelta O) (r : Z) : Prop :=
  match delta_get O cd r with
  | Some (b, a) =>
      venc O b (col_get O C r) = true /\
      (venc O b a = false \/ venc O (vnorm O newT (col_get O C r)) (col_get O C r) = true)
  | None => venc O (vnorm O newT (col_get O C r)) (col_get O C r) = true
  end.


Lemma same_marks_created : forall sm1 sm2 t c r, same_marks O sm1 sm2 -> created O sm2 t c r -> created O sm1 t c r.
Proof.
  intros sm1 sm2 t c r [M1 [M2 [M3 _]]] H. apply (created_iff O) in H. apply (created_iff O).
  rewrite M1, M2, M3. exact H.
Qed.

Lemma modflush_core : forall s0 g m t c mi T C s2 cd sm3,
  gi s0 g m ->
  find_table O (m_doc O m) t = Some T -> find_col O (t_cols O T) c = Some C ->
  colinfo_eqb (apply_modinfo mi (c_info O C)) (c_info O C) = false ->
  (forall r, dget (m_sum O m) t c r = None) ->
  col_upd O (m_doc O m) s2 t c T C (apply_modinfo mi (c_info O C))
          (fun r => match delta_get O cd r with
                    | Some (_, a) => vnorm O (ci_type (apply_modinfo mi (c_info O C))) a
                    | None => vnorm O (ci_type (apply_modinfo mi (c_info O C))) (col_get O C r)
                    end) ->
  wf_state O s2 ->
  same_marks O (m_sum O m) sm3 ->
  (forall t1 c1 r, dget sm3 t1 c1 r = dget (m_sum O m) t1 c1 r) ->
  (forall t', td_find O (sm_tables O sm3) t' <> None -> t' = t \/ td_find O (sm_tables O (m_sum O m)) t' <> None) ->
  (forall r, delta_get O cd r <> None -> In r (t_rows O T)) ->
  (forall r, In r (t_rows O T) -> rowcond (ci_type (apply_modinfo mi (c_info O C))) C cd r) ->
  exists g3, gi s0 g3 (mkM O s2 (m_stored O m ++ [ModifyColumn O t c mi] ++ store_block O t c cd)
                           (m_undo O m ++ restore_block O sm3 t c cd ++ [ModifyColumn O t c (undo_modinfo mi (c_info O C))])
                           sm3).
Proof.
  intros s0 g m t c mi T C s2 cd sm3 [Htr Hwfg Hwfs [Hnames [Hkeys Hafter]] Hrel Hlive Hredo]
         Ef Ec Hne Hnod Hupd_s Hwf2 Hmarks Hdget Hkeys3 Hdrows Hrc.
  set (old := c_info O C) in *. set (new := apply_modinfo mi old) in *.
  set (a := ModifyColumn O t c mi). set (mb := ModifyColumn O t c (undo_modinfo mi old)).
  (* the ghost column *)
  destruct (calc_rel_table _ _ _ _ _ Hrel Ef) as [Tg [Efg [Hrows Hcols]]].
  pose proof (Hcols c) as Hcc. rewrite Ec in Hcc.
  destruct (find_col O (t_cols O Tg) c) as [Cg|] eqn:Ecg; [|contradiction].
  destruct Hcc as [Hinfo Hcells0].
  assert (Hcells : forall r, In r (t_rows O T) -> venc O (col_get O C r) (col_get O Cg r) = true).
  { intros r Hr. specialize (Hcells0 r Hr). pose proof (Hnod r) as Hn. unfold dget in Hn. rewrite Hn in Hcells0. exact Hcells0. }
  fold old in Hinfo.
  assert (Hcid : c <> id_name) by (eapply (wf_col_not_id O); [apply (Hwfg _ _ Efg) | exact Ecg]).
  destruct (Hwfg _ _ Efg) as [_ [_ Hnormg]]. pose proof (Hnormg _ _ Ecg) as Hng. unfold col_normal in Hng.
  (* ghost: the ModifyColumn *)
  assert (Hag : exists g1, apply_doc O a g = Ok (g1, ([mb], []))).
  { unfold a, mb, apply_doc. rewrite Efg, Ecg, <- Hinfo. fold new. rewrite Hne. eexists. reflexivity. }
  destruct Hag as [g1 Hag].
  assert (Hne_g : colinfo_eqb (apply_modinfo mi (c_info O Cg)) (c_info O Cg) = false) by (rewrite <- Hinfo; exact Hne).
  destruct (modify_upd O g t c mi g1 _ _ Tg Cg Hag Efg Ecg Hne_g) as [_ [_ Hupd1]]. rewrite <- Hinfo in Hupd1. fold new in Hupd1.
  pose proof (apply_doc_wf O L _ _ _ _ Hwfg Hag) as Hwfg1.
  (* ghost: the stored update *)
  assert (Hg1t : exists Tg1 Cg1, find_table O g1 t = Some Tg1 /\ find_col O (t_cols O Tg1) c = Some Cg1).
  { destruct Hupd1 as [_ [Tg1 [Cg1 [_ [A2 [_ [_ [_ [A6 _]]]]]]]]]. eauto. }
  destruct Hg1t as [Tg1 [Cg1 [Efg1 Ecg1]]].
  destruct (col_upd_trans O g g1 g1 t c Tg Cg new _ Tg1 Cg1 _ _ Hupd1 (col_upd_refl O g1 t c Tg1 Cg1 Efg1 Ecg1))
    as [_ [Hrows1 [Hinfo1 Hget1]]].
  destruct (store_block_upd O g1 t c cd Tg1 Cg1 Efg1 Ecg1 Hcid) as [g3 [Hrep3 Hupd2]].
  { intros r Hr. rewrite Hrows1. apply Hrows. apply Hdrows. exact Hr. }
  destruct (col_upd_trans O _ _ _ _ _ _ _ _ _ _ _ _ _ Hupd1 Hupd2) as [Hupd13 _].
  rewrite Hinfo1 in Hupd13.
  pose proof (replay_doc_wf _ _ _ Hwfg1 Hrep3) as Hwfg3.
  assert (Hrowcases : forall r, In r (t_rows O T) -> ~ In r (changed_rows O cd) ->
            venc O (vnorm O (ci_type new) (col_get O C r)) (col_get O C r) = true /\
            match delta_get O cd r with Some (b, a) => venc O b a = true /\ venc O b (col_get O C r) = true | None => True end).
  { intros r Hr Hnc. pose proof (Hrc r Hr) as H. unfold rowcond in H.
    destruct (delta_get O cd r) as [[b a0]|] eqn:Ed; [|split; [exact H | exact I]].
    destruct H as [Hb [Hba|Hrt]].
    - exfalso. apply Hnc. eapply (changed_rows_complete O); eassumption.
    - split; [exact Hrt|]. split; [|exact Hb]. destruct (venc O b a0) eqn:E; [reflexivity|].
      exfalso. apply Hnc. eapply (changed_rows_complete O); eassumption. }
  (* the value of the ghost column after the stored update, row by row *)
  set (f3 := fun r => if zmem r (changed_rows O cd)
                      then match delta_get O cd r with
                           | Some (_, a) => vnorm O (ci_type (c_info O Cg1)) a
                           | None => col_get O Cg1 r
                           end
                      else col_get O Cg1 r) in *.
  exists g3. constructor; cbn [m_doc m_undo m_sum m_stored].
  - (* undo *)
    intros s1x Hs1x.
    assert (Hg3t : exists Tg3 Cg3, find_table O g3 t = Some Tg3 /\ find_col O (t_cols O Tg3) c = Some Cg3 /\ c_info O Cg3 = new).
    { destruct Hupd13 as [_ [Tg3 [Cg3 [_ [A2 [_ [_ [_ [A6 [A7 _]]]]]]]]]]. eauto. }
    destruct Hg3t as [Tg3 [Cg3 [Efg3 [Ecg3 Hinfo3]]]].
    assert (Hres : apply_modinfo (undo_modinfo mi old) new = old) by apply undo_modinfo_restores.
    assert (Hag3 : exists g3', apply_doc O mb g3 = Ok (g3', ([ModifyColumn O t c (undo_modinfo (undo_modinfo mi old) new)], []))).
    { unfold mb, apply_doc. rewrite Efg3, Ecg3, Hinfo3, Hres. rewrite (colinfo_eqb_sym_false _ _ Hne). eexists. reflexivity. }
    destruct Hag3 as [g3' Hag3].
    assert (Hne3 : colinfo_eqb (apply_modinfo (undo_modinfo mi old) (c_info O Cg3)) (c_info O Cg3) = false)
      by (rewrite Hinfo3, Hres; apply colinfo_eqb_sym_false; exact Hne).
    destruct (modify_upd O g3 t c _ g3' _ _ Tg3 Cg3 Hag3 Efg3 Ecg3 Hne3) as [_ [_ Hupd3]].
    rewrite Hinfo3, Hres in Hupd3.
    destruct (col_upd_trans O _ _ _ _ _ _ _ _ _ _ _ _ _ Hupd13 Hupd3) as [Hupd_g3' [_ [_ Hget3]]].
    assert (Hrep_mb : replay_doc O [mb] g3 = Ok g3') by (cbn [replay_doc]; rewrite Hag3; reflexivity).
    destruct (replay_doc_cong O L [mb] _ g3 s1x g3' (seq_ex_sym O L _ _ _ Hs1x) Hrep_mb) as [x [Hx Hsx]].
    cbn [img_list img mb] in Hsx.
    assert (Hg3'g : seq_ex O (fun t' c' r => t' = t /\ c' = c /\ In r (changed_rows O cd)) g3' g).
    { rewrite Hinfo in Hupd_g3'. eapply (seq_ex_col_upd_self O L); [exact Hupd_g3'|].
      intros r Hr. destruct (in_dec Z.eq_dec r (changed_rows O cd)) as [Hch|Hch]; [left; auto|]. right.
      rewrite (Hget3 r Hr). unfold f3. assert (zmem r (changed_rows O cd) = false) as -> by (apply zmem_false; exact Hch).
      rewrite (Hget1 r Hr).
      assert (HrT : In r (t_rows O T)) by (apply Hrows; exact Hr).
      destruct (Hrowcases r HrT Hch) as [Hrt _].
      assert (H1 : venc O (vnorm O (ci_type new) (col_get O Cg r)) (col_get O Cg r) = true).
      { eapply (venc_trans O L); [apply (vnorm_enc O L); apply (venc_sym O L); apply Hcells; exact HrT|].
        eapply (venc_trans O L); [exact Hrt | apply Hcells; exact HrT]. }
      eapply (venc_trans O L); [apply (vnorm_enc O L); exact H1|]. apply Hng. exact Hr. }
    assert (Hxg : seq_ex O (block_cells O sm3 t c cd) x g).
    { exact (seq_ex_trans O L _ _ _ _ _ (seq_ex_sym O L _ _ _ Hsx) Hg3'g). }
    destruct (block_one O L sm3 x g t c cd Hxg Hwfg) as [s'' [Hrb Hs'']].
    { intros Td Cd r b a0 H1 H2 Hd. assert (Td = Tg) by congruence. subst Td. assert (Cd = Cg) by congruence. subst Cd.
      assert (HrT : In r (t_rows O T)) by (apply Hdrows; rewrite Hd; discriminate).
      pose proof (Hrc r HrT) as H. unfold rowcond in H. rewrite Hd in H. destruct H as [Hb _].
      eapply (venc_trans O L); [exact Hb | apply Hcells; exact HrT]. }
    { intros r Hd. exists Tg, Cg. split; [exact Efg|]. split; [exact Ecg|]. apply Hrows. apply Hdrows. exact Hd. }
    rewrite !rev_app_distr. cbn [rev app].
    change (mb :: rev (restore_block O sm3 t c cd) ++ rev (m_undo O m)) with ([mb] ++ rev (restore_block O sm3 t c cd) ++ rev (m_undo O m)).
    rewrite (replay_doc_app O), Hx, (replay_doc_app O), Hrb.
    apply Htr. eapply (seq_ex_weaken O); [|exact Hs'']. intros t1 c1 r1 Hc. eapply same_marks_created; eassumption.
  - exact Hwfg3.
  - exact Hwf2.
  - split; [|split].
    + eapply (col_upd_names_ok O); [exact Hupd13 | exact Hnames].
    + intros t' Ht'. destruct (Hkeys3 t' Ht') as [->|Hk].
      * left. destruct Hupd13 as [_ [Tg3 [Cg3 [_ [A2 _]]]]]. rewrite A2. discriminate.
      * destruct (Hkeys t' Hk) as [Hk'|Hk']; [|right; exact Hk']. left.
        name_cases t' t.
        -- subst t'. destruct Hupd13 as [_ [Tg3 [Cg3 [_ [A2 _]]]]]. rewrite A2. discriminate.
        -- destruct Hupd13 as [H1 _]. rewrite H1 by assumption. exact Hk'.
    + intros t1 T1' r Hf Hr. destruct (col_upd_rows O _ _ _ _ _ _ _ _ t1 T1' Hupd13 Hf) as [T1 [Hf1 Hr1]].
      destruct Hmarks as [_ [_ [_ M4]]]. rewrite <- M4. eapply Hafter; [exact Hf1 | rewrite <- Hr1; exact Hr].
  - eapply (calc_rel_col_upd O); [exact Hrel | exact Hupd_s | exact Hupd13 | | |].
    + intros t1 c1 r _. apply Hdget.
    + intros r. change (dget sm3 t c r = None). rewrite Hdget. apply Hnod.
    + intros r Hr. cbv beta. unfold f3.
      assert (Hrg : In r (t_rows O Tg)) by (apply Hrows; exact Hr). rewrite (Hget1 r Hrg).
      destruct (zmem r (changed_rows O cd)) eqn:Ez.
      * destruct (delta_get O cd r) as [[b a0]|]; [apply (venc_refl O L)|].
        apply (vnorm_enc O L). apply Hcells. exact Hr.
      * apply zmem_false in Ez. destruct (Hrowcases r Hr Ez) as [_ Hd].
        destruct (delta_get O cd r) as [[b a0]|]; [|apply (vnorm_enc O L); apply Hcells; exact Hr].
        destruct Hd as [Hba Hb]. apply (vnorm_enc O L).
        eapply (venc_trans O L); [apply (venc_sym O L); exact Hba|].
        eapply (venc_trans O L); [exact Hb | apply Hcells; exact Hr].
  - intros t1 c1 r Hg. change (dget sm3 t1 c1 r <> None) in Hg. rewrite Hdget in Hg.
    eapply (col_upd_existing O); [exact Hupd_s|]. apply Hlive. exact Hg.
  - rewrite app_assoc. eapply redo_app; [|exact Hrep3]. eapply redo_snoc; [exact Hredo | exact Hag].
Qed.


(* popping one column delta out of the summary (pop_column_delta_as_actions) *)
Definition pop_delta (sm : summary) (t c : name) (td : tdelta O) : summary :=
  with_table O sm t (mkTD O (td_before O td) (td_after O td) (td_colren O td) (cd_del O (td_deltas O td) c)).

Lemma pop_spec : forall (sm : summary) t c td,
  td_find O (sm_tables O sm) t = Some td ->
  same_marks O sm (pop_delta sm t c td) /\
  (forall t' c' r, dget (pop_delta sm t c td) t' c' r = if name_eqb t' t && name_eqb c' c then None else dget sm t' c' r) /\
  (forall t', td_find O (sm_tables O (pop_delta sm t c td)) t' <> None <-> td_find O (sm_tables O sm) t' <> None).
Proof.
  intros sm t c td Htd. unfold pop_delta. split; [|split].
  - repeat split.
    + intros t' c'. unfold col_created. rewrite (td_find_with_table O). name_cases t' t; [|reflexivity]. subst t'. rewrite Htd. reflexivity.
    + intros t' r. unfold row_before. rewrite (td_find_with_table O). name_cases t' t; [|reflexivity]. subst t'. rewrite Htd. reflexivity.
    + intros t' r. unfold row_after. rewrite (td_find_with_table O). name_cases t' t; [|reflexivity]. subst t'. rewrite Htd. reflexivity.
  - intros t' c' r. unfold dget, delta_of. rewrite (td_find_with_table O). name_cases t' t; cbn [andb]; [|reflexivity].
    subst t'. rewrite Htd. cbn [td_deltas]. rewrite (cd_find_del O). destruct (name_eqb c' c); reflexivity.
  - intros t'. rewrite (td_find_with_table O). name_cases t' t; [|tauto]. subst t'. rewrite Htd. split; discriminate.
Qed.

Lemma flushcol_step : forall m t c td cd U0 mb,
  m_undo O m = U0 ++ [mb] -> is_modify O mb = true ->
  td_find O (sm_tables O (m_sum O m)) t = Some td -> cd_find O (td_deltas O td) c = Some cd ->
  delta_ok O (pop_delta (m_sum O m) t c td) t c cd ->
  step O m (FlushCol O t c) =
  Ok (mkM O (m_doc O m) (m_stored O m ++ store_block O t c cd)
          (U0 ++ restore_block O (pop_delta (m_sum O m) t c td) t c cd ++ [mb]) (pop_delta (m_sum O m) t c td)).
Proof.
  intros m t c td cd U0 mb Hu Hmod Htd Hcd Hok. cbn [step]. rewrite Hu, rev_app_distr. cbn [rev app]. rewrite Hmod.
  unfold flush_column. rewrite Htd, Hcd. fold (pop_delta (m_sum O m) t c td).
  assert (Htd' : td_find O (sm_tables O (pop_delta (m_sum O m) t c td)) t =
                 Some (mkTD O (td_before O td) (td_after O td) (td_colren O td) (cd_del O (td_deltas O td) c))).
  { unfold pop_delta. rewrite (td_find_with_table O), name_eqb_refl. reflexivity. }
  rewrite (cta_undo' O _ t c cd _ _ _ Htd' Hok). cbn [bind]. rewrite rev_involutive, <- app_assoc. reflexivity.
Qed.


Definition no_delta_entry (sm : summary) (t c : name) : bool :=
  match td_find O (sm_tables O sm) t with
  | None => true
  | Some td => match cd_find O (td_deltas O td) c with None => true | Some _ => false end
  end.

Definition rowcondb (newT : name) (C : column) (cd : coldelta O) (r : Z) : bool :=
  match delta_get O cd r with
  | Some (b, a) =>
      venc O b (col_get O C r) && (negb (venc O b a) || venc O (vnorm O newT (col_get O C r)) (col_get O C r))
  | None => venc O (vnorm O newT (col_get O C r)) (col_get O C r)
  end.

Lemma rowcondb_sound : forall newT C cd r, rowcondb newT C cd r = true -> rowcond newT C cd r.
Proof.
  intros newT C cd r H. unfold rowcondb in H. unfold rowcond. destruct (delta_get O cd r) as [[b a]|]; [|exact H].
  apply andb_true_iff in H. destruct H as [H1 H2]. split; [exact H1|]. apply orb_true_iff in H2.
  destruct H2 as [H2|H2]; [left; apply negb_true_iff; exact H2 | right; exact H2].
Qed.

Definition modflush_okb (m : mstate O) (t c : name) (mi : modinfo) (ochs : option (list (change O))) : bool :=
  match find_table O (m_doc O m) t with
  | Some T =>
      match find_col O (t_cols O T) c with
      | Some C =>
          let new := apply_modinfo mi (c_info O C) in
          let chs := match ochs with Some chs => chs | None => [] end in
          negb (colinfo_eqb new (c_info O C)) && no_delta_entry (m_sum O m) t c &&
          forallb (fun ch : change O => zmem (fst ch) (t_rows O T)) chs &&
          forallb (rowcondb (ci_type new) C (fold_left (delta_add O) chs [])) (t_rows O T)
      | None => false
      end
  | None => false
  end.

Lemma no_entry_dget : forall sm t c r, no_delta_entry sm t c = true -> dget sm t c r = None.
Proof.
  intros sm t c r H. unfold no_delta_entry in H. unfold dget, delta_of.
  destruct (td_find O (sm_tables O sm) t) as [td|]; [|reflexivity].
  destruct (cd_find O (td_deltas O td) c); [discriminate | reflexivity].
Qed.

Lemma add_changes_entry : forall (sm : summary) t c chs, no_delta_entry sm t c = true ->
  exists td, td_find O (sm_tables O (sum_apply O sm (SAddChanges O t c chs))) t = Some td /\
             cd_find O (td_deltas O td) c = Some (fold_left (delta_add O) chs []).
Proof.
  intros sm t c chs H. cbn [sum_apply]. rewrite (td_find_with_table O), name_eqb_refl. eexists. split; [reflexivity|].
  cbn [td_deltas]. rewrite (cd_find_put O), name_eqb_refl. f_equal. f_equal.
  unfold no_delta_entry in H. unfold for_table. destruct (td_find O (sm_tables O sm) t) as [td|]; [|reflexivity].
  destruct (cd_find O (td_deltas O td) c); [discriminate | reflexivity].
Qed.

Definition modflush_events (t c : name) (mi : modinfo) (ochs : option (list (change O))) : list (event O) :=
  Doc O (ModifyColumn O t c mi) :: match ochs with Some chs => [Calc O t c chs] | None => [] end ++ [FlushCol O t c].

Lemma gi_modflush : forall s0 g m t c mi ochs m3,
  gi s0 g m -> modflush_okb m t c mi ochs = true -> steps O m (modflush_events t c mi ochs) = Ok m3 ->
  exists g3, gi s0 g3 m3.
Proof.
  intros s0 g m t c mi ochs m3 Hgi Hok H. unfold modflush_okb in Hok.
  destruct (find_table O (m_doc O m) t) as [T|] eqn:Ef; [|discriminate].
  destruct (find_col O (t_cols O T) c) as [C|] eqn:Ec; [|discriminate]. cbv zeta in Hok.
  apply andb_true_iff in Hok. destruct Hok as [Hok H4]. apply andb_true_iff in Hok. destruct Hok as [Hok H3].
  apply andb_true_iff in Hok. destruct Hok as [H1 H2]. apply negb_true_iff in H1.
  assert (Hnod : forall r, dget (m_sum O m) t c r = None) by (intro r; apply no_entry_dget; exact H2).
  rewrite forallb_forall in H4.
  unfold modflush_events in H. cbn [steps] in H.
  destruct (step O m (Doc O (ModifyColumn O t c mi))) as [m1|] eqn:E1; cbn [bind] in H; [|discriminate].
  destruct (step_doc_inv _ _ _ E1) as [s1 [u [ops [Ha ->]]]].
  destruct (modify_upd O _ t c mi s1 u ops T C Ha Ef Ec H1) as [-> [-> Hupd1]]. cbn [fold_left] in *.
  destruct Hgi as [Htr Hwfg Hwfs [Hnames [Hkeys Hafter]] Hrel Hlive Hredo].
  pose proof (apply_doc_wf O L _ _ _ _ Hwfs Ha) as Hwf1.
  pose proof (mkGI s0 g m Htr Hwfg Hwfs (conj Hnames (conj Hkeys Hafter)) Hrel Hlive Hredo) as Hgi.
  destruct ochs as [chs|].
  - (* with a conversion delta *)
    cbn [app steps] in H.
    destruct (step O _ (Calc O t c chs)) as [m2|] eqn:E2; cbn [bind] in H; [|discriminate].
    cbn [step m_doc m_stored m_undo m_sum] in E2.
    destruct (calc_cells O s1 t c chs) as [s2|] eqn:Ecc; cbn [bind] in E2; [|discriminate]. inversion E2; subst m2; clear E2.
    assert (Hs1t : exists T1 C1, find_table O s1 t = Some T1 /\ find_col O (t_cols O T1) c = Some C1).
    { destruct Hupd1 as [_ [T1 [C1 [_ [A2 [_ [_ [_ [A6 _]]]]]]]]]. eauto. }
    destruct Hs1t as [T1 [C1 [Ef1 Ec1]]].
    pose proof (calc_upd O s1 t c chs s2 T1 C1 Ecc Ef1 Ec1) as Hupd2.
    destruct (col_upd_trans O _ _ _ _ _ _ _ _ _ _ _ _ _ Hupd1 Hupd2) as [Hupd12 [Hrows1 [Hinfo1 Hget1]]].
    rewrite Hinfo1 in Hupd12.
    set (cd := fold_left (delta_add O) chs []) in *.
    assert (Hupd_s : col_upd O (m_doc O m) s2 t c T C (apply_modinfo mi (c_info O C))
              (fun r => match delta_get O cd r with
                        | Some (_, a) => vnorm O (ci_type (apply_modinfo mi (c_info O C))) a
                        | None => vnorm O (ci_type (apply_modinfo mi (c_info O C))) (col_get O C r)
                        end)).
    { eapply (col_upd_ext O); [exact Hupd12|]. intros r Hr. cbv beta. rewrite (calc_get O chs C1 r). fold cd.
      rewrite Hinfo1. destruct (delta_get O cd r) as [[b a0]|]; [reflexivity | apply Hget1; exact Hr]. }
    pose proof (calc_cells_wf O L _ _ _ _ _ Hwf1 Ecc) as Hwf2.
    assert (Hdrows : forall r, delta_get O cd r <> None -> In r (t_rows O T)).
    { intros r Hd. apply (calc_delta_rows O) in Hd. apply in_map_iff in Hd. destruct Hd as [ch [<- Hch]].
      rewrite forallb_forall in H3. apply zmem_In. apply H3. exact Hch. }
    destruct (add_changes_entry (m_sum O m) t c chs H2) as [td2 [Htd2 Hcd2]]. fold cd in Hcd2.
    set (sm2 := sum_apply O (m_sum O m) (SAddChanges O t c chs)) in *.
    destruct (pop_spec sm2 t c td2 Htd2) as [Hm23 [Hd23 Hk23]].
    destruct (add_changes_spec O (m_sum O m) t c chs) as [N1 [N2 [N3 [N4 N5]]]]. fold sm2 in N1, N2, N3, N4, N5.
    set (sm3 := pop_delta sm2 t c td2) in *.
    destruct (calc_rel_table _ _ _ _ _ Hrel Ef) as [Tg [Efg [Hrows Hcols]]].
    assert (Hmarks : same_marks O (m_sum O m) sm3).
    { destruct Hm23 as [M1 [M2 [M3 M4]]]. split; [|split; [|split]].
      - intro t'. rewrite <- M1. symmetry. apply N1.
      - intros t' c'. rewrite <- M2. symmetry. apply N2.
      - intros t' r. rewrite <- M3. symmetry. apply N3.
      - intros t' r. rewrite <- M4. symmetry. apply N4. }
    assert (Hdok : delta_ok O sm3 t c cd).
    { intros _. destruct (Hnames _ _ Efg) as [Hdt Hdc]. split; [exact Hdt|]. split.
      - pose proof (Hcols c) as Hcc. rewrite Ec in Hcc. destruct (find_col O (t_cols O Tg) c) as [Cg|] eqn:Ecg; [|contradiction].
        exact (Hdc _ _ Ecg).
      - intros r Hd. destruct Hmarks as [_ [_ [_ M4]]]. rewrite <- M4. eapply Hafter; [exact Efg|]. apply Hrows. apply Hdrows. exact Hd. }
    cbn [app steps] in H.
    rewrite (flushcol_step _ t c td2 cd (m_undo O m) (ModifyColumn O t c (undo_modinfo mi (c_info O C)))) in H;
      [| reflexivity | reflexivity | exact Htd2 | exact Hcd2 | exact Hdok].
    cbn [bind m_doc m_stored m_undo m_sum] in H. inversion H; subst m3; clear H. fold sm3. rewrite <- app_assoc.
    eapply modflush_core; try eassumption.
    + intros t1 c1 r. rewrite Hd23. unfold dget. rewrite N5.
      destruct (name_eqb t1 t && name_eqb c1 c) eqn:E; [|reflexivity].
      apply andb_true_iff in E. destruct E as [Et Ec']. apply name_eqb_eq in Et. apply name_eqb_eq in Ec'. subst t1 c1.
      symmetry. apply Hnod.
    + intros t' Ht'. apply Hk23 in Ht'. unfold sm2 in Ht'. cbn [sum_apply] in Ht'. rewrite (td_find_with_table O) in Ht'.
      name_cases t' t; [left; assumption | right; exact Ht'].
    + intros r Hr. apply rowcondb_sound. apply H4. exact Hr.
  - (* no value changed *)
    cbn [app steps] in H. cbn [step m_doc m_stored m_undo m_sum] in H. rewrite rev_app_distr in H. cbn [rev app is_modify] in H.
    assert (Hfl : flush_column O (m_sum O m) t c (m_stored O m ++ [ModifyColumn O t c mi], rev (rev (m_undo O m))) =
                  Ok (m_sum O m, (m_stored O m ++ [ModifyColumn O t c mi], rev (rev (m_undo O m))))).
    { unfold flush_column. unfold no_delta_entry in H2. destruct (td_find O (sm_tables O (m_sum O m)) t) as [td|]; [|reflexivity].
      destruct (cd_find O (td_deltas O td) c); [discriminate | reflexivity]. }
    rewrite Hfl in H. cbn [bind] in H. inversion H; subst m3; clear H. rewrite rev_involutive.
    destruct (modflush_core s0 g m t c mi T C s1 [] (m_sum O m) Hgi Ef Ec H1 Hnod) as [g3 Hg3]; try assumption.
    + repeat split; reflexivity.
    + intros t1 c1 r. reflexivity.
    + intros t' Ht'. right. exact Ht'.
    + intros r Hd. cbn in Hd. congruence.
    + exists g3. rewrite (restore_block_nil O) in Hg3.
      assert (Hsb : store_block O t c [] = []) by reflexivity. rewrite Hsb in Hg3. cbn [app] in Hg3. exact Hg3.
Qed.


(* ------------------------------------------------------------------------------------------------ *)
(* the per-column flush of doModifyColumn when the column has no pending delta: nothing happens *)


Lemma gi_flushcol_nil : forall s0 g m m' t c,
  gi s0 g m -> no_delta_entry (m_sum O m) t c = true -> step O m (FlushCol O t c) = Ok m' -> gi s0 g m'.
Proof.
  intros s0 g m m' t c Hgi Hno H. cbn [step] in H.
  destruct (rev (m_undo O m)) as [|last before_rev] eqn:Er; [discriminate|].
  destruct (is_modify O last); [|discriminate].
  assert (Hfl : flush_column O (m_sum O m) t c (m_stored O m, rev before_rev) = Ok (m_sum O m, (m_stored O m, rev before_rev))).
  { unfold flush_column. unfold no_delta_entry in Hno. destruct (td_find O (sm_tables O (m_sum O m)) t) as [td|]; [|reflexivity].
    destruct (cd_find O (td_deltas O td) c); [discriminate | reflexivity]. }
  rewrite Hfl in H. cbn in H. inversion H; subst m'; clear H.
  assert (Hu : rev before_rev ++ [last] = m_undo O m).
  { change (rev before_rev ++ [last]) with (rev (last :: before_rev)). rewrite <- Er. apply rev_involutive. }
  rewrite Hu. destruct m; exact Hgi.
Qed.

(* ------------------------------------------------------------------------------------------------ *)
(* the mixed phase: calc deltas interleaved with the doc actions the ghost document can follow *)

Definition isnil {A : Type} (l : list A) : bool := match l with [] => true | _ => false end.

Definition quietb (sm : summary) : bool :=
  forallb (fun td => forallb (fun cd => isnil (snd cd)) (td_deltas O (snd td))) (sm_tables O sm).

Lemma td_find_In : forall l t d, td_find O l t = Some d -> In (t, d) l.
Proof.
  induction l as [|[t0 d0] l IH]; intros t d H; cbn in H; [discriminate|].
  name_cases t t0; [inversion H; subst; left; reflexivity | right; apply IH; exact H].
Qed.

Lemma cd_find_In : forall l c d, cd_find O l c = Some d -> In (c, d) l.
Proof.
  induction l as [|[c0 d0] l IH]; intros c d H; cbn in H; [discriminate|].
  name_cases c c0; [inversion H; subst; left; reflexivity | right; apply IH; exact H].
Qed.

Lemma quietb_sound : forall sm, quietb sm = true -> quiet sm.
Proof.
  intros sm H t c r. unfold dget, delta_of. unfold quietb in H. rewrite forallb_forall in H.
  destruct (td_find O (sm_tables O sm) t) as [td|] eqn:Et; [|reflexivity].
  specialize (H _ (td_find_In _ _ _ Et)). cbn [snd] in H. rewrite forallb_forall in H.
  destruct (cd_find O (td_deltas O td) c) as [cd|] eqn:Ec; [|reflexivity].
  specialize (H _ (cd_find_In _ _ _ Ec)). cbn [snd] in H. destruct cd; [reflexivity | discriminate].
Qed.

Definition touchb (a : action) (t c : name) (r : Z) : bool :=
  match a with
  | BulkAddRecord _ t' rows _ => name_eqb t t' && zmem r rows
  | BulkRemoveRecord _ t' rows => name_eqb t t' && zmem r rows
  | BulkUpdateRecord _ t' rows cols => name_eqb t t' && zmem r rows && nmem c (map fst cols)
  | ReplaceTableData _ t' _ _ => name_eqb t t'
  | AddColumn _ t' c' _ => name_eqb t t' && name_eqb c c'
  | RemoveColumn _ t' c' => name_eqb t t' && name_eqb c c'
  | RenameColumn _ t' old new => name_eqb t t' && (name_eqb c old || name_eqb c new)
  | ModifyColumn _ t' c' _ => name_eqb t t' && name_eqb c c'
  | AddTable _ t' _ => name_eqb t t'
  | RemoveTable _ t' => name_eqb t t'
  | RenameTable _ old new => name_eqb t old || name_eqb t new
  end.

Lemma touch_touchb : forall a t c r, touch O a t c r -> touchb a t c r = true.
Proof.
  intros a t c r H. destruct a; cbn in *;
    repeat match goal with
           | H : _ /\ _ |- _ => destruct H
           | H : _ \/ _ |- _ => destruct H
           end; subst; rewrite ?name_eqb_refl, ?orb_true_r; cbn;
    repeat match goal with
           | H : In _ _ |- _ => first [apply zmem_In in H | apply nmem_In in H]; rewrite H
           end; reflexivity.
Qed.

(* no cell with a pending delta is touched by the action *)
Definition avoidb (a : action) (sm : summary) : bool :=
  forallb (fun td => forallb (fun cd => forallb (fun ch : change O => negb (touchb a (fst td) (fst cd) (fst ch))) (snd cd))
                             (td_deltas O (snd td))) (sm_tables O sm).

Lemma delta_get_In : forall (cd : coldelta O) r x, delta_get O cd r = Some x -> In (r, x) cd.
Proof.
  induction cd as [|[r0 x0] cd IH]; intros r x H; cbn in H; [discriminate|].
  destruct (Z.eqb_spec r r0) as [->|Hne]; [inversion H; subst; left; reflexivity | right; apply IH; exact H].
Qed.

Lemma avoidb_sound : forall a sm, avoidb a sm = true -> forall t c r, touch O a t c r -> dget sm t c r = None.
Proof.
  intros a sm H t c r Ht. destruct (dget sm t c r) as [x|] eqn:E; [|reflexivity]. exfalso.
  unfold dget, delta_of in E. unfold avoidb in H. rewrite forallb_forall in H.
  destruct (td_find O (sm_tables O sm) t) as [td|] eqn:Et; [|discriminate].
  specialize (H _ (td_find_In _ _ _ Et)). cbn [fst snd] in H. rewrite forallb_forall in H.
  destruct (cd_find O (td_deltas O td) c) as [cd|] eqn:Ec; [|discriminate].
  specialize (H _ (cd_find_In _ _ _ Ec)). cbn [fst snd] in H. rewrite forallb_forall in H.
  specialize (H _ (delta_get_In _ _ _ E)). cbn [fst] in H. rewrite (touch_touchb _ _ _ _ Ht) in H. discriminate.
Qed.

Definition rename_okb (a : action) : bool :=
  match a with
  | RenameColumn _ t old new => negb (is_defunct new)
  | RenameTable _ old new => negb (is_defunct new)
  | _ => false
  end.

Definition mixed_event_okb (m : mstate O) (e : event O) : bool :=
  match e with
  | Calc _ t c chs => calc_event_okb O m t c chs
  | Doc _ a => rename_okb a ||
                (negb (is_rename O a) && avoidb a (m_sum O m) && no_loss_b O a (m_doc O m) && act_names_okb O a)
  | FlushCol _ t c => no_delta_entry (m_sum O m) t c
  | FlushAll _ => false
  end.

Lemma calc_event_okb_sound : forall m t c chs, calc_event_okb O m t c chs = true -> calc_event_ok O m t c chs.
Proof.
  intros m t c chs H1. unfold calc_event_okb in H1. unfold calc_event_ok.
  destruct (find_table O (m_doc O m) t) as [T|]; [|discriminate].
  destruct (find_col O (t_cols O T) c) as [C|]; [|discriminate]. apply calc_okb_sound. exact H1.
Qed.

Lemma gi_event : forall s0 g m m' e,
  gi s0 g m -> mixed_event_okb m e = true -> step O m e = Ok m' -> exists g', gi s0 g' m'.
Proof.
  intros s0 g m m' e Hgi Hok H. destruct e as [a|t c chs|t c|]; try discriminate.
  - cbn [mixed_event_okb] in Hok. apply orb_true_iff in Hok. destruct Hok as [Hok|Hok].
    + destruct a; try discriminate; cbn [rename_okb] in Hok; apply negb_true_iff in Hok.
      * exact (gi_rename_col _ _ _ _ _ _ _ Hgi Hok H).
      * exact (gi_rename_table _ _ _ _ _ _ Hgi Hok H).
    + apply andb_true_iff in Hok. destruct Hok as [Hok H4]. apply andb_true_iff in Hok. destruct Hok as [Hok H3].
      apply andb_true_iff in Hok. destruct Hok as [H1 H2]. apply negb_true_iff in H1.
      eapply gi_doc_frame; try eassumption.
      * apply avoidb_sound. exact H2.
      * apply (no_loss_b_sound O). exact H3.
      * apply (act_names_okb_sound O). exact H4.
  - exists g. eapply gi_calc; [exact Hgi | apply calc_event_okb_sound; exact Hok | exact H].
  - exists g. eapply gi_flushcol_nil; eassumption.
Qed.

(* several events that are ONE step of the invariant (doModifyColumn) *)
Definition macro_of (m : mstate O) (es : list (event O)) : option (list (event O) * list (event O)) :=
  match es with
  | Doc _ (ModifyColumn _ t c mi) :: FlushCol _ t2 c2 :: rest =>
      if name_eqb t2 t && name_eqb c2 c && modflush_okb m t c mi None
      then Some (modflush_events t c mi None, rest) else None
  | Doc _ (ModifyColumn _ t c mi) :: Calc _ t1 c1 chs :: FlushCol _ t2 c2 :: rest =>
      if name_eqb t1 t && name_eqb c1 c && name_eqb t2 t && name_eqb c2 c && modflush_okb m t c mi (Some chs)
      then Some (modflush_events t c mi (Some chs), rest) else None
  | _ => None
  end.

Lemma macro_of_sound : forall m es mac rest,
  macro_of m es = Some (mac, rest) ->
  es = mac ++ rest /\ (length rest < length es)%nat /\
  forall s0 g m', gi s0 g m -> steps O m mac = Ok m' -> exists g', gi s0 g' m'.
Proof.
  intros m es mac rest H. unfold macro_of in H.
  destruct es as [|[a| | |] es1]; try discriminate. destruct a; try discriminate.
  destruct es1 as [|[|t1 c1 chs|t2 c2|] es2]; try discriminate.
  - destruct es2 as [|[| |t2 c2|] es3]; try discriminate.
    destruct (name_eqb t1 t && name_eqb c1 c && name_eqb t2 t && name_eqb c2 c && modflush_okb m t c m0 (Some chs)) eqn:E; [|discriminate].
    inversion H; subst mac rest; clear H.
    apply andb_true_iff in E. destruct E as [E E5]. apply andb_true_iff in E. destruct E as [E E4].
    apply andb_true_iff in E. destruct E as [E E3]. apply andb_true_iff in E. destruct E as [E1 E2].
    apply name_eqb_eq in E1, E2, E3, E4. subst t1 c1 t2 c2.
    split; [reflexivity|]. split; [cbn; lia|]. intros s0 g m' Hgi Hs. eapply gi_modflush; eassumption.
  - destruct (name_eqb t2 t && name_eqb c2 c && modflush_okb m t c m0 None) eqn:E; [|discriminate].
    inversion H; subst mac rest; clear H.
    apply andb_true_iff in E. destruct E as [E E3]. apply andb_true_iff in E. destruct E as [E1 E2].
    apply name_eqb_eq in E1, E2. subst t2 c2.
    split; [reflexivity|]. split; [cbn; lia|]. intros s0 g m' Hgi Hs. eapply gi_modflush; eassumption.
Qed.

Fixpoint mixed_okb_n (n : nat) (m : mstate O) (es : list (event O)) : bool :=
  match es with
  | [] => true
  | e :: rest =>
      match n with
      | 0%nat => false
      | S n' =>
          match macro_of m es with
          | Some (mac, rest') => match steps O m mac with Ok m' => mixed_okb_n n' m' rest' | Err _ => true end
          | None => mixed_event_okb m e && match step O m e with Ok m' => mixed_okb_n n' m' rest | Err _ => true end
          end
      end
  end.

Definition mixed_okb (m : mstate O) (es : list (event O)) : bool := mixed_okb_n (length es) m es.

Lemma mixed_phase_n : forall n es s0 g m m',
  gi s0 g m -> mixed_okb_n n m es = true -> steps O m es = Ok m' -> exists g', gi s0 g' m'.
Proof.
  induction n as [|n IH]; intros es s0 g m m' Hgi Hok H.
  - destruct es; [|discriminate]. cbn in H. inversion H; subst. eauto.
  - destruct es as [|e rest]; [cbn in H; inversion H; subst; eauto|].
    cbn [mixed_okb_n] in Hok. destruct (macro_of m (e :: rest)) as [[mac rest']|] eqn:Em.
    + destruct (macro_of_sound _ _ _ _ Em) as [Hes [_ Hmac]]. rewrite Hes, (steps_app O) in H.
      destruct (steps O m mac) as [m1|] eqn:Es; [|discriminate].
      destruct (Hmac _ _ _ Hgi eq_refl) as [g1 Hg1]. eapply IH; eassumption.
    + apply andb_true_iff in Hok. destruct Hok as [He Hrest]. cbn [steps] in H.
      destruct (step O m e) as [m1|] eqn:Es; cbn [bind] in H; [|discriminate].
      destruct (gi_event _ _ _ _ _ Hgi He Es) as [g1 Hg1]. eapply IH; eassumption.
Qed.

Lemma mixed_phase : forall es s0 g m m',
  gi s0 g m -> mixed_okb m es = true -> steps O m es = Ok m' -> exists g', gi s0 g' m'.
Proof. intros es s0 g m m'. apply mixed_phase_n. Qed.

(* the flush at the end of the bundle, from the invariant *)
Lemma gi_flush : forall s0 g m,
  gi s0 g m ->
  flush_all O (m_sum O m) (m_stored O m, m_undo O m) =
    Ok (m_stored O m ++ all_sblocks O (m_sum O m), m_undo O m ++ all_blocks O (m_sum O m)) /\
  (exists s'', replay_doc O (rev (m_undo O m ++ all_blocks O (m_sum O m))) (m_doc O m) = Ok s'' /\ seq O s'' s0) /\
  (forall s1, seq O s1 s0 ->
     exists s2, replay_doc O (m_stored O m ++ all_sblocks O (m_sum O m)) s1 = Ok s2 /\ seq O s2 (m_doc O m)).
Proof.
  intros s0 g m [Htr Hwfg Hwfs [Hnames [Hkeys Hafter]] Hrel Hlive Hredo].
  assert (Hlive_d : live_in O g (m_sum O m)).
  { intros t c r Hg. eapply existing_calc_rel; [exact Hrel | apply Hlive; exact Hg]. }
  assert (Hok : all_deltas_ok O (m_sum O m)).
  { intros t td c cd Htd Hcd Hne.
    assert (Hdo : delta_of O (m_sum O m) t c = cd) by (unfold delta_of; rewrite Htd, Hcd; reflexivity).
    destruct cd as [|[r0 x0] cd0] eqn:Ecd; [congruence|].
    assert (Hg0 : delta_get O (delta_of O (m_sum O m) t c) r0 <> None) by (rewrite Hdo; cbn; rewrite Z.eqb_refl; discriminate).
    destruct (Hlive_d t c r0 Hg0) as [Td [Cd [Hft [Hfc _]]]].
    destruct (Hnames _ _ Hft) as [Hdt Hdc]. split; [exact Hdt|]. split; [exact (Hdc _ _ Hfc)|].
    intros r Hg. rewrite <- Hdo in Hg. destruct (Hlive_d t c r Hg) as [Td' [Cd' [Hft' [_ Hr']]]].
    eapply Hafter; eassumption. }
  split; [|split].
  - rewrite (flush_all_undo O (m_sum O m) (m_stored O m) (m_undo O m) Hok). reflexivity.
  - rewrite rev_app_distr, (replay_doc_app O).
    destruct (replay_all_blocks O L g (m_sum O m) (m_doc O m)) as [s1 [Hr1 Hs1]].
    + apply (near_of_calc_rel O). exact Hrel.
    + exact Hwfg.
    + eapply (befores_of_calc_rel O); eassumption.
    + exact Hlive_d.
    + rewrite Hr1. apply Htr. exact Hs1.
  - intros s1 Hs1. rewrite (replay_doc_app O).
    destruct (Hredo s1 Hs1) as [sd' [Hrd Hsd]]. rewrite Hrd.
    eapply (replay_all_sblocks O L); eassumption.
Qed.

(* the whole bundle is one mixed phase: doc actions (any lossless one while nothing is pending, renames always), calc
   deltas, and the ModifyColumn / conversion delta / per-column flush triples of doModifyColumn *)
Definition bundle_ok3 (s : state) (es : list (event O)) : bool :=
  wf_stateb O s && names_okb O s && mixed_okb (m_init O s) es.

Lemma gi_init : forall s, wf_state O s -> names_ok O s -> gi s s (m_init O s).
Proof.
  intros s Hwf Hn. destruct (docs_inv_init O s Hwf Hn) as [Htr _ Hstr _].
  assert (Hq : quiet (sum_empty O)) by (intros t c r; reflexivity).
  constructor; cbn [m_init m_doc m_undo m_sum m_stored].
  - exact Htr.
  - exact Hwf.
  - exact Hwf.
  - exact Hstr.
  - apply quiet_calc_rel_refl. exact Hq.
  - intros t c r Hg. exfalso. apply Hg. exact (Hq t c r).
  - intros s1 Hs1. exists s1. split; [reflexivity | exact Hs1].
Qed.

Lemma bundle_ok3_gi : forall s es m,
  bundle_ok3 s es = true -> steps O (m_init O s) es = Ok m -> exists g, gi s g m.
Proof.
  intros s es m Hok H. unfold bundle_ok3 in Hok.
  apply andb_true_iff in Hok. destruct Hok as [Hok H3]. apply andb_true_iff in Hok. destruct Hok as [H1 H2].
  apply (wf_stateb_sound O) in H1. apply (names_okb_sound O) in H2.
  eapply mixed_phase; [apply gi_init; eassumption | exact H3 | exact H].
Qed.

Theorem bundle_ok3_undo : forall s es s' out,
  bundle_ok3 s es = true -> run O s es = Ok (s', out) ->
  exists s'', replay_doc O (rev (o_undo O out)) s' = Ok s'' /\ seq O s'' s.
Proof.
  intros s es s' out Hok H. unfold run in H. fold (m_init O s) in H. rewrite (steps_app O) in H.
  destruct (steps O (m_init O s) es) as [m|] eqn:Em; [|discriminate].
  destruct (bundle_ok3_gi _ _ _ Hok Em) as [g Hgi].
  destruct (gi_flush _ _ _ Hgi) as [Hfl [Hundo _]].
  cbn [steps step] in H. rewrite Hfl in H. cbn in H. inversion H; subst s' out; clear H. cbn [o_undo]. exact Hundo.
Qed.

Theorem bundle_ok3_redo : forall s es s' out s0,
  bundle_ok3 s es = true -> run O s es = Ok (s', out) ->
  replay_doc O (rev (o_undo O out)) s' = Ok s0 ->
  exists s1, replay_doc O (o_stored O out) s0 = Ok s1 /\ seq O s1 s'.
Proof.
  intros s es s' out s0 Hok H Hu. unfold run in H. fold (m_init O s) in H. rewrite (steps_app O) in H.
  destruct (steps O (m_init O s) es) as [m|] eqn:Em; [|discriminate].
  destruct (bundle_ok3_gi _ _ _ Hok Em) as [g Hgi].
  destruct (gi_flush _ _ _ Hgi) as [Hfl [[s0' [Hundo Hs0]] Hredo]].
  cbn [steps step] in H. rewrite Hfl in H. cbn in H. inversion H; subst s' out; clear H. cbn [o_undo o_stored] in *.
  assert (s0' = s0) by congruence. subst s0'. apply Hredo. exact Hs0.
Qed.

End Stage3.
