(* Bridge, part 2: the body generated from Tables.add_row, given for its recursive calls any function that
   agrees with the model on the items directly contained in the value, returns what the model returns; hence the
   generated recursion (with enough fuel) is the model, and the composition of the generated functions along
   dumps / Tables.dumps (pinned by AST equality in harness/ij2v_spec.py) is the model's import. *)
From Coq Require Import ZArith List Bool Arith Lia Permutation.
Import ListNotations.
Require Import Grist.Model.JsonImport Grist.Model.JsonImportPy GristGen.JsonImport_gen Grist.Model.JsonImportCode.
Require Import Grist.Proofs.JsonImport_proofs Grist.Proofs.JsonImport_repr_proofs Grist.Proofs.JsonImport_count_proofs.
Require Import Grist.Proofs.JsonImport_final_proofs Grist.Proofs.JsonImport_bridge.

Lemma acts_evs_app inc T row a : forall b pre,
  acts_evs inc T row pre (a ++ b) =
  acts_evs inc T row pre a ++ acts_evs inc T row (pre ++ acts_evs inc T row pre a) b.
Proof.
  induction a as [|x a IH]; intros b pre; cbn [acts_evs app]; [rewrite app_nil_r; reflexivity|].
  rewrite IH, <- !app_assoc. reflexivity.
Qed.

Lemma insert_kv_nkv kv l : insert_kv (nkv kv) (map nkv l) = map nkv (insert_kv kv l).
Proof.
  induction l as [|h t IH]; cbn; [reflexivity|]. destruct kv as [k x], h as [k' x']. cbn [nkv fst].
  destruct (str_ltb k k'); cbn [map nkv]; [reflexivity|]. f_equal. exact IH.
Qed.

Lemma sort_kvs_nkv l : sort_kvs (map nkv l) = map nkv (sort_kvs l).
Proof. unfold sort_kvs. induction l as [|h t IH]; cbn; [reflexivity|]. rewrite IH. apply insert_kv_nkv. Qed.

Lemma fields_normalize v : fields (normalize v) = map nkv (sort_kvs (fields v)).
Proof. destruct v as [s|l|kvs]; [reflexivity|reflexivity|]. rewrite normalize_obj. cbn [fields]. apply sort_kvs_nkv. Qed.

Lemma plan_normalize_sorted v :
  plan (normalize v) = flat_map (fun kv => field_plan (fst kv) (normalize (snd kv))) (sort_kvs (fields v)).
Proof.
  unfold plan. rewrite fields_normalize, flat_map_map'. apply flat_map_ext. intros [k x]. reflexivity.
Qed.

Lemma sub_app T k : (T ++ [95%Z]) ++ k = sub T k.
Proof. unfold sub. rewrite <- app_assoc. reflexivity. Qed.

(* jheight (Model/JsonImportCode.v) bounds the recursion depth of add_row *)
Lemma jheight_elem e l : In e l -> jheight e < jheight (JArr l).
Proof.
  cbn [jheight]. induction l as [|x l IH]; [intros []|]. intros [->|H]; cbn [fold_right]; [lia|].
  specialize (IH H). lia.
Qed.

Lemma jheight_field k x kvs : In (k, x) kvs -> jheight x < jheight (JObj kvs).
Proof.
  cbn [jheight]. induction kvs as [|kv l IH]; [intros []|]. intros [->|H]; cbn [fold_right snd]; [lia|].
  specialize (IH H). lia.
Qed.

Lemma in_fields_height k x v : In (k, x) (fields v) -> jheight x <= jheight v.
Proof.
  destruct v as [s|l|kvs]; cbn [fields].
  - intros [H|[]]. inversion H. lia.
  - intros [H|[]]. inversion H. lia.
  - intros H. apply jheight_field in H. lia.
Qed.

Lemma children_height v c : In c (children v) -> jheight c < jheight v.
Proof.
  unfold children, plan. intros H. apply in_flat_map in H. destruct H as [a [Ha Hc]].
  apply in_flat_map in Ha. destruct Ha as [[k x] [Hkx Ha]]. cbn [fst snd] in Ha.
  destruct x as [s|l|o]; cbn [field_plan] in Ha.
  - destruct Ha as [<-|[]]. contradiction.
  - apply in_map_iff in Ha. destruct Ha as [e [<- He]]. destruct Hc as [<-|[]].
    apply jheight_elem in He. destruct v as [s|l'|kvs]; cbn [fields] in Hkx.
    + destruct Hkx as [E|[]]. discriminate.
    + destruct Hkx as [E|[]]. inversion E; subst. exact He.
    + apply jheight_field in Hkx. lia.
  - destruct Ha as [<-|[]]. destruct Hc as [<-|[]]. destruct v as [s|l'|kvs]; cbn [fields] in Hkx.
    + destruct Hkx as [E|[]]. discriminate.
    + destruct Hkx as [E|[]]. discriminate.
    + apply jheight_field in Hkx. exact Hkx.
Qed.

Section Walk.
Variables incs excs : list str.
Let inc := is_included incs excs.

(* what the model says add_row(T, v, p) does to the log and returns (a Row is named by its ref) *)
Definition model_rec (T : str) (v : json) (p : option ref) (st : list event) : list event * option ref :=
  (st ++ fst (add_row inc (normalize v) T p st), myref T (snd (add_row inc (normalize v) T p st))).

Lemma fold_step_acts T row (step : list event -> str * json -> list event) l :
  (forall stc kv, In kv l ->
     step stc kv = stc ++ acts_evs inc T row stc (field_plan (fst kv) (normalize (snd kv)))) ->
  forall stc, fold_left step l stc =
              stc ++ acts_evs inc T row stc (flat_map (fun kv => field_plan (fst kv) (normalize (snd kv))) l).
Proof.
  induction l as [|kv l IH]; intros H stc; cbn [fold_left flat_map acts_evs]; [rewrite app_nil_r; reflexivity|].
  rewrite (H stc kv (or_introl eq_refl)), IH by (intros; apply H; right; assumption).
  rewrite acts_evs_app, <- app_assoc. reflexivity.
Qed.

Lemma fold_elems (rec : str -> json -> option ref -> list event -> list event * option ref) T row k l :
  (forall e, In e l -> forall T' p' st', rec T' e p' st' = model_rec T' e p' st') ->
  forall stc,
  fold_left (fun st e => let '(st0, _) := rec (sub T k) e (myref T row) st in st0) l stc =
  stc ++ acts_evs inc T row stc (map (fun e => norm_act (AElem k e)) l).
Proof.
  induction l as [|e l IH]; intros H stc; cbn [fold_left map acts_evs act_evs]; [rewrite app_nil_r; reflexivity|].
  rewrite (H e (or_introl eq_refl)). unfold model_rec at 1.
  rewrite IH by (intros; apply H; right; assumption). rewrite <- app_assoc. reflexivity.
Qed.

Lemma gen_body_model rec T v p st :
  (forall c, In c (children v) -> forall T' p' st', rec T' c p' st' = model_rec T' c p' st') ->
  gen_add_row_body incs excs rec T v p st = model_rec T v p st.
Proof.
  intros Hrec. unfold gen_add_row_body, model_rec. rewrite add_row_plan. cbn [fst snd].
  rewrite bridge_is_included, bridge_dictify. fold inc. unfold py_sorted_items.
  rewrite plan_normalize_sorted.
  set (row := row_for inc T st). set (e0 := e0_for inc T p).
  match goal with |- context [if inc T then ?a else ?b] =>
    replace (if inc T then a else b) with (st ++ e0, myref T row)
  end.
  2:{ subst row e0. unfold row_for, e0_for. destruct (inc T); cbn [myref option_map]; [|rewrite app_nil_r; reflexivity].
      rewrite Nat.add_1_r. reflexivity. }
  match goal with |- context [fold_left ?f (sort_kvs (fields v)) (st ++ e0)] => set (step := f) end.
  rewrite (fold_step_acts T row step).
  - rewrite <- app_assoc. reflexivity.
  - intros stc [k x] Hin. cbn [fst snd]. apply (Permutation_in _ (sort_kvs_perm _)) in Hin.
    subst step. cbn beta iota. rewrite !sub_app, bridge_is_included. fold inc.
    rewrite field_plan_normalize.
    destruct x as [s|l|o]; cbn [json_is_dict json_is_list field_plan map norm_act].
    + cbn [acts_evs act_evs]. rewrite app_nil_r. unfold scalar_evs.
      destruct row as [r|]; cbn [myref option_map py_truthy_opt andb]; [|rewrite app_nil_r; reflexivity].
      destruct (inc (sub T k)); [reflexivity|rewrite app_nil_r; reflexivity].
    + cbn [json_elems]. rewrite map_map. apply fold_elems. intros e He. apply Hrec.
      eapply in_children_plan; [eapply in_plan_elem; eauto|left; reflexivity].
    + rewrite Hrec by (eapply in_children_plan; [apply in_plan_obj; exact Hin|left; reflexivity]).
      unfold model_rec. cbn [acts_evs act_evs].
      destruct (add_row inc (normalize (JObj o)) (sub T k) None stc) as [ev res]. cbn [fst snd].
      rewrite app_nil_r. unfold link_evs.
      destruct row as [r|]; cbn [myref option_map py_truthy_opt andb]; [|rewrite app_nil_r; reflexivity].
      destruct res as [r'|]; cbn [option_map py_truthy_opt]; [|rewrite app_nil_r; reflexivity].
      rewrite <- app_assoc. reflexivity.
Qed.

Lemma gen_add_row_model : forall fuel v, jheight v < fuel ->
  forall T p st, gen_add_row fuel incs excs T v p st = model_rec T v p st.
Proof.
  induction fuel as [|f IH]; intros v Hv T p st; [lia|]. cbn [gen_add_row].
  apply gen_body_model. intros c Hc T' p' st'. apply IH. apply children_height in Hc. lia.
Qed.

End Walk.

(* ---- the composition along dumps() and Tables.dumps() (both pinned): Model/JsonImportCode.v *)
Lemma code_log_model incs excs name d : code_log incs excs name d = import_log (split_opt incs) (split_opt excs) name d.
Proof.
  unfold code_log, import_log, run_items. rewrite top_items_normalize, fold_left_map.
  rewrite bridge_init_includes, bridge_init_excludes. apply fold_left_ext. intros st v.
  rewrite gen_add_row_model by lia. reflexivity.
Qed.

Lemma code_import_model incs excs name d :
  code_import incs excs name d = map dumped_triple (import_ttables incs excs name d).
Proof.
  unfold code_import, import_ttables, ttables. rewrite code_log_model, map_map. apply map_ext.
  intros [T rows]. apply bridge_dump_table.
Qed.
