(* Lemmas about objtypes.encode_object / decode_object and the reply shapes in the value model V (C24). *)
From Coq Require Import ZArith List Bool Lia String.
Import ListNotations.
Require Import Grist.Lib.PyFloat Grist.Model.Values.
Open Scope Z_scope.

(* ------------------------------------------------------------------------------------------- *)
(* domain of the marshalability theorem *)

(* wf: the fields that encode_object passes through unencoded are marshal-safe already (they are str/None when
   the object was built by the engine, marshalled data when it was built by decode_object) *)
Definition node_wf (v : value) : bool :=
  match v with
  | PErr n m d _ => marshalableb n && marshalableb m && marshalableb d
  | PRecordStub t r => marshalableb t && marshalableb r
  | PRecordSetStub t rows => marshalableb t && marshalableb rows
  | PUnmarsh r => marshalableb r
  | _ => true
  end.

Definition node_ok (v : value) : bool := node_wf v.

Lemma forallb_map : forall {A B} (f : A -> B) (P : B -> bool) l,
  forallb P (map f l) = forallb (fun x => P (f x)) l.
Proof. intros A B f P l; induction l as [|x t IH]; cbn; [reflexivity|rewrite IH; reflexivity]. Qed.

Lemma forallb_impl : forall {A} (P Q : A -> bool) l,
  (forall x, In x l -> P x = true -> Q x = true) -> forallb P l = true -> forallb Q l = true.
Proof.
  intros A P Q l H Hp. rewrite forallb_forall in *. intros x Hx. apply H; auto.
Qed.

Lemma trim_nones_ok : forall l, forallb marshalableb l = true -> forallb marshalableb (trim_nones l) = true.
Proof.
  induction l as [|x t IH]; intros H; cbn in *; [reflexivity|].
  apply andb_true_iff in H as [Hx Ht]. specialize (IH Ht).
  destruct (trim_nones t) as [|y t'].
  - assert (H1 : forallb marshalableb [x] = true) by (cbn [forallb]; rewrite Hx; reflexivity).
    destruct x; try exact H1; reflexivity.
  - cbn [forallb] in *. rewrite Hx. exact IH.
Qed.

Lemma trim_args_ok : forall l, forallb marshalableb l = true -> forallb marshalableb (trim_args l) = true.
Proof.
  intros [|x t] H; cbn in *; [reflexivity|].
  apply andb_true_iff in H as [Hx Ht]. rewrite Hx. apply trim_nones_ok; exact Ht.
Qed.

Lemma marshalable_ints : forall rows, forallb marshalableb (map (PInt false) rows) = true.
Proof. induction rows; cbn; auto. Qed.

Section Encode.
Variable orc : oracles.

Lemma marshalable_tag : forall c args, marshalableb (tag c args) = forallb marshalableb args.
Proof. reflexivity. Qed.

Lemma marshalable_U : forall s, marshalableb (tag "U" [PStr false s]) = true.
Proof. reflexivity. Qed.

Lemma encode_marshalable : forall fuel v, vforall node_ok v = true -> marshalableb (encode_f orc fuel v) = true.
Proof.
  induction fuel as [|n IH]; intros v Hv.
  - (* no stack left: containers with children become ['U', ...] *)
    destruct v; cbn [vforall] in Hv; apply andb_true_iff in Hv as [Hnode Hch];
      unfold node_ok in Hnode; pose proof Hnode as Hwf; cbn [node_wf] in Hwf;
      cbn [encode_f]; try reflexivity.
    + destruct (is_int_short z); [reflexivity|]. destruct (str_of_Z z); reflexivity.
    + destruct (o_utf8_decode orc b); reflexivity.
    + destruct l; reflexivity.
    + destruct l; reflexivity.
    + destruct (forallb (fun kv => is_str (fst kv)) l); [|reflexivity]. destruct l; reflexivity.
    + destruct (dt_to_ts orc wall tz None); [|reflexivity]. destruct tz; reflexivity.
    + rewrite marshalable_tag. destruct k; cbn [forallb marshalableb]; rewrite marshalable_ints; reflexivity.
    + apply andb_true_iff in Hwf as [H1 H2]. rewrite marshalable_tag. cbn. rewrite H1, H2. reflexivity.
    + apply andb_true_iff in Hwf as [H1 H2]. rewrite marshalable_tag. cbn. rewrite H1, H2. reflexivity.
    + apply andb_true_iff in Hwf as [H12 H3]. apply andb_true_iff in H12 as [H1 H2].
      destruct uinput; [reflexivity|]. rewrite marshalable_tag. apply trim_args_ok. cbn. rewrite H1, H2, H3. reflexivity.
    + rewrite marshalable_tag. cbn. rewrite Hwf. reflexivity.
  - destruct v; cbn [vforall] in Hv; apply andb_true_iff in Hv as [Hnode Hch];
      unfold node_ok in Hnode; pose proof Hnode as Hwf; cbn [node_wf] in Hwf;
      cbn [encode_f]; try reflexivity.
    + destruct (is_int_short z); [reflexivity|]. destruct (str_of_Z z); reflexivity.
    + destruct (o_utf8_decode orc b); reflexivity.
    + (* list *)
      destruct l as [|x l]; [reflexivity|]. rewrite marshalable_tag, forallb_map.
      eapply forallb_impl; [|exact Hch]. intros y _ Hy. apply IH; exact Hy.
    + destruct l as [|x l]; [reflexivity|]. rewrite marshalable_tag, forallb_map.
      eapply forallb_impl; [|exact Hch]. intros y _ Hy. apply IH; exact Hy.
    + (* dict *)
      destruct (forallb (fun kv => is_str (fst kv)) l) eqn:Hstr; [|reflexivity].
      destruct l as [|kv l]; [reflexivity|]. rewrite marshalable_tag. cbn [forallb]. rewrite andb_true_r.
      cbn [marshalableb]. rewrite forallb_map.
      rewrite forallb_forall in *. intros [k x] Hin. specialize (Hch _ Hin). specialize (Hstr _ Hin).
      cbn [fst snd] in *. apply andb_true_iff in Hch as [_ Hx].
      destruct k; try discriminate. cbn [str_key]. apply IH; exact Hx.
    + destruct (dt_to_ts orc wall tz None); [|reflexivity]. destruct tz; reflexivity.
    + rewrite marshalable_tag. destruct k; cbn [forallb marshalableb]; rewrite marshalable_ints; reflexivity.
    + apply andb_true_iff in Hwf as [H1 H2]. rewrite marshalable_tag. cbn. rewrite H1, H2. reflexivity.
    + apply andb_true_iff in Hwf as [H1 H2]. rewrite marshalable_tag. cbn. rewrite H1, H2. reflexivity.
    + apply andb_true_iff in Hwf as [H12 H3]. apply andb_true_iff in H12 as [H1 H2].
      destruct uinput as [u|].
      * rewrite marshalable_tag. apply trim_args_ok. cbn. rewrite H1, H2, H3, (IH u Hch). reflexivity.
      * rewrite marshalable_tag. apply trim_args_ok. cbn. rewrite H1, H2, H3. reflexivity.
    + rewrite marshalable_tag. cbn. rewrite Hwf. reflexivity.
Qed.

(* ------------------------------------------------------------------------------------------- *)
(* replies: actions.get_action_repr and ActionBundle.to_json_obj *)

Definition action_ok (a : action) : bool :=
  match a with
  | ARecord _ t row cols =>
      marshalableb t && marshalableb row &&
      forallb (fun kv => match fst kv with PStr false _ => vforall node_ok (snd kv) | _ => false end) cols
  | ABulk _ t rows cols =>
      marshalableb t && marshalableb rows &&
      forallb (fun kv => match fst kv with PStr false _ => forallb (vforall node_ok) (snd kv) | _ => false end) cols
  | AOther _ fields => forallb marshalableb fields
  end.

Definition bundle_ok (b : bundle) : bool :=
  forallb (fun ea => action_ok (snd ea)) (b_stored b) &&
  forallb (fun ea => action_ok (snd ea)) (b_calc b) &&
  forallb (fun ea => action_ok (snd ea)) (b_undo b) &&
  forallb marshalableb (b_retvalues b).

Lemma action_repr_marshalable : forall fuel a, action_ok a = true -> marshalableb (action_repr orc fuel a) = true.
Proof.
  intros fuel a H. destruct a as [name t row cols|name t rows cols|name fields]; cbn [action_ok action_repr] in *.
  - apply andb_true_iff in H as [H12 H3]. apply andb_true_iff in H12 as [H1 H2].
    cbn [marshalableb forallb]. rewrite H1, H2. cbn [andb]. rewrite andb_true_r.
    rewrite forallb_map. eapply forallb_impl; [|exact H3]. intros [k x] _ Hk. cbn [fst snd] in *.
    destruct k; try discriminate. destruct sub; [discriminate|]. apply encode_marshalable; exact Hk.
  - apply andb_true_iff in H as [H12 H3]. apply andb_true_iff in H12 as [H1 H2].
    cbn [marshalableb forallb]. rewrite H1, H2. cbn [andb]. rewrite andb_true_r.
    rewrite forallb_map. eapply forallb_impl; [|exact H3]. intros [k x] _ Hk. cbn [fst snd] in *.
    destruct k; try discriminate. destruct sub; [discriminate|].
    cbn [marshalableb]. rewrite forallb_map. eapply forallb_impl; [|exact Hk].
    intros y _ Hy. apply encode_marshalable; exact Hy.
  - cbn [marshalableb forallb]. exact H.
Qed.

Lemma acts_marshalable : forall fuel l, forallb (fun ea => action_ok (snd ea)) l = true ->
  marshalableb (PList LPlain (map (fun ea : Z * action => PTuple [PInt false (fst ea); action_repr orc fuel (snd ea)]) l)) = true.
Proof.
  intros fuel l H. cbn [marshalableb]. rewrite forallb_map. eapply forallb_impl; [|exact H].
  intros [e a] _ Ha. cbn [fst snd marshalableb forallb] in *. rewrite (action_repr_marshalable fuel a Ha). reflexivity.
Qed.

Lemma marshalable_strs : forall r, forallb marshalableb (map (PStr false) r) = true.
Proof. induction r; cbn; auto. Qed.

Lemma marshalable_dict_cons : forall k x l,
  marshalableb (PDict ((PStr false k, x) :: l)) = marshalableb x && marshalableb (PDict l).
Proof. reflexivity. Qed.

Lemma to_json_obj_marshalable : forall fuel b, bundle_ok b = true -> marshalableb (to_json_obj orc fuel b) = true.
Proof.
  intros fuel b H. unfold bundle_ok in H.
  apply andb_true_iff in H as [H123 H4]. apply andb_true_iff in H123 as [H12 H3]. apply andb_true_iff in H12 as [H1 H2].
  unfold to_json_obj, key. rewrite !marshalable_dict_cons.
  rewrite (acts_marshalable fuel _ H1), (acts_marshalable fuel _ H2), (acts_marshalable fuel _ H3).
  assert (E : marshalableb (PList LPlain (map (fun r => PDict [(PStr false (Str "recipients"), PList LPlain (map (PStr false) r))])
                                              (b_envelopes b))) = true).
  { cbn [marshalableb]. rewrite forallb_map. apply forallb_forall. intros r _.
    rewrite marshalable_dict_cons. cbn [marshalableb forallb]. rewrite marshalable_strs. reflexivity. }
  assert (D : marshalableb (PList LPlain (map (fun eb : Z * bool => PTuple [PInt false (fst eb); PBool (snd eb)]) (b_direct b))) = true).
  { cbn [marshalableb]. rewrite forallb_map. apply forallb_forall. intros eb _. reflexivity. }
  assert (R : marshalableb (PList LPlain (b_retvalues b)) = true) by exact H4.
  assert (U : marshalableb (PList LPlain (map (PInt false) (b_rules b))) = true) by apply marshalable_ints.
  rewrite E, D, R, U. reflexivity.
Qed.

End Encode.

(* ------------------------------------------------------------------------------------------- *)
(* encode (decode (encode v)) = encode v *)

(* datetimes at least a day (and the 16 microseconds float seconds can be off by) inside the calendar *)
Definition dt_margin (u : Z) : bool :=
  (MIN_US + US_PER_DAY + 16 <=? u) && (u <=? MAX_US - US_PER_DAY - 16).

Section RoundTrip.
Variable orc : oracles.

Definition zone_ok (z : str) : bool :=
  match o_zone_known orc (PStr false z) with Ok true => true | _ => false end.

(* per node: dates are dates of the calendar; a datetime's zone is in the tz database and its UTC instant
   has the margin *)
Definition node_dt (v : value) : bool :=
  match v with
  | PDate d => (MIN_DAY <=? d) && (d <=? MAX_DAY)
  | PDateTime w tz =>
      match tz with
      | TzFixed _ _ => true
      | TzNaive => dt_margin w
      | TzMoment z f => dt_margin (w - o_dt_offset orc z f w) && zone_ok z
      end
  | _ => true
  end.

(* Library facts (C code / tz data), monitored on the implementation by harness/props/c24.py *)
Hypothesis H_utc : zone_ok (Str "UTC") = true.
Hypothesis H_float_whole : forall d, MIN_DAY <= d <= MAX_DAY ->
  o_td_seconds orc (o_total_seconds orc (d * US_PER_DAY)) = UsOk (d * US_PER_DAY).
Hypothesis H_float : forall u, in_dt_range u = true ->
  exists u', o_td_seconds orc (o_total_seconds orc u) = UsOk u' /\ Z.abs (u' - u) <= 16 /\
             o_total_seconds orc u' = o_total_seconds orc u.
Hypothesis H_tz : forall z u, in_dt_range u = true ->
  Z.abs (o_ts_offset orc z u) < US_PER_DAY /\
  o_dt_offset orc z (Some (o_ts_offset orc z u)) (u + o_ts_offset orc z u) = o_ts_offset orc z u.

(* decode_object on the forms encode_object produces *)
Lemma decode_prim : forall n v, (forall k l, v <> PList k l) -> (forall l, v <> PTuple l) -> decode_f orc n v = v.
Proof. intros n v H1 H2. destruct n; destruct v; try reflexivity; try (exfalso; eapply H1; reflexivity); exfalso; eapply H2; reflexivity. Qed.

Lemma decode_U : forall n r, decode_f orc n (tag "U" [r]) = PUnmarsh r.
Proof. intros [|n] r; reflexivity. Qed.

Lemma decode_R : forall n t r, decode_f orc n (tag "R" [t; r]) = PRecordStub t r.
Proof. intros [|n] t r; reflexivity. Qed.

Lemma decode_r : forall n t r, decode_f orc n (tag "r" [t; r]) = PRecordSetStub t r.
Proof. intros [|n] t r; reflexivity. Qed.

Lemma decode_P : forall n, decode_f orc n (tag "P" []) = PPending.
Proof. intros [|n]; reflexivity. Qed.

Lemma decode_C : forall n, decode_f orc n (tag "C" []) = PCensored.
Proof. intros [|n]; reflexivity. Qed.

Lemma decode_L_nil : forall n, decode_f orc n (tag "L" []) = PList LPlain [].
Proof. intros [|n]; reflexivity. Qed.

Lemma decode_L : forall n x l, decode_f orc (S n) (tag "L" (x :: l)) = PList LPlain (map (decode_f orc n) (x :: l)).
Proof. reflexivity. Qed.

Lemma decode_O_nil : forall n, decode_f orc n (tag "O" [PDict []]) = PDict [].
Proof. intros [|n]; reflexivity. Qed.

Lemma decode_O : forall n kv l, decode_f orc (S n) (tag "O" [PDict (kv :: l)]) =
  PDict (map (fun kv => (decode_f orc n (fst kv), decode_f orc n (snd kv))) (kv :: l)).
Proof. reflexivity. Qed.

Lemma decode_L_ne : forall n l, l <> [] -> decode_f orc (S n) (tag "L" l) = PList LPlain (map (decode_f orc n) l).
Proof. intros n [|x l] H; [contradiction|reflexivity]. Qed.

Lemma decode_O_ne : forall n l, l <> [] -> decode_f orc (S n) (tag "O" [PDict l]) =
  PDict (map (fun kv => (decode_f orc n (fst kv), decode_f orc n (snd kv))) l).
Proof. intros n [|x l] H; [contradiction|reflexivity]. Qed.

Lemma decode_d : forall n ts, decode_f orc n (tag "d" [PFloat false ts]) =
  match ts_to_date orc (PFloat false ts) with Ok w => w | Raise e => raised e end.
Proof. intros [|n] ts; reflexivity. Qed.

Lemma decode_D : forall n ts z, zone_ok z = true -> decode_f orc n (tag "D" [PFloat false ts; PStr false z]) =
  match ts_to_dt orc (PFloat false ts) z with Ok w => w | Raise e => raised e end.
Proof.
  intros n ts z Hz. unfold zone_ok in Hz.
  destruct n; cbn -[ts_to_dt]; destruct (o_zone_known orc (PStr false z)) as [[|]|]; try discriminate; reflexivity.
Qed.

(* RaisedException.decode_args on what encode_args produced *)
Definition isnone (v : value) : bool := match v with PNone => true | _ => false end.

Lemma isnone_true : forall v, isnone v = true -> v = PNone.
Proof. destruct v; cbn; intros H; try discriminate; reflexivity. Qed.

Lemma shift_or_cons : forall x t, shift_or PNone (x :: t) = (x, t).
Proof. destruct x; reflexivity. Qed.

Lemma trim_nones_3 : forall b c, trim_nones [b; c; PNone] =
  if isnone c then (if isnone b then [] else [b]) else [b; c].
Proof. intros b c. destruct c; destruct b; reflexivity. Qed.

Lemma decode_E_args : forall n a rest,
  decode_f orc n (tag "E" (a :: rest)) =
  let '(msg, a2) := shift_or PNone rest in
  let '(details, a3) := shift_or PNone a2 in
  let '(ui, _) := shift_or (PDict []) a3 in
  match (match ui with
         | PDict l => match dict_get (Str "u") l with
                      | None => Ok (PErr a msg details None)
                      | Some u => match n with
                                  | O => Raise E_Recursion
                                  | S k => Ok (PErr a msg details (Some (decode_f orc k u)))
                                  end
                      end
         | _ => Raise E_Attribute
         end) with Ok w => w | Raise e => raised e end.
Proof.
  intros n a rest. destruct n; cbn -[shift_or dict_get]; rewrite shift_or_cons;
    destruct (shift_or PNone rest) as [msg a2]; destruct (shift_or PNone a2) as [details a3];
    destruct (shift_or (PDict []) a3) as [ui a4]; reflexivity.
Qed.

Lemma decode_E_none : forall n a b c, decode_f orc n (tag "E" (trim_args [a; b; c; PNone])) = PErr a b c None.
Proof.
  intros n a b c. cbn [trim_args]. rewrite trim_nones_3, decode_E_args.
  destruct (isnone c) eqn:Ec; [apply isnone_true in Ec; subst c|].
  - destruct (isnone b) eqn:Eb; [apply isnone_true in Eb; subst b; reflexivity|].
    rewrite shift_or_cons. reflexivity.
  - rewrite !shift_or_cons. reflexivity.
Qed.

Lemma decode_E_some : forall n a b c e,
  decode_f orc (S n) (tag "E" (trim_args [a; b; c; PDict [(PStr false (Str "u"), e)]])) =
  PErr a b c (Some (decode_f orc n e)).
Proof.
  intros n a b c e.
  assert (Ht : trim_args [a; b; c; PDict [(PStr false (Str "u"), e)]] = [a; b; c; PDict [(PStr false (Str "u"), e)]]).
  { cbn [trim_args trim_nones]. reflexivity. }
  rewrite Ht, decode_E_args, !shift_or_cons. reflexivity.
Qed.

Lemma encode_unmarsh : forall n r, encode_f orc n (PUnmarsh r) = tag "U" [r].
Proof. intros [|n] r; reflexivity. Qed.

Lemma rt_U : forall n s, encode_f orc n (decode_f orc n (tag "U" [PStr false s])) = tag "U" [PStr false s].
Proof. intros n s. rewrite decode_U. apply encode_unmarsh. Qed.

Lemma encode_stub : forall n t r, encode_f orc n (PRecordStub t r) = tag "R" [t; r].
Proof. intros [|n] t r; reflexivity. Qed.

Lemma encode_setstub : forall n t r, encode_f orc n (PRecordSetStub t r) = tag "r" [t; r].
Proof. intros [|n] t r; reflexivity. Qed.

Lemma in_dt_range_iff : forall u, in_dt_range u = true <-> MIN_US <= u <= MAX_US.
Proof. intros u. unfold in_dt_range. rewrite andb_true_iff, !Z.leb_le. tauto. Qed.

Lemma dt_margin_iff : forall u, dt_margin u = true <-> MIN_US + US_PER_DAY + 16 <= u <= MAX_US - US_PER_DAY - 16.
Proof. intros u. unfold dt_margin. rewrite andb_true_iff, !Z.leb_le. tauto. Qed.

(* the datetime case *)
Lemma rt_datetime : forall n u z, dt_margin u = true -> zone_ok z = true ->
  let e := tag "D" [PFloat false (o_total_seconds orc u); PStr false z] in
  encode_f orc n (decode_f orc n e) = e.
Proof.
  intros n u z Hm Hz e. unfold e. rewrite (decode_D n _ z Hz).
  apply dt_margin_iff in Hm.
  assert (Hr : in_dt_range u = true).
  { apply in_dt_range_iff. unfold MIN_US, MAX_US, US_PER_DAY in *. lia. }
  destruct (H_float u Hr) as [u' [Htd [Hclose Hsame]]].
  assert (Hr' : in_dt_range u' = true).
  { apply in_dt_range_iff. unfold MIN_US, MAX_US, US_PER_DAY in *. lia. }
  destruct (H_tz z u' Hr') as [Hoff Hback].
  unfold ts_to_dt, td_of_seconds. rewrite Htd.
  assert (Hchk : ((- MAX_TD_DAYS * US_PER_DAY <=? u') && (u' <? (MAX_TD_DAYS + 1) * US_PER_DAY)) = true).
  { apply in_dt_range_iff in Hr'. apply andb_true_iff. rewrite Z.leb_le, Z.ltb_lt.
    unfold MIN_US, MAX_US, US_PER_DAY, MAX_TD_DAYS in *. lia. }
  rewrite Hchk. cbn [bind]. rewrite Hr'. cbn [negb].
  assert (Hr'' : in_dt_range (u' + o_ts_offset orc z u') = true).
  { apply in_dt_range_iff. unfold MIN_US, MAX_US, US_PER_DAY in *. lia. }
  rewrite Hr''. cbn [negb].
  (* re-encoding *)
  assert (Henc : forall k, encode_f orc k (PDateTime (u' + o_ts_offset orc z u') (TzMoment z (Some (o_ts_offset orc z u')))) =
                 tag "D" [PFloat false (o_total_seconds orc u); PStr false z]).
  { intros k. assert (Hts : dt_to_ts orc (u' + o_ts_offset orc z u') (TzMoment z (Some (o_ts_offset orc z u'))) None
                            = Ok (o_total_seconds orc u)).
    { unfold dt_to_ts. cbn [utcoffset]. rewrite Hback.
      replace (u' + o_ts_offset orc z u' - o_ts_offset orc z u') with u' by ring.
      rewrite Hr', Hsame. reflexivity. }
    destruct k; cbn [encode_f]; rewrite Hts; reflexivity. }
  apply Henc.
Qed.

Lemma rt_date : forall n d, MIN_DAY <= d <= MAX_DAY ->
  let e := tag "d" [PFloat false (o_total_seconds orc (d * US_PER_DAY))] in
  encode_f orc n (decode_f orc n e) = e.
Proof.
  intros n d Hd e. unfold e. rewrite decode_d. unfold ts_to_date, td_of_seconds. rewrite (H_float_whole d Hd).
  assert (Hchk : ((- MAX_TD_DAYS * US_PER_DAY <=? d * US_PER_DAY) && (d * US_PER_DAY <? (MAX_TD_DAYS + 1) * US_PER_DAY)) = true).
  { apply andb_true_iff. rewrite Z.leb_le, Z.ltb_lt. unfold MIN_DAY, MAX_DAY, US_PER_DAY, MAX_TD_DAYS in *. lia. }
  rewrite Hchk. cbn [bind].
  replace (d * US_PER_DAY / US_PER_DAY) with d by (symmetry; apply Z.div_mul; unfold US_PER_DAY; lia).
  assert (Hin : ((MIN_DAY <=? d) && (d <=? MAX_DAY)) = true) by (apply andb_true_iff; rewrite !Z.leb_le; exact Hd).
  rewrite Hin. destruct n; reflexivity.
Qed.

Lemma vforall_children : forall P l, forallb (vforall P) l = true -> forall x, In x l -> vforall P x = true.
Proof. intros P l H. rewrite forallb_forall in H. exact H. Qed.

Lemma encode_f_is_str_keys : forall (f : value -> value) l,
  forallb (fun kv : value * value => is_str (fst kv)) l = true ->
  forallb (fun kv : value * value => is_str (fst kv)) (map (fun kv => (str_key (fst kv), f (snd kv))) l) = true.
Proof.
  intros f l H. rewrite forallb_map. eapply forallb_impl; [|exact H].
  intros [k x] _ Hk. cbn [fst] in *. destruct k; try discriminate. reflexivity.
Qed.

Lemma str_key_idem : forall k, str_key (str_key k) = str_key k.
Proof. destruct k; reflexivity. Qed.

Theorem encode_decode_encode : forall n v, vforall node_dt v = true ->
  encode_f orc n (decode_f orc n (encode_f orc n v)) = encode_f orc n v.
Proof.
  induction n as [|n IH]; intros v Hv.
  - remember (encode_f orc 0 v) as e eqn:He.
    destruct v; cbn [vforall] in Hv; apply andb_true_iff in Hv as [Hnode Hch]; cbn [node_dt] in Hnode;
      cbn [encode_f] in He; subst e; try reflexivity; try apply rt_U.
    + destruct (is_int_short z) eqn:E; [cbn [decode_f encode_f]; rewrite E; reflexivity|].
      destruct (str_of_Z z); apply rt_U.
    + destruct (o_utf8_decode orc b); [reflexivity|apply rt_U].
    + destruct l; [reflexivity|apply rt_U].
    + destruct l; [reflexivity|apply rt_U].
    + destruct (forallb (fun kv => is_str (fst kv)) l); [|apply rt_U]. destruct l; [reflexivity|apply rt_U].
    + apply andb_true_iff in Hnode as [H1 H2]. apply Z.leb_le in H1. apply Z.leb_le in H2.
      unfold date_to_ts. apply rt_date. lia.
    + (* datetime *)
      unfold dt_to_ts. destruct tz as [|z f|off tg]; cbn [utcoffset].
      * replace (wall - 0) with wall by ring. pose proof Hnode as Hm. apply dt_margin_iff in Hm.
        assert (Hr : in_dt_range wall = true) by (apply in_dt_range_iff; unfold MIN_US, MAX_US, US_PER_DAY in *; lia).
        rewrite Hr. apply rt_datetime; [exact Hnode|exact H_utc].
      * apply andb_true_iff in Hnode as [Hm Hz]. pose proof Hm as Hm'. apply dt_margin_iff in Hm'.
        assert (Hr : in_dt_range (wall - o_dt_offset orc z f wall) = true)
          by (apply in_dt_range_iff; unfold MIN_US, MAX_US, US_PER_DAY in *; lia).
        rewrite Hr. apply rt_datetime; assumption.
      * destruct (in_dt_range (wall - off)); apply rt_U.
    + destruct uinput; [apply rt_U|]. rewrite decode_E_none. reflexivity.
  - remember (encode_f orc (S n) v) as e eqn:He.
    destruct v; cbn [vforall] in Hv; apply andb_true_iff in Hv as [Hnode Hch]; cbn [node_dt] in Hnode;
      cbn [encode_f] in He; subst e; try reflexivity; try apply rt_U.
    + destruct (is_int_short z) eqn:E; [cbn [decode_f encode_f]; rewrite E; reflexivity|].
      destruct (str_of_Z z); apply rt_U.
    + destruct (o_utf8_decode orc b); [reflexivity|apply rt_U].
    + (* list *)
      destruct l as [|x l]; [reflexivity|]. remember (x :: l) as xs eqn:Exs.
      assert (Hne1 : map (encode_f orc n) xs <> []) by (subst xs; discriminate).
      rewrite (decode_L_ne n _ Hne1), map_map.
      assert (Hne : map (fun y => decode_f orc n (encode_f orc n y)) xs <> []) by (subst xs; discriminate).
      destruct (map (fun y => decode_f orc n (encode_f orc n y)) xs) as [|y ys] eqn:Em; [contradiction|].
      cbn [encode_f]. rewrite <- Em, map_map. apply (f_equal (tag "L")).
      apply map_ext_in. intros a Ha. apply IH. eapply vforall_children; eauto.
    + destruct l as [|x l]; [reflexivity|]. remember (x :: l) as xs eqn:Exs.
      assert (Hne1 : map (encode_f orc n) xs <> []) by (subst xs; discriminate).
      rewrite (decode_L_ne n _ Hne1), map_map.
      assert (Hne : map (fun y => decode_f orc n (encode_f orc n y)) xs <> []) by (subst xs; discriminate).
      destruct (map (fun y => decode_f orc n (encode_f orc n y)) xs) as [|y ys] eqn:Em; [contradiction|].
      cbn [encode_f]. rewrite <- Em, map_map. apply (f_equal (tag "L")).
      apply map_ext_in. intros a Ha. apply IH. eapply vforall_children; eauto.
    + (* dict *)
      destruct (forallb (fun kv => is_str (fst kv)) l) eqn:Hstr; [|apply rt_U].
      destruct l as [|kv l]; [reflexivity|]. remember (kv :: l) as xs eqn:Exs.
      assert (Hne1 : map (fun kv : value * value => (str_key (fst kv), encode_f orc n (snd kv))) xs <> []) by (subst xs; discriminate).
      rewrite (decode_O_ne n _ Hne1), map_map. cbn [fst snd].
      (* keys are exact str now: decoding leaves them alone *)
      assert (Hkeys : map (fun x : value * value => (decode_f orc n (str_key (fst x)), decode_f orc n (encode_f orc n (snd x)))) xs =
                      map (fun x : value * value => (str_key (fst x), decode_f orc n (encode_f orc n (snd x)))) xs).
      { apply map_ext_in. intros [k x] Hin. cbn [fst snd]. rewrite forallb_forall in Hstr. specialize (Hstr _ Hin). cbn in Hstr.
        destruct k; try discriminate. cbn [str_key]. rewrite decode_prim; [reflexivity|discriminate|discriminate]. }
      rewrite Hkeys.
      remember (map (fun x : value * value => (str_key (fst x), decode_f orc n (encode_f orc n (snd x)))) xs) as ds eqn:Eds.
      assert (Hstr' : forallb (fun kv : value * value => is_str (fst kv)) ds = true).
      { subst ds. apply (encode_f_is_str_keys (fun y => decode_f orc n (encode_f orc n y))). exact Hstr. }
      assert (Hne : ds <> []) by (subst ds xs; discriminate).
      destruct ds as [|y ys]; [contradiction|].
      cbn [encode_f]. rewrite Hstr'. rewrite Eds, map_map. cbn [fst snd]. apply (f_equal (fun d => tag "O" [PDict d])).
      apply map_ext_in. intros [k x] Hin. cbn [fst snd]. rewrite str_key_idem. f_equal. apply IH.
      rewrite forallb_forall in Hch. specialize (Hch _ Hin). cbn in Hch. apply andb_true_iff in Hch as [_ Hx]. exact Hx.
    + apply andb_true_iff in Hnode as [H1 H2]. apply Z.leb_le in H1. apply Z.leb_le in H2.
      unfold date_to_ts. apply rt_date. lia.
    + unfold dt_to_ts. destruct tz as [|z f|off tg]; cbn [utcoffset].
      * replace (wall - 0) with wall by ring. pose proof Hnode as Hm. apply dt_margin_iff in Hm.
        assert (Hr : in_dt_range wall = true) by (apply in_dt_range_iff; unfold MIN_US, MAX_US, US_PER_DAY in *; lia).
        rewrite Hr. apply rt_datetime; [exact Hnode|exact H_utc].
      * apply andb_true_iff in Hnode as [Hm Hz]. pose proof Hm as Hm'. apply dt_margin_iff in Hm'.
        assert (Hr : in_dt_range (wall - o_dt_offset orc z f wall) = true)
          by (apply in_dt_range_iff; unfold MIN_US, MAX_US, US_PER_DAY in *; lia).
        rewrite Hr. apply rt_datetime; assumption.
      * destruct (in_dt_range (wall - off)); apply rt_U.
    + destruct uinput as [u|].
      * rewrite decode_E_some. cbn [encode_f]. rewrite (IH u Hch). reflexivity.
      * rewrite decode_E_none. reflexivity.
Qed.

End RoundTrip.
