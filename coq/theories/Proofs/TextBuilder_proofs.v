(* Proofs about Model/TextBuilder.v (C37). *)
From Coq Require Import ZArith List Bool Lia.
Import ListNotations.
Require Import Grist.Model.TextBuilder.
Open Scope Z_scope.
