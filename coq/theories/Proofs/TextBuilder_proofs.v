(* Proofs about Model/TextBuilder.v (C37). *)
From Coq Require Import ZArith List Bool Lia Arith.
Import ListNotations.
Require Import Grist.Model.TextBuilder.
Open Scope Z_scope.

(* ---------- A. lists indexed by Z ---------- *)
Lemma skipn_skipn {A} (x y : nat) (l : list A) : skipn x (skipn y l) = skipn (x + y) l.
Proof.
  revert l; induction y as [|y IH]; intros l.
  - rewrite Nat.add_0_r; reflexivity.
  - rewrite Nat.add_succ_r. destruct l as [|a l]; cbn [skipn]; [apply skipn_nil | apply IH].
Qed.
Lemma len_nonneg {A} (l : list A) : 0 <= len l.
Proof. unfold len; lia. Qed.
Lemma len_nil {A} : len (@nil A) = 0.
Proof. reflexivity. Qed.
Lemma len_cons {A} (x : A) l : len (x :: l) = 1 + len l.
Proof. unfold len; cbn [length]; lia. Qed.
Lemma len_app {A} (l m : list A) : len (l ++ m) = len l + len m.
Proof. unfold len; rewrite app_length; lia. Qed.
Lemma len_map {A B} (f : A -> B) l : len (map f l) = len l.
Proof. unfold len; rewrite map_length; reflexivity. Qed.
Lemma len_from {A} (l : list A) a : 0 <= a <= len l -> len (from l a) = len l - a.
Proof. unfold len, from; intros; rewrite skipn_length; lia. Qed.
Lemma len_sub {A} (l : list A) a b : 0 <= a <= b -> b <= len l -> len (sub l a b) = b - a.
Proof. unfold len, sub; intros; rewrite firstn_length, skipn_length; lia. Qed.

Lemma sub_nil_ge {A} (l : list A) a b : b <= a -> sub l a b = [].
Proof. unfold sub; intros; replace (Z.to_nat (b - a)) with O by lia; reflexivity. Qed.

Lemma from_0 {A} (l : list A) : from l 0 = l.
Proof. reflexivity. Qed.
Lemma from_all {A} (l : list A) : from l (len l) = [].
Proof. unfold from, len; rewrite Nat2Z.id; apply skipn_all. Qed.
Lemma sub_0_len {A} (l : list A) : sub l 0 (len l) = l.
Proof. unfold sub, len; cbn [Z.to_nat skipn]; rewrite Z.sub_0_r, Nat2Z.id; apply firstn_all. Qed.

Lemma from_app_l {A} (l m : list A) a : 0 <= a <= len l -> from (l ++ m) a = from l a ++ m.
Proof.
  unfold from, len; intros; rewrite skipn_app.
  replace (Z.to_nat a - length l)%nat with O by lia; reflexivity.
Qed.
Lemma from_app_r {A} (l m : list A) a : len l <= a -> from (l ++ m) a = from m (a - len l).
Proof.
  unfold from, len; intros; rewrite skipn_app, skipn_all2 by lia.
  replace (Z.to_nat (a - Z.of_nat (length l))) with (Z.to_nat a - length l)%nat by lia; reflexivity.
Qed.
Lemma sub_app_l {A} (l m : list A) a b : 0 <= a -> b <= len l -> sub (l ++ m) a b = sub l a b.
Proof.
  unfold sub, len; intros.
  destruct (Z_le_gt_dec b a) as [Hle|Hgt].
  - replace (Z.to_nat (b - a)) with O by lia; reflexivity.
  - rewrite skipn_app, firstn_app, skipn_length.
    replace (Z.to_nat (b - a) - (length l - Z.to_nat a))%nat with O by lia.
    cbn [firstn]; rewrite app_nil_r; reflexivity.
Qed.
Lemma sub_app_r {A} (l m : list A) a b : len l <= a -> sub (l ++ m) a b = sub m (a - len l) (b - len l).
Proof.
  unfold sub, len; intros; rewrite skipn_app, skipn_all2 by lia; cbn [app].
  replace (Z.to_nat (a - Z.of_nat (length l))) with (Z.to_nat a - length l)%nat by lia.
  replace (b - Z.of_nat (length l) - (a - Z.of_nat (length l))) with (b - a) by lia; reflexivity.
Qed.
Lemma sub_map {A B} (f : A -> B) l a b : sub (map f l) a b = map f (sub l a b).
Proof. unfold sub; rewrite skipn_map, firstn_map; reflexivity. Qed.
Lemma from_map {A B} (f : A -> B) l a : from (map f l) a = map f (from l a).
Proof. unfold from; apply skipn_map. Qed.

(* l[a:c] = l[a:b] ++ l[b:c],  l[a:] = l[a:b] ++ l[b:] *)
Lemma sub_split {A} (l : list A) a b c : 0 <= a <= b -> b <= c -> sub l a c = sub l a b ++ sub l b c.
Proof.
  unfold sub; intros.
  replace (Z.to_nat (c - a)) with (Z.to_nat (b - a) + Z.to_nat (c - b))%nat by lia.
  replace (Z.to_nat b) with (Z.to_nat (b - a) + Z.to_nat a)%nat by lia.
  rewrite <- skipn_skipn.
  generalize (skipn (Z.to_nat a) l) as m; generalize (Z.to_nat (b - a)) as n; generalize (Z.to_nat (c - b)) as k.
  intros k n; induction n as [|n IH]; intros m; [reflexivity|].
  destruct m as [|x m]; cbn [plus firstn skipn app].
  - rewrite firstn_nil; reflexivity.
  - rewrite IH; reflexivity.
Qed.
Lemma from_split {A} (l : list A) a b : 0 <= a <= b -> from l a = sub l a b ++ from l b.
Proof.
  unfold sub, from; intros.
  replace (Z.to_nat b) with (Z.to_nat (b - a) + Z.to_nat a)%nat by lia.
  rewrite <- skipn_skipn, firstn_skipn; reflexivity.
Qed.
Lemma from_from {A} (l : list A) a b : 0 <= a -> 0 <= b -> from (from l a) b = from l (a + b).
Proof. unfold from; intros; rewrite skipn_skipn; f_equal; lia. Qed.
Lemma sub_from {A} (l : list A) c a b : 0 <= c -> 0 <= a -> sub (from l c) a b = sub l (c + a) (c + b).
Proof.
  unfold sub, from; intros; rewrite skipn_skipn.
  replace (c + b - (c + a)) with (b - a) by lia. do 2 f_equal; lia.
Qed.

Lemma znth_app_l {A} (l m : list A) k d : 0 <= k < len l -> znth (l ++ m) k d = znth l k d.
Proof. unfold znth, len; intros; apply app_nth1; lia. Qed.
Lemma znth_app_r {A} (l m : list A) k d : len l <= k -> znth (l ++ m) k d = znth m (k - len l) d.
Proof. unfold znth, len; intros; rewrite app_nth2 by lia; f_equal; lia. Qed.
Lemma znth_map {A B} (f : A -> B) l k d : 0 <= k < len l -> znth (map f l) k (f d) = f (znth l k d).
Proof. unfold znth; intros; apply map_nth. Qed.
Lemma nth_firstn_lt {A} (l : list A) n k d : (n < k)%nat -> nth n (firstn k l) d = nth n l d.
Proof.
  revert n k; induction l as [|x l IH]; intros n k H.
  - rewrite firstn_nil; reflexivity.
  - destruct k as [|k]; [lia|]. destruct n as [|n]; cbn [firstn nth]; [reflexivity | apply IH; lia].
Qed.
Lemma nth_skipn_add {A} (l : list A) n k d : nth n (skipn k l) d = nth (k + n) l d.
Proof.
  revert k; induction l as [|x l IH]; intros k.
  - rewrite skipn_nil. destruct n, k; reflexivity.
  - destruct k as [|k]; cbn [skipn plus nth]; [reflexivity | apply IH].
Qed.
Lemma znth_sub {A} (l : list A) a b k d : 0 <= a -> 0 <= k < b - a ->
  znth (sub l a b) k d = znth l (a + k) d.
Proof.
  unfold znth, sub; intros. rewrite nth_firstn_lt by lia. rewrite nth_skipn_add. f_equal; lia.
Qed.
Lemma znth_from {A} (l : list A) a k d : 0 <= a -> 0 <= k -> znth (from l a) k d = znth l (a + k) d.
Proof. unfold znth, from; intros. rewrite nth_skipn_add. f_equal; lia. Qed.

(* ---------- B. Python primitives ---------- *)
Lemma text_eqb_refl t : text_eqb t t = true.
Proof. induction t as [|x t IH]; cbn [text_eqb]; [reflexivity | rewrite Z.eqb_refl, IH; reflexivity]. Qed.
Lemma text_eqb_eq a b : text_eqb a b = true -> a = b.
Proof.
  revert b; induction a as [|x a IH]; intros [|y b] H; cbn [text_eqb] in H; try discriminate; [reflexivity|].
  apply andb_prop in H as [H1 H2]. apply Z.eqb_eq in H1. f_equal; auto.
Qed.

Lemma py_slice_sub {A} (l : list A) a b : 0 <= a <= len l -> 0 <= b <= len l -> py_slice l a b = sub l a b.
Proof.
  intros Ha Hb. unfold py_slice, sub, clamp.
  destruct (a <? 0) eqn:E1; [apply Z.ltb_lt in E1; lia|].
  destruct (b <? 0) eqn:E2; [apply Z.ltb_lt in E2; lia|].
  rewrite !Z.min_l by lia. reflexivity.
Qed.
Lemma py_slice_from_from {A} (l : list A) a : 0 <= a <= len l -> py_slice_from l a = from l a.
Proof.
  intros Ha. unfold py_slice_from, from, clamp.
  destruct (a <? 0) eqn:E1; [apply Z.ltb_lt in E1; lia|]. rewrite Z.min_l by lia. reflexivity.
Qed.

(* sorted (non-decreasing) lists of offsets *)
Fixpoint sorted (a : list Z) : Prop :=
  match a with
  | [] => True
  | x :: t => Forall (fun y => x <= y) t /\ sorted t
  end.

(* number of leading elements <= x; on a sorted list: the number of elements <= x *)
Fixpoint count_le (a : list Z) (x : Z) : Z :=
  match a with
  | [] => 0
  | y :: t => if y <=? x then 1 + count_le t x else 0
  end.

Lemma count_le_range a x : 0 <= count_le a x <= len a.
Proof.
  induction a as [|y t IH]; cbn [count_le]; [unfold len; cbn; lia|].
  rewrite len_cons. destruct (y <=? x); lia.
Qed.
Lemma count_le_below a x i : 0 <= i < count_le a x -> znth a i 0 <= x.
Proof.
  revert i; induction a as [|y t IH]; intros i Hi; cbn [count_le] in Hi; [lia|].
  destruct (y <=? x) eqn:E; [|lia]. apply Z.leb_le in E.
  destruct (Z.eq_dec i 0) as [->|Hne]; [exact E|].
  unfold znth. replace (Z.to_nat i) with (S (Z.to_nat (i - 1))) by lia. cbn [nth]. apply IH. lia.
Qed.
Lemma count_le_above a x i : sorted a -> count_le a x <= i < len a -> x < znth a i 0.
Proof.
  revert i; induction a as [|y t IH]; intros i Hs Hi; [unfold len in Hi; cbn in Hi; lia|].
  cbn [count_le sorted] in *. rewrite len_cons in Hi. destruct Hs as [Hall Hs].
  pose proof (count_le_range t x) as Hr.
  destruct (y <=? x) eqn:E.
  - unfold znth. replace (Z.to_nat i) with (S (Z.to_nat (i - 1))) by lia. cbn [nth]. apply IH; [exact Hs|lia].
  - apply Z.leb_gt in E. destruct (Z.eq_dec i 0) as [->|Hne]; [exact E|].
    unfold znth. replace (Z.to_nat i) with (S (Z.to_nat (i - 1))) by lia. cbn [nth].
    rewrite Forall_forall in Hall. specialize (Hall (nth (Z.to_nat (i - 1)) t 0)).
    assert (In (nth (Z.to_nat (i - 1)) t 0) t) by (apply nth_In; unfold len in Hi; lia). specialize (Hall H). lia.
Qed.

Lemma bisect_loop_spec a x : sorted a -> forall fuel lo hi,
  0 <= lo <= count_le a x -> count_le a x <= hi <= len a -> hi - lo < Z.of_nat fuel ->
  bisect_loop fuel a x lo hi = count_le a x.
Proof.
  intros Hs fuel; induction fuel as [|f IH]; intros lo hi Hlo Hhi Hf; [lia|].
  cbn [bisect_loop]. destruct (lo <? hi) eqn:E; [apply Z.ltb_lt in E | apply Z.ltb_ge in E; lia].
  assert (Hmid : lo <= (lo + hi) / 2 < hi) by (split; [apply Z.div_le_lower_bound | apply Z.div_lt_upper_bound]; lia).
  destruct (x <? nth (Z.to_nat ((lo + hi) / 2)) a 0) eqn:E2.
  - apply Z.ltb_lt in E2. apply IH; try lia.
    destruct (Z_lt_le_dec ((lo + hi) / 2) (count_le a x)) as [Hlt|Hge]; [|lia].
    pose proof (count_le_below a x ((lo + hi) / 2)) as Hb. unfold znth in Hb. lia.
  - apply Z.ltb_ge in E2. apply IH; try lia.
    destruct (Z_lt_le_dec ((lo + hi) / 2) (count_le a x)) as [Hlt|Hge]; [lia|].
    pose proof (count_le_above a x ((lo + hi) / 2) Hs) as Hb. unfold znth in Hb. lia.
Qed.
Lemma bisect_right_sorted a x : sorted a -> bisect_right a x = count_le a x.
Proof.
  intros Hs. unfold bisect_right. pose proof (count_le_range a x).
  apply bisect_loop_spec; try assumption; try lia. unfold len. lia.
Qed.

(* ---------- C. get_input_pos as a walk along the table ---------- *)
Fixpoint lookup (bi bo : Z) (io oo : list Z) (k : Z) : Z :=
  match io, oo with
  | i :: io', o :: oo' => if o <=? k then lookup i o io' oo' k else bi + (k - bo)
  | _, _ => bi + (k - bo)
  end.

Lemma lookup_nth k : forall oo io bi bo, length io = length oo ->
  nth (Z.to_nat (count_le oo k)) (bi :: io) 0 + (k - nth (Z.to_nat (count_le oo k)) (bo :: oo) 0)
  = lookup bi bo io oo k.
Proof.
  induction oo as [|o oo IH]; intros [|i io] bi bo Hlen; try discriminate; cbn [count_le lookup]; [reflexivity|].
  destruct (o <=? k); [|reflexivity].
  pose proof (count_le_range oo k) as Hr.
  replace (Z.to_nat (1 + count_le oo k)) with (S (Z.to_nat (count_le oo k))) by lia.
  cbn [nth]. apply IH. cbn [length] in Hlen. lia.
Qed.

Lemma get_input_pos_lookup bi bo io oo k : sorted (bo :: oo) -> length io = length oo -> bo <= k ->
  get_input_pos (bi :: io) (bo :: oo) k = lookup bi bo io oo k.
Proof.
  intros Hs Hlen Hk. unfold get_input_pos. rewrite bisect_right_sorted by exact Hs.
  cbn [count_le]. destruct (bo <=? k) eqn:E; [|apply Z.leb_gt in E; lia].
  pose proof (count_le_range oo k) as Hr.
  replace (1 + count_le oo k - 1) with (count_le oo k) by lia.
  unfold py_index. destruct (count_le oo k <? 0) eqn:E2; [apply Z.ltb_lt in E2; lia|].
  apply lookup_nth; exact Hlen.
Qed.

Lemma lookup_stop bi bo io oo k : Forall (fun o => k < o) oo -> lookup bi bo io oo k = bi + (k - bo).
Proof.
  intros H. destruct io as [|i io], oo as [|o oo]; cbn [lookup]; try reflexivity.
  inversion H as [|? ? Ho _]; subst. destruct (o <=? k) eqn:E; [apply Z.leb_le in E; lia | reflexivity].
Qed.
Lemma lookup_ge m k : forall io oo bi bo, Forall (fun i => m <= i) io -> Forall (fun o => bo <= o) oo -> sorted oo ->
  m <= bi + (k - bo) -> m <= lookup bi bo io oo k.
Proof.
  induction io as [|i io IH]; intros oo bi bo Hi Ho Hs Hb; cbn [lookup]; [exact Hb|].
  destruct oo as [|o oo]; [exact Hb|]. destruct (o <=? k) eqn:E; [|exact Hb].
  apply Z.leb_le in E. inversion Hi; subst. cbn [sorted] in Hs. destruct Hs as [Hs1 Hs2].
  apply IH; try assumption. lia.
Qed.
(* no table entry at e: the position of e is one more than the position of e - 1 *)
Lemma lookup_succ e : forall io oo bi bo, ~ In e oo ->
  lookup bi bo io oo e = lookup bi bo io oo (e - 1) + 1.
Proof.
  induction io as [|i io IH]; intros oo bi bo Hn; cbn [lookup]; [lia|].
  destruct oo as [|o oo]; [lia|].
  assert (o <> e) by (intros ->; apply Hn; left; reflexivity).
  assert (~ In e oo) by (intros Hin; apply Hn; right; exact Hin).
  destruct (o <=? e) eqn:E1, (o <=? e - 1) eqn:E2;
    try apply Z.leb_le in E1; try apply Z.leb_le in E2; try apply Z.leb_gt in E1; try apply Z.leb_gt in E2;
    try lia. apply IH; assumption.
Qed.

(* ---------- D. the Replacer loop on well-formed patch lists ---------- *)
Definition shape := (Z * Z * Z)%type.                       (* start, end, length of the new text *)
Definition shp {A} (c : Z * Z * list A) : shape := (fst (fst c), snd (fst c), len (snd c)).

Fixpoint wfp (n ip : Z) (sh : list shape) : Prop :=
  match sh with
  | [] => 0 <= ip <= n
  | (s, e, k) :: r => 0 <= ip <= s /\ s <= e <= n /\ 0 <= k /\ wfp n e r
  end.

Fixpoint splice {A} (l : list A) (ip : Z) (cs : list (Z * Z * list A)) : list A :=
  match cs with
  | [] => from l ip
  | (s, e, new) :: r => sub l ip s ++ new ++ splice l e r
  end.

Fixpoint tab_in (ip op : Z) (sh : list shape) : list Z :=
  match sh with
  | [] => []
  | (s, e, k) :: r =>
      let t := tab_in e (op + (s - ip) + k) r in if k =? e - s then t else e :: t
  end.
Fixpoint tab_out (ip op : Z) (sh : list shape) : list Z :=
  match sh with
  | [] => []
  | (s, e, k) :: r =>
      let t := tab_out e (op + (s - ip) + k) r in if k =? e - s then t else (op + (s - ip) + k) :: t
  end.

Lemma shp_pcore p : shp (pcore p) = (p_start p, p_end p, len (p_new p)).
Proof. reflexivity. Qed.

Lemma wf_from_wfp t : forall ps ip, wf_from t ip ps -> wfp (len t) ip (map shp (map pcore ps)).
Proof.
  induction ps as [|p ps IH]; intros ip H; cbn [wf_from map wfp] in *; [exact H|].
  rewrite shp_pcore. destruct H as (H1 & H2 & _ & H4).
  repeat split; try lia; [apply len_nonneg | apply IH; exact H4].
Qed.

Lemma loop_ok t : forall ps ip op, wf_from t ip ps ->
  replacer_loop t ip op ps =
  Ok (tab_in ip op (map shp (map pcore ps)), tab_out ip op (map shp (map pcore ps)), splice t ip (map pcore ps)).
Proof.
  induction ps as [|p ps IH]; intros ip op H; cbn [wf_from replacer_loop map splice tab_in tab_out] in *.
  - rewrite py_slice_from_from by exact H. reflexivity.
  - destruct H as (H1 & H2 & H3 & H4).
    unfold validate_patch. rewrite py_slice_sub, H3, text_eqb_refl by lia.
    rewrite (IH _ _ H4). cbn [bind]. rewrite shp_pcore. unfold pcore at 5. rewrite py_slice_sub by lia.
    destruct (len (p_new p) =? p_end p - p_start p); reflexivity.
Qed.

(* applying the patches directly = the loop's output *)
Lemma apply_sorted_splice {A} (l : list A) : forall cs ip, wfp (len l) ip (map shp cs) ->
  apply_sorted l cs = sub l 0 ip ++ splice l ip cs.
Proof.
  induction cs as [|[[s e] new] cs IH]; intros ip H; cbn [map wfp apply_sorted splice] in *.
  - rewrite <- from_split by lia. reflexivity.
  - unfold shp in H; cbn [fst snd] in H. destruct H as (H1 & H2 & H3 & H4).
    rewrite (IH e H4). unfold apply_patch.
    assert (Hl : len (sub l 0 e) = e) by (rewrite len_sub; lia).
    rewrite sub_app_l by lia. rewrite from_app_r by lia. rewrite Hl, Z.sub_diag, from_0.
    assert (Hs : sub (sub l 0 e) 0 s = sub l 0 s).
    { rewrite (sub_split l 0 s e) by lia. rewrite sub_app_l; [|lia|rewrite len_sub; lia].
      rewrite <- (sub_0_len (sub l 0 s)) at 2. rewrite len_sub by lia. f_equal; lia. }
    rewrite Hs. rewrite (sub_split l 0 ip s) by lia. rewrite <- app_assoc. reflexivity.
Qed.

Definition map_core {A B} (f : A -> B) (c : Z * Z * list A) : Z * Z * list B := (fst c, map f (snd c)).
Lemma splice_map {A B} (f : A -> B) (l : list A) : forall cs ip,
  map f (splice l ip cs) = splice (map f l) ip (map (map_core f) cs).
Proof.
  induction cs as [|[[s e] new] cs IH]; intros ip; cbn [splice map].
  - symmetry; apply from_map.
  - unfold map_core at 1; cbn [fst snd]. rewrite !map_app, IH, sub_map. reflexivity.
Qed.
Lemma shp_map_core {A B} (f : A -> B) cs : map shp (map (map_core f) cs) = map shp cs.
Proof.
  induction cs as [|[[s e] new] cs IH]; cbn [map]; [reflexivity|]. rewrite IH. f_equal.
  unfold shp, map_core; cbn [fst snd]. rewrite len_map. reflexivity.
Qed.

Lemma tab_len : forall sh ip op, length (tab_in ip op sh) = length (tab_out ip op sh).
Proof.
  induction sh as [|[[s e] k] sh IH]; intros ip op; cbn [tab_in tab_out]; [reflexivity|].
  destruct (k =? e - s); cbn [length]; rewrite IH; reflexivity.
Qed.
Lemma tab_in_ge n : forall sh ip op, wfp n ip sh -> Forall (fun i => ip <= i) (tab_in ip op sh).
Proof.
  induction sh as [|[[s e] k] sh IH]; intros ip op H; cbn [tab_in wfp] in *; [constructor|].
  destruct H as (H1 & H2 & H3 & H4). specialize (IH e (op + (s - ip) + k) H4).
  assert (Forall (fun i => ip <= i) (tab_in e (op + (s - ip) + k) sh))
    by (eapply Forall_impl; [|exact IH]; cbn; intros; lia).
  destruct (k =? e - s); [assumption | constructor; [lia | assumption]].
Qed.
Lemma tab_out_ge n : forall sh ip op, wfp n ip sh -> Forall (fun o => op <= o) (tab_out ip op sh).
Proof.
  induction sh as [|[[s e] k] sh IH]; intros ip op H; cbn [tab_out wfp] in *; [constructor|].
  destruct H as (H1 & H2 & H3 & H4). specialize (IH e (op + (s - ip) + k) H4).
  assert (Forall (fun o => op <= o) (tab_out e (op + (s - ip) + k) sh))
    by (eapply Forall_impl; [|exact IH]; cbn; intros; lia).
  destruct (k =? e - s); [assumption | constructor; [lia | assumption]].
Qed.
Lemma tab_out_sorted n : forall sh ip op, wfp n ip sh -> sorted (tab_out ip op sh).
Proof.
  induction sh as [|[[s e] k] sh IH]; intros ip op H; cbn [tab_out wfp] in *; [exact I|].
  destruct H as (H1 & H2 & H3 & H4).
  destruct (k =? e - s); [apply IH; exact H4|]. cbn [sorted]. split; [|apply IH; exact H4].
  eapply tab_out_ge; exact H4.
Qed.

(* ---------- E. which input character an output character is a copy of ---------- *)
Fixpoint src_pos (ip op : Z) (sh : list shape) (k : Z) : option Z :=
  match sh with
  | [] => Some (ip + (k - op))
  | (s, e, n) :: r =>
      if k <? op + (s - ip) then Some (ip + (k - op))
      else if k <? op + (s - ip) + n then None
      else src_pos e (op + (s - ip) + n) r k
  end.

Lemma src_pos_ge n : forall sh ip op k q, wfp n ip sh -> op <= k -> src_pos ip op sh k = Some q -> ip <= q.
Proof.
  induction sh as [|[[s e] m] sh IH]; intros ip op k q H Hk Hq; cbn [src_pos wfp] in *.
  - inversion Hq; lia.
  - destruct H as (H1 & H2 & H3 & H4).
    destruct (k <? op + (s - ip)) eqn:E1; [inversion Hq; lia|].
    destruct (k <? op + (s - ip) + m) eqn:E2; [discriminate|]. apply Z.ltb_ge in E2.
    specialize (IH _ _ _ _ H4 E2 Hq). lia.
Qed.

Lemma src_pos_mono n : forall sh ip op k1 k2 q1 q2, wfp n ip sh -> op <= k1 <= k2 ->
  src_pos ip op sh k1 = Some q1 -> src_pos ip op sh k2 = Some q2 -> q1 <= q2.
Proof.
  induction sh as [|[[s e] m] sh IH]; intros ip op k1 k2 q1 q2 H Hk H1 H2; cbn [src_pos wfp] in *.
  - inversion H1; inversion H2; lia.
  - destruct H as (Ha & Hb & Hc & Hd).
    destruct (k1 <? op + (s - ip)) eqn:E1.
    + apply Z.ltb_lt in E1. inversion H1; subst q1.
      destruct (k2 <? op + (s - ip)) eqn:E2; [inversion H2; lia|].
      destruct (k2 <? op + (s - ip) + m) eqn:E3; [discriminate|]. apply Z.ltb_ge in E3.
      pose proof (src_pos_ge _ _ _ _ _ _ Hd E3 H2). lia.
    + apply Z.ltb_ge in E1.
      destruct (k1 <? op + (s - ip) + m) eqn:E1'; [discriminate|]. apply Z.ltb_ge in E1'.
      destruct (k2 <? op + (s - ip)) eqn:E2; [apply Z.ltb_lt in E2; lia|].
      destruct (k2 <? op + (s - ip) + m) eqn:E3; [apply Z.ltb_lt in E3; lia|].
      eapply IH; [exact Hd| |exact H1|exact H2]. lia.
Qed.

(* the character at output position k: a copy of input character q, or a character of a patch's new text *)
Lemma splice_znth {A} (l : list A) (d : A) : forall cs ip op k, wfp (len l) ip (map shp cs) ->
  op <= k < op + len (splice l ip cs) ->
  match src_pos ip op (map shp cs) k with
  | Some q => ip <= q < len l /\ znth (splice l ip cs) (k - op) d = znth l q d
  | None => exists c, In c cs /\ In (znth (splice l ip cs) (k - op) d) (snd c)
  end.
Proof.
  induction cs as [|[[s e] new] cs IH]; intros ip op k H Hk; cbn [map wfp splice src_pos] in *.
  - rewrite len_from in Hk by lia. split; [lia|]. rewrite znth_from by lia. f_equal; lia.
  - unfold shp at 1 in H; unfold shp at 1; cbn [fst snd] in *. destruct H as (H1 & H2 & H3 & H4).
    rewrite !len_app in Hk. assert (Hl : len (sub l ip s) = s - ip) by (rewrite len_sub; lia). rewrite Hl in Hk.
    destruct (k <? op + (s - ip)) eqn:E1.
    + apply Z.ltb_lt in E1. split; [lia|]. rewrite znth_app_l by lia. rewrite znth_sub by lia. f_equal; lia.
    + apply Z.ltb_ge in E1. rewrite znth_app_r by lia. rewrite Hl.
      destruct (k <? op + (s - ip) + len new) eqn:E2.
      * apply Z.ltb_lt in E2. exists (s, e, new). split; [left; reflexivity|]. cbn [snd].
        rewrite znth_app_l by lia. unfold znth. apply nth_In. unfold len in *. lia.
      * apply Z.ltb_ge in E2. rewrite znth_app_r by lia.
        specialize (IH e (op + (s - ip) + len new) k H4).
        replace (k - op - (s - ip) - len new) with (k - (op + (s - ip) + len new)) by lia.
        destruct (src_pos e (op + (s - ip) + len new) (map shp cs) k) as [q|].
        -- destruct IH as [IH1 IH2]; [lia|]. split; [lia|exact IH2].
        -- destruct IH as (c & Hc1 & Hc2); [lia|]. exists c. split; [right; exact Hc1|exact Hc2].
Qed.

(* A: the table walk finds the source position of a copied character *)
Lemma lookup_src n : forall sh ip op bi bo k q, wfp n ip sh -> op <= k -> bi - bo = ip - op -> bo <= op ->
  src_pos ip op sh k = Some q -> lookup bi bo (tab_in ip op sh) (tab_out ip op sh) k = q.
Proof.
  induction sh as [|[[s e] m] sh IH]; intros ip op bi bo k q H Hk Hinv Hbo Hq; cbn [src_pos wfp tab_in tab_out] in *.
  - cbn [lookup]. inversion Hq; lia.
  - destruct H as (H1 & H2 & H3 & H4).
    pose proof (tab_out_ge _ _ _ (op + (s - ip) + m) H4) as Hge.
    destruct (k <? op + (s - ip)) eqn:E1.
    + apply Z.ltb_lt in E1. inversion Hq; subst q.
      rewrite lookup_stop; [lia|].
      destruct (m =? e - s); [|constructor; [lia|]]; (eapply Forall_impl; [|exact Hge]; cbn; intros; lia).
    + apply Z.ltb_ge in E1. destruct (k <? op + (s - ip) + m) eqn:E2; [discriminate|]. apply Z.ltb_ge in E2.
      destruct (m =? e - s) eqn:E3.
      * apply Z.eqb_eq in E3. apply (IH e); try assumption; lia.
      * cbn [lookup]. destruct (op + (s - ip) + m <=? k) eqn:E4; [|apply Z.leb_gt in E4; lia].
        apply (IH e); try assumption; lia.
Qed.

(* C: ... and the walk for the position after a copied character never stops before it *)
Lemma lookup_src_next n : forall sh ip op bi bo k q, wfp n ip sh -> op <= k -> bi - bo = ip - op -> bo <= op ->
  src_pos ip op sh k = Some q -> q + 1 <= lookup bi bo (tab_in ip op sh) (tab_out ip op sh) (k + 1).
Proof.
  induction sh as [|[[s e] m] sh IH]; intros ip op bi bo k q H Hk Hinv Hbo Hq; cbn [src_pos wfp tab_in tab_out] in *.
  - cbn [lookup]. inversion Hq; lia.
  - destruct H as (H1 & H2 & H3 & H4).
    pose proof (tab_out_ge _ _ _ (op + (s - ip) + m) H4) as Hge.
    pose proof (tab_in_ge _ _ _ (op + (s - ip) + m) H4) as Hgi.
    pose proof (tab_out_sorted _ _ _ (op + (s - ip) + m) H4) as Hso.
    destruct (k <? op + (s - ip)) eqn:E1.
    + apply Z.ltb_lt in E1. inversion Hq; subst q.
      apply lookup_ge; [| | |lia].
      * destruct (m =? e - s); [|constructor; [lia|]]; (eapply Forall_impl; [|exact Hgi]; cbn; intros; lia).
      * destruct (m =? e - s); [|constructor; [lia|]]; (eapply Forall_impl; [|exact Hge]; cbn; intros; lia).
      * destruct (m =? e - s); [exact Hso|]. cbn [sorted]. split; assumption.
    + apply Z.ltb_ge in E1. destruct (k <? op + (s - ip) + m) eqn:E2; [discriminate|]. apply Z.ltb_ge in E2.
      destruct (m =? e - s) eqn:E3.
      * apply Z.eqb_eq in E3. apply (IH e); try assumption; lia.
      * cbn [lookup]. destruct (op + (s - ip) + m <=? k + 1) eqn:E4; [|apply Z.leb_gt in E4; lia].
        apply (IH e); try assumption; lia.
Qed.

(* ---------- F. one Replacer level ---------- *)
Definition dcell : cell := (0, None).

Lemma fst_generated t : map fst (generated t) = t.
Proof. unfold generated. rewrite map_map. cbn [fst]. apply map_id. Qed.
Lemma generated_None t x : In x (generated t) -> snd x = None.
Proof. unfold generated. rewrite in_map_iff. intros (c & <- & _). reflexivity. Qed.
Lemma acore_pcore ps : map (map_core fst) (map acore ps) = map pcore ps.
Proof.
  induction ps as [|p ps IH]; cbn [map]; [reflexivity|]. rewrite IH. f_equal.
  unfold map_core, acore, pcore; cbn [fst snd]. rewrite fst_generated. reflexivity.
Qed.
Lemma shp_acore ps : map shp (map acore ps) = map shp (map pcore ps).
Proof. rewrite <- acore_pcore, shp_map_core. reflexivity. Qed.

Definition shapes (ps : list patch) : list shape := map shp (map pcore ps).

Lemma replacer_init_ok t patches : wf_from t 0 (sort_patches patches) ->
  replacer_init t patches =
  Ok (0 :: tab_in 0 0 (shapes (sort_patches patches)), 0 :: tab_out 0 0 (shapes (sort_patches patches)),
      splice t 0 (map pcore (sort_patches patches))).
Proof. intros H. unfold replacer_init. rewrite (loop_ok _ _ _ _ H). reflexivity. Qed.

Lemma prender_replacer_splice (l : list cell) ps : wf_from (map fst l) 0 ps ->
  apply_sorted l (map acore ps) = splice l 0 (map acore ps) /\
  map fst (splice l 0 (map acore ps)) = splice (map fst l) 0 (map pcore ps).
Proof.
  intros H. apply wf_from_wfp in H. rewrite len_map in H. split.
  - rewrite (apply_sorted_splice l _ 0) by (rewrite shp_acore; exact H). reflexivity.
  - rewrite splice_map, acore_pcore. reflexivity.
Qed.

Lemma replacer_positions (l : list cell) ps s e o1 o2 :
  wf_from (map fst l) 0 ps ->
  let out := splice l 0 (map acore ps) in
  let io := 0 :: tab_in 0 0 (shapes ps) in
  let oo := 0 :: tab_out 0 0 (shapes ps) in
  0 <= s < e -> e <= len out ->
  snd (znth out s dcell) = Some o1 -> snd (znth out (e - 1) dcell) = Some o2 ->
  exists a b, 0 <= a < b /\ b <= len l /\
    znth l a dcell = znth out s dcell /\ znth l (b - 1) dcell = znth out (e - 1) dcell /\
    get_input_pos io oo s = a /\ input_end true io oo s e = b /\
    (~ In e (tab_out 0 0 (shapes ps)) -> input_end false io oo s e = b) /\
    src_pos 0 0 (shapes ps) s = Some a /\ src_pos 0 0 (shapes ps) (e - 1) = Some (b - 1).
Proof.
  intros Hwf out io oo Hse He Ho1 Ho2.
  apply wf_from_wfp in Hwf. rewrite len_map in Hwf. fold (shapes ps) in Hwf.
  assert (Hwf' : wfp (len l) 0 (map shp (map acore ps))) by (rewrite shp_acore; exact Hwf).
  pose proof (splice_znth l dcell (map acore ps) 0 0 s Hwf') as Ps.
  pose proof (splice_znth l dcell (map acore ps) 0 0 (e - 1) Hwf') as Pe.
  rewrite shp_acore in Ps, Pe. fold (shapes ps) in Ps, Pe. fold out in Ps, Pe.
  rewrite Z.sub_0_r in Ps, Pe.
  destruct (src_pos 0 0 (shapes ps) s) as [a|] eqn:Ea.
  2:{ destruct Ps as (c & Hc1 & Hc2); [lia|]. apply in_map_iff in Hc1 as (p & <- & _).
      apply generated_None in Hc2. congruence. }
  destruct (src_pos 0 0 (shapes ps) (e - 1)) as [b1|] eqn:Eb.
  2:{ destruct Pe as (c & Hc1 & Hc2); [lia|]. apply in_map_iff in Hc1 as (p & <- & _).
      apply generated_None in Hc2. congruence. }
  destruct Ps as [Ra Za]; [lia|]. destruct Pe as [Rb Zb]; [lia|].
  assert (Hab : a <= b1) by (eapply (src_pos_mono _ _ 0 0 s (e - 1)); [exact Hwf| |exact Ea|exact Eb]; lia).
  assert (Hsorted : sorted (0 :: tab_out 0 0 (shapes ps))).
  { cbn [sorted]. split; [eapply tab_out_ge; exact Hwf | eapply tab_out_sorted; exact Hwf]. }
  assert (Hlen : length (tab_in 0 0 (shapes ps)) = length (tab_out 0 0 (shapes ps))) by apply tab_len.
  assert (Gs : get_input_pos io oo s = a).
  { unfold io, oo. rewrite get_input_pos_lookup by (try assumption; lia).
    eapply lookup_src; [exact Hwf| | | |exact Ea]; lia. }
  assert (Ge1 : get_input_pos io oo (e - 1) = b1).
  { unfold io, oo. rewrite get_input_pos_lookup by (try assumption; lia).
    eapply lookup_src; [exact Hwf| | | |exact Eb]; lia. }
  assert (Ge : b1 + 1 <= get_input_pos io oo e).
  { unfold io, oo. rewrite get_input_pos_lookup by (try assumption; lia).
    replace e with (e - 1 + 1) at 1 by lia.
    eapply lookup_src_next; [exact Hwf| | | |exact Eb]; lia. }
  exists a, (b1 + 1). replace (b1 + 1 - 1) with b1 by lia.
  split; [lia|]. split; [lia|]. split; [symmetry; exact Za|]. split; [symmetry; exact Zb|].
  split; [exact Gs|]. split; [|split; [|split; [reflexivity | first [reflexivity | f_equal; lia]]]].
  - unfold input_end. destruct (s <? e) eqn:E; [|apply Z.ltb_ge in E; lia]. cbn [andb]. rewrite Ge1. lia.
  - intros Hn. unfold input_end. cbn [andb]. unfold io, oo.
    rewrite get_input_pos_lookup by (try assumption; lia).
    rewrite lookup_succ by exact Hn.
    rewrite <- get_input_pos_lookup by (try assumption; lia). fold io oo. rewrite Ge1. reflexivity.
Qed.

(* ---------- F2. replacing input characters [a,b) and transporting the patches ---------- *)
Lemma sub_sub0 {A} (l : list A) c x y : 0 <= x -> y <= c -> sub (sub l 0 c) x y = sub l x y.
Proof.
  intros Hx Hy. unfold sub. cbn [Z.to_nat skipn]. rewrite Z.sub_0_r.
  rewrite skipn_firstn_comm, firstn_firstn. f_equal. lia.
Qed.
Lemma from_sub {A} (l : list A) x y k : 0 <= x -> 0 <= k -> from (sub l x y) k = sub l (x + k) y.
Proof.
  intros Hx Hk. unfold from, sub. rewrite skipn_firstn_comm, skipn_skipn. f_equal; [lia|f_equal; lia].
Qed.
Lemma sub_sub_prefix {A} (l : list A) x y k : 0 <= x -> 0 <= k -> x + k <= y -> sub (sub l x y) 0 k = sub l x (x + k).
Proof.
  intros Hx Hk Hy. unfold sub. cbn [Z.to_nat skipn]. rewrite Z.sub_0_r, firstn_firstn. f_equal. lia.
Qed.

Section Edit.
  Context {A : Type} (l : list A) (a b : Z) (new : list A).
  Hypothesis Hab : 0 <= a <= b.
  Hypothesis Hbl : b <= len l.
  Let delta := len new - (b - a).
  Let l' := (sub l 0 a ++ new) ++ from l b.

  Lemma edit_len_prefix : len (sub l 0 a ++ new) = b + delta.
  Proof. rewrite len_app, len_sub by lia. unfold delta. lia. Qed.
  Lemma edit_len : len l' = len l + delta.
  Proof. unfold l'. rewrite len_app, edit_len_prefix, len_from by lia. lia. Qed.
  Lemma edit_sub_before x y : 0 <= x -> y <= a -> sub l' x y = sub l x y.
  Proof.
    intros Hx Hy. unfold l'. rewrite <- app_assoc. rewrite sub_app_l by (rewrite ?len_sub; lia).
    apply sub_sub0; lia.
  Qed.
  Lemma edit_sub_after x y : b <= x -> sub l' (x + delta) (y + delta) = sub l x y.
  Proof.
    intros Hx. unfold l'. rewrite sub_app_r by (rewrite edit_len_prefix; lia). rewrite edit_len_prefix.
    rewrite sub_from by lia. f_equal; lia.
  Qed.
  Lemma edit_from_after x : b <= x -> from l' (x + delta) = from l x.
  Proof.
    intros Hx. unfold l'. rewrite from_app_r by (rewrite edit_len_prefix; lia). rewrite edit_len_prefix.
    rewrite from_from by lia. f_equal; lia.
  Qed.
  Lemma edit_sub_mid x : 0 <= x <= a -> sub l' x (b + delta) = sub l x a ++ new.
  Proof.
    intros Hx. unfold l'. rewrite sub_app_l by (rewrite ?edit_len_prefix; lia).
    assert (Hd : b + delta = a + len new) by (unfold delta; lia). rewrite Hd.
    rewrite (sub_split _ x a) by (pose proof (len_nonneg new); lia).
    rewrite sub_app_l by (rewrite ?len_sub; lia). rewrite sub_sub0 by lia.
    rewrite sub_app_r by (rewrite len_sub; lia). rewrite len_sub by lia.
    replace (a - (a - 0)) with 0 by lia. replace (a + len new - (a - 0)) with (len new) by lia.
    rewrite sub_0_len. reflexivity.
  Qed.
End Edit.

Lemma sub0_app_ge {A} (X Y : list A) k : len X <= k -> sub (X ++ Y) 0 k = X ++ sub Y 0 (k - len X).
Proof.
  intros H. pose proof (len_nonneg X). rewrite (sub_split _ 0 (len X) k) by lia.
  rewrite sub_app_l by lia. rewrite sub_0_len. rewrite sub_app_r by lia. rewrite Z.sub_diag. reflexivity.
Qed.
Lemma splice_split {A} (l : list A) cs ip m : 0 <= ip <= m ->
  match cs with [] => True | c :: _ => m <= fst (fst c) end ->
  splice l ip cs = sub l ip m ++ splice l m cs.
Proof.
  intros Hm Hc. destruct cs as [|[[s e] n] cs]; cbn [splice fst] in *.
  - apply from_split; lia.
  - rewrite (sub_split l ip m s) by lia. rewrite <- app_assoc. reflexivity.
Qed.

Definition beforeb (a : Z) (p : patch) : bool := p_end p <=? a.
Definition afterb (b : Z) (p : patch) : bool := b <=? p_start p.

Lemma wf_from_ip t : forall L ip, wf_from t ip L -> 0 <= ip <= len t.
Proof. intros [|p L] ip H; cbn [wf_from] in H; lia. Qed.
Lemma wf_from_weaken t L ip ip' : wf_from t ip L -> 0 <= ip' <= ip -> wf_from t ip' L.
Proof. destruct L as [|p L]; cbn [wf_from]; intros H Hi; [lia|]. destruct H as (H1 & H2 & H3 & H4). repeat split; try assumption; lia. Qed.
Lemma before_nil t a : forall L ip, wf_from t ip L -> a < ip -> filter (beforeb a) L = [].
Proof.
  induction L as [|p L IH]; intros ip H Ha; cbn [filter wf_from] in *; [reflexivity|].
  destruct H as (H1 & H2 & H3 & H4). unfold beforeb at 1.
  destruct (p_end p <=? a) eqn:E; [apply Z.leb_le in E; lia|]. apply (IH (p_end p)); [exact H4|lia].
Qed.
Lemma before_nil_cons t a p L ip : wf_from t ip (p :: L) -> a < p_end p -> filter (beforeb a) (p :: L) = [].
Proof.
  intros H Ha. cbn [wf_from filter] in *. destruct H as (H1 & H2 & H3 & H4). unfold beforeb at 1.
  destruct (p_end p <=? a) eqn:E; [apply Z.leb_le in E; lia|]. apply (before_nil t a L (p_end p)); [exact H4|lia].
Qed.
Lemma after_all t b : forall L ip, wf_from t ip L -> b <= ip -> filter (afterb b) L = L.
Proof.
  induction L as [|p L IH]; intros ip H Hb; cbn [filter wf_from] in *; [reflexivity|].
  destruct H as (H1 & H2 & H3 & H4). unfold afterb at 1.
  destruct (b <=? p_start p) eqn:E; [|apply Z.leb_gt in E; lia]. f_equal. apply (IH (p_end p)); [exact H4|lia].
Qed.
Lemma transport_eq L a b d : transport L a b d = filter (beforeb a) L ++ map (shiftp d) (filter (afterb b) L).
Proof. reflexivity. Qed.
Lemma shiftp_start d p : p_start (shiftp d p) = p_start p + d. Proof. reflexivity. Qed.
Lemma shiftp_end d p : p_end (shiftp d p) = p_end p + d. Proof. reflexivity. Qed.
Lemma shiftp_old d p : p_old (shiftp d p) = p_old p. Proof. reflexivity. Qed.
Lemma pcore_shiftp d p : pcore (shiftp d p) = (p_start p + d, p_end p + d, p_new p).
Proof. reflexivity. Qed.
Lemma shapes_cons p L : shapes (p :: L) = (p_start p, p_end p, len (p_new p)) :: shapes L.
Proof. reflexivity. Qed.

Section Transport.
  Context (t : text) (a b : Z) (new : text).
  Hypothesis Hab : 0 <= a <= b.
  Hypothesis Hbl : b <= len t.
  Let delta := len new - (b - a).
  Let t' := (sub t 0 a ++ new) ++ from t b.

  (* patches after the range, moved *)
  Lemma splice_shift : forall L ip0, wf_from t ip0 L -> b <= ip0 ->
    splice t' (ip0 + delta) (map pcore (map (shiftp delta) L)) = splice t ip0 (map pcore L).
  Proof.
    induction L as [|p L IH]; intros ip0 H Hb; cbn [map splice wf_from] in *.
    - apply edit_from_after; assumption.
    - destruct H as (H1 & H2 & H3 & H4). rewrite pcore_shiftp. unfold pcore at 2.
      unfold t', delta. rewrite edit_sub_after by assumption. fold delta t'.
      rewrite (IH (p_end p)) by (try assumption; lia). reflexivity.
  Qed.

  (* everything from the range end on *)
  Lemma splice_after (e : Z) : forall L ip op, wf_from t ip L -> op <= e - 1 ->
    src_pos ip op (shapes L) (e - 1) = Some (b - 1) ->
    splice t' (b + delta) (map pcore (map (shiftp delta) (filter (afterb b) L)))
    = from (splice t ip (map pcore L)) (e - op).
  Proof.
    induction L as [|p L IH]; intros ip op H He Hsrc.
    - cbn [shapes map src_pos filter splice] in *. pose proof (wf_from_ip _ _ _ H).
      inversion Hsrc as [Hb]. unfold t', delta. rewrite edit_from_after by (try assumption; lia).
      rewrite from_from by lia. f_equal. lia.
    - pose proof (wf_from_wfp _ _ _ H) as Hw. cbn [wf_from] in H. destruct H as (H1 & H2 & H3 & H4).
      rewrite shapes_cons in Hsrc. cbn [src_pos] in Hsrc. cbn [map splice filter]. unfold pcore at 2.
      pose proof (len_nonneg (p_new p)) as Hn.
      assert (Hl1 : len (sub t ip (p_start p)) = p_start p - ip) by (rewrite len_sub; lia).
      destruct (e - 1 <? op + (p_start p - ip)) eqn:E1.
      + apply Z.ltb_lt in E1. inversion Hsrc as [Hb].
        unfold afterb at 1. destruct (b <=? p_start p) eqn:E; [|apply Z.leb_gt in E; lia].
        rewrite (after_all t b L (p_end p)) by (try assumption; lia).
        assert (Hwb : wf_from t b (p :: L)) by (cbn [wf_from]; repeat split; try assumption; lia).
        rewrite (splice_shift (p :: L) b Hwb) by lia. cbn [map splice]. unfold pcore at 1.
        rewrite from_app_l by lia. rewrite from_sub by lia. do 2 f_equal. lia.
      + apply Z.ltb_ge in E1.
        destruct (e - 1 <? op + (p_start p - ip) + len (p_new p)) eqn:E2; [discriminate|]. apply Z.ltb_ge in E2.
        cbn [map wfp] in Hw. rewrite shp_pcore in Hw. destruct Hw as (_ & _ & _ & Hw).
        pose proof (src_pos_ge _ _ _ _ _ _ Hw E2 Hsrc) as Hge.
        unfold afterb at 1. destruct (b <=? p_start p) eqn:E; [apply Z.leb_le in E; lia|].
        rewrite (IH (p_end p) (op + (p_start p - ip) + len (p_new p))) by (try assumption; lia).
        rewrite from_app_r by lia. rewrite Hl1. rewrite from_app_r by lia. f_equal. lia.
  Qed.
End Transport.

Section Transport2.
  Context (t : text) (a b : Z) (new : text).
  Hypothesis Hab : 0 <= a <= b.
  Hypothesis Hbl : b <= len t.
  Let delta := len new - (b - a).
  Let t' := (sub t 0 a ++ new) ++ from t b.

  Lemma transport_cons_before p L : p_start p <= p_end p <= a -> a < b ->
    transport (p :: L) a b delta = p :: transport L a b delta.
  Proof.
    intros H1 H2. unfold transport. cbn [filter].
    destruct (p_end p <=? a) eqn:E; [|apply Z.leb_gt in E; lia].
    destruct (b <=? p_start p) eqn:E'; [apply Z.leb_le in E'; lia | reflexivity].
  Qed.

  (* the output of the Replacer over the edited input with the transported patches *)
  Lemma splice_transport (s e : Z) : forall L ip op, wf_from t ip L -> ip <= a -> op <= s <= e - 1 ->
    src_pos ip op (shapes L) s = Some a -> src_pos ip op (shapes L) (e - 1) = Some (b - 1) ->
    splice t' ip (map pcore (transport L a b delta))
    = sub (splice t ip (map pcore L)) 0 (s - op) ++ new ++ from (splice t ip (map pcore L)) (e - op).
  Proof.
    induction L as [|p L IH]; intros ip op H Hip Hse Hs He.
    - cbn [shapes map src_pos transport filter app splice] in *. pose proof (wf_from_ip _ _ _ H).
      injection Hs as Ha. injection He as Hb. pose proof (len_nonneg new) as Hn.
      rewrite (from_split t' ip (b + delta)) by (unfold delta; lia).
      unfold t', delta. rewrite edit_sub_mid, edit_from_after by (try assumption; lia).
      rewrite sub_from, from_from by lia. rewrite <- app_assoc. do 2 f_equal; f_equal; lia.
    - pose proof (wf_from_wfp _ _ _ H) as Hw. pose proof H as Hfull.
      cbn [wf_from] in H. destruct H as (H1 & H2 & H3 & H4).
      cbn [map wfp] in Hw. rewrite shp_pcore in Hw. destruct Hw as (_ & _ & _ & Hw).
      rewrite shapes_cons in Hs, He. cbn [src_pos] in Hs, He.
      pose proof (len_nonneg (p_new p)) as Hn. pose proof (len_nonneg new) as Hn'.
      assert (Hl1 : len (sub t ip (p_start p)) = p_start p - ip) by (rewrite len_sub; lia).
      destruct (s <? op + (p_start p - ip)) eqn:E1.
      + (* the range starts in the text before the first patch: no patch is before it *)
        apply Z.ltb_lt in E1. injection Hs as Ha.
        rewrite transport_eq. rewrite (before_nil_cons t a p L ip Hfull) by lia. cbn [app].
        rewrite (splice_split t' _ ip (b + delta)).
        2:{ unfold delta; lia. }
        2:{ destruct (filter (afterb b) (p :: L)) as [|q F] eqn:EF; cbn [map]; [exact I|].
            assert (Hq : In q (filter (afterb b) (p :: L))) by (rewrite EF; left; reflexivity).
            apply filter_In in Hq as [_ Hq]. unfold afterb in Hq. apply Z.leb_le in Hq.
            rewrite pcore_shiftp. cbn [fst]. lia. }
        unfold t', delta. rewrite edit_sub_mid by (try assumption; lia).
        rewrite (splice_after t a b new Hab Hbl e (p :: L) ip op Hfull) by (try assumption; try lia; rewrite shapes_cons; cbn [src_pos]; exact He).
        cbn [map splice]. unfold pcore at 1 3.
        rewrite sub_app_l by lia. rewrite sub_sub_prefix by lia. rewrite <- app_assoc.
        do 2 f_equal. lia.
      + apply Z.ltb_ge in E1.
        destruct (s <? op + (p_start p - ip) + len (p_new p)) eqn:E2; [discriminate|]. apply Z.ltb_ge in E2.
        destruct (e - 1 <? op + (p_start p - ip)) eqn:E3; [apply Z.ltb_lt in E3; lia|].
        destruct (e - 1 <? op + (p_start p - ip) + len (p_new p)) eqn:E4; [apply Z.ltb_lt in E4; lia|].
        pose proof (src_pos_ge _ _ _ _ _ _ Hw E2 Hs) as Hge.
        assert (Hlt : a <= b - 1) by (eapply (src_pos_mono _ _ _ _ s (e - 1)); [exact Hw| |exact Hs|exact He]; lia).
        rewrite transport_cons_before by lia. cbn [map splice]. unfold pcore at 1 3 5.
        unfold t', delta. rewrite edit_sub_before by (try assumption; lia). fold delta t'.
        rewrite (IH (p_end p) (op + (p_start p - ip) + len (p_new p))) by (try assumption; lia).
        rewrite sub0_app_ge by lia. rewrite Hl1. rewrite sub0_app_ge by lia.
        rewrite from_app_r by lia. rewrite Hl1. rewrite from_app_r by lia.
        rewrite <- !app_assoc. do 3 f_equal; [f_equal; lia|]. do 2 f_equal. lia.
  Qed.

  (* the transported patch list is well-formed for the edited input *)
  Lemma wf_shift : forall L ip0, wf_from t ip0 L -> b <= ip0 -> wf_from t' (ip0 + delta) (map (shiftp delta) L).
  Proof.
    pose proof (len_nonneg new) as Hn'.
    induction L as [|p L IH]; intros ip0 H Hb; cbn [map wf_from] in *.
    - unfold t', delta. rewrite edit_len by assumption. fold delta. unfold delta. lia.
    - destruct H as (H1 & H2 & H3 & H4). rewrite !shiftp_start, !shiftp_end, shiftp_old.
      unfold t', delta. rewrite edit_len, edit_sub_after by (try assumption; lia). fold delta t'.
      repeat split; try (unfold delta; lia); try assumption. apply IH; [exact H4|lia].
  Qed.
  Lemma wf_after : forall L ip, wf_from t ip L ->
    wf_from t' (b + delta) (map (shiftp delta) (filter (afterb b) L)).
  Proof.
    pose proof (len_nonneg new) as Hn'.
    induction L as [|p L IH]; intros ip H; cbn [filter map wf_from] in *.
    - unfold t', delta. rewrite edit_len by assumption. unfold delta. lia.
    - pose proof H as Hfull. destruct H as (H1 & H2 & H3 & H4). unfold afterb at 1.
      destruct (b <=? p_start p) eqn:E; [apply Z.leb_le in E | apply (IH (p_end p)); exact H4].
      rewrite (after_all t b L (p_end p)) by (try assumption; lia).
      assert (Hwb : wf_from t b (p :: L)) by (cbn [wf_from]; repeat split; try assumption; lia).
      exact (wf_shift (p :: L) b Hwb (Z.le_refl b)).
  Qed.
  Lemma wf_transport : forall L ip, wf_from t ip L -> ip <= a -> a < b -> wf_from t' ip (transport L a b delta).
  Proof.
    pose proof (len_nonneg new) as Hn'.
    induction L as [|p L IH]; intros ip H Hip Hlt.
    - cbn [transport filter map app wf_from] in *. unfold t', delta. rewrite edit_len by assumption. unfold delta. lia.
    - pose proof H as Hfull. cbn [wf_from] in H. destruct H as (H1 & H2 & H3 & H4).
      destruct (Z_le_gt_dec (p_end p) a) as [Hle|Hgt].
      + rewrite transport_cons_before by lia. cbn [wf_from].
        unfold t', delta. rewrite edit_len, edit_sub_before by (try assumption; lia). fold delta t'.
        repeat split; try (unfold delta; lia); try assumption. apply IH; try assumption.
      + rewrite transport_eq. rewrite (before_nil_cons t a p L ip Hfull) by lia. cbn [app].
        eapply wf_from_weaken; [apply (wf_after (p :: L) ip Hfull)|]. unfold delta. lia.
  Qed.
End Transport2.

(* ---------- F3. the transported patch list stays in sorted() order when the new text is not empty ---------- *)
Fixpoint adj_sorted (l : list patch) : Prop :=
  match l with
  | [] => True
  | p :: r => match r with [] => True | q :: _ => patch_leb p q = true end /\ adj_sorted r
  end.

Lemma sort_id : forall l, adj_sorted l -> sort_patches l = l.
Proof.
  induction l as [|p r IH]; intros H; cbn [sort_patches adj_sorted] in *; [reflexivity|].
  destruct H as [H1 H2]. rewrite (IH H2). destruct r as [|q r']; cbn [insert_patch]; [reflexivity|].
  rewrite H1. reflexivity.
Qed.

Lemma text_compare_antisym : forall a b, text_compare b a = CompOpp (text_compare a b).
Proof.
  induction a as [|x a IH]; intros [|y b]; cbn [text_compare CompOpp]; try reflexivity.
  rewrite (Z.compare_antisym x y). destruct (x ?= y); cbn [CompOpp]; [apply IH|reflexivity|reflexivity].
Qed.
Lemma patch_compare_antisym p q : patch_compare q p = CompOpp (patch_compare p q).
Proof.
  unfold patch_compare.
  rewrite (Z.compare_antisym (p_start p) (p_start q)). destruct (p_start p ?= p_start q); cbn [CompOpp]; try reflexivity.
  rewrite (Z.compare_antisym (p_end p) (p_end q)). destruct (p_end p ?= p_end q); cbn [CompOpp]; try reflexivity.
  rewrite (text_compare_antisym (p_old p) (p_old q)). destruct (text_compare (p_old p) (p_old q)); cbn [CompOpp]; try reflexivity.
  apply text_compare_antisym.
Qed.
Lemma patch_leb_total p q : patch_leb p q = false -> patch_leb q p = true.
Proof.
  unfold patch_leb. rewrite (patch_compare_antisym p q). destruct (patch_compare p q); cbn [CompOpp]; congruence.
Qed.

Lemma insert_adj p : forall l, adj_sorted l -> adj_sorted (insert_patch p l).
Proof.
  induction l as [|q t IH]; intros H; cbn [insert_patch]; [cbn; auto|].
  destruct (patch_leb p q) eqn:E; [cbn [adj_sorted]; split; [exact E|exact H]|].
  cbn [adj_sorted] in H. destruct H as [H1 H2]. specialize (IH H2).
  cbn [adj_sorted]. split; [|exact IH].
  destruct t as [|r t']; cbn [insert_patch]; [apply patch_leb_total; exact E|].
  destruct (patch_leb p r); [apply patch_leb_total; exact E | exact H1].
Qed.
Lemma sort_adj : forall l, adj_sorted (sort_patches l).
Proof. induction l as [|p l IH]; cbn [sort_patches]; [exact I | apply insert_adj; exact IH]. Qed.

Lemma adj_before t a : forall L ip, wf_from t ip L -> adj_sorted L -> adj_sorted (filter (beforeb a) L).
Proof.
  induction L as [|p r IH]; intros ip H Hs; [exact I|].
  pose proof H as Hfull. cbn [wf_from] in H. destruct H as (H1 & H2 & H3 & H4).
  cbn [adj_sorted] in Hs. destruct Hs as [Hs1 Hs2].
  cbn [filter]. unfold beforeb at 1. destruct (p_end p <=? a) eqn:E; [|apply (IH (p_end p)); assumption].
  specialize (IH (p_end p) H4 Hs2). cbn [adj_sorted]. split; [|exact IH].
  destruct r as [|q r']; [exact I|]. cbn [filter] in *. unfold beforeb at 1. unfold beforeb at 1 in IH.
  destruct (p_end q <=? a) eqn:E2; [exact Hs1|].
  apply Z.leb_gt in E2. pose proof (before_nil_cons t a q r' (p_end p) H4 E2) as Hn.
  cbn [filter] in Hn. unfold beforeb at 1 in Hn. destruct (p_end q <=? a) eqn:E3; [apply Z.leb_le in E3; lia|].
  rewrite Hn. exact I.
Qed.
Lemma adj_after t b : forall L ip, wf_from t ip L -> adj_sorted L -> adj_sorted (filter (afterb b) L).
Proof.
  induction L as [|p r IH]; intros ip H Hs; [exact I|].
  pose proof H as Hfull. cbn [wf_from] in H. destruct H as (H1 & H2 & H3 & H4).
  cbn [filter]. unfold afterb at 1. destruct (b <=? p_start p) eqn:E.
  - apply Z.leb_le in E. rewrite (after_all t b r (p_end p)) by (try assumption; lia). exact Hs.
  - cbn [adj_sorted] in Hs. apply (IH (p_end p)); tauto.
Qed.
Lemma patch_leb_shift d p q : patch_leb (shiftp d p) (shiftp d q) = patch_leb p q.
Proof.
  unfold patch_leb, patch_compare. rewrite !shiftp_start, !shiftp_end, !shiftp_old.
  rewrite !(Z.add_comm _ d), !Z.add_compare_mono_l. reflexivity.
Qed.
Lemma adj_shift d : forall L, adj_sorted L -> adj_sorted (map (shiftp d) L).
Proof.
  induction L as [|p r IH]; intros H; [exact I|]. cbn [map adj_sorted] in *. destruct H as [H1 H2].
  split; [|apply IH; exact H2]. destruct r as [|q r']; [exact I|]. cbn [map]. rewrite patch_leb_shift. exact H1.
Qed.
Lemma adj_app : forall l1 l2, adj_sorted l1 -> adj_sorted l2 ->
  (forall p q, In p l1 -> In q l2 -> patch_leb p q = true) -> adj_sorted (l1 ++ l2).
Proof.
  induction l1 as [|p r IH]; intros l2 H1 H2 H; [exact H2|]. cbn [app adj_sorted] in *. destruct H1 as [Ha Hb].
  split; [|apply IH; [exact Hb|exact H2|intros; apply H; [right|]; assumption]].
  destruct r as [|q r']; cbn [app]; [|exact Ha].
  destruct l2 as [|q l2']; [exact I|]. apply H; left; reflexivity.
Qed.
Lemma wf_from_In t : forall L ip p, wf_from t ip L -> In p L -> ip <= p_start p <= p_end p.
Proof.
  induction L as [|q r IH]; intros ip p H Hin; [contradiction|]. cbn [wf_from] in H. destruct H as (H1 & H2 & H3 & H4).
  destruct Hin as [->|Hin]; [lia|]. specialize (IH _ _ H4 Hin). lia.
Qed.

Lemma transport_sorted_auto (t : text) a b (new : text) L : wf_from t 0 L -> adj_sorted L -> new <> [] ->
  sort_patches (transport L a b (len new - (b - a))) = transport L a b (len new - (b - a)).
Proof.
  intros Hwf Hs Hne. apply sort_id. rewrite transport_eq. apply adj_app.
  - eapply adj_before; eassumption.
  - apply adj_shift. eapply adj_after; eassumption.
  - intros p q Hp Hq. apply filter_In in Hp as [Hp1 Hp2]. apply in_map_iff in Hq as (q0 & <- & Hq).
    apply filter_In in Hq as [Hq1 Hq2]. unfold beforeb in Hp2. unfold afterb in Hq2.
    apply Z.leb_le in Hp2. apply Z.leb_le in Hq2. pose proof (wf_from_In _ _ _ _ Hwf Hp1) as Hp3.
    assert (0 < len new) by (destruct new; [congruence|rewrite len_cons; pose proof (len_nonneg new); lia]).
    unfold patch_leb, patch_compare. rewrite shiftp_start.
    assert (Hlt : p_start p < p_start q0 + (len new - (b - a))) by lia.
    apply Z.compare_lt_iff in Hlt. rewrite Hlt. reflexivity.
Qed.

(* ---------- G. one Combiner level ---------- *)
Lemma part_offsets_ge : forall ts o, Forall (fun x => o <= x) (part_offsets o ts).
Proof.
  induction ts as [|t ts IH]; intros o; cbn [part_offsets]; constructor; [lia|].
  eapply Forall_impl; [|apply (IH (o + len t))]. cbn. intros. pose proof (len_nonneg t). lia.
Qed.
Lemma part_offsets_sorted : forall ts o, sorted (part_offsets o ts).
Proof.
  induction ts as [|t ts IH]; intros o; cbn [part_offsets sorted]; [exact I|]. split; [|apply IH].
  eapply Forall_impl; [|apply (part_offsets_ge ts (o + len t))]. cbn. intros. pose proof (len_nonneg t). lia.
Qed.
Lemma count_le_zero a x : Forall (fun y => x < y) a -> count_le a x = 0.
Proof.
  intros H. destruct a as [|y a]; cbn [count_le]; [reflexivity|]. inversion H; subst.
  destruct (y <=? x) eqn:E; [apply Z.leb_le in E; lia | reflexivity].
Qed.
Lemma off_of_nonneg : forall ts k, 0 <= off_of ts k.
Proof.
  induction ts as [|t ts IH]; intros [|k]; cbn [off_of]; try lia. pose proof (len_nonneg t). specialize (IH k). lia.
Qed.

Lemma in_part_count : forall ts o k s, in_part ts k (s - o) ->
  count_le (part_offsets o ts) s = Z.of_nat k + 1 /\
  nth k (part_offsets o ts) 0 = o + off_of ts k /\ o + off_of ts k <= s.
Proof.
  induction ts as [|t ts IH]; intros o k s H; cbn [in_part] in H; [destruct k; contradiction|].
  cbn [part_offsets count_le]. destruct k as [|k].
  - destruct (o <=? s) eqn:E; [|apply Z.leb_gt in E; lia].
    rewrite count_le_zero; [cbn [nth off_of]; lia|].
    eapply Forall_impl; [|apply (part_offsets_ge ts (o + len t))]. cbn. intros. lia.
  - replace (s - o - len t) with (s - (o + len t)) in H by lia.
    destruct (IH (o + len t) k s H) as (H1 & H2 & H3).
    pose proof (len_nonneg t). pose proof (off_of_nonneg ts k).
    destruct (o <=? s) eqn:E; [|apply Z.leb_gt in E; lia].
    rewrite H1. cbn [nth off_of]. rewrite H2. lia.
Qed.

(* what Combiner.map_back_patch does with a valid range whose first and last characters lie in parts k1, k2 *)
Lemma combiner_select fixed ps ts s e old new k1 k2 :
  render_parts ps = Ok ts -> old = sub (concat ts) s e -> 0 <= s <= e -> e <= len (concat ts) ->
  in_part ts k1 s -> in_part ts k2 (e - 1) ->
  map_back fixed (BCombiner ps) (s, e, old, new) =
  if Nat.eqb k1 k2 then map_back_parts fixed ps k1 (s - off_of ts k1, e - off_of ts k1, old, new) else ValueError.
Proof.
  intros Hr Hold Hse He H1 H2. cbn [map_back]. rewrite Hr. cbn [bind].
  unfold validate_patch, p_start, p_end, p_old, p_new; cbn [fst snd].
  rewrite py_slice_sub by lia. rewrite Hold, text_eqb_refl.
  rewrite !bisect_right_sorted by apply part_offsets_sorted.
  replace s with (s - 0) in H1 by lia. replace (e - 1) with (e - 1 - 0) in H2 by lia.
  destruct (in_part_count _ _ _ _ H1) as (C1 & N1 & _). destruct (in_part_count _ _ _ _ H2) as (C2 & N2 & _).
  rewrite C1, C2.
  destruct (Z.of_nat k1 + 1 <=? 0) eqn:E1; [apply Z.leb_le in E1; lia|].
  destruct (Z.of_nat k2 + 1 <=? 0) eqn:E2; [apply Z.leb_le in E2; lia|]. cbn [orb].
  destruct (Nat.eqb k1 k2) eqn:E3.
  - apply Nat.eqb_eq in E3. subst k2. rewrite Z.eqb_refl. cbn [negb].
    replace (Z.of_nat k1 + 1 - 1) with (Z.of_nat k1) by lia. rewrite Nat2Z.id.
    unfold py_index. destruct (Z.of_nat k1 <? 0) eqn:E4; [apply Z.ltb_lt in E4; lia|].
    rewrite Nat2Z.id, N1. reflexivity.
  - apply Nat.eqb_neq in E3. destruct (Z.of_nat k1 + 1 =? Z.of_nat k2 + 1) eqn:E4; [apply Z.eqb_eq in E4; lia|].
    reflexivity.
Qed.

Lemma combiner_no_entry ps ts s e k : render_parts ps = Ok ts -> in_part ts k s ->
  no_entry_at_end (BCombiner ps) s e = no_entry_parts ps k (s - off_of ts k) (e - off_of ts k).
Proof.
  intros Hr H1. cbn [no_entry_at_end]. rewrite Hr. cbv zeta.
  rewrite bisect_right_sorted by apply part_offsets_sorted.
  replace s with (s - 0) in H1 by lia. destruct (in_part_count _ _ _ _ H1) as (C1 & N1 & _).
  rewrite C1. replace (Z.of_nat k + 1 - 1) with (Z.of_nat k) by lia. rewrite Nat2Z.id.
  unfold py_index. destruct (Z.of_nat k <? 0) eqn:E4; [apply Z.ltb_lt in E4; lia|].
  rewrite Nat2Z.id, N1. reflexivity.
Qed.

(* ---------- H. cells ---------- *)
Lemma znth_map_d {A} (f : A -> A) l k d : f d = d -> znth (map f l) k d = f (znth l k d).
Proof. intros H. unfold znth. rewrite <- H at 1. apply map_nth. Qed.

Lemma fst_annot : forall t i, map fst (annot t i) = t.
Proof. induction t as [|c t IH]; intros i; cbn [annot map fst]; [reflexivity | rewrite IH; reflexivity]. Qed.
Lemma znth_annot : forall t i k, 0 <= k < len t -> znth (annot t i) k dcell = (znth t k 0, Some ([], i + k)).
Proof.
  induction t as [|c t IH]; intros i k Hk; [unfold len in Hk; cbn in Hk; lia|].
  rewrite len_cons in Hk. cbn [annot]. destruct (Z.eq_dec k 0) as [->|Hne].
  - unfold znth; cbn. rewrite Z.add_0_r. reflexivity.
  - unfold znth in *. replace (Z.to_nat k) with (S (Z.to_nat (k - 1))) by lia. cbn [nth].
    rewrite IH by lia. do 3 f_equal. lia.
Qed.
Lemma fst_push k l : map fst (map (push k) l) = map fst l.
Proof. rewrite map_map. reflexivity. Qed.
Lemma fst_bump l : map fst (map bump l) = map fst l.
Proof. rewrite map_map. reflexivity. Qed.

Definition bump_path (p : list nat) : list nat := match p with [] => [] | k :: r => S k :: r end.
Lemma bump_path_inj p q : bump_path p = bump_path q -> p = q.
Proof. destruct p, q; cbn; intros H; inversion H; reflexivity. Qed.
Lemma bump_inv c p i : snd (bump c) = Some (p, i) -> exists p', snd c = Some (p', i) /\ p = bump_path p'.
Proof.
  destruct c as [x [[[|k r] i']|]]; cbn; intros H; inversion H; subst; eexists; split; reflexivity.
Qed.
Lemma push_inv k c p i : snd (push k c) = Some (p, i) -> exists p', snd c = Some (p', i) /\ p = k :: p'.
Proof. destruct c as [x [[r i']|]]; cbn; intros H; inversion H; subst; eexists; split; reflexivity. Qed.

Lemma znth_generated t k : snd (znth (generated t) k dcell) = None.
Proof.
  unfold znth. destruct (nth_in_or_default (Z.to_nat k) (generated t) dcell) as [H|H].
  - apply generated_None in H. exact H.
  - rewrite H. reflexivity.
Qed.

Scheme builder_mind := Induction for builder Sort Prop
  with parts_mind := Induction for parts Sort Prop.
Combined Scheme builder_parts_ind from builder_mind, parts_mind.

Definition ends_ok (fixed : bool) (b : builder) (s e : Z) : Prop := fixed = true \/ no_entry_at_end b s e.
Definition ends_ok_parts (fixed : bool) (ps : parts) (k : nat) (s e : Z) : Prop :=
  fixed = true \/ no_entry_parts ps k s e.

Lemma apply_patch_app_l {A} (X Y : list A) s e new : 0 <= s <= e -> e <= len X ->
  apply_patch (X ++ Y) s e new = apply_patch X s e new ++ Y.
Proof.
  intros Hs He. unfold apply_patch. rewrite sub_app_l, from_app_l by lia. rewrite <- !app_assoc. reflexivity.
Qed.
Lemma apply_patch_app_r {A} (X Y : list A) s e new : len X <= s -> len X <= e ->
  apply_patch (X ++ Y) s e new = X ++ apply_patch Y (s - len X) (e - len X) new.
Proof.
  intros Hs He. unfold apply_patch. rewrite sub0_app_ge, from_app_r by lia. rewrite <- !app_assoc. reflexivity.
Qed.

(* what is proved about a range [s,e) of b's output whose first / last characters are characters i / j-1 of
   the Text at `path` *)
Definition rangeC (fixed : bool) (b : builder) (s e : Z) (new : text) (path : list nat) (i j : Z) : Prop :=
  let p := (s, e, sub (map fst (prender b)) s e, new) in
  exists t v, leaf_at b path = Some (t, v) /\
    map_back fixed b p = Ok (Some (t, v, (i, j, sub t i j, new))) /\
    (new <> [] \/ transport_sorted fixed b p ->
     wf_builder (rebuild fixed b p) /\
     render (rebuild fixed b p) = Ok (apply_patch (map fst (prender b)) s e new) /\
     leaf_at (rebuild fixed b p) path = Some (apply_patch t i j new, v)).

Definition partsC (fixed : bool) (ps : parts) (ts : list text) (s e : Z) (new : text)
                  (k : nat) (path : list nat) (i j : Z) : Prop :=
  let off := off_of ts k in
  let p' := (s - off, e - off, sub (concat ts) s e, new) in
  in_part ts k s /\ in_part ts k (e - 1) /\
  (ends_ok_parts fixed ps k (s - off) (e - off) ->
   exists t v, leaf_parts ps k path = Some (t, v) /\
     map_back_parts fixed ps k p' = Ok (Some (t, v, (i, j, sub t i j, new))) /\
     (new <> [] \/ transport_sorted_parts fixed ps k p' ->
      wf_parts (rebuild_parts fixed ps k p') /\
      exists ts2, render_parts (rebuild_parts fixed ps k p') = Ok ts2 /\
        concat ts2 = apply_patch (concat ts) s e new /\
        leaf_parts (rebuild_parts fixed ps k p') k path = Some (apply_patch t i j new, v))).

Definition exactP (fixed : bool) (b : builder) : Prop :=
  wf_builder b ->
  render b = Ok (map fst (prender b)) /\
  forall s e new path i j, 0 <= s < e -> e <= len (prender b) ->
    snd (znth (prender b) s dcell) = Some (path, i) ->
    snd (znth (prender b) (e - 1) dcell) = Some (path, j - 1) ->
    ends_ok fixed b s e -> rangeC fixed b s e new path i j.

Definition exactQ (fixed : bool) (ps : parts) : Prop :=
  wf_parts ps ->
  exists ts, render_parts ps = Ok ts /\ concat ts = map fst (prender_parts ps) /\
  forall s e new path0 i j, 0 <= s < e -> e <= len (prender_parts ps) ->
    snd (znth (prender_parts ps) s dcell) = Some (path0, i) ->
    snd (znth (prender_parts ps) (e - 1) dcell) = Some (path0, j - 1) ->
    exists k path, path0 = k :: path /\ partsC fixed ps ts s e new k path i j.

Lemma exact_text fixed t v : exactP fixed (BText t v).
Proof.
  intros _. cbn [render prender]. rewrite fst_annot. split; [reflexivity|].
  intros s e new path i j Hse He Hs He1 _.
  assert (Hl : len (annot t 0) = len t) by (rewrite <- (fst_annot t 0) at 2; rewrite len_map; reflexivity).
  rewrite Hl in He. rewrite znth_annot in Hs, He1 by lia. cbn [snd] in Hs, He1.
  inversion Hs; subst path i. inversion He1 as [Hj]. assert (j = e) by lia. subst j.
  unfold rangeC. cbn [prender]. rewrite fst_annot.
  exists t, v. split; [reflexivity|]. split.
  - cbn [map_back]. unfold p_start, p_end, p_old; cbn [fst snd]. rewrite py_slice_sub by lia.
    rewrite text_eqb_refl. reflexivity.
  - intros _. cbn [rebuild wf_builder render leaf_at]. unfold p_start, p_end, p_new; cbn [fst snd].
    split; [exact I|]. split; reflexivity.
Qed.

Lemma exact_replacer fixed inner ps : exactP fixed inner -> exactP fixed (BReplacer inner ps).
Proof.
  intros IH [Hwi Hwf]. destruct (IH Hwi) as [Hri IHm]. rewrite Hri in Hwf.
  set (l := prender inner) in *. set (sps := sort_patches ps) in *.
  destruct (prender_replacer_splice l sps Hwf) as [Hpr Hfst].
  assert (Hinit := replacer_init_ok _ _ Hwf). fold sps in Hinit. fold (shapes sps) in Hinit.
  assert (Hrender : render (BReplacer inner ps) = Ok (map fst (prender (BReplacer inner ps)))).
  { cbn [render prender]. rewrite Hri. cbn [bind]. rewrite Hinit. cbn [bind snd]. fold l sps.
    rewrite Hpr, Hfst. reflexivity. }
  split; [exact Hrender|].
  intros s e new path i j Hse He Hs He1 Hok. unfold rangeC.
  cbn [prender] in *. fold l sps in Hs, He1, He |- *. rewrite Hpr in Hs, He1, He |- *.
  destruct (replacer_positions l sps s e _ _ Hwf Hse He Hs He1)
    as (a & b & Hab & Hb & Za & Zb & Gs & Gt & Gf & Sa & Sb).
  set (io := 0 :: tab_in 0 0 (shapes sps)) in *. set (oo := 0 :: tab_out 0 0 (shapes sps)) in *.
  assert (Gend : input_end fixed io oo s e = b /\ ends_ok fixed inner a b).
  { destruct fixed.
    - split; [exact Gt | left; reflexivity].
    - destruct Hok as [Hd|Hn]; [discriminate|].
      cbn [no_entry_at_end] in Hn. rewrite Hri in Hn. cbn [bind] in Hn. rewrite Hinit in Hn. cbn [tl] in Hn.
      fold io oo in Hn. destruct Hn as [Hn1 Hn2]. specialize (Gf Hn1). split; [exact Gf|].
      right. rewrite Gs in Hn2. unfold input_end in Gf. cbn [andb] in Gf. rewrite Gf in Hn2. exact Hn2. }
  destruct Gend as [Gend Hok'].
  set (t := map fst l) in *.
  assert (Hlt : len t = len l) by (unfold t; apply len_map).
  assert (Hlo : len (map fst (splice l 0 (map acore sps))) = len (splice l 0 (map acore sps))) by apply len_map.
  destruct (IHm a b new path i j) as (tx & v & Hleaf & Hmb & Hrb); try assumption; try lia;
    [rewrite Za; exact Hs | rewrite Zb; exact He1 |].
  fold t in Hmb, Hrb.
  exists tx, v. split; [exact Hleaf|].
  (* the patch handed to the inner builder *)
  assert (Hin : make_patch t a b new = (a, b, sub t a b, new)).
  { unfold make_patch. rewrite py_slice_sub by lia. reflexivity. }
  split.
  - cbn [map_back]. rewrite Hri. cbn [bind]. rewrite Hinit. cbn [bind]. fold io oo.
    unfold validate_patch, p_start, p_end, p_old, p_new; cbn [fst snd].
    rewrite <- Hfst. rewrite py_slice_sub by lia. rewrite text_eqb_refl.
    rewrite Gs, Gend. fold t. rewrite Hin. exact Hmb.
  - intros Hts0. cbn [rebuild]. rewrite Hri. cbn [bind]. rewrite Hinit. cbn [bind].
    unfold p_start, p_end, p_new; cbn [fst snd]. rewrite Gs, Gend, Hin.
    assert (Hts : sort_patches (transport sps a b (len new - (b - a))) = transport sps a b (len new - (b - a))
                  /\ (new <> [] \/ transport_sorted fixed inner (a, b, sub t a b, new))).
    { destruct Hts0 as [Hne|Hts].
      - split; [|left; exact Hne]. apply (transport_sorted_auto t); [exact Hwf | apply sort_adj | exact Hne].
      - cbn [transport_sorted] in Hts. rewrite Hri in Hts. cbn [bind] in Hts. rewrite Hinit in Hts. cbn [bind] in Hts.
        unfold p_start, p_end, p_new in Hts; cbn [fst snd] in Hts. rewrite Gs, Gend, Hin in Hts.
        destruct Hts as [Hsort Hts']. split; [exact Hsort | right; exact Hts']. }
    destruct Hts as [Hsort Hts']. destruct (Hrb Hts') as (Hw' & Hr' & Hl').
    subst t l sps io oo.
    set (t := map fst (prender inner)) in *.
    set (L' := transport (sort_patches ps) a b (len new - (b - a))) in *.
    assert (Happ : apply_patch t a b new = (sub t 0 a ++ new) ++ from t b)
      by (unfold apply_patch; rewrite app_assoc; reflexivity).
    assert (HwL : wf_from (apply_patch t a b new) 0 (sort_patches L')).
    { rewrite Hsort, Happ. unfold L'. apply wf_transport; try assumption; lia. }
    split; [|split].
    + cbn [wf_builder]. split; [exact Hw'|]. rewrite Hr'. exact HwL.
    + cbn [render]. rewrite Hr'. cbn [bind]. rewrite (replacer_init_ok _ _ HwL). cbn [bind snd].
      rewrite Hsort, Happ. unfold L'.
      rewrite (splice_transport t a b new) with (s := s) (e := e) (op := 0); try assumption; try lia.
      rewrite !Z.sub_0_r. rewrite <- Hfst. reflexivity.
    + cbn [leaf_at]. exact Hl'.
Qed.

Lemma combiner_index ts s k : in_part ts k s ->
  Z.to_nat (bisect_right (part_offsets 0 ts) s - 1) = k /\
  py_index (part_offsets 0 ts) (bisect_right (part_offsets 0 ts) s - 1) = off_of ts k.
Proof.
  intros H1. rewrite bisect_right_sorted by apply part_offsets_sorted.
  replace s with (s - 0) in H1 by lia. destruct (in_part_count _ _ _ _ H1) as (C1 & N1 & _).
  rewrite C1. replace (Z.of_nat k + 1 - 1) with (Z.of_nat k) by lia. rewrite Nat2Z.id. split; [reflexivity|].
  unfold py_index. destruct (Z.of_nat k <? 0) eqn:E4; [apply Z.ltb_lt in E4; lia|].
  rewrite Nat2Z.id, N1. reflexivity.
Qed.
Lemma combiner_rebuild fixed ps ts s e old new k : render_parts ps = Ok ts -> in_part ts k s ->
  rebuild fixed (BCombiner ps) (s, e, old, new)
  = BCombiner (rebuild_parts fixed ps k (s - off_of ts k, e - off_of ts k, old, new)).
Proof.
  intros Hr H1. cbn [rebuild]. rewrite Hr. cbv zeta. unfold p_start, p_end, p_old, p_new; cbn [fst snd].
  destruct (combiner_index ts s k H1) as [-> ->]. reflexivity.
Qed.
Lemma combiner_transport_sorted fixed ps ts s e old new k : render_parts ps = Ok ts -> in_part ts k s ->
  transport_sorted fixed (BCombiner ps) (s, e, old, new)
  = transport_sorted_parts fixed ps k (s - off_of ts k, e - off_of ts k, old, new).
Proof.
  intros Hr H1. cbn [transport_sorted]. rewrite Hr. cbv zeta. unfold p_start, p_end, p_old, p_new; cbn [fst snd].
  destruct (combiner_index ts s k H1) as [-> ->]. reflexivity.
Qed.

Lemma render_combiner ps : render (BCombiner ps) = bind (render_parts ps) (fun ts => Ok (concat ts)).
Proof. reflexivity. Qed.

Lemma exact_combiner fixed ps : exactQ fixed ps -> exactP fixed (BCombiner ps).
Proof.
  intros IH Hwf. destruct (IH Hwf) as (ts & Hr & Hc & IHm).
  split; [cbn [render prender]; rewrite Hr; cbn [bind]; rewrite Hc; reflexivity|].
  intros s e new path0 i j Hse He Hs He1 Hok. cbn [prender] in *.
  destruct (IHm s e new path0 i j Hse He Hs He1) as (k & path & -> & P1 & P2 & Hm).
  assert (Hlen : len (concat ts) = len (prender_parts ps)) by (rewrite Hc; apply len_map).
  unfold rangeC. cbn [prender]. rewrite <- Hc.
  destruct Hm as (t & v & Hleaf & Hmb & Hrb).
  { destruct Hok as [Hf|Hn]; [left; exact Hf|right].
    rewrite (combiner_no_entry ps ts s e k Hr P1) in Hn. exact Hn. }
  exists t, v. split; [exact Hleaf|]. split.
  - rewrite (combiner_select fixed ps ts s e _ new k k Hr eq_refl) by (try assumption; lia).
    rewrite Nat.eqb_refl. exact Hmb.
  - rewrite (combiner_transport_sorted fixed ps ts s e _ new k Hr P1).
    rewrite (combiner_rebuild fixed ps ts s e _ new k Hr P1).
    intros Hts. destruct (Hrb Hts) as (Hw' & ts2 & Hr2 & Hc2 & Hl2).
    split; [exact Hw'|]. split; [|exact Hl2].
    rewrite render_combiner, Hr2. cbn [bind]. rewrite Hc2. reflexivity.
Qed.

Lemma exact_pnil fixed : exactQ fixed PNil.
Proof.
  intros _. exists []. split; [reflexivity|]. split; [reflexivity|].
  intros s e new path0 i j Hse He. cbn [prender_parts] in He. unfold len in He; cbn in He. lia.
Qed.

(* a range of (first part ++ rest) that starts after the first part lies in the rest *)
Lemma shift_rest fixed (first : list cell) (t0 : text) rest ts' s e new path0 i j :
  len first = len t0 ->
  (forall s e new path0 i j, 0 <= s < e -> e <= len (prender_parts rest) ->
    snd (znth (prender_parts rest) s dcell) = Some (path0, i) ->
    snd (znth (prender_parts rest) (e - 1) dcell) = Some (path0, j - 1) ->
    exists k path, path0 = k :: path /\ partsC fixed rest ts' s e new k path i j) ->
  len t0 <= s < e -> e <= len (first ++ map bump (prender_parts rest)) ->
  snd (znth (first ++ map bump (prender_parts rest)) s dcell) = Some (path0, i) ->
  snd (znth (first ++ map bump (prender_parts rest)) (e - 1) dcell) = Some (path0, j - 1) ->
  exists k path, path0 = S k :: path /\ partsC fixed rest ts' (s - len t0) (e - len t0) new k path i j.
Proof.
  intros Hl IHm Hse He Hs He1.
  rewrite len_app, len_map in He.
  rewrite znth_app_r in Hs, He1 by lia. rewrite znth_map_d in Hs, He1 by reflexivity. rewrite Hl in Hs, He1.
  apply bump_inv in Hs as (p1 & Hs & Hp1). apply bump_inv in He1 as (p2 & He1 & Hp2).
  assert (p2 = p1) by (apply bump_path_inj; congruence). subst p2.
  replace (e - 1 - len t0) with (e - len t0 - 1) in He1 by lia.
  destruct (IHm (s - len t0) (e - len t0) new p1 i j) as (k & path & -> & HC); try assumption; try lia.
  exists k, path. split; [exact Hp1|exact HC].
Qed.

(* the coordinates of a range of the rest, seen from the whole list *)
Lemma shifted_patch (t0 : text) ts' s e (new : text) k : len t0 <= s ->
  (s - off_of (t0 :: ts') (S k), e - off_of (t0 :: ts') (S k), sub (concat (t0 :: ts')) s e, new)
  = (s - len t0 - off_of ts' k, e - len t0 - off_of ts' k, sub (concat ts') (s - len t0) (e - len t0), new).
Proof.
  intros Hs. cbn [off_of concat]. rewrite sub_app_r by lia.
  replace (s - (len t0 + off_of ts' k)) with (s - len t0 - off_of ts' k) by lia.
  replace (e - (len t0 + off_of ts' k)) with (e - len t0 - off_of ts' k) by lia. reflexivity.
Qed.

Lemma partsC_plit fixed t0 rest ts' s e new k path i j : render_parts rest = Ok ts' -> len t0 <= s <= e ->
  partsC fixed rest ts' (s - len t0) (e - len t0) new k path i j ->
  partsC fixed (PLit t0 rest) (t0 :: ts') s e new (S k) path i j.
Proof.
  intros Hr Hs (P1 & P2 & Hm). unfold partsC. cbv zeta. rewrite shifted_patch by lia.
  cbn [in_part]. split; [exact P1|]. split; [replace (e - 1 - len t0) with (e - len t0 - 1) by lia; exact P2|].
  cbn [off_of]. replace (s - (len t0 + off_of ts' k)) with (s - len t0 - off_of ts' k) by lia.
  replace (e - (len t0 + off_of ts' k)) with (e - len t0 - off_of ts' k) by lia.
  intros Hok. destruct (Hm Hok) as (t & v & Hleaf & Hmb & Hrb).
  exists t, v. split; [exact Hleaf|]. split; [exact Hmb|].
  cbn [transport_sorted_parts rebuild_parts wf_parts leaf_parts].
  intros Hts. destruct (Hrb Hts) as (Hw' & ts2 & Hr2 & Hc2 & Hl2).
  split; [exact Hw'|]. exists (t0 :: ts2). cbn [render_parts]. rewrite Hr2. cbn [bind].
  split; [reflexivity|]. split; [|exact Hl2].
  cbn [concat]. rewrite Hc2. rewrite apply_patch_app_r by lia. reflexivity.
Qed.

Lemma partsC_psub_tail fixed b t0 rest ts' s e new k path i j :
  wf_builder b -> render b = Ok t0 -> render_parts rest = Ok ts' -> len t0 <= s <= e ->
  partsC fixed rest ts' (s - len t0) (e - len t0) new k path i j ->
  partsC fixed (PSub b rest) (t0 :: ts') s e new (S k) path i j.
Proof.
  intros Hwb Hrb0 Hr Hs (P1 & P2 & Hm). unfold partsC. cbv zeta. rewrite shifted_patch by lia.
  cbn [in_part]. split; [exact P1|]. split; [replace (e - 1 - len t0) with (e - len t0 - 1) by lia; exact P2|].
  cbn [off_of]. replace (s - (len t0 + off_of ts' k)) with (s - len t0 - off_of ts' k) by lia.
  replace (e - (len t0 + off_of ts' k)) with (e - len t0 - off_of ts' k) by lia.
  intros Hok. destruct (Hm Hok) as (t & v & Hleaf & Hmb & Hrb).
  exists t, v. split; [exact Hleaf|]. split; [exact Hmb|].
  cbn [transport_sorted_parts rebuild_parts wf_parts leaf_parts].
  intros Hts. destruct (Hrb Hts) as (Hw' & ts2 & Hr2 & Hc2 & Hl2).
  split; [split; [exact Hwb|exact Hw']|]. exists (t0 :: ts2). cbn [render_parts]. rewrite Hrb0. cbn [bind].
  rewrite Hr2. cbn [bind].
  split; [reflexivity|]. split; [|exact Hl2].
  cbn [concat]. rewrite Hc2. rewrite apply_patch_app_r by lia. reflexivity.
Qed.

Lemma exact_plit fixed t rest : exactQ fixed rest -> exactQ fixed (PLit t rest).
Proof.
  intros IH Hwf. cbn [wf_parts] in Hwf. destruct (IH Hwf) as (ts' & Hr & Hc & IHm).
  exists (t :: ts'). split; [cbn [render_parts]; rewrite Hr; reflexivity|].
  split; [cbn [concat prender_parts]; rewrite map_app, fst_generated, fst_bump, Hc; reflexivity|].
  intros s e new path0 i j Hse He Hs He1. cbn [prender_parts] in *.
  assert (Hl : len (generated t) = len t) by apply len_map.
  destruct (Z_lt_le_dec s (len t)) as [Hlt|Hge].
  { rewrite znth_app_l in Hs by lia. rewrite znth_generated in Hs. discriminate. }
  destruct (shift_rest fixed (generated t) t rest ts' s e new path0 i j Hl IHm) as (k & path & -> & HC);
    try assumption; try lia.
  exists (S k), path. split; [reflexivity|]. apply partsC_plit; try assumption. lia.
Qed.

Lemma exact_psub fixed b rest : exactP fixed b -> exactQ fixed rest -> exactQ fixed (PSub b rest).
Proof.
  intros IHb IH [Hwb Hwf]. destruct (IH Hwf) as (ts' & Hr & Hc & IHm). destruct (IHb Hwb) as [Hrb IHbm].
  set (t0 := map fst (prender b)) in *.
  exists (t0 :: ts'). split; [cbn [render_parts]; rewrite Hrb; cbn [bind]; rewrite Hr; reflexivity|].
  split; [cbn [concat prender_parts]; rewrite map_app, fst_push, fst_bump, Hc; reflexivity|].
  intros s e new path0 i j Hse He Hs He1. cbn [prender_parts] in *.
  assert (Hl : len (map (push 0) (prender b)) = len t0) by (unfold t0; rewrite !len_map; reflexivity).
  assert (Hl0 : len t0 = len (prender b)) by (unfold t0; apply len_map).
  destruct (Z_lt_le_dec s (len t0)) as [Hlt|Hge].
  - (* the range starts in the first part: it ends there too *)
    rewrite znth_app_l in Hs by lia. rewrite znth_map_d in Hs by reflexivity.
    apply push_inv in Hs as (path & Hs & ->).
    assert (He' : e - 1 < len t0).
    { destruct (Z_lt_le_dec (e - 1) (len t0)) as [H|H]; [exact H|exfalso].
      rewrite znth_app_r in He1 by lia. rewrite znth_map_d in He1 by reflexivity.
      apply bump_inv in He1 as (p2 & _ & Hp2). destruct p2; discriminate. }
    rewrite znth_app_l in He1 by lia. rewrite znth_map_d in He1 by reflexivity.
    apply push_inv in He1 as (path' & He1 & Heq). inversion Heq; subst path'.
    exists O, path. split; [reflexivity|]. unfold partsC. cbv zeta. cbn [in_part off_of concat].
    rewrite !Z.sub_0_r. rewrite sub_app_l by lia.
    split; [lia|]. split; [lia|].
    intros Hok. destruct (IHbm s e new path i j) as (t & v & Hleaf & Hmb & Hrb'); try assumption; try lia.
    fold t0 in Hmb, Hrb'.
    exists t, v. split; [exact Hleaf|]. split; [exact Hmb|].
    cbn [transport_sorted_parts rebuild_parts wf_parts leaf_parts].
    intros Hts. destruct (Hrb' Hts) as (Hw' & Hr' & Hl').
    split; [split; assumption|]. exists (apply_patch t0 s e new :: ts').
    cbn [render_parts]. rewrite Hr'. cbn [bind]. rewrite Hr. cbn [bind].
    split; [reflexivity|]. split; [|exact Hl'].
    cbn [concat]. rewrite apply_patch_app_l by lia. reflexivity.
  - destruct (shift_rest fixed (map (push 0) (prender b)) t0 rest ts' s e new path0 i j Hl IHm)
      as (k & path & -> & HC); try assumption; try lia.
    exists (S k), path. split; [reflexivity|]. apply (partsC_psub_tail fixed b); try assumption. lia.
Qed.

Theorem exact_all fixed : (forall b, exactP fixed b) /\ (forall ps, exactQ fixed ps).
Proof.
  apply builder_parts_ind.
  - apply exact_text.
  - intros inner IH ps. apply exact_replacer; exact IH.
  - intros ps IH. apply exact_combiner; exact IH.
  - apply exact_pnil.
  - intros t rest IH. apply exact_plit; exact IH.
  - intros b IHb rest IH. apply exact_psub; assumption.
Qed.

(* ---------- I. corollaries ---------- *)
Lemma render_prender b : wf_builder b -> render b = Ok (map fst (prender b)).
Proof. intros H. exact (proj1 (proj1 (exact_all true) b H)). Qed.

Lemma replacer_text_direct inner ps t : wf_builder (BReplacer inner ps) -> render inner = Ok t ->
  render (BReplacer inner ps) = Ok (apply_sorted t (map pcore (sort_patches ps))).
Proof.
  intros Hwf Hr. pose proof Hwf as [_ Hw]. rewrite Hr in Hw.
  cbn [render]. rewrite Hr. cbn [bind]. rewrite (replacer_init_ok _ _ Hw). cbn [bind snd].
  rewrite (apply_sorted_splice t _ 0) by (apply wf_from_wfp; exact Hw). reflexivity.
Qed.

Lemma range_gen fixed b s e new path i j : wf_builder b -> 0 <= s < e -> e <= len (prender b) ->
  snd (znth (prender b) s dcell) = Some (path, i) ->
  snd (znth (prender b) (e - 1) dcell) = Some (path, j - 1) ->
  fixed = true \/ no_entry_at_end b s e -> rangeC fixed b s e new path i j.
Proof. intros H. apply (proj2 (proj1 (exact_all fixed) b H)). Qed.

Lemma endpoints_gen fixed b s e new path i j : wf_builder b -> 0 <= s < e -> e <= len (prender b) ->
  snd (znth (prender b) s dcell) = Some (path, i) ->
  snd (znth (prender b) (e - 1) dcell) = Some (path, j - 1) ->
  fixed = true \/ no_entry_at_end b s e ->
  exists t v, leaf_at b path = Some (t, v) /\
    map_back fixed b (s, e, sub (map fst (prender b)) s e, new) = Ok (Some (t, v, (i, j, sub t i j, new))).
Proof.
  intros H1 H2 H3 H4 H5 H6. destruct (range_gen fixed b s e new path i j H1 H2 H3 H4 H5 H6) as (t & v & Ha & Hb & _).
  exists t, v. split; assumption.
Qed.

Lemma map_back_parts_lit fixed : forall ps k p, part_is_lit ps k = true -> map_back_parts fixed ps k p = Ok None.
Proof.
  induction ps as [|t rest IH|b rest IH]; intros [|k] p H; cbn [part_is_lit map_back_parts] in *;
    try discriminate; try reflexivity; apply IH; exact H.
Qed.

Lemma combiner_spanning fixed ps ts p k1 k2 :
  render_parts ps = Ok ts -> in_part ts k1 (p_start p) -> in_part ts k2 (p_end p - 1) -> k1 <> k2 ->
  map_back fixed (BCombiner ps) p = ValueError.
Proof.
  intros Hr H1 H2 Hne. cbn [map_back]. rewrite Hr. cbn [bind].
  destruct (validate_patch (concat ts) p); [|reflexivity].
  rewrite !bisect_right_sorted by apply part_offsets_sorted.
  replace (p_start p) with (p_start p - 0) in H1 by lia. replace (p_end p - 1) with (p_end p - 1 - 0) in H2 by lia.
  destruct (in_part_count _ _ _ _ H1) as (C1 & _). destruct (in_part_count _ _ _ _ H2) as (C2 & _).
  rewrite C1, C2.
  destruct (Z.of_nat k1 + 1 =? Z.of_nat k2 + 1) eqn:E4; [apply Z.eqb_eq in E4; lia|].
  cbn [negb]. rewrite !orb_true_r. reflexivity.
Qed.

Lemma combiner_literal fixed ps ts s e new k :
  render_parts ps = Ok ts -> 0 <= s <= e -> e <= len (concat ts) ->
  in_part ts k s -> in_part ts k (e - 1) -> part_is_lit ps k = true ->
  map_back fixed (BCombiner ps) (s, e, sub (concat ts) s e, new) = Ok None.
Proof.
  intros Hr Hse He H1 H2 Hl.
  rewrite (combiner_select fixed ps ts s e _ new k k Hr eq_refl) by assumption.
  rewrite Nat.eqb_refl. apply map_back_parts_lit. exact Hl.
Qed.

Lemma in_part_exists : forall ts s, 0 <= s < len (concat ts) -> exists k, in_part ts k s.
Proof.
  induction ts as [|t ts IH]; intros s Hs; cbn [concat] in Hs; [unfold len in Hs; cbn in Hs; lia|].
  rewrite len_app in Hs. destruct (Z_lt_le_dec s (len t)) as [Hlt|Hge].
  - exists O. cbn [in_part]. lia.
  - destruct (IH (s - len t)) as [k Hk]; [lia|]. exists (S k). exact Hk.
Qed.

(* ---------- J. map_back_offset, make_patch ---------- *)
Fixpoint replacer_chain (b : builder) : Prop :=
  match b with
  | BText _ _ => True
  | BReplacer inner _ => replacer_chain inner
  | BCombiner _ => False
  end.

Lemma offset_exact : forall b k path i, wf_builder b -> replacer_chain b -> 0 <= k < len (prender b) ->
  snd (znth (prender b) k dcell) = Some (path, i) -> map_back_offset b k = Ok i.
Proof.
  unfold map_back_offset.
  induction b as [t v|inner IH ps|ps]; intros k path i Hwf Hch Hk Hs; cbn [replacer_chain] in Hch; [| |contradiction].
  - cbn [offset_through prender] in *.
    assert (Hl : len (annot t 0) = len t) by (rewrite <- (fst_annot t 0) at 2; rewrite len_map; reflexivity).
    rewrite znth_annot in Hs by lia. cbn [snd] in Hs. inversion Hs. f_equal; try lia.
  - pose proof Hwf as [Hwi Hw]. pose proof (render_prender inner Hwi) as Hri. rewrite Hri in Hw.
    destruct (prender_replacer_splice (prender inner) (sort_patches ps) Hw) as [Hpr _].
    cbn [prender] in Hk, Hs. rewrite Hpr in Hk, Hs.
    assert (Hs' : snd (znth (splice (prender inner) 0 (map acore (sort_patches ps))) (k + 1 - 1) dcell) = Some (path, i))
      by (replace (k + 1 - 1) with k by lia; exact Hs).
    destruct (replacer_positions (prender inner) (sort_patches ps) k (k + 1) (path, i) (path, i) Hw)
      as (a & b & Hab & Hb & Za & _ & Gs & _); try lia; try assumption.
    cbn [offset_through]. rewrite Hri. cbn [bind]. rewrite (replacer_init_ok _ _ Hw). cbn [bind].
    fold (shapes (sort_patches ps)). rewrite Gs. apply (IH a path i); try assumption; [lia|]. rewrite Za. exact Hs.
Qed.

Lemma make_patch_valid (t : text) s e new : 0 <= s <= e -> e <= len t ->
  validate_patch t (make_patch t s e new) = true /\ p_old (make_patch t s e new) = sub t s e.
Proof.
  intros Hs He. unfold validate_patch, make_patch, p_start, p_end, p_old; cbn [fst snd].
  rewrite text_eqb_refl. split; [reflexivity|]. apply py_slice_sub; lia.
Qed.

(* make_regexp_patches: patches made by make_patch from ordered, non-overlapping spans (what re.finditer
   returns) are a well-formed patch list *)
Fixpoint spans_ok (n ip : Z) (spans : list (Z * Z * text)) : Prop :=
  match spans with
  | [] => 0 <= ip <= n
  | (s, e, _) :: r => 0 <= ip <= s /\ s <= e <= n /\ spans_ok n e r
  end.
Lemma regexp_patches_wf (t : text) : forall spans ip, spans_ok (len t) ip spans ->
  wf_from t ip (map (fun sp => make_patch t (fst (fst sp)) (snd (fst sp)) (snd sp)) spans).
Proof.
  induction spans as [|[[s e] new] r IH]; intros ip H; cbn [spans_ok map wf_from fst snd] in *; [exact H|].
  destruct H as (H1 & H2 & H3).
  unfold make_patch, p_start, p_end, p_old; cbn [fst snd].
  repeat split; try lia; [apply py_slice_sub; lia | apply IH; exact H3].
Qed.
