(* Properties of the REGENERATED functions (coq/gen/K4_gen.v), obtained from the theorems about the hand model
   through the bridging lemmas of Proofs/K4_bridge.v. *)
From Coq Require Import ZArith List Bool Arith Lia.
Import ListNotations.
Require Import Grist.Model.RefIndex Grist.Model.K4Support Grist.Model.TwoWay GristGen.K4_gen
               Grist.Proofs.RefIndex_proofs Grist.Proofs.RefIndex_removal Grist.Proofs.TwoWay_proofs
               Grist.Proofs.TwoWay_more Grist.Proofs.K4_bridge.

(* any sequence of the generated column operations keeps the reverse index exact *)
Lemma gen_run_exact : forall hack k ops,
  exists c, gen_run hack k ops = Ok c /\
    forall t, inv_get t (rc_inv c) = filter (fun r => memZ t (refs c r)) (seq 0 (length (rc_data c))).
Proof.
  intros hack k ops. rewrite gen_run_eq.
  destruct (run_from_ok hack true ops (col_new k) (col_new_ok k) (or_introl eq_refl)) as [c [E [Hok _]]].
  exists c. split; [exact E|]. apply inv_ok_exact. exact Hok.
Qed.

(* with an exact index, the generated get_updates_for_removed_target_rows never raises and lists, for exactly the rows
   whose cell mentions a removed target, the cell with ALL occurrences of the removed targets filtered out *)
Lemma gen_get_updates_spec : forall c ts, inv_ok c ->
  let rows := get_affected_rows ts (rc_inv c) in
  gen_get_updates c ts = Ok (map (fun r => (r, cell_without (rc_kind c) (raw_get c r) ts)) rows) /\
  (forall r, In r rows <-> exists t, In t ts /\ In t (refs c r)).
Proof.
  intros c ts [Hs Hm] rows. destruct (get_affected_rows_spec (rc_inv c) ts Hs) as [_ Haff]. fold rows in Haff.
  assert (Hrows : forall r, In r rows <-> exists t, In t ts /\ In t (refs c r)).
  { intros r. rewrite Haff. split; intros [t [Ht H]]; exists t; (split; [assumption|]); apply Hm; assumption. }
  split; [|exact Hrows].
  rewrite gen_get_updates_eq. unfold get_updates. fold rows. apply mapM_ok. intros r Hr.
  apply Hrows in Hr. destruct Hr as [t [Ht Hr]]. rewrite (raw_get_without_affected c r ts t Ht Hr). reflexivity.
Qed.

(* the UNIQUE check of the generated _list_to_value *)
Lemma gen_list_to_value_unique : forall l, gen_list_to_value KRef l = Err EUnique <-> 2 <= length l.
Proof.
  intros l. rewrite gen_list_to_value_eq. destruct l as [|x [|y l]]; cbn; split; intros H; try discriminate; try lia.
  reflexivity.
Qed.

Lemma gen_list_to_value_never_other : forall k l e, gen_list_to_value k l = Err e -> e = EUnique /\ k = KRef.
Proof. intros k l e H. rewrite gen_list_to_value_eq in H. destruct (ltv_err k l e H) as [A [B _]]. auto. Qed.
