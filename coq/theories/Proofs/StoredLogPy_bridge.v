(* Bridging lemmas: the pieces of sandbox/grist/action_summary.py that harness/sl2v.py translates on every run
   (GristGen.StoredLogPy_gen) are the functions Model/StoredLog.v is written with.  A semantic edit to one of
   those Python functions changes the generated text and breaks the corresponding lemma here. *)
From Coq Require Import ZArith List Bool Lia.
Import ListNotations.
Require Import Grist.Model.StoredLog Grist.Proofs.StoredLog_proofs GristGen.StoredLogPy_gen.
Open Scope Z_scope.

Lemma is_defunct_cons : forall y n, is_defunct (y :: n) = Z.eqb 45 y.
Proof.
  intros y n. unfold is_defunct. destruct (Z.eqb_spec 45 y) as [E|E]; [subst; reflexivity|].
  destruct y as [|p|p]; try reflexivity.
  do 6 (destruct p as [p|p|]; try reflexivity; try (exfalso; apply E; reflexivity)).
Qed.

Lemma root_name_cons : forall y n, root_name (y :: n) = if Z.eqb 45 y then n else y :: n.
Proof.
  intros y n. unfold root_name. destruct (Z.eqb_spec 45 y) as [E|E]; [subst; reflexivity|].
  destruct y as [|p|p]; try reflexivity.
  do 6 (destruct p as [p|p|]; try reflexivity; try (exfalso; apply E; reflexivity)).
Qed.

Lemma defunct_name_bridge : forall n, defunct_name_py n = defunct_name n.
Proof. reflexivity. Qed.

Lemma is_defunct_bridge : forall n, is_defunct_py n = is_defunct n.
Proof.
  intros [|y n]; [reflexivity|]. unfold is_defunct_py. rewrite is_defunct_cons. cbn [py_startswith].
  assert (E : py_startswith n [] = true) by (destruct n; reflexivity). rewrite E. apply andb_true_r.
Qed.

Lemma root_name_bridge : forall n, root_name_py n = root_name n.
Proof.
  intros [|y n]; [reflexivity|]. unfold root_name_py. rewrite root_name_cons. cbn [py_startswith py_drop1].
  assert (E : py_startswith n [] = true) by (destruct n; reflexivity). rewrite E, andb_true_r. reflexivity.
Qed.

Lemma add_rename_bridge : forall m before after, add_rename_py m before after = add_rename before after m.
Proof. intros m [b|] after; reflexivity. Qed.

Lemma is_created_bridge : forall m n, is_created_py m n = lr_is_created m n.
Proof. intros m n. unfold is_created_py, lr_is_created. destruct (aget str_eqb n m) as [[o|]|]; reflexivity. Qed.

Lemma original_name_bridge : forall m n, original_name_py m n = lr_original_name m n.
Proof.
  intros m n. unfold original_name_py, lr_original_name. destruct (aget str_eqb n m) as [[o|]|]; try reflexivity.
  cbv zeta. apply root_name_bridge.
Qed.

Lemma filter_out_new_rows_bridge : forall tables t rows,
  filter_out_new_rows_py tables t rows = filter_out_new_rows tables t rows.
Proof. intros. unfold filter_out_new_rows_py, filter_out_new_rows. destruct (aget str_eqb t tables); reflexivity. Qed.

Lemma filter_out_gone_rows_bridge : forall tables t rows,
  filter_out_gone_rows_py tables t rows = filter_out_gone_rows tables t rows.
Proof. intros. unfold filter_out_gone_rows_py, filter_out_gone_rows. destruct (aget str_eqb t tables); reflexivity. Qed.

Lemma items_filter_keys : forall (P : Z * (V * V) -> bool) (Q : V * V -> bool) (d : rowdeltas) (l : list Z),
  (forall k v, P (k, v) = Q v) ->
  map fst (filter P (flat_map (fun k => match aget Z.eqb k d with Some v => [(k, v)] | None => [] end) l))
  = filter (fun r => match aget Z.eqb r d with Some p => Q p | None => false end) l.
Proof.
  intros P Q d l H. induction l as [|k l IH]; [reflexivity|]. cbn [flat_map filter].
  rewrite filter_app, map_app, IH. destruct (aget Z.eqb k d) as [v|]; cbn; [|reflexivity].
  rewrite H. destruct (Q v); reflexivity.
Qed.

Lemma full_row_ids_bridge : forall dl, full_row_ids_py dl = full_rows dl.
Proof.
  intro dl. unfold full_row_ids_py, full_rows, py_items. f_equal.
  apply (items_filter_keys _ (fun p => negb (Z.eqb (fst p) (snd p)))). intros k v. reflexivity.
Qed.

Lemma defunct_bridge : forall t c, defunct_py t c = is_defunct t || is_defunct c.
Proof. intros. unfold defunct_py. rewrite !is_defunct_bridge. reflexivity. Qed.

(* ... so the stored half of _changes_to_actions, written with the generated pieces, is the model's *)
Definition changes_to_stored_py (S : summary) (t c : str) (dl : rowdeltas) : option action :=
  match dl with
  | [] => None
  | _ =>
    let full := full_row_ids_py dl in
    if defunct_py t c then None
    else
      let rows_after := filter_out_gone_rows_py (sm_tables S) (root_name_py t) full in
      simplify_update (root_name_py t) rows_after (root_name_py c) (map (after_of dl) rows_after)
  end.

Lemma changes_to_stored_bridge : forall S t c dl, changes_to_stored_py S t c dl = changes_to_stored false S t c dl.
Proof.
  intros. unfold changes_to_stored_py, changes_to_stored. destruct dl; [reflexivity|].
  cbv zeta. rewrite defunct_bridge, full_row_ids_bridge, !root_name_bridge, filter_out_gone_rows_bridge. reflexivity.
Qed.
