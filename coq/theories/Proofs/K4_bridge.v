(* Bridging lemmas: every function of coq/gen/K4_gen.v (REGENERATED from relation.py / column.py / useractions.py on
   every run by harness/k4tr.py) equals, pointwise, the hand model of Model/RefIndex.v / Model/TwoWay.v that the
   theorems are about.  A semantic edit of one of those Python functions makes the corresponding lemma fail. *)
From Coq Require Import ZArith List Bool Arith Lia.
Import ListNotations.
Require Import Grist.Model.RefIndex Grist.Model.K4Support Grist.Model.TwoWay GristGen.K4_gen.

(* ---- relation.py ReferenceRelation ---------------------------------------------------------------------------- *)
(* a collection of target rows gives a NEW set: the union of the stored sets *)
Lemma gen_get_affected_rows_rows : forall m l,
  gen_get_affected_rows m (Rows l) = ARSet (Fresh (get_affected_rows l m)).
Proof. intros. reflexivity. Qed.

(* depend.ALL_ROWS is passed through *)
Lemma gen_get_affected_rows_all : forall m, gen_get_affected_rows m AllRows = ARAll.
Proof. intros. reflexivity. Qed.

Lemma gen_add_reference_eq : forall m r t, gen_add_reference m r t = add_reference r t m.
Proof. intros. reflexivity. Qed.

Lemma gen_remove_reference_eq : forall m r t, gen_remove_reference m r t = remove_reference r t m.
Proof.
  intros. unfold gen_remove_reference, remove_reference, inv_getitem. destruct (inv_find t m); reflexivity.
Qed.

Lemma gen_rel_clear_eq : forall m, gen_rel_clear m = [].
Proof. intros. reflexivity. Qed.

(* ---- column.py -------------------------------------------------------------------------------------------------- *)
Lemma bind_ok : forall A (x : res A), bind x (fun a => Ok a) = x.
Proof. intros A [a|e]; reflexivity. Qed.

Lemma with_inv_with_inv : forall c m m', with_inv (with_inv c m) m' = with_inv c m'.
Proof. intros. reflexivity. Qed.

Section Col.
  Variable hack : list Z -> option (list Z).

  (* the loops of _update_references, as folds over the column, are the folds of the model over the relation *)
  Lemma remove_fold_col : forall c r l (am : res invmap),
    fold_left (fun acc t => bind acc (fun c0 => bind (bind (gen_remove_reference (rc_inv c0) r t)
                                                          (fun m => Ok (with_inv c0 m))) (fun c1 => Ok c1)))
              l (bind am (fun m => Ok (with_inv c m)))
    = bind (fold_left (fun acc t => bind acc (remove_reference r t)) l am) (fun m => Ok (with_inv c m)).
  Proof.
    intros c r l. induction l as [|t l IH]; intros am; [reflexivity|].
    cbn [fold_left]. rewrite <- IH. f_equal. destruct am as [m|e]; [|reflexivity].
    cbn [bind]. rewrite gen_remove_reference_eq. cbn [with_inv rc_inv].
    destruct (remove_reference r t m); reflexivity.
  Qed.

  Lemma add_fold_col : forall c r l m,
    fold_left (fun acc t => bind acc (fun c0 => let c1 := with_inv c0 (gen_add_reference (rc_inv c0) r t) in Ok c1))
              l (Ok (with_inv c m))
    = Ok (with_inv c (fold_left (fun m2 t => add_reference r t m2) l m)).
  Proof.
    intros c r l. induction l as [|t l IH]; intros m; [reflexivity|].
    cbn [fold_left bind]. cbv zeta. cbn [with_inv rc_inv rc_kind rc_data]. rewrite gen_add_reference_eq.
    apply (IH (add_reference r t m)).
  Qed.

  Lemma gen_update_references_eq : forall c r o n,
    gen_update_references c r o n =
    bind (update_references (rc_kind c) r o n (rc_inv c)) (fun m => Ok (with_inv c m)).
  Proof.
    intros c r o n. unfold gen_update_references, update_references.
    assert (Hc : Ok c = bind (Ok (rc_inv c)) (fun m => Ok (with_inv c m))) by (destruct c; reflexivity).
    rewrite Hc at 1. rewrite remove_fold_col.
    destruct (fold_left (fun acc t => bind acc (remove_reference r t)) (value_iterable (rc_kind c) o) (Ok (rc_inv c)))
      as [m1|e]; [|reflexivity].
    cbn [bind]. cbn [with_inv rc_kind]. rewrite bind_ok. apply add_fold_col.
  Qed.

  Lemma gen_set_eq : forall c r v, gen_set hack c r v = col_set hack c r v.
  Proof.
    intros c r v. unfold gen_set, col_set. cbv zeta. rewrite gen_update_references_eq, bind_ok.
    cbn [base_set rc_kind rc_inv].
    destruct (update_references (rc_kind c) r (safe_get c r) _ (rc_inv c)); reflexivity.
  Qed.

  Lemma gen_unset_eq : forall c r, gen_unset hack c r = col_unset hack c r.
  Proof. intros. unfold gen_unset, col_unset. rewrite bind_ok. apply gen_set_eq. Qed.

  (* BaseReferenceColumn.clear resets the cells AND the relation *)
  Lemma gen_clear_eq : forall c, gen_clear c = col_clear_fixed c.
  Proof. intros. reflexivity. Qed.
End Col.

(* copy_from_column: data replaced, relation cleared and rebuilt cell by cell *)
Lemma update_references_from_none : forall k r v m,
  update_references k r CNone v m = Ok (fold_left (fun m2 t => add_reference r t m2) (value_iterable k v) m).
Proof. intros. unfold update_references. destruct k; reflexivity. Qed.

Lemma rebuild_fold_col : forall c0 k (l : list (nat * cell)) m, rc_kind c0 = k ->
  fold_left (fun acc x => bind acc (fun c => let row_id := fst x in let value := snd x in
                 if right_type (rc_kind c) value
                 then bind (gen_update_references c row_id CNone value) (fun c1 => Ok c1) else Ok c))
            l (Ok (with_inv c0 m))
  = Ok (with_inv c0 (fold_left (fun m0 rv => if right_type k (snd rv)
                                 then fold_left (fun m2 t => add_reference (fst rv) t m2) (value_iterable k (snd rv)) m0
                                 else m0) l m)).
Proof.
  intros c0 k l. induction l as [|[r v] l IH]; intros m Hk; [reflexivity|].
  cbn [fold_left bind fst snd]. cbv zeta. cbn [with_inv rc_kind]. rewrite Hk.
  destruct (right_type k v) eqn:E.
  - rewrite gen_update_references_eq, bind_ok. cbn [with_inv rc_kind rc_inv]. rewrite Hk.
    rewrite update_references_from_none. cbn [bind]. apply (IH _ Hk).
  - apply (IH _ Hk).
Qed.

Lemma gen_copy_from_eq : forall c data, gen_copy_from c data = Ok (col_copy_from c data).
Proof.
  intros c data. unfold gen_copy_from. cbv zeta. rewrite bind_ok.
  change (with_inv (base_copy c data) (gen_rel_clear (rc_inv (base_copy c data))))
    with (with_inv (base_copy c data) []).
  rewrite (rebuild_fold_col (base_copy c data) (rc_kind c) _ [] eq_refl). reflexivity.
Qed.

(* what the clean-up writes into one cell *)
Lemma gen_raw_get_without_eq : forall c r ts, gen_raw_get_without c r ts = raw_get_without c r ts.
Proof.
  intros c r ts. unfold gen_raw_get_without, raw_get_without, gen_raw_get_without_base, gen_raw_get_without_reflist.
  destruct (rc_kind c) eqn:Ek; [reflexivity|]. cbv zeta.
  destruct (raw_get c r) as [|z|l|s]; cbn; try reflexivity.
  destruct (forallb is_int_short l); [|reflexivity]. cbn.
  destruct (filter (fun r0 => negb (memZ r0 ts)) l); reflexivity.
Qed.

Lemma mapM_ext : forall A B (f g : A -> res B) l, (forall x, f x = g x) -> mapM f l = mapM g l.
Proof. intros A B f g l H. induction l as [|x l IH]; [reflexivity|]. cbn [mapM]. rewrite H, IH. reflexivity. Qed.

Lemma gen_get_updates_eq : forall c ts, gen_get_updates c ts = get_updates c ts.
Proof.
  intros c ts. unfold gen_get_updates, get_updates. cbv zeta. rewrite gen_get_affected_rows_rows. cbn [ar_rows aset_rows].
  apply mapM_ext. intros r. rewrite gen_raw_get_without_eq. reflexivity.
Qed.

(* _list_to_value: the UNIQUE check of a Ref, the empty-list-is-None of a RefList *)
Lemma gen_list_to_value_eq : forall k l, gen_list_to_value k l = list_to_value k l.
Proof. intros k l. destruct k; destruct l as [|x [|y l]]; reflexivity. Qed.

(* recalc_from_reverse_values: one adjustment per row of the target table, from the reverse index *)
Lemma append_fold : forall A B (g : A -> B) l (acc : list B),
  fold_left (fun a t => bind a (fun ra => Ok (ra ++ [g t]))) l (Ok acc) = Ok (acc ++ map g l).
Proof.
  intros A B g l. induction l as [|t l IH]; intros acc; cbn [fold_left bind map]; [rewrite app_nil_r; reflexivity|].
  rewrite IH, <- app_assoc. reflexivity.
Qed.

Lemma mapM_map : forall A B C (g : A -> B) (f : B -> res C) l, mapM f (map g l) = mapM (fun x => f (g x)) l.
Proof. intros. induction l as [|x l IH]; [reflexivity|]. cbn [map mapM]. rewrite IH. reflexivity. Qed.

Lemma gen_recalc_adjustments_eq : forall c kb rows_b,
  gen_recalc_adjustments c kb rows_b =
  mapM (fun t => bind (list_to_value kb (get_affected_rows [Z.of_nat t] (rc_inv c))) (fun v => Ok (t, v))) rows_b.
Proof.
  intros c kb rows_b. unfold gen_recalc_adjustments. cbv zeta.
  rewrite (append_fold nat (nat * list nat)
             (fun t => (t, ar_rows (gen_get_affected_rows (rc_inv c) (Rows [Z.of_nat t])))) rows_b []).
  cbn [bind app]. rewrite mapM_map. apply mapM_ext. intros t. cbn [fst snd].
  rewrite gen_list_to_value_eq, gen_get_affected_rows_rows. reflexivity.
Qed.

(* doBulkRemoveRecord cleans exactly the back-reference columns that are reference columns and not formula columns
   (a DATA column that merely carries a default/trigger formula is cleaned like any other) *)
Lemma gen_cleanup_skips_eq : forall is_formula has_formula is_reference is_ref is_reflist,
  gen_cleanup_skips is_formula has_formula is_reference is_ref is_reflist = is_formula || negb is_reference.
Proof. intros. reflexivity. Qed.

(* ---- the column operations and whole op sequences, as generated ---------------------------------------------- *)
Section Run.
  Variable hack : list Z -> option (list Z).

  (* (growto is BaseColumn glue, pinned by AST) *)
  Definition gen_apply_op (c : refcol) (o : op) : res refcol :=
    match o with
    | OSet r v => gen_set hack c r v
    | OUnset r => gen_unset hack c r
    | OCopy d => gen_copy_from c d
    | OClear => Ok (gen_clear c)
    | OGrow n => Ok (col_grow c n)
    end.

  Definition gen_run_from (c : refcol) (ops : list op) : res refcol :=
    fold_left (fun acc o => bind acc (fun c' => gen_apply_op c' o)) ops (Ok c).

  Definition gen_run (k : kind) (ops : list op) : res refcol := gen_run_from (col_new k) ops.

  Lemma gen_apply_op_eq : forall c o, gen_apply_op c o = apply_op hack true c o.
  Proof.
    intros c o. destruct o; cbn [gen_apply_op apply_op].
    - apply gen_set_eq.
    - apply gen_unset_eq.
    - apply gen_copy_from_eq.
    - reflexivity.
    - reflexivity.
  Qed.

  Lemma gen_run_eq : forall k ops, gen_run k ops = run hack k ops.
  Proof.
    intros k ops. unfold gen_run, gen_run_from, run, run_from. generalize (Ok (col_new k)).
    induction ops as [|o ops IH]; intros acc; [reflexivity|]. cbn [fold_left]. rewrite <- IH. f_equal.
    destruct acc as [c|e]; [|reflexivity]. cbn [bind]. apply gen_apply_op_eq.
  Qed.

  (* recalc_from_reverse_values inside the model of AddReverseColumn / a Ref<->RefList switch *)
  Lemma mapM_post : forall A B C (g : A -> res B) (h : B -> C) l,
    mapM (fun x => bind (g x) (fun y => Ok (h y))) l = bind (mapM g l) (fun ys => Ok (map h ys)).
  Proof.
    intros A B C g h l. induction l as [|x l IH]; [reflexivity|]. cbn [mapM]. rewrite IH.
    destruct (g x) as [y|e]; [|reflexivity]. cbn [bind]. destruct (mapM g l); reflexivity.
  Qed.

  Lemma recalc_from_a_code : forall s,
    recalc_from_a hack s =
    bind (gen_recalc_adjustments (p_a s) (rc_kind (p_b s)) (p_rows_b s))
         (fun adj => bind (apply_adjustments hack (p_rows_b s) (p_b s) (map (fun tv => (Z.of_nat (fst tv), snd tv)) adj))
                          (fun b' => Ok {| p_a := p_a s; p_b := b'; p_rows_a := p_rows_a s; p_rows_b := p_rows_b s |})).
  Proof.
    intros s. unfold recalc_from_a. rewrite gen_recalc_adjustments_eq, mapM_map. cbn [fst snd].
    set (G := fun t => bind (list_to_value (rc_kind (p_b s)) (get_affected_rows [Z.of_nat t] (rc_inv (p_a s))))
                            (fun v => Ok (t, v))).
    set (h := fun tv : nat * cell => (Z.of_nat (fst tv), snd tv)).
    assert (E : mapM (fun x => bind (list_to_value (rc_kind (p_b s)) (get_affected_rows [Z.of_nat x] (rc_inv (p_a s))))
                                    (fun v => Ok (Z.of_nat x, v))) (p_rows_b s)
                = bind (mapM G (p_rows_b s)) (fun ys => Ok (map h ys))).
    { rewrite <- mapM_post. apply mapM_ext. intros t. unfold G.
      destruct (list_to_value (rc_kind (p_b s)) (get_affected_rows [Z.of_nat t] (rc_inv (p_a s)))); reflexivity. }
    rewrite E. destruct (mapM G (p_rows_b s)); reflexivity.
  Qed.
End Run.

(* END-PART-3 *)
