(* K6 proofs, part 16: every modelled user action, the auto-removal loop and whole bundles keep the property;
   reachable states satisfy it; removals leave no reference to a removed record. *)
From Coq Require Import ZArith List Bool Lia.
Import ListNotations.
Require Import Grist.Model.MetaCascade Grist.Proofs.MetaCascade_base Grist.Proofs.MetaCascade_inv
  Grist.Proofs.MetaCascade_rm Grist.Proofs.MetaCascade_rm2 Grist.Proofs.MetaCascade_rm3
  Grist.Proofs.MetaCascade_rm4 Grist.Proofs.MetaCascade_rm5
  Grist.Proofs.MetaCascade_add Grist.Proofs.MetaCascade_add2 Grist.Proofs.MetaCascade_add3
  Grist.Proofs.MetaCascade_add4 Grist.Proofs.MetaCascade_add5 Grist.Proofs.MetaCascade_add6
  Grist.Proofs.MetaCascade_add7 Grist.Proofs.MetaCascade_regroup Grist.Proofs.MetaCascade_regroup2
  Grist.Proofs.MetaCascade_conv Grist.Proofs.MetaCascade_clear Grist.Proofs.MetaCascade_sec2
  Grist.Proofs.MetaCascade_reid Grist.Proofs.MetaCascade_sis Grist.Proofs.MetaCascade_detach
  Grist.Proofs.MetaCascade_vis
  Grist.Proofs.MetaCascade_upd Grist.Proofs.MetaCascade_upd2 Grist.Proofs.MetaCascade_upd3.
Open Scope Z_scope.

Lemma remove_fields_inv : forall X fs m m', InvX X m -> remove_fields fs m = Ok m' -> InvX X m'.
Proof.
  intros X fs m m' HI H. unfold remove_fields in H.
  destruct (negb (all_in fs (fids m))); [discriminate|].
  destruct (existsb _ (m_fields m)); [discriminate|]. inversion H; subst. apply rm_fields_inv. exact HI.
Qed.

Theorem step_inv : forall o m m', Inv m -> step o m = Ok m' -> Inv m'.
Proof.
  intros o m m' HI H. destruct o; simpl in H.
  - destruct (add_table name kinds pview m) as [[m1 t]| |] eqn:E; simpl in H; try discriminate.
    inversion H; subst. apply (add_table_inv _ _ _ _ _ _ HI E).
  - apply (remove_tables_inv _ _ _ HI H).
  - apply (add_column_inv _ _ _ _ _ HI H).
  - destruct (add_hidden_column t kind reft m) as [[m1 c]| |] eqn:E; simpl in H; try discriminate.
    inversion H; subst. apply (add_hidden_column_inv [] _ _ _ _ _ _ HI E).
  - apply (remove_columns_inv [] _ _ _ HI H).
  - destruct (add_view t raw_data m) as [[m1 v]| |] eqn:E; simpl in H; try discriminate.
    inversion H; subst. apply (add_view_inv [] _ _ _ _ _ HI E).
  - apply (create_section_inv _ _ _ _ _ _ HI H).
  - apply (remove_sections_inv [] _ _ _ HI H).
  - apply (remove_views_inv [] _ _ _ HI H).
  - inversion H; subst. apply rm_pages_inv. exact HI.
  - inversion H; subst. apply rm_tabbar_inv. exact HI.
  - apply (remove_fields_inv [] _ _ _ HI H).
  - apply (add_field_inv [] _ _ _ _ HI H).
  - apply (set_display_inv [] _ _ _ _ _ _ _ HI H).
  - apply (add_rule_inv [] _ _ _ _ _ HI H).
  - apply (set_rules_inv [] _ _ _ _ _ HI H).
  - apply (set_custom_inv [] _ _ _ _ HI H).
  - apply (rename_table_inv _ _ _ _ HI H).
  - apply (create_summary_inv _ _ _ _ _ _ _ _ _ HI H).
  - apply (apply_regroup_inv _ _ _ HI H).
  - apply (remove_columns_regroup_inv _ _ _ _ HI H).
  - apply (set_visible_inv [] _ _ _ _ HI H).
  - apply (modify_type_inv [] _ _ _ _ _ _ _ HI H).
  - apply (set_display_sisters_inv [] _ _ _ _ _ _ _ HI H).
  - apply (reident_inv [] _ _ _ _ HI H).
  - apply (detach_inv _ _ _ _ _ _ _ HI H).
  - destruct (add_table name kinds pview m) as [[m1 t]| |] eqn:E; simpl in H; try discriminate.
    inversion H; subst. apply set_refts_inv. apply (add_table_inv _ _ _ _ _ _ HI E).
  - apply (add_visible_column_inv _ _ _ _ _ _ HI H).
  - apply (create_section_shown_inv _ _ _ _ _ HI H).
  - apply (create_summary_existing_inv _ _ _ _ _ _ _ _ HI H).
  - inversion H; subst. exact HI.
  - discriminate.
Qed.

Theorem steps_inv : forall os m m', Inv m -> steps os m = Ok m' -> Inv m'.
Proof.
  induction os as [|o t IH]; intros m m' HI H; simpl in H.
  - inversion H; subst. exact HI.
  - destruct (step o m) as [m1| |] eqn:E; simpl in H; try discriminate.
    apply (IH m1 m'); [apply (step_inv o m m1 HI E) | exact H].
Qed.

Lemma auto_round_inv : forall m m', Inv m -> auto_round m = Ok m' -> Inv m'.
Proof.
  intros m m' HI H. unfold auto_round in H.
  destruct (if isnil (auto_cols m) then Ok m else remove_columns (auto_cols m) m) as [m1| |] eqn:E; simpl in H;
    try discriminate.
  assert (HI1 : Inv m1).
  { destruct (isnil (auto_cols m)); [inversion E; subst; exact HI | apply (remove_columns_inv [] _ _ _ HI E)]. }
  destruct (isnil (auto_tabs m)); [inversion H; subst; exact HI1 | apply (remove_tables_inv _ _ _ HI1 H)].
Qed.

Lemma auto_cols_nil_used : forall m, isnil (auto_cols m) = true -> Used m.
Proof.
  intros m H c Hc. apply isnil_true in H. unfold auto_cols in H.
  destruct (col_unused m c) eqn:E; [|reflexivity]. exfalso.
  assert (Hin : In (c_id c) (map c_id (filter (col_unused m) (m_columns m)))).
  { apply in_map. apply filter_In. split; assumption. }
  rewrite H in Hin. exact Hin.
Qed.

Theorem auto_fix_inv : forall fuel m m', Inv m -> auto_fix fuel m = Ok m' -> Inv m' /\ Used m'.
Proof.
  induction fuel as [|k IH]; intros m m' HI H; simpl in H.
  - destruct (isnil (auto_cols m) && isnil (auto_tabs m)) eqn:E; [|discriminate].
    inversion H; subst. apply andb_true_iff in E. split; [exact HI | apply auto_cols_nil_used; tauto].
  - destruct (isnil (auto_cols m) && isnil (auto_tabs m)) eqn:E.
    + inversion H; subst. apply andb_true_iff in E. split; [exact HI | apply auto_cols_nil_used; tauto].
    + destruct (auto_round m) as [m1| |] eqn:Er; simpl in H; try discriminate.
      apply (IH m1 m'); [apply (auto_round_inv m m1 HI Er) | exact H].
Qed.


(* a whole bundle *)
Theorem run_bundle_core : forall os m m', refs_core m = true -> run_bundle os m = Ok m' -> RefsResolve m' = true.
Proof.
  intros os m m' HR H. apply refs_core_iff in HR. unfold run_bundle in H.
  destruct (steps os m) as [m1| |] eqn:E; unfold bind in H; try discriminate.
  pose proof (steps_inv os m m1 HR E) as HI1.
  apply RefsResolve_iff. apply (auto_fix_inv _ m1 m' HI1 H).
Qed.

Theorem run_bundle_preserves : forall os m m',
  RefsResolve m = true -> run_bundle os m = Ok m' -> RefsResolve m' = true.
Proof.
  intros os m m' HR H. unfold RefsResolve in HR. apply andb_true_iff in HR. destruct HR as [HR _].
  apply (run_bundle_core os m m' HR H).
Qed.

(* single actions keep the core part (helper columns may be unused until the end of the bundle) *)
Theorem step_preserves_core : forall o m m', refs_core m = true -> step o m = Ok m' -> refs_core m' = true.
Proof. intros o m m' HR H. apply refs_core_iff. apply refs_core_iff in HR. apply (step_inv o m m' HR H). Qed.

(* the auto-removal loop alone: from any state satisfying the core part *)
Theorem auto_fix_resolves : forall fuel m m', refs_core m = true -> auto_fix fuel m = Ok m' -> RefsResolve m' = true.
Proof.
  intros fuel m m' HR H. apply refs_core_iff in HR. apply RefsResolve_iff. apply (auto_fix_inv fuel m m' HR H).
Qed.

(* states reachable from a new document by bundles of modelled actions *)
Inductive reachable : meta -> Prop :=
| reach_init : reachable empty_meta
| reach_bundle : forall m os m', reachable m -> run_bundle os m = Ok m' -> reachable m'.

Theorem reachable_resolve : forall m, reachable m -> RefsResolve m = true.
Proof.
  intros m H. induction H as [|m os m' Hr IH Hb].
  - vm_compute. reflexivity.
  - apply (run_bundle_preserves os m m' IH Hb).
Qed.
