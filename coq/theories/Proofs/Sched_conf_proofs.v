(* K2: every complete run of the scheduler ends in the same values: the from-scratch value for cells
   whose recursive evaluation is finite, CircularRefError for the others (programs whose formulas do
   not handle exceptions). *)
From Coq Require Import ZArith List Bool Lia Arith.
Import ListNotations.
Require Import Grist.Model.Sched Grist.Proofs.Sched_proofs.
Open Scope Z_scope.

Section Scratch.
  Variable P : prog.
  Variable v0 : cell -> value.
  Notation scr := (scr P v0).

  Lemma evalrec_mono f g t v :
    (forall c w, f c = Some w -> g c = Some w) -> evalrec f t = Some v -> evalrec g t = Some v.
  Proof.
    intros Hfg. induction t as [z|e|c k IH]; cbn [evalrec]; intros H; try exact H.
    destruct (f c) as [w|] eqn:E; [|discriminate]. rewrite (Hfg _ _ E). apply IH. exact H.
  Qed.

  Lemma scr_mono_S n : forall c v, scr n c = Some v -> scr (S n) c = Some v.
  Proof.
    induction n as [|n IH]; intros c v H; [discriminate|].
    cbn [Sched.scr] in *. destruct (P c) as [t|]; [|exact H].
    eapply evalrec_mono; [|exact H]. intros d w Hd. apply IH in Hd. exact Hd.
  Qed.

  Lemma scr_mono n m c v : (n <= m)%nat -> scr n c = Some v -> scr m c = Some v.
  Proof. induction 1 as [|m Hle IH]; intros Hs; [exact Hs | apply scr_mono_S; auto]. Qed.

  Lemma scr_det n m c v w : scr n c = Some v -> scr m c = Some w -> v = w.
  Proof.
    intros H1 H2. apply (scr_mono n (Nat.max n m)) in H1; [|lia].
    apply (scr_mono m (Nat.max n m)) in H2; [|lia]. congruence.
  Qed.

  Lemma strict_k c k v : strict (Read c k) -> strict (k v).
  Proof.
    intros H. inversion H as [| |c' k' He Hz]; subst.
    destruct v as [z|e]; [apply Hz | rewrite He; constructor].
  Qed.

  Notation consistent := (consistent P v0).

  (* what the argument needs of a formula: it passes errors on, or no cell reaches a cycle at all (then
     no circular-reference error is ever produced, and handlers of other errors are harmless) *)
  Definition tame (t : itree) : Prop := cre_strict t \/ forall c, evaluable P v0 c.

  Lemma strict_cre_strict t : strict t -> cre_strict t.
  Proof.
    induction 1 as [z|e|c k He Hz IH]; constructor; [apply He|].
    intros [z|e]; [apply IH | rewrite He; constructor].
  Qed.

  Lemma tame_k c k v : tame (Read c k) -> tame (k v).
  Proof.
    intros [H|H]; [left | right; exact H]. inversion H as [| |c' k' He Hv]; subst. apply Hv.
  Qed.

  Lemma tame_cre c k : tame (Read c k) -> reaches_cycle P v0 c -> k (VErr CircularRef) = Raise CircularRef.
  Proof.
    intros [H|H] R.
    - inversion H as [| |c' k' He Hz]; subst. exact He.
    - destruct (H c) as [n [v Hn]]. rewrite R in Hn. discriminate.
  Qed.

  Lemma eval_done_consistent vl isd t : forall v,
    tame t -> (forall x, isd x = false -> consistent x (vl x)) -> eval vl isd t = ODone v ->
    (exists n, forall m, (n <= m)%nat -> evalrec (scr m) t = Some v) \/
    (v = VErr CircularRef /\ forall n, evalrec (scr n) t = None).
  Proof.
    induction t as [z|e|c k IH]; intros v St Hc H; cbn [eval] in H.
    - inversion H; subst. left. exists O. reflexivity.
    - inversion H; subst. left. exists O. reflexivity.
    - destruct (isd c) eqn:Ed; [discriminate|].
      destruct (Hc c Ed) as [[n0 Hn0]|[Hv Hn]].
      + destruct (IH (vl c) v (tame_k _ _ _ St) Hc H) as [[n1 Hn1]|[Hv Hn]].
        * left. exists (Nat.max n0 n1). intros m Hm. cbn [evalrec].
          rewrite (scr_mono n0 m c _) by (lia || exact Hn0). apply Hn1. lia.
        * right. split; [exact Hv|]. intros n. cbn [evalrec].
          destruct (scr n c) as [w|] eqn:E; [|reflexivity].
          rewrite (scr_det _ _ _ _ _ E Hn0). apply Hn.
      + right. pose proof (tame_cre _ _ St Hn) as He. rewrite Hv, He in H. cbn [eval] in H.
        inversion H; subst. split; [reflexivity|]. intros n. cbn [evalrec]. rewrite Hn. reflexivity.
  Qed.

  Lemma eval_need_dep vl isd t d :
    tame t -> (forall x, isd x = false -> consistent x (vl x)) -> eval vl isd t = ONeed d ->
    forall n, evalrec (scr n) t <> None -> scr n d <> None.
  Proof.
    induction t as [z|e|c k IH]; intros St Hc H n Hn; cbn [eval] in H; try discriminate.
    cbn [evalrec] in Hn. destruct (isd c) eqn:Ed.
    - inversion H; subst. destruct (scr n d); congruence.
    - destruct (Hc c Ed) as [[n0 Hn0]|[Hv Hr]].
      + destruct (scr n c) as [w|] eqn:E; [|congruence].
        rewrite (scr_det _ _ _ _ _ E Hn0) in Hn.
        eapply IH; [eapply tame_k; exact St | exact Hc | exact H | exact Hn].
      + pose proof (tame_cre _ _ St Hr) as He. rewrite Hv, He in H. cbn [eval] in H. discriminate.
  Qed.

  (* a dependency cycle is not evaluable *)
  Definition depn (k : nat) (a b : cell) : Prop := forall n, scr (k + n) a <> None -> scr n b <> None.

  Lemma depn_one a b : dep P v0 a b -> depn 1 a b.
  Proof. intros H n. apply H. Qed.

  Lemma depn_snoc k a b c : depn k a b -> dep P v0 b c -> depn (S k) a c.
  Proof.
    intros H1 H2 n Hn. apply H2. apply H1. replace (k + S n)%nat with (S k + n)%nat by lia. exact Hn.
  Qed.

  Lemma depn_cons k a b c : dep P v0 a b -> depn k b c -> depn (S k) a c.
  Proof. intros H1 H2 n Hn. apply H2. apply H1. exact Hn. Qed.

  Lemma depn_cycle k a : depn (S k) a a -> reaches_cycle P v0 a.
  Proof.
    intros H n. induction n as [n IH] using lt_wf_ind.
    destruct (scr n a) as [v|] eqn:E; [|reflexivity]. exfalso.
    destruct (le_lt_dec (S k) n) as [Hle|Hlt].
    - assert (Hn : scr (S k + (n - S k)) a <> None).
      { replace (S k + (n - S k))%nat with n by lia. congruence. }
      apply H in Hn. apply Hn. apply IH. lia.
    - assert (Hn : scr (S k + 0) a <> None).
      { rewrite (scr_mono n (S k + 0) a v) by (lia || exact E). discriminate. }
      apply H in Hn. apply Hn. reflexivity.
  Qed.

  Lemma dep_plus_depn a b : dep_plus P v0 a b -> exists k, depn (S k) a b.
  Proof.
    induction 1 as [a b H|a b c H _ [k IH]].
    - exists O. apply depn_one. exact H.
    - exists (S k). eapply depn_cons; eassumption.
  Qed.

  Theorem on_cycle_reaches_cycle c : on_cycle P v0 c -> reaches_cycle P v0 c.
  Proof. intros H. destruct (dep_plus_depn _ _ H) as [k Hk]. eapply depn_cycle. exact Hk. Qed.

  Lemma evaluable_not_reaches c : evaluable P v0 c -> ~ reaches_cycle P v0 c.
  Proof. intros [n [v H]] R. rewrite R in H. discriminate. Qed.
  (* ------------------------------------------------------------------------------------ *)
  (* the invariant of an update loop *)

  Inductive chain : list frame -> Prop :=
  | chain_nil : chain []
  | chain_bottom c : chain [(c, None)]
  | chain_push d c l rest : dep P v0 c d -> chain ((c, l) :: rest) -> chain ((d, Some c) :: (c, l) :: rest).

  Lemma chain_tail f rest : chain (f :: rest) -> chain rest.
  Proof. intros H. inversion H; subst; [constructor | assumption]. Qed.

  (* every cell strictly below the top of the stack depends (transitively) on the top cell *)
  Lemma chain_path st : chain st -> forall c l rest x, st = (c, l) :: rest ->
    In x (map fst rest) -> exists k, depn (S k) x c.
  Proof.
    induction 1 as [|c0|d c0 l0 rest0 Hd Hch IH]; intros c l rest x E Hx.
    - discriminate.
    - inversion E; subst. destruct Hx.
    - inversion E; subst. cbn [map fst] in Hx. destruct Hx as [<-|Hx].
      + exists O. apply depn_one. exact Hd.
      + destruct (IH c0 l0 rest0 x eq_refl Hx) as [k Hk]. exists (S k). eapply depn_snoc; eassumption.
  Qed.

  Lemma chain_lock_of_second c l c1 l1 rest : chain ((c, l) :: (c1, l1) :: rest) -> l = Some c1.
  Proof. intros H. inversion H; subst. reflexivity. Qed.

  Definition Inv (s : state) : Prop :=
    (forall c, mem c (dirty s) = false -> consistent c (val s c)) /\
    chain (stack s) /\
    (forall c, In c (locked s) -> In c (map fst (tl (stack s)))) /\
    has_formulas P s.

  Hypothesis Pstrict : forall c t, P c = Some t -> tame t.

  Lemma finish_consistent s x v :
    (forall c, mem c (dirty s) = false -> consistent c (val s c)) -> consistent x v ->
    forall c, mem c (dirty (finish s x v)) = false -> consistent c (val (finish s x v) c).
  Proof.
    intros H Hx c Hc. cbn [finish dirty val] in *. destruct (cell_eq_dec c x) as [->|Ne].
    - rewrite upd_same. exact Hx.
    - rewrite upd_other by exact Ne. apply H. rewrite mem_remove_other in Hc by exact Ne. exact Hc.
  Qed.

  Lemma run_done_consistent s c v :
    (forall x, mem x (dirty s) = false -> consistent x (val s x)) ->
    run_formula P s c = Some (ODone v) -> consistent c v.
  Proof.
    intros H Hr. unfold run_formula in Hr. destruct (P c) as [t|] eqn:Ep; [|discriminate].
    inversion Hr as [He]. clear Hr.
    destruct (eval_done_consistent _ _ t v (Pstrict _ _ Ep) H He) as [[n Hn]|[Hv Hn]].
    - left. exists (S n). cbn [Sched.scr]. rewrite Ep. apply Hn. lia.
    - right. split; [exact Hv|]. intros [|n]; [reflexivity|]. cbn [Sched.scr]. rewrite Ep. apply Hn.
  Qed.

  Lemma run_need_dep s c d :
    (forall x, mem x (dirty s) = false -> consistent x (val s x)) ->
    run_formula P s c = Some (ONeed d) -> dep P v0 c d.
  Proof.
    intros H Hr. unfold run_formula in Hr. destruct (P c) as [t|] eqn:Ep; [|discriminate].
    inversion Hr as [He]. clear Hr. intros n Hn. cbn [Sched.scr] in Hn. rewrite Ep in Hn.
    eapply eval_need_dep; [apply (Pstrict _ _ Ep) | exact H | exact He | exact Hn].
  Qed.

  Lemma Inv_step s s' : step P s s' -> Inv s -> Inv s'.
  Proof.
    intros St [I1 [I2 [I3 I4]]].
    assert (I4' : has_formulas P s') by (eapply has_formulas_step; eassumption).
    assert (Fin : forall x v, consistent x v -> has_formulas P (finish s x v) -> Inv (finish s x v)).
    { intros x v Hx Hf. split; [apply finish_consistent; assumption|].
      split; [exact I2|]. split; [|exact Hf].
      intros c Hc. cbn [finish locked stack] in *. apply In_remove in Hc. apply I3. tauto. }
    destruct St.
    - (* pick *) split; [exact I1|]. split; [constructor|]. split; [|exact I4'].
      intros x Hx. cbn [locked stack tl map] in *. apply I3 in Hx. rewrite H in Hx. exact Hx.
    - (* done *) apply Fin; [eapply run_done_consistent; eassumption | exact I4'].
    - (* need *) split; [exact I1|]. split.
      + cbn [stack]. rewrite H. constructor; [eapply run_need_dep; eassumption | rewrite <- H; exact I2].
      + split; [|exact I4']. intros x Hx. cbn [locked stack tl] in *. rewrite H. cbn [map fst].
        destruct Hx as [<-|Hx]; [left; reflexivity|]. right.
        apply I3 in Hx. rewrite H in Hx. cbn [tl] in Hx. exact Hx.
    - (* cycle *) apply Fin; [|exact I4']. right. split; [reflexivity|].
      rewrite H in I2. apply mem_In in H1. apply I3 in H1. rewrite H in H1. cbn [tl] in H1.
      destruct (chain_path _ I2 c l rest c eq_refl H1) as [k Hk]. eapply depn_cycle. exact Hk.
    - (* opp *) apply Fin; [eapply run_done_consistent; eassumption | exact I4'].
    - (* pop *) split; [exact I1|]. rewrite H in I2. split; [eapply chain_tail; exact I2|].
      split; [|exact I4']. intros x Hx. cbn [locked stack] in *.
      destruct rest as [|[c1 l1] rest1].
      + destruct l as [cl|]; cbn [unlock] in Hx; [apply In_remove in Hx; destruct Hx as [Hx _]|];
          apply I3 in Hx; rewrite H in Hx; destruct Hx.
      + pose proof (chain_lock_of_second _ _ _ _ _ I2) as ->. cbn [unlock] in Hx.
        apply In_remove in Hx. destruct Hx as [Hx Ne]. apply I3 in Hx. rewrite H in Hx.
        cbn [tl map fst] in Hx. cbn [tl]. destruct Hx as [E|Hx]; [congruence | exact Hx].
  Qed.

  Lemma Inv_steps s s' : steps P s s' -> Inv s -> Inv s'.
  Proof. induction 1; intros; [assumption | eauto using Inv_step]. Qed.
End Scratch.

(* ---------------------------------------------------------------------------------------- *)
(* the theorems *)

Lemma wf_init_Inv P s : wf_init P s -> Inv P (val s) s.
Proof.
  intros [Hs [Hl [Hf Hc]]]. split; [exact Hc|]. split; [rewrite Hs; constructor|].
  split; [rewrite Hl; intros c []|exact Hf].
Qed.

Lemma final_consistent P s r c :
  (forall c t, P c = Some t -> tame P (val s) t) -> wf_init P s -> complete_run P s r ->
  consistent P (val s) c (val r c).
Proof.
  intros Ht Hw [Hst [Hd _]].
  pose proof (Inv_steps P (val s) Ht s r Hst (wf_init_Inv P s Hw)) as [I1 _].
  apply I1. rewrite Hd. reflexivity.
Qed.

Lemma consistent_unique P v0 c v w : consistent P v0 c v -> consistent P v0 c w -> v = w.
Proof.
  intros [[n Hn]|[Hv Hr]] [[m Hm]|[Hw Hr']].
  - eapply scr_det; eassumption.
  - rewrite Hr' in Hn. discriminate.
  - rewrite Hr in Hm. discriminate.
  - congruence.
Qed.

Lemma cre_tame P v0 : cre_strict_prog P -> forall c t, P c = Some t -> tame P v0 t.
Proof. intros Hs c t Hc. left. eapply Hs. exact Hc. Qed.

Lemma strict_prog_cre P : strict_prog P -> cre_strict_prog P.
Proof. intros Hs c t Hc. apply strict_cre_strict. eapply Hs. exact Hc. Qed.

(* programs whose handlers never catch CircularRefError (they may catch any other error) *)
Theorem sched_confluent_cre P s r1 r2 :
  cre_strict_prog P -> wf_init P s -> complete_run P s r1 -> complete_run P s r2 ->
  forall c, val r1 c = val r2 c.
Proof.
  intros Hs Hw H1 H2 c. pose proof (cre_tame P (val s) Hs) as Ht.
  eapply consistent_unique; eapply final_consistent; eassumption.
Qed.

Theorem acyclic_cells_normal_cre P s r c n v :
  cre_strict_prog P -> wf_init P s -> complete_run P s r ->
  scr P (val s) n c = Some v -> val r c = v.
Proof.
  intros Hs Hw H1 Hn. pose proof (cre_tame P (val s) Hs) as Ht.
  eapply consistent_unique; [eapply final_consistent; eassumption | left; exists n; exact Hn].
Qed.

Theorem reaches_cycle_error_cre P s r c :
  cre_strict_prog P -> wf_init P s -> complete_run P s r ->
  reaches_cycle P (val s) c -> val r c = VErr CircularRef.
Proof.
  intros Hs Hw H1 Hr. pose proof (cre_tame P (val s) Hs) as Ht.
  eapply consistent_unique; [eapply final_consistent; eassumption | right; split; [reflexivity | exact Hr]].
Qed.

Theorem sched_confluent_strict P s r1 r2 :
  strict_prog P -> wf_init P s -> complete_run P s r1 -> complete_run P s r2 ->
  forall c, val r1 c = val r2 c.
Proof. intros Hs. apply sched_confluent_cre. apply strict_prog_cre. exact Hs. Qed.

Theorem acyclic_cells_normal_strict P s r c n v :
  strict_prog P -> wf_init P s -> complete_run P s r ->
  scr P (val s) n c = Some v -> val r c = v.
Proof. intros Hs. apply acyclic_cells_normal_cre. apply strict_prog_cre. exact Hs. Qed.

Theorem reaches_cycle_error_strict P s r c :
  strict_prog P -> wf_init P s -> complete_run P s r ->
  reaches_cycle P (val s) c -> val r c = VErr CircularRef.
Proof. intros Hs. apply reaches_cycle_error_cre. apply strict_prog_cre. exact Hs. Qed.

Theorem cycle_cells_error_strict P s r c :
  strict_prog P -> wf_init P s -> complete_run P s r ->
  on_cycle P (val s) c -> val r c = VErr CircularRef.
Proof.
  intros Hs Hw H1 Hc. eapply reaches_cycle_error_strict; try eassumption.
  apply on_cycle_reaches_cycle. exact Hc.
Qed.

(* acyclic programs (a ranking respected by every Read): every cell is evaluable from scratch, and
   every schedule yields the from-scratch solution, whether or not formulas handle exceptions *)
Lemma reads_below_evalrec P v0 r b t :
  reads_below r b t -> (forall d, (r d < b)%nat -> exists v, scr P v0 b d = Some v) ->
  exists v, evalrec (scr P v0 b) t = Some v.
Proof.
  intros H Hd. induction H as [z|e|c k Hc Hk IH]; cbn [evalrec]; try (eexists; reflexivity).
  destruct (Hd c Hc) as [v Hv]. rewrite Hv. apply IH.
Qed.

Theorem acyclic_evaluable P v0 r : acyclic P r -> forall c, exists v, scr P v0 (S (r c)) c = Some v.
Proof.
  intros Ha c. remember (r c) as n eqn:En. revert c En.
  induction n as [n IH] using lt_wf_ind. intros c En. cbn [scr].
  destruct (P c) as [t|] eqn:Ep; [|eexists; reflexivity].
  apply (reads_below_evalrec P v0 r n t); [rewrite En; apply Ha; exact Ep|].
  intros d Hd. destruct (IH (r d) Hd d eq_refl) as [v Hv]. exists v.
  eapply scr_mono; [|exact Hv]. lia.
Qed.

Theorem sched_scratch_acyclic P r s fin c :
  acyclic P r -> wf_init P s -> complete_run P s fin ->
  scr P (val s) (S (r c)) c = Some (val fin c).
Proof.
  intros Ha Hw H1.
  assert (Ht : forall c t, P c = Some t -> tame P (val s) t).
  { intros x t Hx. right. intros d. destruct (acyclic_evaluable P (val s) r Ha d) as [v Hv].
    exists (S (r d)), v. exact Hv. }
  destruct (acyclic_evaluable P (val s) r Ha c) as [v Hv]. rewrite Hv. f_equal.
  eapply consistent_unique; [left; eexists; exact Hv | eapply final_consistent; eassumption].
Qed.

Theorem sched_confluent_acyclic P r s r1 r2 :
  acyclic P r -> wf_init P s -> complete_run P s r1 -> complete_run P s r2 ->
  forall c, val r1 c = val r2 c.
Proof.
  intros Ha Hw H1 H2 c.
  pose proof (sched_scratch_acyclic P r s r1 c Ha Hw H1) as E1.
  pose proof (sched_scratch_acyclic P r s r2 c Ha Hw H2) as E2. congruence.
Qed.

(* starting from scratch (every formula cell dirty) is a consistent starting point *)
Lemma wf_init_scratch P v d :
  (forall c, In c d -> P c <> None) -> (forall c, P c <> None -> In c d) -> wf_init P (init_state v d).
Proof.
  intros H1 H2. split; [reflexivity|]. split; [reflexivity|]. split; [exact H1|].
  intros c Hc. cbn [init_state dirty val] in *. left. exists 1%nat. cbn [scr].
  destruct (P c) eqn:Ep; [|reflexivity].
  exfalso. apply mem_false in Hc. apply Hc. apply H2. congruence.
Qed.

(* the first cell a formula reads is a dependency *)
Lemma first_read_dep P v0 c d k : P c = Some (Read d k) -> dep P v0 c d.
Proof.
  intros Hp n Hn. cbn [scr] in Hn. rewrite Hp in Hn. cbn [evalrec] in Hn.
  destruct (scr P v0 n d); congruence.
Qed.

Theorem not_reaching_cycle_normal P s r c :
  cre_strict_prog P -> wf_init P s -> complete_run P s r ->
  ~ reaches_cycle P (val s) c -> exists n, scr P (val s) n c = Some (val r c).
Proof.
  intros Hs Hw H1 Hn. pose proof (cre_tame P (val s) Hs) as Ht.
  destruct (final_consistent P s r c Ht Hw H1) as [H|[_ H]]; [exact H | contradiction].
Qed.
