(* C08, part 4a: auxiliary facts for the coupled steps. *)
From Coq Require Import ZArith List Bool Lia Permutation.
Import ListNotations.
Require Import Grist.Model.SchemaSync Grist.Proofs.SchemaSync_build Grist.Proofs.SchemaSync_spec
               Grist.Proofs.SchemaSync_steps.
Open Scope Z_scope.

(* ---------------------------------------------------------------- Sync depends on little *)
Lemma sync_rho_ext : forall base sch ts cs rho rho',
  Sync base sch ts cs rho -> (forall r, In r cs -> rho' (c_id r) = rho (c_id r)) -> Sync base sch ts cs rho'.
Proof.
  intros base sch ts cs rho rho' Hs Hr tid. specialize (Hs tid). unfold target in *.
  destruct (od_get tid sch) as [cols|]; destruct (mtable ts tid) as [t|]; try exact Hs.
  intro c. rewrite (Hs c). unfold spec_col. destruct (mcol cs (t_id t) c) as [r|] eqn:E; [|reflexivity].
  cbn. apply mcol_some in E. unfold info_rho. rewrite Hr by tauto. reflexivity.
Qed.

Definition core (r : crec) := (c_id r, c_parent r, c_colId r, c_type r, c_isf r, c_formula r).

Lemma core_eq : forall a b, core a = core b ->
  c_id a = c_id b /\ c_parent a = c_parent b /\ c_colId a = c_colId b /\ c_type a = c_type b /\ c_isf a = c_isf b /\
  c_formula a = c_formula b.
Proof. intros a b H. unfold core in H. inversion H. tauto. Qed.

Lemma find_core : forall (q : crec -> bool) l1 l2,
  (forall a b, core a = core b -> q a = q b) -> map core l1 = map core l2 ->
  option_map core (find q l1) = option_map core (find q l2).
Proof.
  intros q l1. induction l1 as [|a t IH]; intros l2 Hq Hm; destruct l2 as [|b t2]; try discriminate; [reflexivity|].
  cbn [map] in Hm. assert (Hab : core a = core b) by (apply (f_equal (hd (core a))) in Hm; exact Hm).
  assert (Ht : map core t = map core t2) by (apply (f_equal (@tl _)) in Hm; exact Hm).
  cbn [find option_map]. rewrite (Hq a b Hab). destruct (q b); [cbn; f_equal; exact Hab|].
  apply IH; assumption.
Qed.

Lemma sync_core_ext : forall base sch ts cs cs' rho,
  map core cs = map core cs' -> Sync base sch ts cs rho -> Sync base sch ts cs' rho.
Proof.
  intros base sch ts cs cs' rho Hm Hs tid. specialize (Hs tid). unfold target in *.
  destruct (od_get tid sch) as [cols|]; destruct (mtable ts tid) as [t|]; try exact Hs.
  intro c. rewrite (Hs c). unfold spec_col, mcol.
  pose proof (find_core (fun r => (c_parent r =? t_id t) && str_eqb (c_colId r) c) cs cs') as H.
  assert (Hq : forall a b, core a = core b ->
             (c_parent a =? t_id t) && str_eqb (c_colId a) c = (c_parent b =? t_id t) && str_eqb (c_colId b) c).
  { intros a b Hab. apply core_eq in Hab. destruct Hab as [_ [-> [-> _]]]. reflexivity. }
  specialize (H Hq Hm).
  destruct (find _ cs) as [a|], (find _ cs') as [b|]; cbn in H; try discriminate; [|reflexivity].
  cbn. assert (Hab : core a = core b) by congruence. apply core_eq in Hab. destruct Hab as [H1 [_ [_ [H4 [H5 H6]]]]].
  unfold info_rho. rewrite H1, H4, H5, H6. reflexivity.
Qed.

Lemma wf_c_core_ext : forall cs cs', map core cs = map core cs' -> wf_c cs -> wf_c cs'.
Proof.
  intros cs cs' Hm Hwc.
  assert (Hin : forall b, In b cs' -> exists a, In a cs /\ core a = core b).
  { intros b Hb. assert (In (core b) (map core cs)) by (rewrite Hm; apply in_map; exact Hb).
    apply in_map_iff in H. destruct H as [a [H1 H2]]. exists a. tauto. }
  assert (Hids : map c_id cs' = map c_id cs).
  { replace (map c_id cs') with (map (fun x => fst (fst (fst (fst (fst x))))) (map core cs')) by (rewrite map_map; reflexivity).
    rewrite <- Hm. rewrite map_map. reflexivity. }
  constructor.
  - rewrite Hids. apply Hwc.
  - intros b Hb. destruct (Hin b Hb) as [a [Ha Hab]]. apply core_eq in Hab. destruct Hab as [<- _].
    apply (wc_pos _ Hwc). exact Ha.
  - intros b1 b2 H1 H2 Hp Hc.
    apply (nodup_map_unique c_id cs'); try assumption; [rewrite Hids; apply Hwc|].
    destruct (Hin b1 H1) as [a1 [Ha1 E1]]. destruct (Hin b2 H2) as [a2 [Ha2 E2]].
    apply core_eq in E1. apply core_eq in E2. destruct E1 as [I1 [P1 [C1 _]]]. destruct E2 as [I2 [P2 [C2 _]]].
    assert (a1 = a2) by (apply (wc_keys _ Hwc); try assumption; congruence). subst a2. congruence.
Qed.

(* ---------------------------------------------------------------- per-row updates given as an association list *)
Lemma assoc_in : forall {A} k (l : list (Z * A)) v, assoc k l = Some v -> In (k, v) l.
Proof.
  intros A k l v. induction l as [|[k' v'] t IH]; cbn; [discriminate|].
  destruct (Z.eqb_spec k' k); [intro H; inversion H; subst; left; reflexivity | intro H; right; apply IH; exact H].
Qed.

Lemma assoc_none : forall {A} k (l : list (Z * A)), assoc k l = None -> forall v, ~ In (k, v) l.
Proof.
  intros A k l. induction l as [|[k' v'] t IH]; cbn; intros H v Hin; [exact Hin|].
  destruct (Z.eqb_spec k' k) as [E|E]; [discriminate|]. destruct Hin as [Hin|Hin]; [inversion Hin; congruence|].
  exact (IH H v Hin).
Qed.

Definition rowmap {A} (g : A -> crec -> crec) (l : list (Z * A)) (cs : list crec) : list crec :=
  fold_left (fun acc ku => map (fun r => if c_id r =? fst ku then g (snd ku) r else r) acc) l cs.

Definition rowfun {A} (g : A -> crec -> crec) (l : list (Z * A)) (r : crec) : crec :=
  match assoc (c_id r) l with Some u => g u r | None => r end.

Lemma rowmap_assoc : forall {A} (g : A -> crec -> crec) l cs,
  nodup_keys l = true -> (forall u r, c_id (g u r) = c_id r) -> rowmap g l cs = map (rowfun g l) cs.
Proof.
  intros A g l. induction l as [|[k u] t IH]; intros cs Hnd Hid.
  - cbn. unfold rowfun. cbn. symmetry. apply map_id.
  - cbn in Hnd. destruct (assoc k t) eqn:Ea; [discriminate|].
    unfold rowmap. cbn [fold_left fst snd]. fold (rowmap g t (map (fun r => if c_id r =? k then g u r else r) cs)).
    rewrite IH by assumption. rewrite map_map. apply map_ext. intro r. unfold rowfun. cbn [assoc].
    destruct (Z.eqb_spec (c_id r) k) as [E|E].
    + rewrite Hid, E, Ea, Z.eqb_refl. reflexivity.
    + destruct (Z.eqb_spec k (c_id r)); [congruence | reflexivity].
Qed.

Lemma upd_cols_rowmap : forall l cs, upd_cols l cs = rowmap patch_crec l cs.
Proof. reflexivity. Qed.

Lemma find_col_map : forall (h : crec -> crec) cs k, (forall r, c_id (h r) = c_id r) ->
  find_col k (map h cs) = option_map h (find_col k cs).
Proof.
  intros h cs k Hid. unfold find_col. induction cs as [|x t IH]; [reflexivity|]. cbn. rewrite Hid.
  destruct (c_id x =? k); [reflexivity | exact IH].
Qed.

(* ---------------------------------------------------------------- effect of schema doc actions, as lookups *)
Lemma sch_upd_set : forall sch tid cols, sch_upd sch (od_set tid cols sch) tid (Some cols).
Proof. intros sch tid cols tid'. apply od_get_set. Qed.

Lemma sch_upd_del : forall sch tid, sch_upd sch (od_del tid sch) tid None.
Proof. intros sch tid tid'. apply od_get_del. Qed.

Lemma colinfo_eqb_eq : forall a b, colinfo_eqb a b = true -> a = b.
Proof.
  intros [t1 i1 f1 r1] [t2 i2 f2 r2] H. unfold colinfo_eqb in H. cbn in H.
  repeat (apply andb_true_iff in H; destruct H as [H ?]).
  apply str_eqb_eq in H. apply eqb_prop in H2. apply str_eqb_eq in H1.
  assert (r1 = r2).
  { destruct r1, r2; cbn in H0; try discriminate; [apply str_eqb_eq in H0; congruence | reflexivity]. }
  congruence.
Qed.

(* ModifyColumn: whatever path the doc action takes, the entry of c becomes patch_info p old *)
Lemma modify_effect : forall tid c p sch sch', apply_s (SModifyColumn tid c p) sch = Ok sch' ->
  exists cols old cols', od_get tid sch = Some cols /\ od_get c cols = Some old /\
    sch_upd sch sch' tid (Some cols') /\
    forall c', od_get c' cols' = if str_eqb c c' then Some (patch_info p old) else od_get c' cols.
Proof.
  intros tid c p sch sch' H. cbn in H. destruct (od_get tid sch) as [cols|] eqn:Et; [|discriminate].
  destruct (od_get c cols) as [old|] eqn:Ec; [|discriminate].
  destruct (colinfo_eqb (patch_info p old) old) eqn:Eq; inversion H; subst; clear H.
  - apply colinfo_eqb_eq in Eq. exists cols, old, cols. repeat split; try assumption.
    + intro tid'. destruct (str_eqb tid tid') eqn:E; [apply str_eqb_eq in E; subst; exact Et | reflexivity].
    + intro c'. destruct (str_eqb c c') eqn:E; [apply str_eqb_eq in E; subst; rewrite Eq; exact Ec | reflexivity].
  - exists cols, old, (od_set c (patch_info p old) (od_del c cols)). repeat split; try assumption.
    + apply sch_upd_set.
    + intro c'. rewrite od_get_set. destruct (str_eqb c c') eqn:E; [reflexivity|]. rewrite od_get_del, E. reflexivity.
Qed.

Lemma filter_patch_same : forall old p, patch_info (filter_patch old p) old = patch_info p old.
Proof.
  intros [t i f r] [pt pi pf pr]. unfold patch_info, filter_patch. cbn. f_equal.
  - destruct pt as [x|]; [|reflexivity]. destruct (str_eqb x t) eqn:E; [apply str_eqb_eq in E; congruence | reflexivity].
  - destruct pi as [x|]; [|reflexivity]. destruct (Bool.eqb x i) eqn:E; [apply eqb_prop in E; congruence | reflexivity].
  - destruct pf as [x|]; [|reflexivity]. destruct (str_eqb x f) eqn:E; [apply str_eqb_eq in E; congruence | reflexivity].
  - destruct pr as [x|]; [|reflexivity]. destruct (ostr_eqb x r) eqn:E; [|reflexivity].
    destruct x, r; cbn in E; try discriminate; [apply str_eqb_eq in E; congruence | reflexivity].
Qed.

Lemma patch_empty_id : forall p old, patch_empty p = true -> patch_info p old = old.
Proof.
  intros [pt pi pf pr] [t i f r] H. unfold patch_empty in H. cbn in H.
  destruct pt, pi, pf, pr; try discriminate. reflexivity.
Qed.

(* doModifyColumn's schema part: the entry of c becomes patch_info p old, the log holds at most that one action *)
Lemma do_modify_effect : forall tid c p sch sch' log, do_modify tid c p sch = Ok (sch', log) ->
  exists cols old cols', od_get tid sch = Some cols /\ od_get c cols = Some old /\
    sch_upd sch sch' tid (Some cols') /\
    forall c', od_get c' cols' = if str_eqb c c' then Some (patch_info p old) else od_get c' cols.
Proof.
  intros tid c p sch sch' log H. unfold do_modify in H.
  destruct (od_get tid sch) as [cols|] eqn:Et; [|discriminate].
  destruct (od_get c cols) as [old|] eqn:Ec; [|discriminate]. cbv zeta in H.
  destruct (patch_empty (filter_patch old p)) eqn:Ee.
  - inversion H; subst. exists cols, old, cols. repeat split; try assumption.
    + intro tid'. destruct (str_eqb tid tid') eqn:E; [apply str_eqb_eq in E; subst; exact Et | reflexivity].
    + intro c'. destruct (str_eqb c c') eqn:E; [|reflexivity]. apply str_eqb_eq in E. subst c'.
      rewrite <- filter_patch_same, (patch_empty_id _ _ Ee). exact Ec.
  - destruct (apply_s (SModifyColumn tid c (filter_patch old p)) sch) as [s1|] eqn:Ea; [|discriminate].
    inversion H; subst. destruct (modify_effect _ _ _ _ _ Ea) as [cols0 [old0 [cols' [H1 [H2 [H3 H4]]]]]].
    rewrite Et in H1. inversion H1; subst cols0. rewrite Ec in H2. inversion H2; subst old0.
    exists cols, old, cols'. repeat split; try assumption. intro c'. rewrite H4, filter_patch_same. reflexivity.
Qed.
