(* Proofs about the action-log kernel K1 (Model/ActionLog.v): undo (C01) and redo (C03). *)
From Coq Require Import ZArith List Bool Lia.
Import ListNotations.
Require Import Grist.Model.ActionLog.
Open Scope Z_scope.

(* ------------------------------------------------------------------------------------------------ *)
(* names *)

Lemma name_eqb_eq : forall a b, name_eqb a b = true <-> a = b.
Proof.
  induction a as [|x a IH]; destruct b as [|y b]; cbn; split; intro H; try congruence; try discriminate.
  - apply andb_true_iff in H. destruct H as [H1 H2]. apply Z.eqb_eq in H1. apply IH in H2. congruence.
  - inversion H; subst. rewrite Z.eqb_refl. cbn. apply IH. reflexivity.
Qed.

Lemma name_eqb_refl : forall a, name_eqb a a = true.
Proof. intro a. apply name_eqb_eq. reflexivity. Qed.

Lemma name_eqb_neq : forall a b, name_eqb a b = false <-> a <> b.
Proof.
  intros a b. split; intro H.
  - intro E. apply name_eqb_eq in E. congruence.
  - destruct (name_eqb a b) eqn:E; [|reflexivity]. apply name_eqb_eq in E. contradiction.
Qed.

Lemma name_eqb_sym : forall a b, name_eqb a b = name_eqb b a.
Proof.
  intros a b. destruct (name_eqb a b) eqn:E.
  - apply name_eqb_eq in E. subst. symmetry. apply name_eqb_refl.
  - symmetry. apply name_eqb_neq. apply name_eqb_neq in E. congruence.
Qed.

Lemma name_eq_dec : forall a b : name, {a = b} + {a <> b}.
Proof. intros a b. destruct (name_eqb a b) eqn:E; [left; apply name_eqb_eq; exact E | right; apply name_eqb_neq; exact E]. Qed.

Ltac name_cases a b :=
  let E := fresh "E" in
  destruct (name_eqb a b) eqn:E;
  [apply name_eqb_eq in E | pose proof (proj1 (name_eqb_neq _ _) E)].

Lemma zmem_In : forall r l, zmem r l = true <-> In r l.
Proof.
  intros r l. induction l as [|x l IH]; cbn.
  - split; [discriminate | tauto].
  - destruct (Z.eqb_spec r x) as [->|Hne].
    + split; auto.
    + rewrite IH. split; [auto | intros [H|H]; [congruence | exact H]].
Qed.

Lemma zmem_false : forall r l, zmem r l = false <-> ~ In r l.
Proof.
  intros r l. rewrite <- zmem_In. destruct (zmem r l); split; intro H; try congruence; try reflexivity.
Qed.

Lemma zinsert_In : forall r x l, In r (zinsert x l) <-> r = x \/ In r l.
Proof.
  intros r x l. induction l as [|y l IH]; cbn.
  - intuition.
  - destruct (Z.ltb x y).
    + cbn. intuition.
    + destruct (Z.eqb_spec x y) as [->|Hne].
      * cbn. intuition.
      * cbn. rewrite IH. intuition.
Qed.

Lemma fold_zinsert_In : forall rows l r,
  In r (fold_left (fun l r => zinsert r l) rows l) <-> In r rows \/ In r l.
Proof.
  induction rows as [|x rows IH]; intros l r; cbn.
  - intuition.
  - rewrite IH. rewrite zinsert_In. intuition.
Qed.

Lemma nmem_In : forall n l, nmem n l = true <-> In n l.
Proof.
  intros n l. induction l as [|x l IH]; cbn.
  - split; [discriminate | tauto].
  - name_cases n x.
    + subst. split; auto.
    + rewrite IH. split; [auto | intros [H0|H0]; [congruence | exact H0]].
Qed.

Section Proofs.
Variable O : ValOps.
Notation V := (V O).
Notation state := (state O).
Notation table := (table O).
Notation column := (column O).
Notation action := (action O).

(* what the proofs need of the value operations *)
Record ValLaws : Prop := mkValLaws {
  venc_refl : forall a : V, venc O a a = true;
  venc_sym : forall a b : V, venc O a b = true -> venc O b a = true;
  venc_trans : forall a b c : V, venc O a b = true -> venc O b c = true -> venc O a c = true;
  vstrict_enc : forall a b : V, vstrict O a b = true -> venc O a b = true;
  vnorm_enc : forall ty (a b : V), venc O a b = true -> venc O (vnorm O ty a) (vnorm O ty b) = true;
  vnorm_idem : forall ty (a : V), venc O (vnorm O ty (vnorm O ty a)) (vnorm O ty a) = true;
  vnorm_default : forall ty, venc O (vnorm O ty (vdefault O ty)) (vdefault O ty) = true;
}.

Hypothesis L : ValLaws.

(* ------------------------------------------------------------------------------------------------ *)
(* columns *)

Lemma col_set_id : forall C r v, c_id O (col_set O C r v) = c_id O C.
Proof. reflexivity. Qed.
Lemma col_set_info : forall C r v, c_info O (col_set O C r v) = c_info O C.
Proof. reflexivity. Qed.

Lemma col_get_set : forall C r v r',
  col_get O (col_set O C r v) r' =
  if Z.eqb r' r then vnorm O (ci_type (c_info O C)) v else col_get O C r'.
Proof.
  intros C r v r'. unfold col_get, col_set, col_default. cbn.
  destruct (Z.eqb r' r); reflexivity.
Qed.

Lemma col_set_many_id : forall rows vals C, c_id O (col_set_many O C rows vals) = c_id O C.
Proof. induction rows as [|r rows IH]; intros [|v vals] C; cbn; try reflexivity. rewrite IH. reflexivity. Qed.

Lemma col_set_many_info : forall rows vals C, c_info O (col_set_many O C rows vals) = c_info O C.
Proof. induction rows as [|r rows IH]; intros [|v vals] C; cbn; try reflexivity. rewrite IH. reflexivity. Qed.

(* the value the sequence of sets leaves in row r, if any: the last one *)
Fixpoint set_val (rows : list Z) (vals : list V) (r : Z) : option V :=
  match rows, vals with
  | r0 :: rows', v0 :: vals' =>
      match set_val rows' vals' r with
      | Some v => Some v
      | None => if Z.eqb r r0 then Some v0 else None
      end
  | _, _ => None
  end.

Lemma col_get_set_many : forall rows vals C r,
  col_get O (col_set_many O C rows vals) r =
  match set_val rows vals r with
  | Some v => vnorm O (ci_type (c_info O C)) v
  | None => col_get O C r
  end.
Proof.
  induction rows as [|r0 rows IH]; intros [|v0 vals] C r; cbn; try reflexivity.
  rewrite IH. rewrite col_set_info. destruct (set_val rows vals r); [reflexivity|].
  rewrite col_get_set. destruct (Z.eqb r r0); reflexivity.
Qed.

Lemma set_val_map : forall (f : Z -> V) rows r,
  set_val rows (map f rows) r = if zmem r rows then Some (f r) else None.
Proof.
  intros f rows r. induction rows as [|r0 rows IH]; cbn; [reflexivity|].
  rewrite IH. destruct (zmem r rows) eqn:E.
  - destruct (Z.eqb r r0); reflexivity.
  - destruct (Z.eqb_spec r r0) as [->|]; reflexivity.
Qed.

Lemma set_val_notin : forall rows vals r, ~ In r rows -> set_val rows vals r = None.
Proof.
  induction rows as [|r0 rows IH]; intros [|v0 vals] r H; cbn; try reflexivity.
  rewrite IH by (intro; apply H; right; assumption).
  destruct (Z.eqb_spec r r0) as [->|]; [|reflexivity]. exfalso. apply H. left. reflexivity.
Qed.

Lemma set_val_in : forall rows vals r, length vals = length rows -> In r rows -> exists v, set_val rows vals r = Some v.
Proof.
  induction rows as [|r0 rows IH]; intros [|v0 vals] r Hl Hin; cbn in *; try discriminate; try contradiction.
  destruct (set_val rows vals r) eqn:E; [eauto|].
  destruct Hin as [->|Hin].
  - rewrite Z.eqb_refl. eauto.
  - destruct (IH vals r) as [v Hv]; [lia | exact Hin | congruence].
Qed.

Lemma col_unset_many_id : forall rows C, c_id O (col_unset_many O C rows) = c_id O C.
Proof. unfold col_unset_many. induction rows as [|r rows IH]; intro C; cbn; [reflexivity|]. rewrite IH. reflexivity. Qed.

Lemma col_unset_many_info : forall rows C, c_info O (col_unset_many O C rows) = c_info O C.
Proof. unfold col_unset_many. induction rows as [|r rows IH]; intro C; cbn; [reflexivity|]. rewrite IH. reflexivity. Qed.

Lemma col_get_unset_many : forall rows C r,
  col_get O (col_unset_many O C rows) r =
  if zmem r rows then vnorm O (ci_type (c_info O C)) (col_default O C) else col_get O C r.
Proof.
  unfold col_unset_many. induction rows as [|r0 rows IH]; intros C r; cbn; [reflexivity|].
  rewrite IH. unfold col_unset at 2 3. rewrite col_get_set.
  unfold col_default. cbn.
  destruct (zmem r rows); destruct (Z.eqb r r0); reflexivity.
Qed.

(* ------------------------------------------------------------------------------------------------ *)
(* tables in a state, columns in a table *)

Lemma find_table_id : forall s t T, find_table O s t = Some T -> t_id O T = t.
Proof.
  induction s as [|T0 s IH]; intros t T H; cbn in H; [discriminate|].
  name_cases t (t_id O T0).
  - inversion H; subst. reflexivity.
  - apply IH. exact H.
Qed.

Lemma find_col_id : forall cs c C, find_col O cs c = Some C -> c_id O C = c.
Proof.
  induction cs as [|C0 cs IH]; intros c C H; cbn in H; [discriminate|].
  name_cases c (c_id O C0).
  - inversion H; subst. reflexivity.
  - apply IH. exact H.
Qed.

Lemma find_put_table : forall s t T' t0, t_id O T' = t ->
  find_table O (put_table O s t T') t0 =
  if name_eqb t0 t then match find_table O s t with Some _ => Some T' | None => None end
  else find_table O s t0.
Proof.
  induction s as [|T0 s IH]; intros t T' t0 Hid; cbn.
  - destruct (name_eqb t0 t); reflexivity.
  - name_cases t (t_id O T0).
    + cbn. rewrite Hid. destruct (name_eqb t0 t) eqn:E1; [reflexivity|].
      rewrite <- E. rewrite E1. reflexivity.
    + cbn. name_cases t0 (t_id O T0).
      * subst t0. assert (name_eqb (t_id O T0) t = false) as ->.
        { apply name_eqb_neq. congruence. } reflexivity.
      * apply IH. exact Hid.
Qed.

Lemma find_drop_table : forall s t t0,
  find_table O (drop_table O s t) t0 = if name_eqb t0 t then None else find_table O s t0.
Proof.
  induction s as [|T0 s IH]; intros t t0; cbn.
  - destruct (name_eqb t0 t); reflexivity.
  - name_cases t (t_id O T0).
    + rewrite IH. name_cases t0 t; [reflexivity|].
      assert (name_eqb t0 (t_id O T0) = false) as ->; [apply name_eqb_neq; congruence | reflexivity].
    + cbn. name_cases t0 (t_id O T0).
      * assert (name_eqb t0 t = false) as ->; [apply name_eqb_neq; congruence | reflexivity].
      * apply IH.
Qed.

Lemma find_app_table : forall s T t0,
  find_table O (s ++ [T]) t0 =
  match find_table O s t0 with
  | Some x => Some x
  | None => if name_eqb t0 (t_id O T) then Some T else None
  end.
Proof.
  induction s as [|T0 s IH]; intros T t0; cbn.
  - reflexivity.
  - destruct (name_eqb t0 (t_id O T0)); [reflexivity | apply IH].
Qed.

Lemma find_put_col : forall cs c C' c0, c_id O C' = c ->
  find_col O (put_col O cs c C') c0 =
  if name_eqb c0 c then match find_col O cs c with Some _ => Some C' | None => None end
  else find_col O cs c0.
Proof.
  induction cs as [|C0 cs IH]; intros c C' c0 Hid; cbn.
  - destruct (name_eqb c0 c); reflexivity.
  - name_cases c (c_id O C0).
    + cbn. rewrite Hid. destruct (name_eqb c0 c) eqn:E1; [reflexivity|].
      rewrite <- E. rewrite E1. reflexivity.
    + cbn. name_cases c0 (c_id O C0).
      * subst c0. assert (name_eqb (c_id O C0) c = false) as ->.
        { apply name_eqb_neq. congruence. } reflexivity.
      * apply IH. exact Hid.
Qed.

Lemma find_drop_col : forall cs c c0,
  find_col O (drop_col O cs c) c0 = if name_eqb c0 c then None else find_col O cs c0.
Proof.
  induction cs as [|C0 cs IH]; intros c c0; cbn.
  - destruct (name_eqb c0 c); reflexivity.
  - name_cases c (c_id O C0).
    + rewrite IH. name_cases c0 c; [reflexivity|].
      assert (name_eqb c0 (c_id O C0) = false) as ->; [apply name_eqb_neq; congruence | reflexivity].
    + cbn. name_cases c0 (c_id O C0).
      * assert (name_eqb c0 c = false) as ->; [apply name_eqb_neq; congruence | reflexivity].
      * apply IH.
Qed.

Lemma find_app_col : forall cs C c0,
  find_col O (cs ++ [C]) c0 =
  match find_col O cs c0 with
  | Some x => Some x
  | None => if name_eqb c0 (c_id O C) then Some C else None
  end.
Proof.
  induction cs as [|C0 cs IH]; intros C c0; cbn.
  - reflexivity.
  - destruct (name_eqb c0 (c_id O C0)); [reflexivity | apply IH].
Qed.

Lemma find_map_col : forall (f : column -> column) cs c,
  (forall C, c_id O (f C) = c_id O C) ->
  find_col O (map f cs) c = option_map f (find_col O cs c).
Proof.
  intros f cs c Hf. induction cs as [|C0 cs IH]; cbn; [reflexivity|].
  rewrite Hf. destruct (name_eqb c (c_id O C0)); [reflexivity | exact IH].
Qed.

Lemma find_map_col_none : forall (f : column -> column) cs c,
  (forall C, c_id O (f C) = c_id O C) ->
  (find_col O (map f cs) c = None <-> find_col O cs c = None).
Proof.
  intros f cs c Hf. rewrite find_map_col by exact Hf. destruct (find_col O cs c); cbn; split; congruence.
Qed.

Lemma nodup_names_find : forall cs C,
  nodup_names (map (c_id O) cs) = true -> In C cs -> find_col O cs (c_id O C) = Some C.
Proof.
  induction cs as [|C0 cs IH]; intros C Hnd Hin; [contradiction|].
  cbn in Hnd. apply andb_true_iff in Hnd. destruct Hnd as [Hn Hnd]. cbn.
  destruct Hin as [->|Hin].
  - rewrite name_eqb_refl. reflexivity.
  - name_cases (c_id O C) (c_id O C0).
    + exfalso. apply negb_true_iff in Hn. apply not_true_iff_false in Hn. apply Hn.
      apply nmem_In. rewrite <- E. apply in_map. exact Hin.
    + apply IH; assumption.
Qed.

Lemma find_col_In : forall cs c C, find_col O cs c = Some C -> In C cs.
Proof.
  induction cs as [|C0 cs IH]; intros c C H; cbn in H; [discriminate|].
  destruct (name_eqb c (c_id O C0)).
  - inversion H; subst. left. reflexivity.
  - right. eapply IH. exact H.
Qed.

Lemma find_col_none_notin : forall cs c, find_col O cs c = None <-> ~ In c (map (c_id O) cs).
Proof.
  induction cs as [|C0 cs IH]; intros c; cbn.
  - split; [intros _ [] | reflexivity].
  - name_cases c (c_id O C0).
    + split; [discriminate | intro H; exfalso; apply H; left; congruence].
    + rewrite IH. split; [intros H1 [H2|H2]; [congruence | contradiction] | intros H1 H2; apply H1; right; exact H2].
Qed.

(* ------------------------------------------------------------------------------------------------ *)
(* equivalence of documents: same tables, same column schema (as a map), same row-id sets, every cell
   of every row equal up to encoding -- except the cells in X *)

Definition cellset := name -> name -> Z -> Prop.
Definition no_cells : cellset := fun _ _ _ => False.

Definition col_rel (X : cellset) (t c : name) (rows : list Z) (C1 C2 : option column) : Prop :=
  match C1, C2 with
  | None, None => True
  | Some C1, Some C2 =>
      c_info O C1 = c_info O C2 /\
      forall r, In r rows -> X t c r \/ venc O (col_get O C1 r) (col_get O C2 r) = true
  | _, _ => False
  end.

Definition tab_rel (X : cellset) (t : name) (T1 T2 : table) : Prop :=
  (forall r, In r (t_rows O T1) <-> In r (t_rows O T2)) /\
  forall c, col_rel X t c (t_rows O T1) (find_col O (t_cols O T1) c) (find_col O (t_cols O T2) c).

Definition otab_rel (X : cellset) (t : name) (T1 T2 : option table) : Prop :=
  match T1, T2 with
  | None, None => True
  | Some T1, Some T2 => tab_rel X t T1 T2
  | _, _ => False
  end.

Definition seq_ex (X : cellset) (s1 s2 : state) : Prop :=
  forall t, otab_rel X t (find_table O s1 t) (find_table O s2 t).

Definition seq (s1 s2 : state) : Prop := seq_ex no_cells s1 s2.

Lemma col_rel_refl : forall X t c rows C, col_rel X t c rows C C.
Proof.
  intros X t c rows [C|]; cbn; [|exact I]. split; [reflexivity|]. intros r _. right. apply (venc_refl L).
Qed.

Lemma tab_rel_refl : forall X t T, tab_rel X t T T.
Proof. intros X t T. split; [tauto|]. intro c. apply col_rel_refl. Qed.

Lemma seq_ex_refl : forall X s, seq_ex X s s.
Proof. intros X s t. destruct (find_table O s t); cbn; [apply tab_rel_refl | exact I]. Qed.

Lemma col_rel_sym : forall X t c rows C1 C2, col_rel X t c rows C1 C2 -> col_rel X t c rows C2 C1.
Proof.
  intros X t c rows [C1|] [C2|]; cbn; try tauto. intros [Hi Hc]. split; [congruence|].
  intros r Hr. destruct (Hc r Hr) as [H|H]; [left; exact H | right; apply (venc_sym L); exact H].
Qed.

Lemma tab_rel_sym : forall X t T1 T2, tab_rel X t T1 T2 -> tab_rel X t T2 T1.
Proof.
  intros X t T1 T2 [Hr Hc]. split; [intro r; symmetry; apply Hr|].
  intro c. specialize (Hc c). apply col_rel_sym in Hc.
  destruct (find_col O (t_cols O T2) c), (find_col O (t_cols O T1) c); cbn in *; try tauto.
  destruct Hc as [Hi Hc]. split; [exact Hi|]. intros r Hin. apply Hc. apply Hr. exact Hin.
Qed.

Lemma seq_ex_sym : forall X s1 s2, seq_ex X s1 s2 -> seq_ex X s2 s1.
Proof.
  intros X s1 s2 H t. specialize (H t).
  destruct (find_table O s1 t), (find_table O s2 t); cbn in *; try tauto. apply tab_rel_sym. exact H.
Qed.

Lemma col_rel_trans : forall X Y t c rows C1 C2 C3,
  col_rel X t c rows C1 C2 -> col_rel Y t c rows C2 C3 ->
  col_rel (fun t c r => X t c r \/ Y t c r) t c rows C1 C3.
Proof.
  intros X Y t c rows [C1|] [C2|] [C3|]; cbn; try tauto.
  intros [Hi1 Hc1] [Hi2 Hc2]. split; [congruence|].
  intros r Hr. destruct (Hc1 r Hr) as [H1|H1]; [left; left; exact H1|].
  destruct (Hc2 r Hr) as [H2|H2]; [left; right; exact H2|].
  right. eapply (venc_trans L); eassumption.
Qed.

Lemma tab_rel_trans : forall X Y t T1 T2 T3,
  tab_rel X t T1 T2 -> tab_rel Y t T2 T3 -> tab_rel (fun t c r => X t c r \/ Y t c r) t T1 T3.
Proof.
  intros X Y t T1 T2 T3 [Hr1 Hc1] [Hr2 Hc2]. split.
  - intro r. rewrite Hr1. apply Hr2.
  - intro c. eapply col_rel_trans; [apply Hc1|].
    specialize (Hc2 c).
    destruct (find_col O (t_cols O T2) c), (find_col O (t_cols O T3) c); cbn in *; try tauto.
    destruct Hc2 as [Hi Hc]. split; [exact Hi|]. intros r Hin. apply Hc. apply Hr1. exact Hin.
Qed.

Lemma seq_ex_trans : forall X Y s1 s2 s3,
  seq_ex X s1 s2 -> seq_ex Y s2 s3 -> seq_ex (fun t c r => X t c r \/ Y t c r) s1 s3.
Proof.
  intros X Y s1 s2 s3 H1 H2 t. specialize (H1 t). specialize (H2 t).
  destruct (find_table O s1 t), (find_table O s2 t), (find_table O s3 t); cbn in *; try tauto.
  eapply tab_rel_trans; eassumption.
Qed.

Lemma col_rel_weaken : forall (X Y : cellset) t c rows C1 C2,
  (forall r, X t c r -> Y t c r) -> col_rel X t c rows C1 C2 -> col_rel Y t c rows C1 C2.
Proof.
  intros X Y t c rows [C1|] [C2|] HXY; cbn; try tauto.
  intros [Hi Hc]. split; [exact Hi|]. intros r Hr. destruct (Hc r Hr); [left; apply HXY; assumption | right; assumption].
Qed.

Lemma tab_rel_weaken : forall (X Y : cellset) t T1 T2,
  (forall c r, X t c r -> Y t c r) -> tab_rel X t T1 T2 -> tab_rel Y t T1 T2.
Proof.
  intros X Y t T1 T2 HXY [Hr Hc]. split; [exact Hr|]. intro c. eapply col_rel_weaken; [|apply Hc]. intros r. apply HXY.
Qed.

Lemma seq_ex_weaken : forall (X Y : cellset) s1 s2,
  (forall t c r, X t c r -> Y t c r) -> seq_ex X s1 s2 -> seq_ex Y s1 s2.
Proof.
  intros X Y s1 s2 HXY H t. specialize (H t).
  destruct (find_table O s1 t), (find_table O s2 t); cbn in *; try tauto.
  eapply tab_rel_weaken; [|exact H]. intros c r. apply HXY.
Qed.

Lemma seq_trans : forall s1 s2 s3, seq s1 s2 -> seq s2 s3 -> seq s1 s3.
Proof.
  intros s1 s2 s3 H1 H2. eapply seq_ex_weaken; [|eapply seq_ex_trans; eassumption].
  unfold no_cells. tauto.
Qed.


(* ------------------------------------------------------------------------------------------------ *)
(* well-formed documents: column ids of a table are distinct, none is "id", and every cell of an existing
   row holds a value that Column.set leaves alone (up to encoding) *)

Definition col_normal (C : column) (rows : list Z) : Prop :=
  forall r, In r rows -> venc O (vnorm O (ci_type (c_info O C)) (col_get O C r)) (col_get O C r) = true.

Definition wf_table (T : table) : Prop :=
  nodup_names (map (c_id O) (t_cols O T)) = true /\
  nmem id_name (map (c_id O) (t_cols O T)) = false /\
  forall c C, find_col O (t_cols O T) c = Some C -> col_normal C (t_rows O T).

Definition wf_state (s : state) : Prop := forall t T, find_table O s t = Some T -> wf_table T.

(* ------------------------------------------------------------------------------------------------ *)
(* column dictionaries *)

Fixpoint cols_get (cols : colvals O) (c : name) : option (list V) :=
  match cols with
  | [] => None
  | (c', vs) :: rest => if name_eqb c c' then Some vs else cols_get rest c
  end.

Lemma cols_get_none : forall cols c, cols_get cols c = None <-> ~ In c (map fst cols).
Proof.
  induction cols as [|[c' vs] rest IH]; intro c; cbn.
  - split; [intros _ [] | reflexivity].
  - name_cases c c'.
    + split; [discriminate | intro H; exfalso; apply H; left; congruence].
    + rewrite IH. split; [intros H1 [H2|H2]; [congruence | contradiction] | intros H1 H2; apply H1; right; exact H2].
Qed.

Lemma put_col_ids : forall cs c C', c_id O C' = c -> map (c_id O) (put_col O cs c C') = map (c_id O) cs.
Proof.
  induction cs as [|C0 cs IH]; intros c C' Hid; cbn; [reflexivity|].
  name_cases c (c_id O C0).
  - cbn. congruence.
  - cbn. rewrite IH by exact Hid. reflexivity.
Qed.

(* the cell of column C, row r after `set_columns rows cols` *)
Definition cell_after (rows : list Z) (cols : colvals O) (C : column) (base : Z -> V) (r : Z) : V :=
  match cols_get cols (c_id O C) with
  | Some vals => match set_val rows vals r with
                 | Some v => vnorm O (ci_type (c_info O C)) v
                 | None => base r
                 end
  | None => base r
  end.

Lemma set_columns_spec : forall cols cs rows cs',
  nodup_names (map fst cols) = true ->
  set_columns O cs rows cols = Ok cs' ->
  map (c_id O) cs' = map (c_id O) cs /\
  forall c, match find_col O cs c with
            | None => find_col O cs' c = None
            | Some C => exists C', find_col O cs' c = Some C' /\ c_info O C' = c_info O C /\
                                   forall r, col_get O C' r = cell_after rows cols C (col_get O C) r
            end.
Proof.
  induction cols as [|[c0 vals] rest IH]; intros cs rows cs' Hnd H; cbn in H.
  - assert (cs' = cs) by congruence. subst cs'. split; [reflexivity|]. intro c.
    destruct (find_col O cs c) as [C|] eqn:E; [|reflexivity].
    exists C. repeat split.
  - destruct (find_col O cs c0) as [C0|] eqn:E0; [|discriminate].
    cbn in Hnd. apply andb_true_iff in Hnd. destruct Hnd as [Hn Hnd].
    pose proof (find_col_id _ _ _ E0) as Hid0.
    specialize (IH _ _ _ Hnd H). destruct IH as [Hids IH].
    split.
    { rewrite Hids. apply put_col_ids. rewrite col_set_many_id. exact Hid0. }
    intro c. specialize (IH c).
    rewrite find_put_col in IH by (rewrite col_set_many_id; exact Hid0).
    name_cases c c0.
    + subst c. rewrite E0 in *. destruct IH as [C' [Hf [Hi Hc]]]. exists C'. split; [exact Hf|].
      split; [rewrite Hi; apply col_set_many_info|].
      intro r. rewrite Hc. unfold cell_after. rewrite col_set_many_id, col_set_many_info.
      rewrite Hid0. cbn. rewrite name_eqb_refl.
      assert (cols_get rest c0 = None) as ->.
      { apply cols_get_none. intro Hin. apply nmem_In in Hin. rewrite Hin in Hn. discriminate. }
      apply col_get_set_many.
    + destruct (find_col O cs c) as [C|] eqn:Ec; [|exact IH].
      destruct IH as [C' [Hf [Hi Hc]]]. exists C'. repeat split; try assumption.
      intro r. rewrite Hc. unfold cell_after. cbn.
      rewrite (find_col_id _ _ _ Ec). rewrite E. reflexivity.
Qed.

Lemma set_columns_ok_iff : forall cols cs rows,
  (exists cs', set_columns O cs rows cols = Ok cs') <-> (forall c, In c (map fst cols) -> find_col O cs c <> None).
Proof.
  induction cols as [|[c0 vals] rest IH]; intros cs rows; cbn.
  - split; [intros _ c [] | intros _; eauto].
  - destruct (find_col O cs c0) as [C0|] eqn:E0.
    + rewrite IH. pose proof (find_col_id _ _ _ E0) as Hid0. split.
      * intros H c [Hc|Hc]; [subst; congruence|].
        specialize (H c Hc). rewrite find_put_col in H by (rewrite col_set_many_id; exact Hid0).
        name_cases c c0; [subst; congruence | exact H].
      * intros H c Hc. rewrite find_put_col by (rewrite col_set_many_id; exact Hid0).
        name_cases c c0; [rewrite E0; discriminate | apply H; right; exact Hc].
    + split; [intros [cs' H]; discriminate | intro H; exfalso; apply (H c0); [left; reflexivity | exact E0]].
Qed.

Lemma old_values_spec : forall cols cs rows ov,
  old_values O cs rows cols = Ok ov ->
  map fst ov = map fst cols /\
  forall c, cols_get ov c =
            match cols_get cols c with
            | None => None
            | Some _ => match find_col O cs c with
                        | Some C => Some (map (col_get O C) rows)
                        | None => None
                        end
            end.
Proof.
  induction cols as [|[c0 vals] rest IH]; intros cs rows ov H; cbn in H.
  - inversion H; subst. split; reflexivity.
  - destruct (find_col O cs c0) as [C0|] eqn:E0; [|discriminate].
    destruct (old_values O cs rows rest) as [tl|] eqn:E1; cbn in H; [|discriminate].
    inversion H; subst. destruct (IH _ _ _ E1) as [Hk Hg]. split; [cbn; congruence|].
    intro c. cbn. name_cases c c0; [subst; rewrite E0; reflexivity | apply Hg].
Qed.

Lemma old_values_ok : forall cols cs rows,
  (forall c, In c (map fst cols) -> find_col O cs c <> None) -> exists ov, old_values O cs rows cols = Ok ov.
Proof.
  induction cols as [|[c0 vals] rest IH]; intros cs rows H; cbn.
  - eauto.
  - destruct (find_col O cs c0) as [C0|] eqn:E0.
    + destruct (IH cs rows) as [ov Hov]; [intros c Hc; apply H; right; exact Hc|]. rewrite Hov. cbn. eauto.
    + exfalso. apply (H c0); [left; reflexivity | exact E0].
Qed.

Lemma old_values_ok_inv : forall cols cs rows ov,
  old_values O cs rows cols = Ok ov -> forall c, In c (map fst cols) -> find_col O cs c <> None.
Proof.
  induction cols as [|[c0 vals] rest IH]; intros cs rows ov H c Hc; cbn in *; [contradiction|].
  destruct (find_col O cs c0) as [C0|] eqn:E0; [|discriminate].
  destruct (old_values O cs rows rest) as [tl|] eqn:E1; cbn in H; [|discriminate].
  destruct Hc as [<-|Hc]; [congruence | eapply IH; eassumption].
Qed.

(* Engine.add_records *)
Definition add_base (rows : list Z) (C : column) (r : Z) : V :=
  if zmem r rows then vnorm O (ci_type (c_info O C)) (col_default O C) else col_get O C r.

Lemma add_records_spec : forall T rows cols T',
  nodup_names (map fst cols) = true ->
  add_records O T rows cols = Ok T' ->
  t_id O T' = t_id O T /\
  (forall r, In r (t_rows O T') <-> In r rows \/ In r (t_rows O T)) /\
  map (c_id O) (t_cols O T') = map (c_id O) (t_cols O T) /\
  forall c, match find_col O (t_cols O T) c with
            | None => find_col O (t_cols O T') c = None
            | Some C => exists C', find_col O (t_cols O T') c = Some C' /\ c_info O C' = c_info O C /\
                                   forall r, col_get O C' r = cell_after rows cols C (add_base rows C) r
            end.
Proof.
  intros T rows cols T' Hnd H. unfold add_records in H.
  destruct (set_columns O (map (fun C => col_unset_many O C rows) (t_cols O T)) rows cols) as [cs|] eqn:E; cbn in H; [|discriminate].
  inversion H; subst; clear H. cbn.
  destruct (set_columns_spec _ _ _ _ Hnd E) as [Hids Hc].
  split; [reflexivity|]. split; [intro r; apply fold_zinsert_In|].
  split.
  { rewrite Hids. rewrite map_map. apply map_ext. intro C. apply col_unset_many_id. }
  intro c. specialize (Hc c).
  rewrite find_map_col in Hc by (intro; apply col_unset_many_id).
  destruct (find_col O (t_cols O T) c) as [C|] eqn:Ec; cbn in Hc; [|exact Hc].
  destruct Hc as [C' [Hf [Hi Hg]]]. exists C'. split; [exact Hf|]. split; [rewrite Hi; apply col_unset_many_info|].
  intro r. rewrite Hg. unfold cell_after. rewrite col_unset_many_id, col_unset_many_info.
  unfold add_base. rewrite col_get_unset_many. reflexivity.
Qed.

Lemma add_records_ok_iff : forall T rows cols,
  (exists T', add_records O T rows cols = Ok T') <->
  (forall c, In c (map fst cols) -> find_col O (t_cols O T) c <> None).
Proof.
  intros T rows cols. unfold add_records.
  pose proof (set_columns_ok_iff cols (map (fun C => col_unset_many O C rows) (t_cols O T)) rows) as Hs.
  split.
  - intros [T' H] c Hc.
    destruct (set_columns O (map (fun C => col_unset_many O C rows) (t_cols O T)) rows cols) as [cs|] eqn:E; cbn in H; [|discriminate].
    pose proof (proj1 Hs (ex_intro _ cs eq_refl) c Hc) as Hn. intro Hnone. apply Hn.
    apply find_map_col_none; [intro; apply col_unset_many_id | exact Hnone].
  - intro H. destruct (proj2 Hs) as [cs Hcs].
    + intros c Hc Hnone. apply (H c Hc). eapply find_map_col_none; [|exact Hnone]. intro; apply col_unset_many_id.
    + rewrite Hcs. cbn. eauto.
Qed.


(* ------------------------------------------------------------------------------------------------ *)
(* each doc action followed by the undo actions it appended (walked in reverse, as ApplyUndoActions does)
   gives back the document -- except the cells in `lossy a s`, which the engine restores through the
   calc summary (formula column removed), by recalculation (ReplaceTableData) or by the conversion delta of
   doModifyColumn (type change) *)

Definition lossy (a : action) (s : state) : cellset :=
  match a with
  | RemoveColumn _ t c =>
      fun t' c' _ => t' = t /\ c' = c /\
        exists T C, find_table O s t = Some T /\ find_col O (t_cols O T) c = Some C /\ ci_isformula (c_info O C) = true
  | ReplaceTableData _ t _ _ =>
      fun t' c' _ => t' = t /\
        exists T C, find_table O s t = Some T /\ find_col O (t_cols O T) c' = Some C /\ ci_isformula (c_info O C) = true
  | ModifyColumn _ t c m =>
      fun t' c' _ => t' = t /\ c' = c /\
        exists T C, find_table O s t = Some T /\ find_col O (t_cols O T) c = Some C /\
                    ci_type (apply_modinfo m (c_info O C)) <> ci_type (c_info O C)
  | _ => no_cells
  end.

Definition undo_ok (a : action) (s : state) : Prop :=
  forall s' u ops, apply_doc O a s = Ok (s', (u, ops)) ->
  exists s'', replay_doc O (rev u) s' = Ok s'' /\ seq_ex (lossy a s) s'' s.

Lemma seq_ex_put2 : forall X s t T T1 T2,
  find_table O s t = Some T -> t_id O T1 = t -> t_id O T2 = t -> tab_rel X t T2 T ->
  seq_ex X (put_table O (put_table O s t T1) t T2) s.
Proof.
  intros X s t T T1 T2 Hf H1 H2 Hr t0. rewrite !find_put_table by assumption.
  name_cases t0 t.
  - subst t0. rewrite name_eqb_refl, Hf. cbn. exact Hr.
  - destruct (find_table O s t0); cbn; [apply tab_rel_refl | exact I].
Qed.

Lemma seq_ex_put1 : forall X s t T T1,
  find_table O s t = Some T -> t_id O T1 = t -> tab_rel X t T1 T -> seq_ex X (put_table O s t T1) s.
Proof.
  intros X s t T T1 Hf H1 Hr t0. rewrite find_put_table by exact H1.
  name_cases t0 t.
  - subst t0. rewrite Hf. cbn. exact Hr.
  - destruct (find_table O s t0); cbn; [apply tab_rel_refl | exact I].
Qed.

Lemma undo_AddTable : forall s t cols, undo_ok (AddTable O t cols) s.
Proof.
  intros s t cols s' u ops H. cbn in H.
  destruct (find_table O s t) eqn:Ef; [discriminate|].
  destruct (negb (nodup_names (map fst cols)) || nmem id_name (map fst cols)); [discriminate|].
  inversion H; subst; clear H. cbn.
  rewrite find_app_table, Ef. cbn. rewrite name_eqb_refl. cbn.
  eexists. split; [reflexivity|].
  intro t0. rewrite find_drop_table, find_app_table. name_cases t0 t.
  - subst. rewrite Ef. exact I.
  - cbn. rewrite E. destruct (find_table O s t0); cbn; [apply tab_rel_refl | exact I].
Qed.

Lemma undo_RenameTable : forall s old new, undo_ok (RenameTable O old new) s.
Proof.
  intros s old new s' u ops H. cbn in H.
  destruct (find_table O s old) as [T|] eqn:Eo; [|discriminate].
  destruct (find_table O s new) eqn:En; [discriminate|].
  inversion H; subst; clear H. cbn.
  assert (Hne : old <> new) by (intro; subst; congruence).
  rewrite find_app_table, find_drop_table. cbn.
  assert (name_eqb new old = false) as Eno by (apply name_eqb_neq; congruence).
  rewrite Eno, En, name_eqb_refl.
  rewrite find_app_table, find_drop_table, name_eqb_refl. cbn.
  assert (name_eqb old new = false) as Eon by (apply name_eqb_neq; congruence).
  rewrite Eon. cbn.
  eexists. split; [reflexivity|].
  intro t0. rewrite find_app_table, find_drop_table, find_app_table, find_drop_table. cbn.
  name_cases t0 new.
  - subst. rewrite Eno, En. exact I.
  - name_cases t0 old.
    + subst. rewrite Eo. cbn. split; cbn; [tauto|]. intro c. apply col_rel_refl.
    + destruct (find_table O s t0); cbn; [apply tab_rel_refl | exact I].
Qed.

Lemma find_col_mk_infos : forall cs c,
  find_col O (map (fun ci => mkCol O (fst ci) (snd ci) []) (map (col_to_info O) cs)) c =
  option_map (fun C => mkCol O (c_id O C) (c_info O C) []) (find_col O cs c).
Proof.
  induction cs as [|C0 cs IH]; intro c; cbn; [reflexivity|].
  destruct (name_eqb c (c_id O C0)); [reflexivity | apply IH].
Qed.

Lemma colvals_ok_data : forall cs rows (f : column -> list V),
  nodup_names (map (c_id O) cs) = true -> nmem id_name (map (c_id O) cs) = false ->
  (forall C, length (f C) = length rows) ->
  colvals_ok O rows (map (fun C => (c_id O C, f C)) cs) = true.
Proof.
  intros cs rows f Hnd Hid Hl. unfold colvals_ok.
  assert (map fst (map (fun C => (c_id O C, f C)) cs) = map (c_id O) cs) as ->
    by (rewrite map_map; apply map_ext; reflexivity).
  rewrite Hnd, Hid. cbn. rewrite andb_true_r.
  apply forallb_forall. intros kv Hin. apply in_map_iff in Hin. destruct Hin as [C [<- _]]. cbn.
  apply Nat.eqb_eq. apply Hl.
Qed.

Lemma cols_get_data : forall cs (f : column -> list V) c,
  cols_get (map (fun C => (c_id O C, f C)) cs) c = option_map f (find_col O cs c).
Proof.
  induction cs as [|C0 cs IH]; intros f c; cbn; [reflexivity|].
  destruct (name_eqb c (c_id O C0)); [reflexivity | apply IH].
Qed.

Lemma none_in_nil : forall rows, none_in rows [] = true.
Proof. intro rows. unfold none_in. apply forallb_forall. intros; reflexivity. Qed.

Lemma match_nonnil : forall (A B : Type) (l : list A) (x y : B),
  l <> [] -> match l with [] => x | _ :: _ => y end = y.
Proof. intros A B [|a l] x y H; [contradiction | reflexivity]. Qed.

Lemma undo_RemoveTable : forall s t, wf_state s -> undo_ok (RemoveTable O t) s.
Proof.
  intros s t Hwf s' u ops H. cbn in H.
  destruct (find_table O s t) as [T|] eqn:Ef; [|discriminate].
  destruct (Hwf _ _ Ef) as [Hnd [Hnoid Hnorm]].
  pose proof (find_table_id _ _ _ Ef) as Hid.
  assert (Hadd : apply_doc O (AddTable O t (map (col_to_info O) (t_cols O T))) (drop_table O s t) =
          Ok (drop_table O s t ++ [mkTab O t [] (map (fun ci => mkCol O (fst ci) (snd ci) []) (map (col_to_info O) (t_cols O T)))],
              ([RemoveTable O t], [SRenameTable O None t]))).
  { cbn. rewrite find_drop_table, name_eqb_refl.
    assert (map fst (map (col_to_info O) (t_cols O T)) = map (c_id O) (t_cols O T)) as ->
      by (rewrite map_map; apply map_ext; reflexivity).
    rewrite Hnd, Hnoid. reflexivity. }
  set (Tn := mkTab O t [] (map (fun ci => mkCol O (fst ci) (snd ci) []) (map (col_to_info O) (t_cols O T)))) in *.
  set (data := map (fun C => (c_id O C, map (col_get O C) (t_rows O T))) (t_cols O T)) in *.
  assert (Hseq0 : forall T', t_id O T' = t -> tab_rel no_cells t T' T ->
                  seq_ex no_cells (put_table O (drop_table O s t ++ [Tn]) t T') s).
  { intros T' Hid' Hrel t0. rewrite find_put_table by exact Hid'.
    rewrite !find_app_table, !find_drop_table. unfold Tn. cbn [t_id]. name_cases t0 t.
    - subst t0. rewrite !name_eqb_refl. rewrite Ef. exact Hrel.
    - destruct (find_table O s t0); cbn; [apply tab_rel_refl | exact I]. }
  destruct (list_eq_dec Z.eq_dec (t_rows O T) []) as [Hnil|Hne].
  - rewrite Hnil in H. inversion H; subst s' u ops; clear H. cbn [rev app replay_doc]. rewrite Hadd. cbn [bind fst].
    eexists. split; [reflexivity|].
    intro t0. rewrite find_app_table, find_drop_table. name_cases t0 t.
    + subst t0. unfold Tn. cbn [t_id]. rewrite name_eqb_refl, Ef. cbn [otab_rel]. split; [intro r; cbn; rewrite Hnil; tauto|]. cbn [t_cols t_rows].
      intro c. rewrite find_col_mk_infos. destruct (find_col O (t_cols O T) c); cbn; [|exact I].
      split; [reflexivity|]. intros r [].
    + unfold Tn. cbn [t_id]. rewrite E. destruct (find_table O s t0); cbn; [apply tab_rel_refl | exact I].
  - rewrite match_nonnil in H by exact Hne. inversion H; subst s' u ops; clear H.
    cbn [rev app replay_doc]. rewrite Hadd. cbn [bind fst].
    assert (Hok : colvals_ok O (t_rows O T) data = true).
    { apply colvals_ok_data; try assumption. intro C. apply map_length. }
    assert (Hndk : nodup_names (map fst data) = true).
    { unfold data. rewrite <- Hnd. f_equal. rewrite map_map. apply map_ext. reflexivity. }
    destruct (proj2 (add_records_ok_iff Tn (t_rows O T) data)) as [T' HT'].
    { intros c Hc. unfold data in Hc. rewrite map_map in Hc. cbn in Hc.
      assert (Hc' : In c (map (c_id O) (t_cols O T))) by (erewrite map_ext; [exact Hc | reflexivity]).
      unfold Tn. cbn [t_cols]. rewrite find_col_mk_infos.
      destruct (find_col O (t_cols O T) c) eqn:E; [cbn; discriminate|].
      apply find_col_none_notin in E. contradiction. }
    destruct (add_records_spec _ _ _ _ Hndk HT') as [Hid' [Hrows [_ Hcols]]].
    assert (Hstep : apply_doc O (BulkAddRecord O t (t_rows O T) data) (drop_table O s t ++ [Tn]) =
                    Ok (put_table O (drop_table O s t ++ [Tn]) t T',
                        ([BulkRemoveRecord O t (t_rows O T)], [SAddRecords O t (t_rows O T)]))).
    { unfold apply_doc. rewrite find_app_table, find_drop_table, name_eqb_refl.
      unfold Tn at 1. cbn [t_id]. rewrite name_eqb_refl.
      rewrite Hok. rewrite (match_nonnil _ _ _ true false Hne). cbn [negb orb].
      unfold Tn at 1. cbn [t_rows]. rewrite none_in_nil. cbn [negb]. rewrite HT'. reflexivity. }
    rewrite Hstep. cbn [bind fst].
    eexists. split; [reflexivity|].
    eapply seq_ex_weaken; [|apply Hseq0].
    + intros ? ? ? [].
    + rewrite Hid'. reflexivity.
    + split.
      * intro r. rewrite Hrows. unfold Tn. cbn. tauto.
      * intro c. specialize (Hcols c). unfold Tn in Hcols. cbn [t_cols] in Hcols. rewrite find_col_mk_infos in Hcols.
        destruct (find_col O (t_cols O T) c) as [C|] eqn:Ec; cbn in Hcols.
        -- destruct Hcols as [C' [Hf' [Hi' Hg']]]. rewrite Hf'. cbn. split; [exact Hi'|].
           intros r Hr. right. rewrite Hg'. unfold cell_after. cbn [c_id c_info].
           unfold data. rewrite cols_get_data. rewrite (find_col_id _ _ _ Ec), Ec. cbn.
           rewrite set_val_map. apply Hrows in Hr. unfold Tn in Hr. cbn in Hr. destruct Hr as [Hr|[]].
           rewrite (proj2 (zmem_In _ _) Hr). apply (Hnorm _ _ Ec). exact Hr.
        -- rewrite Hcols. exact I.
Qed.


Lemma find_put_same : forall s t T T1,
  find_table O s t = Some T -> t_id O T1 = t -> find_table O (put_table O s t T1) t = Some T1.
Proof. intros s t T T1 Hf Hid. rewrite find_put_table by exact Hid. rewrite name_eqb_refl, Hf. reflexivity. Qed.

Lemma has_column_false : forall T c,
  has_column O T c = false <-> c <> id_name /\ find_col O (t_cols O T) c = None.
Proof.
  intros T c. unfold has_column. name_cases c id_name; cbn.
  - split; [discriminate | intros [Hc _]; contradiction].
  - destruct (find_col O (t_cols O T) c); split; try discriminate; try tauto. intros [_ Hc]. discriminate.
Qed.

Lemma wf_col_not_id : forall T c C, wf_table T -> find_col O (t_cols O T) c = Some C -> c <> id_name.
Proof.
  intros T c C [_ [Hnoid _]] Hf Heq. subst c.
  assert (nmem id_name (map (c_id O) (t_cols O T)) = true); [|congruence].
  apply nmem_In. rewrite <- (find_col_id _ _ _ Hf). apply in_map. eapply find_col_In. exact Hf.
Qed.

Lemma apply_RemoveColumn_state : forall s t c T C,
  find_table O s t = Some T -> find_col O (t_cols O T) c = Some C ->
  exists u ops, apply_doc O (RemoveColumn O t c) s =
                Ok (put_table O s t (mkTab O (t_id O T) (t_rows O T) (drop_col O (t_cols O T) c)), (u, ops)).
Proof.
  intros s t c T C Hf Hc. unfold apply_doc. rewrite Hf, Hc.
  destruct (filter _ _); [eauto|]. destruct (ci_isformula (c_info O C)); eauto.
Qed.

Lemma undo_AddColumn : forall s t c info, undo_ok (AddColumn O t c info) s.
Proof.
  intros s t c info s' u ops H. cbn in H.
  destruct (find_table O s t) as [T|] eqn:Ef; [|discriminate].
  destruct (has_column O T c) eqn:Eh; [discriminate|].
  apply has_column_false in Eh. destruct Eh as [Hnid Hnc].
  pose proof (find_table_id _ _ _ Ef) as Hid.
  inversion H; subst s' u ops; clear H. cbn [rev app replay_doc].
  set (T1 := mkTab O (t_id O T) (t_rows O T) (t_cols O T ++ [mkCol O c info []])).
  assert (Hf1 : find_table O (put_table O s t T1) t = Some T1) by (eapply find_put_same; eassumption).
  assert (Hc1 : find_col O (t_cols O T1) c = Some (mkCol O c info [])).
  { unfold T1. cbn [t_cols]. rewrite find_app_col, Hnc. cbn [c_id]. rewrite name_eqb_refl. reflexivity. }
  destruct (apply_RemoveColumn_state _ _ _ _ _ Hf1 Hc1) as [u' [ops' Hstep]].
  rewrite Hstep. cbn [bind fst].
  eexists. split; [reflexivity|].
  eapply seq_ex_put2; try eassumption; try reflexivity.
  unfold T1. cbn [t_id t_rows t_cols]. split; [cbn; tauto|].
  intro c0. cbn [t_cols t_rows]. rewrite find_drop_col, find_app_col. cbn [c_id].
  name_cases c0 c.
  - subst c0. rewrite Hnc. exact I.
  - destruct (find_col O (t_cols O T) c0); cbn; [|exact I].
    split; [reflexivity|]. intros r _. right. apply (venc_refl L).
Qed.

Lemma undo_RenameColumn : forall s t old new, wf_state s -> undo_ok (RenameColumn O t old new) s.
Proof.
  intros s t old new Hwf s' u ops H. cbn in H.
  destruct (find_table O s t) as [T|] eqn:Ef; [|discriminate].
  destruct (find_col O (t_cols O T) old) as [C|] eqn:Ec; [|discriminate].
  destruct (has_column O T new) eqn:Eh; [discriminate|].
  apply has_column_false in Eh. destruct Eh as [Hnid Hnc].
  pose proof (find_table_id _ _ _ Ef) as Hid.
  pose proof (wf_col_not_id _ _ _ (Hwf _ _ Ef) Ec) as Hoid.
  assert (Hne : old <> new) by (intro; subst; congruence).
  assert (Eon : name_eqb old new = false) by (apply name_eqb_neq; exact Hne).
  assert (Eno : name_eqb new old = false) by (apply name_eqb_neq; congruence).
  inversion H; subst s' u ops; clear H. cbn [rev app replay_doc].
  set (N := mkCol O new (c_info O C) (c_data O C)).
  set (T1 := mkTab O (t_id O T) (t_rows O T) (drop_col O (t_cols O T) old ++ [N])).
  assert (Hf1 : find_table O (put_table O s t T1) t = Some T1) by (eapply find_put_same; eassumption).
  assert (Hstep : apply_doc O (RenameColumn O t new old) (put_table O s t T1) =
          Ok (put_table O (put_table O s t T1) t
                (mkTab O (t_id O T) (t_rows O T) (drop_col O (t_cols O T1) new ++ [mkCol O old (c_info O C) (c_data O C)])),
              ([RenameColumn O t old new], [SRenameColumn O t (Some new) old]))).
  { unfold apply_doc. rewrite Hf1.
    assert (find_col O (t_cols O T1) new = Some N) as ->.
    { unfold T1. cbn [t_cols]. rewrite find_app_col, find_drop_col, Eno, Hnc. unfold N. cbn [c_id].
      rewrite name_eqb_refl. reflexivity. }
    assert (has_column O T1 old = false) as ->.
    { apply has_column_false. split; [exact Hoid|]. unfold T1. cbn [t_cols].
      rewrite find_app_col, find_drop_col, name_eqb_refl. unfold N. cbn [c_id]. rewrite Eon. reflexivity. }
    reflexivity. }
  rewrite Hstep. cbn [bind fst].
  eexists. split; [reflexivity|].
  eapply seq_ex_put2; try eassumption; try reflexivity.
  split; [cbn; tauto|].
  intro c0. unfold T1. cbn [t_cols t_rows].
  rewrite find_app_col, find_drop_col, find_app_col, find_drop_col. unfold N. cbn [c_id].
  name_cases c0 new.
  - subst c0. rewrite Eno, Hnc. exact I.
  - name_cases c0 old.
    + subst c0. rewrite Ec. cbn. split; [reflexivity|]. intros r _. right.
      unfold col_get, col_default. cbn. apply (venc_refl L).
    + destruct (find_col O (t_cols O T) c0); cbn; [|exact I].
      split; [reflexivity|]. intros r _. right. apply (venc_refl L).
Qed.


Lemma oname_eqb_eq : forall a b, oname_eqb a b = true <-> a = b.
Proof.
  intros [a|] [b|]; cbn; split; intro H; try congruence; try discriminate.
  - apply name_eqb_eq in H. congruence.
  - inversion H. apply name_eqb_refl.
Qed.

Lemma colinfo_eqb_eq : forall a b, colinfo_eqb a b = true <-> a = b.
Proof.
  intros [t1 f1 x1 r1] [t2 f2 x2 r2]. unfold colinfo_eqb. cbn. split.
  - intro H. repeat (apply andb_true_iff in H; destruct H as [H ?]).
    apply name_eqb_eq in H. apply Bool.eqb_prop in H2. apply name_eqb_eq in H1. apply oname_eqb_eq in H0. congruence.
  - intro H. inversion H; subst. rewrite !name_eqb_refl, Bool.eqb_reflx. cbn. apply oname_eqb_eq. reflexivity.
Qed.

Lemma undo_modinfo_restores : forall m old, apply_modinfo (undo_modinfo m old) (apply_modinfo m old) = old.
Proof.
  intros [mt mf mx mr] [t f x r]. unfold apply_modinfo, undo_modinfo. cbn.
  destruct mt, mf, mx, mr; reflexivity.
Qed.

Lemma filter_pairs : forall (f : Z -> V) (P : Z * V -> bool) rows,
  let uv := filter P (map (fun r => (r, f r)) rows) in
  map snd uv = map f (map fst uv) /\
  (forall r, In r (map fst uv) -> In r rows) /\
  (forall r, In r rows -> In r (map fst uv) \/ P (r, f r) = false).
Proof.
  intros f P rows. induction rows as [|r0 rows IH]; cbn.
  - repeat split; try tauto.
  - destruct IH as [H1 [H2 H3]]. destruct (P (r0, f r0)) eqn:EP; cbn.
    + split; [f_equal; exact H1|]. split.
      * intros r [Hr|Hr]; [left; exact Hr | right; apply H2; exact Hr].
      * intros r [Hr|Hr]; [left; left; exact Hr|]. destruct (H3 r Hr); [left; right; assumption | right; assumption].
    + split; [exact H1|]. split.
      * intros r Hr. right. apply H2. exact Hr.
      * intros r [Hr|Hr]; [subst; right; exact EP | apply H3; exact Hr].
Qed.

Lemma all_in_iff : forall rows have, all_in rows have = true <-> forall r, In r rows -> In r have.
Proof.
  intros rows have. unfold all_in. rewrite forallb_forall. split; intros H r Hr.
  - apply zmem_In. apply H. exact Hr.
  - apply zmem_In. apply H. exact Hr.
Qed.

Lemma none_in_iff : forall rows have, none_in rows have = true <-> forall r, In r rows -> ~ In r have.
Proof.
  intros rows have. unfold none_in. rewrite forallb_forall. split; intros H r Hr.
  - apply zmem_false. apply negb_true_iff. apply H. exact Hr.
  - apply negb_true_iff. apply zmem_false. apply H. exact Hr.
Qed.

Lemma apply_BulkUpdate_ok : forall s t T rows cols,
  find_table O s t = Some T -> colvals_ok O rows cols = true -> rows <> [] ->
  all_in rows (t_rows O T) = true ->
  (forall c, In c (map fst cols) -> find_col O (t_cols O T) c <> None) ->
  exists cs u, set_columns O (t_cols O T) rows cols = Ok cs /\
               apply_doc O (BulkUpdateRecord O t rows cols) s =
               Ok (put_table O s t (mkTab O (t_id O T) (t_rows O T) cs), (u, [])).
Proof.
  intros s t T rows cols Hf Hok Hne Hall Hcols.
  destruct (proj2 (set_columns_ok_iff cols (t_cols O T) rows) Hcols) as [cs Hcs].
  destruct (old_values_ok cols (t_cols O T) rows Hcols) as [ov Hov].
  exists cs. eexists. split; [exact Hcs|].
  unfold apply_doc. rewrite Hf, Hok. rewrite (match_nonnil _ _ _ true false Hne). cbn [negb orb].
  rewrite Hall. cbn [negb]. rewrite Hov, Hcs. reflexivity.
Qed.

Lemma find_put_other : forall s t T' t0,
  t0 <> t -> t_id O T' = t -> find_table O (put_table O s t T') t0 = find_table O s t0.
Proof.
  intros s t T' t0 Hne Hid. rewrite find_put_table by exact Hid.
  assert (name_eqb t0 t = false) as -> by (apply name_eqb_neq; exact Hne). reflexivity.
Qed.

Lemma seq_ex_put_gen : forall X s s1 t T T1 T',
  find_table O s t = Some T -> find_table O s1 t = Some T1 ->
  (forall t0, t0 <> t -> find_table O s1 t0 = find_table O s t0) ->
  t_id O T' = t -> tab_rel X t T' T -> seq_ex X (put_table O s1 t T') s.
Proof.
  intros X s s1 t T T1 T' Hf Hf1 Hoth Hid Hrel t0. rewrite find_put_table by exact Hid.
  name_cases t0 t.
  - subst t0. rewrite Hf1, Hf. exact Hrel.
  - rewrite Hoth by assumption. destruct (find_table O s t0); cbn; [apply tab_rel_refl | exact I].
Qed.

Lemma undo_RemoveColumn : forall s t c, wf_state s -> undo_ok (RemoveColumn O t c) s.
Proof.
  intros s t c Hwf s' u ops H. unfold apply_doc in H.
  destruct (find_table O s t) as [T|] eqn:Ef; [|discriminate].
  destruct (find_col O (t_cols O T) c) as [C|] eqn:Ec; [|discriminate].
  pose proof (find_table_id _ _ _ Ef) as Hid.
  pose proof (Hwf _ _ Ef) as HwfT.
  pose proof (wf_col_not_id _ _ _ HwfT Ec) as Hcid.
  destruct HwfT as [Hnd [Hnoid Hnorm]].
  set (P := fun rv : Z * V => negb (vstrict O (snd rv) (col_default O C))) in *.
  destruct (filter_pairs (col_get O C) P (t_rows O T)) as [Hvals [Hsub Hcov]].
  remember (filter P (map (fun r => (r, col_get O C r)) (t_rows O T))) as uv eqn:Euv.
  set (T1 := mkTab O (t_id O T) (t_rows O T) (drop_col O (t_cols O T) c)) in *.
  set (N := mkCol O c (c_info O C) []).
  set (T2 := mkTab O (t_id O T) (t_rows O T) (drop_col O (t_cols O T) c ++ [N])).
  assert (Hf1 : find_table O (put_table O s t T1) t = Some T1) by (eapply find_put_same; eassumption).
  assert (Hadd : apply_doc O (AddColumn O t c (c_info O C)) (put_table O s t T1) =
                 Ok (put_table O (put_table O s t T1) t T2, ([RemoveColumn O t c], [SRenameColumn O t None c]))).
  { unfold apply_doc. rewrite Hf1.
    assert (has_column O T1 c = false) as ->.
    { apply has_column_false. split; [exact Hcid|]. unfold T1. cbn [t_cols]. rewrite find_drop_col, name_eqb_refl. reflexivity. }
    reflexivity. }
  assert (HfN : forall c0, find_col O (t_cols O T2) c0 =
                           if name_eqb c0 c then Some N else find_col O (t_cols O T) c0).
  { intro c0. unfold T2. cbn [t_cols]. rewrite find_app_col, find_drop_col. unfold N. cbn [c_id].
    destruct (name_eqb c0 c); [reflexivity|]. destruct (find_col O (t_cols O T) c0); reflexivity. }
  assert (Hdef : forall r, In r (t_rows O T) -> ~ In r (map fst uv) ->
                 venc O (col_default O N) (col_get O C r) = true).
  { intros r Hr Hnin. destruct (Hcov r Hr) as [Hin|HP]; [contradiction|].
    unfold P in HP. cbn in HP. apply negb_false_iff in HP. apply (venc_sym L). apply (vstrict_enc L). exact HP. }
  assert (Hrel2 : forall X : cellset, (forall r, In r (map fst uv) -> X t c r) -> tab_rel X t T2 T).
  { intros X HX. split; [cbn; tauto|]. intro c0. rewrite HfN. cbn [t_rows T2].
    name_cases c0 c.
    - subst c0. rewrite Ec. cbn. split; [reflexivity|]. intros r Hr.
      destruct (in_dec Z.eq_dec r (map fst uv)) as [Hin|Hnin]; [left; apply HX; exact Hin|].
      right. apply Hdef; assumption.
    - destruct (find_col O (t_cols O T) c0); cbn; [|exact I].
      split; [reflexivity|]. intros r _. right. apply (venc_refl L). }
  clear Euv.
  destruct uv as [|rv0 uv0].
  - (* nothing to restore *)
    inversion H; subst s' u ops; clear H. cbn [rev app replay_doc]. rewrite Hadd. cbn [bind fst].
    eexists. split; [reflexivity|].
    eapply seq_ex_put2; try eassumption; try reflexivity. apply Hrel2. intros r [].
  - remember (map fst (rv0 :: uv0)) as rows2 eqn:Er2.
    remember (map snd (rv0 :: uv0)) as vals2 eqn:Ev2.
    destruct (ci_isformula (c_info O C)) eqn:Eform.
    + (* formula column: restored through the summary *)
      inversion H; subst s' u ops; clear H. cbn [rev app replay_doc]. rewrite Hadd. cbn [bind fst].
      eexists. split; [reflexivity|].
      eapply seq_ex_put2; try eassumption; try reflexivity. apply Hrel2.
      intros r _. cbn. split; [reflexivity|]. split; [reflexivity|]. exists T, C. auto.
    + (* data column: BulkUpdateRecord after the AddColumn *)
      inversion H; subst s' u ops; clear H. cbn [rev app replay_doc]. rewrite Hadd. cbn [bind fst].
      assert (Hf2 : find_table O (put_table O (put_table O s t T1) t T2) t = Some T2)
        by (eapply find_put_same; [exact Hf1 | exact Hid]).
      assert (Hne : rows2 <> []) by (rewrite Er2; discriminate).
      assert (Hlen : length vals2 = length rows2) by (rewrite Er2, Ev2, !map_length; reflexivity).
      assert (Hok : colvals_ok O rows2 [(c, vals2)] = true).
      { unfold colvals_ok. cbn [map fst snd nodup_names nmem forallb negb andb].
        rewrite (proj2 (Nat.eqb_eq _ _) Hlen).
        assert (name_eqb id_name c = false) as -> by (apply name_eqb_neq; congruence). reflexivity. }
      destruct (apply_BulkUpdate_ok _ t T2 rows2 [(c, vals2)] Hf2 Hok Hne) as [cs [u' [Hcs Hstep]]].
      { apply all_in_iff. intros r Hr. unfold T2. cbn [t_rows]. apply Hsub. exact Hr. }
      { intros c0 [<-|[]]. rewrite HfN, name_eqb_refl. discriminate. }
      rewrite Hstep. cbn [bind fst].
      eexists. split; [reflexivity|].
      assert (Hndc : nodup_names (map fst [(c, vals2)]) = true) by reflexivity.
      destruct (set_columns_spec _ _ _ _ Hndc Hcs) as [_ Hspec].
      eapply seq_ex_put_gen; [exact Ef | exact Hf2 | | exact Hid |].
      { intros t0 Hne0. rewrite !find_put_other by (try exact Hne0; exact Hid). reflexivity. }
      split; [cbn; tauto|]. intro c0. cbn [t_cols t_rows T2]. specialize (Hspec c0). rewrite HfN in Hspec.
      name_cases c0 c.
      * subst c0. rewrite Ec. destruct Hspec as [C' [Hf' [Hi' Hg']]]. rewrite Hf'. cbn.
        split; [exact Hi'|]. intros r Hr. right. rewrite Hg'. unfold cell_after. cbn [cols_get N c_id c_info].
        rewrite name_eqb_refl. rewrite Hvals. rewrite set_val_map.
        destruct (zmem r rows2) eqn:Ez.
        -- apply (Hnorm _ _ Ec). exact Hr.
        -- apply Hdef; [exact Hr|]. apply zmem_false. exact Ez.
      * destruct (find_col O (t_cols O T) c0) as [C0|] eqn:Ec0; [|rewrite Hspec; exact I].
        destruct Hspec as [C' [Hf' [Hi' Hg']]]. rewrite Hf'. cbn.
        split; [exact Hi'|]. intros r Hr. right. rewrite Hg'. unfold cell_after. cbn [cols_get].
        rewrite (find_col_id _ _ _ Ec0), E. apply (venc_refl L).
Qed.


Lemma undo_ModifyColumn : forall s t c m, wf_state s -> undo_ok (ModifyColumn O t c m) s.
Proof.
  intros s t c m Hwf s' u ops H. unfold apply_doc in H.
  destruct (find_table O s t) as [T|] eqn:Ef; [|discriminate].
  destruct (find_col O (t_cols O T) c) as [C|] eqn:Ec; [|discriminate].
  pose proof (find_table_id _ _ _ Ef) as Hid.
  destruct (Hwf _ _ Ef) as [Hnd [Hnoid Hnorm]].
  set (new := apply_modinfo m (c_info O C)) in *.
  destruct (colinfo_eqb new (c_info O C)) eqn:Eeq.
  - inversion H; subst s' u ops; clear H. cbn. eexists. split; [reflexivity|]. apply seq_ex_refl.
  - inversion H; subst s' u ops; clear H. cbn [rev app replay_doc].
    set (C1 := col_set_many O (mkCol O c new []) (t_rows O T) (map (col_get O C) (t_rows O T))).
    set (T1 := mkTab O (t_id O T) (t_rows O T) (drop_col O (t_cols O T) c ++ [C1])).
    assert (HidC1 : c_id O C1 = c) by (unfold C1; rewrite col_set_many_id; reflexivity).
    assert (HinfC1 : c_info O C1 = new) by (unfold C1; rewrite col_set_many_info; reflexivity).
    assert (Hf1 : find_table O (put_table O s t T1) t = Some T1) by (eapply find_put_same; eassumption).
    assert (Hc1 : find_col O (t_cols O T1) c = Some C1).
    { unfold T1. cbn [t_cols]. rewrite find_app_col, find_drop_col, name_eqb_refl, HidC1, name_eqb_refl. reflexivity. }
    set (C2 := col_set_many O (mkCol O c (c_info O C) []) (t_rows O T) (map (col_get O C1) (t_rows O T))).
    set (T2 := mkTab O (t_id O T) (t_rows O T) (drop_col O (t_cols O T1) c ++ [C2])).
    assert (Hstep : apply_doc O (ModifyColumn O t c (undo_modinfo m (c_info O C))) (put_table O s t T1) =
                    Ok (put_table O (put_table O s t T1) t T2, ([ModifyColumn O t c (undo_modinfo (undo_modinfo m (c_info O C)) (c_info O C1))], []))).
    { unfold apply_doc. rewrite Hf1, Hc1. rewrite HinfC1.
      pose proof (undo_modinfo_restores m (c_info O C)) as Hres. fold new in Hres. rewrite !Hres.
      assert (colinfo_eqb (c_info O C) new = false) as ->.
      { destruct (colinfo_eqb (c_info O C) new) eqn:E2; [|reflexivity].
        apply colinfo_eqb_eq in E2. rewrite <- E2 in Eeq.
        assert (colinfo_eqb (c_info O C) (c_info O C) = true) by (apply colinfo_eqb_eq; reflexivity). congruence. }
      reflexivity. }
    rewrite Hstep. cbn [bind fst].
    eexists. split; [reflexivity|].
    eapply seq_ex_put2; try eassumption; try reflexivity.
    split; [cbn; tauto|]. intro c0. unfold T2, T1. cbn [t_cols t_rows].
    rewrite find_app_col, find_drop_col, find_app_col, find_drop_col.
    assert (c_id O C2 = c) as -> by (unfold C2; rewrite col_set_many_id; reflexivity).
    rewrite HidC1.
    name_cases c0 c.
    + subst c0. rewrite Ec. cbn. split; [unfold C2; rewrite col_set_many_info; reflexivity|].
      intros r Hr.
      destruct (name_eq_dec (ci_type new) (ci_type (c_info O C))) as [Hty|Hty].
      * right. unfold C2. rewrite col_get_set_many, set_val_map. rewrite (proj2 (zmem_In _ _) Hr). cbn [c_info].
        unfold C1. rewrite col_get_set_many, set_val_map. rewrite (proj2 (zmem_In _ _) Hr). cbn [c_info].
        rewrite Hty.
        eapply (venc_trans L); [apply (vnorm_idem L)|]. apply (Hnorm _ _ Ec). exact Hr.
      * left. cbn. split; [reflexivity|]. split; [reflexivity|]. exists T, C. auto.
    + destruct (find_col O (t_cols O T) c0); cbn; [|exact I].
      split; [reflexivity|]. intros r _. right. apply (venc_refl L).
Qed.


(* ------------------------------------------------------------------------------------------------ *)
(* column dictionaries built from a table's columns (undo values) *)

Definition subdict (p : column -> bool) (f : column -> list V) (cs : list column) : colvals O :=
  flat_map (fun C => if p C then [] else [(c_id O C, f C)]) cs.

Lemma subdict_keys : forall p f cs c, In c (map fst (subdict p f cs)) -> In c (map (c_id O) cs).
Proof.
  unfold subdict.
  intros p f cs c. induction cs as [|C0 cs IH]; cbn; [tauto|].
  destruct (p C0); cbn; [intro H; right; apply IH; exact H|].
  intros [H|H]; [left; exact H | right; apply IH; exact H].
Qed.

Lemma subdict_nodup : forall p f cs,
  nodup_names (map (c_id O) cs) = true -> nodup_names (map fst (subdict p f cs)) = true.
Proof.
  unfold subdict.
  intros p f cs. induction cs as [|C0 cs IH]; cbn; [reflexivity|].
  intro H. apply andb_true_iff in H. destruct H as [Hn Hnd].
  destruct (p C0); cbn; [apply IH; exact Hnd|].
  rewrite (IH Hnd). rewrite andb_true_r. apply negb_true_iff. apply negb_true_iff in Hn.
  match goal with |- nmem ?a ?b = false => destruct (nmem a b) eqn:E; [|reflexivity] end.
  apply nmem_In in E. apply (subdict_keys p f cs) in E. apply nmem_In in E. congruence.
Qed.

Lemma subdict_noid : forall p f cs,
  nmem id_name (map (c_id O) cs) = false -> nmem id_name (map fst (subdict p f cs)) = false.
Proof.
  intros p f cs H. destruct (nmem id_name (map fst (subdict p f cs))) eqn:E; [|reflexivity].
  apply nmem_In in E. apply subdict_keys in E. apply nmem_In in E. congruence.
Qed.

Lemma subdict_get : forall p f cs c,
  nodup_names (map (c_id O) cs) = true ->
  cols_get (subdict p f cs) c =
  match find_col O cs c with
  | Some C => if p C then None else Some (f C)
  | None => None
  end.
Proof.
  unfold subdict.
  intros p f cs c. induction cs as [|C0 cs IH]; cbn; [reflexivity|].
  intro H. apply andb_true_iff in H. destruct H as [Hn Hnd]. specialize (IH Hnd).
  name_cases c (c_id O C0).
  - subst c. destruct (p C0); cbn.
    + rewrite IH. apply negb_true_iff in Hn.
      destruct (find_col O cs (c_id O C0)) eqn:Ef; [|reflexivity].
      exfalso. assert (nmem (c_id O C0) (map (c_id O) cs) = true); [|congruence].
      apply nmem_In. rewrite <- (find_col_id _ _ _ Ef) at 1. apply in_map. eapply find_col_In. exact Ef.
    + rewrite name_eqb_refl. reflexivity.
  - destruct (p C0); cbn; [exact IH|]. rewrite E. exact IH.
Qed.

Lemma subdict_lengths : forall p f cs n,
  (forall C, length (f C) = n) ->
  forallb (fun kv : name * list V => Nat.eqb (length (snd kv)) n) (subdict p f cs) = true.
Proof.
  unfold subdict.
  intros p f cs n Hl. induction cs as [|C0 cs IH]; cbn; [reflexivity|].
  destruct (p C0); cbn; [exact IH|]. rewrite IH, andb_true_r. apply Nat.eqb_eq. apply Hl.
Qed.

Lemma subdict_ok : forall p f cs rows,
  nodup_names (map (c_id O) cs) = true -> nmem id_name (map (c_id O) cs) = false ->
  (forall C, length (f C) = length rows) ->
  colvals_ok O rows (subdict p f cs) = true.
Proof.
  intros p f cs rows Hnd Hid Hl. unfold colvals_ok.
  rewrite subdict_nodup by exact Hnd. rewrite subdict_lengths by exact Hl. rewrite subdict_noid by exact Hid. reflexivity.
Qed.

Lemma colvals_ok_parts : forall rows cols, colvals_ok O rows cols = true ->
  nodup_names (map fst cols) = true /\
  (forall c vs, cols_get cols c = Some vs -> length vs = length rows) /\
  nmem id_name (map fst cols) = false.
Proof.
  intros rows cols H. unfold colvals_ok in H.
  apply andb_true_iff in H. destruct H as [H H3]. apply andb_true_iff in H. destruct H as [H1 H2].
  split; [exact H1|]. split; [|apply negb_true_iff; exact H3].
  clear H1 H3. induction cols as [|[c0 v0] rest IH]; intros c vs Hg; cbn in *; [discriminate|].
  apply andb_true_iff in H2. destruct H2 as [Hl H2].
  destruct (name_eqb c c0); [inversion Hg; subst; apply Nat.eqb_eq; exact Hl | eapply IH; eassumption].
Qed.

Lemma filter_all : forall (A : Type) (f : A -> bool) l, (forall x, In x l -> f x = true) -> filter f l = l.
Proof.
  intros A f l. induction l as [|x l IH]; intro H; cbn; [reflexivity|].
  rewrite (H x) by (left; reflexivity). rewrite IH; [reflexivity|]. intros y Hy. apply H. right. exact Hy.
Qed.

Lemma apply_BulkRemove_state : forall s t T rows,
  find_table O s t = Some T -> (forall r, In r rows -> In r (t_rows O T)) -> rows <> [] ->
  exists u ops, apply_doc O (BulkRemoveRecord O t rows) s =
    Ok (put_table O s t (mkTab O (t_id O T) (filter (fun r => negb (zmem r rows)) (t_rows O T))
                                (map (fun C => col_unset_many O C rows) (t_cols O T))), (u, ops)).
Proof.
  intros s t T rows Hf Hsub Hne. unfold apply_doc. rewrite Hf.
  rewrite filter_all by (intros r Hr; apply zmem_In; apply Hsub; exact Hr).
  destruct rows as [|r0 rows0]; [contradiction|]. eauto.
Qed.

Lemma undo_BulkAddRecord : forall s t rows cols, undo_ok (BulkAddRecord O t rows cols) s.
Proof.
  intros s t rows cols s' u ops H. unfold apply_doc in H.
  destruct (find_table O s t) as [T|] eqn:Ef; [|discriminate].
  destruct (colvals_ok O rows cols) eqn:Eok; cbn [negb orb] in H; [|discriminate].
  destruct rows as [|r0 rows0] eqn:Erows; [discriminate|]. rewrite <- Erows in *.
  assert (Hne : rows <> []) by (rewrite Erows; discriminate). clear Erows r0 rows0.
  destruct (none_in rows (t_rows O T)) eqn:Enone; cbn [negb] in H; [|discriminate].
  destruct (add_records O T rows cols) as [T'|] eqn:Eadd; cbn [bind] in H; [|discriminate].
  inversion H; subst s' u ops; clear H. cbn [rev app replay_doc].
  pose proof (find_table_id _ _ _ Ef) as Hid.
  destruct (colvals_ok_parts _ _ Eok) as [Hndk _].
  destruct (add_records_spec _ _ _ _ Hndk Eadd) as [Hid' [Hrows [_ Hcols]]].
  assert (Hid1 : t_id O T' = t) by congruence.
  assert (Hf1 : find_table O (put_table O s t T') t = Some T') by (eapply find_put_same; eassumption).
  destruct (apply_BulkRemove_state _ _ _ rows Hf1) as [u' [ops' Hstep]]; [|exact Hne|].
  { intros r Hr. apply Hrows. left. exact Hr. }
  rewrite Hstep. cbn [bind fst].
  eexists. split; [reflexivity|].
  eapply seq_ex_put2; try eassumption.
  pose proof (proj1 (none_in_iff _ _) Enone) as Hnone.
  split.
  - intro r. cbn [t_rows]. rewrite filter_In, Hrows, negb_true_iff, zmem_false. split.
    + intros [[Hr|Hr] Hn]; [contradiction | exact Hr].
    + intro Hr. split; [right; exact Hr|]. intro Hin. exact (Hnone r Hin Hr).
  - intro c. cbn [t_cols t_rows]. rewrite find_map_col by (intro; apply col_unset_many_id).
    specialize (Hcols c). destruct (find_col O (t_cols O T) c) as [C|] eqn:Ec.
    + destruct Hcols as [C' [Hf' [Hi' Hg']]]. rewrite Hf'. cbn. split; [rewrite col_unset_many_info; exact Hi'|].
      intros r Hr. right. apply filter_In in Hr. destruct Hr as [_ Hr]. apply negb_true_iff in Hr.
      rewrite col_get_unset_many, Hr. rewrite Hg'. unfold cell_after, add_base. rewrite Hr.
      destruct (cols_get cols (c_id O C)); [|apply (venc_refl L)].
      rewrite set_val_notin by (apply zmem_false; exact Hr). apply (venc_refl L).
    + rewrite Hcols. exact I.
Qed.


Lemma apply_BulkAdd_ok : forall s t T rows cols,
  find_table O s t = Some T -> colvals_ok O rows cols = true -> rows <> [] ->
  none_in rows (t_rows O T) = true ->
  (forall c, In c (map fst cols) -> find_col O (t_cols O T) c <> None) ->
  exists T', add_records O T rows cols = Ok T' /\
             apply_doc O (BulkAddRecord O t rows cols) s =
             Ok (put_table O s t T', ([BulkRemoveRecord O t rows], [SAddRecords O t rows])).
Proof.
  intros s t T rows cols Hf Hok Hne Hnone Hcols.
  destruct (proj2 (add_records_ok_iff T rows cols) Hcols) as [T' HT'].
  exists T'. split; [exact HT'|].
  unfold apply_doc. rewrite Hf, Hok. rewrite (match_nonnil _ _ _ true false Hne). cbn [negb orb].
  rewrite Hnone. cbn [negb]. rewrite HT'. reflexivity.
Qed.

Lemma is_all_default_spec : forall C vals,
  is_all_default O C vals = true -> forall v, In v vals -> venc O v (col_default O C) = true.
Proof.
  intros C vals H v Hv. unfold is_all_default in H. rewrite forallb_forall in H.
  apply (vstrict_enc L). apply H. exact Hv.
Qed.

Lemma col_unset_many_default : forall C rows, col_default O (col_unset_many O C rows) = col_default O C.
Proof. intros C rows. unfold col_default. rewrite col_unset_many_info. reflexivity. Qed.

Lemma undo_BulkRemoveRecord : forall s t rows, wf_state s -> undo_ok (BulkRemoveRecord O t rows) s.
Proof.
  intros s t rows Hwf s' u ops H. unfold apply_doc in H.
  destruct (find_table O s t) as [T|] eqn:Ef; [|discriminate].
  pose proof (find_table_id _ _ _ Ef) as Hid.
  destruct (Hwf _ _ Ef) as [Hnd [Hnoid Hnorm]].
  remember (filter (fun r => zmem r (t_rows O T)) rows) as rows1 eqn:Er1.
  assert (Hsub : forall r, In r rows1 -> In r (t_rows O T)).
  { intros r Hr. rewrite Er1 in Hr. apply filter_In in Hr. apply zmem_In. apply Hr. }
  clear Er1.
  destruct (list_eq_dec Z.eq_dec rows1 []) as [Hnil|Hne].
  - subst rows1. inversion H; subst s' u ops; clear H. cbn. eexists. split; [reflexivity|]. apply seq_ex_refl.
  - rewrite (match_nonnil _ _ rows1 _ _ Hne) in H.
    set (p := fun C => is_all_default O C (map (col_get O C) rows1)) in *.
    set (f := fun C => map (col_get O C) rows1) in *.
    change (flat_map _ (t_cols O T)) with (subdict p f (t_cols O T)) in H.
    set (T1 := mkTab O (t_id O T) (filter (fun r => negb (zmem r rows1)) (t_rows O T))
                     (map (fun C => col_unset_many O C rows1) (t_cols O T))) in *.
    inversion H; subst s' u ops; clear H. cbn [rev app replay_doc].
    assert (Hf1 : find_table O (put_table O s t T1) t = Some T1) by (eapply find_put_same; eassumption).
    assert (Hok : colvals_ok O rows1 (subdict p f (t_cols O T)) = true).
    { apply subdict_ok; try assumption. intro C. apply map_length. }
    destruct (apply_BulkAdd_ok _ t T1 rows1 (subdict p f (t_cols O T)) Hf1 Hok Hne) as [T2 [Hadd Hstep]].
    { apply none_in_iff. intros r Hr Hin. unfold T1 in Hin. cbn [t_rows] in Hin. apply filter_In in Hin.
      destruct Hin as [_ Hin]. apply negb_true_iff in Hin. apply zmem_false in Hin. contradiction. }
    { intros c Hc. apply subdict_keys in Hc. unfold T1. cbn [t_cols].
      intro Hn. apply find_map_col_none in Hn; [|intro; apply col_unset_many_id].
      apply find_col_none_notin in Hn. contradiction. }
    rewrite Hstep. cbn [bind fst].
    eexists. split; [reflexivity|].
    destruct (add_records_spec _ _ _ _ (subdict_nodup p f _ Hnd) Hadd) as [Hid2 [Hrows [_ Hcols]]].
    eapply seq_ex_put2; try eassumption; [unfold T1 in Hid2; cbn in Hid2; congruence|].
    split.
    + intro r. rewrite Hrows. unfold T1. cbn [t_rows]. rewrite filter_In, negb_true_iff, zmem_false.
      destruct (in_dec Z.eq_dec r rows1) as [Hin|Hnin]; [|tauto].
      pose proof (Hsub r Hin). tauto.
    + intro c. specialize (Hcols c). unfold T1 in Hcols. cbn [t_cols] in Hcols.
      rewrite find_map_col in Hcols by (intro; apply col_unset_many_id).
      destruct (find_col O (t_cols O T) c) as [C|] eqn:Ec; cbn [option_map] in Hcols; [|rewrite Hcols; exact I].
      destruct Hcols as [C' [Hf' [Hi' Hg']]]. rewrite Hf'. cbn.
      split; [rewrite Hi'; apply col_unset_many_info|].
      intros r Hr. right. apply Hrows in Hr.
      assert (HrT : In r (t_rows O T)).
      { destruct Hr as [Hr|Hr]; [apply Hsub; exact Hr|]. unfold T1 in Hr. cbn in Hr. apply filter_In in Hr. apply Hr. }
      rewrite Hg'. unfold cell_after, add_base. rewrite col_unset_many_id, col_unset_many_info.
      rewrite subdict_get by exact Hnd. rewrite (find_col_id _ _ _ Ec), Ec.
      rewrite col_get_unset_many. rewrite col_unset_many_default.
      destruct (p C) eqn:Ep.
      * destruct (zmem r rows1) eqn:Ez; [|apply (venc_refl L)].
        eapply (venc_trans L); [unfold col_default; apply (vnorm_default L)|]. apply (venc_sym L).
        apply (is_all_default_spec C _ Ep). apply in_map. apply zmem_In. exact Ez.
      * unfold f. rewrite set_val_map. destruct (zmem r rows1) eqn:Ez; [|apply (venc_refl L)].
        apply (Hnorm _ _ Ec). exact HrT.
Qed.


Lemma old_values_lengths : forall cols cs rows ov,
  old_values O cs rows cols = Ok ov ->
  forallb (fun kv : name * list V => Nat.eqb (length (snd kv)) (length rows)) ov = true.
Proof.
  induction cols as [|[c0 vals] rest IH]; intros cs rows ov H; cbn in H.
  - inversion H; subst. reflexivity.
  - destruct (find_col O cs c0) as [C0|] eqn:E0; [|discriminate].
    destruct (old_values O cs rows rest) as [tl|] eqn:E1; cbn in H; [|discriminate].
    inversion H; subst. cbn. rewrite map_length, Nat.eqb_refl. cbn. eapply IH. exact E1.
Qed.

Lemma undo_BulkUpdateRecord : forall s t rows cols, wf_state s -> undo_ok (BulkUpdateRecord O t rows cols) s.
Proof.
  intros s t rows cols Hwf s' u ops H. unfold apply_doc in H.
  destruct (find_table O s t) as [T|] eqn:Ef; [|discriminate].
  pose proof (find_table_id _ _ _ Ef) as Hid.
  destruct (Hwf _ _ Ef) as [Hnd [Hnoid Hnorm]].
  destruct (colvals_ok O rows cols) eqn:Eok; cbn [negb orb] in H; [|discriminate].
  destruct (list_eq_dec Z.eq_dec rows []) as [Hnil|Hne]; [subst rows; discriminate|].
  rewrite (match_nonnil _ _ rows _ _ Hne) in H.
  destruct (all_in rows (t_rows O T)) eqn:Eall; cbn [negb] in H; [|discriminate].
  destruct (old_values O (t_cols O T) rows cols) as [ov|] eqn:Eov; cbn [bind] in H; [|discriminate].
  destruct (set_columns O (t_cols O T) rows cols) as [cs|] eqn:Ecs; cbn [bind] in H; [|discriminate].
  inversion H; subst s' u ops; clear H. cbn [rev app replay_doc].
  destruct (colvals_ok_parts _ _ Eok) as [Hndk [_ Hnoidk]].
  destruct (old_values_spec _ _ _ _ Eov) as [Hkeys Hovget].
  destruct (set_columns_spec _ _ _ _ Hndk Ecs) as [Hids Hspec].
  set (T1 := mkTab O (t_id O T) (t_rows O T) cs).
  assert (Hf1 : find_table O (put_table O s t T1) t = Some T1) by (eapply find_put_same; eassumption).
  assert (Hok : colvals_ok O rows ov = true).
  { unfold colvals_ok. rewrite Hkeys, Hndk, Hnoidk. rewrite (old_values_lengths _ _ _ _ Eov). reflexivity. }
  destruct (apply_BulkUpdate_ok _ t T1 rows ov Hf1 Hok Hne Eall) as [cs2 [u' [Hcs2 Hstep]]].
  { intros c Hc. rewrite Hkeys in Hc. unfold T1. cbn [t_cols]. specialize (Hspec c).
    pose proof (old_values_ok_inv _ _ _ _ Eov c Hc) as Hfound.
    destruct (find_col O (t_cols O T) c); [|contradiction]. destruct Hspec as [C' [Hf' _]]. congruence. }
  rewrite Hstep. cbn [bind fst].
  eexists. split; [reflexivity|].
  assert (Hndov : nodup_names (map fst ov) = true) by (rewrite Hkeys; exact Hndk).
  destruct (set_columns_spec _ _ _ _ Hndov Hcs2) as [_ Hspec2].
  eapply seq_ex_put2; try eassumption; try reflexivity.
  split; [cbn; tauto|]. intro c. cbn [t_cols t_rows T1]. specialize (Hspec c). specialize (Hspec2 c).
  unfold T1 in Hspec2. cbn [t_cols] in Hspec2.
  destruct (find_col O (t_cols O T) c) as [C|] eqn:Ec.
  - destruct Hspec as [C1 [Hf1' [Hi1 Hg1]]]. rewrite Hf1' in Hspec2.
    destruct Hspec2 as [C2 [Hf2' [Hi2 Hg2]]]. rewrite Hf2'. cbn. split; [congruence|].
    intros r Hr. right. rewrite Hg2. unfold cell_after.
    assert (HidC1 : c_id O C1 = c) by (eapply find_col_id; exact Hf1').
    rewrite HidC1, Hovget, Ec, Hi1.
    rewrite Hg1. unfold cell_after. rewrite (find_col_id _ _ _ Ec).
    destruct (cols_get cols c) as [vals|] eqn:Eg; [|apply (venc_refl L)].
    rewrite set_val_map. destruct (zmem r rows) eqn:Ez.
    + apply (Hnorm _ _ Ec). exact Hr.
    + rewrite set_val_notin by (apply zmem_false; exact Ez). apply (venc_refl L).
  - rewrite Hspec in Hspec2. rewrite Hspec2. exact I.
Qed.


Definition clear_col (C : column) : column := mkCol O (c_id O C) (c_info O C) [].
Definition cleared (T : table) : table := mkTab O (t_id O T) [] (map clear_col (t_cols O T)).

Lemma apply_Replace_ok : forall s t T rows cols,
  find_table O s t = Some T -> colvals_ok O rows cols = true ->
  (forall c, In c (map fst cols) -> find_col O (t_cols O T) c <> None) ->
  exists T2 u ops, add_records O (cleared T) rows cols = Ok T2 /\
                   apply_doc O (ReplaceTableData O t rows cols) s = Ok (put_table O s t T2, (u, ops)).
Proof.
  intros s t T rows cols Hf Hok Hcols.
  destruct (proj2 (add_records_ok_iff (cleared T) rows cols)) as [T2 HT2].
  { intros c Hc. unfold cleared. cbn [t_cols]. intro Hn.
    apply find_map_col_none in Hn; [|intro; reflexivity]. exact (Hcols c Hc Hn). }
  exists T2. eexists. eexists. split; [exact HT2|].
  unfold apply_doc. rewrite Hf, Hok. cbn [negb].
  rewrite filter_all.
  - fold clear_col. fold (cleared T). rewrite HT2. reflexivity.
  - intros [c vs] Hin. cbn [fst]. destruct (find_col O (t_cols O T) c) eqn:E; [reflexivity|].
    exfalso. apply (Hcols c); [|exact E]. apply in_map_iff. exists (c, vs). split; [reflexivity | exact Hin].
Qed.

Lemma undo_ReplaceTableData : forall s t rows cols, wf_state s -> undo_ok (ReplaceTableData O t rows cols) s.
Proof.
  intros s t rows cols Hwf s' u ops H. unfold apply_doc in H.
  destruct (find_table O s t) as [T|] eqn:Ef; [|discriminate].
  pose proof (find_table_id _ _ _ Ef) as Hid.
  destruct (Hwf _ _ Ef) as [Hnd [Hnoid Hnorm]].
  destruct (colvals_ok O rows cols) eqn:Eok; cbn [negb] in H; [|discriminate].
  fold clear_col in H. fold (cleared T) in H.
  set (pf := fun C : column => ci_isformula (c_info O C)) in *.
  set (ff := fun C : column => map (col_get O C) (t_rows O T)) in *.
  change (flat_map _ (t_cols O T)) with (subdict pf ff (t_cols O T)) in H.
  remember (filter (fun kv : name * list V => match find_col O (t_cols O T) (fst kv) with Some _ => true | None => false end) cols) as cols1 eqn:Ecols1.
  destruct (add_records O (cleared T) rows cols1) as [T1|] eqn:Eadd; cbn [bind] in H; [|discriminate].
  inversion H; subst s' u ops; clear H. cbn [rev app replay_doc].
  assert (Hnd1 : nodup_names (map fst cols1) = true).
  { destruct (colvals_ok_parts _ _ Eok) as [Hndk _]. rewrite Ecols1. clear -Hndk.
    induction cols as [|[c0 v0] rest IH]; cbn in *; [reflexivity|].
    apply andb_true_iff in Hndk. destruct Hndk as [Hn Hndk].
    destruct (find_col O (t_cols O T) c0); cbn; [|apply IH; exact Hndk].
    rewrite (IH Hndk), andb_true_r. apply negb_true_iff. apply negb_true_iff in Hn.
    match goal with |- nmem ?a ?b = false => destruct (nmem a b) eqn:E; [|reflexivity] end.
    apply nmem_In in E. apply in_map_iff in E. destruct E as [[c1 v1] [Hc1 Hin]]. cbn in Hc1. subst c1.
    apply filter_In in Hin. destruct Hin as [Hin _].
    assert (nmem c0 (map fst rest) = true); [|congruence].
    apply nmem_In. apply in_map_iff. exists (c0, v1). split; [reflexivity | exact Hin]. }
  destruct (add_records_spec _ _ _ _ Hnd1 Eadd) as [Hid1 [Hrows1 [Hids1 Hcols1]]].
  assert (Hid1' : t_id O T1 = t) by (rewrite Hid1; exact Hid).
  assert (Hf1 : find_table O (put_table O s t T1) t = Some T1) by (eapply find_put_same; eassumption).
  assert (HidsT1 : map (c_id O) (t_cols O T1) = map (c_id O) (t_cols O T)).
  { rewrite Hids1. unfold cleared. cbn [t_cols]. rewrite map_map. reflexivity. }
  assert (Hok : colvals_ok O (t_rows O T) (subdict pf ff (t_cols O T)) = true).
  { apply subdict_ok; try assumption. intro C. apply map_length. }
  destruct (apply_Replace_ok _ t T1 (t_rows O T) (subdict pf ff (t_cols O T)) Hf1 Hok) as [T2 [u' [ops' [Hadd2 Hstep]]]].
  { intros c Hc. apply subdict_keys in Hc. intro Hn. apply find_col_none_notin in Hn. rewrite HidsT1 in Hn. contradiction. }
  rewrite Hstep. cbn [bind fst].
  eexists. split; [reflexivity|].
  destruct (add_records_spec _ _ _ _ (subdict_nodup pf ff _ Hnd) Hadd2) as [Hid2 [Hrows2 [_ Hcols2]]].
  eapply seq_ex_put2; try eassumption; [rewrite Hid2; unfold cleared; cbn; exact Hid1'|].
  split.
  - intro r. rewrite Hrows2. unfold cleared. cbn. tauto.
  - intro c. specialize (Hcols1 c). specialize (Hcols2 c). unfold cleared in Hcols1, Hcols2. cbn [t_cols] in Hcols1, Hcols2.
    rewrite find_map_col in Hcols1 by (intro; reflexivity). rewrite find_map_col in Hcols2 by (intro; reflexivity).
    destruct (find_col O (t_cols O T) c) as [C|] eqn:Ec; cbn [option_map] in Hcols1.
    + destruct Hcols1 as [C1 [Hf1' [Hi1 _]]]. rewrite Hf1' in Hcols2. cbn [option_map] in Hcols2.
      destruct Hcols2 as [C2 [Hf2' [Hi2 Hg2]]]. rewrite Hf2'. cbn.
      split; [rewrite Hi2; cbn; rewrite Hi1; reflexivity|].
      intros r Hr. apply Hrows2 in Hr. unfold cleared in Hr. cbn in Hr. destruct Hr as [Hr|[]].
      destruct (ci_isformula (c_info O C)) eqn:Eform.
      * left. cbn. split; [reflexivity|]. exists T, C. auto.
      * right. rewrite Hg2. unfold cell_after. cbn [clear_col c_id c_info].
        rewrite (find_col_id _ _ _ Hf1'). rewrite subdict_get by exact Hnd. rewrite Ec. unfold pf. rewrite Eform.
        unfold ff. rewrite set_val_map. rewrite (proj2 (zmem_In _ _) Hr).
        rewrite Hi1. cbn [clear_col c_info]. apply (Hnorm _ _ Ec). exact Hr.
    + rewrite Hcols1 in Hcols2. cbn in Hcols2. rewrite Hcols2. exact I.
Qed.

Theorem undo_inverse : forall a s, wf_state s -> undo_ok a s.
Proof.
  intros a s Hwf. destruct a.
  - apply undo_BulkAddRecord.
  - apply undo_BulkRemoveRecord; exact Hwf.
  - apply undo_BulkUpdateRecord; exact Hwf.
  - apply undo_ReplaceTableData; exact Hwf.
  - apply undo_AddColumn.
  - apply undo_RemoveColumn; exact Hwf.
  - apply undo_RenameColumn; exact Hwf.
  - apply undo_ModifyColumn; exact Hwf.
  - apply undo_AddTable.
  - apply undo_RemoveTable; exact Hwf.
  - apply undo_RenameTable.
Qed.


(* ------------------------------------------------------------------------------------------------ *)
(* the same doc action on equivalent documents: succeeds on both or neither, and the results are equivalent.
   The exception set follows the cells through renames. *)

Definition img (a : action) (X : cellset) : cellset :=
  match a with
  | RenameColumn _ t old new =>
      fun t' c' r => (t' = t /\ c' = new /\ X t old r) \/ (~ (t' = t /\ c' = new) /\ X t' c' r)
  | RenameTable _ old new =>
      fun t' c' r => (t' = new /\ X old c' r) \/ (t' <> new /\ X t' c' r)
  | _ => X
  end.

Lemma seq_ex_find : forall X s1 s2 t T1, seq_ex X s1 s2 -> find_table O s1 t = Some T1 ->
  exists T2, find_table O s2 t = Some T2 /\ tab_rel X t T1 T2.
Proof.
  intros X s1 s2 t T1 H Hf. specialize (H t). rewrite Hf in H.
  destruct (find_table O s2 t) as [T2|]; cbn in H; [eauto | contradiction].
Qed.

Lemma seq_ex_find_none : forall X s1 s2 t, seq_ex X s1 s2 -> find_table O s1 t = None -> find_table O s2 t = None.
Proof.
  intros X s1 s2 t H Hf. specialize (H t). rewrite Hf in H.
  destruct (find_table O s2 t); cbn in H; [contradiction | reflexivity].
Qed.

Lemma tab_rel_find_col : forall X t T1 T2 c C1, tab_rel X t T1 T2 -> find_col O (t_cols O T1) c = Some C1 ->
  exists C2, find_col O (t_cols O T2) c = Some C2 /\ c_info O C1 = c_info O C2 /\
             forall r, In r (t_rows O T1) -> X t c r \/ venc O (col_get O C1 r) (col_get O C2 r) = true.
Proof.
  intros X t T1 T2 c C1 [_ H] Hf. specialize (H c). rewrite Hf in H.
  destruct (find_col O (t_cols O T2) c) as [C2|]; cbn in H; [|contradiction].
  exists C2. destruct H. auto.
Qed.

Lemma tab_rel_find_col_none : forall X t T1 T2 c, tab_rel X t T1 T2 ->
  (find_col O (t_cols O T1) c = None <-> find_col O (t_cols O T2) c = None).
Proof.
  intros X t T1 T2 c [_ H]. specialize (H c).
  destruct (find_col O (t_cols O T1) c), (find_col O (t_cols O T2) c); cbn in H; split; intro; try congruence; contradiction.
Qed.

Lemma tab_rel_has_column : forall X t T1 T2 c, tab_rel X t T1 T2 -> has_column O T1 c = has_column O T2 c.
Proof.
  intros X t T1 T2 c H. unfold has_column. pose proof (tab_rel_find_col_none X t T1 T2 c H) as Hn.
  destruct (find_col O (t_cols O T1) c), (find_col O (t_cols O T2) c); try reflexivity.
  - discriminate (proj2 Hn eq_refl).
  - discriminate (proj1 Hn eq_refl).
Qed.

Lemma tab_rel_zmem : forall X t T1 T2 r, tab_rel X t T1 T2 -> zmem r (t_rows O T1) = zmem r (t_rows O T2).
Proof.
  intros X t T1 T2 r [H _]. specialize (H r).
  destruct (zmem r (t_rows O T1)) eqn:E1, (zmem r (t_rows O T2)) eqn:E2; try reflexivity.
  - apply zmem_In in E1. apply H in E1. apply zmem_In in E1. congruence.
  - apply zmem_In in E2. apply H in E2. apply zmem_In in E2. congruence.
Qed.

Lemma seq_ex_put_both : forall X s1 s2 t T1 T1' T2',
  seq_ex X s1 s2 -> find_table O s1 t = Some T1 -> t_id O T1' = t -> t_id O T2' = t ->
  tab_rel X t T1' T2' -> seq_ex X (put_table O s1 t T1') (put_table O s2 t T2').
Proof.
  intros X s1 s2 t T1 T1' T2' H Hf H1 H2 Hr t0. rewrite !find_put_table by assumption.
  name_cases t0 t.
  - subst t0. destruct (seq_ex_find _ _ _ _ _ H Hf) as [T2 [Hf2 _]]. rewrite Hf, Hf2. exact Hr.
  - apply H.
Qed.

Lemma keys_found_rel : forall X t T1 T2 (cols : colvals O), tab_rel X t T1 T2 ->
  (forall c, In c (map fst cols) -> find_col O (t_cols O T1) c <> None) ->
  (forall c, In c (map fst cols) -> find_col O (t_cols O T2) c <> None).
Proof.
  intros X t T1 T2 cols Hr H c Hc Hn. apply (H c Hc). apply (tab_rel_find_col_none _ _ _ _ c Hr). exact Hn.
Qed.

Lemma cong_BulkAddRecord : forall X s1 s2 t rows cols s1' o1,
  seq_ex X s1 s2 -> apply_doc O (BulkAddRecord O t rows cols) s1 = Ok (s1', o1) ->
  exists s2' o2, apply_doc O (BulkAddRecord O t rows cols) s2 = Ok (s2', o2) /\ seq_ex X s1' s2'.
Proof.
  intros X s1 s2 t rows cols s1' o1 Hs H. unfold apply_doc in H.
  destruct (find_table O s1 t) as [T1|] eqn:Ef; [|discriminate].
  destruct (seq_ex_find _ _ _ _ _ Hs Ef) as [T2 [Ef2 Hrel]].
  destruct (colvals_ok O rows cols) eqn:Eok; cbn [negb orb] in H; [|discriminate].
  destruct (list_eq_dec Z.eq_dec rows []) as [Hnil|Hne]; [subst rows; discriminate|].
  rewrite (match_nonnil _ _ rows _ _ Hne) in H.
  destruct (none_in rows (t_rows O T1)) eqn:Enone; cbn [negb] in H; [|discriminate].
  destruct (add_records O T1 rows cols) as [T1'|] eqn:Eadd; cbn [bind] in H; [|discriminate].
  inversion H; subst s1' o1; clear H.
  destruct (colvals_ok_parts _ _ Eok) as [Hndk _].
  assert (Hnone2 : none_in rows (t_rows O T2) = true).
  { apply none_in_iff. intros r Hr Hin. apply (proj1 (none_in_iff _ _) Enone r Hr). apply (proj1 Hrel). exact Hin. }
  destruct (apply_BulkAdd_ok _ t T2 rows cols Ef2 Eok Hne Hnone2) as [T2' [Eadd2 Hstep]].
  { eapply keys_found_rel; [exact Hrel|]. exact (proj1 (add_records_ok_iff T1 rows cols) (ex_intro _ T1' Eadd)). }
  eexists. eexists. split; [exact Hstep|].
  destruct (add_records_spec _ _ _ _ Hndk Eadd) as [Hid1 [Hrows1 [_ Hc1]]].
  destruct (add_records_spec _ _ _ _ Hndk Eadd2) as [Hid2 [Hrows2 [_ Hc2]]].
  pose proof (find_table_id _ _ _ Ef). pose proof (find_table_id _ _ _ Ef2).
  eapply seq_ex_put_both; try eassumption; try congruence.
  split.
  - intro r. rewrite Hrows1, Hrows2. rewrite (proj1 Hrel r). tauto.
  - intro c. specialize (Hc1 c). specialize (Hc2 c).
    destruct (find_col O (t_cols O T1) c) as [C1|] eqn:Ec1.
    + destruct (tab_rel_find_col _ _ _ _ _ _ Hrel Ec1) as [C2 [Ec2 [Hinfo Hcells]]]. rewrite Ec2 in Hc2.
      destruct Hc1 as [C1' [Hf1' [Hi1 Hg1]]]. destruct Hc2 as [C2' [Hf2' [Hi2 Hg2]]].
      rewrite Hf1', Hf2'. cbn. split; [congruence|].
      intros r Hr. rewrite Hg1, Hg2. unfold cell_after, add_base, col_default.
      rewrite (find_col_id _ _ _ Ec1), (find_col_id _ _ _ Ec2). rewrite <- Hinfo.
      destruct (cols_get cols c) as [vals|].
      * destruct (set_val rows vals r); [right; apply (venc_refl L)|].
        destruct (zmem r rows) eqn:Ez; [right; apply (venc_refl L)|].
        apply Hcells. apply Hrows1 in Hr. destruct Hr as [Hr|Hr]; [|exact Hr].
        apply zmem_In in Hr. congruence.
      * destruct (zmem r rows) eqn:Ez; [right; apply (venc_refl L)|].
        apply Hcells. apply Hrows1 in Hr. destruct Hr as [Hr|Hr]; [|exact Hr].
        apply zmem_In in Hr. congruence.
    + apply (tab_rel_find_col_none _ _ _ _ c Hrel) in Ec1 as Ec2. rewrite Ec2 in Hc2. rewrite Hc1, Hc2. exact I.
Qed.


Lemma filter_ext_eq : forall (A : Type) (f g : A -> bool) l, (forall x, f x = g x) -> filter f l = filter g l.
Proof. intros A f g l H. induction l as [|x l IH]; cbn; [reflexivity|]. rewrite H, IH. reflexivity. Qed.

Lemma cong_BulkRemoveRecord : forall X s1 s2 t rows s1' o1,
  seq_ex X s1 s2 -> apply_doc O (BulkRemoveRecord O t rows) s1 = Ok (s1', o1) ->
  exists s2' o2, apply_doc O (BulkRemoveRecord O t rows) s2 = Ok (s2', o2) /\ seq_ex X s1' s2'.
Proof.
  intros X s1 s2 t rows s1' o1 Hs H. unfold apply_doc in H.
  destruct (find_table O s1 t) as [T1|] eqn:Ef; [|discriminate].
  destruct (seq_ex_find _ _ _ _ _ Hs Ef) as [T2 [Ef2 Hrel]].
  pose proof (find_table_id _ _ _ Ef) as Hid1. pose proof (find_table_id _ _ _ Ef2) as Hid2.
  assert (Hfil : filter (fun r => zmem r (t_rows O T1)) rows = filter (fun r => zmem r (t_rows O T2)) rows).
  { apply filter_ext_eq. intro r. eapply tab_rel_zmem. exact Hrel. }
  remember (filter (fun r => zmem r (t_rows O T1)) rows) as rows1 eqn:Er1.
  destruct (list_eq_dec Z.eq_dec rows1 []) as [Hnil|Hne].
  - subst rows1. rewrite Hnil in H. inversion H; subst s1' o1; clear H.
    exists s2. eexists. split; [|exact Hs]. unfold apply_doc. rewrite Ef2, <- Hfil, Hnil. reflexivity.
  - rewrite (match_nonnil _ _ rows1 _ _ Hne) in H. inversion H; subst s1' o1; clear H.
    eexists. eexists. split.
    + unfold apply_doc. rewrite Ef2, <- Hfil. rewrite (match_nonnil _ _ rows1 _ _ Hne). reflexivity.
    + eapply seq_ex_put_both; try eassumption.
      split.
      * intro r. cbn [t_rows]. rewrite !filter_In. rewrite (proj1 Hrel r). tauto.
      * intro c. cbn [t_cols t_rows]. rewrite !find_map_col by (intro; apply col_unset_many_id).
        destruct (find_col O (t_cols O T1) c) as [C1|] eqn:Ec1.
        -- destruct (tab_rel_find_col _ _ _ _ _ _ Hrel Ec1) as [C2 [Ec2 [Hinfo Hcells]]]. rewrite Ec2. cbn.
           split; [rewrite !col_unset_many_info; exact Hinfo|].
           intros r Hr. apply filter_In in Hr. destruct Hr as [Hr Hz]. apply negb_true_iff in Hz.
           rewrite !col_get_unset_many, Hz. apply Hcells. exact Hr.
        -- apply (tab_rel_find_col_none _ _ _ _ c Hrel) in Ec1 as Ec2. rewrite Ec2. exact I.
Qed.

Lemma cong_BulkUpdateRecord : forall X s1 s2 t rows cols s1' o1,
  seq_ex X s1 s2 -> apply_doc O (BulkUpdateRecord O t rows cols) s1 = Ok (s1', o1) ->
  exists s2' o2, apply_doc O (BulkUpdateRecord O t rows cols) s2 = Ok (s2', o2) /\ seq_ex X s1' s2'.
Proof.
  intros X s1 s2 t rows cols s1' o1 Hs H. unfold apply_doc in H.
  destruct (find_table O s1 t) as [T1|] eqn:Ef; [|discriminate].
  destruct (seq_ex_find _ _ _ _ _ Hs Ef) as [T2 [Ef2 Hrel]].
  pose proof (find_table_id _ _ _ Ef) as Hid1. pose proof (find_table_id _ _ _ Ef2) as Hid2.
  destruct (colvals_ok O rows cols) eqn:Eok; cbn [negb orb] in H; [|discriminate].
  destruct (list_eq_dec Z.eq_dec rows []) as [Hnil|Hne]; [subst rows; discriminate|].
  rewrite (match_nonnil _ _ rows _ _ Hne) in H.
  destruct (all_in rows (t_rows O T1)) eqn:Eall; cbn [negb] in H; [|discriminate].
  destruct (old_values O (t_cols O T1) rows cols) as [ov|] eqn:Eov; cbn [bind] in H; [|discriminate].
  destruct (set_columns O (t_cols O T1) rows cols) as [cs1|] eqn:Ecs; cbn [bind] in H; [|discriminate].
  inversion H; subst s1' o1; clear H.
  destruct (colvals_ok_parts _ _ Eok) as [Hndk _].
  assert (Hall2 : all_in rows (t_rows O T2) = true).
  { apply all_in_iff. intros r Hr. apply (proj1 Hrel). apply (proj1 (all_in_iff _ _) Eall). exact Hr. }
  destruct (apply_BulkUpdate_ok _ t T2 rows cols Ef2 Eok Hne Hall2) as [cs2 [u2 [Ecs2 Hstep]]].
  { eapply keys_found_rel; [exact Hrel|]. eapply old_values_ok_inv. exact Eov. }
  eexists. eexists. split; [exact Hstep|].
  destruct (set_columns_spec _ _ _ _ Hndk Ecs) as [_ Hc1].
  destruct (set_columns_spec _ _ _ _ Hndk Ecs2) as [_ Hc2].
  eapply seq_ex_put_both; try eassumption.
  split; [intro r; cbn; apply (proj1 Hrel)|].
  intro c. cbn [t_cols t_rows]. specialize (Hc1 c). specialize (Hc2 c).
  destruct (find_col O (t_cols O T1) c) as [C1|] eqn:Ec1.
  - destruct (tab_rel_find_col _ _ _ _ _ _ Hrel Ec1) as [C2 [Ec2 [Hinfo Hcells]]]. rewrite Ec2 in Hc2.
    destruct Hc1 as [C1' [Hf1' [Hi1 Hg1]]]. destruct Hc2 as [C2' [Hf2' [Hi2 Hg2]]].
    rewrite Hf1', Hf2'. cbn. split; [congruence|].
    intros r Hr. rewrite Hg1, Hg2. unfold cell_after.
    rewrite (find_col_id _ _ _ Ec1), (find_col_id _ _ _ Ec2). rewrite <- Hinfo.
    destruct (cols_get cols c) as [vals|]; [|apply Hcells; exact Hr].
    destruct (set_val rows vals r); [right; apply (venc_refl L) | apply Hcells; exact Hr].
  - apply (tab_rel_find_col_none _ _ _ _ c Hrel) in Ec1 as Ec2. rewrite Ec2 in Hc2. rewrite Hc1, Hc2. exact I.
Qed.

Lemma cong_ReplaceTableData : forall X s1 s2 t rows cols s1' o1,
  seq_ex X s1 s2 -> apply_doc O (ReplaceTableData O t rows cols) s1 = Ok (s1', o1) ->
  exists s2' o2, apply_doc O (ReplaceTableData O t rows cols) s2 = Ok (s2', o2) /\ seq_ex X s1' s2'.
Proof.
  intros X s1 s2 t rows cols s1' o1 Hs H. unfold apply_doc in H.
  destruct (find_table O s1 t) as [T1|] eqn:Ef; [|discriminate].
  destruct (seq_ex_find _ _ _ _ _ Hs Ef) as [T2 [Ef2 Hrel]].
  pose proof (find_table_id _ _ _ Ef) as Hid1. pose proof (find_table_id _ _ _ Ef2) as Hid2.
  destruct (colvals_ok O rows cols) eqn:Eok; cbn [negb] in H; [|discriminate].
  fold clear_col in H. fold (cleared T1) in H.
  assert (Hfil : filter (fun kv : name * list V => match find_col O (t_cols O T1) (fst kv) with Some _ => true | None => false end) cols =
                 filter (fun kv : name * list V => match find_col O (t_cols O T2) (fst kv) with Some _ => true | None => false end) cols).
  { apply filter_ext_eq. intros [c vs]. cbn [fst]. pose proof (tab_rel_find_col_none _ _ _ _ c Hrel) as Hn.
    destruct (find_col O (t_cols O T1) c), (find_col O (t_cols O T2) c); try reflexivity.
    - discriminate (proj2 Hn eq_refl).
    - discriminate (proj1 Hn eq_refl). }
  remember (filter (fun kv : name * list V => match find_col O (t_cols O T1) (fst kv) with Some _ => true | None => false end) cols) as cols1 eqn:Ecols1.
  destruct (add_records O (cleared T1) rows cols1) as [T1'|] eqn:Eadd; cbn [bind] in H; [|discriminate].
  inversion H; subst s1' o1; clear H.
  assert (Hnd1 : nodup_names (map fst cols1) = true).
  { destruct (colvals_ok_parts _ _ Eok) as [Hndk _]. rewrite Ecols1. clear -Hndk.
    induction cols as [|[c0 v0] rest IH]; cbn in *; [reflexivity|].
    apply andb_true_iff in Hndk. destruct Hndk as [Hn Hndk].
    destruct (find_col O (t_cols O T1) c0); cbn; [|apply IH; exact Hndk].
    rewrite (IH Hndk), andb_true_r. apply negb_true_iff. apply negb_true_iff in Hn.
    match goal with |- nmem ?a ?b = false => destruct (nmem a b) eqn:E; [|reflexivity] end.
    apply nmem_In in E. apply in_map_iff in E. destruct E as [[c1 v1] [Hc1 Hin]]. cbn in Hc1. subst c1.
    apply filter_In in Hin. destruct Hin as [Hin _].
    assert (nmem c0 (map fst rest) = true); [|congruence].
    apply nmem_In. apply in_map_iff. exists (c0, v1). split; [reflexivity | exact Hin]. }
  destruct (proj2 (add_records_ok_iff (cleared T2) rows cols1)) as [T2' Eadd2].
  { intros c Hc Hn. unfold cleared in Hn. cbn [t_cols] in Hn. apply find_map_col_none in Hn; [|intro; reflexivity].
    apply (tab_rel_find_col_none _ _ _ _ c Hrel) in Hn.
    pose proof (proj1 (add_records_ok_iff (cleared T1) rows cols1) (ex_intro _ T1' Eadd) c Hc) as Hf.
    apply Hf. unfold cleared. cbn [t_cols]. apply find_map_col_none; [intro; reflexivity | exact Hn]. }
  eexists. eexists. split.
  { unfold apply_doc. rewrite Ef2, Eok. cbn [negb]. rewrite <- Hfil. fold clear_col. fold (cleared T2). rewrite Eadd2. reflexivity. }
  destruct (add_records_spec _ _ _ _ Hnd1 Eadd) as [Hi1 [Hrows1 [_ Hc1]]].
  destruct (add_records_spec _ _ _ _ Hnd1 Eadd2) as [Hi2 [Hrows2 [_ Hc2]]].
  eapply seq_ex_put_both; try eassumption; try (unfold cleared in *; cbn in *; congruence).
  split.
  - intro r. rewrite Hrows1, Hrows2. unfold cleared. cbn. tauto.
  - intro c. specialize (Hc1 c). specialize (Hc2 c). unfold cleared in Hc1, Hc2. cbn [t_cols] in Hc1, Hc2.
    rewrite find_map_col in Hc1 by (intro; reflexivity). rewrite find_map_col in Hc2 by (intro; reflexivity).
    destruct (find_col O (t_cols O T1) c) as [C1|] eqn:Ec1; cbn [option_map] in Hc1.
    + destruct (tab_rel_find_col _ _ _ _ _ _ Hrel Ec1) as [C2 [Ec2 [Hinfo _]]]. rewrite Ec2 in Hc2. cbn [option_map] in Hc2.
      destruct Hc1 as [C1' [Hf1' [Hi1' Hg1]]]. destruct Hc2 as [C2' [Hf2' [Hi2' Hg2]]].
      rewrite Hf1', Hf2'. cbn. split; [rewrite Hi1', Hi2'; cbn; exact Hinfo|].
      intros r Hr. right. rewrite Hg1, Hg2. unfold cell_after, add_base, col_get. cbn [clear_col c_id c_info c_data cget].
      unfold col_default. cbn [clear_col c_info].
      rewrite (find_col_id _ _ _ Ec1), (find_col_id _ _ _ Ec2). rewrite <- Hinfo. apply (venc_refl L).
    + apply (tab_rel_find_col_none _ _ _ _ c Hrel) in Ec1 as Ec2. rewrite Ec2 in Hc2. cbn in Hc1, Hc2. rewrite Hc1, Hc2. exact I.
Qed.


Lemma cong_AddColumn : forall X s1 s2 t c info s1' o1,
  seq_ex X s1 s2 -> apply_doc O (AddColumn O t c info) s1 = Ok (s1', o1) ->
  exists s2' o2, apply_doc O (AddColumn O t c info) s2 = Ok (s2', o2) /\ seq_ex X s1' s2'.
Proof.
  intros X s1 s2 t c info s1' o1 Hs H. unfold apply_doc in H.
  destruct (find_table O s1 t) as [T1|] eqn:Ef; [|discriminate].
  destruct (seq_ex_find _ _ _ _ _ Hs Ef) as [T2 [Ef2 Hrel]].
  pose proof (find_table_id _ _ _ Ef) as Hid1. pose proof (find_table_id _ _ _ Ef2) as Hid2.
  destruct (has_column O T1 c) eqn:Eh; [discriminate|]. inversion H; subst s1' o1; clear H.
  eexists. eexists. split.
  { unfold apply_doc. rewrite Ef2. rewrite <- (tab_rel_has_column _ _ _ _ c Hrel), Eh. reflexivity. }
  eapply seq_ex_put_both; try eassumption.
  split; [intro r; cbn; apply (proj1 Hrel)|].
  intro c0. cbn [t_cols t_rows]. rewrite !find_app_col. cbn [c_id].
  destruct (find_col O (t_cols O T1) c0) as [C1|] eqn:Ec1.
  - destruct (tab_rel_find_col _ _ _ _ _ _ Hrel Ec1) as [C2 [Ec2 [Hinfo Hcells]]]. rewrite Ec2. cbn. auto.
  - apply (tab_rel_find_col_none _ _ _ _ c0 Hrel) in Ec1 as Ec2. rewrite Ec2.
    destruct (name_eqb c0 c); cbn; [|exact I]. split; [reflexivity|]. intros r _. right. apply (venc_refl L).
Qed.

Lemma cong_RemoveColumn : forall X s1 s2 t c s1' o1,
  seq_ex X s1 s2 -> apply_doc O (RemoveColumn O t c) s1 = Ok (s1', o1) ->
  exists s2' o2, apply_doc O (RemoveColumn O t c) s2 = Ok (s2', o2) /\ seq_ex X s1' s2'.
Proof.
  intros X s1 s2 t c s1' o1 Hs H.
  assert (Hex : exists T1 C1, find_table O s1 t = Some T1 /\ find_col O (t_cols O T1) c = Some C1).
  { unfold apply_doc in H. destruct (find_table O s1 t) as [T1|]; [|discriminate].
    destruct (find_col O (t_cols O T1) c) as [C1|] eqn:Ec; [|discriminate]. eauto. }
  destruct Hex as [T1 [C1 [Ef Ec1]]].
  destruct (seq_ex_find _ _ _ _ _ Hs Ef) as [T2 [Ef2 Hrel]].
  destruct (tab_rel_find_col _ _ _ _ _ _ Hrel Ec1) as [C2 [Ec2 _]].
  pose proof (find_table_id _ _ _ Ef) as Hid1. pose proof (find_table_id _ _ _ Ef2) as Hid2.
  destruct (apply_RemoveColumn_state _ _ _ _ _ Ef Ec1) as [u1 [ops1 H1]].
  destruct (apply_RemoveColumn_state _ _ _ _ _ Ef2 Ec2) as [u2 [ops2 H2]].
  rewrite H1 in H. inversion H; subst s1' o1; clear H.
  eexists. eexists. split; [exact H2|].
  eapply seq_ex_put_both; try eassumption.
  split; [intro r; cbn; apply (proj1 Hrel)|].
  intro c0. cbn [t_cols t_rows]. rewrite !find_drop_col. destruct (name_eqb c0 c); [exact I | apply (proj2 Hrel)].
Qed.

Lemma cong_RenameColumn : forall X s1 s2 t old new s1' o1,
  seq_ex X s1 s2 -> apply_doc O (RenameColumn O t old new) s1 = Ok (s1', o1) ->
  exists s2' o2, apply_doc O (RenameColumn O t old new) s2 = Ok (s2', o2) /\
                 seq_ex (img (RenameColumn O t old new) X) s1' s2'.
Proof.
  intros X s1 s2 t old new s1' o1 Hs H. unfold apply_doc in H.
  destruct (find_table O s1 t) as [T1|] eqn:Ef; [|discriminate].
  destruct (seq_ex_find _ _ _ _ _ Hs Ef) as [T2 [Ef2 Hrel]].
  pose proof (find_table_id _ _ _ Ef) as Hid1. pose proof (find_table_id _ _ _ Ef2) as Hid2.
  destruct (find_col O (t_cols O T1) old) as [C1|] eqn:Ec1; [|discriminate].
  destruct (tab_rel_find_col _ _ _ _ _ _ Hrel Ec1) as [C2 [Ec2 [Hinfo Hcells]]].
  destruct (has_column O T1 new) eqn:Eh; [discriminate|]. inversion H; subst s1' o1; clear H.
  eexists. eexists. split.
  { unfold apply_doc. rewrite Ef2, Ec2. rewrite <- (tab_rel_has_column _ _ _ _ new Hrel), Eh. reflexivity. }
  apply has_column_false in Eh. destruct Eh as [_ Hnew].
  assert (Hne : old <> new) by (intro; subst; congruence).
  intro t0. rewrite !find_put_table by assumption. name_cases t0 t.
  - subst t0. rewrite Ef, Ef2. cbn [otab_rel]. split; [intro r; cbn; apply (proj1 Hrel)|].
    intro c0. cbn [t_cols t_rows]. rewrite !find_app_col, !find_drop_col. cbn [c_id].
    name_cases c0 old.
    + subst c0. assert (name_eqb old new = false) as -> by (apply name_eqb_neq; exact Hne). exact I.
    + destruct (find_col O (t_cols O T1) c0) as [D1|] eqn:Ed1.
      * destruct (tab_rel_find_col _ _ _ _ _ _ Hrel Ed1) as [D2 [Ed2 [Hinfo' Hcells']]]. rewrite Ed2. cbn.
        split; [exact Hinfo'|]. intros r Hr. destruct (Hcells' r Hr) as [Hx|Hx]; [|right; exact Hx].
        left. right. split; [|exact Hx]. intros [_ Hc]. subst c0. congruence.
      * apply (tab_rel_find_col_none _ _ _ _ c0 Hrel) in Ed1 as Ed2. rewrite Ed2.
        name_cases c0 new; [|exact I]. subst c0. cbn. split; [exact Hinfo|].
        intros r Hr. unfold col_get, col_default in *. cbn [c_data c_info].
        destruct (Hcells r Hr) as [Hx|Hx]; [left; left; auto | right; rewrite <- Hinfo; rewrite <- Hinfo in Hx; exact Hx].
  - specialize (Hs t0). destruct (find_table O s1 t0), (find_table O s2 t0); cbn in *; try tauto.
    eapply tab_rel_weaken; [|exact Hs]. intros c r Hx. right. split; [|exact Hx]. intros [Ht _]. contradiction.
Qed.


Lemma cong_ModifyColumn : forall X s1 s2 t c m s1' o1,
  seq_ex X s1 s2 -> apply_doc O (ModifyColumn O t c m) s1 = Ok (s1', o1) ->
  exists s2' o2, apply_doc O (ModifyColumn O t c m) s2 = Ok (s2', o2) /\ seq_ex X s1' s2'.
Proof.
  intros X s1 s2 t c m s1' o1 Hs H. unfold apply_doc in H.
  destruct (find_table O s1 t) as [T1|] eqn:Ef; [|discriminate].
  destruct (seq_ex_find _ _ _ _ _ Hs Ef) as [T2 [Ef2 Hrel]].
  pose proof (find_table_id _ _ _ Ef) as Hid1. pose proof (find_table_id _ _ _ Ef2) as Hid2.
  destruct (find_col O (t_cols O T1) c) as [C1|] eqn:Ec1; [|discriminate].
  destruct (tab_rel_find_col _ _ _ _ _ _ Hrel Ec1) as [C2 [Ec2 [Hinfo Hcells]]].
  destruct (colinfo_eqb (apply_modinfo m (c_info O C1)) (c_info O C1)) eqn:Eeq.
  - inversion H; subst s1' o1; clear H. exists s2. eexists. split; [|exact Hs].
    unfold apply_doc. rewrite Ef2, Ec2, <- Hinfo, Eeq. reflexivity.
  - inversion H; subst s1' o1; clear H. eexists. eexists. split.
    { unfold apply_doc. rewrite Ef2, Ec2, <- Hinfo, Eeq. reflexivity. }
    eapply seq_ex_put_both; try eassumption.
    split; [intro r; cbn; apply (proj1 Hrel)|].
    intro c0. cbn [t_cols t_rows]. rewrite !find_app_col, !find_drop_col. rewrite !col_set_many_id. cbn [c_id].
    name_cases c0 c.
    + subst c0. cbn. split; [rewrite !col_set_many_info; reflexivity|].
      intros r Hr. rewrite !col_get_set_many, !set_val_map. cbn [c_info].
      rewrite <- (tab_rel_zmem _ _ _ _ r Hrel). rewrite (proj2 (zmem_In _ _) Hr).
      destruct (Hcells r Hr) as [Hx|Hx]; [left; exact Hx | right; apply (vnorm_enc L); exact Hx].
    + destruct (find_col O (t_cols O T1) c0) as [D1|] eqn:Ed1.
      * destruct (tab_rel_find_col _ _ _ _ _ _ Hrel Ed1) as [D2 [Ed2 [Hinfo' Hcells']]]. rewrite Ed2. cbn. auto.
      * apply (tab_rel_find_col_none _ _ _ _ c0 Hrel) in Ed1 as Ed2. rewrite Ed2. exact I.
Qed.

Lemma cong_AddTable : forall X s1 s2 t cols s1' o1,
  seq_ex X s1 s2 -> apply_doc O (AddTable O t cols) s1 = Ok (s1', o1) ->
  exists s2' o2, apply_doc O (AddTable O t cols) s2 = Ok (s2', o2) /\ seq_ex X s1' s2'.
Proof.
  intros X s1 s2 t cols s1' o1 Hs H. unfold apply_doc in H.
  destruct (find_table O s1 t) eqn:Ef; [discriminate|].
  pose proof (seq_ex_find_none _ _ _ _ Hs Ef) as Ef2.
  destruct (negb (nodup_names (map fst cols)) || nmem id_name (map fst cols)) eqn:Ed; [discriminate|].
  inversion H; subst s1' o1; clear H. eexists. eexists. split.
  { unfold apply_doc. rewrite Ef2, Ed. reflexivity. }
  intro t0. rewrite !find_app_table. cbn [t_id]. specialize (Hs t0).
  destruct (find_table O s1 t0), (find_table O s2 t0); cbn in *; try tauto.
  destruct (name_eqb t0 t); cbn; [apply tab_rel_refl | exact I].
Qed.

Lemma cong_RemoveTable : forall X s1 s2 t s1' o1,
  seq_ex X s1 s2 -> apply_doc O (RemoveTable O t) s1 = Ok (s1', o1) ->
  exists s2' o2, apply_doc O (RemoveTable O t) s2 = Ok (s2', o2) /\ seq_ex X s1' s2'.
Proof.
  intros X s1 s2 t s1' o1 Hs H. unfold apply_doc in H.
  destruct (find_table O s1 t) as [T1|] eqn:Ef; [|discriminate].
  destruct (seq_ex_find _ _ _ _ _ Hs Ef) as [T2 [Ef2 Hrel]].
  assert (s1' = drop_table O s1 t) by (destruct (t_rows O T1); inversion H; reflexivity). subst s1'.
  assert (Hex : exists o2, apply_doc O (RemoveTable O t) s2 = Ok (drop_table O s2 t, o2)).
  { unfold apply_doc. rewrite Ef2. destruct (t_rows O T2); eexists; reflexivity. }
  destruct Hex as [o2 Ho2]. exists (drop_table O s2 t), o2. split; [exact Ho2|].
  intro t0. rewrite !find_drop_table. destruct (name_eqb t0 t); [exact I | apply Hs].
Qed.

Lemma cong_RenameTable : forall X s1 s2 old new s1' o1,
  seq_ex X s1 s2 -> apply_doc O (RenameTable O old new) s1 = Ok (s1', o1) ->
  exists s2' o2, apply_doc O (RenameTable O old new) s2 = Ok (s2', o2) /\
                 seq_ex (img (RenameTable O old new) X) s1' s2'.
Proof.
  intros X s1 s2 old new s1' o1 Hs H. unfold apply_doc in H.
  destruct (find_table O s1 old) as [T1|] eqn:Ef; [|discriminate].
  destruct (seq_ex_find _ _ _ _ _ Hs Ef) as [T2 [Ef2 Hrel]].
  destruct (find_table O s1 new) eqn:En; [discriminate|].
  pose proof (seq_ex_find_none _ _ _ _ Hs En) as En2.
  inversion H; subst s1' o1; clear H. eexists. eexists. split.
  { unfold apply_doc. rewrite Ef2, En2. reflexivity. }
  assert (Hne : old <> new) by (intro; subst; congruence).
  intro t0. rewrite !find_app_table, !find_drop_table. cbn [t_id].
  name_cases t0 old.
  - subst t0. assert (name_eqb old new = false) as -> by (apply name_eqb_neq; exact Hne). exact I.
  - specialize (Hs t0). destruct (find_table O s1 t0) as [U1|] eqn:Eu1, (find_table O s2 t0) as [U2|] eqn:Eu2; cbn in Hs; try tauto.
    + cbn. eapply tab_rel_weaken; [|exact Hs]. intros c r Hx. right. split; [|exact Hx]. intro; subst; congruence.
    + name_cases t0 new; [|exact I]. subst t0. cbn.
      destruct Hrel as [Hrows Hcols]. split; [exact Hrows|]. intro c. cbn [t_cols t_rows].
      specialize (Hcols c). destruct (find_col O (t_cols O T1) c), (find_col O (t_cols O T2) c); cbn in *; try tauto.
      destruct Hcols as [Hi Hc]. split; [exact Hi|]. intros r Hr. destruct (Hc r Hr); [left; left; auto | right; assumption].
Qed.

Theorem apply_doc_cong : forall a X s1 s2 s1' o1,
  seq_ex X s1 s2 -> apply_doc O a s1 = Ok (s1', o1) ->
  exists s2' o2, apply_doc O a s2 = Ok (s2', o2) /\ seq_ex (img a X) s1' s2'.
Proof.
  intros a X s1 s2 s1' o1 Hs H. destruct a; cbn [img].
  - eapply cong_BulkAddRecord; eassumption.
  - eapply cong_BulkRemoveRecord; eassumption.
  - eapply cong_BulkUpdateRecord; eassumption.
  - eapply cong_ReplaceTableData; eassumption.
  - eapply cong_AddColumn; eassumption.
  - eapply cong_RemoveColumn; eassumption.
  - eapply cong_RenameColumn; eassumption.
  - eapply cong_ModifyColumn; eassumption.
  - eapply cong_AddTable; eassumption.
  - eapply cong_RemoveTable; eassumption.
  - eapply cong_RenameTable; eassumption.
Qed.

Fixpoint img_list (acts : list action) (X : cellset) : cellset :=
  match acts with
  | [] => X
  | a :: rest => img_list rest (img a X)
  end.

Lemma replay_doc_cong : forall acts X s1 s2 s1',
  seq_ex X s1 s2 -> replay_doc O acts s1 = Ok s1' ->
  exists s2', replay_doc O acts s2 = Ok s2' /\ seq_ex (img_list acts X) s1' s2'.
Proof.
  induction acts as [|a rest IH]; intros X s1 s2 s1' Hs H; cbn in *.
  - inversion H; subst. eauto.
  - destruct (apply_doc O a s1) as [[sa oa]|] eqn:Ea; cbn in H; [|discriminate].
    destruct (apply_doc_cong _ _ _ _ _ _ Hs Ea) as [sb [ob [Eb Hsb]]]. rewrite Eb. cbn.
    eapply IH; eassumption.
Qed.

Lemma img_empty : forall a (Y : cellset), (forall t c r, Y t c r -> False) -> forall t c r, img a Y t c r -> False.
Proof.
  intros a Y HY t c r H. destruct a; cbn in H; try (eapply HY; exact H);
    destruct H as [H|H]; decompose [and] H; eapply HY; eassumption.
Qed.

Lemma img_list_empty : forall acts (Y : cellset),
  (forall t c r, Y t c r -> False) -> forall t c r, img_list acts Y t c r -> False.
Proof.
  induction acts as [|a rest IH]; intros Y HY t c r H; cbn in H; [eapply HY; exact H|].
  eapply (IH (img a Y)); [apply img_empty; exact HY | exact H].
Qed.

Lemma replay_doc_cong_seq : forall acts s1 s2 s1',
  seq s1 s2 -> replay_doc O acts s1 = Ok s1' -> exists s2', replay_doc O acts s2 = Ok s2' /\ seq s1' s2'.
Proof.
  intros acts s1 s2 s1' Hs H. destruct (replay_doc_cong _ _ _ _ _ Hs H) as [s2' [H2 Hs2]].
  exists s2'. split; [exact H2|]. eapply seq_ex_weaken; [|exact Hs2].
  intros t c r Hx. exfalso. eapply img_list_empty; [|exact Hx]. intros ? ? ? [].
Qed.

Lemma replay_doc_app : forall l1 l2 s,
  replay_doc O (l1 ++ l2) s = match replay_doc O l1 s with Ok s1 => replay_doc O l2 s1 | Err e => Err e end.
Proof.
  induction l1 as [|a l1 IH]; intros l2 s; cbn; [reflexivity|].
  destruct (apply_doc O a s) as [[sa oa]|]; cbn; [apply IH | reflexivity].
Qed.


(* ------------------------------------------------------------------------------------------------ *)
(* doc actions keep documents well formed *)

Lemma nmem_app : forall x l1 l2, nmem x (l1 ++ l2) = nmem x l1 || nmem x l2.
Proof. intros x l1 l2. induction l1 as [|y l1 IH]; cbn; [reflexivity|]. destruct (name_eqb x y); [reflexivity | exact IH]. Qed.

Lemma nodup_names_snoc : forall l x, nodup_names (l ++ [x]) = nodup_names l && negb (nmem x l).
Proof.
  induction l as [|y l IH]; intro x; cbn; [reflexivity|].
  rewrite IH, nmem_app. cbn. rewrite (name_eqb_sym x y).
  destruct (nmem y l), (name_eqb y x), (nodup_names l), (nmem x l); reflexivity.
Qed.

Lemma drop_col_ids : forall cs c,
  map (c_id O) (drop_col O cs c) = filter (fun x => negb (name_eqb c x)) (map (c_id O) cs).
Proof.
  induction cs as [|C0 cs IH]; intro c; cbn; [reflexivity|].
  destruct (name_eqb c (c_id O C0)); cbn; [apply IH | rewrite IH; reflexivity].
Qed.

Lemma nmem_filter : forall (f : name -> bool) x l, nmem x (filter f l) = true -> nmem x l = true.
Proof.
  intros f x l H. apply nmem_In in H. apply filter_In in H. apply nmem_In. apply H.
Qed.

Lemma nodup_names_filter : forall (f : name -> bool) l, nodup_names l = true -> nodup_names (filter f l) = true.
Proof.
  intros f l. induction l as [|y l IH]; cbn; [reflexivity|]. intro H.
  apply andb_true_iff in H. destruct H as [Hn Hnd]. destruct (f y); cbn; [|apply IH; exact Hnd].
  rewrite (IH Hnd), andb_true_r. apply negb_true_iff. apply negb_true_iff in Hn.
  destruct (nmem y (filter f l)) eqn:E; [|reflexivity]. apply nmem_filter in E. congruence.
Qed.

Lemma nmem_false_filter : forall (f : name -> bool) x l, nmem x l = false -> nmem x (filter f l) = false.
Proof.
  intros f x l H. destruct (nmem x (filter f l)) eqn:E; [|reflexivity]. apply nmem_filter in E. congruence.
Qed.

Lemma nmem_drop_self : forall cs c, nmem c (map (c_id O) (drop_col O cs c)) = false.
Proof.
  intros cs c. rewrite drop_col_ids. destruct (nmem c (filter _ _)) eqn:E; [|reflexivity].
  apply nmem_In in E. apply filter_In in E. destruct E as [_ E]. rewrite name_eqb_refl in E. discriminate.
Qed.

Definition normal_at (ty : name) (v : V) : Prop := venc O (vnorm O ty v) v = true.

Lemma cell_after_normal : forall rows cols C base r,
  normal_at (ci_type (c_info O C)) (base r) ->
  normal_at (ci_type (c_info O C)) (cell_after rows cols C base r).
Proof.
  intros rows cols C base r Hb. unfold cell_after, normal_at in *.
  destruct (cols_get cols (c_id O C)); [|exact Hb].
  destruct (set_val rows l r); [apply (vnorm_idem L) | exact Hb].
Qed.

Lemma norm_default_normal : forall ty, normal_at ty (vnorm O ty (vdefault O ty)).
Proof. intro ty. apply (vnorm_idem L). Qed.

Lemma default_normal : forall ty, normal_at ty (vdefault O ty).
Proof. intro ty. apply (vnorm_default L). Qed.

Lemma wf_state_put : forall s t T', wf_state s -> t_id O T' = t -> wf_table T' -> wf_state (put_table O s t T').
Proof.
  intros s t T' Hwf Hid HT t0 T0 Hf. rewrite find_put_table in Hf by exact Hid.
  destruct (name_eqb t0 t).
  - destruct (find_table O s t); inversion Hf; subst. exact HT.
  - eapply Hwf. exact Hf.
Qed.

Lemma wf_add_records : forall T rows cols T',
  wf_table T -> nodup_names (map fst cols) = true -> add_records O T rows cols = Ok T' -> wf_table T'.
Proof.
  intros T rows cols T' [Hnd [Hnoid Hnorm]] Hndk Hadd.
  destruct (add_records_spec _ _ _ _ Hndk Hadd) as [_ [Hrows [Hids Hcols]]].
  split; [rewrite Hids; exact Hnd|]. split; [rewrite Hids; exact Hnoid|].
  intros c C' Hf r Hr. specialize (Hcols c).
  destruct (find_col O (t_cols O T) c) as [C|] eqn:Ec; [|congruence].
  destruct Hcols as [C'' [Hf'' [Hi Hg]]]. assert (C'' = C') by congruence. subst C''.
  rewrite Hg, Hi. apply cell_after_normal. unfold add_base.
  destruct (zmem r rows) eqn:Ez; [apply norm_default_normal|].
  apply (Hnorm _ _ Ec). apply Hrows in Hr. destruct Hr as [Hr|Hr]; [|exact Hr].
  apply zmem_In in Hr. congruence.
Qed.

Lemma wf_cleared : forall T, wf_table T -> wf_table (cleared T).
Proof.
  intros T [Hnd [Hnoid _]]. unfold wf_table, cleared. cbn [t_cols t_rows].
  assert (map (c_id O) (map clear_col (t_cols O T)) = map (c_id O) (t_cols O T)) as Hids by (rewrite map_map; reflexivity).
  split; [rewrite Hids; exact Hnd|]. split; [rewrite Hids; exact Hnoid|]. intros c C Hf r [].
Qed.

Theorem apply_doc_wf : forall a s s' o, wf_state s -> apply_doc O a s = Ok (s', o) -> wf_state s'.
Proof.
  intros a s s' o Hwf H. destruct a; unfold apply_doc in H.
  - (* BulkAddRecord *)
    destruct (find_table O s t) as [T|] eqn:Ef; [|discriminate].
    destruct (colvals_ok O rows cols) eqn:Eok; cbn [negb orb] in H; [|discriminate].
    destruct rows as [|r0 rows0] eqn:Er; [discriminate|]. rewrite <- Er in *. clear Er.
    destruct (none_in rows (t_rows O T)); cbn [negb] in H; [|discriminate].
    destruct (add_records O T rows cols) as [T'|] eqn:Eadd; cbn [bind] in H; [|discriminate].
    inversion H; subst. destruct (colvals_ok_parts _ _ Eok) as [Hndk _].
    destruct (add_records_spec _ _ _ _ Hndk Eadd) as [Hid _].
    apply wf_state_put; [exact Hwf | rewrite Hid; cbn [t_id]; exact (find_table_id _ _ _ Ef) |].
    eapply wf_add_records; [eapply Hwf; exact Ef | exact Hndk | exact Eadd].
  - (* BulkRemoveRecord *)
    destruct (find_table O s t) as [T|] eqn:Ef; [|discriminate].
    destruct (filter (fun r => zmem r (t_rows O T)) rows) as [|r0 rows0] eqn:Er.
    + inversion H; subst. exact Hwf.
    + rewrite <- Er in *. inversion H; subst. clear H.
      destruct (Hwf _ _ Ef) as [Hnd [Hnoid Hnorm]].
      apply wf_state_put; [exact Hwf | cbn [t_id]; exact (find_table_id _ _ _ Ef) |].
      cbn. assert (map (c_id O) (map (fun C => col_unset_many O C (filter (fun r => zmem r (t_rows O T)) rows)) (t_cols O T)) = map (c_id O) (t_cols O T)) as Hids.
      { rewrite map_map. apply map_ext. intro C. apply col_unset_many_id. }
      split; [cbn; rewrite Hids; exact Hnd|]. split; [cbn; rewrite Hids; exact Hnoid|].
      cbn [t_cols t_rows]. intros c C' Hf r Hr. rewrite find_map_col in Hf by (intro; apply col_unset_many_id).
      destruct (find_col O (t_cols O T) c) as [C|] eqn:Ec; cbn in Hf; [|discriminate]. inversion Hf; subst C'.
      apply filter_In in Hr. destruct Hr as [Hr Hz]. apply negb_true_iff in Hz.
      rewrite col_get_unset_many, Hz, col_unset_many_info. apply (Hnorm _ _ Ec). exact Hr.
  - (* BulkUpdateRecord *)
    destruct (find_table O s t) as [T|] eqn:Ef; [|discriminate].
    destruct (colvals_ok O rows cols) eqn:Eok; cbn [negb orb] in H; [|discriminate].
    destruct rows as [|r0 rows0] eqn:Er; [discriminate|]. rewrite <- Er in *. clear Er.
    destruct (all_in rows (t_rows O T)); cbn [negb] in H; [|discriminate].
    destruct (old_values O (t_cols O T) rows cols) as [ov|]; cbn [bind] in H; [|discriminate].
    destruct (set_columns O (t_cols O T) rows cols) as [cs|] eqn:Ecs; cbn [bind] in H; [|discriminate].
    inversion H; subst. clear H. destruct (colvals_ok_parts _ _ Eok) as [Hndk _].
    destruct (Hwf _ _ Ef) as [Hnd [Hnoid Hnorm]].
    destruct (set_columns_spec _ _ _ _ Hndk Ecs) as [Hids Hcols].
    apply wf_state_put; [exact Hwf | cbn [t_id]; exact (find_table_id _ _ _ Ef) |].
    split; [cbn; rewrite Hids; exact Hnd|]. split; [cbn; rewrite Hids; exact Hnoid|].
    cbn [t_cols t_rows]. intros c C' Hf r Hr. specialize (Hcols c).
    destruct (find_col O (t_cols O T) c) as [C|] eqn:Ec; [|congruence].
    destruct Hcols as [C'' [Hf'' [Hi Hg]]]. assert (C'' = C') by congruence. subst C''.
    rewrite Hg, Hi. apply cell_after_normal. apply (Hnorm _ _ Ec). exact Hr.
  - (* ReplaceTableData *)
    destruct (find_table O s t) as [T|] eqn:Ef; [|discriminate].
    destruct (colvals_ok O rows cols) eqn:Eok; cbn [negb] in H; [|discriminate].
    fold clear_col in H. fold (cleared T) in H.
    match type of H with context [add_records O (cleared T) rows ?cc] => remember cc as cols1 eqn:Ecols1 end.
    destruct (add_records O (cleared T) rows cols1) as [T'|] eqn:Eadd; cbn [bind] in H; [|discriminate].
    inversion H; subst s' o. clear H.
    assert (Hnd1 : nodup_names (map fst cols1) = true).
    { destruct (colvals_ok_parts _ _ Eok) as [Hndk _]. rewrite Ecols1. clear -Hndk.
      induction cols as [|[c0 v0] rest IH]; cbn in *; [reflexivity|].
      apply andb_true_iff in Hndk. destruct Hndk as [Hn Hndk].
      destruct (find_col O (t_cols O T) c0); cbn; [|apply IH; exact Hndk].
      rewrite (IH Hndk), andb_true_r. apply negb_true_iff. apply negb_true_iff in Hn.
      match goal with |- nmem ?a ?b = false => destruct (nmem a b) eqn:E; [|reflexivity] end.
      apply nmem_In in E. apply in_map_iff in E. destruct E as [[c1 v1] [Hc1 Hin]]. cbn in Hc1. subst c1.
      apply filter_In in Hin. destruct Hin as [Hin _].
      assert (nmem c0 (map fst rest) = true); [|congruence].
      apply nmem_In. apply in_map_iff. exists (c0, v1). split; [reflexivity | exact Hin]. }
    destruct (add_records_spec _ _ _ _ Hnd1 Eadd) as [Hid _].
    apply wf_state_put; [exact Hwf | rewrite Hid; unfold cleared; cbn; cbn [t_id]; exact (find_table_id _ _ _ Ef) |].
    eapply wf_add_records; [apply wf_cleared; eapply Hwf; exact Ef | exact Hnd1 | exact Eadd].
  - (* AddColumn *)
    destruct (find_table O s t) as [T|] eqn:Ef; [|discriminate].
    destruct (has_column O T c) eqn:Eh; [discriminate|]. inversion H; subst. clear H.
    apply has_column_false in Eh. destruct Eh as [Hcid Hcn].
    destruct (Hwf _ _ Ef) as [Hnd [Hnoid Hnorm]].
    apply wf_state_put; [exact Hwf | cbn [t_id]; exact (find_table_id _ _ _ Ef) |].
    split; [cbn [t_cols]; rewrite map_app; cbn [map c_id]; rewrite nodup_names_snoc, Hnd; cbn;
            apply negb_true_iff; destruct (nmem c (map (c_id O) (t_cols O T))) eqn:E; [|reflexivity];
            apply nmem_In in E; apply find_col_none_notin in Hcn; contradiction|].
    split; [cbn [t_cols]; rewrite map_app, nmem_app, Hnoid; cbn [map c_id nmem orb];
            assert (name_eqb id_name c = false) as -> by (apply name_eqb_neq; congruence); reflexivity|].
    cbn [t_cols t_rows]. intros c0 C' Hf r Hr. rewrite find_app_col in Hf.
    destruct (find_col O (t_cols O T) c0) as [C|] eqn:Ec.
    + inversion Hf; subst C'. apply (Hnorm _ _ Ec). exact Hr.
    + cbn [c_id] in Hf. destruct (name_eqb c0 c); inversion Hf; subst C'.
      unfold col_get, col_default. cbn. apply default_normal.
  - (* RemoveColumn *)
    destruct (find_table O s t) as [T|] eqn:Ef; [|discriminate].
    destruct (find_col O (t_cols O T) c) as [C|] eqn:Ec; [|discriminate].
    destruct (apply_RemoveColumn_state _ _ _ _ _ Ef Ec) as [u' [ops' Hst]].
    unfold apply_doc in Hst. rewrite Ef, Ec in Hst. rewrite Hst in H. inversion H; subst. clear H Hst.
    destruct (Hwf _ _ Ef) as [Hnd [Hnoid Hnorm]].
    apply wf_state_put; [exact Hwf | cbn [t_id]; exact (find_table_id _ _ _ Ef) |].
    split; [cbn [t_cols]; rewrite drop_col_ids; apply nodup_names_filter; exact Hnd|].
    split; [cbn [t_cols]; rewrite drop_col_ids; apply nmem_false_filter; exact Hnoid|].
    cbn [t_cols t_rows]. intros c0 C' Hf r Hr. rewrite find_drop_col in Hf.
    destruct (name_eqb c0 c); [discriminate|]. apply (Hnorm _ _ Hf). exact Hr.
  - (* RenameColumn *)
    destruct (find_table O s t) as [T|] eqn:Ef; [|discriminate].
    destruct (find_col O (t_cols O T) old) as [C|] eqn:Ec; [|discriminate].
    destruct (has_column O T new) eqn:Eh; [discriminate|]. inversion H; subst. clear H.
    apply has_column_false in Eh. destruct Eh as [Hcid Hcn].
    destruct (Hwf _ _ Ef) as [Hnd [Hnoid Hnorm]].
    apply wf_state_put; [exact Hwf | cbn [t_id]; exact (find_table_id _ _ _ Ef) |].
    split; [cbn [t_cols]; rewrite map_app; cbn [map c_id]; rewrite nodup_names_snoc, drop_col_ids;
            rewrite nodup_names_filter by exact Hnd; cbn; apply negb_true_iff; apply nmem_false_filter;
            destruct (nmem new (map (c_id O) (t_cols O T))) eqn:E; [|reflexivity];
            apply nmem_In in E; apply find_col_none_notin in Hcn; contradiction|].
    split; [cbn [t_cols]; rewrite map_app, nmem_app, drop_col_ids; rewrite nmem_false_filter by exact Hnoid; cbn [map c_id nmem orb];
            assert (name_eqb id_name new = false) as -> by (apply name_eqb_neq; congruence); reflexivity|].
    cbn [t_cols t_rows]. intros c0 C' Hf r Hr. rewrite find_app_col, find_drop_col in Hf.
    destruct (name_eqb c0 old) eqn:E0.
    + cbn [c_id] in Hf. destruct (name_eqb c0 new); inversion Hf; subst C'.
      unfold col_get, col_default. cbn [c_data c_info]. apply (Hnorm _ _ Ec r Hr).
    + destruct (find_col O (t_cols O T) c0) as [C0|] eqn:Ec0.
      * inversion Hf; subst C'. apply (Hnorm _ _ Ec0). exact Hr.
      * cbn [c_id] in Hf. destruct (name_eqb c0 new); inversion Hf; subst C'.
        unfold col_get, col_default. cbn [c_data c_info]. apply (Hnorm _ _ Ec r Hr).
  - (* ModifyColumn *)
    destruct (find_table O s t) as [T|] eqn:Ef; [|discriminate].
    destruct (find_col O (t_cols O T) c) as [C|] eqn:Ec; [|discriminate].
    destruct (colinfo_eqb (apply_modinfo m (c_info O C)) (c_info O C)).
    + inversion H; subst. exact Hwf.
    + inversion H; subst. clear H.
      pose proof (wf_col_not_id _ _ _ (Hwf _ _ Ef) Ec) as Hcid.
      destruct (Hwf _ _ Ef) as [Hnd [Hnoid Hnorm]].
      apply wf_state_put; [exact Hwf | cbn [t_id]; exact (find_table_id _ _ _ Ef) |].
      split; [cbn [t_cols]; rewrite map_app; cbn [map]; rewrite col_set_many_id; cbn [c_id];
              rewrite nodup_names_snoc, drop_col_ids; rewrite nodup_names_filter by exact Hnd; cbn;
              rewrite <- drop_col_ids, nmem_drop_self; reflexivity|].
      split; [cbn [t_cols]; rewrite map_app, nmem_app, drop_col_ids; rewrite nmem_false_filter by exact Hnoid; cbn [map nmem orb];
              rewrite col_set_many_id; cbn [c_id];
              assert (name_eqb id_name c = false) as -> by (apply name_eqb_neq; congruence); reflexivity|].
      cbn [t_cols t_rows]. intros c0 C' Hf r Hr. rewrite find_app_col, find_drop_col in Hf.
      rewrite col_set_many_id in Hf. cbn [c_id] in Hf.
      destruct (name_eqb c0 c) eqn:E0.
      * inversion Hf; subst C'. rewrite col_get_set_many, set_val_map, (proj2 (zmem_In _ _) Hr).
        rewrite col_set_many_info. cbn [c_info]. apply (vnorm_idem L).
      * destruct (find_col O (t_cols O T) c0) as [C0|] eqn:Ec0; [|discriminate].
        inversion Hf; subst C'. apply (Hnorm _ _ Ec0). exact Hr.
  - (* AddTable *)
    destruct (find_table O s t) eqn:Ef; [discriminate|].
    destruct (negb (nodup_names (map fst cols)) || nmem id_name (map fst cols)) eqn:Ed; [discriminate|].
    inversion H; subst. clear H. apply orb_false_iff in Ed. destruct Ed as [Ed1 Ed2]. apply negb_false_iff in Ed1.
    intros t0 T0 Hf. rewrite find_app_table in Hf.
    destruct (find_table O s t0) eqn:E0; [inversion Hf; subst; eapply Hwf; exact E0|].
    cbn [t_id] in Hf. destruct (name_eqb t0 t); inversion Hf; subst T0. cbn.
    assert (map (c_id O) (map (fun ci : name * colinfo => mkCol O (fst ci) (snd ci) []) cols) = map fst cols) as Hids
      by (rewrite map_map; reflexivity).
    split; [cbn; rewrite Hids; exact Ed1|]. split; [cbn; rewrite Hids; exact Ed2|]. intros c C _ r [].
  - (* RemoveTable *)
    destruct (find_table O s t) as [T|] eqn:Ef; [|discriminate].
    assert (s' = drop_table O s t) by (destruct (t_rows O T); inversion H; reflexivity). subst s'.
    intros t0 T0 Hf. rewrite find_drop_table in Hf. destruct (name_eqb t0 t); [discriminate|]. eapply Hwf. exact Hf.
  - (* RenameTable *)
    destruct (find_table O s old) as [T|] eqn:Ef; [|discriminate].
    destruct (find_table O s new) eqn:En; [discriminate|]. inversion H; subst. clear H.
    intros t0 T0 Hf. rewrite find_app_table, find_drop_table in Hf. destruct (name_eqb t0 old).
    + cbn [t_id] in Hf. destruct (name_eqb t0 new); inversion Hf; subst T0.
      destruct (Hwf _ _ Ef) as [Hnd [Hnoid Hnorm]]. split; [exact Hnd|]. split; [exact Hnoid|]. exact Hnorm.
    + destruct (find_table O s t0) eqn:E0; [inversion Hf; subst; eapply Hwf; exact E0|].
      cbn [t_id] in Hf. destruct (name_eqb t0 new); inversion Hf; subst T0.
      destruct (Hwf _ _ Ef) as [Hnd [Hnoid Hnorm]]. split; [exact Hnd|]. split; [exact Hnoid|]. exact Hnorm.
Qed.


(* ------------------------------------------------------------------------------------------------ *)
(* sequences of doc actions *)

Fixpoint run_docs (s : state) (acts : list action) : res (state * list action) :=
  match acts with
  | [] => Ok (s, [])
  | a :: rest =>
      match apply_doc O a s with
      | Err e => Err e
      | Ok (s1, (u, _)) =>
          match run_docs s1 rest with
          | Err e => Err e
          | Ok (s2, U) => Ok (s2, u ++ U)
          end
      end
  end.

(* the cells (in coordinates of the start document) that the undo list of the sequence does not restore *)
Fixpoint loss_docs (s : state) (acts : list action) : cellset :=
  match acts with
  | [] => no_cells
  | a :: rest =>
      match apply_doc O a s with
      | Err _ => no_cells
      | Ok (s1, (u, _)) => fun t c r => img_list (rev u) (loss_docs s1 rest) t c r \/ lossy a s t c r
      end
  end.

Lemma run_docs_wf : forall acts s s' U, wf_state s -> run_docs s acts = Ok (s', U) -> wf_state s'.
Proof.
  induction acts as [|a rest IH]; intros s s' U Hwf H; cbn in H.
  - inversion H; subst. exact Hwf.
  - destruct (apply_doc O a s) as [[s1 [u ops]]|] eqn:Ea; [|discriminate].
    destruct (run_docs s1 rest) as [[s2 U']|] eqn:Er; [|discriminate]. inversion H; subst.
    eapply IH; [|exact Er]. eapply apply_doc_wf; eassumption.
Qed.

Theorem docs_undo : forall acts s s' U,
  wf_state s -> run_docs s acts = Ok (s', U) ->
  exists s'', replay_doc O (rev U) s' = Ok s'' /\ seq_ex (loss_docs s acts) s'' s.
Proof.
  induction acts as [|a rest IH]; intros s s' U Hwf H; cbn in H.
  - inversion H; subst. cbn. exists s'. split; [reflexivity | apply seq_ex_refl].
  - cbn [loss_docs]. destruct (apply_doc O a s) as [[s1 [u ops]]|] eqn:Ea; [|discriminate].
    destruct (run_docs s1 rest) as [[s2 U']|] eqn:Er; [|discriminate]. inversion H; subst s2 U. clear H.
    pose proof (apply_doc_wf _ _ _ _ Hwf Ea) as Hwf1.
    destruct (IH _ _ _ Hwf1 Er) as [s1'' [Hrep1 Hseq1]].
    destruct (undo_inverse a s Hwf _ _ _ Ea) as [s0'' [Hrep0 Hseq0]].
    apply seq_ex_sym in Hseq1.
    destruct (replay_doc_cong _ _ _ _ _ Hseq1 Hrep0) as [sx [Hrepx Hseqx]].
    exists sx. split.
    + rewrite rev_app_distr, replay_doc_app, Hrep1. exact Hrepx.
    + apply seq_ex_sym in Hseqx. eapply seq_ex_trans; eassumption.
Qed.

Fixpoint lossless_run (s : state) (acts : list action) : Prop :=
  match acts with
  | [] => True
  | a :: rest =>
      (forall t c r, ~ lossy a s t c r) /\
      match apply_doc O a s with
      | Ok (s1, _) => lossless_run s1 rest
      | Err _ => True
      end
  end.

Lemma lossless_loss_docs : forall acts s, lossless_run s acts -> forall t c r, ~ loss_docs s acts t c r.
Proof.
  induction acts as [|a rest IH]; intros s H t c r Hl; cbn in *; [exact Hl|].
  destruct H as [Hno Hrest]. destruct (apply_doc O a s) as [[s1 [u ops]]|]; [|exact Hl].
  destruct Hl as [Hl|Hl]; [|exact (Hno _ _ _ Hl)].
  eapply img_list_empty; [|exact Hl]. intros t' c' r'. apply IH. exact Hrest.
Qed.

Theorem docs_undo_exact : forall acts s s' U,
  wf_state s -> lossless_run s acts -> run_docs s acts = Ok (s', U) ->
  exists s'', replay_doc O (rev U) s' = Ok s'' /\ seq s'' s.
Proof.
  intros acts s s' U Hwf Hl H. destruct (docs_undo _ _ _ _ Hwf H) as [s'' [Hr Hs]].
  exists s''. split; [exact Hr|]. eapply seq_ex_weaken; [|exact Hs].
  intros t c r Hx. exfalso. eapply lossless_loss_docs; eassumption.
Qed.

(* redo: the stored doc actions are the actions themselves *)
Theorem docs_redo : forall acts s s' U s0,
  run_docs s acts = Ok (s', U) -> seq s0 s ->
  exists s1, replay_doc O acts s0 = Ok s1 /\ seq s1 s'.
Proof.
  induction acts as [|a rest IH]; intros s s' U s0 H Hs; cbn in H.
  - inversion H; subst. exists s0. split; [reflexivity | exact Hs].
  - destruct (apply_doc O a s) as [[s1 [u ops]]|] eqn:Ea; [|discriminate].
    destruct (run_docs s1 rest) as [[s2 U']|] eqn:Er; [|discriminate]. inversion H; subst s2 U. clear H.
    apply seq_ex_sym in Hs. destruct (apply_doc_cong _ _ _ _ _ _ Hs Ea) as [s0' [o0 [Ea0 Hs0]]].
    assert (Hs0' : seq s0' s1).
    { apply seq_ex_sym. eapply seq_ex_weaken; [|exact Hs0]. intros t c r Hx. exfalso. eapply img_empty; [|exact Hx]. intros ? ? ? []. }
    destruct (IH _ _ _ _ Er Hs0') as [s1' [Hr Hs1]].
    exists s1'. split; [|exact Hs1]. cbn. rewrite Ea0. cbn. exact Hr.
Qed.


(* ------------------------------------------------------------------------------------------------ *)
(* bundles made of doc actions only: the summary never holds a delta and the final flush adds nothing *)

Definition sum_nodeltas (sm : summary O) : Prop :=
  forall t td, td_find O (sm_tables O sm) t = Some td -> td_deltas O td = [].

Lemma td_find_del : forall l t t', td_find O (td_del O l t) t' = if name_eqb t' t then None else td_find O l t'.
Proof.
  induction l as [|[t0 d0] l IH]; intros t t'; cbn.
  - destruct (name_eqb t' t); reflexivity.
  - name_cases t t0.
    + subst t0. rewrite IH. name_cases t' t; reflexivity.
    + cbn. name_cases t' t0.
      * subst t'. assert (name_eqb t0 t = false) as -> by (apply name_eqb_neq; congruence). reflexivity.
      * apply IH.
Qed.

Lemma td_find_put : forall l t d t', td_find O (td_put O l t d) t' = if name_eqb t' t then Some d else td_find O (td_del O l t) t'.
Proof. intros l t d t'. unfold td_put. cbn. reflexivity. Qed.

Lemma nodeltas_with_table : forall sm t d, sum_nodeltas sm -> td_deltas O d = [] -> sum_nodeltas (with_table O sm t d).
Proof.
  intros sm t d H Hd t' td Hf. unfold with_table in Hf. cbn [sm_tables] in Hf. rewrite td_find_put, td_find_del in Hf.
  destruct (name_eqb t' t); [inversion Hf; subst; exact Hd | eapply H; exact Hf].
Qed.

Lemma nodeltas_for_table : forall sm t, sum_nodeltas sm -> td_deltas O (for_table O sm t) = [].
Proof.
  intros sm t H. unfold for_table. destruct (td_find O (sm_tables O sm) t) eqn:E; [eapply H; exact E | reflexivity].
Qed.

Definition not_changes (op : sumop O) : Prop := match op with SAddChanges _ _ _ _ => False | _ => True end.

Lemma fold_pres_deltas : forall (f : tdelta O -> Z -> tdelta O) rows d,
  (forall d r, td_deltas O (f d r) = td_deltas O d) -> td_deltas O (fold_left f rows d) = td_deltas O d.
Proof.
  intros f rows. induction rows as [|r rows IH]; intros d Hf; cbn; [reflexivity|]. rewrite IH by exact Hf. apply Hf.
Qed.

Lemma sum_apply_nodeltas : forall sm op, sum_nodeltas sm -> not_changes op -> sum_nodeltas (sum_apply O sm op).
Proof.
  intros sm op H Hop. destruct op; cbn [sum_apply]; try contradiction.
  - apply nodeltas_with_table; [exact H|]. rewrite fold_pres_deltas by reflexivity. apply nodeltas_for_table. exact H.
  - apply nodeltas_with_table; [exact H|]. rewrite fold_pres_deltas by reflexivity. apply nodeltas_for_table. exact H.
  - apply nodeltas_with_table; [exact H|]. cbn [td_deltas]. rewrite (nodeltas_for_table _ t H).
    destruct old; reflexivity.
  - intros t' td Hf. cbn [sm_tables] in Hf. destruct old as [o|]; [|eapply H; exact Hf].
    destruct (td_find O (sm_tables O sm) o) as [d|] eqn:Eo; [|eapply H; exact Hf].
    rewrite td_find_put, !td_find_del in Hf. destruct (name_eqb t' new); [inversion Hf; subst; eapply H; exact Eo|].
    destruct (name_eqb t' o); [discriminate | eapply H; exact Hf].
Qed.

Lemma fold_sum_apply_nodeltas : forall ops sm, sum_nodeltas sm -> Forall not_changes ops ->
  sum_nodeltas (fold_left (sum_apply O) ops sm).
Proof.
  induction ops as [|op ops IH]; intros sm H Hf; cbn; [exact H|]. inversion Hf; subst.
  apply IH; [apply sum_apply_nodeltas; assumption | assumption].
Qed.

Lemma flush_all_nodeltas : forall sm so, sum_nodeltas sm -> flush_all O sm so = Ok so.
Proof.
  intros sm so H. unfold flush_all. generalize (sorted_keys (sm_tables O sm)). intro keys.
  induction keys as [|t keys IH]; cbn; [reflexivity|].
  assert (flush_table O sm t so = Ok so) as ->; [|exact IH].
  unfold flush_table. destruct (td_find O (sm_tables O sm) t) as [td|] eqn:E; [|reflexivity].
  rewrite (H _ _ E). reflexivity.
Qed.

Lemma lossless_not_changes : forall a s s' u ops,
  apply_doc O a s = Ok (s', (u, ops)) -> (forall t c r, ~ lossy a s t c r) -> Forall not_changes ops.
Proof.
  intros a s s' u ops H Hl. destruct a; unfold apply_doc in H.
  - destruct (find_table O s t); [|discriminate]. destruct (_ || _); [discriminate|].
    destruct (negb _); [discriminate|]. destruct (add_records O t0 rows cols); cbn in H; [|discriminate].
    inversion H; subst. repeat constructor.
  - destruct (find_table O s t); [|discriminate]. destruct (filter _ rows); inversion H; subst; repeat constructor.
  - destruct (find_table O s t); [|discriminate]. destruct (_ || _); [discriminate|].
    destruct (negb _); [discriminate|]. destruct (old_values O _ rows cols); cbn in H; [|discriminate].
    destruct (set_columns O _ rows cols); cbn in H; [|discriminate]. inversion H; subst. constructor.
  - destruct (find_table O s t); [|discriminate]. destruct (negb _); [discriminate|].
    destruct (add_records O _ rows _); cbn in H; [|discriminate]. inversion H; subst. repeat constructor.
  - destruct (find_table O s t); [|discriminate]. destruct (has_column O t0 c); [discriminate|].
    inversion H; subst. repeat constructor.
  - destruct (find_table O s t) as [T|] eqn:Ef; [|discriminate].
    destruct (find_col O (t_cols O T) c) as [C|] eqn:Ec; [|discriminate].
    destruct (filter _ _); [inversion H; subst; repeat constructor|].
    destruct (ci_isformula (c_info O C)) eqn:Eform; [|inversion H; subst; repeat constructor].
    exfalso. apply (Hl t c 0). cbn. split; [reflexivity|]. split; [reflexivity|]. exists T, C. auto.
  - destruct (find_table O s t); [|discriminate]. destruct (find_col O _ old); [|discriminate].
    destruct (has_column O t0 new); [discriminate|]. inversion H; subst. repeat constructor.
  - destruct (find_table O s t); [|discriminate]. destruct (find_col O _ c); [|discriminate].
    destruct (colinfo_eqb _ _); inversion H; subst; constructor.
  - destruct (find_table O s t); [discriminate|]. destruct (_ || _); [discriminate|].
    inversion H; subst. repeat constructor.
  - destruct (find_table O s t); [|discriminate]. destruct (t_rows O t0); inversion H; subst; repeat constructor.
  - destruct (find_table O s old); [|discriminate]. destruct (find_table O s new); [discriminate|].
    inversion H; subst. repeat constructor.
Qed.

Lemma steps_docs : forall acts s S U sm m',
  sum_nodeltas sm -> lossless_run s acts ->
  steps O (mkM O s S U sm) (map (Doc O) acts) = Ok m' ->
  exists U', run_docs s acts = Ok (m_doc O m', U') /\ m_undo O m' = U ++ U' /\
             m_stored O m' = S ++ acts /\ sum_nodeltas (m_sum O m').
Proof.
  induction acts as [|a rest IH]; intros s S U sm m' Hnd Hl H; cbn in H.
  - inversion H; subst. cbn. exists []. rewrite !app_nil_r. auto.
  - cbn [m_doc] in H. destruct (apply_doc O a s) as [[s1 [u ops]]|] eqn:Ea; cbn in H; [|discriminate].
    cbn in Hl. destruct Hl as [Hno Hrest]. rewrite Ea in Hrest.
    destruct (IH _ _ _ _ _ (fold_sum_apply_nodeltas _ _ Hnd (lossless_not_changes _ _ _ _ _ Ea Hno)) Hrest H)
      as [U' [Hrun [Hu [Hs Hsm]]]].
    exists (u ++ U'). cbn. rewrite Ea, Hrun. split; [reflexivity|].
    split; [rewrite Hu, app_assoc; reflexivity|]. split; [rewrite Hs, <- app_assoc; reflexivity | exact Hsm].
Qed.

Lemma steps_app : forall es1 es2 m,
  steps O m (es1 ++ es2) = match steps O m es1 with Ok m1 => steps O m1 es2 | Err e => Err e end.
Proof.
  induction es1 as [|e es1 IH]; intros es2 m; cbn; [reflexivity|].
  destruct (step O m e); cbn; [apply IH | reflexivity].
Qed.

Lemma sum_empty_nodeltas : sum_nodeltas (sum_empty O).
Proof. intros t td H. cbn in H. discriminate. Qed.

Theorem run_docs_only : forall acts s s' out,
  lossless_run s acts -> run O s (map (Doc O) acts) = Ok (s', out) ->
  run_docs s acts = Ok (s', o_undo O out) /\ o_stored O out = acts.
Proof.
  intros acts s s' out Hl H. unfold run in H. rewrite steps_app in H.
  destruct (steps O (mkM O s [] [] (sum_empty O)) (map (Doc O) acts)) as [m1|] eqn:E1; [|discriminate].
  destruct (steps_docs _ _ _ _ _ _ sum_empty_nodeltas Hl E1) as [U' [Hrun [Hu [Hs Hsm]]]].
  cbn [steps step] in H. rewrite (flush_all_nodeltas _ _ Hsm) in H. cbn in H. inversion H; subst. cbn.
  rewrite Hu, Hs. cbn. split; [exact Hrun | reflexivity].
Qed.


(* ------------------------------------------------------------------------------------------------ *)
(* histories: bundle after bundle, then undone bundle by bundle in reverse *)

Fixpoint run_history (s : state) (bs : list (list (event O))) : res (state * list (list action)) :=
  match bs with
  | [] => Ok (s, [])
  | es :: rest =>
      match run O s es with
      | Err e => Err e
      | Ok (s1, out) =>
          match run_history s1 rest with
          | Err e => Err e
          | Ok (s2, us) => Ok (s2, o_undo O out :: us)
          end
      end
  end.

(* us: the undo lists of the bundles in the order the bundles ran; the last bundle is undone first *)
Fixpoint undo_history (us : list (list action)) (s : state) : res state :=
  match us with
  | [] => Ok s
  | U :: rest => match undo_history rest s with Ok s1 => replay_doc O (rev U) s1 | Err e => Err e end
  end.

Definition bundle_undo_ok (s : state) (es : list (event O)) : Prop :=
  forall s' out, run O s es = Ok (s', out) ->
  exists s'', replay_doc O (rev (o_undo O out)) s' = Ok s'' /\ seq s'' s.

Fixpoint bundles_ok (s : state) (bs : list (list (event O))) : Prop :=
  match bs with
  | [] => True
  | es :: rest =>
      bundle_undo_ok s es /\
      match run O s es with Ok (s1, _) => bundles_ok s1 rest | Err _ => True end
  end.

Theorem history_undo : forall bs s s' us,
  bundles_ok s bs -> run_history s bs = Ok (s', us) ->
  exists s'', undo_history us s' = Ok s'' /\ seq s'' s.
Proof.
  induction bs as [|es rest IH]; intros s s' us Hok H; cbn in H.
  - inversion H; subst. cbn. exists s'. split; [reflexivity | apply seq_ex_refl].
  - destruct (run O s es) as [[s1 out]|] eqn:Er; [|discriminate].
    destruct (run_history s1 rest) as [[s2 us']|] eqn:Eh; [|discriminate]. inversion H; subst s2 us. clear H.
    cbn in Hok. destruct Hok as [Hb Hrest]. rewrite Er in Hrest.
    destruct (IH _ _ _ Hrest Eh) as [s1'' [Hu1 Hs1]].
    destruct (Hb _ _ Er) as [s0'' [Hr0 Hs0]].
    apply seq_ex_sym in Hs1. destruct (replay_doc_cong_seq _ _ _ _ Hs1 Hr0) as [sx [Hrx Hsx]].
    exists sx. split; [cbn; rewrite Hu1; exact Hrx|].
    apply seq_ex_sym in Hsx. eapply seq_trans; eassumption.
Qed.

Theorem doc_bundle_undo_ok : forall s acts,
  wf_state s -> lossless_run s acts -> bundle_undo_ok s (map (Doc O) acts).
Proof.
  intros s acts Hwf Hl s' out H. destruct (run_docs_only _ _ _ _ Hl H) as [Hrun _].
  eapply docs_undo_exact; eassumption.
Qed.

Theorem doc_bundle_redo : forall s acts s' out s0,
  wf_state s -> lossless_run s acts -> run O s (map (Doc O) acts) = Ok (s', out) ->
  replay_doc O (rev (o_undo O out)) s' = Ok s0 ->
  exists s1, replay_doc O (o_stored O out) s0 = Ok s1 /\ seq s1 s'.
Proof.
  intros s acts s' out s0 Hwf Hl H Hundo. destruct (run_docs_only _ _ _ _ Hl H) as [Hrun Hst].
  destruct (docs_undo_exact _ _ _ _ Hwf Hl Hrun) as [s'' [Hr Hs]].
  assert (s'' = s0) by congruence. subst s''. rewrite Hst. eapply docs_redo; eassumption.
Qed.


(* a decidable sufficient condition for `lossless_run` (used by the examples) *)
Definition no_loss_b (a : action) (s : state) : bool :=
  match a with
  | RemoveColumn _ t c =>
      match find_table O s t with
      | Some T => match find_col O (t_cols O T) c with Some C => negb (ci_isformula (c_info O C)) | None => true end
      | None => true
      end
  | ReplaceTableData _ t _ _ =>
      match find_table O s t with
      | Some T => forallb (fun C => negb (ci_isformula (c_info O C))) (t_cols O T)
      | None => true
      end
  | ModifyColumn _ t c m =>
      match find_table O s t with
      | Some T => match find_col O (t_cols O T) c with
                  | Some C => name_eqb (ci_type (apply_modinfo m (c_info O C))) (ci_type (c_info O C))
                  | None => true end
      | None => true
      end
  | _ => true
  end.

Lemma no_loss_b_sound : forall a s, no_loss_b a s = true -> forall t c r, ~ lossy a s t c r.
Proof.
  intros a s H t c r Hl. destruct a; cbn in *; try exact Hl.
  - destruct Hl as [-> [T [C [Hf [Hc Hform]]]]]. rewrite Hf in H. rewrite forallb_forall in H.
    specialize (H C (find_col_In _ _ _ Hc)). rewrite Hform in H. discriminate.
  - destruct Hl as [-> [-> [T [C [Hf [Hc Hform]]]]]]. rewrite Hf, Hc, Hform in H. discriminate.
  - destruct Hl as [-> [-> [T [C [Hf [Hc Hty]]]]]]. rewrite Hf, Hc in H. apply name_eqb_eq in H. contradiction.
Qed.

Fixpoint lossless_runb (s : state) (acts : list action) : bool :=
  match acts with
  | [] => true
  | a :: rest =>
      no_loss_b a s && match apply_doc O a s with Ok (s1, _) => lossless_runb s1 rest | Err _ => true end
  end.

Lemma lossless_runb_sound : forall acts s, lossless_runb s acts = true -> lossless_run s acts.
Proof.
  induction acts as [|a rest IH]; intros s H; cbn in *; [exact I|].
  apply andb_true_iff in H. destruct H as [H1 H2]. split; [apply no_loss_b_sound; exact H1|].
  destruct (apply_doc O a s) as [[s1 o]|]; [apply IH; exact H2 | exact I].
Qed.

End Proofs.
