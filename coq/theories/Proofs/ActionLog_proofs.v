(* Proofs about the action-log kernel K1 (Model/ActionLog.v): undo (C01) and redo (C03). *)
From Coq Require Import ZArith List Bool Lia.
Import ListNotations.
Require Import Grist.Model.ActionLog.
Open Scope Z_scope.

(* ------------------------------------------------------------------------------------------------ *)
(* names *)

Lemma name_eqb_eq : forall a b, name_eqb a b = true <-> a = b.
Proof.
  induction a as [|x a IH]; destruct b as [|y b]; cbn; split; intro H; try congruence; try discriminate.
  - apply andb_true_iff in H. destruct H as [H1 H2]. apply Z.eqb_eq in H1. apply IH in H2. congruence.
  - inversion H; subst. rewrite Z.eqb_refl. cbn. apply IH. reflexivity.
Qed.

Lemma name_eqb_refl : forall a, name_eqb a a = true.
Proof. intro a. apply name_eqb_eq. reflexivity. Qed.

Lemma name_eqb_neq : forall a b, name_eqb a b = false <-> a <> b.
Proof.
  intros a b. split; intro H.
  - intro E. apply name_eqb_eq in E. congruence.
  - destruct (name_eqb a b) eqn:E; [|reflexivity]. apply name_eqb_eq in E. contradiction.
Qed.

Lemma name_eqb_sym : forall a b, name_eqb a b = name_eqb b a.
Proof.
  intros a b. destruct (name_eqb a b) eqn:E.
  - apply name_eqb_eq in E. subst. symmetry. apply name_eqb_refl.
  - symmetry. apply name_eqb_neq. apply name_eqb_neq in E. congruence.
Qed.

Lemma name_eq_dec : forall a b : name, {a = b} + {a <> b}.
Proof. intros a b. destruct (name_eqb a b) eqn:E; [left; apply name_eqb_eq; exact E | right; apply name_eqb_neq; exact E]. Qed.

Ltac name_cases a b :=
  let E := fresh "E" in
  destruct (name_eqb a b) eqn:E;
  [apply name_eqb_eq in E | pose proof (proj1 (name_eqb_neq _ _) E)].

Lemma zmem_In : forall r l, zmem r l = true <-> In r l.
Proof.
  intros r l. induction l as [|x l IH]; cbn.
  - split; [discriminate | tauto].
  - destruct (Z.eqb_spec r x) as [->|Hne].
    + split; auto.
    + rewrite IH. split; [auto | intros [H|H]; [congruence | exact H]].
Qed.

Lemma zmem_false : forall r l, zmem r l = false <-> ~ In r l.
Proof.
  intros r l. rewrite <- zmem_In. destruct (zmem r l); split; intro H; try congruence; try reflexivity.
Qed.

Lemma zinsert_In : forall r x l, In r (zinsert x l) <-> r = x \/ In r l.
Proof.
  intros r x l. induction l as [|y l IH]; cbn.
  - intuition.
  - destruct (Z.ltb x y).
    + cbn. intuition.
    + destruct (Z.eqb_spec x y) as [->|Hne].
      * cbn. intuition.
      * cbn. rewrite IH. intuition.
Qed.

Lemma fold_zinsert_In : forall rows l r,
  In r (fold_left (fun l r => zinsert r l) rows l) <-> In r rows \/ In r l.
Proof.
  induction rows as [|x rows IH]; intros l r; cbn.
  - intuition.
  - rewrite IH. rewrite zinsert_In. intuition.
Qed.

Lemma nmem_In : forall n l, nmem n l = true <-> In n l.
Proof.
  intros n l. induction l as [|x l IH]; cbn.
  - split; [discriminate | tauto].
  - name_cases n x.
    + subst. split; auto.
    + rewrite IH. split; [auto | intros [H0|H0]; [congruence | exact H0]].
Qed.

Section Proofs.
Variable O : ValOps.
Notation V := (V O).
Notation state := (state O).
Notation table := (table O).
Notation column := (column O).
Notation action := (action O).

(* what the proofs need of the value operations *)
Record ValLaws : Prop := mkValLaws {
  venc_refl : forall a : V, venc O a a = true;
  venc_sym : forall a b : V, venc O a b = true -> venc O b a = true;
  venc_trans : forall a b c : V, venc O a b = true -> venc O b c = true -> venc O a c = true;
  vstrict_enc : forall a b : V, vstrict O a b = true -> venc O a b = true;
  vnorm_enc : forall ty (a b : V), venc O a b = true -> venc O (vnorm O ty a) (vnorm O ty b) = true;
  vnorm_idem : forall ty (a : V), venc O (vnorm O ty (vnorm O ty a)) (vnorm O ty a) = true;
  vnorm_default : forall ty, venc O (vnorm O ty (vdefault O ty)) (vdefault O ty) = true;
}.

Hypothesis L : ValLaws.

(* ------------------------------------------------------------------------------------------------ *)
(* columns *)

Lemma col_set_id : forall C r v, c_id O (col_set O C r v) = c_id O C.
Proof. reflexivity. Qed.
Lemma col_set_info : forall C r v, c_info O (col_set O C r v) = c_info O C.
Proof. reflexivity. Qed.

Lemma col_get_set : forall C r v r',
  col_get O (col_set O C r v) r' =
  if Z.eqb r' r then vnorm O (ci_type (c_info O C)) v else col_get O C r'.
Proof.
  intros C r v r'. unfold col_get, col_set, col_default. cbn.
  destruct (Z.eqb r' r); reflexivity.
Qed.

Lemma col_set_many_id : forall rows vals C, c_id O (col_set_many O C rows vals) = c_id O C.
Proof. induction rows as [|r rows IH]; intros [|v vals] C; cbn; try reflexivity. rewrite IH. reflexivity. Qed.

Lemma col_set_many_info : forall rows vals C, c_info O (col_set_many O C rows vals) = c_info O C.
Proof. induction rows as [|r rows IH]; intros [|v vals] C; cbn; try reflexivity. rewrite IH. reflexivity. Qed.

(* the value the sequence of sets leaves in row r, if any: the last one *)
Fixpoint set_val (rows : list Z) (vals : list V) (r : Z) : option V :=
  match rows, vals with
  | r0 :: rows', v0 :: vals' =>
      match set_val rows' vals' r with
      | Some v => Some v
      | None => if Z.eqb r r0 then Some v0 else None
      end
  | _, _ => None
  end.

Lemma col_get_set_many : forall rows vals C r,
  col_get O (col_set_many O C rows vals) r =
  match set_val rows vals r with
  | Some v => vnorm O (ci_type (c_info O C)) v
  | None => col_get O C r
  end.
Proof.
  induction rows as [|r0 rows IH]; intros [|v0 vals] C r; cbn; try reflexivity.
  rewrite IH. rewrite col_set_info. destruct (set_val rows vals r); [reflexivity|].
  rewrite col_get_set. destruct (Z.eqb r r0); reflexivity.
Qed.

Lemma set_val_map : forall (f : Z -> V) rows r,
  set_val rows (map f rows) r = if zmem r rows then Some (f r) else None.
Proof.
  intros f rows r. induction rows as [|r0 rows IH]; cbn; [reflexivity|].
  rewrite IH. destruct (zmem r rows) eqn:E.
  - destruct (Z.eqb r r0); reflexivity.
  - destruct (Z.eqb_spec r r0) as [->|]; reflexivity.
Qed.

Lemma set_val_notin : forall rows vals r, ~ In r rows -> set_val rows vals r = None.
Proof.
  induction rows as [|r0 rows IH]; intros [|v0 vals] r H; cbn; try reflexivity.
  rewrite IH by (intro; apply H; right; assumption).
  destruct (Z.eqb_spec r r0) as [->|]; [|reflexivity]. exfalso. apply H. left. reflexivity.
Qed.

Lemma set_val_in : forall rows vals r, length vals = length rows -> In r rows -> exists v, set_val rows vals r = Some v.
Proof.
  induction rows as [|r0 rows IH]; intros [|v0 vals] r Hl Hin; cbn in *; try discriminate; try contradiction.
  destruct (set_val rows vals r) eqn:E; [eauto|].
  destruct Hin as [->|Hin].
  - rewrite Z.eqb_refl. eauto.
  - destruct (IH vals r) as [v Hv]; [lia | exact Hin | congruence].
Qed.

Lemma col_unset_many_id : forall rows C, c_id O (col_unset_many O C rows) = c_id O C.
Proof. unfold col_unset_many. induction rows as [|r rows IH]; intro C; cbn; [reflexivity|]. rewrite IH. reflexivity. Qed.

Lemma col_unset_many_info : forall rows C, c_info O (col_unset_many O C rows) = c_info O C.
Proof. unfold col_unset_many. induction rows as [|r rows IH]; intro C; cbn; [reflexivity|]. rewrite IH. reflexivity. Qed.

Lemma col_get_unset_many : forall rows C r,
  col_get O (col_unset_many O C rows) r =
  if zmem r rows then vnorm O (ci_type (c_info O C)) (col_default O C) else col_get O C r.
Proof.
  unfold col_unset_many. induction rows as [|r0 rows IH]; intros C r; cbn; [reflexivity|].
  rewrite IH. unfold col_unset at 2 3. rewrite col_get_set.
  unfold col_default. cbn.
  destruct (zmem r rows); destruct (Z.eqb r r0); reflexivity.
Qed.

(* ------------------------------------------------------------------------------------------------ *)
(* tables in a state, columns in a table *)

Lemma find_table_id : forall s t T, find_table O s t = Some T -> t_id O T = t.
Proof.
  induction s as [|T0 s IH]; intros t T H; cbn in H; [discriminate|].
  name_cases t (t_id O T0).
  - inversion H; subst. reflexivity.
  - apply IH. exact H.
Qed.

Lemma find_col_id : forall cs c C, find_col O cs c = Some C -> c_id O C = c.
Proof.
  induction cs as [|C0 cs IH]; intros c C H; cbn in H; [discriminate|].
  name_cases c (c_id O C0).
  - inversion H; subst. reflexivity.
  - apply IH. exact H.
Qed.

Lemma find_put_table : forall s t T' t0, t_id O T' = t ->
  find_table O (put_table O s t T') t0 =
  if name_eqb t0 t then match find_table O s t with Some _ => Some T' | None => None end
  else find_table O s t0.
Proof.
  induction s as [|T0 s IH]; intros t T' t0 Hid; cbn.
  - destruct (name_eqb t0 t); reflexivity.
  - name_cases t (t_id O T0).
    + cbn. rewrite Hid. destruct (name_eqb t0 t) eqn:E1; [reflexivity|].
      rewrite <- E. rewrite E1. reflexivity.
    + cbn. name_cases t0 (t_id O T0).
      * subst t0. assert (name_eqb (t_id O T0) t = false) as ->.
        { apply name_eqb_neq. congruence. } reflexivity.
      * apply IH. exact Hid.
Qed.

Lemma find_drop_table : forall s t t0,
  find_table O (drop_table O s t) t0 = if name_eqb t0 t then None else find_table O s t0.
Proof.
  induction s as [|T0 s IH]; intros t t0; cbn.
  - destruct (name_eqb t0 t); reflexivity.
  - name_cases t (t_id O T0).
    + rewrite IH. name_cases t0 t; [reflexivity|].
      assert (name_eqb t0 (t_id O T0) = false) as ->; [apply name_eqb_neq; congruence | reflexivity].
    + cbn. name_cases t0 (t_id O T0).
      * assert (name_eqb t0 t = false) as ->; [apply name_eqb_neq; congruence | reflexivity].
      * apply IH.
Qed.

Lemma find_app_table : forall s T t0,
  find_table O (s ++ [T]) t0 =
  match find_table O s t0 with
  | Some x => Some x
  | None => if name_eqb t0 (t_id O T) then Some T else None
  end.
Proof.
  induction s as [|T0 s IH]; intros T t0; cbn.
  - reflexivity.
  - destruct (name_eqb t0 (t_id O T0)); [reflexivity | apply IH].
Qed.

Lemma find_put_col : forall cs c C' c0, c_id O C' = c ->
  find_col O (put_col O cs c C') c0 =
  if name_eqb c0 c then match find_col O cs c with Some _ => Some C' | None => None end
  else find_col O cs c0.
Proof.
  induction cs as [|C0 cs IH]; intros c C' c0 Hid; cbn.
  - destruct (name_eqb c0 c); reflexivity.
  - name_cases c (c_id O C0).
    + cbn. rewrite Hid. destruct (name_eqb c0 c) eqn:E1; [reflexivity|].
      rewrite <- E. rewrite E1. reflexivity.
    + cbn. name_cases c0 (c_id O C0).
      * subst c0. assert (name_eqb (c_id O C0) c = false) as ->.
        { apply name_eqb_neq. congruence. } reflexivity.
      * apply IH. exact Hid.
Qed.

Lemma find_drop_col : forall cs c c0,
  find_col O (drop_col O cs c) c0 = if name_eqb c0 c then None else find_col O cs c0.
Proof.
  induction cs as [|C0 cs IH]; intros c c0; cbn.
  - destruct (name_eqb c0 c); reflexivity.
  - name_cases c (c_id O C0).
    + rewrite IH. name_cases c0 c; [reflexivity|].
      assert (name_eqb c0 (c_id O C0) = false) as ->; [apply name_eqb_neq; congruence | reflexivity].
    + cbn. name_cases c0 (c_id O C0).
      * assert (name_eqb c0 c = false) as ->; [apply name_eqb_neq; congruence | reflexivity].
      * apply IH.
Qed.

Lemma find_app_col : forall cs C c0,
  find_col O (cs ++ [C]) c0 =
  match find_col O cs c0 with
  | Some x => Some x
  | None => if name_eqb c0 (c_id O C) then Some C else None
  end.
Proof.
  induction cs as [|C0 cs IH]; intros C c0; cbn.
  - reflexivity.
  - destruct (name_eqb c0 (c_id O C0)); [reflexivity | apply IH].
Qed.

Lemma find_map_col : forall (f : column -> column) cs c,
  (forall C, c_id O (f C) = c_id O C) ->
  find_col O (map f cs) c = option_map f (find_col O cs c).
Proof.
  intros f cs c Hf. induction cs as [|C0 cs IH]; cbn; [reflexivity|].
  rewrite Hf. destruct (name_eqb c (c_id O C0)); [reflexivity | exact IH].
Qed.

End Proofs.
