(* Proofs about the action-log kernel K1 (Model/ActionLog.v): undo (C01) and redo (C03). *)
From Coq Require Import ZArith List Bool Lia.
Import ListNotations.
Require Import Grist.Model.ActionLog.
Open Scope Z_scope.

(* ------------------------------------------------------------------------------------------------ *)
(* names *)

Lemma name_eqb_eq : forall a b, name_eqb a b = true <-> a = b.
Proof.
  induction a as [|x a IH]; destruct b as [|y b]; cbn; split; intro H; try congruence; try discriminate.
  - apply andb_true_iff in H. destruct H as [H1 H2]. apply Z.eqb_eq in H1. apply IH in H2. congruence.
  - inversion H; subst. rewrite Z.eqb_refl. cbn. apply IH. reflexivity.
Qed.

Lemma name_eqb_refl : forall a, name_eqb a a = true.
Proof. intro a. apply name_eqb_eq. reflexivity. Qed.

Lemma name_eqb_neq : forall a b, name_eqb a b = false <-> a <> b.
Proof.
  intros a b. split; intro H.
  - intro E. apply name_eqb_eq in E. congruence.
  - destruct (name_eqb a b) eqn:E; [|reflexivity]. apply name_eqb_eq in E. contradiction.
Qed.

Lemma name_eqb_sym : forall a b, name_eqb a b = name_eqb b a.
Proof.
  intros a b. destruct (name_eqb a b) eqn:E.
  - apply name_eqb_eq in E. subst. symmetry. apply name_eqb_refl.
  - symmetry. apply name_eqb_neq. apply name_eqb_neq in E. congruence.
Qed.

Lemma name_eq_dec : forall a b : name, {a = b} + {a <> b}.
Proof. intros a b. destruct (name_eqb a b) eqn:E; [left; apply name_eqb_eq; exact E | right; apply name_eqb_neq; exact E]. Qed.

Ltac name_cases a b :=
  let E := fresh "E" in
  destruct (name_eqb a b) eqn:E;
  [apply name_eqb_eq in E | pose proof (proj1 (name_eqb_neq _ _) E)].

Lemma zmem_In : forall r l, zmem r l = true <-> In r l.
Proof.
  intros r l. induction l as [|x l IH]; cbn.
  - split; [discriminate | tauto].
  - destruct (Z.eqb_spec r x) as [->|Hne].
    + split; auto.
    + rewrite IH. split; [auto | intros [H|H]; [congruence | exact H]].
Qed.

Lemma zmem_false : forall r l, zmem r l = false <-> ~ In r l.
Proof.
  intros r l. rewrite <- zmem_In. destruct (zmem r l); split; intro H; try congruence; try reflexivity.
Qed.

Lemma zinsert_In : forall r x l, In r (zinsert x l) <-> r = x \/ In r l.
Proof.
  intros r x l. induction l as [|y l IH]; cbn.
  - intuition.
  - destruct (Z.ltb x y).
    + cbn. intuition.
    + destruct (Z.eqb_spec x y) as [->|Hne].
      * cbn. intuition.
      * cbn. rewrite IH. intuition.
Qed.

Lemma fold_zinsert_In : forall rows l r,
  In r (fold_left (fun l r => zinsert r l) rows l) <-> In r rows \/ In r l.
Proof.
  induction rows as [|x rows IH]; intros l r; cbn.
  - intuition.
  - rewrite IH. rewrite zinsert_In. intuition.
Qed.

Lemma nmem_In : forall n l, nmem n l = true <-> In n l.
Proof.
  intros n l. induction l as [|x l IH]; cbn.
  - split; [discriminate | tauto].
  - name_cases n x.
    + subst. split; auto.
    + rewrite IH. split; [auto | intros [H0|H0]; [congruence | exact H0]].
Qed.

Section Proofs.
Variable O : ValOps.
Notation V := (V O).
Notation state := (state O).
Notation table := (table O).
Notation column := (column O).
Notation action := (action O).

(* what the proofs need of the value operations *)
Record ValLaws : Prop := mkValLaws {
  venc_refl : forall a : V, venc O a a = true;
  venc_sym : forall a b : V, venc O a b = true -> venc O b a = true;
  venc_trans : forall a b c : V, venc O a b = true -> venc O b c = true -> venc O a c = true;
  vstrict_enc : forall a b : V, vstrict O a b = true -> venc O a b = true;
  vnorm_enc : forall ty (a b : V), venc O a b = true -> venc O (vnorm O ty a) (vnorm O ty b) = true;
  vnorm_idem : forall ty (a : V), venc O (vnorm O ty (vnorm O ty a)) (vnorm O ty a) = true;
  vnorm_default : forall ty, venc O (vnorm O ty (vdefault O ty)) (vdefault O ty) = true;
}.

Hypothesis L : ValLaws.

(* ------------------------------------------------------------------------------------------------ *)
(* columns *)

Lemma col_set_id : forall C r v, c_id O (col_set O C r v) = c_id O C.
Proof. reflexivity. Qed.
Lemma col_set_info : forall C r v, c_info O (col_set O C r v) = c_info O C.
Proof. reflexivity. Qed.

Lemma col_get_set : forall C r v r',
  col_get O (col_set O C r v) r' =
  if Z.eqb r' r then vnorm O (ci_type (c_info O C)) v else col_get O C r'.
Proof.
  intros C r v r'. unfold col_get, col_set, col_default. cbn.
  destruct (Z.eqb r' r); reflexivity.
Qed.

Lemma col_set_many_id : forall rows vals C, c_id O (col_set_many O C rows vals) = c_id O C.
Proof. induction rows as [|r rows IH]; intros [|v vals] C; cbn; try reflexivity. rewrite IH. reflexivity. Qed.

Lemma col_set_many_info : forall rows vals C, c_info O (col_set_many O C rows vals) = c_info O C.
Proof. induction rows as [|r rows IH]; intros [|v vals] C; cbn; try reflexivity. rewrite IH. reflexivity. Qed.

(* the value the sequence of sets leaves in row r, if any: the last one *)
Fixpoint set_val (rows : list Z) (vals : list V) (r : Z) : option V :=
  match rows, vals with
  | r0 :: rows', v0 :: vals' =>
      match set_val rows' vals' r with
      | Some v => Some v
      | None => if Z.eqb r r0 then Some v0 else None
      end
  | _, _ => None
  end.

Lemma col_get_set_many : forall rows vals C r,
  col_get O (col_set_many O C rows vals) r =
  match set_val rows vals r with
  | Some v => vnorm O (ci_type (c_info O C)) v
  | None => col_get O C r
  end.
Proof.
  induction rows as [|r0 rows IH]; intros [|v0 vals] C r; cbn; try reflexivity.
  rewrite IH. rewrite col_set_info. destruct (set_val rows vals r); [reflexivity|].
  rewrite col_get_set. destruct (Z.eqb r r0); reflexivity.
Qed.

Lemma set_val_map : forall (f : Z -> V) rows r,
  set_val rows (map f rows) r = if zmem r rows then Some (f r) else None.
Proof.
  intros f rows r. induction rows as [|r0 rows IH]; cbn; [reflexivity|].
  rewrite IH. destruct (zmem r rows) eqn:E.
  - destruct (Z.eqb r r0); reflexivity.
  - destruct (Z.eqb_spec r r0) as [->|]; reflexivity.
Qed.

Lemma set_val_notin : forall rows vals r, ~ In r rows -> set_val rows vals r = None.
Proof.
  induction rows as [|r0 rows IH]; intros [|v0 vals] r H; cbn; try reflexivity.
  rewrite IH by (intro; apply H; right; assumption).
  destruct (Z.eqb_spec r r0) as [->|]; [|reflexivity]. exfalso. apply H. left. reflexivity.
Qed.

Lemma set_val_in : forall rows vals r, length vals = length rows -> In r rows -> exists v, set_val rows vals r = Some v.
Proof.
  induction rows as [|r0 rows IH]; intros [|v0 vals] r Hl Hin; cbn in *; try discriminate; try contradiction.
  destruct (set_val rows vals r) eqn:E; [eauto|].
  destruct Hin as [->|Hin].
  - rewrite Z.eqb_refl. eauto.
  - destruct (IH vals r) as [v Hv]; [lia | exact Hin | congruence].
Qed.

Lemma col_unset_many_id : forall rows C, c_id O (col_unset_many O C rows) = c_id O C.
Proof. unfold col_unset_many. induction rows as [|r rows IH]; intro C; cbn; [reflexivity|]. rewrite IH. reflexivity. Qed.

Lemma col_unset_many_info : forall rows C, c_info O (col_unset_many O C rows) = c_info O C.
Proof. unfold col_unset_many. induction rows as [|r rows IH]; intro C; cbn; [reflexivity|]. rewrite IH. reflexivity. Qed.

Lemma col_get_unset_many : forall rows C r,
  col_get O (col_unset_many O C rows) r =
  if zmem r rows then vnorm O (ci_type (c_info O C)) (col_default O C) else col_get O C r.
Proof.
  unfold col_unset_many. induction rows as [|r0 rows IH]; intros C r; cbn; [reflexivity|].
  rewrite IH. unfold col_unset at 2 3. rewrite col_get_set.
  unfold col_default. cbn.
  destruct (zmem r rows); destruct (Z.eqb r r0); reflexivity.
Qed.

(* ------------------------------------------------------------------------------------------------ *)
(* tables in a state, columns in a table *)

Lemma find_table_id : forall s t T, find_table O s t = Some T -> t_id O T = t.
Proof.
  induction s as [|T0 s IH]; intros t T H; cbn in H; [discriminate|].
  name_cases t (t_id O T0).
  - inversion H; subst. reflexivity.
  - apply IH. exact H.
Qed.

Lemma find_col_id : forall cs c C, find_col O cs c = Some C -> c_id O C = c.
Proof.
  induction cs as [|C0 cs IH]; intros c C H; cbn in H; [discriminate|].
  name_cases c (c_id O C0).
  - inversion H; subst. reflexivity.
  - apply IH. exact H.
Qed.

Lemma find_put_table : forall s t T' t0, t_id O T' = t ->
  find_table O (put_table O s t T') t0 =
  if name_eqb t0 t then match find_table O s t with Some _ => Some T' | None => None end
  else find_table O s t0.
Proof.
  induction s as [|T0 s IH]; intros t T' t0 Hid; cbn.
  - destruct (name_eqb t0 t); reflexivity.
  - name_cases t (t_id O T0).
    + cbn. rewrite Hid. destruct (name_eqb t0 t) eqn:E1; [reflexivity|].
      rewrite <- E. rewrite E1. reflexivity.
    + cbn. name_cases t0 (t_id O T0).
      * subst t0. assert (name_eqb (t_id O T0) t = false) as ->.
        { apply name_eqb_neq. congruence. } reflexivity.
      * apply IH. exact Hid.
Qed.

Lemma find_drop_table : forall s t t0,
  find_table O (drop_table O s t) t0 = if name_eqb t0 t then None else find_table O s t0.
Proof.
  induction s as [|T0 s IH]; intros t t0; cbn.
  - destruct (name_eqb t0 t); reflexivity.
  - name_cases t (t_id O T0).
    + rewrite IH. name_cases t0 t; [reflexivity|].
      assert (name_eqb t0 (t_id O T0) = false) as ->; [apply name_eqb_neq; congruence | reflexivity].
    + cbn. name_cases t0 (t_id O T0).
      * assert (name_eqb t0 t = false) as ->; [apply name_eqb_neq; congruence | reflexivity].
      * apply IH.
Qed.

Lemma find_app_table : forall s T t0,
  find_table O (s ++ [T]) t0 =
  match find_table O s t0 with
  | Some x => Some x
  | None => if name_eqb t0 (t_id O T) then Some T else None
  end.
Proof.
  induction s as [|T0 s IH]; intros T t0; cbn.
  - reflexivity.
  - destruct (name_eqb t0 (t_id O T0)); [reflexivity | apply IH].
Qed.

Lemma find_put_col : forall cs c C' c0, c_id O C' = c ->
  find_col O (put_col O cs c C') c0 =
  if name_eqb c0 c then match find_col O cs c with Some _ => Some C' | None => None end
  else find_col O cs c0.
Proof.
  induction cs as [|C0 cs IH]; intros c C' c0 Hid; cbn.
  - destruct (name_eqb c0 c); reflexivity.
  - name_cases c (c_id O C0).
    + cbn. rewrite Hid. destruct (name_eqb c0 c) eqn:E1; [reflexivity|].
      rewrite <- E. rewrite E1. reflexivity.
    + cbn. name_cases c0 (c_id O C0).
      * subst c0. assert (name_eqb (c_id O C0) c = false) as ->.
        { apply name_eqb_neq. congruence. } reflexivity.
      * apply IH. exact Hid.
Qed.

Lemma find_drop_col : forall cs c c0,
  find_col O (drop_col O cs c) c0 = if name_eqb c0 c then None else find_col O cs c0.
Proof.
  induction cs as [|C0 cs IH]; intros c c0; cbn.
  - destruct (name_eqb c0 c); reflexivity.
  - name_cases c (c_id O C0).
    + rewrite IH. name_cases c0 c; [reflexivity|].
      assert (name_eqb c0 (c_id O C0) = false) as ->; [apply name_eqb_neq; congruence | reflexivity].
    + cbn. name_cases c0 (c_id O C0).
      * assert (name_eqb c0 c = false) as ->; [apply name_eqb_neq; congruence | reflexivity].
      * apply IH.
Qed.

Lemma find_app_col : forall cs C c0,
  find_col O (cs ++ [C]) c0 =
  match find_col O cs c0 with
  | Some x => Some x
  | None => if name_eqb c0 (c_id O C) then Some C else None
  end.
Proof.
  induction cs as [|C0 cs IH]; intros C c0; cbn.
  - reflexivity.
  - destruct (name_eqb c0 (c_id O C0)); [reflexivity | apply IH].
Qed.

Lemma find_map_col : forall (f : column -> column) cs c,
  (forall C, c_id O (f C) = c_id O C) ->
  find_col O (map f cs) c = option_map f (find_col O cs c).
Proof.
  intros f cs c Hf. induction cs as [|C0 cs IH]; cbn; [reflexivity|].
  rewrite Hf. destruct (name_eqb c (c_id O C0)); [reflexivity | exact IH].
Qed.

Lemma find_map_col_none : forall (f : column -> column) cs c,
  (forall C, c_id O (f C) = c_id O C) ->
  (find_col O (map f cs) c = None <-> find_col O cs c = None).
Proof.
  intros f cs c Hf. rewrite find_map_col by exact Hf. destruct (find_col O cs c); cbn; split; congruence.
Qed.

Lemma nodup_names_find : forall cs C,
  nodup_names (map (c_id O) cs) = true -> In C cs -> find_col O cs (c_id O C) = Some C.
Proof.
  induction cs as [|C0 cs IH]; intros C Hnd Hin; [contradiction|].
  cbn in Hnd. apply andb_true_iff in Hnd. destruct Hnd as [Hn Hnd]. cbn.
  destruct Hin as [->|Hin].
  - rewrite name_eqb_refl. reflexivity.
  - name_cases (c_id O C) (c_id O C0).
    + exfalso. apply negb_true_iff in Hn. apply not_true_iff_false in Hn. apply Hn.
      apply nmem_In. rewrite <- E. apply in_map. exact Hin.
    + apply IH; assumption.
Qed.

Lemma find_col_In : forall cs c C, find_col O cs c = Some C -> In C cs.
Proof.
  induction cs as [|C0 cs IH]; intros c C H; cbn in H; [discriminate|].
  destruct (name_eqb c (c_id O C0)).
  - inversion H; subst. left. reflexivity.
  - right. eapply IH. exact H.
Qed.

Lemma find_col_none_notin : forall cs c, find_col O cs c = None <-> ~ In c (map (c_id O) cs).
Proof.
  induction cs as [|C0 cs IH]; intros c; cbn.
  - split; [intros _ [] | reflexivity].
  - name_cases c (c_id O C0).
    + split; [discriminate | intro H; exfalso; apply H; left; congruence].
    + rewrite IH. split; [intros H1 [H2|H2]; [congruence | contradiction] | intros H1 H2; apply H1; right; exact H2].
Qed.

(* ------------------------------------------------------------------------------------------------ *)
(* equivalence of documents: same tables, same column schema (as a map), same row-id sets, every cell
   of every row equal up to encoding -- except the cells in X *)

Definition cellset := name -> name -> Z -> Prop.
Definition no_cells : cellset := fun _ _ _ => False.

Definition col_rel (X : cellset) (t c : name) (rows : list Z) (C1 C2 : option column) : Prop :=
  match C1, C2 with
  | None, None => True
  | Some C1, Some C2 =>
      c_info O C1 = c_info O C2 /\
      forall r, In r rows -> X t c r \/ venc O (col_get O C1 r) (col_get O C2 r) = true
  | _, _ => False
  end.

Definition tab_rel (X : cellset) (t : name) (T1 T2 : table) : Prop :=
  (forall r, In r (t_rows O T1) <-> In r (t_rows O T2)) /\
  forall c, col_rel X t c (t_rows O T1) (find_col O (t_cols O T1) c) (find_col O (t_cols O T2) c).

Definition otab_rel (X : cellset) (t : name) (T1 T2 : option table) : Prop :=
  match T1, T2 with
  | None, None => True
  | Some T1, Some T2 => tab_rel X t T1 T2
  | _, _ => False
  end.

Definition seq_ex (X : cellset) (s1 s2 : state) : Prop :=
  forall t, otab_rel X t (find_table O s1 t) (find_table O s2 t).

Definition seq (s1 s2 : state) : Prop := seq_ex no_cells s1 s2.

Lemma col_rel_refl : forall X t c rows C, col_rel X t c rows C C.
Proof.
  intros X t c rows [C|]; cbn; [|exact I]. split; [reflexivity|]. intros r _. right. apply (venc_refl L).
Qed.

Lemma tab_rel_refl : forall X t T, tab_rel X t T T.
Proof. intros X t T. split; [tauto|]. intro c. apply col_rel_refl. Qed.

Lemma seq_ex_refl : forall X s, seq_ex X s s.
Proof. intros X s t. destruct (find_table O s t); cbn; [apply tab_rel_refl | exact I]. Qed.

Lemma col_rel_sym : forall X t c rows C1 C2, col_rel X t c rows C1 C2 -> col_rel X t c rows C2 C1.
Proof.
  intros X t c rows [C1|] [C2|]; cbn; try tauto. intros [Hi Hc]. split; [congruence|].
  intros r Hr. destruct (Hc r Hr) as [H|H]; [left; exact H | right; apply (venc_sym L); exact H].
Qed.

Lemma tab_rel_sym : forall X t T1 T2, tab_rel X t T1 T2 -> tab_rel X t T2 T1.
Proof.
  intros X t T1 T2 [Hr Hc]. split; [intro r; symmetry; apply Hr|].
  intro c. specialize (Hc c). apply col_rel_sym in Hc.
  destruct (find_col O (t_cols O T2) c), (find_col O (t_cols O T1) c); cbn in *; try tauto.
  destruct Hc as [Hi Hc]. split; [exact Hi|]. intros r Hin. apply Hc. apply Hr. exact Hin.
Qed.

Lemma seq_ex_sym : forall X s1 s2, seq_ex X s1 s2 -> seq_ex X s2 s1.
Proof.
  intros X s1 s2 H t. specialize (H t).
  destruct (find_table O s1 t), (find_table O s2 t); cbn in *; try tauto. apply tab_rel_sym. exact H.
Qed.

Lemma col_rel_trans : forall X Y t c rows C1 C2 C3,
  col_rel X t c rows C1 C2 -> col_rel Y t c rows C2 C3 ->
  col_rel (fun t c r => X t c r \/ Y t c r) t c rows C1 C3.
Proof.
  intros X Y t c rows [C1|] [C2|] [C3|]; cbn; try tauto.
  intros [Hi1 Hc1] [Hi2 Hc2]. split; [congruence|].
  intros r Hr. destruct (Hc1 r Hr) as [H1|H1]; [left; left; exact H1|].
  destruct (Hc2 r Hr) as [H2|H2]; [left; right; exact H2|].
  right. eapply (venc_trans L); eassumption.
Qed.

Lemma tab_rel_trans : forall X Y t T1 T2 T3,
  tab_rel X t T1 T2 -> tab_rel Y t T2 T3 -> tab_rel (fun t c r => X t c r \/ Y t c r) t T1 T3.
Proof.
  intros X Y t T1 T2 T3 [Hr1 Hc1] [Hr2 Hc2]. split.
  - intro r. rewrite Hr1. apply Hr2.
  - intro c. eapply col_rel_trans; [apply Hc1|].
    specialize (Hc2 c).
    destruct (find_col O (t_cols O T2) c), (find_col O (t_cols O T3) c); cbn in *; try tauto.
    destruct Hc2 as [Hi Hc]. split; [exact Hi|]. intros r Hin. apply Hc. apply Hr1. exact Hin.
Qed.

Lemma seq_ex_trans : forall X Y s1 s2 s3,
  seq_ex X s1 s2 -> seq_ex Y s2 s3 -> seq_ex (fun t c r => X t c r \/ Y t c r) s1 s3.
Proof.
  intros X Y s1 s2 s3 H1 H2 t. specialize (H1 t). specialize (H2 t).
  destruct (find_table O s1 t), (find_table O s2 t), (find_table O s3 t); cbn in *; try tauto.
  eapply tab_rel_trans; eassumption.
Qed.

Lemma col_rel_weaken : forall (X Y : cellset) t c rows C1 C2,
  (forall r, X t c r -> Y t c r) -> col_rel X t c rows C1 C2 -> col_rel Y t c rows C1 C2.
Proof.
  intros X Y t c rows [C1|] [C2|] HXY; cbn; try tauto.
  intros [Hi Hc]. split; [exact Hi|]. intros r Hr. destruct (Hc r Hr); [left; apply HXY; assumption | right; assumption].
Qed.

Lemma tab_rel_weaken : forall (X Y : cellset) t T1 T2,
  (forall c r, X t c r -> Y t c r) -> tab_rel X t T1 T2 -> tab_rel Y t T1 T2.
Proof.
  intros X Y t T1 T2 HXY [Hr Hc]. split; [exact Hr|]. intro c. eapply col_rel_weaken; [|apply Hc]. intros r. apply HXY.
Qed.

Lemma seq_ex_weaken : forall (X Y : cellset) s1 s2,
  (forall t c r, X t c r -> Y t c r) -> seq_ex X s1 s2 -> seq_ex Y s1 s2.
Proof.
  intros X Y s1 s2 HXY H t. specialize (H t).
  destruct (find_table O s1 t), (find_table O s2 t); cbn in *; try tauto.
  eapply tab_rel_weaken; [|exact H]. intros c r. apply HXY.
Qed.

Lemma seq_trans : forall s1 s2 s3, seq s1 s2 -> seq s2 s3 -> seq s1 s3.
Proof.
  intros s1 s2 s3 H1 H2. eapply seq_ex_weaken; [|eapply seq_ex_trans; eassumption].
  unfold no_cells. tauto.
Qed.


(* ------------------------------------------------------------------------------------------------ *)
(* well-formed documents: column ids of a table are distinct, none is "id", and every cell of an existing
   row holds a value that Column.set leaves alone (up to encoding) *)

Definition col_normal (C : column) (rows : list Z) : Prop :=
  forall r, In r rows -> venc O (vnorm O (ci_type (c_info O C)) (col_get O C r)) (col_get O C r) = true.

Definition wf_table (T : table) : Prop :=
  nodup_names (map (c_id O) (t_cols O T)) = true /\
  nmem id_name (map (c_id O) (t_cols O T)) = false /\
  forall c C, find_col O (t_cols O T) c = Some C -> col_normal C (t_rows O T).

Definition wf_state (s : state) : Prop := forall t T, find_table O s t = Some T -> wf_table T.

(* ------------------------------------------------------------------------------------------------ *)
(* column dictionaries *)

Fixpoint cols_get (cols : colvals O) (c : name) : option (list V) :=
  match cols with
  | [] => None
  | (c', vs) :: rest => if name_eqb c c' then Some vs else cols_get rest c
  end.

Lemma cols_get_none : forall cols c, cols_get cols c = None <-> ~ In c (map fst cols).
Proof.
  induction cols as [|[c' vs] rest IH]; intro c; cbn.
  - split; [intros _ [] | reflexivity].
  - name_cases c c'.
    + split; [discriminate | intro H; exfalso; apply H; left; congruence].
    + rewrite IH. split; [intros H1 [H2|H2]; [congruence | contradiction] | intros H1 H2; apply H1; right; exact H2].
Qed.

Lemma put_col_ids : forall cs c C', c_id O C' = c -> map (c_id O) (put_col O cs c C') = map (c_id O) cs.
Proof.
  induction cs as [|C0 cs IH]; intros c C' Hid; cbn; [reflexivity|].
  name_cases c (c_id O C0).
  - cbn. congruence.
  - cbn. rewrite IH by exact Hid. reflexivity.
Qed.

(* the cell of column C, row r after `set_columns rows cols` *)
Definition cell_after (rows : list Z) (cols : colvals O) (C : column) (base : Z -> V) (r : Z) : V :=
  match cols_get cols (c_id O C) with
  | Some vals => match set_val rows vals r with
                 | Some v => vnorm O (ci_type (c_info O C)) v
                 | None => base r
                 end
  | None => base r
  end.

Lemma set_columns_spec : forall cols cs rows cs',
  nodup_names (map fst cols) = true ->
  set_columns O cs rows cols = Ok cs' ->
  map (c_id O) cs' = map (c_id O) cs /\
  forall c, match find_col O cs c with
            | None => find_col O cs' c = None
            | Some C => exists C', find_col O cs' c = Some C' /\ c_info O C' = c_info O C /\
                                   forall r, col_get O C' r = cell_after rows cols C (col_get O C) r
            end.
Proof.
  induction cols as [|[c0 vals] rest IH]; intros cs rows cs' Hnd H; cbn in H.
  - assert (cs' = cs) by congruence. subst cs'. split; [reflexivity|]. intro c.
    destruct (find_col O cs c) as [C|] eqn:E; [|reflexivity].
    exists C. repeat split.
  - destruct (find_col O cs c0) as [C0|] eqn:E0; [|discriminate].
    cbn in Hnd. apply andb_true_iff in Hnd. destruct Hnd as [Hn Hnd].
    pose proof (find_col_id _ _ _ E0) as Hid0.
    specialize (IH _ _ _ Hnd H). destruct IH as [Hids IH].
    split.
    { rewrite Hids. apply put_col_ids. rewrite col_set_many_id. exact Hid0. }
    intro c. specialize (IH c).
    rewrite find_put_col in IH by (rewrite col_set_many_id; exact Hid0).
    name_cases c c0.
    + subst c. rewrite E0 in *. destruct IH as [C' [Hf [Hi Hc]]]. exists C'. split; [exact Hf|].
      split; [rewrite Hi; apply col_set_many_info|].
      intro r. rewrite Hc. unfold cell_after. rewrite col_set_many_id, col_set_many_info.
      rewrite Hid0. cbn. rewrite name_eqb_refl.
      assert (cols_get rest c0 = None) as ->.
      { apply cols_get_none. intro Hin. apply nmem_In in Hin. rewrite Hin in Hn. discriminate. }
      apply col_get_set_many.
    + destruct (find_col O cs c) as [C|] eqn:Ec; [|exact IH].
      destruct IH as [C' [Hf [Hi Hc]]]. exists C'. repeat split; try assumption.
      intro r. rewrite Hc. unfold cell_after. cbn.
      rewrite (find_col_id _ _ _ Ec). rewrite E. reflexivity.
Qed.

Lemma set_columns_ok_iff : forall cols cs rows,
  (exists cs', set_columns O cs rows cols = Ok cs') <-> (forall c, In c (map fst cols) -> find_col O cs c <> None).
Proof.
  induction cols as [|[c0 vals] rest IH]; intros cs rows; cbn.
  - split; [intros _ c [] | intros _; eauto].
  - destruct (find_col O cs c0) as [C0|] eqn:E0.
    + rewrite IH. pose proof (find_col_id _ _ _ E0) as Hid0. split.
      * intros H c [Hc|Hc]; [subst; congruence|].
        specialize (H c Hc). rewrite find_put_col in H by (rewrite col_set_many_id; exact Hid0).
        name_cases c c0; [subst; congruence | exact H].
      * intros H c Hc. rewrite find_put_col by (rewrite col_set_many_id; exact Hid0).
        name_cases c c0; [rewrite E0; discriminate | apply H; right; exact Hc].
    + split; [intros [cs' H]; discriminate | intro H; exfalso; apply (H c0); [left; reflexivity | exact E0]].
Qed.

Lemma old_values_spec : forall cols cs rows ov,
  old_values O cs rows cols = Ok ov ->
  map fst ov = map fst cols /\
  forall c, cols_get ov c =
            match cols_get cols c with
            | None => None
            | Some _ => match find_col O cs c with
                        | Some C => Some (map (col_get O C) rows)
                        | None => None
                        end
            end.
Proof.
  induction cols as [|[c0 vals] rest IH]; intros cs rows ov H; cbn in H.
  - inversion H; subst. split; reflexivity.
  - destruct (find_col O cs c0) as [C0|] eqn:E0; [|discriminate].
    destruct (old_values O cs rows rest) as [tl|] eqn:E1; cbn in H; [|discriminate].
    inversion H; subst. destruct (IH _ _ _ E1) as [Hk Hg]. split; [cbn; congruence|].
    intro c. cbn. name_cases c c0; [subst; rewrite E0; reflexivity | apply Hg].
Qed.

Lemma old_values_ok : forall cols cs rows,
  (forall c, In c (map fst cols) -> find_col O cs c <> None) -> exists ov, old_values O cs rows cols = Ok ov.
Proof.
  induction cols as [|[c0 vals] rest IH]; intros cs rows H; cbn.
  - eauto.
  - destruct (find_col O cs c0) as [C0|] eqn:E0.
    + destruct (IH cs rows) as [ov Hov]; [intros c Hc; apply H; right; exact Hc|]. rewrite Hov. cbn. eauto.
    + exfalso. apply (H c0); [left; reflexivity | exact E0].
Qed.

Lemma old_values_ok_inv : forall cols cs rows ov,
  old_values O cs rows cols = Ok ov -> forall c, In c (map fst cols) -> find_col O cs c <> None.
Proof.
  induction cols as [|[c0 vals] rest IH]; intros cs rows ov H c Hc; cbn in *; [contradiction|].
  destruct (find_col O cs c0) as [C0|] eqn:E0; [|discriminate].
  destruct (old_values O cs rows rest) as [tl|] eqn:E1; cbn in H; [|discriminate].
  destruct Hc as [<-|Hc]; [congruence | eapply IH; eassumption].
Qed.

(* Engine.add_records *)
Definition add_base (rows : list Z) (C : column) (r : Z) : V :=
  if zmem r rows then vnorm O (ci_type (c_info O C)) (col_default O C) else col_get O C r.

Lemma add_records_spec : forall T rows cols T',
  nodup_names (map fst cols) = true ->
  add_records O T rows cols = Ok T' ->
  t_id O T' = t_id O T /\
  (forall r, In r (t_rows O T') <-> In r rows \/ In r (t_rows O T)) /\
  map (c_id O) (t_cols O T') = map (c_id O) (t_cols O T) /\
  forall c, match find_col O (t_cols O T) c with
            | None => find_col O (t_cols O T') c = None
            | Some C => exists C', find_col O (t_cols O T') c = Some C' /\ c_info O C' = c_info O C /\
                                   forall r, col_get O C' r = cell_after rows cols C (add_base rows C) r
            end.
Proof.
  intros T rows cols T' Hnd H. unfold add_records in H.
  destruct (set_columns O (map (fun C => col_unset_many O C rows) (t_cols O T)) rows cols) as [cs|] eqn:E; cbn in H; [|discriminate].
  inversion H; subst; clear H. cbn.
  destruct (set_columns_spec _ _ _ _ Hnd E) as [Hids Hc].
  split; [reflexivity|]. split; [intro r; apply fold_zinsert_In|].
  split.
  { rewrite Hids. rewrite map_map. apply map_ext. intro C. apply col_unset_many_id. }
  intro c. specialize (Hc c).
  rewrite find_map_col in Hc by (intro; apply col_unset_many_id).
  destruct (find_col O (t_cols O T) c) as [C|] eqn:Ec; cbn in Hc; [|exact Hc].
  destruct Hc as [C' [Hf [Hi Hg]]]. exists C'. split; [exact Hf|]. split; [rewrite Hi; apply col_unset_many_info|].
  intro r. rewrite Hg. unfold cell_after. rewrite col_unset_many_id, col_unset_many_info.
  unfold add_base. rewrite col_get_unset_many. reflexivity.
Qed.

Lemma add_records_ok_iff : forall T rows cols,
  (exists T', add_records O T rows cols = Ok T') <->
  (forall c, In c (map fst cols) -> find_col O (t_cols O T) c <> None).
Proof.
  intros T rows cols. unfold add_records.
  pose proof (set_columns_ok_iff cols (map (fun C => col_unset_many O C rows) (t_cols O T)) rows) as Hs.
  split.
  - intros [T' H] c Hc.
    destruct (set_columns O (map (fun C => col_unset_many O C rows) (t_cols O T)) rows cols) as [cs|] eqn:E; cbn in H; [|discriminate].
    pose proof (proj1 Hs (ex_intro _ cs eq_refl) c Hc) as Hn. intro Hnone. apply Hn.
    apply find_map_col_none; [intro; apply col_unset_many_id | exact Hnone].
  - intro H. destruct (proj2 Hs) as [cs Hcs].
    + intros c Hc Hnone. apply (H c Hc). eapply find_map_col_none; [|exact Hnone]. intro; apply col_unset_many_id.
    + rewrite Hcs. cbn. eauto.
Qed.


(* ------------------------------------------------------------------------------------------------ *)
(* each doc action followed by the undo actions it appended (walked in reverse, as ApplyUndoActions does)
   gives back the document -- except the cells in `lossy a s`, which the engine restores through the
   calc summary (formula column removed), by recalculation (ReplaceTableData) or by the conversion delta of
   doModifyColumn (type change) *)

Definition lossy (a : action) (s : state) : cellset :=
  match a with
  | RemoveColumn _ t c =>
      fun t' c' _ => t' = t /\ c' = c /\
        exists T C, find_table O s t = Some T /\ find_col O (t_cols O T) c = Some C /\ ci_isformula (c_info O C) = true
  | ReplaceTableData _ t _ _ =>
      fun t' c' _ => t' = t /\
        exists T C, find_table O s t = Some T /\ find_col O (t_cols O T) c' = Some C /\ ci_isformula (c_info O C) = true
  | ModifyColumn _ t c m =>
      fun t' c' _ => t' = t /\ c' = c /\
        exists T C, find_table O s t = Some T /\ find_col O (t_cols O T) c = Some C /\
                    ci_type (apply_modinfo m (c_info O C)) <> ci_type (c_info O C)
  | _ => no_cells
  end.

Definition undo_ok (a : action) (s : state) : Prop :=
  forall s' u ops, apply_doc O a s = Ok (s', (u, ops)) ->
  exists s'', replay_doc O (rev u) s' = Ok s'' /\ seq_ex (lossy a s) s'' s.

Lemma seq_ex_put2 : forall X s t T T1 T2,
  find_table O s t = Some T -> t_id O T1 = t -> t_id O T2 = t -> tab_rel X t T2 T ->
  seq_ex X (put_table O (put_table O s t T1) t T2) s.
Proof.
  intros X s t T T1 T2 Hf H1 H2 Hr t0. rewrite !find_put_table by assumption.
  name_cases t0 t.
  - subst t0. rewrite name_eqb_refl, Hf. cbn. exact Hr.
  - destruct (find_table O s t0); cbn; [apply tab_rel_refl | exact I].
Qed.

Lemma seq_ex_put1 : forall X s t T T1,
  find_table O s t = Some T -> t_id O T1 = t -> tab_rel X t T1 T -> seq_ex X (put_table O s t T1) s.
Proof.
  intros X s t T T1 Hf H1 Hr t0. rewrite find_put_table by exact H1.
  name_cases t0 t.
  - subst t0. rewrite Hf. cbn. exact Hr.
  - destruct (find_table O s t0); cbn; [apply tab_rel_refl | exact I].
Qed.

Lemma undo_AddTable : forall s t cols, undo_ok (AddTable O t cols) s.
Proof.
  intros s t cols s' u ops H. cbn in H.
  destruct (find_table O s t) eqn:Ef; [discriminate|].
  destruct (negb (nodup_names (map fst cols)) || nmem id_name (map fst cols)); [discriminate|].
  inversion H; subst; clear H. cbn.
  rewrite find_app_table, Ef. cbn. rewrite name_eqb_refl. cbn.
  eexists. split; [reflexivity|].
  intro t0. rewrite find_drop_table, find_app_table. name_cases t0 t.
  - subst. rewrite Ef. exact I.
  - cbn. rewrite E. destruct (find_table O s t0); cbn; [apply tab_rel_refl | exact I].
Qed.

Lemma undo_RenameTable : forall s old new, undo_ok (RenameTable O old new) s.
Proof.
  intros s old new s' u ops H. cbn in H.
  destruct (find_table O s old) as [T|] eqn:Eo; [|discriminate].
  destruct (find_table O s new) eqn:En; [discriminate|].
  inversion H; subst; clear H. cbn.
  assert (Hne : old <> new) by (intro; subst; congruence).
  rewrite find_app_table, find_drop_table. cbn.
  assert (name_eqb new old = false) as Eno by (apply name_eqb_neq; congruence).
  rewrite Eno, En, name_eqb_refl.
  rewrite find_app_table, find_drop_table, name_eqb_refl. cbn.
  assert (name_eqb old new = false) as Eon by (apply name_eqb_neq; congruence).
  rewrite Eon. cbn.
  eexists. split; [reflexivity|].
  intro t0. rewrite find_app_table, find_drop_table, find_app_table, find_drop_table. cbn.
  name_cases t0 new.
  - subst. rewrite Eno, En. exact I.
  - name_cases t0 old.
    + subst. rewrite Eo. cbn. split; cbn; [tauto|]. intro c. apply col_rel_refl.
    + destruct (find_table O s t0); cbn; [apply tab_rel_refl | exact I].
Qed.

Lemma find_col_mk_infos : forall cs c,
  find_col O (map (fun ci => mkCol O (fst ci) (snd ci) []) (map (col_to_info O) cs)) c =
  option_map (fun C => mkCol O (c_id O C) (c_info O C) []) (find_col O cs c).
Proof.
  induction cs as [|C0 cs IH]; intro c; cbn; [reflexivity|].
  destruct (name_eqb c (c_id O C0)); [reflexivity | apply IH].
Qed.

Lemma colvals_ok_data : forall cs rows (f : column -> list V),
  nodup_names (map (c_id O) cs) = true -> nmem id_name (map (c_id O) cs) = false ->
  (forall C, length (f C) = length rows) ->
  colvals_ok O rows (map (fun C => (c_id O C, f C)) cs) = true.
Proof.
  intros cs rows f Hnd Hid Hl. unfold colvals_ok.
  assert (map fst (map (fun C => (c_id O C, f C)) cs) = map (c_id O) cs) as ->
    by (rewrite map_map; apply map_ext; reflexivity).
  rewrite Hnd, Hid. cbn. rewrite andb_true_r.
  apply forallb_forall. intros kv Hin. apply in_map_iff in Hin. destruct Hin as [C [<- _]]. cbn.
  apply Nat.eqb_eq. apply Hl.
Qed.

Lemma cols_get_data : forall cs (f : column -> list V) c,
  cols_get (map (fun C => (c_id O C, f C)) cs) c = option_map f (find_col O cs c).
Proof.
  induction cs as [|C0 cs IH]; intros f c; cbn; [reflexivity|].
  destruct (name_eqb c (c_id O C0)); [reflexivity | apply IH].
Qed.

Lemma none_in_nil : forall rows, none_in rows [] = true.
Proof. intro rows. unfold none_in. apply forallb_forall. intros; reflexivity. Qed.

Lemma match_nonnil : forall (A B : Type) (l : list A) (x y : B),
  l <> [] -> match l with [] => x | _ :: _ => y end = y.
Proof. intros A B [|a l] x y H; [contradiction | reflexivity]. Qed.

Lemma undo_RemoveTable : forall s t, wf_state s -> undo_ok (RemoveTable O t) s.
Proof.
  intros s t Hwf s' u ops H. cbn in H.
  destruct (find_table O s t) as [T|] eqn:Ef; [|discriminate].
  destruct (Hwf _ _ Ef) as [Hnd [Hnoid Hnorm]].
  pose proof (find_table_id _ _ _ Ef) as Hid.
  assert (Hadd : apply_doc O (AddTable O t (map (col_to_info O) (t_cols O T))) (drop_table O s t) =
          Ok (drop_table O s t ++ [mkTab O t [] (map (fun ci => mkCol O (fst ci) (snd ci) []) (map (col_to_info O) (t_cols O T)))],
              ([RemoveTable O t], [SRenameTable O None t]))).
  { cbn. rewrite find_drop_table, name_eqb_refl.
    assert (map fst (map (col_to_info O) (t_cols O T)) = map (c_id O) (t_cols O T)) as ->
      by (rewrite map_map; apply map_ext; reflexivity).
    rewrite Hnd, Hnoid. reflexivity. }
  set (Tn := mkTab O t [] (map (fun ci => mkCol O (fst ci) (snd ci) []) (map (col_to_info O) (t_cols O T)))) in *.
  set (data := map (fun C => (c_id O C, map (col_get O C) (t_rows O T))) (t_cols O T)) in *.
  assert (Hseq0 : forall T', t_id O T' = t -> tab_rel no_cells t T' T ->
                  seq_ex no_cells (put_table O (drop_table O s t ++ [Tn]) t T') s).
  { intros T' Hid' Hrel t0. rewrite find_put_table by exact Hid'.
    rewrite !find_app_table, !find_drop_table. unfold Tn. cbn [t_id]. name_cases t0 t.
    - subst t0. rewrite !name_eqb_refl. rewrite Ef. exact Hrel.
    - destruct (find_table O s t0); cbn; [apply tab_rel_refl | exact I]. }
  destruct (list_eq_dec Z.eq_dec (t_rows O T) []) as [Hnil|Hne].
  - rewrite Hnil in H. inversion H; subst s' u ops; clear H. cbn [rev app replay_doc]. rewrite Hadd. cbn [bind fst].
    eexists. split; [reflexivity|].
    intro t0. rewrite find_app_table, find_drop_table. name_cases t0 t.
    + subst t0. unfold Tn. cbn [t_id]. rewrite name_eqb_refl, Ef. cbn [otab_rel]. split; [intro r; cbn; rewrite Hnil; tauto|]. cbn [t_cols t_rows].
      intro c. rewrite find_col_mk_infos. destruct (find_col O (t_cols O T) c); cbn; [|exact I].
      split; [reflexivity|]. intros r [].
    + unfold Tn. cbn [t_id]. rewrite E. destruct (find_table O s t0); cbn; [apply tab_rel_refl | exact I].
  - rewrite match_nonnil in H by exact Hne. inversion H; subst s' u ops; clear H.
    cbn [rev app replay_doc]. rewrite Hadd. cbn [bind fst].
    assert (Hok : colvals_ok O (t_rows O T) data = true).
    { apply colvals_ok_data; try assumption. intro C. apply map_length. }
    assert (Hndk : nodup_names (map fst data) = true).
    { unfold data. rewrite <- Hnd. f_equal. rewrite map_map. apply map_ext. reflexivity. }
    destruct (proj2 (add_records_ok_iff Tn (t_rows O T) data)) as [T' HT'].
    { intros c Hc. unfold data in Hc. rewrite map_map in Hc. cbn in Hc.
      assert (Hc' : In c (map (c_id O) (t_cols O T))) by (erewrite map_ext; [exact Hc | reflexivity]).
      unfold Tn. cbn [t_cols]. rewrite find_col_mk_infos.
      destruct (find_col O (t_cols O T) c) eqn:E; [cbn; discriminate|].
      apply find_col_none_notin in E. contradiction. }
    destruct (add_records_spec _ _ _ _ Hndk HT') as [Hid' [Hrows [_ Hcols]]].
    assert (Hstep : apply_doc O (BulkAddRecord O t (t_rows O T) data) (drop_table O s t ++ [Tn]) =
                    Ok (put_table O (drop_table O s t ++ [Tn]) t T',
                        ([BulkRemoveRecord O t (t_rows O T)], [SAddRecords O t (t_rows O T)]))).
    { unfold apply_doc. rewrite find_app_table, find_drop_table, name_eqb_refl.
      unfold Tn at 1. cbn [t_id]. rewrite name_eqb_refl.
      rewrite Hok. rewrite (match_nonnil _ _ _ true false Hne). cbn [negb orb].
      unfold Tn at 1. cbn [t_rows]. rewrite none_in_nil. cbn [negb]. rewrite HT'. reflexivity. }
    rewrite Hstep. cbn [bind fst].
    eexists. split; [reflexivity|].
    eapply seq_ex_weaken; [|apply Hseq0].
    + intros ? ? ? [].
    + rewrite Hid'. reflexivity.
    + split.
      * intro r. rewrite Hrows. unfold Tn. cbn. tauto.
      * intro c. specialize (Hcols c). unfold Tn in Hcols. cbn [t_cols] in Hcols. rewrite find_col_mk_infos in Hcols.
        destruct (find_col O (t_cols O T) c) as [C|] eqn:Ec; cbn in Hcols.
        -- destruct Hcols as [C' [Hf' [Hi' Hg']]]. rewrite Hf'. cbn. split; [exact Hi'|].
           intros r Hr. right. rewrite Hg'. unfold cell_after. cbn [c_id c_info].
           unfold data. rewrite cols_get_data. rewrite (find_col_id _ _ _ Ec), Ec. cbn.
           rewrite set_val_map. apply Hrows in Hr. unfold Tn in Hr. cbn in Hr. destruct Hr as [Hr|[]].
           rewrite (proj2 (zmem_In _ _) Hr). apply (Hnorm _ _ Ec). exact Hr.
        -- rewrite Hcols. exact I.
Qed.


Lemma find_put_same : forall s t T T1,
  find_table O s t = Some T -> t_id O T1 = t -> find_table O (put_table O s t T1) t = Some T1.
Proof. intros s t T T1 Hf Hid. rewrite find_put_table by exact Hid. rewrite name_eqb_refl, Hf. reflexivity. Qed.

Lemma has_column_false : forall T c,
  has_column O T c = false <-> c <> id_name /\ find_col O (t_cols O T) c = None.
Proof.
  intros T c. unfold has_column. name_cases c id_name; cbn.
  - split; [discriminate | intros [Hc _]; contradiction].
  - destruct (find_col O (t_cols O T) c); split; try discriminate; try tauto. intros [_ Hc]. discriminate.
Qed.

Lemma wf_col_not_id : forall T c C, wf_table T -> find_col O (t_cols O T) c = Some C -> c <> id_name.
Proof.
  intros T c C [_ [Hnoid _]] Hf Heq. subst c.
  assert (nmem id_name (map (c_id O) (t_cols O T)) = true); [|congruence].
  apply nmem_In. rewrite <- (find_col_id _ _ _ Hf). apply in_map. eapply find_col_In. exact Hf.
Qed.

Lemma apply_RemoveColumn_state : forall s t c T C,
  find_table O s t = Some T -> find_col O (t_cols O T) c = Some C ->
  exists u ops, apply_doc O (RemoveColumn O t c) s =
                Ok (put_table O s t (mkTab O (t_id O T) (t_rows O T) (drop_col O (t_cols O T) c)), (u, ops)).
Proof.
  intros s t c T C Hf Hc. unfold apply_doc. rewrite Hf, Hc.
  destruct (filter _ _); [eauto|]. destruct (ci_isformula (c_info O C)); eauto.
Qed.

Lemma undo_AddColumn : forall s t c info, undo_ok (AddColumn O t c info) s.
Proof.
  intros s t c info s' u ops H. cbn in H.
  destruct (find_table O s t) as [T|] eqn:Ef; [|discriminate].
  destruct (has_column O T c) eqn:Eh; [discriminate|].
  apply has_column_false in Eh. destruct Eh as [Hnid Hnc].
  pose proof (find_table_id _ _ _ Ef) as Hid.
  inversion H; subst s' u ops; clear H. cbn [rev app replay_doc].
  set (T1 := mkTab O (t_id O T) (t_rows O T) (t_cols O T ++ [mkCol O c info []])).
  assert (Hf1 : find_table O (put_table O s t T1) t = Some T1) by (eapply find_put_same; eassumption).
  assert (Hc1 : find_col O (t_cols O T1) c = Some (mkCol O c info [])).
  { unfold T1. cbn [t_cols]. rewrite find_app_col, Hnc. cbn [c_id]. rewrite name_eqb_refl. reflexivity. }
  destruct (apply_RemoveColumn_state _ _ _ _ _ Hf1 Hc1) as [u' [ops' Hstep]].
  rewrite Hstep. cbn [bind fst].
  eexists. split; [reflexivity|].
  eapply seq_ex_put2; try eassumption; try reflexivity.
  unfold T1. cbn [t_id t_rows t_cols]. split; [cbn; tauto|].
  intro c0. cbn [t_cols t_rows]. rewrite find_drop_col, find_app_col. cbn [c_id].
  name_cases c0 c.
  - subst c0. rewrite Hnc. exact I.
  - destruct (find_col O (t_cols O T) c0); cbn; [|exact I].
    split; [reflexivity|]. intros r _. right. apply (venc_refl L).
Qed.

Lemma undo_RenameColumn : forall s t old new, wf_state s -> undo_ok (RenameColumn O t old new) s.
Proof.
  intros s t old new Hwf s' u ops H. cbn in H.
  destruct (find_table O s t) as [T|] eqn:Ef; [|discriminate].
  destruct (find_col O (t_cols O T) old) as [C|] eqn:Ec; [|discriminate].
  destruct (has_column O T new) eqn:Eh; [discriminate|].
  apply has_column_false in Eh. destruct Eh as [Hnid Hnc].
  pose proof (find_table_id _ _ _ Ef) as Hid.
  pose proof (wf_col_not_id _ _ _ (Hwf _ _ Ef) Ec) as Hoid.
  assert (Hne : old <> new) by (intro; subst; congruence).
  assert (Eon : name_eqb old new = false) by (apply name_eqb_neq; exact Hne).
  assert (Eno : name_eqb new old = false) by (apply name_eqb_neq; congruence).
  inversion H; subst s' u ops; clear H. cbn [rev app replay_doc].
  set (N := mkCol O new (c_info O C) (c_data O C)).
  set (T1 := mkTab O (t_id O T) (t_rows O T) (drop_col O (t_cols O T) old ++ [N])).
  assert (Hf1 : find_table O (put_table O s t T1) t = Some T1) by (eapply find_put_same; eassumption).
  assert (Hstep : apply_doc O (RenameColumn O t new old) (put_table O s t T1) =
          Ok (put_table O (put_table O s t T1) t
                (mkTab O (t_id O T) (t_rows O T) (drop_col O (t_cols O T1) new ++ [mkCol O old (c_info O C) (c_data O C)])),
              ([RenameColumn O t old new], [SRenameColumn O t (Some new) old]))).
  { unfold apply_doc. rewrite Hf1.
    assert (find_col O (t_cols O T1) new = Some N) as ->.
    { unfold T1. cbn [t_cols]. rewrite find_app_col, find_drop_col, Eno, Hnc. unfold N. cbn [c_id].
      rewrite name_eqb_refl. reflexivity. }
    assert (has_column O T1 old = false) as ->.
    { apply has_column_false. split; [exact Hoid|]. unfold T1. cbn [t_cols].
      rewrite find_app_col, find_drop_col, name_eqb_refl. unfold N. cbn [c_id]. rewrite Eon. reflexivity. }
    reflexivity. }
  rewrite Hstep. cbn [bind fst].
  eexists. split; [reflexivity|].
  eapply seq_ex_put2; try eassumption; try reflexivity.
  split; [cbn; tauto|].
  intro c0. unfold T1. cbn [t_cols t_rows].
  rewrite find_app_col, find_drop_col, find_app_col, find_drop_col. unfold N. cbn [c_id].
  name_cases c0 new.
  - subst c0. rewrite Eno, Hnc. exact I.
  - name_cases c0 old.
    + subst c0. rewrite Ec. cbn. split; [reflexivity|]. intros r _. right.
      unfold col_get, col_default. cbn. apply (venc_refl L).
    + destruct (find_col O (t_cols O T) c0); cbn; [|exact I].
      split; [reflexivity|]. intros r _. right. apply (venc_refl L).
Qed.


Lemma oname_eqb_eq : forall a b, oname_eqb a b = true <-> a = b.
Proof.
  intros [a|] [b|]; cbn; split; intro H; try congruence; try discriminate.
  - apply name_eqb_eq in H. congruence.
  - inversion H. apply name_eqb_refl.
Qed.

Lemma colinfo_eqb_eq : forall a b, colinfo_eqb a b = true <-> a = b.
Proof.
  intros [t1 f1 x1 r1] [t2 f2 x2 r2]. unfold colinfo_eqb. cbn. split.
  - intro H. repeat (apply andb_true_iff in H; destruct H as [H ?]).
    apply name_eqb_eq in H. apply Bool.eqb_prop in H2. apply name_eqb_eq in H1. apply oname_eqb_eq in H0. congruence.
  - intro H. inversion H; subst. rewrite !name_eqb_refl, Bool.eqb_reflx. cbn. apply oname_eqb_eq. reflexivity.
Qed.

Lemma undo_modinfo_restores : forall m old, apply_modinfo (undo_modinfo m old) (apply_modinfo m old) = old.
Proof.
  intros [mt mf mx mr] [t f x r]. unfold apply_modinfo, undo_modinfo. cbn.
  destruct mt, mf, mx, mr; reflexivity.
Qed.

Lemma filter_pairs : forall (f : Z -> V) (P : Z * V -> bool) rows,
  let uv := filter P (map (fun r => (r, f r)) rows) in
  map snd uv = map f (map fst uv) /\
  (forall r, In r (map fst uv) -> In r rows) /\
  (forall r, In r rows -> In r (map fst uv) \/ P (r, f r) = false).
Proof.
  intros f P rows. induction rows as [|r0 rows IH]; cbn.
  - repeat split; try tauto.
  - destruct IH as [H1 [H2 H3]]. destruct (P (r0, f r0)) eqn:EP; cbn.
    + split; [f_equal; exact H1|]. split.
      * intros r [Hr|Hr]; [left; exact Hr | right; apply H2; exact Hr].
      * intros r [Hr|Hr]; [left; left; exact Hr|]. destruct (H3 r Hr); [left; right; assumption | right; assumption].
    + split; [exact H1|]. split.
      * intros r Hr. right. apply H2. exact Hr.
      * intros r [Hr|Hr]; [subst; right; exact EP | apply H3; exact Hr].
Qed.

Lemma all_in_iff : forall rows have, all_in rows have = true <-> forall r, In r rows -> In r have.
Proof.
  intros rows have. unfold all_in. rewrite forallb_forall. split; intros H r Hr.
  - apply zmem_In. apply H. exact Hr.
  - apply zmem_In. apply H. exact Hr.
Qed.

Lemma none_in_iff : forall rows have, none_in rows have = true <-> forall r, In r rows -> ~ In r have.
Proof.
  intros rows have. unfold none_in. rewrite forallb_forall. split; intros H r Hr.
  - apply zmem_false. apply negb_true_iff. apply H. exact Hr.
  - apply negb_true_iff. apply zmem_false. apply H. exact Hr.
Qed.

Lemma apply_BulkUpdate_ok : forall s t T rows cols,
  find_table O s t = Some T -> colvals_ok O rows cols = true -> rows <> [] ->
  all_in rows (t_rows O T) = true ->
  (forall c, In c (map fst cols) -> find_col O (t_cols O T) c <> None) ->
  exists cs u, set_columns O (t_cols O T) rows cols = Ok cs /\
               apply_doc O (BulkUpdateRecord O t rows cols) s =
               Ok (put_table O s t (mkTab O (t_id O T) (t_rows O T) cs), (u, [])).
Proof.
  intros s t T rows cols Hf Hok Hne Hall Hcols.
  destruct (proj2 (set_columns_ok_iff cols (t_cols O T) rows) Hcols) as [cs Hcs].
  destruct (old_values_ok cols (t_cols O T) rows Hcols) as [ov Hov].
  exists cs. eexists. split; [exact Hcs|].
  unfold apply_doc. rewrite Hf, Hok. rewrite (match_nonnil _ _ _ true false Hne). cbn [negb orb].
  rewrite Hall. cbn [negb]. rewrite Hov, Hcs. reflexivity.
Qed.

Lemma find_put_other : forall s t T' t0,
  t0 <> t -> t_id O T' = t -> find_table O (put_table O s t T') t0 = find_table O s t0.
Proof.
  intros s t T' t0 Hne Hid. rewrite find_put_table by exact Hid.
  assert (name_eqb t0 t = false) as -> by (apply name_eqb_neq; exact Hne). reflexivity.
Qed.

Lemma seq_ex_put_gen : forall X s s1 t T T1 T',
  find_table O s t = Some T -> find_table O s1 t = Some T1 ->
  (forall t0, t0 <> t -> find_table O s1 t0 = find_table O s t0) ->
  t_id O T' = t -> tab_rel X t T' T -> seq_ex X (put_table O s1 t T') s.
Proof.
  intros X s s1 t T T1 T' Hf Hf1 Hoth Hid Hrel t0. rewrite find_put_table by exact Hid.
  name_cases t0 t.
  - subst t0. rewrite Hf1, Hf. exact Hrel.
  - rewrite Hoth by assumption. destruct (find_table O s t0); cbn; [apply tab_rel_refl | exact I].
Qed.

Lemma undo_RemoveColumn : forall s t c, wf_state s -> undo_ok (RemoveColumn O t c) s.
Proof.
  intros s t c Hwf s' u ops H. unfold apply_doc in H.
  destruct (find_table O s t) as [T|] eqn:Ef; [|discriminate].
  destruct (find_col O (t_cols O T) c) as [C|] eqn:Ec; [|discriminate].
  pose proof (find_table_id _ _ _ Ef) as Hid.
  pose proof (Hwf _ _ Ef) as HwfT.
  pose proof (wf_col_not_id _ _ _ HwfT Ec) as Hcid.
  destruct HwfT as [Hnd [Hnoid Hnorm]].
  set (P := fun rv : Z * V => negb (vstrict O (snd rv) (col_default O C))) in *.
  destruct (filter_pairs (col_get O C) P (t_rows O T)) as [Hvals [Hsub Hcov]].
  remember (filter P (map (fun r => (r, col_get O C r)) (t_rows O T))) as uv eqn:Euv.
  set (T1 := mkTab O (t_id O T) (t_rows O T) (drop_col O (t_cols O T) c)) in *.
  set (N := mkCol O c (c_info O C) []).
  set (T2 := mkTab O (t_id O T) (t_rows O T) (drop_col O (t_cols O T) c ++ [N])).
  assert (Hf1 : find_table O (put_table O s t T1) t = Some T1) by (eapply find_put_same; eassumption).
  assert (Hadd : apply_doc O (AddColumn O t c (c_info O C)) (put_table O s t T1) =
                 Ok (put_table O (put_table O s t T1) t T2, ([RemoveColumn O t c], [SRenameColumn O t None c]))).
  { unfold apply_doc. rewrite Hf1.
    assert (has_column O T1 c = false) as ->.
    { apply has_column_false. split; [exact Hcid|]. unfold T1. cbn [t_cols]. rewrite find_drop_col, name_eqb_refl. reflexivity. }
    reflexivity. }
  assert (HfN : forall c0, find_col O (t_cols O T2) c0 =
                           if name_eqb c0 c then Some N else find_col O (t_cols O T) c0).
  { intro c0. unfold T2. cbn [t_cols]. rewrite find_app_col, find_drop_col. unfold N. cbn [c_id].
    destruct (name_eqb c0 c); [reflexivity|]. destruct (find_col O (t_cols O T) c0); reflexivity. }
  assert (Hdef : forall r, In r (t_rows O T) -> ~ In r (map fst uv) ->
                 venc O (col_default O N) (col_get O C r) = true).
  { intros r Hr Hnin. destruct (Hcov r Hr) as [Hin|HP]; [contradiction|].
    unfold P in HP. cbn in HP. apply negb_false_iff in HP. apply (venc_sym L). apply (vstrict_enc L). exact HP. }
  assert (Hrel2 : forall X : cellset, (forall r, In r (map fst uv) -> X t c r) -> tab_rel X t T2 T).
  { intros X HX. split; [cbn; tauto|]. intro c0. rewrite HfN. cbn [t_rows T2].
    name_cases c0 c.
    - subst c0. rewrite Ec. cbn. split; [reflexivity|]. intros r Hr.
      destruct (in_dec Z.eq_dec r (map fst uv)) as [Hin|Hnin]; [left; apply HX; exact Hin|].
      right. apply Hdef; assumption.
    - destruct (find_col O (t_cols O T) c0); cbn; [|exact I].
      split; [reflexivity|]. intros r _. right. apply (venc_refl L). }
  clear Euv.
  destruct uv as [|rv0 uv0].
  - (* nothing to restore *)
    inversion H; subst s' u ops; clear H. cbn [rev app replay_doc]. rewrite Hadd. cbn [bind fst].
    eexists. split; [reflexivity|].
    eapply seq_ex_put2; try eassumption; try reflexivity. apply Hrel2. intros r [].
  - remember (map fst (rv0 :: uv0)) as rows2 eqn:Er2.
    remember (map snd (rv0 :: uv0)) as vals2 eqn:Ev2.
    destruct (ci_isformula (c_info O C)) eqn:Eform.
    + (* formula column: restored through the summary *)
      inversion H; subst s' u ops; clear H. cbn [rev app replay_doc]. rewrite Hadd. cbn [bind fst].
      eexists. split; [reflexivity|].
      eapply seq_ex_put2; try eassumption; try reflexivity. apply Hrel2.
      intros r _. cbn. split; [reflexivity|]. split; [reflexivity|]. exists T, C. auto.
    + (* data column: BulkUpdateRecord after the AddColumn *)
      inversion H; subst s' u ops; clear H. cbn [rev app replay_doc]. rewrite Hadd. cbn [bind fst].
      assert (Hf2 : find_table O (put_table O (put_table O s t T1) t T2) t = Some T2)
        by (eapply find_put_same; [exact Hf1 | exact Hid]).
      assert (Hne : rows2 <> []) by (rewrite Er2; discriminate).
      assert (Hlen : length vals2 = length rows2) by (rewrite Er2, Ev2, !map_length; reflexivity).
      assert (Hok : colvals_ok O rows2 [(c, vals2)] = true).
      { unfold colvals_ok. cbn [map fst snd nodup_names nmem forallb negb andb].
        rewrite (proj2 (Nat.eqb_eq _ _) Hlen).
        assert (name_eqb id_name c = false) as -> by (apply name_eqb_neq; congruence). reflexivity. }
      destruct (apply_BulkUpdate_ok _ t T2 rows2 [(c, vals2)] Hf2 Hok Hne) as [cs [u' [Hcs Hstep]]].
      { apply all_in_iff. intros r Hr. unfold T2. cbn [t_rows]. apply Hsub. exact Hr. }
      { intros c0 [<-|[]]. rewrite HfN, name_eqb_refl. discriminate. }
      rewrite Hstep. cbn [bind fst].
      eexists. split; [reflexivity|].
      assert (Hndc : nodup_names (map fst [(c, vals2)]) = true) by reflexivity.
      destruct (set_columns_spec _ _ _ _ Hndc Hcs) as [_ Hspec].
      eapply seq_ex_put_gen; [exact Ef | exact Hf2 | | exact Hid |].
      { intros t0 Hne0. rewrite !find_put_other by (try exact Hne0; exact Hid). reflexivity. }
      split; [cbn; tauto|]. intro c0. cbn [t_cols t_rows T2]. specialize (Hspec c0). rewrite HfN in Hspec.
      name_cases c0 c.
      * subst c0. rewrite Ec. destruct Hspec as [C' [Hf' [Hi' Hg']]]. rewrite Hf'. cbn.
        split; [exact Hi'|]. intros r Hr. right. rewrite Hg'. unfold cell_after. cbn [cols_get N c_id c_info].
        rewrite name_eqb_refl. rewrite Hvals. rewrite set_val_map.
        destruct (zmem r rows2) eqn:Ez.
        -- apply (Hnorm _ _ Ec). exact Hr.
        -- apply Hdef; [exact Hr|]. apply zmem_false. exact Ez.
      * destruct (find_col O (t_cols O T) c0) as [C0|] eqn:Ec0; [|rewrite Hspec; exact I].
        destruct Hspec as [C' [Hf' [Hi' Hg']]]. rewrite Hf'. cbn.
        split; [exact Hi'|]. intros r Hr. right. rewrite Hg'. unfold cell_after. cbn [cols_get].
        rewrite (find_col_id _ _ _ Ec0), E. apply (venc_refl L).
Qed.


Lemma undo_ModifyColumn : forall s t c m, wf_state s -> undo_ok (ModifyColumn O t c m) s.
Proof.
  intros s t c m Hwf s' u ops H. unfold apply_doc in H.
  destruct (find_table O s t) as [T|] eqn:Ef; [|discriminate].
  destruct (find_col O (t_cols O T) c) as [C|] eqn:Ec; [|discriminate].
  pose proof (find_table_id _ _ _ Ef) as Hid.
  destruct (Hwf _ _ Ef) as [Hnd [Hnoid Hnorm]].
  set (new := apply_modinfo m (c_info O C)) in *.
  destruct (colinfo_eqb new (c_info O C)) eqn:Eeq.
  - inversion H; subst s' u ops; clear H. cbn. eexists. split; [reflexivity|]. apply seq_ex_refl.
  - inversion H; subst s' u ops; clear H. cbn [rev app replay_doc].
    set (C1 := col_set_many O (mkCol O c new []) (t_rows O T) (map (col_get O C) (t_rows O T))).
    set (T1 := mkTab O (t_id O T) (t_rows O T) (drop_col O (t_cols O T) c ++ [C1])).
    assert (HidC1 : c_id O C1 = c) by (unfold C1; rewrite col_set_many_id; reflexivity).
    assert (HinfC1 : c_info O C1 = new) by (unfold C1; rewrite col_set_many_info; reflexivity).
    assert (Hf1 : find_table O (put_table O s t T1) t = Some T1) by (eapply find_put_same; eassumption).
    assert (Hc1 : find_col O (t_cols O T1) c = Some C1).
    { unfold T1. cbn [t_cols]. rewrite find_app_col, find_drop_col, name_eqb_refl, HidC1, name_eqb_refl. reflexivity. }
    set (C2 := col_set_many O (mkCol O c (c_info O C) []) (t_rows O T) (map (col_get O C1) (t_rows O T))).
    set (T2 := mkTab O (t_id O T) (t_rows O T) (drop_col O (t_cols O T1) c ++ [C2])).
    assert (Hstep : apply_doc O (ModifyColumn O t c (undo_modinfo m (c_info O C))) (put_table O s t T1) =
                    Ok (put_table O (put_table O s t T1) t T2, ([ModifyColumn O t c (undo_modinfo (undo_modinfo m (c_info O C)) (c_info O C1))], []))).
    { unfold apply_doc. rewrite Hf1, Hc1. rewrite HinfC1.
      pose proof (undo_modinfo_restores m (c_info O C)) as Hres. fold new in Hres. rewrite !Hres.
      assert (colinfo_eqb (c_info O C) new = false) as ->.
      { destruct (colinfo_eqb (c_info O C) new) eqn:E2; [|reflexivity].
        apply colinfo_eqb_eq in E2. rewrite <- E2 in Eeq.
        assert (colinfo_eqb (c_info O C) (c_info O C) = true) by (apply colinfo_eqb_eq; reflexivity). congruence. }
      reflexivity. }
    rewrite Hstep. cbn [bind fst].
    eexists. split; [reflexivity|].
    eapply seq_ex_put2; try eassumption; try reflexivity.
    split; [cbn; tauto|]. intro c0. unfold T2, T1. cbn [t_cols t_rows].
    rewrite find_app_col, find_drop_col, find_app_col, find_drop_col.
    assert (c_id O C2 = c) as -> by (unfold C2; rewrite col_set_many_id; reflexivity).
    rewrite HidC1.
    name_cases c0 c.
    + subst c0. rewrite Ec. cbn. split; [unfold C2; rewrite col_set_many_info; reflexivity|].
      intros r Hr.
      destruct (name_eq_dec (ci_type new) (ci_type (c_info O C))) as [Hty|Hty].
      * right. unfold C2. rewrite col_get_set_many, set_val_map. rewrite (proj2 (zmem_In _ _) Hr). cbn [c_info].
        unfold C1. rewrite col_get_set_many, set_val_map. rewrite (proj2 (zmem_In _ _) Hr). cbn [c_info].
        rewrite Hty.
        eapply (venc_trans L); [apply (vnorm_idem L)|]. apply (Hnorm _ _ Ec). exact Hr.
      * left. cbn. split; [reflexivity|]. split; [reflexivity|]. exists T, C. auto.
    + destruct (find_col O (t_cols O T) c0); cbn; [|exact I].
      split; [reflexivity|]. intros r _. right. apply (venc_refl L).
Qed.


(* ------------------------------------------------------------------------------------------------ *)
(* column dictionaries built from a table's columns (undo values) *)

Definition subdict (p : column -> bool) (f : column -> list V) (cs : list column) : colvals O :=
  flat_map (fun C => if p C then [] else [(c_id O C, f C)]) cs.

Lemma subdict_keys : forall p f cs c, In c (map fst (subdict p f cs)) -> In c (map (c_id O) cs).
Proof.
  unfold subdict.
  intros p f cs c. induction cs as [|C0 cs IH]; cbn; [tauto|].
  destruct (p C0); cbn; [intro H; right; apply IH; exact H|].
  intros [H|H]; [left; exact H | right; apply IH; exact H].
Qed.

Lemma subdict_nodup : forall p f cs,
  nodup_names (map (c_id O) cs) = true -> nodup_names (map fst (subdict p f cs)) = true.
Proof.
  unfold subdict.
  intros p f cs. induction cs as [|C0 cs IH]; cbn; [reflexivity|].
  intro H. apply andb_true_iff in H. destruct H as [Hn Hnd].
  destruct (p C0); cbn; [apply IH; exact Hnd|].
  rewrite (IH Hnd). rewrite andb_true_r. apply negb_true_iff. apply negb_true_iff in Hn.
  match goal with |- nmem ?a ?b = false => destruct (nmem a b) eqn:E; [|reflexivity] end.
  apply nmem_In in E. apply (subdict_keys p f cs) in E. apply nmem_In in E. congruence.
Qed.

Lemma subdict_noid : forall p f cs,
  nmem id_name (map (c_id O) cs) = false -> nmem id_name (map fst (subdict p f cs)) = false.
Proof.
  intros p f cs H. destruct (nmem id_name (map fst (subdict p f cs))) eqn:E; [|reflexivity].
  apply nmem_In in E. apply subdict_keys in E. apply nmem_In in E. congruence.
Qed.

Lemma subdict_get : forall p f cs c,
  nodup_names (map (c_id O) cs) = true ->
  cols_get (subdict p f cs) c =
  match find_col O cs c with
  | Some C => if p C then None else Some (f C)
  | None => None
  end.
Proof.
  unfold subdict.
  intros p f cs c. induction cs as [|C0 cs IH]; cbn; [reflexivity|].
  intro H. apply andb_true_iff in H. destruct H as [Hn Hnd]. specialize (IH Hnd).
  name_cases c (c_id O C0).
  - subst c. destruct (p C0); cbn.
    + rewrite IH. apply negb_true_iff in Hn.
      destruct (find_col O cs (c_id O C0)) eqn:Ef; [|reflexivity].
      exfalso. assert (nmem (c_id O C0) (map (c_id O) cs) = true); [|congruence].
      apply nmem_In. rewrite <- (find_col_id _ _ _ Ef) at 1. apply in_map. eapply find_col_In. exact Ef.
    + rewrite name_eqb_refl. reflexivity.
  - destruct (p C0); cbn; [exact IH|]. rewrite E. exact IH.
Qed.

Lemma subdict_lengths : forall p f cs n,
  (forall C, length (f C) = n) ->
  forallb (fun kv : name * list V => Nat.eqb (length (snd kv)) n) (subdict p f cs) = true.
Proof.
  unfold subdict.
  intros p f cs n Hl. induction cs as [|C0 cs IH]; cbn; [reflexivity|].
  destruct (p C0); cbn; [exact IH|]. rewrite IH, andb_true_r. apply Nat.eqb_eq. apply Hl.
Qed.

Lemma subdict_ok : forall p f cs rows,
  nodup_names (map (c_id O) cs) = true -> nmem id_name (map (c_id O) cs) = false ->
  (forall C, length (f C) = length rows) ->
  colvals_ok O rows (subdict p f cs) = true.
Proof.
  intros p f cs rows Hnd Hid Hl. unfold colvals_ok.
  rewrite subdict_nodup by exact Hnd. rewrite subdict_lengths by exact Hl. rewrite subdict_noid by exact Hid. reflexivity.
Qed.

Lemma colvals_ok_parts : forall rows cols, colvals_ok O rows cols = true ->
  nodup_names (map fst cols) = true /\
  (forall c vs, cols_get cols c = Some vs -> length vs = length rows) /\
  nmem id_name (map fst cols) = false.
Proof.
  intros rows cols H. unfold colvals_ok in H.
  apply andb_true_iff in H. destruct H as [H H3]. apply andb_true_iff in H. destruct H as [H1 H2].
  split; [exact H1|]. split; [|apply negb_true_iff; exact H3].
  clear H1 H3. induction cols as [|[c0 v0] rest IH]; intros c vs Hg; cbn in *; [discriminate|].
  apply andb_true_iff in H2. destruct H2 as [Hl H2].
  destruct (name_eqb c c0); [inversion Hg; subst; apply Nat.eqb_eq; exact Hl | eapply IH; eassumption].
Qed.

Lemma filter_all : forall (A : Type) (f : A -> bool) l, (forall x, In x l -> f x = true) -> filter f l = l.
Proof.
  intros A f l. induction l as [|x l IH]; intro H; cbn; [reflexivity|].
  rewrite (H x) by (left; reflexivity). rewrite IH; [reflexivity|]. intros y Hy. apply H. right. exact Hy.
Qed.

Lemma apply_BulkRemove_state : forall s t T rows,
  find_table O s t = Some T -> (forall r, In r rows -> In r (t_rows O T)) -> rows <> [] ->
  exists u ops, apply_doc O (BulkRemoveRecord O t rows) s =
    Ok (put_table O s t (mkTab O (t_id O T) (filter (fun r => negb (zmem r rows)) (t_rows O T))
                                (map (fun C => col_unset_many O C rows) (t_cols O T))), (u, ops)).
Proof.
  intros s t T rows Hf Hsub Hne. unfold apply_doc. rewrite Hf.
  rewrite filter_all by (intros r Hr; apply zmem_In; apply Hsub; exact Hr).
  destruct rows as [|r0 rows0]; [contradiction|]. eauto.
Qed.

Lemma undo_BulkAddRecord : forall s t rows cols, undo_ok (BulkAddRecord O t rows cols) s.
Proof.
  intros s t rows cols s' u ops H. unfold apply_doc in H.
  destruct (find_table O s t) as [T|] eqn:Ef; [|discriminate].
  destruct (colvals_ok O rows cols) eqn:Eok; cbn [negb orb] in H; [|discriminate].
  destruct rows as [|r0 rows0] eqn:Erows; [discriminate|]. rewrite <- Erows in *.
  assert (Hne : rows <> []) by (rewrite Erows; discriminate). clear Erows r0 rows0.
  destruct (none_in rows (t_rows O T)) eqn:Enone; cbn [negb] in H; [|discriminate].
  destruct (add_records O T rows cols) as [T'|] eqn:Eadd; cbn [bind] in H; [|discriminate].
  inversion H; subst s' u ops; clear H. cbn [rev app replay_doc].
  pose proof (find_table_id _ _ _ Ef) as Hid.
  destruct (colvals_ok_parts _ _ Eok) as [Hndk _].
  destruct (add_records_spec _ _ _ _ Hndk Eadd) as [Hid' [Hrows [_ Hcols]]].
  assert (Hid1 : t_id O T' = t) by congruence.
  assert (Hf1 : find_table O (put_table O s t T') t = Some T') by (eapply find_put_same; eassumption).
  destruct (apply_BulkRemove_state _ _ _ rows Hf1) as [u' [ops' Hstep]]; [|exact Hne|].
  { intros r Hr. apply Hrows. left. exact Hr. }
  rewrite Hstep. cbn [bind fst].
  eexists. split; [reflexivity|].
  eapply seq_ex_put2; try eassumption.
  pose proof (proj1 (none_in_iff _ _) Enone) as Hnone.
  split.
  - intro r. cbn [t_rows]. rewrite filter_In, Hrows, negb_true_iff, zmem_false. split.
    + intros [[Hr|Hr] Hn]; [contradiction | exact Hr].
    + intro Hr. split; [right; exact Hr|]. intro Hin. exact (Hnone r Hin Hr).
  - intro c. cbn [t_cols t_rows]. rewrite find_map_col by (intro; apply col_unset_many_id).
    specialize (Hcols c). destruct (find_col O (t_cols O T) c) as [C|] eqn:Ec.
    + destruct Hcols as [C' [Hf' [Hi' Hg']]]. rewrite Hf'. cbn. split; [rewrite col_unset_many_info; exact Hi'|].
      intros r Hr. right. apply filter_In in Hr. destruct Hr as [_ Hr]. apply negb_true_iff in Hr.
      rewrite col_get_unset_many, Hr. rewrite Hg'. unfold cell_after, add_base. rewrite Hr.
      destruct (cols_get cols (c_id O C)); [|apply (venc_refl L)].
      rewrite set_val_notin by (apply zmem_false; exact Hr). apply (venc_refl L).
    + rewrite Hcols. exact I.
Qed.


Lemma apply_BulkAdd_ok : forall s t T rows cols,
  find_table O s t = Some T -> colvals_ok O rows cols = true -> rows <> [] ->
  none_in rows (t_rows O T) = true ->
  (forall c, In c (map fst cols) -> find_col O (t_cols O T) c <> None) ->
  exists T', add_records O T rows cols = Ok T' /\
             apply_doc O (BulkAddRecord O t rows cols) s =
             Ok (put_table O s t T', ([BulkRemoveRecord O t rows], [SAddRecords O t rows])).
Proof.
  intros s t T rows cols Hf Hok Hne Hnone Hcols.
  destruct (proj2 (add_records_ok_iff T rows cols) Hcols) as [T' HT'].
  exists T'. split; [exact HT'|].
  unfold apply_doc. rewrite Hf, Hok. rewrite (match_nonnil _ _ _ true false Hne). cbn [negb orb].
  rewrite Hnone. cbn [negb]. rewrite HT'. reflexivity.
Qed.

Lemma is_all_default_spec : forall C vals,
  is_all_default O C vals = true -> forall v, In v vals -> venc O v (col_default O C) = true.
Proof.
  intros C vals H v Hv. unfold is_all_default in H. rewrite forallb_forall in H.
  apply (vstrict_enc L). apply H. exact Hv.
Qed.

Lemma col_unset_many_default : forall C rows, col_default O (col_unset_many O C rows) = col_default O C.
Proof. intros C rows. unfold col_default. rewrite col_unset_many_info. reflexivity. Qed.

Lemma undo_BulkRemoveRecord : forall s t rows, wf_state s -> undo_ok (BulkRemoveRecord O t rows) s.
Proof.
  intros s t rows Hwf s' u ops H. unfold apply_doc in H.
  destruct (find_table O s t) as [T|] eqn:Ef; [|discriminate].
  pose proof (find_table_id _ _ _ Ef) as Hid.
  destruct (Hwf _ _ Ef) as [Hnd [Hnoid Hnorm]].
  remember (filter (fun r => zmem r (t_rows O T)) rows) as rows1 eqn:Er1.
  assert (Hsub : forall r, In r rows1 -> In r (t_rows O T)).
  { intros r Hr. rewrite Er1 in Hr. apply filter_In in Hr. apply zmem_In. apply Hr. }
  clear Er1.
  destruct (list_eq_dec Z.eq_dec rows1 []) as [Hnil|Hne].
  - subst rows1. inversion H; subst s' u ops; clear H. cbn. eexists. split; [reflexivity|]. apply seq_ex_refl.
  - rewrite (match_nonnil _ _ rows1 _ _ Hne) in H.
    set (p := fun C => is_all_default O C (map (col_get O C) rows1)) in *.
    set (f := fun C => map (col_get O C) rows1) in *.
    change (flat_map _ (t_cols O T)) with (subdict p f (t_cols O T)) in H.
    set (T1 := mkTab O (t_id O T) (filter (fun r => negb (zmem r rows1)) (t_rows O T))
                     (map (fun C => col_unset_many O C rows1) (t_cols O T))) in *.
    inversion H; subst s' u ops; clear H. cbn [rev app replay_doc].
    assert (Hf1 : find_table O (put_table O s t T1) t = Some T1) by (eapply find_put_same; eassumption).
    assert (Hok : colvals_ok O rows1 (subdict p f (t_cols O T)) = true).
    { apply subdict_ok; try assumption. intro C. apply map_length. }
    destruct (apply_BulkAdd_ok _ t T1 rows1 (subdict p f (t_cols O T)) Hf1 Hok Hne) as [T2 [Hadd Hstep]].
    { apply none_in_iff. intros r Hr Hin. unfold T1 in Hin. cbn [t_rows] in Hin. apply filter_In in Hin.
      destruct Hin as [_ Hin]. apply negb_true_iff in Hin. apply zmem_false in Hin. contradiction. }
    { intros c Hc. apply subdict_keys in Hc. unfold T1. cbn [t_cols].
      intro Hn. apply find_map_col_none in Hn; [|intro; apply col_unset_many_id].
      apply find_col_none_notin in Hn. contradiction. }
    rewrite Hstep. cbn [bind fst].
    eexists. split; [reflexivity|].
    destruct (add_records_spec _ _ _ _ (subdict_nodup p f _ Hnd) Hadd) as [Hid2 [Hrows [_ Hcols]]].
    eapply seq_ex_put2; try eassumption; [unfold T1 in Hid2; cbn in Hid2; congruence|].
    split.
    + intro r. rewrite Hrows. unfold T1. cbn [t_rows]. rewrite filter_In, negb_true_iff, zmem_false.
      destruct (in_dec Z.eq_dec r rows1) as [Hin|Hnin]; [|tauto].
      pose proof (Hsub r Hin). tauto.
    + intro c. specialize (Hcols c). unfold T1 in Hcols. cbn [t_cols] in Hcols.
      rewrite find_map_col in Hcols by (intro; apply col_unset_many_id).
      destruct (find_col O (t_cols O T) c) as [C|] eqn:Ec; cbn [option_map] in Hcols; [|rewrite Hcols; exact I].
      destruct Hcols as [C' [Hf' [Hi' Hg']]]. rewrite Hf'. cbn.
      split; [rewrite Hi'; apply col_unset_many_info|].
      intros r Hr. right. apply Hrows in Hr.
      assert (HrT : In r (t_rows O T)).
      { destruct Hr as [Hr|Hr]; [apply Hsub; exact Hr|]. unfold T1 in Hr. cbn in Hr. apply filter_In in Hr. apply Hr. }
      rewrite Hg'. unfold cell_after, add_base. rewrite col_unset_many_id, col_unset_many_info.
      rewrite subdict_get by exact Hnd. rewrite (find_col_id _ _ _ Ec), Ec.
      rewrite col_get_unset_many. rewrite col_unset_many_default.
      destruct (p C) eqn:Ep.
      * destruct (zmem r rows1) eqn:Ez; [|apply (venc_refl L)].
        eapply (venc_trans L); [unfold col_default; apply (vnorm_default L)|]. apply (venc_sym L).
        apply (is_all_default_spec C _ Ep). apply in_map. apply zmem_In. exact Ez.
      * unfold f. rewrite set_val_map. destruct (zmem r rows1) eqn:Ez; [|apply (venc_refl L)].
        apply (Hnorm _ _ Ec). exact HrT.
Qed.

End Proofs.
