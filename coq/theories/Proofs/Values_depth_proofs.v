(* Nesting depth of encoded values (C24): what marshal's recursion limit (2000 levels) is compared with. *)
From Coq Require Import ZArith List Bool Lia String.
Import ListNotations.
Require Import Grist.Lib.PyFloat Grist.Model.Values Grist.Proofs.Values_enc_proofs.
Open Scope Z_scope.

Definition list_max {A} (f : A -> Z) (l : list A) : Z := fold_right (fun x a => Z.max (f x) a) 0 l.

(* container nesting depth: 0 for scalars and objects, 1 + the deepest item for list / tuple / dict *)
Fixpoint vdepth (v : value) : Z :=
  match v with
  | PList _ l | PTuple l => 1 + list_max vdepth l
  | PDict l => 1 + list_max (fun kv => match kv with (k, x) => Z.max (vdepth k) (vdepth x) end) l
  | _ => 0
  end.

Lemma list_max_nonneg : forall {A} (f : A -> Z) l, 0 <= list_max f l.
Proof. intros A f l; induction l as [|x t IH]; unfold list_max in *; cbn; lia. Qed.

Lemma list_max_le : forall {A} (f : A -> Z) l b, 0 <= b -> (forall x, In x l -> f x <= b) -> list_max f l <= b.
Proof.
  intros A f l b Hb H; induction l as [|x t IH]; cbn; [lia|].
  assert (f x <= b) by (apply H; left; reflexivity).
  assert (list_max f t <= b) by (apply IH; intros y Hy; apply H; right; exact Hy). unfold list_max in *. lia.
Qed.

Lemma vdepth_nonneg : forall v, 0 <= vdepth v.
Proof.
  destruct v; cbn [vdepth]; try lia.
  - pose proof (list_max_nonneg vdepth l). lia.
  - pose proof (list_max_nonneg vdepth l). lia.
  - pose proof (list_max_nonneg (fun kv : value * value => let (k, x) := kv in Z.max (vdepth k) (vdepth x)) l). lia.
Qed.

(* the fields encode_object passes through unencoded nest at most r levels *)
Definition node_raw (r : Z) (v : value) : bool :=
  match v with
  | PErr n m d _ => (vdepth n <=? r) && (vdepth m <=? r) && (vdepth d <=? r)
  | PRecordStub t x | PRecordSetStub t x => (vdepth t <=? r) && (vdepth x <=? r)
  | PUnmarsh x => vdepth x <=? r
  | _ => true
  end.

Lemma trim_nones_in : forall l x, In x (trim_nones l) -> In x l.
Proof.
  induction l as [|y t IH]; intros x H; cbn in *; [contradiction|].
  destruct (trim_nones t) as [|z t'] eqn:E.
  - destruct y; cbn in H; try contradiction; destruct H as [<-|[]]; left; reflexivity.
  - destruct H as [<-|H]; [left; reflexivity|right; apply IH; exact H].
Qed.

Lemma trim_args_in : forall l x, In x (trim_args l) -> In x l.
Proof.
  intros [|y t] x H; cbn in *; [contradiction|].
  destruct H as [<-|H]; [left; reflexivity|right; apply trim_nones_in; exact H].
Qed.

Lemma vdepth_tag : forall c args, vdepth (tag c args) = 1 + Z.max 0 (list_max vdepth args).
Proof. intros c args. unfold tag. cbn [vdepth list_max fold_right]. reflexivity. Qed.

Lemma vdepth_tag_le : forall c args b, 0 <= b -> (forall x, In x args -> vdepth x <= b) -> vdepth (tag c args) <= 1 + b.
Proof.
  intros c args b Hb H. rewrite vdepth_tag. pose proof (list_max_le vdepth args b Hb H). lia.
Qed.

Lemma vdepth_ints : forall rows x, In x (map (PInt false) rows) -> vdepth x = 0.
Proof. intros rows x H. apply in_map_iff in H as [z [<- _]]. reflexivity. Qed.

Ltac simple_depth := cbn [vdepth tag list_max fold_right]; lia.

Section Depth.
Variable orc : oracles.

(* With stack for `fuel` nested calls the encoded form nests at most 2 * fuel + r + 3 levels (a dict level
   costs one call and two levels: ['O', {...}]). *)
Theorem encode_depth : forall r, 0 <= r -> forall fuel v, vforall (node_raw r) v = true ->
  vdepth (encode_f orc fuel v) <= 2 * Z.of_nat fuel + r + 3.
Proof.
  intros r Hr. induction fuel as [|n IH]; intros v Hv.
  - remember (encode_f orc 0 v) as e eqn:He.
    destruct v; cbn [vforall] in Hv; apply andb_true_iff in Hv as [Hnode Hch]; cbn [node_raw] in Hnode;
      cbn [encode_f] in He; subst e; change (Z.of_nat 0) with 0; try simple_depth.
    + destruct (is_int_short z); [simple_depth|]. destruct (str_of_Z z); simple_depth.
    + destruct (o_utf8_decode orc b); simple_depth.
    + destruct l; simple_depth.
    + destruct l; simple_depth.
    + destruct (forallb (fun kv => is_str (fst kv)) l); [|simple_depth]. destruct l; simple_depth.
    + destruct (dt_to_ts orc wall tz None); [|simple_depth]. destruct tz; simple_depth.
    + destruct k; cbn [vdepth list_max fold_right tag];
        pose proof (list_max_le vdepth (map (PInt false) rows) 0 ltac:(lia)
                      (fun x Hx => eq_ind_r (fun d => d <= 0) (Z.le_refl 0) (vdepth_ints rows x Hx))) as Hm;
        pose proof (list_max_nonneg vdepth (map (PInt false) rows)); unfold list_max in *; lia.
    + apply andb_true_iff in Hnode as [H12 H3]. apply andb_true_iff in H12 as [H1 H2].
      apply Z.leb_le in H1. apply Z.leb_le in H2. apply Z.leb_le in H3.
      destruct uinput; [simple_depth|].
      apply Z.le_trans with (1 + r); [|lia]. apply vdepth_tag_le; [lia|]. intros x Hx. apply trim_args_in in Hx.
      destruct Hx as [<-|[<-|[<-|[<-|[]]]]]; assumption.
  - remember (encode_f orc (S n) v) as e eqn:He.
    rewrite Nat2Z.inj_succ. unfold Z.succ. assert (HN : 0 <= Z.of_nat n) by lia.
    remember (Z.of_nat n) as N eqn:EN. clear EN.
    destruct v; cbn [vforall] in Hv; apply andb_true_iff in Hv as [Hnode Hch]; cbn [node_raw] in Hnode;
      cbn [encode_f] in He; subst e; try simple_depth.
    + destruct (is_int_short z); [simple_depth|]. destruct (str_of_Z z); simple_depth.
    + destruct (o_utf8_decode orc b); simple_depth.
    + (* list *)
      destruct l as [|x l]; [simple_depth|].
      apply Z.le_trans with (1 + (2 * N + r + 3)); [|lia]. apply vdepth_tag_le; [lia|].
      intros y Hy. apply in_map_iff in Hy as [a [<- Ha]]. apply IH.
      rewrite forallb_forall in Hch. apply Hch; exact Ha.
    + destruct l as [|x l]; [simple_depth|].
      apply Z.le_trans with (1 + (2 * N + r + 3)); [|lia]. apply vdepth_tag_le; [lia|].
      intros y Hy. apply in_map_iff in Hy as [a [<- Ha]]. apply IH.
      rewrite forallb_forall in Hch. apply Hch; exact Ha.
    + (* dict *)
      destruct (forallb (fun kv => is_str (fst kv)) l) eqn:Hstr; [|simple_depth].
      destruct l as [|kv l]; [simple_depth|].
      remember (kv :: l) as xs eqn:Exs.
      apply Z.le_trans with (1 + (1 + (2 * N + r + 3))); [|lia]. apply vdepth_tag_le; [lia|].
      intros y [<-|[]]. cbn [vdepth].
      assert (list_max (fun kv0 : value * value => let (k, x) := kv0 in Z.max (vdepth k) (vdepth x))
                (map (fun kv0 : value * value => (str_key (fst kv0), encode_f orc n (snd kv0))) xs) <= 2 * N + r + 3); [|lia].
      apply list_max_le; [lia|]. intros [k x] Hin. apply in_map_iff in Hin as [[k0 x0] [Heq Hin]].
      cbn [fst snd] in Heq. inversion Heq; subst k x.
      rewrite forallb_forall in Hstr, Hch. specialize (Hstr _ Hin). specialize (Hch _ Hin). cbn [fst] in Hstr.
      apply andb_true_iff in Hch as [_ Hx].
      assert (vdepth (str_key k0) = 0) by (destruct k0; try discriminate; reflexivity).
      specialize (IH x0 Hx). lia.
    + destruct (dt_to_ts orc wall tz None); [|simple_depth]. destruct tz; simple_depth.
    + destruct k; cbn [vdepth list_max fold_right tag];
        pose proof (list_max_le vdepth (map (PInt false) rows) 0 ltac:(lia)
                      (fun x Hx => eq_ind_r (fun d => d <= 0) (Z.le_refl 0) (vdepth_ints rows x Hx))) as Hm;
        pose proof (list_max_nonneg vdepth (map (PInt false) rows)); unfold list_max in *; lia.
    + apply andb_true_iff in Hnode as [H12 H3]. apply andb_true_iff in H12 as [H1 H2].
      apply Z.leb_le in H1. apply Z.leb_le in H2. apply Z.leb_le in H3.
      destruct uinput as [u|].
      * apply Z.le_trans with (1 + (1 + (2 * N + r + 3))); [|lia]. apply vdepth_tag_le; [lia|].
        intros x Hx. apply trim_args_in in Hx.
        destruct Hx as [<-|[<-|[<-|[<-|[]]]]]; try lia.
        specialize (IH u Hch). cbn [vdepth list_max fold_right]. pose proof (vdepth_nonneg (encode_f orc n u)). lia.
      * apply Z.le_trans with (1 + r); [|lia]. apply vdepth_tag_le; [lia|]. intros x Hx. apply trim_args_in in Hx.
        destruct Hx as [<-|[<-|[<-|[<-|[]]]]]; assumption.
Qed.

End Depth.
