(* Proofs about Model/Lookup.v (C13).  Part 6: make_sort_spec, lookupOne, TwoWayMap over values. *)
From Coq Require Import ZArith List Bool Lia QArith.
Import ListNotations.
Require Import Grist.Model.Lookup Grist.Proofs.Lookup_proofs Grist.Proofs.LookupVal_proofs.
Open Scope Z_scope.

Lemma str_equiv : equiv str_eqb.
Proof. split; [apply str_eqb_refl|apply str_eqb_sym|apply str_eqb_trans]. Qed.

Lemma take_until_app : forall x pre post, memb str_eqb x pre = false -> take_until x (pre ++ x :: post) = pre.
Proof.
  induction pre as [|y pre IH]; intros post H; cbn in *.
  - now rewrite str_eqb_refl.
  - destruct (str_eqb y x); [discriminate|]. now rewrite IH.
Qed.

(* sort_by: a single column, no manualSort fallback, whatever order_by says *)
Lemma sort_by_single : forall ob s ms, s <> [] -> make_sort_spec ob (SStr s) ms = Some [s].
Proof. intros ob s ms H. unfold make_sort_spec. cbn. destruct s; [contradiction|reflexivity]. Qed.

Lemma sort_by_not_str : forall ob sb ms, sarg_truthy sb = true -> (forall s, sb <> SStr s) ->
  make_sort_spec ob sb ms = None.
Proof. intros ob sb ms H N. unfold make_sort_spec. rewrite H. destruct sb; try reflexivity. now destruct (N s). Qed.

Definition order_list (ob : sarg) : option (list str) :=
  match ob with STuple l => Some l | SStr s => Some [s] | SNone => Some [] | SOther _ => None end.

(* 'id' cuts the spec (and switches the manualSort fallback off) *)
Lemma id_cuts : forall ob sb ms pre post, sarg_truthy sb = false ->
  order_list ob = Some (pre ++ s_id :: post) -> memb str_eqb s_id pre = false ->
  make_sort_spec ob sb ms = Some pre.
Proof.
  intros ob sb ms pre post Hs Ho Hp. unfold make_sort_spec. rewrite Hs.
  assert (E : match ob with STuple l => Some l | SStr s => Some [s] | SNone => Some [] | SOther _ => None end
              = Some (pre ++ s_id :: post)) by exact Ho.
  rewrite E. rewrite (memb_app str_eqb). cbn [memb]. rewrite str_eqb_refl, orb_true_r.
  now rewrite take_until_app.
Qed.

(* without 'id': the columns as given, then manualSort exactly when the table has it and it is not named *)
Lemma manual_sort_fallback : forall ob sb ms l, sarg_truthy sb = false -> order_list ob = Some l ->
  memb str_eqb s_id l = false ->
  make_sort_spec ob sb ms = Some (if ms && negb (memb str_eqb s_manualSort l) then l ++ [s_manualSort] else l).
Proof.
  intros ob sb ms l Hs Ho Hi. unfold make_sort_spec. rewrite Hs.
  assert (E : match ob with STuple l => Some l | SStr s => Some [s] | SNone => Some [] | SOther _ => None end
              = Some l) by exact Ho.
  rewrite E, Hi. now destruct (ms && negb (memb str_eqb s_manualSort l)).
Qed.

Lemma order_by_type_error : forall sb ms b, sarg_truthy sb = false -> make_sort_spec (SOther b) sb ms = None.
Proof. intros sb ms b Hs. unfold make_sort_spec. now rewrite Hs. Qed.

(* lookupOne: the first row of lookupRecords, or the empty record 0 *)
Lemma lookup_one_head : forall m t k ob sb ms,
  snd (lookup_one m t k ob sb ms) =
  match snd (lookup_records m t k ob sb ms) with LRows l => Some (hd 0 l) | LError => None end.
Proof.
  intros. unfold lookup_one. destruct (lookup_records m t k ob sb ms) as [m' [l|]]; cbn; [|reflexivity].
  now destruct l.
Qed.

Lemma val_hash_congr : forall a b, val_eqb a b = true -> hashable a = hashable b.
Proof. exact hashable_congr. Qed.
