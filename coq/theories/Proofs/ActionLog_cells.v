(* K1: cell-level characterisations of the actions that rewrite ONE column (ModifyColumn, a single-column
   BulkUpdateRecord, a calc delta), used by the per-column flush of doModifyColumn (stage 3). *)
From Coq Require Import ZArith List Bool Lia.
Import ListNotations.
Require Import Grist.Model.ActionLog Grist.Proofs.ActionLog_proofs Grist.Proofs.ActionLog_calc.
Open Scope Z_scope.

Ltac name_cases a b :=
  let E := fresh "E" in
  destruct (name_eqb a b) eqn:E;
  [apply name_eqb_eq in E | pose proof (proj1 (name_eqb_neq _ _) E)].

Section Cells.
Variable O : ValOps.
Hypothesis L : ValLaws O.
Notation V := (V O).
Notation state := (state O).
Notation table := (table O).
Notation column := (column O).
Notation action := (action O).
Notation summary := (summary O).

(* s' is s with column c of table t replaced: new info i', cells f (on the rows of the table); nothing else moves *)
Definition col_upd (s s' : state) (t c : name) (T : table) (C : column) (i' : colinfo) (f : Z -> V) : Prop :=
  (forall t', t' <> t -> find_table O s' t' = find_table O s t') /\
  exists T' C', find_table O s t = Some T /\ find_table O s' t = Some T' /\ t_rows O T' = t_rows O T /\
    (forall c', c' <> c -> find_col O (t_cols O T') c' = find_col O (t_cols O T) c') /\
    find_col O (t_cols O T) c = Some C /\ find_col O (t_cols O T') c = Some C' /\ c_info O C' = i' /\
    forall r, In r (t_rows O T) -> col_get O C' r = f r.

Lemma modify_upd : forall s t c mi s' u ops T C,
  apply_doc O (ModifyColumn O t c mi) s = Ok (s', (u, ops)) ->
  find_table O s t = Some T -> find_col O (t_cols O T) c = Some C ->
  colinfo_eqb (apply_modinfo mi (c_info O C)) (c_info O C) = false ->
  u = [ModifyColumn O t c (undo_modinfo mi (c_info O C))] /\ ops = [] /\
  col_upd s s' t c T C (apply_modinfo mi (c_info O C))
          (fun r => vnorm O (ci_type (apply_modinfo mi (c_info O C))) (col_get O C r)).
Proof.
  intros s t c mi s' u ops T C H Hf Hc Hne. unfold apply_doc in H. rewrite Hf, Hc, Hne in H.
  inversion H; subst s' u ops; clear H. split; [reflexivity|]. split; [reflexivity|].
  pose proof (find_table_id O _ _ _ Hf) as HidT.
  set (new := apply_modinfo mi (c_info O C)).
  set (C' := col_set_many O (mkCol O c new []) (t_rows O T) (map (col_get O C) (t_rows O T))).
  split.
  - intros t' Hne'. rewrite (find_put_table O) by exact HidT.
    assert (name_eqb t' t = false) as -> by (apply name_eqb_neq; exact Hne'). reflexivity.
  - exists (mkTab O (t_id O T) (t_rows O T) (drop_col O (t_cols O T) c ++ [C'])), C'.
    split; [exact Hf|]. split.
    { rewrite (find_put_table O) by exact HidT. rewrite name_eqb_refl, Hf. reflexivity. }
    split; [reflexivity|]. cbn [t_cols t_rows].
    assert (HidC' : c_id O C' = c) by (unfold C'; rewrite (col_set_many_id O); reflexivity).
    split.
    { intros c' Hne'. rewrite (find_app_col O), (find_drop_col O), HidC'.
      assert (name_eqb c' c = false) as -> by (apply name_eqb_neq; exact Hne').
      destruct (find_col O (t_cols O T) c'); reflexivity. }
    split; [exact Hc|]. split.
    { rewrite (find_app_col O), (find_drop_col O), HidC', name_eqb_refl. reflexivity. }
    split; [unfold C'; rewrite (col_set_many_info O); reflexivity|].
    intros r Hr. unfold C'. rewrite (col_get_set_many O), (set_val_map O).
    assert (zmem r (t_rows O T) = true) as -> by (apply zmem_In; exact Hr). reflexivity.
Qed.

Lemma calc_upd : forall s t c chs s' T C,
  calc_cells O s t c chs = Ok s' -> find_table O s t = Some T -> find_col O (t_cols O T) c = Some C ->
  col_upd s s' t c T C (c_info O C)
          (col_get O (fold_left (fun C (ch : change O) => col_set O C (fst ch) (snd (snd ch))) chs C)).
Proof.
  intros s t c chs s' T C H Hf Hc. unfold calc_cells in H. rewrite Hf, Hc in H. inversion H; subst s'; clear H.
  pose proof (find_table_id O _ _ _ Hf) as HidT.
  set (C' := fold_left (fun C (ch : change O) => col_set O C (fst ch) (snd (snd ch))) chs C).
  assert (HidC' : c_id O C' = c) by (unfold C'; rewrite (fold_col_set_id O); apply (find_col_id O _ _ _ Hc)).
  split.
  - intros t' Hne'. rewrite (find_put_table O) by exact HidT.
    assert (name_eqb t' t = false) as -> by (apply name_eqb_neq; exact Hne'). reflexivity.
  - exists (mkTab O (t_id O T) (t_rows O T) (put_col O (t_cols O T) c C')), C'.
    split; [exact Hf|]. split.
    { rewrite (find_put_table O) by exact HidT. rewrite name_eqb_refl, Hf. reflexivity. }
    split; [reflexivity|]. cbn [t_cols t_rows]. split.
    { intros c' Hne'. rewrite (find_put_col O) by exact HidC'.
      assert (name_eqb c' c = false) as -> by (apply name_eqb_neq; exact Hne'). reflexivity. }
    split; [exact Hc|]. split.
    { rewrite (find_put_col O) by exact HidC'. rewrite name_eqb_refl, Hc. reflexivity. }
    split; [|reflexivity]. unfold C'. clear. revert C. induction chs as [|ch chs IH]; intro C; cbn [fold_left]; [reflexivity|].
    rewrite IH. apply (col_set_info O).
Qed.

Lemma update_upd : forall s t c rows vals T C,
  find_table O s t = Some T -> find_col O (t_cols O T) c = Some C -> c <> id_name ->
  length vals = length rows -> rows <> [] -> (forall r, In r rows -> In r (t_rows O T)) ->
  exists s' u, apply_doc O (BulkUpdateRecord O t rows [(c, vals)]) s = Ok (s', (u, [])) /\
    col_upd s s' t c T C (c_info O C)
            (fun r => match set_val O rows vals r with
                      | Some v => vnorm O (ci_type (c_info O C)) v
                      | None => col_get O C r
                      end).
Proof.
  intros s t c rows vals T C Hf Hc Hcid Hlen Hne Hrows.
  pose proof (find_table_id O _ _ _ Hf) as HidT.
  assert (Hok : colvals_ok O rows [(c, vals)] = true).
  { unfold colvals_ok. cbn [map fst snd nodup_names nmem forallb negb andb].
    rewrite (proj2 (Nat.eqb_eq _ _) Hlen).
    assert (name_eqb id_name c = false) as -> by (apply name_eqb_neq; congruence). reflexivity. }
  assert (Hall : all_in rows (t_rows O T) = true) by (apply all_in_iff; exact Hrows).
  destruct (apply_BulkUpdate_ok O s t T rows [(c, vals)] Hf Hok Hne Hall) as [cs [u [Hcs Hstep]]].
  { intros c0 [Hc0|[]]. cbn in Hc0. subst c0. rewrite Hc. discriminate. }
  exists (put_table O s t (mkTab O (t_id O T) (t_rows O T) cs)), u. split; [exact Hstep|].
  cbn [set_columns] in Hcs. rewrite Hc in Hcs. inversion Hcs; subst cs; clear Hcs.
  set (C' := col_set_many O C rows vals).
  assert (HidC' : c_id O C' = c) by (unfold C'; rewrite (col_set_many_id O); apply (find_col_id O _ _ _ Hc)).
  split.
  - intros t' Hne'. rewrite (find_put_table O) by exact HidT.
    assert (name_eqb t' t = false) as -> by (apply name_eqb_neq; exact Hne'). reflexivity.
  - exists (mkTab O (t_id O T) (t_rows O T) (put_col O (t_cols O T) c C')), C'.
    split; [exact Hf|]. split.
    { rewrite (find_put_table O) by exact HidT. rewrite name_eqb_refl, Hf. reflexivity. }
    split; [reflexivity|]. cbn [t_cols t_rows]. split.
    { intros c' Hne'. rewrite (find_put_col O) by exact HidC'.
      assert (name_eqb c' c = false) as -> by (apply name_eqb_neq; exact Hne'). reflexivity. }
    split; [exact Hc|]. split.
    { rewrite (find_put_col O) by exact HidC'. rewrite name_eqb_refl, Hc. reflexivity. }
    split; [unfold C'; apply (col_set_many_info O)|].
    intros r _. unfold C'. apply (col_get_set_many O).
Qed.

Lemma col_upd_ext : forall s s' t c T C i f f',
  col_upd s s' t c T C i f -> (forall r, In r (t_rows O T) -> f r = f' r) -> col_upd s s' t c T C i f'.
Proof.
  intros s s' t c T C i f f' [H1 [T' [C' [A1 [A2 [A3 [A4 [A5 [A6 [A7 A8]]]]]]]]]] Hf. split; [exact H1|].
  exists T', C'. repeat (split; [assumption|]). intros r Hr. rewrite <- Hf by exact Hr. apply A8. exact Hr.
Qed.

(* two rewrites of the same column, one after the other *)
Lemma col_upd_trans : forall s s1 s2 t c T C i1 f1 T1 C1 i2 f2,
  col_upd s s1 t c T C i1 f1 -> col_upd s1 s2 t c T1 C1 i2 f2 ->
  col_upd s s2 t c T C i2 f2 /\ t_rows O T1 = t_rows O T /\ c_info O C1 = i1 /\
  forall r, In r (t_rows O T) -> col_get O C1 r = f1 r.
Proof.
  intros s s1 s2 t c T C i1 f1 T1 C1 i2 f2 [H1 [T1' [C1' [A1 [A2 [A3 [A4 [A5 [A6 [A7 A8]]]]]]]]]]
         [K1 [T2 [C2 [B1 [B2 [B3 [B4 [B5 [B6 [B7 B8]]]]]]]]]].
  assert (T1' = T1) by congruence. subst T1'. assert (C1' = C1) by congruence. subst C1'.
  split; [|split; [exact A3|split; [exact A7 | exact A8]]].
  split.
  - intros t' Hne. rewrite K1 by exact Hne. apply H1. exact Hne.
  - exists T2, C2. split; [exact A1|]. split; [exact B2|]. split; [congruence|]. split.
    { intros c' Hne. rewrite B4 by exact Hne. apply A4. exact Hne. }
    split; [exact A5|]. split; [exact B6|]. split; [exact B7|].
    intros r Hr. apply B8. rewrite A3. exact Hr.
Qed.

Lemma col_upd_existing : forall s s' t c T C i f t1 c1 r,
  col_upd s s' t c T C i f -> existing O s t1 c1 r -> existing O s' t1 c1 r.
Proof.
  intros s s' t c T C i f t1 c1 r [H1 [T' [C' [A1 [A2 [A3 [A4 [A5 [A6 [A7 A8]]]]]]]]]] [T1 [C1 [E1 [E2 E3]]]].
  name_cases t1 t.
  - subst t1. assert (T1 = T) by congruence. subst T1. name_cases c1 c.
    + subst c1. exists T', C'. split; [exact A2|]. split; [exact A6|]. rewrite A3. exact E3.
    + exists T', C1. split; [exact A2|]. split; [rewrite A4 by assumption; exact E2|]. rewrite A3. exact E3.
  - exists T1, C1. split; [rewrite H1 by assumption; exact E1|]. split; assumption.
Qed.

(* the real and the ghost document rewrite the same column, which has no pending delta afterwards *)
Lemma calc_rel_col_upd : forall g sm s g' sm' s' t c T C Tg Cg i f fg,
  calc_rel O g sm s ->
  col_upd s s' t c T C i f -> col_upd g g' t c Tg Cg i fg ->
  (forall t1 c1 r, (t1, c1) <> (t, c) -> delta_get O (delta_of O sm' t1 c1) r = delta_get O (delta_of O sm t1 c1) r) ->
  (forall r, delta_get O (delta_of O sm' t c) r = None) ->
  (forall r, In r (t_rows O T) -> venc O (f r) (fg r) = true) ->
  calc_rel O g' sm' s'.
Proof.
  intros g sm s g' sm' s' t c T C Tg Cg i f fg Hrel
         [H1 [T' [C' [A1 [A2 [A3 [A4 [A5 [A6 [A7 A8]]]]]]]]]]
         [K1 [Tg' [Cg' [B1 [B2 [B3 [B4 [B5 [B6 [B7 B8]]]]]]]]]] Hd Hn Hv t1.
  name_cases t1 t.
  - subst t1. rewrite A2, B2. pose proof (Hrel t) as Ht. rewrite A1, B1 in Ht. destruct Ht as [Hrows Hcols].
    split; [rewrite A3, B3; exact Hrows|]. intro c1. name_cases c1 c.
    + subst c1. rewrite A6, B6. split; [congruence|]. intros r Hr. rewrite Hn.
      rewrite A3 in Hr. rewrite A8 by exact Hr. rewrite B8 by (apply Hrows; exact Hr). apply Hv. exact Hr.
    + rewrite A4, B4 by assumption. specialize (Hcols c1).
      destruct (find_col O (t_cols O T) c1) as [C1|], (find_col O (t_cols O Tg) c1) as [Cg1|]; try exact Hcols.
      destruct Hcols as [Hi Hcells]. split; [exact Hi|]. intros r Hr. rewrite A3 in Hr.
      rewrite Hd by congruence. apply Hcells. exact Hr.
  - rewrite H1, K1 by assumption. specialize (Hrel t1).
    destruct (find_table O s t1) as [T1|], (find_table O g t1) as [Tg1|]; try exact Hrel.
    destruct Hrel as [Hrows Hcols]. split; [exact Hrows|]. intro c1. specialize (Hcols c1).
    destruct (find_col O (t_cols O T1) c1) as [C1|], (find_col O (t_cols O Tg1) c1) as [Cg1|]; try exact Hcols.
    destruct Hcols as [Hi Hcells]. split; [exact Hi|]. intros r Hr.
    rewrite Hd by congruence. apply Hcells. exact Hr.
Qed.

(* a rewrite that keeps the info, compared with the document it started from *)
Lemma seq_ex_col_upd_self : forall (X : cellset) g g' t c Tg Cg f,
  col_upd g g' t c Tg Cg (c_info O Cg) f ->
  (forall r, In r (t_rows O Tg) -> X t c r \/ venc O (f r) (col_get O Cg r) = true) ->
  seq_ex O X g' g.
Proof.
  intros X g g' t c Tg Cg f [K1 [Tg' [Cg' [B1 [B2 [B3 [B4 [B5 [B6 [B7 B8]]]]]]]]]] Hv t1.
  name_cases t1 t.
  - subst t1. rewrite B1, B2. cbn. split; [rewrite B3; tauto|]. intro c1. name_cases c1 c.
    + subst c1. rewrite B5, B6. cbn. split; [exact B7|]. intros r Hr. rewrite B3 in Hr.
      rewrite B8 by exact Hr. apply Hv. exact Hr.
    + rewrite B4 by assumption. destruct (find_col O (t_cols O Tg) c1); cbn; [|exact I].
      split; [reflexivity|]. intros r _. right. apply (venc_refl O L).
  - rewrite K1 by assumption. destruct (find_table O g t1); cbn; [apply (tab_rel_refl O L) | exact I].
Qed.

Lemma col_upd_names_ok : forall s s' t c T C i f, col_upd s s' t c T C i f -> names_ok O s -> names_ok O s'.
Proof.
  intros s s' t c T C i f [H1 [T' [C' [A1 [A2 [A3 [A4 [A5 [A6 [A7 A8]]]]]]]]]] Hn t1 T1 Hf.
  name_cases t1 t.
  - subst t1. assert (T1 = T') by congruence. subst T1. destruct (Hn _ _ A1) as [Hdt Hdc]. split; [exact Hdt|].
    intros c1 C1 Hc1. name_cases c1 c; [subst c1; exact (Hdc _ _ A5)|]. rewrite A4 in Hc1 by assumption. exact (Hdc _ _ Hc1).
  - rewrite H1 in Hf by assumption. exact (Hn _ _ Hf).
Qed.

Lemma col_upd_rows : forall s s' t c T C i f t1 T1',
  col_upd s s' t c T C i f -> find_table O s' t1 = Some T1' ->
  exists T1, find_table O s t1 = Some T1 /\ t_rows O T1' = t_rows O T1.
Proof.
  intros s s' t c T C i f t1 T1' [H1 [T' [C' [A1 [A2 [A3 _]]]]]] Hf.
  name_cases t1 t.
  - subst t1. assert (T1' = T') by congruence. subst T1'. exists T. split; assumption.
  - rewrite H1 in Hf by assumption. exists T1'. split; [exact Hf | reflexivity].
Qed.

(* ------------------------------------------------------------------------------------------------ *)
(* one restore block, with a tight exception set: the cells it rewrites may hold anything before *)

Lemma unrestored_changed_created : forall (sm : summary) t c cd r,
  In r (changed_rows O cd) -> ~ In r (restore_rows O sm t c cd) -> created O sm t c r.
Proof.
  intros sm t c cd r Hin Hnot. unfold restore_rows in Hnot.
  destruct (sum_is_created O sm t c) eqn:Ecr; [left; exact Ecr|]. right.
  destruct (row_before O sm t r) as [[|]|] eqn:Erb.
  - exfalso. apply Hnot. apply filter_In. split; [exact Hin | rewrite Erb; reflexivity].
  - unfold row_before in Erb. destruct (td_find O (sm_tables O sm) t) as [td|]; [|discriminate]. exists td. auto.
  - exfalso. apply Hnot. apply filter_In. split; [exact Hin | rewrite Erb; reflexivity].
Qed.

Definition block_cells (sm : summary) (t c : name) (cd : coldelta O) : cellset :=
  fun t' c' r => created O sm t' c' r \/ (t' = t /\ c' = c /\ In r (changed_rows O cd)).

Lemma block_one : forall (sm : summary) x sd t c cd,
  seq_ex O (block_cells sm t c cd) x sd -> wf_state O sd ->
  (forall Td Cd r b a, find_table O sd t = Some Td -> find_col O (t_cols O Td) c = Some Cd ->
                       delta_get O cd r = Some (b, a) -> venc O b (col_get O Cd r) = true) ->
  (forall r, delta_get O cd r <> None -> existing O sd t c r) ->
  exists s', replay_doc O (rev (restore_block O sm t c cd)) x = Ok s' /\ seq_ex O (created O sm) s' sd.
Proof.
  intros sm x sd t c cd Hx Hwf Hbef Hlive.
  remember (restore_rows O sm t c cd) as rows eqn:Hrowsdef.
  assert (Hrows_delta : forall r, In r rows -> delta_get O cd r <> None)
    by (intros r Hr; rewrite Hrowsdef in Hr; eapply restore_rows_delta; exact Hr).
  assert (Hunres : forall r, In r (changed_rows O cd) -> ~ In r rows -> created O sm t c r)
    by (intros r H1 H2; rewrite Hrowsdef in H2; eapply unrestored_changed_created; eassumption).
  unfold restore_block. rewrite <- Hrowsdef. clear Hrowsdef.
  assert (Hnil : rows = [] \/ rows <> []) by (destruct rows; [left | right]; congruence).
  destruct Hnil as [Hnil|Hne].
  - rewrite Hnil. cbn. exists x. split; [reflexivity|].
    eapply (seq_ex_weaken O); [|exact Hx]. intros t1 c1 r [H|[-> [-> H]]]; [exact H|].
    apply Hunres; [exact H | rewrite Hnil; intros []].
  - destruct rows as [|r0 rows0] eqn:Erows; [contradiction|]. cbv beta iota. rewrite <- Erows in *. clear Hne.
    assert (Hr0 : In r0 rows) by (rewrite Erows; left; reflexivity).
    destruct (Hlive r0 (Hrows_delta r0 Hr0)) as [Td [Cd [Efd [Ecd _]]]].
    pose proof (Hx t) as Hnt. rewrite Efd in Hnt.
    destruct (find_table O x t) as [T|] eqn:Ef1; [|contradiction]. cbn in Hnt.
    destruct Hnt as [Hrws Hcols]. pose proof (Hcols c) as Hcc. rewrite Ecd in Hcc.
    destruct (find_col O (t_cols O T) c) as [C|] eqn:Ec1; [|contradiction]. cbn in Hcc.
    destruct Hcc as [Hinfo Hcells].
    set (vals := delta_values O cd rows false).
    assert (Hlen : length vals = length rows) by (apply (delta_values_length O); exact Hrows_delta).
    assert (Hcid : c <> id_name) by (eapply (wf_col_not_id O); [apply (Hwf _ _ Efd) | exact Ecd]).
    assert (Hne : rows <> []) by (rewrite Erows; discriminate).
    assert (Hall : forall r, In r rows -> In r (t_rows O T)).
    { intros r Hr. apply Hrws. destruct (Hlive r (Hrows_delta r Hr)) as [Td' [Cd' [Hf' [_ Hin']]]].
      assert (Td' = Td) by congruence. subst Td'. exact Hin'. }
    destruct (update_upd x t c rows vals T C Ef1 Ec1 Hcid Hlen Hne Hall) as [s' [u [Hstep Hupd]]].
    cbn [rev app replay_doc]. unfold update_action. fold vals. rewrite Hstep. cbn [bind fst].
    exists s'. split; [reflexivity|].
    destruct Hupd as [H1 [T' [C' [A1 [A2 [A3 [A4 [A5 [A6 [A7 A8]]]]]]]]]].
    intro t1. name_cases t1 t.
    + subst t1. rewrite A2, Efd. cbn. split; [rewrite A3; exact Hrws|]. intro c1. name_cases c1 c.
      * subst c1. rewrite A6, Ecd. cbn. split; [congruence|]. intros r Hr. rewrite A3 in Hr.
        rewrite A8 by exact Hr. unfold vals. rewrite (set_val_delta_values O cd rows false) by exact Hrows_delta.
        destruct (zmem r rows) eqn:Ez.
        -- apply zmem_In in Ez. destruct (delta_get O cd r) as [[b a]|] eqn:Ed; [|exfalso; exact (Hrows_delta r Ez Ed)].
           right. pose proof (Hbef _ _ _ _ _ Efd Ecd Ed) as Hb.
           destruct (Hwf _ _ Efd) as [_ [_ Hnorm]]. pose proof (Hnorm _ _ Ecd r (proj1 (Hrws r) Hr)) as Hn.
           rewrite Hinfo. eapply (venc_trans O L); [apply (vnorm_enc O L); exact Hb | exact Hn].
        -- destruct (Hcells r Hr) as [[Hc|[_ [_ Hch]]]|Hv]; [left; exact Hc | | right; exact Hv].
           left. apply Hunres; [exact Hch | apply zmem_false; exact Ez].
      * rewrite A4 by assumption. specialize (Hcols c1).
        destruct (find_col O (t_cols O T) c1) as [C1|], (find_col O (t_cols O Td) c1) as [Cd1|]; cbn in *; try exact Hcols.
        destruct Hcols as [Hi1 Hcells1]. split; [exact Hi1|]. intros r Hr. rewrite A3 in Hr.
        destruct (Hcells1 r Hr) as [[Hc|[_ [Hcc _]]]|Hv]; [left; exact Hc | congruence | right; exact Hv].
    + rewrite H1 by assumption. specialize (Hx t1).
      destruct (find_table O x t1) as [T1|], (find_table O sd t1) as [Td1|]; cbn in *; try exact Hx.
      destruct Hx as [Hr1 Hc1]. split; [exact Hr1|]. intro c1. specialize (Hc1 c1).
      destruct (find_col O (t_cols O T1) c1) as [C1|], (find_col O (t_cols O Td1) c1) as [Cd1|]; cbn in *; try exact Hc1.
      destruct Hc1 as [Hi1 Hcells1]. split; [exact Hi1|]. intros r Hr.
      destruct (Hcells1 r Hr) as [[Hc|[Htt _]]|Hv]; [left; exact Hc | congruence | right; exact Hv].
Qed.

Lemma col_upd_refl : forall s t c T C,
  find_table O s t = Some T -> find_col O (t_cols O T) c = Some C -> col_upd s s t c T C (c_info O C) (col_get O C).
Proof.
  intros s t c T C Hf Hc. split; [reflexivity|]. exists T, C. repeat (split; [first [assumption | reflexivity]|]).
  reflexivity.
Qed.

(* the stored update of a column delta, applied to any document that has the column and the rows *)
Lemma store_block_upd : forall s t c cd T C,
  find_table O s t = Some T -> find_col O (t_cols O T) c = Some C -> c <> id_name ->
  (forall r, delta_get O cd r <> None -> In r (t_rows O T)) ->
  exists s', replay_doc O (store_block O t c cd) s = Ok s' /\
    col_upd s s' t c T C (c_info O C)
      (fun r => if zmem r (changed_rows O cd)
                then match delta_get O cd r with
                     | Some (_, a) => vnorm O (ci_type (c_info O C)) a
                     | None => col_get O C r
                     end
                else col_get O C r).
Proof.
  intros s t c cd T C Hf Hc Hcid Hrows. unfold store_block.
  remember (changed_rows O cd) as rows eqn:Erows.
  assert (Hdelta : forall r, In r rows -> delta_get O cd r <> None) by (intros r Hr; rewrite Erows in Hr; apply (changed_rows_in O); exact Hr).
  destruct rows as [|r0 rows0] eqn:E.
  - exists s. split; [reflexivity|]. eapply col_upd_ext; [apply col_upd_refl; eassumption|]. intros r _. reflexivity.
  - rewrite <- E in *. assert (Hne : rows <> []) by (rewrite E; discriminate). clear E.
    set (vals := delta_values O cd rows true).
    assert (Hlen : length vals = length rows) by (apply (delta_values_length O); exact Hdelta).
    destruct (update_upd s t c rows vals T C Hf Hc Hcid Hlen Hne) as [s' [u [Hstep Hupd]]].
    { intros r Hr. apply Hrows. apply Hdelta. exact Hr. }
    exists s'. split.
    + unfold update_action. fold vals. cbn [replay_doc]. rewrite Hstep. reflexivity.
    + eapply col_upd_ext; [exact Hupd|]. intros r _. cbv beta. unfold vals.
      rewrite (set_val_delta_values O cd rows true) by exact Hdelta.
      destruct (zmem r rows); [|reflexivity]. destruct (delta_get O cd r) as [[b a]|]; reflexivity.
Qed.

(* the cells a calc delta leaves, read off the delta it adds to an empty one *)
Lemma calc_get_gen : forall chs (C : column) cd r,
  let C' := fold_left (fun C (ch : change O) => col_set O C (fst ch) (snd (snd ch))) chs C in
  let cd' := fold_left (delta_add O) chs cd in
  c_info O C' = c_info O C /\
  (In r (map fst chs) -> exists b a, delta_get O cd' r = Some (b, a) /\ col_get O C' r = vnorm O (ci_type (c_info O C)) a) /\
  (~ In r (map fst chs) -> delta_get O cd' r = delta_get O cd r /\ col_get O C' r = col_get O C r).
Proof.
  induction chs as [|[r0 [b0 a0]] chs IH]; intros C cd r; cbn [fold_left map fst snd].
  - split; [reflexivity|]. split; [intros [] | intros _; split; reflexivity].
  - destruct (IH (col_set O C r0 a0) (delta_add O cd (r0, (b0, a0))) r) as [Hi [H1 H2]].
    rewrite (col_set_info O) in Hi, H1. split; [exact Hi|]. split.
    + intros Hin. destruct (in_dec Z.eq_dec r (map fst chs)) as [Hr|Hr]; [exact (H1 Hr)|].
      destruct Hin as [<-|Hin]; [|contradiction]. destruct (H2 Hr) as [Hd Hg]. rewrite Hd, Hg.
      rewrite (delta_get_add O), Z.eqb_refl. rewrite (col_get_set O), Z.eqb_refl. eauto.
    + intros Hnot. assert (Hr : ~ In r (map fst chs)) by (intro; apply Hnot; right; assumption).
      assert (Hne : r <> r0) by (intro; apply Hnot; left; congruence).
      destruct (H2 Hr) as [Hd Hg]. rewrite Hd, Hg. rewrite (delta_get_add O), (col_get_set O).
      assert (Z.eqb r r0 = false) as -> by (apply Z.eqb_neq; exact Hne). split; reflexivity.
Qed.

Lemma calc_get : forall chs (C : column) r,
  col_get O (fold_left (fun C (ch : change O) => col_set O C (fst ch) (snd (snd ch))) chs C) r =
  match delta_get O (fold_left (delta_add O) chs []) r with
  | Some (_, a) => vnorm O (ci_type (c_info O C)) a
  | None => col_get O C r
  end.
Proof.
  intros chs C r. destruct (calc_get_gen chs C [] r) as [_ [H1 H2]].
  destruct (in_dec Z.eq_dec r (map fst chs)) as [Hr|Hr].
  - destruct (H1 Hr) as [b [a [Hd Hg]]]. rewrite Hd. exact Hg.
  - destruct (H2 Hr) as [Hd Hg]. rewrite Hd. cbn. exact Hg.
Qed.

Lemma calc_delta_rows : forall chs r, delta_get O (fold_left (delta_add O) chs []) r <> None -> In r (map fst chs).
Proof.
  intros chs r H. destruct (delta_get_fold_add O chs [] r H) as [H1|H1]; [cbn in H1; congruence | exact H1].
Qed.

Lemma col_upd_key : forall s s' t c T C i f t1 c1 T1 C1,
  col_upd s s' t c T C i f -> find_table O s t1 = Some T1 -> find_col O (t_cols O T1) c1 = Some C1 ->
  exists T1' C1', find_table O s' t1 = Some T1' /\ find_col O (t_cols O T1') c1 = Some C1' /\ t_rows O T1' = t_rows O T1.
Proof.
  intros s s' t c T C i f t1 c1 T1 C1 [H1 [T' [C' [A1 [A2 [A3 [A4 [A5 [A6 [A7 A8]]]]]]]]]] Hf Hc.
  name_cases t1 t.
  - subst t1. assert (T1 = T) by congruence. subst T1. name_cases c1 c.
    + subst c1. exists T', C'. auto.
    + exists T', C1. split; [exact A2|]. split; [rewrite A4 by assumption; exact Hc | exact A3].
  - exists T1, C1. split; [rewrite H1 by assumption; exact Hf|]. split; [exact Hc | reflexivity].
Qed.

(* ------------------------------------------------------------------------------------------------ *)
(* a restore inserted at the front of the undo list: a single-column update whose values are those of the start
   document; whatever the cells held before, they agree with the start document afterwards *)

Definition writes (t c : name) (rows : list Z) : cellset := fun t' c' r => t' = t /\ c' = c /\ In r rows.

Lemma front_one : forall (X : cellset) x s0 t c rows vals T0 C0,
  seq_ex O X x s0 -> wf_state O s0 ->
  find_table O s0 t = Some T0 -> find_col O (t_cols O T0) c = Some C0 ->
  length vals = length rows -> rows <> [] -> (forall r, In r rows -> In r (t_rows O T0)) ->
  (forall r v, In r rows -> set_val O rows vals r = Some v -> venc O v (col_get O C0 r) = true) ->
  exists x' o, apply_doc O (BulkUpdateRecord O t rows [(c, vals)]) x = Ok (x', o) /\
               seq_ex O (fun t' c' r => X t' c' r /\ ~ writes t c rows t' c' r) x' s0.
Proof.
  intros X x s0 t c rows vals T0 C0 Hx Hwf Ef0 Ec0 Hlen Hne Hrows Hvals.
  pose proof (Hx t) as Hnt. rewrite Ef0 in Hnt.
  destruct (find_table O x t) as [T|] eqn:Ef; [|contradiction]. cbn in Hnt.
  destruct Hnt as [Hrws Hcols]. pose proof (Hcols c) as Hcc. rewrite Ec0 in Hcc.
  destruct (find_col O (t_cols O T) c) as [C|] eqn:Ec; [|contradiction]. cbn in Hcc. destruct Hcc as [Hinfo Hcells].
  assert (Hcid : c <> id_name) by (eapply (wf_col_not_id O); [apply (Hwf _ _ Ef0) | exact Ec0]).
  assert (Hall : forall r, In r rows -> In r (t_rows O T)) by (intros r Hr; apply Hrws; apply Hrows; exact Hr).
  destruct (update_upd x t c rows vals T C Ef Ec Hcid Hlen Hne Hall) as [x' [u [Hstep Hupd]]].
  exists x', (u, []). split; [exact Hstep|].
  destruct Hupd as [H1 [T' [C' [A1 [A2 [A3 [A4 [A5 [A6 [A7 A8]]]]]]]]]].
  destruct (Hwf _ _ Ef0) as [_ [_ Hnorm]]. pose proof (Hnorm _ _ Ec0) as Hn0. unfold col_normal in Hn0.
  intro t1. name_cases t1 t.
  - subst t1. rewrite A2, Ef0. cbn. split; [rewrite A3; exact Hrws|]. intro c1. name_cases c1 c.
    + subst c1. rewrite A6, Ec0. cbn. split; [congruence|]. intros r Hr. rewrite A3 in Hr. rewrite A8 by exact Hr.
      destruct (set_val O rows vals r) as [v|] eqn:Esv.
      * right. assert (Hrin : In r rows).
        { destruct (in_dec Z.eq_dec r rows) as [Hi|Hi]; [exact Hi|]. rewrite (set_val_notin O) in Esv by exact Hi. discriminate. }
        rewrite Hinfo. eapply (venc_trans O L); [apply (vnorm_enc O L); apply (Hvals r v Hrin Esv)|].
        apply Hn0. apply Hrws. exact Hr.
      * destruct (Hcells r Hr) as [Hxc|Hv]; [|right; exact Hv]. left. split; [exact Hxc|].
        intros [_ [_ Hin]]. destruct (set_val_in O rows vals r Hlen Hin) as [v Hv']. congruence.
    + rewrite A4 by assumption. specialize (Hcols c1).
      destruct (find_col O (t_cols O T) c1) as [C1|], (find_col O (t_cols O T0) c1) as [C01|]; cbn in *; try exact Hcols.
      destruct Hcols as [Hi1 Hcells1]. split; [exact Hi1|]. intros r Hr. rewrite A3 in Hr.
      destruct (Hcells1 r Hr) as [Hxc|Hv]; [|right; exact Hv]. left. split; [exact Hxc|]. intros [_ [Hc _]]. congruence.
  - rewrite H1 by assumption. specialize (Hx t1).
    destruct (find_table O x t1) as [T1|], (find_table O s0 t1) as [T01|]; cbn in *; try exact Hx.
    destruct Hx as [Hr1 Hc1]. split; [exact Hr1|]. intro c1. specialize (Hc1 c1).
    destruct (find_col O (t_cols O T1) c1) as [C1|], (find_col O (t_cols O T01) c1) as [C01|]; cbn in *; try exact Hc1.
    destruct Hc1 as [Hi1 Hcells1]. split; [exact Hi1|]. intros r Hr.
    destruct (Hcells1 r Hr) as [Hxc|Hv]; [|right; exact Hv]. left. split; [exact Hxc|]. intros [Ht _]. congruence.
Qed.

Lemma col_upd_self_fun : forall s s' t c T C i f T2 C2,
  col_upd s s' t c T C i f -> find_table O s' t = Some T2 -> find_col O (t_cols O T2) c = Some C2 ->
  col_upd s s' t c T C i (col_get O C2) /\ c_info O C2 = i /\ t_rows O T2 = t_rows O T.
Proof.
  intros s s' t c T C i f T2 C2 [H1 [T' [C' [A1 [A2 [A3 [A4 [A5 [A6 [A7 A8]]]]]]]]]] Hf Hc.
  assert (T' = T2) by congruence. subst T'. assert (C' = C2) by congruence. subst C'.
  split; [|split; assumption]. split; [exact H1|]. exists T2, C2. repeat (split; [assumption|]). intros r _. reflexivity.
Qed.

End Cells.
