(* K1, stage 3: the flush in general.  Whatever the summary holds, flush_all appends, per column delta, a stored update
   and a restore for the rows that are still there, and inserts at the FRONT of the undo list a restore (under the
   original names) for the rows that are gone or whose column or table is gone.  The appended parts are those of the
   pruned summary (deltas of gone cells dropped), to which the replay lemmas of ActionLog_calc apply. *)
From Coq Require Import ZArith List Bool Lia Sorted.
Import ListNotations.
Require Import Grist.Model.ActionLog Grist.Proofs.ActionLog_proofs Grist.Proofs.ActionLog_calc.
Open Scope Z_scope.

Ltac name_cases a b :=
  let E := fresh "E" in
  destruct (name_eqb a b) eqn:E;
  [apply name_eqb_eq in E | pose proof (proj1 (name_eqb_neq _ _) E)].

(* insertion sort and filters *)
Lemma insert_head_ge : forall x l, (forall y, In y l -> Z.ltb y x = false) -> insert_by Z.ltb x l = x :: l.
Proof. intros x [|y l] H; cbn; [reflexivity|]. rewrite (H y) by (left; reflexivity). reflexivity. Qed.

Lemma filter_insert_sorted : forall (p : Z -> bool) x l, StronglySorted Z.le l ->
  filter p (insert_by Z.ltb x l) = if p x then insert_by Z.ltb x (filter p l) else filter p l.
Proof.
  intros p x l Hs. induction Hs as [|y l Hs IH Hall]; cbn.
  - destruct (p x); reflexivity.
  - destruct (Z.ltb y x) eqn:Eyx; cbn.
    + rewrite IH. destruct (p y) eqn:Epy, (p x); cbn; rewrite ?Eyx; reflexivity.
    + destruct (p x) eqn:Epx; [|reflexivity]. destruct (p y) eqn:Epy.
      * cbn. rewrite Eyx. reflexivity.
      * symmetry. apply insert_head_ge. intros z Hz. apply filter_In in Hz. destruct Hz as [Hz _].
        rewrite Forall_forall in Hall. specialize (Hall z Hz). apply Z.ltb_ge. apply Z.ltb_ge in Eyx. lia.
Qed.

Lemma insert_sorted : forall x l, StronglySorted Z.le l -> StronglySorted Z.le (insert_by Z.ltb x l).
Proof.
  intros x l Hs. induction Hs as [|y l Hs IH Hall]; cbn.
  - constructor; [constructor | constructor].
  - destruct (Z.ltb y x) eqn:Eyx.
    + constructor; [exact IH|]. rewrite Forall_forall in *. intros z Hz. apply insert_by_In in Hz.
      destruct Hz as [->|Hz]; [apply Z.ltb_lt in Eyx; lia | apply Hall; exact Hz].
    + apply Z.ltb_ge in Eyx. constructor; [constructor; assumption|]. rewrite Forall_forall in *.
      intros z [<-|Hz]; [exact Eyx | specialize (Hall z Hz); lia].
Qed.

Lemma sort_sorted : forall l, StronglySorted Z.le (sort_by Z.ltb l).
Proof. induction l as [|x l IH]; cbn; [constructor | apply insert_sorted; exact IH]. Qed.

Lemma filter_sort : forall (p : Z -> bool) l, filter p (sort_by Z.ltb l) = sort_by Z.ltb (filter p l).
Proof.
  intros p l. induction l as [|x l IH]; [reflexivity|]. cbn [sort_by fold_right filter].
  change (fold_right (insert_by Z.ltb) [] l) with (sort_by Z.ltb l).
  rewrite filter_insert_sorted by apply sort_sorted. rewrite IH. destruct (p x); reflexivity.
Qed.

Lemma filter_comm : forall (A : Type) (p q : A -> bool) l, filter p (filter q l) = filter q (filter p l).
Proof.
  intros A p q l. induction l as [|x l IH]; cbn; [reflexivity|].
  destruct (q x) eqn:Eq, (p x) eqn:Ep; cbn; rewrite ?Eq, ?Ep, IH; reflexivity.
Qed.

Lemma filter_map_fst : forall (A : Type) (p : Z -> bool) (l : list (Z * A)),
  filter p (map fst l) = map fst (filter (fun x => p (fst x)) l).
Proof. intros A p l. induction l as [|[k v] l IH]; cbn; [reflexivity|]. destruct (p k); cbn; rewrite IH; reflexivity. Qed.

Section Flush2.
Variable O : ValOps.
Hypothesis L : ValLaws O.
Notation V := (V O).
Notation state := (state O).
Notation action := (action O).
Notation summary := (summary O).

(* a row the bundle removed (and did not add again) *)
Definition keepr (sm : summary) (t : name) (r : Z) : bool :=
  match row_after O sm t r with Some false => false | _ => true end.

Definition prune_cd (sm : summary) (t c : name) (cd : coldelta O) : coldelta O :=
  if is_defunct t || is_defunct c then [] else filter (fun ch : change O => keepr sm t (fst ch)) cd.

Lemma delta_get_filter : forall (p : Z -> bool) (cd : coldelta O) r,
  delta_get O (filter (fun ch : change O => p (fst ch)) cd) r = if p r then delta_get O cd r else None.
Proof.
  intros p cd r. induction cd as [|[r0 x] cd IH]; cbn; [destruct (p r); reflexivity|].
  destruct (p r0) eqn:E0; cbn.
  - destruct (Z.eqb_spec r r0) as [->|Hne]; [rewrite E0; reflexivity | exact IH].
  - destruct (Z.eqb_spec r r0) as [->|Hne]; [rewrite E0 in IH |- *; exact IH | exact IH].
Qed.

Lemma changed_rows_filter : forall (p : Z -> bool) (cd : coldelta O),
  changed_rows O (filter (fun ch : change O => p (fst ch)) cd) = filter p (changed_rows O cd).
Proof.
  intros p cd. unfold changed_rows. rewrite filter_sort. f_equal. rewrite filter_map_fst. f_equal. apply filter_comm.
Qed.

Lemma delta_values_filter : forall (p : Z -> bool) (cd : coldelta O) rows after,
  (forall r, In r rows -> p r = true) ->
  delta_values O (filter (fun ch : change O => p (fst ch)) cd) rows after = delta_values O cd rows after.
Proof.
  intros p cd rows after H. unfold delta_values. induction rows as [|r rows IH]; cbn; [reflexivity|].
  rewrite delta_get_filter, (H r) by (left; reflexivity). rewrite IH by (intros r' Hr'; apply H; right; exact Hr'). reflexivity.
Qed.

(* ------------------------------------------------------------------------------------------------ *)
(* the pruned summary: the deltas of cells that are gone are dropped; everything else stays *)

Definition prune_td (sm : summary) (t : name) (td : tdelta O) : tdelta O :=
  mkTD O (td_before O td) (td_after O td) (td_colren O td)
       (map (fun kv => (fst kv, prune_cd sm t (fst kv) (snd kv))) (td_deltas O td)).

Definition prune (sm : summary) : summary :=
  mkSum O (map (fun kv => (fst kv, prune_td sm (fst kv) (snd kv))) (sm_tables O sm)) (sm_tabren O sm).

Lemma td_find_prune : forall sm0 (l : list (name * tdelta O)) t,
  td_find O (map (fun kv => (fst kv, prune_td sm0 (fst kv) (snd kv))) l) t = option_map (prune_td sm0 t) (td_find O l t).
Proof.
  intros sm0 l t. induction l as [|[t0 d0] l IH]; cbn; [reflexivity|].
  name_cases t t0; [subst; reflexivity | exact IH].
Qed.

Lemma cd_find_prune : forall sm0 t (l : list (name * coldelta O)) c,
  cd_find O (map (fun kv => (fst kv, prune_cd sm0 t (fst kv) (snd kv))) l) c = option_map (prune_cd sm0 t c) (cd_find O l c).
Proof.
  intros sm0 t l c. induction l as [|[c0 d0] l IH]; cbn; [reflexivity|].
  name_cases c c0; [subst; reflexivity | exact IH].
Qed.

Lemma prune_keys_tables : forall sm, map fst (sm_tables O (prune sm)) = map fst (sm_tables O sm).
Proof. intro sm. unfold prune. cbn. rewrite map_map. reflexivity. Qed.

Lemma prune_keys_cols : forall sm t td, map fst (td_deltas O (prune_td sm t td)) = map fst (td_deltas O td).
Proof. intros sm t td. unfold prune_td. cbn. rewrite map_map. reflexivity. Qed.

Lemma prune_marks : forall sm,
  (forall t, tab_created O (prune sm) t = tab_created O sm t) /\
  (forall t c, col_created O (prune sm) t c = col_created O sm t c) /\
  (forall t r, row_before O (prune sm) t r = row_before O sm t r) /\
  (forall t r, row_after O (prune sm) t r = row_after O sm t r) /\
  (forall t c, sum_is_created O (prune sm) t c = sum_is_created O sm t c).
Proof.
  intro sm. repeat split; intros.
  - unfold col_created. unfold prune. cbn [sm_tables]. rewrite td_find_prune. destruct (td_find O (sm_tables O sm) t); reflexivity.
  - unfold row_before. unfold prune. cbn [sm_tables]. rewrite td_find_prune. destruct (td_find O (sm_tables O sm) t); reflexivity.
  - unfold row_after. unfold prune. cbn [sm_tables]. rewrite td_find_prune. destruct (td_find O (sm_tables O sm) t); reflexivity.
  - unfold sum_is_created. unfold prune. cbn [sm_tables sm_tabren]. rewrite td_find_prune. destruct (td_find O (sm_tables O sm) t); reflexivity.
Qed.

Lemma prune_created : forall sm t c r, created O (prune sm) t c r <-> created O sm t c r.
Proof.
  intros sm t c r. destruct (prune_marks sm) as [M1 [M2 [M3 _]]]. rewrite !(created_iff O), M1, M2, M3. tauto.
Qed.

Lemma delta_of_prune : forall sm t c,
  delta_of O (prune sm) t c = prune_cd sm t c (delta_of O sm t c).
Proof.
  intros sm t c. unfold delta_of, prune. cbn [sm_tables]. rewrite td_find_prune.
  destruct (td_find O (sm_tables O sm) t) as [td|]; cbn [option_map].
  - unfold prune_td. cbn [td_deltas]. rewrite cd_find_prune. destruct (cd_find O (td_deltas O td) c); cbn [option_map]; [reflexivity|].
    unfold prune_cd. destruct (_ || _); reflexivity.
  - unfold prune_cd. destruct (_ || _); reflexivity.
Qed.

Lemma dget_prune : forall sm t c r,
  delta_get O (delta_of O (prune sm) t c) r =
  if is_defunct t || is_defunct c then None else if keepr sm t r then delta_get O (delta_of O sm t c) r else None.
Proof.
  intros sm t c r. rewrite delta_of_prune. unfold prune_cd. destruct (_ || _); [reflexivity|]. apply delta_get_filter.
Qed.

Lemma root_nondefunct : forall n, is_defunct n = false -> root_name n = n.
Proof.
  intros [|z n] H; [reflexivity|]. unfold is_defunct in H. unfold root_name.
  destruct z as [|p|p]; try reflexivity.
  repeat (destruct p as [p|p|]; try reflexivity; try discriminate).
Qed.

(* what one column delta inserts at the front of the undo list *)
Definition front_block (sm : summary) (t c : name) (cd : coldelta O) : list action :=
  match cd with
  | [] => []
  | _ =>
      let full_rows := changed_rows O cd in
      let defunct := is_defunct t || is_defunct c in
      match td_find O (sm_tables O sm) t with
      | None => []
      | Some td =>
          let orig_t := ren_original (sm_tabren O sm) t in
          let orig_c := ren_original (td_colren O td) c in
          let t' := root_name t in
          let c' := root_name c in
          if sum_is_created O sm t' c' && negb defunct then []
          else
            let rows_before := filter_out_new_rows O sm t full_rows in
            let preserved := if defunct then [] else filter_out_gone_rows O sm t' rows_before in
            let defunct_rows := filter (fun r => negb (zmem r preserved)) rows_before in
            match defunct_rows with
            | [] => []
            | _ => [update_action O orig_t orig_c cd defunct_rows false]
            end
      end
  end.

Lemma store_block_nil : forall t c, store_block O t c [] = [].
Proof. reflexivity. Qed.

Lemma cta_gen : forall (sm : summary) t c cd S U td,
  td_find O (sm_tables O sm) t = Some td ->
  changes_to_actions O sm t c cd (S, U) =
  Ok (S ++ store_block O t c (prune_cd sm t c cd),
      front_block sm t c cd ++ U ++ restore_block O (prune sm) t c (prune_cd sm t c cd)).
Proof.
  intros sm t c cd S U td Htd.
  destruct cd as [|ch0 cd0].
  - cbn. unfold prune_cd. destruct (_ || _); cbn; rewrite (restore_block_nil O), !app_nil_r; reflexivity.
  - unfold changes_to_actions, front_block. cbv beta iota zeta. rewrite Htd.
    remember (ch0 :: cd0) as cd eqn:Ecd.
    match goal with |- context [sort_by Z.ltb ?l] => change (sort_by Z.ltb l) with (changed_rows O cd) end.
    destruct (prune_marks sm) as [_ [_ [M3 [_ M5]]]].
    destruct (is_defunct t || is_defunct c) eqn:Edef.
    + (* the column or its table is gone *)
      unfold prune_cd. rewrite Edef. rewrite store_block_nil, (restore_block_nil O), !app_nil_r.
      rewrite andb_false_r. cbv beta iota.
      assert (Hf : forall l : list Z, filter (fun r => negb (zmem r [])) l = l).
      { induction l as [|x l IH]; [reflexivity|]. cbn [filter]. replace (negb (zmem x [])) with true by reflexivity. rewrite IH. reflexivity. }
      rewrite Hf. destruct (filter_out_new_rows O sm t (changed_rows O cd)); reflexivity.
    + apply orb_false_iff in Edef. destruct Edef as [Edt Edc].
      rewrite (root_nondefunct t Edt), (root_nondefunct c Edc). cbn [negb]. rewrite andb_true_r.
      assert (Hpcd : prune_cd sm t c cd = filter (fun ch : change O => keepr sm t (fst ch)) cd)
        by (unfold prune_cd; rewrite Edt, Edc; reflexivity).
      rewrite Hpcd.
      assert (Hgone : forall l, filter_out_gone_rows O sm t l = filter (keepr sm t) l).
      { intro l. unfold filter_out_gone_rows. rewrite Htd. apply filter_ext. intro r. unfold keepr, row_after. rewrite Htd. reflexivity. }
      assert (Hnew : forall l, filter_out_new_rows O sm t l =
                               filter (fun r => match row_before O sm t r with Some false => false | _ => true end) l).
      { intro l. unfold filter_out_new_rows. rewrite Htd. apply filter_ext. intro r. unfold row_before. rewrite Htd. reflexivity. }
      rewrite !Hgone, Hnew.
      assert (Hsb : match filter (keepr sm t) (changed_rows O cd) with
                    | [] => S
                    | _ :: _ => S ++ [update_action O t c cd (filter (keepr sm t) (changed_rows O cd)) true]
                    end = S ++ store_block O t c (filter (fun ch : change O => keepr sm t (fst ch)) cd)).
      { unfold store_block. rewrite changed_rows_filter.
        destruct (filter (keepr sm t) (changed_rows O cd)) as [|r0 l0] eqn:Ef; [rewrite app_nil_r; reflexivity|].
        unfold update_action. rewrite delta_values_filter; [reflexivity|].
        intros r Hr. rewrite <- Ef in Hr. apply filter_In in Hr. apply Hr. }
      rewrite Hsb.
      destruct (sum_is_created O sm t c) eqn:Ecr.
      * unfold restore_block, restore_rows. rewrite M5, Ecr. rewrite app_nil_r. reflexivity.
      * set (newf := fun r => match row_before O sm t r with Some false => false | _ => true end).
        assert (Hrr : restore_rows O (prune sm) t c (filter (fun ch : change O => keepr sm t (fst ch)) cd) =
                      filter (keepr sm t) (filter newf (changed_rows O cd))).
        { unfold restore_rows. rewrite M5, Ecr, changed_rows_filter. rewrite filter_comm. f_equal. apply filter_ext. intro r. rewrite M3. reflexivity. }
        unfold restore_block. rewrite Hrr.
        set (pres := filter (keepr sm t) (filter newf (changed_rows O cd))).
        assert (Hupd : update_action O t c (filter (fun ch : change O => keepr sm t (fst ch)) cd) pres false = update_action O t c cd pres false).
        { unfold update_action. rewrite delta_values_filter; [reflexivity|]. intros r Hr. unfold pres in Hr. apply filter_In in Hr. apply Hr. }
        destruct pres as [|p0 pl] eqn:Ep.
        -- rewrite app_nil_r. destruct (filter (fun r => negb (zmem r [])) (filter newf (changed_rows O cd))); reflexivity.
        -- rewrite Hupd. destruct (filter (fun r => negb (zmem r (p0 :: pl))) (filter newf (changed_rows O cd))); reflexivity.
Qed.

(* ------------------------------------------------------------------------------------------------ *)
(* the whole flush *)

Definition cols_front (sm : summary) (t : name) (td : tdelta O) (keys : list name) (acc : list action) : list action :=
  fold_left (fun acc c => match cd_find O (td_deltas O td) c with Some cd => front_block sm t c cd ++ acc | None => acc end) keys acc.

Lemma flush_cols_gen : forall (sm : summary) t td keys S F U A,
  td_find O (sm_tables O sm) t = Some td ->
  fold_left (fun acc c => bind acc (fun so' => match cd_find O (td_deltas O td) c with
                                               | Some cd => changes_to_actions O sm t c cd so'
                                               | None => Ok so'
                                               end)) keys (Ok (S, F ++ U ++ A)) =
  Ok (S ++ cols_sblock O t (prune_td sm t td) keys,
      cols_front sm t td keys F ++ U ++ (A ++ cols_block O (prune sm) t (prune_td sm t td) keys)).
Proof.
  intros sm t td keys. induction keys as [|c keys IH]; intros S F U A Htd; cbn [fold_left cols_front cols_sblock cols_block flat_map].
  - rewrite !app_nil_r. reflexivity.
  - unfold prune_td at 1 3. cbn [td_deltas]. rewrite !cd_find_prune.
    destruct (cd_find O (td_deltas O td) c) as [cd|] eqn:Ec; cbn [option_map bind].
    + rewrite (cta_gen sm t c cd S (F ++ U ++ A) td Htd). cbn [bind].
      replace (front_block sm t c cd ++ (F ++ U ++ A) ++ restore_block O (prune sm) t c (prune_cd sm t c cd))
        with ((front_block sm t c cd ++ F) ++ U ++ (A ++ restore_block O (prune sm) t c (prune_cd sm t c cd)))
        by (rewrite <- !app_assoc; reflexivity).
      rewrite IH by exact Htd. unfold cols_sblock, cols_block. rewrite <- !app_assoc. reflexivity.
    + rewrite IH by exact Htd. reflexivity.
Qed.

Definition table_front (sm : summary) (t : name) (acc : list action) : list action :=
  match td_find O (sm_tables O sm) t with
  | Some td => cols_front sm t td (sorted_keys (td_deltas O td)) acc
  | None => acc
  end.

Definition tables_front (sm : summary) (keys : list name) (acc : list action) : list action :=
  fold_left (fun acc t => table_front sm t acc) keys acc.

Lemma sorted_keys_prune_td : forall sm t td, sorted_keys (td_deltas O (prune_td sm t td)) = sorted_keys (td_deltas O td).
Proof. intros. unfold sorted_keys. rewrite prune_keys_cols. reflexivity. Qed.

Lemma flush_tables_gen : forall (sm : summary) keys S F U A,
  fold_left (fun acc t => bind acc (fun so' => flush_table O sm t so')) keys (Ok (S, F ++ U ++ A)) =
  Ok (S ++ flat_map (table_sblock O (prune sm)) keys,
      tables_front sm keys F ++ U ++ (A ++ flat_map (table_block O (prune sm)) keys)).
Proof.
  intros sm keys. induction keys as [|t keys IH]; intros S F U A; cbn [fold_left tables_front flat_map].
  - rewrite !app_nil_r. reflexivity.
  - cbn [bind]. unfold flush_table at 2. unfold table_block at 1. unfold table_sblock at 1. unfold table_front at 2.
    unfold prune at 1 3. cbn [sm_tables]. rewrite !td_find_prune.
    destruct (td_find O (sm_tables O sm) t) as [td|] eqn:Etd; cbn [option_map].
    + rewrite sorted_keys_prune_td.
      rewrite (flush_cols_gen sm t td (sorted_keys (td_deltas O td)) S F U A Etd).
      rewrite IH. rewrite <- !app_assoc. reflexivity.
    + rewrite IH. reflexivity.
Qed.

Definition all_fronts (sm : summary) : list action := tables_front sm (sorted_keys (sm_tables O sm)) [].

Theorem flush_all_gen : forall (sm : summary) S U,
  flush_all O sm (S, U) = Ok (S ++ all_sblocks O (prune sm), all_fronts sm ++ U ++ all_blocks O (prune sm)).
Proof.
  intros sm S U. unfold flush_all, all_blocks, all_sblocks, all_fronts.
  assert (Hk : sorted_keys (sm_tables O (prune sm)) = sorted_keys (sm_tables O sm)) by (unfold sorted_keys; rewrite prune_keys_tables; reflexivity).
  rewrite Hk. pose proof (flush_tables_gen sm (sorted_keys (sm_tables O sm)) S [] U []) as H.
  cbn [app] in H. rewrite app_nil_r in H. exact H.
Qed.

End Flush2.
