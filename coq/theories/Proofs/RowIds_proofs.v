(* Proofs for C27 (Model/RowIds.v).  Part 1: the loop translated from the source equals [fill] (re-checked
   against the regenerated translation on every run).  Part 2: facts about [fill] and the row-id set.
   Part 3: the unchanged code (partial statements + exactness of the hypotheses).  Part 4: the repaired
   variant (full statements). *)
From Coq Require Import ZArith List Bool Lia.
Import ListNotations.
Require Import Grist.Lib.PyPrelude Grist.Lib.PyMonad Grist.Model.RowIds GristGen.RowIds_gen.
Open Scope Z_scope.

(* ================================================================================================ *)
(* Part 1: bridging lemma                                                                           *)

Definition lift_ids (r : py_result (list Z)) : py_result (list (option Z)) :=
  match r with PyOk l => PyOk (map Some l) | PyErr e => PyErr e end.

Lemma py_set_nth_app : forall (X : Type) (done : list X) (x v : X) (t : list X),
  py_set_nth (Z.of_nat (length done)) v (done ++ x :: t) = done ++ v :: t.
Proof.
  induction done as [|d done IH]; intros x v t.
  - reflexivity.
  - cbn [length app py_set_nth].
    replace (Z.of_nat (S (length done)) =? 0) with false by (symmetry; apply Z.eqb_neq; lia).
    replace (Z.of_nat (S (length done)) - 1) with (Z.of_nat (length done)) by lia.
    rewrite IH. reflexivity.
Qed.

(* the body of the translated loop, as a function (must stay convertible with the generated text) *)
Definition gen_body (st__ : list (option Z) * Z) (it__ : Z * option Z) : py_result (list (option Z) * Z) :=
  let '(filled_row_ids, next_row_id) := st__ in
  let '(i, row_id) := it__ in
  match row_id with
  | None =>
      let v__ := next_row_id in
      let filled_row_ids := py_set_nth i (Some v__) filled_row_ids in
      let row_id := v__ in
      let next_row_id := Z.max next_row_id row_id + 1 in
      PyOk (filled_row_ids, next_row_id)
  | Some row_id =>
      if row_id <? 0
      then
        let v__ := next_row_id in
        let filled_row_ids := py_set_nth i (Some v__) filled_row_ids in
        let row_id := v__ in
        let next_row_id := Z.max next_row_id row_id + 1 in
        PyOk (filled_row_ids, next_row_id)
      else if row_id >? 1000000 then PyErr PyValueError
      else let next_row_id := Z.max next_row_id row_id + 1 in PyOk (filled_row_ids, next_row_id)
  end.

Lemma gen_loop_is_fill : forall (todo : list (option Z)) (done : list Z) (next : Z),
  py_bind (py_fold gen_body (py_enumerate_from (Z.of_nat (length done)) todo) (map Some done ++ todo, next))
          (fun st__ => let '(filled_row_ids, _) := st__ in PyOk filled_row_ids)
  = match fill next todo with
    | PyOk l => PyOk (map Some done ++ map Some l)
    | PyErr e => PyErr e
    end.
Proof.
  induction todo as [|r t IH]; intros done next.
  - cbn. reflexivity.
  - cbn [py_enumerate_from py_fold fill].
    assert (Hstep : forall v, map Some done ++ Some v :: t = map Some (done ++ [v]) ++ t).
    { intros v. rewrite map_app. rewrite <- app_assoc. reflexivity. }
    assert (Hlen : forall v : Z, Z.of_nat (length done) + 1 = Z.of_nat (length (done ++ [v]))).
    { intros v. rewrite app_length. cbn [length]. lia. }
    assert (Hset : forall v, py_set_nth (Z.of_nat (length done)) (Some v) (map Some done ++ r :: t)
                             = map Some done ++ Some v :: t).
    { intros v. rewrite <- (map_length Some done). apply py_set_nth_app. }
    assert (Hout : forall v l, map Some (done ++ [v]) ++ map Some l = map Some done ++ map Some (v :: l)).
    { intros v l. rewrite map_app. rewrite <- app_assoc. reflexivity. }
    unfold gen_body at 1. unfold fill_one.
    destruct r as [z|].
    + destruct (z <? 0) eqn:Hneg.
      * cbv zeta. rewrite Hset, Hstep, (Hlen next), IH.
        destruct (fill (Z.max next next + 1) t); [rewrite Hout|]; reflexivity.
      * unfold MAX_ROW_ID. destruct (z >? 1000000) eqn:Hhigh.
        -- reflexivity.
        -- cbv zeta.
           replace (map Some done ++ Some z :: t) with (map Some (done ++ [z]) ++ t) by (symmetry; apply Hstep).
           rewrite (Hlen z), IH.
           destruct (fill (Z.max next z + 1) t); [rewrite Hout|]; reflexivity.
    + cbv zeta. rewrite Hset, Hstep, (Hlen next), IH.
      destruct (fill (Z.max next next + 1) t); [rewrite Hout|]; reflexivity.
Qed.

(* The loop as translated from useractions.py is [fill]. *)
Lemma fill_row_ids_is_fill : forall (row_ids : list (option Z)) (next : Z),
  fill_row_ids row_ids next = lift_ids (fill next row_ids).
Proof.
  intros row_ids next. unfold fill_row_ids, lift_ids.
  exact (gen_loop_is_fill row_ids [] next).
Qed.

(* ================================================================================================ *)
(* Part 2: the row-id set and [fill]                                                                *)

Lemma Forall2_impl : forall (A B : Type) (P Q : A -> B -> Prop),
  (forall a b, P a b -> Q a b) -> forall l m, Forall2 P l m -> Forall2 Q l m.
Proof. intros A B P Q H l m F. induction F; constructor; auto. Qed.

Lemma mem_In : forall x l, py_mem Z.eqb x l = true <-> In x l.
Proof. exact py_mem_Z_In. Qed.

Lemma mem_false : forall x l, py_mem Z.eqb x l = false <-> ~ In x l.
Proof.
  intros x l. rewrite <- mem_In. destruct (py_mem Z.eqb x l); split; intros; congruence.
Qed.

Lemma max_row_ge : forall rs e, In e rs -> e <= max_row rs.
Proof.
  induction rs as [|r rs IH]; intros e H; [contradiction|].
  cbn [max_row fold_right]. fold (max_row rs). destruct H as [->|H]; [lia|]. apply IH in H. lia.
Qed.

Lemma max_row_nonneg : forall rs, 0 <= max_row rs.
Proof. induction rs as [|r rs IH]; cbn [max_row fold_right]; [lia|]. fold (max_row rs). lia. Qed.

Lemma next_row_id_gt : forall rs e, In e rs -> e < next_row_id rs.
Proof. intros rs e H. unfold next_row_id. apply max_row_ge in H. lia. Qed.

Lemma next_row_id_pos : forall rs, 1 <= next_row_id rs.
Proof. intros rs. unfold next_row_id. pose proof (max_row_nonneg rs). lia. Qed.

Lemma add_row_In : forall rs r x, In x (add_row rs r) <-> In x rs \/ (x = r /\ 0 < r).
Proof.
  intros rs r x. unfold add_row.
  destruct (0 <? r) eqn:Hp; cbn [andb].
  - apply Z.ltb_lt in Hp. destruct (py_mem Z.eqb r rs) eqn:Hm; cbn [negb].
    + apply mem_In in Hm. split; [tauto|]. intros [H|[-> _]]; assumption.
    + rewrite in_app_iff. cbn [In]. split.
      * intros [H|[H|[]]]; [tauto|]. right. split; [congruence|assumption].
      * intros [H|[-> _]]; [tauto|]. right. left. reflexivity.
  - apply Z.ltb_ge in Hp. split; [tauto|]. intros [H|[_ H]]; [assumption|lia].
Qed.

Lemma NoDup_app_intro : forall (l m : list Z),
  NoDup l -> NoDup m -> (forall x, In x l -> ~ In x m) -> NoDup (l ++ m).
Proof.
  induction l as [|a l IH]; intros m Hl Hm Hd; [exact Hm|].
  inversion Hl as [|? ? Hna Hl']; subst. cbn [app]. constructor.
  - rewrite in_app_iff. intros [H|H]; [contradiction|]. apply (Hd a); [left; reflexivity|assumption].
  - apply IH; [assumption|assumption|]. intros x Hx. apply Hd. right. assumption.
Qed.

Lemma add_row_wf : forall rs r, wf_rows rs -> wf_rows (add_row rs r).
Proof.
  intros rs r [Hnd Hpos]. unfold add_row.
  destruct (0 <? r) eqn:Hp; cbn [andb]; [|split; assumption].
  destruct (py_mem Z.eqb r rs) eqn:Hm; cbn [negb]; [split; assumption|].
  apply mem_false in Hm. apply Z.ltb_lt in Hp. split.
  - apply NoDup_app_intro; [assumption|repeat constructor; intros []|].
    intros x Hx [Hy|[]]. subst. contradiction.
  - apply Forall_app. split; [assumption|]. repeat constructor. assumption.
Qed.

Lemma add_rows_In : forall ids rs x, In x (add_rows rs ids) <-> In x rs \/ (In x ids /\ 0 < x).
Proof.
  induction ids as [|r ids IH]; intros rs x; cbn [add_rows fold_left].
  - split; [tauto|]. intros [H|[[] _]]. assumption.
  - fold (add_rows (add_row rs r) ids). rewrite IH, add_row_In. cbn [In]. split.
    + intros [[H|[-> H]]|[H1 H2]]; [tauto| |tauto]. right. split; [left; reflexivity|assumption].
    + intros [H|[[->|H1] H2]]; [tauto| |tauto]. left. right. split; [reflexivity|assumption].
Qed.

Lemma add_rows_wf : forall ids rs, wf_rows rs -> wf_rows (add_rows rs ids).
Proof.
  induction ids as [|r ids IH]; intros rs H; cbn [add_rows fold_left]; [assumption|].
  apply IH. apply add_row_wf. assumption.
Qed.

Lemma wf_nil : wf_rows [].
Proof. split; constructor. Qed.

Lemma explicit_some : forall r z, explicit r = Some z -> r = Some z /\ 0 <= z.
Proof.
  intros [y|] z H; cbn [explicit] in H; [|discriminate].
  destruct (y <? 0) eqn:Hn; [discriminate|]. apply Z.ltb_ge in Hn. inversion H; subst. split; [reflexivity|assumption].
Qed.

Lemma fill_one_explicit : forall n r z, explicit r = Some z ->
  fill_one n r = if z >? MAX_ROW_ID then PyErr PyValueError else PyOk z.
Proof.
  intros n r z H. destruct (explicit_some _ _ H) as [-> Hz]. cbn [fill_one].
  replace (z <? 0) with false by (symmetry; apply Z.ltb_ge; assumption). reflexivity.
Qed.

Lemma fill_one_auto : forall n r, explicit r = None -> fill_one n r = PyOk n.
Proof.
  intros n [y|] H; cbn [explicit fill_one] in *; [|reflexivity].
  destruct (y <? 0); [reflexivity|discriminate].
Qed.

(* one step of [fill], by kind of slot *)
Lemma fill_cons_explicit : forall n r z t out, explicit r = Some z ->
  fill n (r :: t) = PyOk out ->
  z <= MAX_ROW_ID /\ exists o, out = z :: o /\ fill (Z.max n z + 1) t = PyOk o.
Proof.
  intros n r z t out He H. cbn [fill] in H. rewrite (fill_one_explicit n r z He) in H.
  destruct (z >? MAX_ROW_ID) eqn:Hh; [discriminate|].
  destruct (fill (Z.max n z + 1) t) as [o|] eqn:Ht; [|discriminate].
  inversion H; subst. split; [lia|]. exists o. split; reflexivity.
Qed.

Lemma fill_cons_auto : forall n r t out, explicit r = None ->
  fill n (r :: t) = PyOk out ->
  exists o, out = n :: o /\ fill (n + 1) t = PyOk o.
Proof.
  intros n r t out He H. cbn [fill] in H. rewrite (fill_one_auto n r He) in H.
  replace (Z.max n n + 1) with (n + 1) in H by lia.
  destruct (fill (n + 1) t) as [o|] eqn:Ht; [|discriminate].
  inversion H; subst. exists o. split; reflexivity.
Qed.

(* every returned id is an explicit id of the request or an automatic id >= next *)
Lemma fill_elems : forall req n out, fill n req = PyOk out ->
  forall o, In o out -> In o (explicit_ids req) \/ n <= o.
Proof.
  induction req as [|r t IH]; intros n out H o Ho.
  - cbn in H. inversion H; subst. contradiction.
  - cbn [explicit_ids flat_map]. destruct (explicit r) as [z|] eqn:He.
    + destruct (fill_cons_explicit _ _ _ _ _ He H) as [_ [o' [-> Ht]]].
      destruct Ho as [<-|Ho]; [left; left; reflexivity|].
      destruct (IH _ _ Ht _ Ho) as [Hi|Hi]; [left; right; exact Hi|right; lia].
    + destruct (fill_cons_auto _ _ _ _ He H) as [o' [-> Ht]].
      destruct Ho as [<-|Ho]; [right; lia|].
      destruct (IH _ _ Ht _ Ho) as [Hi|Hi]; [left; exact Hi|right; lia].
Qed.

Lemma explicit_in_out : forall req n out, fill n req = PyOk out ->
  forall z, In z (explicit_ids req) -> In z out.
Proof.
  induction req as [|r t IH]; intros n out H z Hz; [contradiction|].
  cbn [explicit_ids flat_map] in Hz. destruct (explicit r) as [y|] eqn:He.
  - destruct (fill_cons_explicit _ _ _ _ _ He H) as [_ [o' [-> Ht]]].
    destruct Hz as [<-|Hz]; [left; reflexivity|right; eapply IH; eassumption].
  - destruct (fill_cons_auto _ _ _ _ He H) as [o' [-> Ht]]. right. eapply IH; eassumption.
Qed.

Lemma explicit_ids_bounds : forall req z, In z (explicit_ids req) -> 0 <= z.
Proof.
  induction req as [|r t IH]; intros z Hz; [contradiction|].
  cbn [explicit_ids flat_map] in Hz. destruct (explicit r) as [y|] eqn:He.
  - destruct Hz as [<-|Hz]; [apply (explicit_some _ _ He)|apply IH; assumption].
  - apply IH; assumption.
Qed.

(* shape of the result: explicit ids honoured (and within the limit), automatic ids >= next *)
Lemma fill_shape : forall req n out, fill n req = PyOk out ->
  Forall2 (fun r o => match explicit r with Some z => o = z /\ z <= MAX_ROW_ID | None => n <= o end) req out.
Proof.
  induction req as [|r t IH]; intros n out H.
  - cbn in H. inversion H; subst. constructor.
  - destruct (explicit r) as [z|] eqn:He.
    + destruct (fill_cons_explicit _ _ _ _ _ He H) as [Hz [o' [-> Ht]]].
      constructor; [rewrite He; split; [reflexivity|assumption]|].
      eapply Forall2_impl; [|apply (IH _ _ Ht)]. intros a b Hab. cbv beta in *.
      destruct (explicit a); [assumption|lia].
    + destruct (fill_cons_auto _ _ _ _ He H) as [o' [-> Ht]].
      constructor; [rewrite He; lia|].
      eapply Forall2_impl; [|apply (IH _ _ Ht)]. intros a b Hab. cbv beta in *.
      destruct (explicit a); [assumption|lia].
Qed.

(* [fill] fails exactly on an explicit id above the limit *)
Lemma fill_err_iff : forall req n,
  (exists e, fill n req = PyErr e) <-> (exists z, In z (explicit_ids req) /\ z > MAX_ROW_ID).
Proof.
  induction req as [|r t IH]; intros n.
  - cbn. split; intros [x H]; [discriminate|destruct H as [[] _]].
  - cbn [fill explicit_ids flat_map]. destruct (explicit r) as [z|] eqn:He.
    + rewrite (fill_one_explicit n r z He). destruct (z >? MAX_ROW_ID) eqn:Hh.
      * split; [|intros _; eexists; reflexivity]. intros _. exists z. split; [left; reflexivity|lia].
      * specialize (IH (Z.max n z + 1)). destruct (fill (Z.max n z + 1) t) as [o|e] eqn:Ht.
        -- split; [intros [x Hx]; discriminate|]. intros [y [[<-|Hy] Hy2]]; [lia|].
           exfalso. destruct IH as [_ IH]. destruct IH as [x Hx]; [exists y; tauto|discriminate].
        -- split; [|intros _; eexists; reflexivity]. intros _. destruct IH as [IH _].
           destruct IH as [y [Hy1 Hy2]]; [eexists; reflexivity|]. exists y. split; [right; assumption|assumption].
    + rewrite (fill_one_auto n r He). specialize (IH (Z.max n n + 1)).
      cbn [app]. destruct (fill (Z.max n n + 1) t) as [o|e] eqn:Ht.
      * split; [intros [x Hx]; discriminate|]. intros Hy. destruct IH as [_ IH]. destruct (IH Hy); discriminate.
      * split; [|intros _; eexists; reflexivity]. intros _. apply IH. eexists; reflexivity.
Qed.

Lemma clash_free_explicit_notin : forall req n autos, clash_free n autos req = true ->
  forall z, In z (explicit_ids req) -> ~ In z autos.
Proof.
  induction req as [|r t IH]; intros n autos H z Hz; [contradiction|].
  cbn [clash_free] in H. cbn [explicit_ids flat_map] in Hz. destruct (explicit r) as [y|] eqn:He.
  - apply andb_true_iff in H. destruct H as [H1 H2].
    destruct Hz as [<-|Hz].
    + apply mem_false. destruct (py_mem Z.eqb y autos); [discriminate|reflexivity].
    + eapply IH; eassumption.
  - intros Hin. eapply (IH _ _ H z Hz). right. assumption.
Qed.

(* distinctness of the filled ids, from input-level hypotheses *)
Lemma fill_nodup : forall req n autos out, fill n req = PyOk out ->
  NoDup (explicit_ids req) -> clash_free n autos req = true -> NoDup out.
Proof.
  induction req as [|r t IH]; intros n autos out H Hnd Hcf.
  - cbn in H. inversion H; subst. constructor.
  - cbn [clash_free] in Hcf. cbn [explicit_ids flat_map] in Hnd. destruct (explicit r) as [z|] eqn:He.
    + destruct (fill_cons_explicit _ _ _ _ _ He H) as [_ [o' [-> Ht]]].
      apply andb_true_iff in Hcf. destruct Hcf as [_ Hcf]. cbn [app] in Hnd.
      inversion Hnd as [|? ? Hz Hnd']; subst. constructor; [|eapply IH; eassumption].
      intros Hin. destruct (fill_elems _ _ _ Ht _ Hin) as [Hi|Hi]; [contradiction|lia].
    + destruct (fill_cons_auto _ _ _ _ He H) as [o' [-> Ht]]. cbn [app] in Hnd.
      constructor; [|eapply IH; eassumption].
      intros Hin. destruct (fill_elems _ _ _ Ht _ Hin) as [Hi|Hi]; [|lia].
      eapply clash_free_explicit_notin; [exact Hcf|exact Hi|left; reflexivity].
Qed.

(* ... and conversely: if the filled ids are distinct, the hypotheses held (they are exact) *)
Lemma fill_nodup_inv : forall req n autos out, fill n req = PyOk out ->
  NoDup out -> (forall a, In a autos -> ~ In a out) ->
  NoDup (explicit_ids req) /\ clash_free n autos req = true.
Proof.
  induction req as [|r t IH]; intros n autos out H Hnd Hdis.
  - split; [constructor|reflexivity].
  - cbn [clash_free explicit_ids flat_map]. destruct (explicit r) as [z|] eqn:He.
    + destruct (fill_cons_explicit _ _ _ _ _ He H) as [_ [o' [-> Ht]]].
      inversion Hnd as [|? ? Hz Hnd']; subst.
      destruct (IH _ autos _ Ht Hnd') as [I1 I2].
      { intros a Ha Hin. apply (Hdis a Ha). right. assumption. }
      split.
      * cbn [app]. constructor; [|assumption]. intros Hin. apply Hz. eapply explicit_in_out; eassumption.
      * apply andb_true_iff. split; [|assumption].
        destruct (py_mem Z.eqb z autos) eqn:Hm; [|reflexivity].
        apply mem_In in Hm. exfalso. apply (Hdis z Hm). left. reflexivity.
    + destruct (fill_cons_auto _ _ _ _ He H) as [o' [-> Ht]].
      inversion Hnd as [|? ? Hz Hnd']; subst. cbn [app].
      apply (IH _ (n :: autos) _ Ht Hnd').
      intros a [<-|Ha] Hin; [contradiction|]. apply (Hdis a Ha). right. assumption.
Qed.

Lemma forallb_auto_explicit_ids : forall t, forallb is_auto t = true -> explicit_ids t = [].
Proof.
  induction t as [|r t IH]; intros H; [reflexivity|].
  cbn [forallb] in H. apply andb_true_iff in H. destruct H as [H1 H2].
  cbn [explicit_ids flat_map]. unfold is_auto in H1. destruct (explicit r); [discriminate|]. apply IH. assumption.
Qed.

Lemma clash_free_no_explicit : forall t n autos, explicit_ids t = [] -> clash_free n autos t = true.
Proof.
  induction t as [|r t IH]; intros n autos H; [reflexivity|].
  cbn [explicit_ids flat_map] in H. cbn [clash_free]. destruct (explicit r); [discriminate|]. apply IH. assumption.
Qed.

(* explicit ids first, automatic slots last: nothing can clash *)
Lemma explicit_first_clash_free : forall req n, explicit_first req = true -> clash_free n [] req = true.
Proof.
  induction req as [|r t IH]; intros n H; [reflexivity|].
  cbn [explicit_first] in H. cbn [clash_free]. unfold is_auto in H. destruct (explicit r) as [z|].
  - cbn [py_mem negb andb]. apply IH. assumption.
  - apply clash_free_no_explicit. apply forallb_auto_explicit_ids. assumption.
Qed.

Lemma existsb_row_in_false : forall rs out, existsb (fun r => row_in r rs) out = false ->
  forall o, In o out -> 0 < o -> ~ In o rs.
Proof.
  intros rs out H o Ho Hp Hin.
  assert (E : existsb (fun r => row_in r rs) out = true).
  { apply existsb_exists. exists o. split; [assumption|]. unfold row_in.
    apply andb_true_iff. split; [apply Z.ltb_lt; assumption|apply mem_In; assumption]. }
  congruence.
Qed.

(* ================================================================================================ *)
(* Part 3: the unchanged code                                                                       *)

(* what an accepted BulkAddRecord guarantees with NO extra hypothesis *)
Lemma add_accepted_always : forall rs req out rs', wf_rows rs ->
  do_bulk_add_or_replace false rs req = Accepted out rs' ->
  fill (next_row_id rs) req = PyOk out /\
  (forall r, In r out -> ~ In r rs) /\
  Forall2 (fun r o => match explicit r with Some z => o = z | None => forall e, In e rs -> e < o end) req out /\
  (forall r, In r rs' <-> In r rs \/ (In r out /\ 0 < r)) /\
  wf_rows rs'.
Proof.
  intros rs req out rs' Hwf H. unfold do_bulk_add_or_replace in H.
  destruct (fill (next_row_id rs) req) as [o|e] eqn:Hf; [|discriminate].
  unfold finish, doc_bulk_add in H.
  destruct (existsb (fun r => row_in r rs) o) eqn:Hex; [discriminate|].
  inversion H; subst. split; [reflexivity|]. split; [|split; [|split]].
  - intros r Hr Hin. assert (0 < r) by (destruct Hwf as [_ Hp]; rewrite Forall_forall in Hp; apply Hp; assumption).
    eapply existsb_row_in_false; eassumption.
  - eapply Forall2_impl; [|apply (fill_shape _ _ _ Hf)]. intros a b Hab. cbv beta in *.
    destruct (explicit a); [tauto|]. intros e He. apply next_row_id_gt in He. lia.
  - intros r. apply add_rows_In.
  - apply add_rows_wf. assumption.
Qed.

Lemma out_positive : forall rs req out, fill (next_row_id rs) req = PyOk out ->
  ~ In 0 (explicit_ids req) -> forall o, In o out -> 0 < o.
Proof.
  intros rs req out Hf H0 o Ho. destruct (fill_elems _ _ _ Hf _ Ho) as [Hi|Hi].
  - pose proof (explicit_ids_bounds _ _ Hi). assert (o <> 0) by (intros ->; contradiction). lia.
  - pose proof (next_row_id_pos rs). lia.
Qed.

(* C27_alloc under the narrowest hypotheses that exclude the three defects *)
Lemma alloc_partial : forall rs req, wf_rows rs ->
  ~ In 0 (explicit_ids req) -> NoDup (explicit_ids req) -> clash_free (next_row_id rs) [] req = true ->
  alloc_statement (do_bulk_add_or_replace false) rs req.
Proof.
  intros rs req Hwf H0 Hnd Hcf out rs' H.
  destruct (add_accepted_always _ _ _ _ Hwf H) as [Hf [Hdis [Hsh [Hin Hwf']]]].
  split; [eapply fill_nodup; eassumption|]. split; [assumption|]. split; [assumption|]. split; [|assumption].
  intros r. rewrite Hin. split; [tauto|]. intros [Hr|Hr]; [tauto|]. right. split; [assumption|].
  eapply out_positive; eassumption.
Qed.

(* exactness: whenever the conclusion holds for an accepted request, the three hypotheses held *)
Lemma alloc_partial_exact : forall rs req out rs', wf_rows rs ->
  do_bulk_add_or_replace false rs req = Accepted out rs' ->
  alloc_statement (do_bulk_add_or_replace false) rs req ->
  ~ In 0 (explicit_ids req) /\ NoDup (explicit_ids req) /\ clash_free (next_row_id rs) [] req = true.
Proof.
  intros rs req out rs' Hwf H Hst. destruct (Hst _ _ H) as [Hnd [_ [_ [Hin [_ Hpos]]]]].
  destruct (add_accepted_always _ _ _ _ Hwf H) as [Hf _].
  split.
  - intros H0. pose proof (explicit_in_out _ _ _ Hf _ H0) as Ho.
    assert (Hr : In 0 rs') by (apply Hin; right; assumption).
    rewrite Forall_forall in Hpos. apply Hpos in Hr. lia.
  - apply (fill_nodup_inv _ _ [] _ Hf Hnd). intros a [].
Qed.

(* the same for ReplaceTableData: no existing rows to collide with, next id starts at 1 *)
Lemma replace_accepted_always : forall old req out rs',
  do_bulk_add_or_replace true old req = Accepted out rs' ->
  fill 1 req = PyOk out /\ (forall r, In r rs' <-> In r out /\ 0 < r) /\ wf_rows rs'.
Proof.
  intros old req out rs' H. unfold do_bulk_add_or_replace in H.
  destruct (fill 1 req) as [o|e] eqn:Hf; [|discriminate]. cbn [finish] in H. inversion H; subst.
  split; [reflexivity|]. split.
  - intros r. unfold doc_replace. rewrite add_rows_In. cbn [In]. tauto.
  - apply add_rows_wf. apply wf_nil.
Qed.

Lemma alloc_partial_replace : forall old req,
  ~ In 0 (explicit_ids req) -> NoDup (explicit_ids req) -> clash_free 1 [] req = true ->
  alloc_statement (replace_as_add do_bulk_add_or_replace old) [] req.
Proof.
  intros old req H0 Hnd Hcf out rs' H. unfold replace_as_add in H.
  destruct (replace_accepted_always _ _ _ _ H) as [Hf [Hin Hwf]].
  split; [eapply fill_nodup; eassumption|]. split; [intros r _ []|]. split; [|split; [|assumption]].
  - eapply Forall2_impl; [|apply (fill_shape _ _ _ Hf)]. intros a b Hab. cbv beta in *.
    destruct (explicit a); [tauto|]. intros e [].
  - intros r. rewrite Hin. cbn [In]. split; [tauto|]. intros [[]|Hr]. split; [assumption|].
    destruct (fill_elems _ _ _ Hf _ Hr) as [Hi|Hi]; [|lia].
    pose proof (explicit_ids_bounds _ _ Hi). assert (r <> 0) by (intros ->; contradiction). lia.
Qed.

(* the rejections the unchanged code does perform: over the limit, and (for adds) already existing *)
Lemma rejects_partial_add : forall rs req, wf_rows rs ->
  ((exists z, In z (explicit_ids req) /\ z > MAX_ROW_ID) \/ (exists z, In z (explicit_ids req) /\ In z rs)) ->
  (exists e, do_bulk_add_or_replace false rs req = Rejected e) /\
  rows_after rs (do_bulk_add_or_replace false rs req) = rs.
Proof.
  intros rs req Hwf Hbad.
  assert (E : exists e, do_bulk_add_or_replace false rs req = Rejected e).
  { unfold do_bulk_add_or_replace. destruct (fill (next_row_id rs) req) as [o|e] eqn:Hf; [|eexists; reflexivity].
    destruct Hbad as [Hbad|[z [Hz1 Hz2]]].
    - exfalso. apply (fill_err_iff req (next_row_id rs)) in Hbad. destruct Hbad as [e He]. congruence.
    - unfold finish, doc_bulk_add.
      assert (Hex : existsb (fun r => row_in r rs) o = true).
      { apply existsb_exists. exists z. split; [eapply explicit_in_out; eassumption|].
        unfold row_in. apply andb_true_iff. split; [|apply mem_In; assumption].
        apply Z.ltb_lt. destruct Hwf as [_ Hp]. rewrite Forall_forall in Hp. apply Hp. assumption. }
      rewrite Hex. eexists; reflexivity. }
  split; [assumption|]. destruct E as [e ->]. reflexivity.
Qed.

Lemma rejects_partial_replace : forall old req,
  (exists z, In z (explicit_ids req) /\ z > MAX_ROW_ID) ->
  (exists e, do_bulk_add_or_replace true old req = Rejected e) /\
  rows_after old (do_bulk_add_or_replace true old req) = old.
Proof.
  intros old req Hbad. apply (fill_err_iff req 1) in Hbad. destruct Hbad as [e He].
  unfold do_bulk_add_or_replace. rewrite He. split; [eexists; reflexivity|reflexivity].
Qed.

(* ================================================================================================ *)
(* Part 4: the repaired variant                                                                     *)

Definition good_explicit (seen : list Z) (z : Z) : Prop := 0 < z <= MAX_ROW_ID /\ ~ In z seen.

Lemma validate_ok : forall req seen n n',
  validate_fixed seen n req = PyOk n' ->
  n <= n' /\
  (forall z, In z (explicit_ids req) -> good_explicit seen z /\ z < n') /\
  NoDup (explicit_ids req).
Proof.
  induction req as [|r t IH]; intros seen n n' H.
  - cbn in H. inversion H; subst. split; [lia|]. split; [intros z []|constructor].
  - cbn [validate_fixed] in H. cbn [explicit_ids flat_map]. destruct (explicit r) as [z|] eqn:He.
    + destruct (z >? MAX_ROW_ID) eqn:Hh; [discriminate|].
      destruct ((z =? 0) || py_mem Z.eqb z seen) eqn:Hc; [discriminate|].
      apply orb_false_iff in Hc. destruct Hc as [Hc1 Hc2].
      apply Z.eqb_neq in Hc1. apply mem_false in Hc2.
      pose proof (proj2 (explicit_some _ _ He)) as Hz0.
      destruct (IH _ _ _ H) as [I1 [I2 I3]].
      assert (Hgood : good_explicit seen z) by (split; [lia|assumption]).
      split; [lia|]. split.
      * intros y [<-|Hy]; [split; [assumption|lia]|].
        destruct (I2 y Hy) as [[G1 G2] G4]. split; [|assumption].
        split; [assumption|]. intros Hin. apply G2. apply in_or_app. left. assumption.
      * cbn [app]. constructor; [|assumption]. intros Hin. destruct (I2 z Hin) as [[_ G2] _].
        apply G2. apply in_or_app. right. left. reflexivity.
    + cbn [app]. apply (IH _ _ _ H).
Qed.

Lemma validate_accepts : forall req seen n,
  (forall z, In z (explicit_ids req) -> good_explicit seen z) ->
  NoDup (explicit_ids req) ->
  exists n', validate_fixed seen n req = PyOk n'.
Proof.
  induction req as [|r t IH]; intros seen n Hg Hnd.
  - eexists; reflexivity.
  - cbn [validate_fixed]. cbn [explicit_ids flat_map] in Hg, Hnd. destruct (explicit r) as [z|] eqn:He.
    + destruct (Hg z (or_introl eq_refl)) as [G1 G2].
      replace (z >? MAX_ROW_ID) with false by (symmetry; rewrite Z.gtb_ltb; apply Z.ltb_ge; lia).
      replace (z =? 0) with false by (symmetry; apply Z.eqb_neq; lia).
      replace (py_mem Z.eqb z seen) with false by (symmetry; apply mem_false; assumption).
      cbn [orb]. cbn [app] in Hnd. inversion Hnd as [|? ? Hz Hnd']; subst.
      apply IH; [|assumption].
      intros y Hy. destruct (Hg y (or_intror Hy)) as [Y1 Y2]. split; [assumption|].
      intros Hin. apply in_app_or in Hin. destruct Hin as [Hin|[<-|[]]]; [contradiction|contradiction].
    + cbn [app] in Hg, Hnd. apply IH; assumption.
Qed.

Lemma fill_autos_elems : forall req n o, In o (fill_autos n req) -> In o (explicit_ids req) \/ n <= o.
Proof.
  induction req as [|r t IH]; intros n o H; [contradiction|].
  cbn [fill_autos] in H. cbn [explicit_ids flat_map]. destruct (explicit r) as [z|].
  - destruct H as [<-|H]; [left; left; reflexivity|]. destruct (IH _ _ H); [left; right; assumption|right; assumption].
  - destruct H as [<-|H]; [right; lia|]. destruct (IH _ _ H); [left; assumption|right; lia].
Qed.

Lemma fill_autos_explicit_in : forall req n z, In z (explicit_ids req) -> In z (fill_autos n req).
Proof.
  induction req as [|r t IH]; intros n z H; [contradiction|].
  cbn [fill_autos]. cbn [explicit_ids flat_map] in H. destruct (explicit r) as [y|].
  - destruct H as [<-|H]; [left; reflexivity|right; apply IH; assumption].
  - right. apply IH. assumption.
Qed.

Lemma fill_autos_nodup : forall req n, NoDup (explicit_ids req) ->
  (forall z, In z (explicit_ids req) -> z < n) -> NoDup (fill_autos n req).
Proof.
  induction req as [|r t IH]; intros n Hnd Hlt; [constructor|].
  cbn [fill_autos]. cbn [explicit_ids flat_map] in Hnd, Hlt. destruct (explicit r) as [z|].
  - cbn [app] in Hnd. inversion Hnd as [|? ? Hz Hnd']; subst. constructor.
    + intros Hin. destruct (fill_autos_elems _ _ _ Hin) as [H|H]; [contradiction|].
      specialize (Hlt z (or_introl eq_refl)). lia.
    + apply IH; [assumption|]. intros y Hy. apply Hlt. right. assumption.
  - cbn [app] in Hnd, Hlt. constructor.
    + intros Hin. destruct (fill_autos_elems _ _ _ Hin) as [H|H]; [|lia]. specialize (Hlt n H). lia.
    + apply IH; [assumption|]. intros y Hy. specialize (Hlt y Hy). lia.
Qed.

Lemma fill_autos_shape : forall req n,
  Forall2 (fun r o => match explicit r with Some z => o = z | None => n <= o end) req (fill_autos n req).
Proof.
  induction req as [|r t IH]; intros n; [constructor|].
  cbn [fill_autos]. destruct (explicit r) as [z|] eqn:He.
  - constructor; [rewrite He; reflexivity|apply IH].
  - constructor; [rewrite He; lia|].
    eapply Forall2_impl; [|apply (IH (n + 1))]. intros a b Hab. cbv beta in *. destruct (explicit a); [assumption|lia].
Qed.

(* what validation guarantees about the ids then handed to the doc action *)
Lemma fixed_out_facts : forall req n0 n',
  1 <= n0 -> validate_fixed [] n0 req = PyOk n' ->
  let out := fill_autos n' req in
  NoDup out /\ (forall o, In o out -> 0 < o) /\
  Forall2 (fun r o => match explicit r with Some z => o = z | None => n0 <= o end) req out.
Proof.
  intros req n0 n' Hn0 Hv out.
  destruct (validate_ok _ _ _ _ Hv) as [Hn [Hg Hnd]].
  split; [apply fill_autos_nodup; [assumption|intros z Hz; apply (Hg z Hz)]|]. split.
  - intros o Ho. destruct (fill_autos_elems _ _ _ Ho) as [H|H]; [|lia].
    destruct (Hg o H) as [[G _] _]. lia.
  - eapply Forall2_impl; [|apply fill_autos_shape]. intros a b Hab. cbv beta in *.
    destruct (explicit a); [assumption|lia].
Qed.

Lemma fixed_add_accepted : forall rs req out rs',
  do_bulk_add_or_replace_fixed false rs req = Accepted out rs' ->
  exists n', validate_fixed [] (next_row_id rs) req = PyOk n' /\ out = fill_autos n' req /\
             existsb (fun r => row_in r rs) out = false /\ rs' = add_rows rs out.
Proof.
  intros rs req out rs' H. unfold do_bulk_add_or_replace_fixed in H.
  destruct (validate_fixed [] (next_row_id rs) req) as [n'|] eqn:Hv; [|discriminate].
  unfold finish, doc_bulk_add in H.
  destruct (existsb (fun r => row_in r rs) (fill_autos n' req)) eqn:Hex; [discriminate|]. inversion H; subst.
  exists n'. repeat split; try reflexivity. assumption.
Qed.

(* C27_alloc at full strength for the repaired code *)
Lemma alloc_fixed : forall rs req, wf_rows rs ->
  alloc_statement (do_bulk_add_or_replace_fixed false) rs req.
Proof.
  intros rs req Hwf out rs' H.
  destruct (fixed_add_accepted _ _ _ _ H) as [n' [Hv [-> [Hex ->]]]].
  destruct (fixed_out_facts req _ n' (next_row_id_pos rs) Hv) as [Hnd [Hpos Hsh]].
  split; [assumption|]. split; [|split; [|split]].
  - intros r Hr. eapply existsb_row_in_false; [eassumption|assumption|apply Hpos; assumption].
  - eapply Forall2_impl; [|exact Hsh]. intros a b Hab. cbv beta in *. destruct (explicit a); [assumption|].
    intros e He. apply next_row_id_gt in He. lia.
  - intros r. rewrite add_rows_In. split; [tauto|]. intros [Hr|Hr]; [tauto|]. right. split; [assumption|apply Hpos; assumption].
  - apply add_rows_wf. assumption.
Qed.

Lemma alloc_fixed_replace : forall old req, wf_rows old ->
  alloc_statement (replace_as_add do_bulk_add_or_replace_fixed old) [] req.
Proof.
  intros old req Hwf out rs' H. unfold replace_as_add, do_bulk_add_or_replace_fixed in H.
  destruct (validate_fixed [] 1 req) as [n'|] eqn:Hv; [|discriminate].
  cbn [finish] in H. inversion H; subst.
  destruct (fixed_out_facts req 1 n' (Z.le_refl 1) Hv) as [Hnd [Hpos Hsh]].
  split; [assumption|]. split; [intros r _ []|]. split; [|split].
  - eapply Forall2_impl; [|exact Hsh]. intros a b Hab. cbv beta in *. destruct (explicit a); [assumption|]. intros e [].
  - intros r. unfold doc_replace. rewrite add_rows_In. cbn [In]. split; [tauto|].
    intros [[]|Hr]. right. split; [assumption|apply Hpos; assumption].
  - apply add_rows_wf. apply wf_nil.
Qed.

(* C27_rejects at full strength for the repaired code *)
Lemma rejects_fixed : forall replace rs req, wf_rows rs ->
  rejects_statement (do_bulk_add_or_replace_fixed replace) (negb replace) rs req.
Proof.
  intros replace rs req Hwf Hbad.
  assert (E : exists e, do_bulk_add_or_replace_fixed replace rs req = Rejected e).
  { unfold do_bulk_add_or_replace_fixed.
    destruct (validate_fixed [] (if replace then 1 else next_row_id rs) req) as [n'|e] eqn:Hv;
      [|eexists; reflexivity].
    destruct (validate_ok _ _ _ _ Hv) as [_ [Hg Hnd]].
    destruct Hbad as [[z [Hz1 Hz2]]|[H0|[Hd|[Hc [z [Hz1 Hz2]]]]]].
    - exfalso. destruct (Hg z Hz1) as [[G _] _]. lia.
    - exfalso. destruct (Hg 0 H0) as [[G _] _]. lia.
    - contradiction.
    - destruct replace; [discriminate|]. unfold finish, doc_bulk_add.
      assert (Hex : existsb (fun r => row_in r rs) (fill_autos n' req) = true).
      { apply existsb_exists. exists z. split; [apply fill_autos_explicit_in; assumption|].
        unfold row_in. apply andb_true_iff. split; [|apply mem_In; assumption].
        apply Z.ltb_lt. destruct Hwf as [_ Hp]. rewrite Forall_forall in Hp. apply Hp. assumption. }
      rewrite Hex. eexists; reflexivity. }
  split; [assumption|]. destruct E as [e ->]. reflexivity.
Qed.

(* ... and it does not over-reject: every request whose explicit ids are usable is accepted *)
Lemma accepts_fixed : forall replace rs req, wf_rows rs ->
  (forall z, In z (explicit_ids req) -> 0 < z <= MAX_ROW_ID /\ (replace = false -> ~ In z rs)) ->
  NoDup (explicit_ids req) ->
  exists out rs', do_bulk_add_or_replace_fixed replace rs req = Accepted out rs'.
Proof.
  intros replace rs req Hwf Hg Hnd. unfold do_bulk_add_or_replace_fixed.
  destruct (validate_accepts req [] (if replace then 1 else next_row_id rs)) as [n' Hv].
  { intros z Hz. destruct (Hg z Hz) as [G1 G2]. split; [assumption|intros []]. }
  { assumption. }
  rewrite Hv. destruct replace; cbn [finish]; [eexists; eexists; reflexivity|].
  unfold doc_bulk_add.
  destruct (existsb (fun r => row_in r rs) (fill_autos n' req)) eqn:Hex; [|eexists; eexists; reflexivity].
  exfalso. apply existsb_exists in Hex. destruct Hex as [o [Ho1 Ho2]].
  unfold row_in in Ho2. apply andb_true_iff in Ho2. destruct Ho2 as [_ Ho2]. apply mem_In in Ho2.
  destruct (validate_ok _ _ _ _ Hv) as [Hn _].
  destruct (fill_autos_elems _ _ _ Ho1) as [H|H].
  - destruct (Hg o H) as [_ G]. apply (G eq_refl). assumption.
  - apply next_row_id_gt in Ho2. lia.
Qed.

(* The repair changes nothing for requests that are purely automatic: same ids, same rows. *)
Lemma fill_all_auto : forall req n, explicit_ids req = [] -> fill n req = PyOk (fill_autos n req).
Proof.
  induction req as [|r t IH]; intros n H; [reflexivity|].
  cbn [explicit_ids flat_map] in H. cbn [fill fill_autos]. destruct (explicit r) as [z|] eqn:He; [discriminate|].
  rewrite (fill_one_auto n r He). replace (Z.max n n + 1) with (n + 1) by lia.
  rewrite (IH (n + 1) H). reflexivity.
Qed.

Lemma validate_all_auto : forall req seen n, explicit_ids req = [] ->
  validate_fixed seen n req = PyOk n.
Proof.
  induction req as [|r t IH]; intros seen n H; [reflexivity|].
  cbn [explicit_ids flat_map] in H. cbn [validate_fixed]. destruct (explicit r); [discriminate|]. apply IH. assumption.
Qed.

Lemma fixed_same_when_all_auto : forall replace rs req, explicit_ids req = [] ->
  do_bulk_add_or_replace_fixed replace rs req = do_bulk_add_or_replace replace rs req.
Proof.
  intros replace rs req H. unfold do_bulk_add_or_replace_fixed, do_bulk_add_or_replace.
  rewrite (validate_all_auto req [] _ H), (fill_all_auto req _ H). reflexivity.
Qed.

(* ================================================================================================ *)
(* Part 5: the unchanged code violates the full statements (one witness per failure mode)           *)

Lemma wf_12 : wf_rows [1; 2].
Proof. split; repeat constructor; cbn; intuition lia. Qed.

(* BulkAddRecord T [5,5] on an empty table: returns [5,5], one row *)
Lemma refuted_repeat :
  do_bulk_add_or_replace false [] [Some 5; Some 5] = Accepted [5; 5] [5] /\
  ~ alloc_statement (do_bulk_add_or_replace false) [] [Some 5; Some 5] /\
  ~ rejects_statement (do_bulk_add_or_replace false) true [] [Some 5; Some 5].
Proof.
  split; [vm_compute; reflexivity|]. split.
  - intros H. destruct (H [5; 5] [5] eq_refl) as [Hnd _].
    inversion Hnd as [|? ? Hn _]. apply Hn. left. reflexivity.
  - intros H. destruct H as [[e He] _]; [|vm_compute in He; discriminate].
    right. right. left. intros Hnd. vm_compute in Hnd. inversion Hnd as [|? ? Hn _]. apply Hn. left. reflexivity.
Qed.

(* BulkAddRecord T [0]: returns [0], no row *)
Lemma refuted_zero :
  do_bulk_add_or_replace false [] [Some 0] = Accepted [0] [] /\
  ~ alloc_statement (do_bulk_add_or_replace false) [] [Some 0] /\
  ~ rejects_statement (do_bulk_add_or_replace false) true [] [Some 0].
Proof.
  split; [vm_compute; reflexivity|]. split.
  - intros H. destruct (H [0] [] eq_refl) as [_ [_ [_ [Hin _]]]].
    destruct (proj2 (Hin 0) (or_intror (or_introl eq_refl))).
  - intros H. destruct H as [[e He] _]; [|vm_compute in He; discriminate].
    right. left. left. reflexivity.
Qed.

(* BulkAddRecord T [None,3,None] on rows {1,2}: returns [3,3,5]; the request itself is satisfiable *)
Lemma refuted_auto_collision :
  do_bulk_add_or_replace false [1; 2] [None; Some 3; None] = Accepted [3; 3; 5] [1; 2; 3; 5] /\
  ~ alloc_statement (do_bulk_add_or_replace false) [1; 2] [None; Some 3; None] /\
  ~ bad_request true [1; 2] [None; Some 3; None].
Proof.
  split; [vm_compute; reflexivity|]. split.
  - intros H. destruct (H [3; 3; 5] [1; 2; 3; 5] eq_refl) as [Hnd _].
    inversion Hnd as [|? ? Hn _]. apply Hn. left. reflexivity.
  - intros [[z [Hz1 Hz2]]|[H0|[Hd|[_ [z [Hz1 Hz2]]]]]]; vm_compute in *.
    + destruct Hz1 as [<-|[]]. discriminate.
    + destruct H0 as [H0|[]]. discriminate.
    + apply Hd. repeat constructor. intros [].
    + destruct Hz1 as [<-|[]]. destruct Hz2 as [H|[H|[]]]; discriminate.
Qed.

(* the same two defects through ReplaceTableData *)
Lemma refuted_replace :
  do_bulk_add_or_replace true [1; 2] [Some 5; Some 5] = Accepted [5; 5] [5] /\
  do_bulk_add_or_replace true [1; 2] [Some 0] = Accepted [0] [] /\
  do_bulk_add_or_replace true [1; 2] [None; Some 1; None] = Accepted [1; 1; 3] [1; 3].
Proof. repeat split; vm_compute; reflexivity. Qed.

Lemma alloc_full_refuted : ~ alloc_full do_bulk_add_or_replace.
Proof.
  intros [H _]. apply (proj1 (proj2 refuted_auto_collision)). apply H. exact wf_12.
Qed.

Lemma rejects_full_refuted : ~ rejects_full do_bulk_add_or_replace.
Proof.
  intros H. apply (proj2 (proj2 refuted_repeat)). apply (H false). apply wf_nil.
Qed.

Lemma alloc_full_fixed : alloc_full do_bulk_add_or_replace_fixed.
Proof. split; [exact alloc_fixed|exact alloc_fixed_replace]. Qed.

Lemma rejects_full_fixed : rejects_full do_bulk_add_or_replace_fixed.
Proof. exact rejects_fixed. Qed.

(* on the three witnesses the repaired code rejects, rejects, and allocates distinct ids *)
Lemma fixed_on_witnesses :
  do_bulk_add_or_replace_fixed false [] [Some 5; Some 5] = Rejected PyValueError /\
  do_bulk_add_or_replace_fixed false [] [Some 0] = Rejected PyValueError /\
  do_bulk_add_or_replace_fixed false [1; 2] [None; Some 3; None] = Accepted [4; 3; 5] [1; 2; 4; 3; 5].
Proof. repeat split; vm_compute; reflexivity. Qed.
